(* Values of the individual authority scanners find_user_info and find_port on a composed authority sitting at
   any offset of a window (before ++ acompose a).  wf_aparts_s strengthens wf_aparts by "no '@' in the host",
   which every RFC host satisfies. *)
From Coq Require Import List NArith Bool Arith Lia.
Import ListNotations.
Require Import V.Regex V.Parse V.ParseProofs V.Auth V.AuthProofs V.Splice V.Setters V.AuthMut V.AuthMutProofs.
Local Open Scope nat_scope.

Lemma none_of_app D a b : none_of D (a ++ b) <-> none_of D a /\ none_of D b.
Proof. unfold none_of. apply Forall_app. Qed.

Definition wf_aparts_s (a : aparts) : Prop := wf_aparts a /\ none_of [AT] (ap_host a).

(* ---------- find_user_info ---------- *)
Lemma fui_found u rest start i : none_of [AT] u -> find_user_info_loop (u ++ AT :: rest) start i = Some (start, i + length u).
Proof.
  revert i. induction u as [|c u IH]; intros i H; simpl.
  - change (is AT AT) with true. cbn iota. f_equal. f_equal. lia.
  - apply none_of_cons in H as [Hc H]. kill_is c. rewrite IH by auto. f_equal. f_equal. lia.
Qed.
Lemma fui_none l start i : none_of [AT] l -> find_user_info_loop l start i = None.
Proof. revert i. induction l as [|c l IH]; intros i H; simpl; auto. apply none_of_cons in H as [Hc H]. kill_is c. auto. Qed.

Theorem find_user_info_value a before : wf_aparts_s a ->
  find_user_info (before ++ acompose a) (length before) =
  option_map (fun u => (length before, length before + length u)) (ap_userinfo a).
Proof.
  intros [[Hu Hh Hp] Hat]. unfold find_user_info. rewrite skipn_app_len. unfold acompose.
  destruct (ap_userinfo a) as [u|] eqn:Eu; cbn [opt_post option_map].
  - rewrite <- app_assoc. cbn [app]. apply fui_found. eapply none_of_weaken; [|exact (Hu u eq_refl)]. simpl; tauto.
  - cbn [app]. apply fui_none. apply none_of_app. split; [exact Hat|].
    destruct (ap_port a) as [p|] eqn:Ep; cbn [opt_pre]; [|constructor].
    constructor; [simpl; unfold COLON, AT; intros [E|[]]; discriminate | exact (Hp p eq_refl)].
Qed.

(* ---------- find_port ---------- *)
Lemma fp_inner_found pre rest i : none_of [AT] pre -> fp_inner (pre ++ AT :: rest) i = inl (rest, S (i + length pre)).
Proof.
  revert i. induction pre as [|c pre IH]; intros i H; simpl.
  - change (is AT AT) with true. cbn iota. f_equal. f_equal. lia.
  - apply none_of_cons in H as [Hc H]. kill_is c. rewrite IH by auto. f_equal. f_equal. lia.
Qed.
Lemma fp_inner_none l i : none_of [AT] l -> fp_inner l i = inr (i + length l).
Proof.
  revert i. induction l as [|c l IH]; intros i H; simpl; [f_equal; lia|].
  apply none_of_cons in H as [Hc H]. kill_is c. rewrite IH by auto. f_equal. lia.
Qed.
Lemma drop_to_rbr_found body rest i : none_of [RBR] body -> drop_to_rbr (body ++ RBR :: rest) i = (RBR :: rest, i + length body).
Proof.
  revert i. induction body as [|c body IH]; intros i H; simpl.
  - change (is RBR RBR) with true. cbn iota. f_equal. lia.
  - apply none_of_cons in H as [Hc H]. kill_is c. rewrite IH by auto. f_equal. lia.
Qed.

(* plain bytes (neither '[' nor ':') are skipped one per unit of fuel *)
Lemma fpl_skip pre : forall rest f i, none_of [LBR; COLON] pre ->
  find_port_loop (length pre + f) (pre ++ rest) i = find_port_loop f rest (i + length pre).
Proof.
  induction pre as [|c pre IH]; intros rest f i H; cbn [length app plus].
  - f_equal. lia.
  - apply none_of_cons in H as [Hc H]. cbn [find_port_loop]. kill_is c. rewrite IH by auto. f_equal. lia.
Qed.
Lemma fpl_colon_user pre rest f i : none_of [AT] pre ->
  find_port_loop (S f) (COLON :: pre ++ AT :: rest) i = find_port_loop f rest (S (S (i + length pre))).
Proof.
  intros H. cbn [find_port_loop]. change (is COLON LBR) with false. change (is COLON COLON) with true. cbn iota.
  change (COLON :: pre ++ AT :: rest) with ((COLON :: pre) ++ AT :: rest).
  rewrite fp_inner_found.
  - cbn [length]. f_equal. lia.
  - constructor; auto. simpl. unfold COLON, AT. intros [E|[]]; discriminate.
Qed.
Lemma fpl_literal body rest f i : none_of [RBR] body ->
  find_port_loop (S f) (LBR :: body ++ RBR :: rest) i = find_port_loop f rest (i + length body + 2).
Proof.
  intros H. cbn [find_port_loop]. change (is LBR LBR) with true. cbn iota.
  change (LBR :: body ++ RBR :: rest) with ((LBR :: body) ++ RBR :: rest).
  rewrite drop_to_rbr_found.
  - cbn [length]. f_equal. lia.
  - constructor; auto. simpl. unfold LBR, RBR. intros [E|[]]; discriminate.
Qed.
Lemma fpl_port p f i : none_of [AT] p -> find_port_loop (S f) (COLON :: p) i = Some (S i, S (i + length p)).
Proof.
  intros H. cbn [find_port_loop]. change (is COLON LBR) with false. change (is COLON COLON) with true. cbn iota.
  rewrite fp_inner_none.
  - cbn [length]. f_equal. f_equal. lia.
  - constructor; auto. simpl. unfold COLON, AT. intros [E|[]]; discriminate.
Qed.
Lemma fpl_end f i : find_port_loop f [] i = None.
Proof. destruct f; reflexivity. Qed.

(* a string is colon-free or splits at its first colon *)
Lemma split_first_colon u : none_of [COLON] u \/ exists p1 p2, u = p1 ++ COLON :: p2 /\ none_of [COLON] p1.
Proof.
  induction u as [|c u IH]; [left; constructor|].
  destruct (is c COLON) eqn:E.
  - apply is_true in E. subst. right. exists [], u. split; [reflexivity | constructor].
  - apply is_false in E. destruct IH as [IH|(p1 & p2 & -> & H1)].
    + left. constructor; auto. simpl. intros [E'|[]]; congruence.
    + right. exists (c :: p1), p2. split; [reflexivity|]. constructor; auto. simpl. intros [E'|[]]; congruence.
Qed.

(* the tail after the user info: host and optional port *)
Lemma fpl_host_port a f i : wf_aparts a -> length (ap_host a ++ opt_pre [COLON] (ap_port a)) <= f ->
  find_port_loop f (ap_host a ++ opt_pre [COLON] (ap_port a)) i =
  option_map (fun p => (i + length (ap_host a) + 1, i + length (ap_host a) + 1 + length p)) (ap_port a).
Proof.
  intros [Hu Hh Hp] Hf. rewrite app_length in Hf.
  assert (Tail : forall f' j, length (opt_pre [COLON] (ap_port a)) <= f' ->
            find_port_loop f' (opt_pre [COLON] (ap_port a)) j = option_map (fun p => (j + 1, j + 1 + length p)) (ap_port a)).
  { intros f' j Hf'. destruct (ap_port a) as [p|] eqn:Ep; cbn [opt_pre option_map app] in *.
    - destruct f' as [|f']; [cbn [length] in Hf'; lia|]. rewrite fpl_port by (apply Hp; reflexivity). f_equal. f_equal; lia.
    - apply fpl_end. }
  destruct Hh as [(body & Eh & Hb) | Hplain].
  - rewrite Eh in *. cbn [app]. rewrite <- app_assoc. cbn [app].
    cbn [length] in Hf. rewrite app_length in Hf. cbn [length] in Hf.
    destruct f as [|f]; [lia|]. rewrite fpl_literal by auto.
    rewrite Tail by lia.
    destruct (ap_port a); cbn [option_map]; [|reflexivity]. f_equal. cbn [length]. rewrite app_length. cbn [length]. f_equal; lia.
  - replace f with (length (ap_host a) + (f - length (ap_host a))) by lia.
    rewrite fpl_skip by (eapply none_of_weaken; [|exact Hplain]; simpl; tauto).
    rewrite Tail by lia. destruct (ap_port a); cbn [option_map]; [|reflexivity]. f_equal; try (f_equal; lia).
Qed.

Theorem find_port_value a before : wf_aparts a ->
  find_port (before ++ acompose a) (length before) =
  option_map (fun p => (length before + length (acompose a) - length p, length before + length (acompose a))) (ap_port a).
Proof.
  intros W. pose proof W as [Hu Hh Hp]. unfold find_port. rewrite skipn_app_len.
  set (fuel := S (length (before ++ acompose a))).
  assert (Hfuel : length (acompose a) + 1 <= fuel) by (unfold fuel; rewrite app_length; lia).
  assert (Hlen : length (acompose a) = length (ui_part a) + length (ap_host a) + length (port_part a)) by (rewrite acompose_parts, !app_length; lia).
  assert (Hres : forall j, j = length before + length (ui_part a) ->
    option_map (fun p => (j + length (ap_host a) + 1, j + length (ap_host a) + 1 + length p)) (ap_port a) =
    option_map (fun p => (length before + length (acompose a) - length p, length before + length (acompose a))) (ap_port a)).
  { intros j ->. unfold port_part in Hlen. destruct (ap_port a) as [p|]; cbn [option_map opt_pre] in *; [|reflexivity].
    cbn [app length] in Hlen. f_equal. f_equal; lia. }
  set (La := length (acompose a)) in *. clearbody La.
  unfold acompose. unfold ui_part in *. destruct (ap_userinfo a) as [u|] eqn:Eu; cbn [opt_post length app] in *.
  - specialize (Hu u eq_refl). rewrite <- app_assoc. cbn [app].
    assert (HuAT : none_of [AT] u) by (eapply none_of_weaken; [|exact Hu]; simpl; tauto).
    assert (HuL : none_of [LBR] u) by (eapply none_of_weaken; [|exact Hu]; simpl; tauto).
    rewrite app_length in Hlen, Hres. cbn [length] in Hlen, Hres.
    destruct (split_first_colon u) as [Hnc | (p1 & p2 & -> & H1)].
    + (* no colon in the user info: skipped byte by byte, then the '@' *)
      replace fuel with (length (u ++ [AT]) + (fuel - length (u ++ [AT]))) by (rewrite app_length; cbn [length]; lia).
      replace (u ++ AT :: ap_host a ++ opt_pre [COLON] (ap_port a)) with ((u ++ [AT]) ++ ap_host a ++ opt_pre [COLON] (ap_port a)) by (rewrite <- app_assoc; reflexivity).
      rewrite fpl_skip.
      * rewrite fpl_host_port by (auto; rewrite !app_length in *; cbn [length] in *; unfold port_part in Hlen; lia).
        apply Hres. rewrite app_length. cbn [length]. lia.
      * apply none_of_app. split.
        -- unfold none_of in *. rewrite Forall_forall in *. intros c Hc [E|[E|[]]]; subst; [apply (HuL _ Hc) | apply (Hnc _ Hc)]; simpl; auto.
        -- constructor; [|constructor]. simpl. unfold AT, LBR, COLON. intros [E|[E|[]]]; discriminate.
    + (* a colon in the user info: the inner loop runs to the '@' and the scan continues after it *)
      apply none_of_app in HuAT as [HA1 HA2]. apply none_of_cons in HA2 as [_ HA2].
      apply none_of_app in HuL as [HL1 _].
      rewrite !app_length in Hlen, Hres. cbn [length] in Hlen, Hres.
      replace fuel with (length p1 + (fuel - length p1)) by lia.
      rewrite <- app_assoc. cbn [app].
      rewrite fpl_skip.
      * replace (fuel - length p1) with (S (fuel - length p1 - 1)) by lia.
        rewrite fpl_colon_user by auto.
        rewrite fpl_host_port by (auto; rewrite !app_length in *; unfold port_part in Hlen; lia).
        apply Hres. lia.
      * unfold none_of in *. rewrite Forall_forall in *. intros c Hc [E|[E|[]]]; subst; [apply (HL1 _ Hc) | apply (H1 _ Hc)]; simpl; auto.
  - rewrite fpl_host_port by (auto; rewrite !app_length in *; unfold port_part in Hlen; lia). apply Hres. lia.
Qed.
