From Coq Require Import List NArith Bool Arith Lia.
Import ListNotations.
Require Import V.Regex V.Parse V.ParseProofs V.DataUrl.
Local Open Scope nat_scope.

Lemma slice_at_any (pre x post : str) : slice (pre ++ x ++ post) (length pre, length pre + length x) = x.
Proof.
  unfold slice. cbn [fst snd]. rewrite skipn_app_len.
  replace (length pre + length x - length pre) with (length x) by lia.
  rewrite firstn_app, Nat.sub_diag, firstn_all. simpl. apply app_nil_r.
Qed.

Lemma mt_not_delim c : mt_char c = true -> is c SEMI = false /\ is c COMMA = false.
Proof.
  unfold mt_char, is, SEMI, COMMA. intros H. split; apply N.eqb_neq; intros ->; vm_compute in H; discriminate.
Qed.

(* shape of an accepted text *)
Lemma strip_prefix_app pre : forall l suf, strip_prefix pre l = Some suf -> l = pre ++ suf.
Proof.
  induction pre as [|p pre IH]; intros l suf H; simpl in H.
  - injection H as <-. reflexivity.
  - destruct l as [|c l]; [discriminate|]. destruct (N.eqb p c) eqn:E; [|discriminate]. apply N.eqb_eq in E. subst. simpl. f_equal. auto.
Qed.

Lemma dloop_shape l : forall i me b ds, dloop l i = Some (me, b, ds) ->
  exists media data, Forall (fun c => mt_char c = true) media /\
    l = media ++ (if b then B64 else []) ++ COMMA :: data /\
    me = 5 + i + length media /\ ds = me + (if b then 7 else 0) + 1.
Proof.
  induction l as [|c rest IH]; intros i me b ds H; cbn [dloop] in H; [discriminate|].
  destruct (is c COMMA) eqn:Ec.
  - injection H as <- <- <-. apply is_true in Ec. subst c. exists [], rest. simpl. repeat split; auto; lia.
  - destruct (is c SEMI) eqn:Es.
    + destruct (str_eqb (firstn 7 rest) B64C) eqn:E7; [|discriminate]. injection H as <- <- <-.
      apply str_eqb_eq in E7. apply is_true in Es. subst c.
      exists [], (skipn 7 rest). split; [constructor|]. split.
      * simpl. rewrite <- (firstn_skipn 7 rest) at 1. rewrite E7. reflexivity.
      * simpl. split; lia.
    + destruct (mt_char c) eqn:Em; [|discriminate].
      destruct (IH _ _ _ _ H) as (media & data & Hm & -> & -> & ->).
      exists (c :: media), data. split; [constructor; auto|]. simpl. repeat split; auto; lia.
Qed.

Lemma first_sc_skip pre : forall rest i, Forall (fun c => is c SEMI = false /\ is c COMMA = false) pre ->
  first_sc (pre ++ rest) i = first_sc rest (i + length pre).
Proof.
  induction pre as [|c pre IH]; intros rest i H; simpl.
  - f_equal. lia.
  - inversion H as [|? ? [H1 H2] H']; subst. rewrite H1, H2. simpl. rewrite IH by auto. f_equal. lia.
Qed.
Lemma first_comma_skip pre : forall rest i, Forall (fun c => is c COMMA = false) pre ->
  first_comma (pre ++ rest) i = first_comma rest (i + length pre).
Proof.
  induction pre as [|c pre IH]; intros rest i H; simpl.
  - f_equal. lia.
  - inversion H as [|? ? H1 H']; subst. rewrite H1. rewrite IH by auto. f_equal. lia.
Qed.

Lemma data_no_delim : Forall (fun c => is c SEMI = false /\ is c COMMA = false) DATA.
Proof. repeat constructor. Qed.
Lemma b64_no_comma : Forall (fun c => is c COMMA = false) B64.
Proof. repeat constructor. Qed.

(* the coherence theorem: what the owned form stores is what the borrowed form re-computes, and the parts reassemble the text *)
Theorem dataurl_coherent u d : dparse u = Some d ->
  exists media data,
    u = DATA ++ media ++ (if o_base64 d then B64 else []) ++ COMMA :: data /\
    Forall (fun c => mt_char c = true) media /\
    o_media_type u d = media /\ o_data u d = data /\
    b_media_type u = Some media /\ b_base64 u = Some (o_base64 d) /\ b_data u = Some data.
Proof.
  unfold dparse. destruct (strip_prefix DATA u) as [suf|] eqn:Ep; [|discriminate]. intros H.
  apply strip_prefix_app in Ep. destruct d as [[me b] ds].
  destruct (dloop_shape suf 0 me b ds H) as (media & data & Hm & -> & -> & ->).
  exists media, data. subst u. unfold o_base64, o_media_type, o_data, b_media_type, b_base64, b_data. cbn [fst snd].
  assert (Hmd : Forall (fun c => is c SEMI = false /\ is c COMMA = false) media).
  { eapply Forall_impl; [|exact Hm]. intros c Hc. now apply mt_not_delim. }
  assert (Hmc : Forall (fun c => is c COMMA = false) media) by (eapply Forall_impl; [|exact Hmd]; intros c [_ Hc]; exact Hc).
  split; [reflexivity|]. split; [exact Hm|].
  split.
  { change (slice (DATA ++ media ++ ((if b then B64 else []) ++ COMMA :: data)) (length DATA, 5 + 0 + length media) = media).
    replace (5 + 0 + length media) with (length DATA + length media) by reflexivity. apply slice_at_any. }
  split.
  { destruct b; cbn [app].
    - replace (5 + 0 + length media + 7 + 1) with (length (DATA ++ media ++ B64 ++ [COMMA])) by (rewrite !app_length; simpl; lia).
      replace (DATA ++ media ++ B64 ++ COMMA :: data) with ((DATA ++ media ++ B64 ++ [COMMA]) ++ data) by (rewrite <- !app_assoc; reflexivity).
      apply skipn_app_len.
    - replace (5 + 0 + length media + 0 + 1) with (length (DATA ++ media ++ [COMMA])) by (rewrite !app_length; simpl; lia).
      replace (DATA ++ media ++ COMMA :: data) with ((DATA ++ media ++ [COMMA]) ++ data) by (rewrite <- !app_assoc; reflexivity).
      apply skipn_app_len. }
  rewrite !(first_sc_skip DATA) by apply data_no_delim. rewrite !(first_sc_skip media) by exact Hmd.
  rewrite (first_comma_skip DATA) by (eapply Forall_impl; [|apply data_no_delim]; intros c [_ Hc]; exact Hc).
  rewrite (first_comma_skip media) by exact Hmc.
  assert (Hc : forall k r, first_comma (COMMA :: r) k = Some k) by (intros; reflexivity).
  assert (Hs : forall k r, first_sc (COMMA :: r) k = Some (k, COMMA)) by (intros; reflexivity).
  assert (Hs2 : forall k r, first_sc (B64 ++ r) k = Some (k, SEMI)) by (intros; reflexivity).
  destruct b; cbn [app].
  - rewrite Hs2. rewrite (first_comma_skip B64) by apply b64_no_comma. rewrite Hc. cbn [option_map fst snd].
    split; [|split].
    + f_equal. replace (0 + length DATA + length media) with (length DATA + length media) by lia.
      change (slice (DATA ++ media ++ (B64 ++ COMMA :: data)) (length DATA, length DATA + length media) = media). apply slice_at_any.
    + reflexivity.
    + f_equal.
      replace (DATA ++ media ++ B64 ++ COMMA :: data) with ((DATA ++ media ++ B64 ++ [COMMA]) ++ data) by (rewrite <- !app_assoc; reflexivity).
      apply skipn_app_len'. rewrite !app_length. simpl. lia.
  - rewrite Hs, Hc. cbn [option_map fst snd].
    split; [|split].
    + f_equal. replace (0 + length DATA + length media) with (length DATA + length media) by lia.
      change (slice (DATA ++ media ++ (COMMA :: data)) (length DATA, length DATA + length media) = media). apply slice_at_any.
    + reflexivity.
    + f_equal.
      replace (DATA ++ media ++ COMMA :: data) with ((DATA ++ media ++ [COMMA]) ++ data) by (rewrite <- !app_assoc; reflexivity).
      apply skipn_app_len'. rewrite !app_length. simpl. lia.
Qed.
