(* C15, generalised: the directory prefixes of a and b may differ literally as long as they are segment-wise equal after
   percent-decoding (what strip_common compares).  relative_to returns the same reference; resolving it gives a with
   b's spelling of the common prefix, which is == a. *)
From Coq Require Import List NArith Bool Arith Lia.
Import ListNotations.
Require Import V.Regex V.Parse V.ParseProofs V.Parse2 V.Parse2Proofs V.ScanValues V.PathSpec V.Splice V.Setters V.Iter V.PathQ V.Push V.PathMut V.PathMutProofs
  V.SetPath V.SetAuth V.SetScheme V.SetFragment V.C05Proofs V.Reference V.GetProofs V.Rfc V.PushWf V.RefPath V.IterProofs V.IterAll V.C09Proofs V.C12Proofs V.NormProofs V.PopProofs V.ParentProofs V.SymProofs
  V.MergeProofs V.ResolveProofs V.ResolveProofs2 V.ResolveProofs3 V.ResolveProofs4 V.Ord V.Cmp V.CmpProofs V.C02Proofs V.C16Proofs V.RelProofs.
Local Open Scope nat_scope.

Section RoundTrip2.
  Variables pa pb : parts. Variable s : str.
  Hypothesis Wa : wf_parts pa. Hypothesis Wb : wf_parts pb.
  Hypothesis Has : p_scheme pa = Some s. Hypothesis Hbs : p_scheme pb = Some s.
  Hypothesis Hae : p_authority pa = p_authority pb.
  Hypothesis Hax : forall x, p_authority pa = Some x -> eq_authority x x = Some true.
  Local Notation xa := (p_path pa).
  Local Notation xb := (p_path pb).
  Hypothesis Haa : is_abs xa = true. Hypothesis Hab : is_abs xb = true.
  Variables ca cb ss bs : list str.
  Hypothesis Hsa : segs xa = ca ++ ss.
  Hypothesis Hsb : removelast (segs xb) = cb ++ bs.
  Hypothesis Hpa : plain (segs xa). Hypothesis Hpb : plain (segs xb).
  Hypothesis Hna : no_empty_but_last xa. Hypothesis Hnb : no_empty_but_last xb.
  Hypothesis Hstrip : strip_common (ca ++ ss) (cb ++ bs) = Some (ss, bs).
  Hypothesis Hss : ss <> [].
  Hypothesis Hshield : bs = [] -> match ss with x :: _ => x <> [] /\ colon_first x = false | [] => False end.

  Local Notation dots := (repeat DOTDOT (length bs)).
  Local Notation v := (render false (repeat DOTDOT (length bs) ++ ss)).

  Lemma D_clean : clean (cb ++ bs). Proof. rewrite <- Hsb. apply clean_dir, Hnb. Qed.
  Lemma D_plain : plain (cb ++ bs). Proof. rewrite <- Hsb. apply plain_removelast, Hpb. Qed.
  Lemma ss_plain : plain ss. Proof. pose proof Hpa as H. rewrite Hsa in H. apply plain_app in H. tauto. Qed.
  Lemma ss_noslash : Forall noslash ss. Proof. pose proof (segs_noslash xa) as H. rewrite Hsa in H. apply Forall_app in H. tauto. Qed.
  Lemma ss_noqh : Forall (none_of [QM; HASH]) ss.
  Proof. pose proof (segs_none_of _ xa (wf_path pa Wa)) as H. rewrite Hsa in H. apply Forall_app in H. tauto. Qed.
  Lemma ss_no_inner : no_inner_empty ss.
  Proof. intros l' x E Hi. apply (Hna (ca ++ l') x); [rewrite Hsa, E, app_assoc; reflexivity | apply in_or_app; right; exact Hi]. Qed.

  (* the pushes of relative_to produce v, a well-formed relative path *)
  Lemma pushes_value : bind (push_all [] (map (fun _ => DOTDOT) bs)) (fun r => push_all r ss) = Some v /\ wf_path_in false false v.
  Proof.
    rewrite map_const_dots.
    assert (Hrel : forall l, clean l -> (forall x, In x l -> In x ss) -> Forall rel_seg l).
    { intros l Cl Hsub. unfold clean in Cl. rewrite Forall_forall in *. intros x Hx. split; [apply Cl, Hx|].
      pose proof ss_noqh as Hq. rewrite Forall_forall in Hq. apply Hq, Hsub, Hx. }
    destruct (no_inner_split ss ss_noslash ss_no_inner Hss) as [CL|(ss0 & E0 & CL)].
    - destruct (rel_pushes (length bs) ss (Hrel _ CL (fun x Hx => Hx)) ss_plain) as (E & _ & W).
      + intros Ek. apply length_zero_iff_nil in Ek. specialize (Hshield Ek). destruct ss; [exact I | tauto].
      + auto.
    - assert (Hsub : forall x, In x ss0 -> In x ss) by (intros x Hx; rewrite E0; apply in_or_app; left; exact Hx).
      assert (Hp0 : plain ss0) by (pose proof ss_plain as H; rewrite E0 in H; apply plain_app in H; tauto).
      destruct (rel_pushes_trailing (length bs) ss0 (Hrel _ CL Hsub) Hp0) as (E & W).
      + intros Ek. apply length_zero_iff_nil in Ek. specialize (Hshield Ek). rewrite E0 in Hshield.
        destruct ss0 as [|x r]; cbn [app] in Hshield; [destruct Hshield as [H _]; now apply H | tauto].
      + rewrite E0. auto.
  Qed.

  Lemma parent_value : pq_parent_or_empty_text xb = Some (render true (cb ++ bs)).
  Proof.
    rewrite (parent_or_empty_spec xb (wf_path pb Wb)). f_equal.
    assert (C : clean (removelast (segs xb))) by (rewrite Hsb; exact D_clean).
    rewrite (parent_text_clean xb (wf_path pb Wb) C), Hab, Hsb. reflexivity.
  Qed.
  Lemma parent_noqh : none_of [QM; HASH] (render true (cb ++ bs)).
  Proof.
    pose proof (none_of_render_prefix xb (wf_path pb Wb)) as H.
    assert (C : clean (removelast (segs xb))) by (rewrite Hsb; exact D_clean).
    rewrite (parent_text_clean xb (wf_path pb Wb) C), Hab, Hsb in H. exact H.
  Qed.
  Lemma nsegs_parent : nsegs (render true (cb ++ bs)) = cb ++ bs.
  Proof.
    destruct (segs_render true (cb ++ bs) D_clean) as [Es _].
    rewrite (nsegs_plain _ parent_noqh); rewrite Es; [reflexivity | exact D_plain].
  Qed.
  Lemma last_value : exists o, pq_last xb = Some o /\ option_map (slice xb) o = last_opt (segs xb).
  Proof.
    pose proof (pq_last_spec xb (wf_path pb Wb)) as H. destruct (pq_last xb) as [[r|]|]; [| |contradiction].
    - exists (Some r). split; [reflexivity | symmetry; exact H].
    - exists None. split; [reflexivity|]. rewrite H. reflexivity.
  Qed.

  Local Notation qa := (p_query pa).
  Local Notation fa := (p_fragment pa).
  Definition rt_cond : bool :=
    (is_some (p_query pa) || is_some (p_fragment pa)) &&
    match last_opt (segs (p_path pb)) with Some l => list_eqb (render false (repeat DOTDOT (length bs) ++ ss)) l | None => false end.
  Definition rt_path : str := if rt_cond then [] else render false (repeat DOTDOT (length bs) ++ ss).
  Definition rt_ref : parts := with_fragment (with_query (relp rt_path) (p_query pa)) (p_fragment pa).

  Lemma rt_path_wf : wf_path_in false false rt_path.
  Proof. unfold rt_path. destruct rt_cond; [exact wf_rel_nil | exact (proj2 pushes_value)]. Qed.
  Lemma qa_ok : forall x, qa = Some x -> none_of [HASH] x. Proof. intros x E. exact (wf_query pa Wa x E). Qed.
  Lemma rt_ref_wf : wf_parts rt_ref.
  Proof. unfold rt_ref. apply set_fragment_wf, set_query_wf; [apply relp_wf, rt_path_wf | exact qa_ok]. Qed.

  Theorem relative_to_value : relative_to (compose pa) (compose pb) = Some (compose rt_ref).
  Proof.
    unfold relative_to.
    rewrite (get_scheme_compose pa Wa), (get_scheme_compose pb Wb), Has, Hbs, list_eqb_refl.
    rewrite (get_authority_compose pa Wa), (get_authority_compose pb Wb), <- Hae.
    assert (Hau : match p_authority pa, p_authority pa with Some x, Some y => eq_authority x y | _, _ => Some true end = Some true).
    { destruct (p_authority pa) as [x|] eqn:Ex; [apply Hax; reflexivity | reflexivity]. }
    rewrite Hau. cbn [bind negb].
    rewrite (get_path_compose pa Wa), (get_path_compose pb Wb), parent_value. cbn [bind].
    rewrite (nsegs_plain xa (wf_path pa Wa) Hpa), Hsa, nsegs_parent, Haa, Hab. cbn [Bool.eqb]. rewrite Hstrip. cbn [bind].
    destruct pushes_value as [E W].
    destruct (push_all [] (map (fun _ => DOTDOT) bs)) as [r1|]; [|discriminate E]. cbn [bind] in E |- *. rewrite E. cbn [bind].
    destruct last_value as (o & Eo & Elast). rewrite Eo. cbn [bind]. rewrite Elast.
    rewrite (get_query_compose pa Wa), (get_fragment_compose pa Wa).
    assert (Egp : get_path v = v).
    { rewrite <- (compose_relp v) at 1. apply (get_path_compose (relp v) (relp_wf v W)). }
    rewrite Egp.
    match goal with |- bind (if ?c then _ else _) _ = _ => assert (Ec0 : c = rt_cond) by reflexivity; rewrite Ec0; clear Ec0 end.
    unfold rt_ref, rt_path. destruct rt_cond.
    - rewrite <- (compose_relp v) at 1. destruct (ref_clear_spec (relp v) (relp_wf v W)) as [Ec Wc]. unfold ref_clear in Ec. rewrite Ec. cbn [bind].
      assert (Ecl : with_path (relp v) (clear1 (p_path (relp v))) = relp []).
      { unfold clear1. cbn [relp p_path]. destruct (segs_render_prefix false (repeat DOTDOT (length bs) ++ ss)) as [_ Ea].
        - apply Forall_app. split; [apply clean_noslash, clean_dots | exact ss_noslash].
        - intros _ r Er. destruct bs as [|b0 bs0]; cbn [length repeat app] in Er; [|discriminate Er].
          specialize (Hshield eq_refl). rewrite Er in Hshield. destruct Hshield as [H _]. now apply H.
        - intros [Ef _]. discriminate Ef.
        - rewrite Ea. reflexivity. }
      rewrite Ecl. rewrite (set_query_spec (relp []) qa (relp_wf [] wf_rel_nil)). cbn [bind].
      apply set_fragment_spec. apply set_query_wf; [apply relp_wf, wf_rel_nil | exact qa_ok].
    - cbn [bind]. rewrite <- (compose_relp v) at 1. rewrite (set_query_spec (relp v) qa (relp_wf v W)). cbn [bind].
      apply set_fragment_spec. apply set_query_wf; [apply relp_wf, W | exact qa_ok].
  Qed.

  (* ---------- resolving the relative reference against b ---------- *)
  Lemma segs_v : segs v = repeat DOTDOT (length bs) ++ ss /\ is_abs v = false.
  Proof.
    apply segs_render_prefix.
    - apply Forall_app. split; [apply clean_noslash, clean_dots | exact ss_noslash].
    - intros _ r Er. destruct bs as [|b0 bs0]; cbn [length repeat app] in Er; [|discriminate Er].
      specialize (Hshield eq_refl). rewrite Er in Hshield. destruct Hshield as [H _]. now apply H.
    - intros [Ef _]. discriminate Ef.
  Qed.
  Lemma v_no_inner : no_empty_but_last v.
  Proof.
    intros l' x E Hi. rewrite (proj1 segs_v) in E.
    destruct (@last_case str ss) as [E0|(s1 & y & E0)]; [contradiction|].
    rewrite E0, app_assoc in E. apply app_inj_tail in E as [E _]. subst l'.
    apply in_app_or in Hi as [Hi|Hi].
    - apply repeat_spec in Hi. discriminate Hi.
    - exact (ss_no_inner s1 y E0 Hi).
  Qed.
  Lemma last_ss_not_dot : last_is_dot (cb ++ bs ++ repeat DOTDOT (length bs) ++ ss) = false.
  Proof.
    destruct (@last_case str ss) as [E0|(s1 & y & E0)]; [contradiction|].
    unfold last_is_dot. rewrite E0, !app_assoc, rev_app_distr. cbn [rev app].
    pose proof ss_plain as H. rewrite E0 in H. apply plain_app in H as [_ (H1 & H2 & _)]. rewrite H1, H2. reflexivity.
  Qed.
  Lemma common_plain : plain cb /\ plain bs.
  Proof. pose proof D_plain as H. apply plain_app in H. exact H. Qed.
  Lemma xa_text : render true (ca ++ ss) = xa.
  Proof. rewrite <- Hsa, <- Haa. apply render_segs. Qed.

  Hypothesis Hqi : p_query pa = None -> p_fragment pa <> None -> xb = render true (cb ++ ss) -> p_query pb = None.

  (* when relative_to clears the path, b's path is b's spelling of a's path *)
  Lemma cleared_same_path : rt_cond = true -> xb = render true (cb ++ ss) /\ (qa = None -> fa <> None).
  Proof.
    unfold rt_cond. intros Hc. apply andb_true_iff in Hc as [Hq Hl]. split.
    - destruct (last_opt (segs xb)) as [l|] eqn:El; [|discriminate Hl]. apply list_eqb_eq in Hl.
      unfold last_opt in El. destruct (rev (segs xb)) as [|l0 r0] eqn:Er; [discriminate El|]. injection El as ->.
      assert (Esb : segs xb = rev r0 ++ [l]) by (rewrite <- (rev_involutive (segs xb)), Er; reflexivity).
      assert (Hl_plain : is_dotdot l = false /\ noslash l).
      { split.
        - pose proof Hpb as H. rewrite Esb in H. apply plain_app in H as [_ (_ & H2 & _)]. exact H2.
        - pose proof (segs_noslash xb) as H. rewrite Esb in H. apply Forall_app in H as [_ H]. now inversion H. }
      destruct Hl_plain as [Hdd Hns].
      assert (Hsegs : repeat DOTDOT (length bs) ++ ss = segs l) by (rewrite <- (proj1 segs_v), Hl; reflexivity).
      destruct l as [|c0 t0].
      + cbn [segs] in Hsegs. apply app_eq_nil in Hsegs as [_ E]. contradiction.
      + assert (Hc0 : is c0 SLASH = false) by (inversion Hns; subst; now apply is_false).
        assert (Esl : segs (c0 :: t0) = [c0 :: t0]) by (unfold segs; rewrite Hc0; now apply split_noslash).
        rewrite Esl in Hsegs.
        assert (Eb : bs = []).
        { destruct bs as [|b0 bs0]; [reflexivity|]. cbn [length repeat app] in Hsegs. injection Hsegs as E1 E2 E3. subst c0 t0. vm_compute in Hdd. discriminate Hdd. }
        rewrite Eb in Hsegs, Hsb. cbn [length repeat app] in Hsegs. rewrite app_nil_r in Hsb.
        rewrite <- (render_segs xb), Hab, Hsegs, Esb. f_equal.
        assert (Erl : removelast (segs xb) = rev r0) by (rewrite Esb; apply removelast_last). rewrite <- Erl, Hsb. reflexivity.
    - intros Eq Ef. rewrite Eq, Ef in Hq. discriminate Hq.
  Qed.

  Theorem round_trip_respelled : resolve (compose (rt_ref)) (compose pb) = Some (compose (with_path pa (render true (cb ++ ss)))).
  Proof.
    assert (Hne : no_empty_but_last (p_path (rt_ref))).
    { cbn [rt_ref with_fragment with_query relp p_path]. unfold rt_path. destruct (rt_cond); [|exact v_no_inner].
      intros l' x E. destruct l'; discriminate E. }
    rewrite (resolve_is_rfc pb (rt_ref) s Wb rt_ref_wf Hbs Hne (fun _ => Hnb)). f_equal. f_equal.
    assert (Epa : with_path pa (render true (cb ++ ss)) = {| p_scheme := Some s; p_authority := p_authority pb; p_path := render true (cb ++ ss); p_query := qa; p_fragment := fa |}).
    { unfold with_path. rewrite <- Hae, <- Has. reflexivity. }
    rewrite Epa. unfold rfc_target. cbn [rt_ref with_fragment with_query relp p_scheme p_authority p_path p_query p_fragment].
    unfold rt_path. destruct (rt_cond) eqn:Ec.
    - destruct (cleared_same_path Ec) as [Exy Hf]. rewrite Hbs, <- Exy. f_equal.
      destruct qa as [q|] eqn:Eq; [reflexivity|]. rewrite (Hqi eq_refl (Hf eq_refl) Exy). reflexivity.
    - destruct segs_v as [Esv Eav].
      destruct v as [|c t] eqn:Ev.
      + exfalso. cbn [segs] in Esv. symmetry in Esv. apply app_eq_nil in Esv as [_ E]. contradiction.
      + cbn [is_abs] in Eav. rewrite Eav, Hbs. f_equal.
        assert (CD : clean (removelast (segs xb))) by (rewrite Hsb; exact D_clean).
        rewrite (rfc_merged_path pb Wb c t Eav CD), Hab, orb_true_r, Hsb.
        assert (Esp : split (c :: t) = repeat DOTDOT (length bs) ++ ss) by (rewrite <- Esv; unfold segs; rewrite Eav; reflexivity).
        rewrite Esp, <- app_assoc. unfold rds_segs. rewrite last_ss_not_dot. cbn [andb].
        f_equal. exact (norm_updown cb bs ss (proj1 common_plain) (proj2 common_plain) ss_plain).
  Qed.
End RoundTrip2.

(* ---------- the respelled result is == a ---------- *)
Lemma ref_texts_compose p : wf_parts p ->
  ref_texts (compose p) = {| t_scheme := p_scheme p; t_authority := p_authority p; t_path := p_path p; t_query := p_query p; t_fragment := p_fragment p |}.
Proof.
  intros W. unfold ref_texts. rewrite (reference_parts_compose p W).
  destruct (expected_slices p) as (E1 & E2 & E3 & E4 & E5). unfold oslice in *. rewrite E1, E2, E3, E4, E5. reflexivity.
Qed.

Lemma seg_eq_cmp x y : seg_eq x y -> cmp_key pct_key x y = Some Eq.
Proof. unfold seg_eq, eq_key, eq_of. destruct (cmp_key pct_key x y) as [[| |]|]; cbn [option_map]; intros H; try discriminate H; reflexivity. Qed.
Lemma all_eq_prefix a b ss : Forall2 seg_eq a b -> Forall (fun x => dec x <> None) ss -> all_eq (a ++ ss) (b ++ ss) = Some true.
Proof.
  intros H Hs. induction H as [|x y a b Hxy _ IH]; cbn [app].
  - induction Hs as [|x ss Hx _ IH]; [reflexivity|]. cbn [all_eq].
    assert (E : cmp_key pct_key x x = Some Eq) by (apply seg_eq_cmp; exact (eq_key_refl x Hx)). rewrite E. exact IH.
  - cbn [all_eq]. rewrite (seg_eq_cmp x y Hxy). exact IH.
Qed.
Lemma forall2_len {A B} (R : A -> B -> Prop) a b : Forall2 R a b -> length a = length b.
Proof. induction 1; cbn [length]; congruence. Qed.
Lemma eq_opt_refl_pct o : (forall x, o = Some x -> dec x <> None) -> eq_opt (eq_key pct_key) o o = Some true.
Proof. intros H. destruct o as [x|]; [apply eq_key_refl, H; reflexivity | reflexivity]. Qed.

Theorem respelled_equal pa (cb ca ss : list str) s :
  wf_parts pa -> wf_parts (with_path pa (render true (cb ++ ss))) -> p_scheme pa = Some s ->
  (forall x, p_authority pa = Some x -> eq_authority x x = Some true) ->
  is_abs (p_path pa) = true -> segs (p_path pa) = ca ++ ss -> plain (ca ++ ss) -> plain (cb ++ ss) -> clean cb -> Forall noslash ss -> ss <> [] \/ cb <> [] ->
  none_of [QM; HASH] (render true (cb ++ ss)) ->
  Forall2 seg_eq cb ca -> Forall (fun x => dec x <> None) ss ->
  (forall x, p_query pa = Some x -> dec x <> None) -> (forall x, p_fragment pa = Some x -> dec x <> None) ->
  eq_ref (compose (with_path pa (render true (cb ++ ss)))) (compose pa) = Some true.
Proof.
  intros Wa W' Hs Hax Haa Hsa Hpa Hpb Ccb Hns Hne Hq Hf2 Hds Hdq Hdf.
  unfold eq_ref. rewrite (ref_texts_compose _ W'), (ref_texts_compose _ Wa). unfold eq_texts, seq_eq.
  cbn [fold_left t_scheme t_authority t_path t_query t_fragment with_path p_scheme p_authority p_path p_query p_fragment].
  rewrite Hs. cbn [eq_opt]. unfold eq_key at 1. rewrite cmp_raw, (os_refl _ str_ord). cbn [eq_of option_map].
  assert (Ea : eq_opt eq_authority (p_authority pa) (p_authority pa) = Some true) by (destruct (p_authority pa) as [x|] eqn:E; [apply Hax; reflexivity | reflexivity]).
  rewrite Ea.
  assert (Ep : eq_path (render true (cb ++ ss)) (p_path pa) = Some true).
  { unfold eq_path.
    assert (Hsr : segs (render true (cb ++ ss)) = cb ++ ss /\ is_abs (render true (cb ++ ss)) = true).
    { apply segs_render_prefix.
      - apply Forall_app. split; [apply clean_noslash, Ccb | exact Hns].
      - intros E; discriminate E.
      - intros [_ E]. destruct cb as [|c0 cb0].
        + cbn [app] in E. destruct Hne as [H|H]; [|now apply H]. rewrite E in Hpb. cbn [app] in Hsa.
          (* ss = [[]]: then a's path is "/" ++ "" whose segs are [] <> [[]] *)
          rewrite E in Hsa. destruct ca; cbn [app] in Hsa.
          * pose proof (render_segs (p_path pa)) as R. rewrite Hsa, Haa in R. unfold render in R. cbn [app join] in R.
            rewrite <- R in Hsa. cbn [segs] in Hsa. change (is SLASH SLASH) with true in Hsa. discriminate Hsa.
          * inversion Hf2.
        + cbn [app] in E. injection E as E _. subst c0. apply (clean_no_empty _ Ccb). left. reflexivity. }
    destruct Hsr as [Esr Ear]. rewrite Ear, Haa. cbn [Bool.eqb].
    rewrite (nsegs_plain _ Hq), (nsegs_plain _ (wf_path pa Wa)); rewrite ?Esr, ?Hsa; try assumption.
    rewrite !app_length, (forall2_len _ _ _ Hf2), Nat.eqb_refl. now apply all_eq_prefix. }
  rewrite Ep. rewrite (eq_opt_refl_pct _ Hdq), (eq_opt_refl_pct _ Hdf). reflexivity.
Qed.

Lemma rl_forall {A} (R : A -> Prop) l : Forall R l -> Forall R (removelast l).
Proof. intros H. destruct (last_case l) as [->|(l' & y & ->)]; [exact H|]. rewrite removelast_last. apply Forall_app in H. tauto. Qed.

(* the respelled value is well-formed *)
Lemma respelled_wf pa pb (ca cb ss bs : list str) s :
  wf_parts pa -> wf_parts pb -> p_scheme pa = Some s -> p_authority pa = p_authority pb -> is_abs (p_path pa) = true ->
  segs (p_path pa) = ca ++ ss -> removelast (segs (p_path pb)) = cb ++ bs -> no_empty_but_last (p_path pb) ->
  Forall2 seg_eq cb ca -> ss <> [] ->
  wf_parts (with_path pa (render true (cb ++ ss))).
Proof.
  intros Wa Wb Has Hae Haa Hsa Hsb Hnb Hf2 Hss.
  assert (Ccb : clean cb) by (pose proof (clean_dir _ Hnb) as C; rewrite Hsb in C; apply clean_app in C; tauto).
  assert (Hns : Forall noslash ss) by (pose proof (segs_noslash (p_path pa)) as H; rewrite Hsa in H; apply Forall_app in H; tauto).
  assert (Hnl : Forall noslash (cb ++ ss)) by (apply Forall_app; split; [apply clean_noslash, Ccb | exact Hns]).
  assert (Hq : Forall (none_of [QM; HASH]) (cb ++ ss)).
  { apply Forall_app. split.
    - pose proof (segs_none_of _ _ (wf_path pb Wb)) as H. apply rl_forall in H.
      assert (H' : Forall (none_of [QM; HASH]) (cb ++ bs)) by (rewrite <- Hsb; exact H). apply Forall_app in H'. tauto.
    - pose proof (segs_none_of _ _ (wf_path pa Wa)) as H. rewrite Hsa in H. apply Forall_app in H. tauto. }
  apply with_path_wf; [exact Wa|]. rewrite Has. cbn [has]. constructor.
  - unfold render. apply Forall_app. split; [repeat constructor; simpl; unfold SLASH, QM, HASH; intros [E|[E|[]]]; discriminate|].
    apply none_of_join; [simpl; unfold SLASH, QM, HASH; intros [E|[E|[]]]; discriminate | exact Hq].
  - intros _. right. unfold render. cbn [app]. eauto.
  - intros Ena t Et. unfold render in Et. cbn [app] in Et. injection Et as Et.
    assert (Hh : starts_slash (join (cb ++ ss)) = true) by (rewrite Et; cbn [starts_slash]; unfold is; apply N.eqb_refl).
    rewrite (join_head _ Hnl) in Hh. destruct cb as [|c0 cb0].
    + inversion Hf2; subst. cbn [app] in *.
      pose proof (render_segs (p_path pa)) as R. rewrite Hsa, Haa in R. unfold render in R. cbn [app] in R.
      assert (Hh2 : starts_slash (join ss) = true) by (rewrite (join_head _ Hns); exact Hh).
      destruct (join ss) as [|c1 r1] eqn:Ej; [discriminate Hh2|]. cbn [starts_slash] in Hh2. apply is_true in Hh2. subst c1.
      destruct (p_authority pa) eqn:Epa; [discriminate Ena|]. exact (wf_path_noauth pa Wa Epa r1 (eq_sym R)).
    + cbn [app head_empty2] in Hh. destruct c0; [|discriminate Hh]. apply (clean_no_empty _ Ccb). left. reflexivity.
  - intros E; discriminate E.
Qed.

(* ---------- packaged ---------- *)

Theorem round_trip_respelled_partial (pa pb : parts) (s : str) (ca cb ss bs : list str) :
  wf_parts pa -> wf_parts pb -> p_scheme pa = Some s -> p_scheme pb = Some s ->
  p_authority pa = p_authority pb -> (forall x, p_authority pa = Some x -> eq_authority x x = Some true) ->
  is_abs (p_path pa) = true -> is_abs (p_path pb) = true ->
  segs (p_path pa) = ca ++ ss -> removelast (segs (p_path pb)) = cb ++ bs ->
  plain (segs (p_path pa)) -> plain (segs (p_path pb)) -> no_empty_but_last (p_path pa) -> no_empty_but_last (p_path pb) ->
  Forall2 seg_eq cb ca -> strip_common (ca ++ ss) (cb ++ bs) = Some (ss, bs) ->
  ss <> [] ->
  (bs = [] -> match ss with x :: _ => x <> [] /\ colon_first x = false | [] => False end) ->
  (p_query pa = None -> p_fragment pa <> None -> p_path pb = render true (cb ++ ss) -> p_query pb = None) ->
  Forall (fun x => dec x <> None) ss -> (forall x, p_query pa = Some x -> dec x <> None) -> (forall x, p_fragment pa = Some x -> dec x <> None) ->
  exists pr back, wf_parts pr /\ relative_to (compose pa) (compose pb) = Some (compose pr) /\
                  resolve (compose pr) (compose pb) = Some back /\ eq_ref back (compose pa) = Some true.
Proof.
  intros Wa Wb Has Hbs Hae Hax Haa Hab Hsa Hsb Hpa Hpb Hna Hnb Hf2 Hst Hss Hsh Hqi Hds Hdq Hdf.
  exists (rt_ref pa pb ss bs), (compose (with_path pa (render true (cb ++ ss)))). split; [|split; [|split]].
  - eapply rt_ref_wf; eassumption.
  - eapply relative_to_value; eassumption.
  - eapply round_trip_respelled; eassumption.
  - assert (Ccb : clean cb) by (pose proof (clean_dir _ Hnb) as C; rewrite Hsb in C; apply clean_app in C; tauto).
    assert (Hns : Forall noslash ss) by (pose proof (segs_noslash (p_path pa)) as H; rewrite Hsa in H; apply Forall_app in H; tauto).
    pose proof (respelled_wf pa pb ca cb ss bs s Wa Wb Has Hae Haa Hsa Hsb Hnb Hf2 Hss) as Wp.
    apply (respelled_equal pa cb ca ss s Wa Wp Has Hax Haa Hsa); auto.
    + rewrite <- Hsa. exact Hpa.
    + pose proof (plain_removelast _ Hpb) as H1. rewrite Hsb in H1. apply plain_app in H1 as [H1 _].
      pose proof Hpa as H2. rewrite Hsa in H2. apply plain_app in H2 as [_ H2]. apply plain_app. split; assumption.
    + exact (wf_path _ Wp).
Qed.

