From Coq Require Import List NArith Bool Arith Lia.
Import ListNotations.
Require Import V.Regex V.Parse.
Local Open Scope nat_scope.

(* ---------- spec side: components and RFC 3986 section 5.3 recomposition ---------- *)
Record parts := { p_scheme : option str; p_authority : option str; p_path : str; p_query : option str; p_fragment : option str }.
Definition opt_pre (pre : str) (o : option str) : str := match o with Some x => pre ++ x | None => [] end.
Definition opt_post (o : option str) (post : str) : str := match o with Some x => x ++ post | None => [] end.
Definition tail_of (p : parts) : str := opt_pre [QM] (p_query p) ++ opt_pre [HASH] (p_fragment p).
Definition compose (p : parts) : str :=
  opt_post (p_scheme p) [COLON] ++ opt_pre [SLASH; SLASH] (p_authority p) ++ p_path p ++ tail_of p.

Definition none_of (D : list N) (s : str) : Prop := Forall (fun c => ~ In c D) s.
Fixpoint nocolon_first (p : str) : bool :=
  match p with [] => true | c :: p' => if is c SLASH then true else if is c COLON then false else nocolon_first p' end.

Record wf_parts (p : parts) : Prop := {
  wf_scheme : forall s, p_scheme p = Some s -> s <> [] /\ none_of [COLON; SLASH; QM; HASH] s;
  wf_auth : forall a, p_authority p = Some a -> none_of [SLASH; QM; HASH] a;
  wf_path : none_of [QM; HASH] (p_path p);
  wf_query : forall q, p_query p = Some q -> none_of [HASH] q;
  wf_path_auth : p_authority p <> None -> p_path p = [] \/ exists t, p_path p = SLASH :: t;
  wf_path_noauth : p_authority p = None -> forall t, p_path p <> SLASH :: SLASH :: t;
  wf_path_noscheme : p_scheme p = None -> p_authority p = None -> nocolon_first (p_path p) = true
}.

(* ---------- generic facts ---------- *)
Lemma is_true c d : is c d = true <-> c = d. Proof. apply N.eqb_eq. Qed.
Lemma is_false c d : is c d = false <-> c <> d. Proof. apply N.eqb_neq. Qed.
Lemma none_of_cons D c s : none_of D (c :: s) <-> ~ In c D /\ none_of D s.
Proof. unfold none_of. split; [intros H; inversion H; auto | intros [? ?]; constructor; auto]. Qed.
Lemma none_of_weaken D D' s : (forall c, In c D' -> In c D) -> none_of D s -> none_of D' s.
Proof. intros HD. unfold none_of. apply Forall_impl. intros c H Hc. auto. Qed.

Definition ends_ok (stop : N -> bool) (rest : str) : Prop := rest = [] \/ exists c t, rest = c :: t /\ stop c = true.
Definition stop_auth (c : N) : bool := is c SLASH || is_qh c.

(* rewrite `is c D` to false from a non-membership fact *)
Ltac kill_is c :=
  repeat match goal with
  | H : ~ In c _ |- context [is c ?d] =>
    let E := fresh in assert (E : is c d = false) by (apply is_false; intros ->; apply H; simpl; tauto); rewrite E; clear E
  end.

Lemma scan_app stop s rest i : Forall (fun c => stop c = false) s -> ends_ok stop rest ->
  scan stop (s ++ rest) i = i + length s.
Proof.
  revert i. induction s as [|c s IH]; intros i Hs Hrest; simpl.
  - destruct Hrest as [->|(c & t & -> & Hc)]; simpl; [lia | rewrite Hc; lia].
  - inversion Hs as [|? ? Hc Hs']; subst. rewrite Hc, IH; auto. lia.
Qed.

(* ---------- scheme_authority_or_path on each shape ---------- *)
Lemma sap_sop_scheme s rest i : none_of [COLON; SLASH; QM; HASH] s ->
  sap_loop QSchemeOrPath (s ++ COLON :: rest) i = (SapScheme, i + length s).
Proof.
  revert i. induction s as [|c s IH]; intros i H; simpl.
  - f_equal; lia.
  - apply none_of_cons in H as [Hc H]. unfold is_qh. kill_is c. simpl. rewrite IH; auto. f_equal; lia.
Qed.

Lemma sap_scheme s rest i : s <> [] -> none_of [COLON; SLASH; QM; HASH] s ->
  sap_loop QStart (s ++ COLON :: rest) i = (SapScheme, i + length s).
Proof.
  destruct s as [|c s]; [tauto|]. intros _ H. simpl.
  apply none_of_cons in H as [Hc H]. unfold is_qh. kill_is c. simpl.
  rewrite sap_sop_scheme; auto. f_equal; lia.
Qed.

Lemma sap_auth_loop a rest i : none_of [SLASH; QM; HASH] a -> ends_ok stop_auth rest ->
  sap_loop QAuthority (a ++ rest) i = (SapAuthority, i + length a).
Proof.
  revert i. induction a as [|c a IH]; intros i H Hr; simpl.
  - destruct Hr as [->|(c & t & -> & Hc)]; simpl; [f_equal; lia|].
    unfold stop_auth in Hc. rewrite Hc. f_equal; lia.
  - apply none_of_cons in H as [Hc H]. unfold is_qh. kill_is c. simpl. rewrite IH; auto. f_equal; lia.
Qed.

Lemma sap_path_loop p rest i : none_of [QM; HASH] p -> ends_ok is_qh rest ->
  sap_loop QPath (p ++ rest) i = (SapPath, i + length p).
Proof.
  revert i. induction p as [|c p IH]; intros i H Hr; simpl.
  - destruct Hr as [->|(c & t & -> & Hc)]; simpl; [f_equal; lia|]. rewrite Hc. f_equal; lia.
  - apply none_of_cons in H as [Hc H]. unfold is_qh. kill_is c. simpl. rewrite IH; auto. f_equal; lia.
Qed.

Lemma ends_ok_qh_colon rest : ends_ok is_qh rest -> forall c t, rest = c :: t -> is c COLON = false /\ is_qh c = true.
Proof.
  intros [->|(c & t & -> & Hc)] c' t' E; [discriminate|]. injection E as <- <-. split; auto.
  unfold is_qh in Hc. apply is_false. intros ->. discriminate.
Qed.

Lemma sap_sop_path p rest i : none_of [QM; HASH] p -> nocolon_first p = true -> ends_ok is_qh rest ->
  sap_loop QSchemeOrPath (p ++ rest) i = (SapPath, i + length p).
Proof.
  revert i. induction p as [|c p IH]; intros i H Hc1 Hr; simpl.
  - destruct rest as [|c t]; simpl; [f_equal; lia|].
    destruct (ends_ok_qh_colon _ Hr c t eq_refl) as [E1 E2]. rewrite E1, E2. f_equal; lia.
  - apply none_of_cons in H as [Hc H]. simpl in Hc1. unfold is_qh. kill_is c. simpl.
    destruct (is c SLASH) eqn:ES.
    + destruct (is c COLON) eqn:EC. { apply is_true in ES, EC. subst. discriminate. }
      rewrite sap_path_loop; auto. f_equal; lia.
    + destruct (is c COLON) eqn:EC; [discriminate|]. rewrite IH; auto. f_equal; lia.
Qed.

(* no scheme, no authority: the whole path is recognised as Path *)
Lemma sap_path p rest i : none_of [QM; HASH] p -> nocolon_first p = true -> (forall t, p <> SLASH :: SLASH :: t) ->
  ends_ok is_qh rest -> sap_loop QStart (p ++ rest) i = (SapPath, i + length p).
Proof.
  intros H Hc1 Hss Hr. destruct p as [|c p]; simpl.
  - destruct rest as [|c t]; simpl; [f_equal; lia|].
    destruct (ends_ok_qh_colon _ Hr c t eq_refl) as [E1 E2]. rewrite E1, E2. f_equal; lia.
  - apply none_of_cons in H as [Hc H]. simpl in Hc1. unfold is_qh. kill_is c. simpl.
    destruct (is c SLASH) eqn:ES.
    + apply is_true in ES; subst c. change (is SLASH COLON) with false. cbn iota.
      (* second slash state *)
      destruct p as [|d p]; simpl.
      * destruct rest as [|c t]; simpl; [f_equal; lia|].
        destruct (ends_ok_qh_colon _ Hr c t eq_refl) as [E1 E2].
        destruct (is c SLASH) eqn:E3. { apply is_true in E3; subst. discriminate. }
        rewrite E2. f_equal; lia.
      * apply none_of_cons in H as [Hd H]. unfold is_qh. kill_is d. simpl.
        destruct (is d SLASH) eqn:E3. { apply is_true in E3; subst. exfalso. eapply Hss; eauto. }
        rewrite sap_path_loop; auto. f_equal; lia.
    + destruct (is c COLON) eqn:EC; [discriminate|]. rewrite sap_sop_path; auto. f_equal; lia.
Qed.

(* ---------- authority_or_path (after a scheme) ---------- *)
Lemma aop_auth_loop a rest i : none_of [SLASH; QM; HASH] a -> ends_ok stop_auth rest ->
  aop_loop AAuthority (a ++ rest) i = (AopAuthority, i + length a).
Proof.
  revert i. induction a as [|c a IH]; intros i H Hr; simpl.
  - destruct Hr as [->|(c & t & -> & Hc)]; simpl; [f_equal; lia|].
    unfold stop_auth in Hc. rewrite Hc. f_equal; lia.
  - apply none_of_cons in H as [Hc H]. unfold is_qh. kill_is c. simpl. rewrite IH; auto. f_equal; lia.
Qed.

Lemma aop_path_loop p rest i : none_of [QM; HASH] p -> ends_ok is_qh rest ->
  aop_loop APath (p ++ rest) i = (AopPath, i + length p).
Proof.
  revert i. induction p as [|c p IH]; intros i H Hr; simpl.
  - destruct Hr as [->|(c & t & -> & Hc)]; simpl; [f_equal; lia|]. rewrite Hc. f_equal; lia.
  - apply none_of_cons in H as [Hc H]. unfold is_qh. kill_is c. simpl. rewrite IH; auto. f_equal; lia.
Qed.

Lemma aop_path p rest i : none_of [QM; HASH] p -> (forall t, p <> SLASH :: SLASH :: t) -> ends_ok is_qh rest ->
  aop_loop AStart (p ++ rest) i = (AopPath, i + length p).
Proof.
  intros H Hss Hr. destruct p as [|c p]; simpl.
  - destruct Hr as [->|(c & t & -> & Hc)]; simpl; [f_equal; lia|]. rewrite Hc. f_equal; lia.
  - apply none_of_cons in H as [Hc H]. unfold is_qh. kill_is c. simpl.
    destruct (is c SLASH) eqn:ES.
    + apply is_true in ES; subst c. destruct p as [|d p]; simpl.
      * destruct rest as [|c t]; simpl; [f_equal; lia|].
        destruct (ends_ok_qh_colon _ Hr c t eq_refl) as [E1 E2].
        destruct (is c SLASH) eqn:E3. { apply is_true in E3; subst. discriminate. }
        rewrite E2. f_equal; lia.
      * apply none_of_cons in H as [Hd H]. unfold is_qh. kill_is d. simpl.
        destruct (is d SLASH) eqn:E3. { apply is_true in E3; subst. exfalso. eapply Hss; eauto. }
        rewrite aop_path_loop; auto. f_equal; lia.
    + rewrite aop_path_loop; auto. f_equal; lia.
Qed.

(* ---------- tail: query and fragment ---------- *)
Lemma skipn_app_len {A} (l1 l2 : list A) : skipn (length l1) (l1 ++ l2) = l2.
Proof. induction l1; simpl; auto. Qed.
Lemma skipn_app_len' {A} (l1 l2 : list A) n : n = length l1 -> skipn n (l1 ++ l2) = l2.
Proof. intros ->. apply skipn_app_len. Qed.

Lemma tail_ends_qh p : ends_ok is_qh (tail_of p).
Proof.
  unfold tail_of, ends_ok. destruct (p_query p); simpl.
  - right. eexists _, _. split; [reflexivity|]. reflexivity.
  - destruct (p_fragment p); simpl; [right | left; auto]. eexists _, _. split; [reflexivity|]. reflexivity.
Qed.

Lemma ends_auth_of_qh rest : ends_ok is_qh rest -> ends_ok stop_auth rest.
Proof. intros [->|(c & t & -> & Hc)]; [left; auto | right]. exists c, t. split; auto. unfold stop_auth. rewrite Hc. apply orb_true_r. Qed.

Lemma path_tail_ends_auth p : (p_path p = [] \/ exists t, p_path p = SLASH :: t) -> ends_ok stop_auth (p_path p ++ tail_of p).
Proof.
  intros [->|(t & ->)]; simpl.
  - apply ends_auth_of_qh, tail_ends_qh.
  - right. eexists _, _. split; [reflexivity|]. reflexivity.
Qed.

Definition q_end (pe : nat) (p : parts) : nat := match p_query p with Some q => pe + 1 + length q | None => pe end.

Lemma query_tail pre p : (forall q, p_query p = Some q -> none_of [HASH] q) ->
  query (pre ++ tail_of p) (length pre) = (match p_query p with Some _ => true | None => false end, q_end (length pre) p).
Proof.
  intros Hq. unfold query, q_end. rewrite skipn_app_len. unfold tail_of.
  destruct (p_query p) as [q|]; simpl.
  - f_equal. rewrite scan_app; [lia| |].
    + specialize (Hq q eq_refl). unfold none_of in Hq. eapply Forall_impl; [|exact Hq].
      intros c Hc. apply is_false. intros ->. apply Hc. simpl; auto.
    + destruct (p_fragment p); simpl; [right | left; auto]. eexists _, _. split; reflexivity.
  - destruct (p_fragment p); simpl; auto.
Qed.

Lemma fragment_tail pre p : 
  fragment (pre ++ tail_of p) (q_end (length pre) p) =
  (match p_fragment p with Some _ => true | None => false end, length (pre ++ tail_of p)).
Proof.
  unfold fragment, q_end, tail_of. destruct (p_query p) as [q|]; simpl.
  - replace (pre ++ QM :: q ++ opt_pre [HASH] (p_fragment p)) with ((pre ++ QM :: q) ++ opt_pre [HASH] (p_fragment p))
      by (rewrite <- app_assoc; reflexivity).
    rewrite skipn_app_len' by (rewrite app_length; simpl; lia).
    destruct (p_fragment p); simpl; auto.
  - rewrite skipn_app_len. destruct (p_fragment p); simpl; auto.
Qed.

(* ---------- expected ranges ---------- *)
Definition olen (o : option str) (extra : nat) : nat := match o with Some s => length s + extra | None => 0 end.
Definition expected (p : parts) : ref_ranges :=
  let ls := olen (p_scheme p) 1 in
  let pa := ls + olen (p_authority p) 2 in
  let pe := pa + length (p_path p) in
  let qe := q_end pe p in
  {| r_scheme := option_map (fun s => (0, length s)) (p_scheme p);
     r_authority := option_map (fun a => (ls + 2, ls + 2 + length a)) (p_authority p);
     r_path := (pa, pe);
     r_query := option_map (fun _ => (pe + 1, qe)) (p_query p);
     r_fragment := option_map (fun _ => (qe + 1, length (compose p))) (p_fragment p) |}.

Lemma tail_finish bytes pre p sch auth pa :
  bytes = pre ++ tail_of p -> (forall q, p_query p = Some q -> none_of [HASH] q) ->
  (let '(has_q, qe) := query bytes (length pre) in
   let '(has_f, fe) := fragment bytes qe in
   {| r_scheme := sch; r_authority := auth; r_path := (pa, length pre);
      r_query := if has_q then Some (length pre + 1, qe) else None;
      r_fragment := if has_f then Some (qe + 1, fe) else None |}) =
  {| r_scheme := sch; r_authority := auth; r_path := (pa, length pre);
     r_query := option_map (fun _ => (length pre + 1, q_end (length pre) p)) (p_query p);
     r_fragment := option_map (fun _ => (q_end (length pre) p + 1, length bytes)) (p_fragment p) |}.
Proof.
  intros -> Hq. rewrite query_tail by auto. rewrite fragment_tail.
  destruct (p_query p), (p_fragment p); reflexivity.
Qed.


Lemma sap_at bytes pre l n : bytes = pre ++ l -> n = length pre -> scheme_authority_or_path bytes n = sap_loop QStart l n.
Proof. intros -> ->. unfold scheme_authority_or_path. now rewrite skipn_app_len. Qed.
Lemma aop_at bytes pre l n : bytes = pre ++ l -> n = length pre -> authority_or_path bytes n = aop_loop AStart l n.
Proof. intros -> ->. unfold authority_or_path. now rewrite skipn_app_len. Qed.
Lemma path_end_at bytes pre pth rest n : bytes = pre ++ pth ++ rest -> n = length pre -> none_of [QM; HASH] pth -> ends_ok is_qh rest ->
  path_end bytes n = n + length pth.
Proof.
  intros -> -> Hp Hr. unfold path_end. rewrite skipn_app_len. apply scan_app; auto.
  eapply Forall_impl; [|exact Hp]. intros c Hc. cbv beta in Hc. unfold is_qh. kill_is c. reflexivity.
Qed.

Ltac len := rewrite ?app_length; simpl length; rewrite ?app_length; simpl length; lia.
Ltac reassoc := rewrite <- ?app_assoc; simpl app; rewrite <- ?app_assoc; reflexivity.

Lemma tail_finish' bytes pre p sch auth pa n :
  bytes = pre ++ tail_of p -> n = length pre -> (forall q, p_query p = Some q -> none_of [HASH] q) ->
  (let '(has_q, qe) := query bytes n in
   let '(has_f, fe) := fragment bytes qe in
   {| r_scheme := sch; r_authority := auth; r_path := (pa, n);
      r_query := if has_q then Some (n + 1, qe) else None;
      r_fragment := if has_f then Some (qe + 1, fe) else None |}) =
  {| r_scheme := sch; r_authority := auth; r_path := (pa, n);
     r_query := option_map (fun _ => (n + 1, q_end n p)) (p_query p);
     r_fragment := option_map (fun _ => (q_end n p + 1, length bytes)) (p_fragment p) |}.
Proof. intros -> -> Hq. apply tail_finish; auto. Qed.

Ltac fin :=
  f_equal; simpl option_map; unfold q_end;
  repeat match goal with |- context [option_map _ ?o] => destruct o; simpl option_map end;
  repeat match goal with |- context [match ?o with Some _ => _ | None => _ end] => destruct o end;
  repeat (f_equal; try lia).

Theorem reference_parts_compose p : wf_parts p -> reference_parts (compose p) 0 = expected p.
Proof.
  intros [Hs Ha Hp Hq Hpa Hpn Hpc].
  unfold reference_parts, expected. set (bytes := compose p).
  assert (Hb : bytes = compose p) by reflexivity. unfold compose in Hb.
  rewrite (sap_at bytes [] bytes 0) by reflexivity.
  destruct (p_scheme p) as [s|] eqn:Es; destruct (p_authority p) as [a|] eqn:Ea; simpl opt_post in Hb; simpl opt_pre in Hb; simpl olen.
  - (* scheme + authority *)
    destruct (Hs s eq_refl) as [Hs1 Hs2]. specialize (Ha a eq_refl).
    assert (Hends : ends_ok stop_auth (p_path p ++ tail_of p)) by (apply path_tail_ends_auth; apply Hpa; discriminate).
    rewrite Hb at 1. rewrite <- app_assoc. simpl app. rewrite sap_scheme by auto. cbn [fst snd].
    rewrite (aop_at bytes (s ++ [COLON]) (SLASH :: SLASH :: a ++ p_path p ++ tail_of p)); [| rewrite Hb; reassoc | len].
    simpl aop_loop. rewrite aop_auth_loop by auto. cbn [fst snd].
    rewrite (path_end_at bytes ((s ++ [COLON]) ++ SLASH :: SLASH :: a) (p_path p) (tail_of p)); [| rewrite Hb; reassoc | len | auto | apply tail_ends_qh].
    rewrite (tail_finish' bytes (((s ++ [COLON]) ++ SLASH :: SLASH :: a) ++ p_path p) p); [| rewrite Hb; reassoc | len | auto].
    fin.
  - (* scheme, no authority *)
    destruct (Hs s eq_refl) as [Hs1 Hs2]. specialize (Hpn eq_refl).
    rewrite Hb at 1. rewrite <- app_assoc. simpl app. rewrite sap_scheme by auto. cbn [fst snd].
    rewrite (aop_at bytes (s ++ [COLON]) (p_path p ++ tail_of p)); [| rewrite Hb; reassoc | len].
    rewrite aop_path by (auto using tail_ends_qh). cbn [fst snd].
    rewrite (tail_finish' bytes ((s ++ [COLON]) ++ p_path p) p); [| rewrite Hb; reassoc | len | auto].
    fin.
  - (* authority, no scheme *)
    specialize (Ha a eq_refl).
    assert (Hends : ends_ok stop_auth (p_path p ++ tail_of p)) by (apply path_tail_ends_auth; apply Hpa; discriminate).
    rewrite Hb at 1. simpl app. simpl sap_loop. rewrite sap_auth_loop by auto. cbn [fst snd].
    rewrite (path_end_at bytes (SLASH :: SLASH :: a) (p_path p) (tail_of p)); [| rewrite Hb; reassoc | len | auto | apply tail_ends_qh].
    rewrite (tail_finish' bytes ((SLASH :: SLASH :: a) ++ p_path p) p); [| rewrite Hb; reassoc | len | auto].
    fin.
  - (* neither *)
    specialize (Hpn eq_refl). specialize (Hpc eq_refl eq_refl).
    rewrite Hb at 1. simpl app. rewrite sap_path by (auto using tail_ends_qh). cbn [fst snd].
    rewrite (tail_finish' bytes (p_path p) p); [| rewrite Hb; reassoc | len | auto].
    fin.
Qed.
Print Assumptions reference_parts_compose.

