(* C16: the reconstruction law (prefix segments followed by the suffix's segments normalise to the value's segments,
   segment-wise equal after percent-decoding), the exact decomposition behind a Some answer, and the
   reference-level gate (scheme, authority, carried query and fragment). *)
From Coq Require Import List NArith Bool Arith Lia.
Import ListNotations.
Require Import V.Regex V.Parse V.ParseProofs V.Parse2 V.Parse2Proofs V.PathSpec V.Splice V.Setters V.Iter V.IterProofs V.IterAll V.PathQ V.Push V.PathMut V.PathMutProofs
  V.C09Proofs V.C12Proofs V.Reference V.GetProofs V.Ord V.Cmp V.CmpProofs V.NormProofs V.MergeProofs V.C16Proofs V.NormalizedProofs V.C16Proofs2 V.RelProofs.
Local Open Scope nat_scope.

Lemma fold_nodot ab (l : list seg) : forall st, fold_left (step ab) (nodot l) st = fold_left (step ab) l st.
Proof.
  induction l as [|x l IH]; intros st; [reflexivity|]. unfold nodot. cbn [filter fold_left]. fold (nodot l).
  destruct (is_dot x) eqn:E; cbn [negb].
  - assert (Hs : step ab st x = st) by (unfold step; rewrite E; reflexivity). rewrite Hs. apply IH.
  - cbn [fold_left]. apply IH.
Qed.
Lemma norm_concat ab (A B : list seg) : norm ab (A ++ B) = norm ab (norm ab A ++ nodot B).
Proof. rewrite !norm_app, norm_idempotent, fold_nodot. reflexivity. Qed.

Lemma nsegs_norm p : none_of [QM; HASH] p -> nsegs p = norm (is_abs p) (segs p).
Proof. intros H. unfold nsegs. rewrite normalized_segments_is_norm, (segments_are_the_split p H). reflexivity. Qed.

Lemma is_prefix_split ys : forall xs, is_prefix ys xs -> exists X1 rest, xs = X1 ++ rest /\ Forall2 seg_eq X1 ys.
Proof.
  induction ys as [|y ys IH]; intros xs H.
  - exists [], xs. split; [reflexivity | constructor].
  - inversion H as [|x xs' ? ? Hxy Hp]; subst. destruct (IH xs' Hp) as (X1 & rest & -> & F).
    exists (x :: X1), rest. split; [reflexivity | constructor; assumption].
Qed.

Lemma normal_tail ab (x : seg) l : normal ab (x :: l) -> normal ab l.
Proof.
  intros (ups & pl & E & Hu & Hp & Hab). destruct ups as [|u ups].
  - cbn [app] in E. subst pl. cbn [plain] in Hp. exists [], l. split; [reflexivity | split; [exact I | split; [tauto | intros _; reflexivity]]].
  - cbn [app] in E. injection E as _ ->. cbn [all_dotdot] in Hu. exists ups, pl. split; [reflexivity | split; [tauto | split; [exact Hp | intros Eab; specialize (Hab Eab); discriminate Hab]]].
Qed.
Lemma normal_suffix ab (X rest : list seg) : normal ab (X ++ rest) -> normal ab rest.
Proof. induction X as [|x X IH]; cbn [app]; [auto|]. intros H. apply IH. exact (normal_tail ab x _ H). Qed.
Lemma nodot_normal ab (l : list seg) : normal ab l -> nodot l = l.
Proof.
  intros H. pose proof (normal_no_dot ab l H) as Hd. induction l as [|x l IH]; [reflexivity|].
  unfold nodot. cbn [filter]. fold (nodot l).
  assert (Ex : is_dot x = false).
  { destruct (is_dot x) eqn:E; [|reflexivity]. exfalso. apply Hd. left. destruct x as [|c [|d r]]; try discriminate E.
    unfold is_dot in E. cbn in E. rewrite andb_true_r in E || idtac. f_equal. apply N.eqb_eq in E. exact E. }
  rewrite Ex. cbn [negb]. f_equal. apply IH; [exact (normal_tail ab x l H) | intros Hi; apply Hd; right; exact Hi].
Qed.

Lemma normal_concat ab (P rest : list seg) : normal ab P -> normal ab rest -> plain rest \/ all_dotdot P -> normal ab (P ++ rest).
Proof.
  intros (ups & pl & -> & Hu & Hp & Hab) (u' & pl' & -> & Hu' & Hp' & Hab') [C|C].
  - exists ups, (pl ++ u' ++ pl'). rewrite <- app_assoc. split; [reflexivity | split; [exact Hu | split; [apply plain_app; split; [exact Hp | exact C] | exact Hab]]].
  - apply all_dotdot_app in C as [_ Cpl].
    assert (Epl : pl = []).
    { destruct pl as [|x pl]; [reflexivity|]. cbn [plain all_dotdot] in Hp, Cpl. destruct Hp as (_ & H1 & _), Cpl as [H2 _]. rewrite H1 in H2. discriminate H2. }
    subst pl. rewrite app_nil_r. exists (ups ++ u'), pl'. rewrite <- app_assoc. split; [reflexivity | split; [|split]].
    + apply all_dotdot_app. split; assumption.
    + exact Hp'.
    + intros E. rewrite (Hab E), (Hab' E). reflexivity.
Qed.

(* what a Some answer means: the value's normalised segments are X1 ++ rest, X1 matches the prefix's normalised
   segments after percent-decoding, and the returned path has exactly the segments rest (up to "." shields) *)
Theorem suffix_decomp a p r : none_of [QM; HASH] a -> path_suffix a p = Some (Some r) ->
  is_abs a = is_abs p /\ exists X1 rest, nsegs a = X1 ++ rest /\ Forall2 seg_eq X1 (nsegs p) /\ nodot (segs r) = nodot rest.
Proof.
  unfold path_suffix. intros Wa H. destruct (Bool.eqb (is_abs a) (is_abs p)) eqn:Eab; cbn [negb] in H; [|discriminate H].
  split; [now apply Bool.eqb_prop|].
  destruct (is_prefix_split _ _ (suffix_some _ _ _ _ H)) as (X1 & rest & Exs & F). exists X1, rest. split; [exact Exs | split; [exact F|]].
  assert (Hn : Forall noslash rest).
  { assert (Hall : Forall noslash (nsegs a)).
    { rewrite (nsegs_norm a Wa). apply norm_noslash, segs_noslash. }
    rewrite Exs in Hall. apply Forall_app in Hall. tauto. }
  destruct (suffix_exact (nsegs p) X1 rest [] F Hn) as (r' & Er & Es). rewrite <- Exs, H in Er. injection Er as <-. exact Es.
Qed.

(* THE RECONSTRUCTION LAW: when the remaining segments contain no ".." (always the case for absolute paths) or the
   prefix's normalised segments are all literally "..", the prefix's segments followed by the suffix's segments
   normalise to a list that is segment-wise == the value's normalised segments (so the two paths are ==) *)
Theorem suffix_reconstruct a p r : none_of [QM; HASH] a -> none_of [QM; HASH] p -> path_suffix a p = Some (Some r) ->
  Forall (fun x => dec x <> None) (nsegs a) ->
  plain (skipn (length (nsegs p)) (nsegs a)) \/ all_dotdot (nsegs p) ->
  Forall2 seg_eq (nsegs a) (norm (is_abs p) (segs p ++ segs r)).
Proof.
  intros Wa Wp H Hd C. destruct (suffix_decomp a p r Wa H) as (Eab & X1 & rest & Exs & F & Es).
  assert (Elen : length X1 = length (nsegs p)) by (clear -F; induction F; cbn [length]; congruence).
  assert (Erest : skipn (length (nsegs p)) (nsegs a) = rest).
  { rewrite Exs, <- Elen, skipn_app, skipn_all, Nat.sub_diag. reflexivity. }
  rewrite Erest in C.
  assert (Na : normal (is_abs p) (X1 ++ rest)) by (rewrite <- Exs, (nsegs_norm a Wa), Eab; apply norm_normal).
  pose proof (normal_suffix _ _ _ Na) as Nr.
  assert (Np : normal (is_abs p) (nsegs p)) by (rewrite (nsegs_norm p Wp); apply norm_normal).
  rewrite norm_concat, <- (nsegs_norm p Wp), Es, (nodot_normal _ _ Nr).
  rewrite (norm_id_on_normal _ _ (normal_concat _ _ _ Np Nr C)). rewrite Exs.
  apply Forall2_app; [exact F|].
  rewrite Exs in Hd. apply Forall_app in Hd as [_ Hd]. clear -Hd. induction Hd as [|x l Hx _ IH]; [constructor | constructor; [exact (eq_key_refl x Hx) | exact IH]].
Qed.

(* outside that class the law fails: "../.." over "%2E%2E" -- segment equality identifies "%2E%2E" with "..", the
   suffix is "..", and "%2E%2E/.." normalises to the empty list *)
Definition kp_a := [46;46;47;46;46]%N.
Definition kp_p := [37;50;69;37;50;69]%N.
Lemma K_pct_dotdot_witness : path_suffix kp_a kp_p = Some (Some [46;46]%N) /\ nsegs kp_a = [DOTDOT; DOTDOT] /\ norm (is_abs kp_p) (segs kp_p ++ segs [46;46]%N) = [].
Proof. vm_compute. repeat split; reflexivity. Qed.

(* ---------- reference level: the gate and the carried query / fragment ---------- *)
Theorem ref_suffix_spec pa pp : wf_parts pa -> wf_parts pp ->
  ref_suffix (compose pa) (compose pp) =
  if eq_oscheme (p_scheme pa) (p_scheme pp) then
    bind (eq_opt eq_authority (p_authority pa) (p_authority pp)) (fun same =>
    if same then bind (path_suffix (p_path pa) (p_path pp)) (fun r => Some (option_map (fun s => (s, p_query pa, p_fragment pa)) r))
    else Some None)
  else Some None.
Proof.
  intros Wa Wp. unfold ref_suffix.
  rewrite (get_scheme_compose pa Wa), (get_scheme_compose pp Wp), (get_authority_compose pa Wa), (get_authority_compose pp Wp),
    (get_path_compose pa Wa), (get_path_compose pp Wp), (get_query_compose pa Wa), (get_fragment_compose pa Wa). reflexivity.
Qed.
Theorem ref_suffix_some pa pp r q f : wf_parts pa -> wf_parts pp -> ref_suffix (compose pa) (compose pp) = Some (Some (r, q, f)) ->
  eq_oscheme (p_scheme pa) (p_scheme pp) = true /\ eq_opt eq_authority (p_authority pa) (p_authority pp) = Some true /\
  path_suffix (p_path pa) (p_path pp) = Some (Some r) /\ q = p_query pa /\ f = p_fragment pa.
Proof.
  intros Wa Wp. rewrite (ref_suffix_spec pa pp Wa Wp). destruct (eq_oscheme _ _); [|discriminate].
  destruct (eq_opt eq_authority _ _) as [[|]|]; cbn [bind]; try discriminate.
  destruct (path_suffix _ _) as [[r'|]|]; cbn [bind option_map]; try discriminate. intros E. injection E as -> -> ->. auto.
Qed.

(* the path-level "exactly when" *)
Theorem path_suffix_exact a p X1 rest : is_abs a = is_abs p -> nsegs a = X1 ++ rest -> Forall2 seg_eq X1 (nsegs p) -> Forall noslash rest ->
  exists r, path_suffix a p = Some (Some r) /\ nodot (segs r) = nodot rest.
Proof.
  intros Eab Exs F Hn. unfold path_suffix. rewrite Eab, Bool.eqb_reflx. cbn [negb]. rewrite Exs.
  exact (suffix_exact (nsegs p) X1 rest [] F Hn).
Qed.
Theorem path_suffix_none a p : path_suffix a p = Some None -> is_abs a <> is_abs p \/ ~ is_prefix (nsegs p) (nsegs a).
Proof.
  unfold path_suffix. destruct (Bool.eqb (is_abs a) (is_abs p)) eqn:E; cbn [negb]; intros H.
  - right. exact (suffix_none _ _ _ H).
  - left. intros Eq. rewrite Eq, Bool.eqb_reflx in E. discriminate E.
Qed.
