(* L0 model of common/path_mut.rs (PathMutImpl) as found in the tree: a handle (buffer, start, end,
   follows_authority) edited in place.  `None` = a panic (checked subtraction, out-of-bounds index or
   slice, copy_from_slice length mismatch).  No proofs here. *)
From Coq Require Import List NArith Bool Arith.
Import ListNotations.
Require Import V.Regex V.Parse V.Parse2 V.PathSpec V.Splice V.Setters V.Iter V.PathQ V.Push.
Local Open Scope nat_scope.

Record pm := { pm_buf : str; pm_start : nat; pm_end : nat; pm_fa : bool }.

(* &self.buffer[self.start..self.end] *)
Definition pm_view (h : pm) : option str :=
  if (pm_start h <=? pm_end h) && (pm_end h <=? length (pm_buf h))
  then Some (firstn (pm_end h - pm_start h) (skipn (pm_start h) (pm_buf h))) else None.

Definition pm_new (buf : str) (s e : nat) : pm :=
  {| pm_buf := buf; pm_start := s; pm_end := e;
     pm_fa := match find_authority (firstn s buf) 0 with inl _ => true | inr _ => false end |}.
Definition pm_from_path (p : str) : pm := {| pm_buf := p; pm_start := 0; pm_end := length p; pm_fa := true |}.

Definition with_buf (h : pm) (b : str) (e : nat) : pm := {| pm_buf := b; pm_start := pm_start h; pm_end := e; pm_fa := pm_fa h |}.
Definition fso (h : pm) (v : str) : nat := if is_abs v then pm_start h + 1 else pm_start h.

(* buffer[lo..hi].copy_from_slice(content) *)
Definition copy_slice (b : str) (lo hi : nat) (content : str) : option str :=
  if (lo <=? hi) && (hi <=? length b) && (hi - lo =? length content) then copy_at b lo content else None.

Definition pm_push (h : pm) (seg : str) : option pm :=
  bind (if pm_fa h && (0 <? pm_start h) && (pm_start h =? pm_end h)
        then bind (allocate_range (pm_buf h) (pm_start h) (pm_start h) 1) (fun b =>
             bind (set_nth b (pm_start h) SLASH) (fun b => Some (with_buf h b (pm_end h + 1))))
        else Some h) (fun h =>
  bind (pm_view h) (fun v =>
  let disambiguate := path_is_empty v && (((pm_start h =? 0) && colon_first seg) || is_nil seg) in
  if disambiguate then
    let st := fso h v in
    let len := 2 + length seg in
    bind (allocate_range (pm_buf h) st st len) (fun b =>
    let e' := pm_end h + len in
    bind (copy_slice b st (st + 2) [DOT; SLASH]) (fun b =>
    bind (copy_slice b (st + 2) e' seg) (fun b => Some (with_buf h b e'))))
  else if path_is_empty v then
    bind (replace (pm_buf h) (pm_end h) (pm_end h) seg) (fun b => Some (with_buf h b (pm_end h + length seg)))
  else
    let start_offset := if (pm_fa h || (3 <? length v)) && ends_dotslash v then 2 else 0 in
    bind (sub_chk (pm_end h) start_offset) (fun st =>
    let len := 1 + length seg in
    bind (allocate_range (pm_buf h) st (pm_end h) len) (fun b =>
    bind (set_nth b st SLASH) (fun b =>
    bind (sub_chk (pm_end h + len) start_offset) (fun e' =>
    bind (copy_slice b (st + 1) e' seg) (fun b => Some (with_buf h b e')))))))).

Definition DOTDOT : str := [DOT; DOT].

Definition pm_pop (h : pm) : option pm :=
  bind (pm_view h) (fun v =>
  let is_empty := path_is_empty v in
  bind (if is_empty && negb (is_abs v) then Some true
        else match pq_last v with
             | None => None
             | Some None => Some false
             | Some (Some r) => Some (is_dotdot (slice v r))
             end) (fun parent =>
  if parent then pm_push h DOTDOT
  else if negb is_empty then
    let st := fso h v in
    bind (sub_chk (pm_end h) 1) (fun i0 =>
    bind (back_scan (pm_buf h) st i0 (S (length (pm_buf h)))) (fun i =>
    bind (replace (pm_buf h) i (pm_end h) []) (fun b => Some (with_buf h b i))))
  else Some h)).

Definition pm_clear (h : pm) : option pm :=
  bind (pm_view h) (fun v =>
  let st := fso h v in
  bind (replace (pm_buf h) st (pm_end h) []) (fun b => Some (with_buf h b st))).

(* PathMutImpl::symbolic_push : (handle, open) *)
Definition pm_symbolic_push (h : pm) (seg : str) : option (pm * bool) :=
  if is_dot seg then Some (h, true)
  else if is_dotdot seg then bind (pm_pop h) (fun h' => Some (h', true))
  else bind (pm_view h) (fun v =>
       if negb (is_nil seg) || negb (path_is_empty v) then bind (pm_push h seg) (fun h' => Some (h', false))
       else Some (h, false)).

Fixpoint sym_fold (h : pm) (open : bool) (segs : list str) : option (pm * bool) :=
  match segs with
  | [] => Some (h, open)
  | s :: rest => bind (pm_symbolic_push h s) (fun '(h', o) => sym_fold h' o rest)
  end.
Definition close_open (r : pm * bool) : option pm :=
  let '(h, open) := r in
  bind (pm_view h) (fun v => if open && negb (path_is_empty v) then pm_push h [] else Some h).
Definition pm_symbolic_append (h : pm) (segs : list str) : option pm :=
  bind (sym_fold h false segs) close_open.
(* the public wrappers uri::PathMut::symbolic_push / iri::PathMut::symbolic_push add the closing empty segment *)
Definition pm_symbolic_push_pub (h : pm) (seg : str) : option pm :=
  bind (pm_symbolic_push h seg) close_open.

Fixpoint join_slash (l : list str) : str :=
  match l with [] => [] | [s] => s | s :: rest => s ++ SLASH :: join_slash rest end.

Definition seg_texts (v : str) : list str := map (slice v) (pq_segments v).

Definition pm_normalize (h : pm) : option pm :=
  bind (pm_view h) (fun v =>
  let buffer := join_slash (map (slice v) (pq_normalized_segments v)) in
  let relative := negb (is_abs v) in
  let shield := match buffer with
                | c :: _ => if is c SLASH then relative || negb (pm_fa h)
                            else relative && (pm_start h =? 0) && colon_first buffer
                | [] => false
                end in
  let buffer := if shield then DOT :: SLASH :: buffer else buffer in
  let st := fso h v in
  bind (replace (pm_buf h) st (pm_end h) buffer) (fun b => Some (with_buf h b (st + length buffer)))).

(* PathImpl::normalized : a fresh buffer; every step takes a fresh handle on it (as_path_mut) *)
Fixpoint normalized_fold (buf : str) (open : bool) (segs : list str) : option (str * bool) :=
  match segs with
  | [] => Some (buf, open)
  | s :: rest => bind (pm_symbolic_push (pm_from_path buf) s) (fun '(h', o) => normalized_fold (pm_buf h') o rest)
  end.
Definition path_normalized (p : str) : option str :=
  let start := if is_abs p then [SLASH] else [] in
  bind (normalized_fold start false (seg_texts p)) (fun '(buf, open) =>
  if open && negb (path_is_empty buf) then bind (pm_push (pm_from_path buf) []) (fun h => Some (pm_buf h)) else Some buf).

(* PathBuf::{push,pop,...}: `self.as_path_mut().op()` -- a fresh whole-buffer handle per call *)
Definition pb_apply (f : pm -> option pm) (p : str) : option str := option_map pm_buf (f (pm_from_path p)).
