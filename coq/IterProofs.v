From Coq Require Import List NArith Bool Arith Lia.
Import ListNotations.
Require Import V.Regex V.Parse V.ParseProofs V.PathSpec V.Splice V.Setters V.Iter.
Local Open Scope nat_scope.

Definition seg_ok (s : str) : Prop := Forall (fun c => stop_seg c = false) s.
Definition rest_ok (R : str) : Prop := R = [] \/ exists t, R = SLASH :: t.

Lemma rest_ends R : rest_ok R -> ends_ok stop_seg R.
Proof. intros [->|(t & ->)]; [left; auto | right]. eexists _, _. split; reflexivity. Qed.

(* forward: the segment that starts at |A| *)
Lemma segment_at_spec A s R : seg_ok s -> rest_ok R ->
  segment_at (A ++ s ++ R) (length A) = ((length A, length A + length s), length A + length s + 1).
Proof.
  intros Hs HR. unfold segment_at. rewrite skipn_app_len. rewrite scan_app by auto using rest_ends. reflexivity.
Qed.

Lemma next_segment_from_spec A s R : seg_ok s -> rest_ok R ->
  next_segment_from (A ++ s ++ R) (length A) = Some ((length A, length A + length s), length A + length s + 1).
Proof.
  intros Hs HR. unfold next_segment_from.
  replace (length A <=? length (A ++ s ++ R)) with true by (symmetry; apply Nat.leb_le; lens).
  now rewrite segment_at_spec.
Qed.

Global Arguments segment_at : simpl never.

(* backward scan over the characters of a segment *)
Lemma seg_ok_noslash s c : seg_ok s -> In c s -> is c SLASH = false.
Proof.
  intros H Hin. unfold seg_ok in H. rewrite Forall_forall in H. specialize (H c Hin).
  unfold stop_seg in H. apply orb_false_iff in H. tauto.
Qed.

Lemma get_nth_mid A s R k c : nth_error s k = Some c -> get_nth (A ++ s ++ R) (length A + k) = Some c.
Proof.
  intros H. unfold get_nth. rewrite nth_error_app2 by lia. replace (length A + k - length A) with k by lia.
  rewrite nth_error_app1; auto. apply nth_error_Some. congruence.
Qed.

(* from inside the segment (index |A| + k) the scan walks down to max(first, |A|) ... *)
Lemma back_scan_in_seg A s R first : seg_ok s -> first <= length A ->
  forall k fuel, k < length s -> k < fuel ->
  back_scan (A ++ s ++ R) first (length A + k) fuel =
  if first <? length A then back_scan (A ++ s ++ R) first (length A - 1) (fuel - k - 1) else Some (length A).
Proof.
  intros Hs Hf. induction k as [|k IH]; intros fuel Hk Hfuel; (destruct fuel as [|fuel]; [lia|]); simpl back_scan.
  - rewrite Nat.add_0_r. destruct (first <? length A) eqn:E; [|reflexivity].
    destruct (nth_error s 0) as [c|] eqn:Ec; [|apply nth_error_None in Ec; lia].
    pose proof (get_nth_mid A s R 0 c Ec) as G. rewrite Nat.add_0_r in G. rewrite G.
    rewrite (seg_ok_noslash s c Hs (nth_error_In _ _ Ec)). first [reflexivity | replace (fuel - 0) with fuel by lia; reflexivity | f_equal; lia].
  - replace (first <? length A + S k) with true by (symmetry; apply Nat.ltb_lt; lia).
    destruct (nth_error s (S k)) as [c|] eqn:Ec; [|apply nth_error_None in Ec; lia].
    rewrite (get_nth_mid A s R (S k) c Ec).
    rewrite (seg_ok_noslash s c Hs (nth_error_In _ _ Ec)).
    replace (length A + S k - 1) with (length A + k) by lia. rewrite IH by lia.
    replace (S fuel - S k - 1) with (fuel - k - 1) by lia. reflexivity.
Qed.

(* first segment: A is the (possibly empty) root prefix, |A| = first *)
Lemma previous_first pfx s R : (pfx = [] \/ pfx = [SLASH]) -> first_off (pfx ++ s ++ R) = length pfx ->
  seg_ok s -> rest_ok R -> 2 <= length pfx + length s + 1 ->
  previous_segment_from (pfx ++ s ++ R) (length pfx + length s + 1) =
  Some (Some ((length pfx, length pfx + length s), length pfx)).
Proof.
  intros Hpfx Hfirst Hs HR H2. unfold previous_segment_from.
  replace (2 <=? length pfx + length s + 1) with true by (symmetry; apply Nat.leb_le; lia).
  rewrite Hfirst.
  destruct (Nat.eq_dec (length s) 0) as [L0|L0].
  - (* empty first segment: only possible after the root slash *)
    apply length_zero_iff_nil in L0. subst s.
    destruct Hpfx as [->| ->]; simpl in H2; [lia|]. simpl length.
    replace (1 + 0 + 1 - 2) with 0 by lia. simpl back_scan. simpl bind.
    simpl app. unfold get_nth. simpl nth_error. simpl bind. change (is SLASH SLASH) with true. cbn iota.
    destruct HR as [->|(t & ->)]; reflexivity.
  - destruct (nth_error s 0) as [c0|] eqn:Ec; [|apply nth_error_None in Ec; lia].
    replace (length pfx + length s + 1 - 2) with (length pfx + (length s - 1)) by lia.
    rewrite (back_scan_in_seg pfx s R (length pfx) Hs (le_n _) (length s - 1) (S (length (pfx ++ s ++ R)))); [| lia | rewrite !app_length; lia].
    rewrite Nat.ltb_irrefl. simpl bind.
    pose proof (get_nth_mid pfx s R 0 c0 Ec) as G. rewrite Nat.add_0_r in G.
    rewrite G. simpl bind.
    rewrite (seg_ok_noslash s c0 Hs (nth_error_In _ _ Ec)).
    rewrite skipn_app_len, scan_app by auto using rest_ends. reflexivity.
Qed.

(* later segments: a slash at index |A'| >= first precedes the segment *)
Lemma previous_later A' s R : first_off ((A' ++ [SLASH]) ++ s ++ R) <= length A' ->
  seg_ok s -> rest_ok R ->
  previous_segment_from ((A' ++ [SLASH]) ++ s ++ R) (length (A' ++ [SLASH]) + length s + 1) =
  Some (Some ((length (A' ++ [SLASH]), length (A' ++ [SLASH]) + length s), length (A' ++ [SLASH]))).
Proof.
  intros Hfirst Hs HR. unfold previous_segment_from. set (A := A' ++ [SLASH]) in *.
  assert (LA : length A = length A' + 1) by (unfold A; lens).
  replace (2 <=? length A + length s + 1) with true by (symmetry; apply Nat.leb_le; lia).
  set (first := first_off (A ++ s ++ R)) in *.
  assert (Gs : get_nth (A ++ s ++ R) (length A') = Some SLASH).
  { unfold A. rewrite <- app_assoc. simpl. apply get_nth_app. }
  assert (Hstop : forall fuel, 0 < fuel -> back_scan (A ++ s ++ R) first (length A') fuel = Some (length A')).
  { intros fuel Hf. destruct fuel; [lia|]. simpl. destruct (first <? length A'); auto. rewrite Gs.
    change (is SLASH SLASH) with true. reflexivity. }
  assert (Hi : back_scan (A ++ s ++ R) first (length A + length s + 1 - 2) (S (length (A ++ s ++ R))) = Some (length A')).
  { destruct (length s) as [|n] eqn:En.
    - replace (length A + 0 + 1 - 2) with (length A') by lia. apply Hstop. lia.
    - replace (length A + S n + 1 - 2) with (length A + n) by lia.
      assert (HfA : first <= length A) by lia.
      rewrite (back_scan_in_seg A s R first Hs HfA n (S (length (A ++ s ++ R)))); [| lia | rewrite !app_length; lia].
      replace (first <? length A) with true by (symmetry; apply Nat.ltb_lt; lia).
      replace (length A - 1) with (length A') by lia. apply Hstop. rewrite !app_length. lia. }
  rewrite Hi. simpl bind. rewrite Gs. simpl bind. change (is SLASH SLASH) with true. cbn iota.
  replace (length A' + 1) with (length A) by lia.
  first [rewrite segment_at_spec by auto; reflexivity | unfold segment_at; rewrite skipn_app_len, scan_app by auto using rest_ends; reflexivity].
Qed.
Print Assumptions previous_first.
Print Assumptions previous_later.
