(* L0 model of RiRefBufImpl::set_path AS REPAIRED (G6: first_segment_contains_colon; R4: no '/' before an
   empty path) and its functional theorem. *)
From Coq Require Import List NArith Bool Arith Lia.
Import ListNotations.
Require Import V.Regex V.Parse V.ParseProofs V.Parse2 V.Parse2Proofs V.PathSpec V.Splice V.Setters V.Push.
Local Open Scope nat_scope.

Definition starts_dslash (l : str) : bool := match l with a :: b :: _ => is a SLASH && is b SLASH | _ => false end.
Definition path_is_abs (l : str) : bool := match l with a :: _ => is a SLASH | [] => false end.

(* allocate(range, |pre| + |new|); write pre at start; copy new after it *)
Definition splice2 (buf : str) (s e : nat) (pre new : str) : option str :=
  bind (allocate_range buf s e (length new + length pre)) (fun b =>
  bind (copy_at b s pre) (fun b => copy_at b (s + length pre) new)).

Definition set_path (buf : str) (new : str) : option str :=
  let '(s, e) := find_path buf 0 in
  let has_authority := match find_authority buf 0 with inl _ => true | inr _ => false end in
  if negb has_authority && starts_dslash new then splice2 buf s e [SLASH; DOT] new
  else if has_authority && negb (path_is_abs new) && negb (is_nil new) then splice2 buf s e [SLASH] new
  else if (s =? 0) && colon_first new then splice2 buf s e [DOT; SLASH] new
  else replace buf s e new.

(* the path actually written *)
Definition fix_path (p : parts) (new : str) : str :=
  let has_authority := match p_authority p with Some _ => true | None => false end in
  let no_prefix := match p_scheme p, p_authority p with None, None => true | _, _ => false end in
  if negb has_authority && starts_dslash new then [SLASH; DOT] ++ new
  else if has_authority && negb (path_is_abs new) && negb (is_nil new) then [SLASH] ++ new
  else if no_prefix && colon_first new then [DOT; SLASH] ++ new
  else new.
Definition with_path (p : parts) (x : str) : parts :=
  {| p_scheme := p_scheme p; p_authority := p_authority p; p_path := x; p_query := p_query p; p_fragment := p_fragment p |}.

Lemma splice2_spec A O T pre new :
  splice2 (A ++ O ++ T) (length A) (length A + length O) pre new = Some (A ++ (pre ++ new) ++ T).
Proof.
  unfold splice2. destruct (allocate_range_spec A O T (length new + length pre)) as (J & HJ & ->). simpl bind.
  destruct (split_at J (length pre)) as (J1 & J2 & -> & HJ1); [lia|].
  rewrite app_length in HJ.
  replace (A ++ (J1 ++ J2) ++ T) with (A ++ J1 ++ (J2 ++ T)) by (rewrite <- !app_assoc; reflexivity).
  rewrite copy_at_app by auto. simpl bind.
  replace (A ++ pre ++ J2 ++ T) with ((A ++ pre) ++ J2 ++ T) by (rewrite <- !app_assoc; reflexivity).
  replace (length A + length pre) with (length (A ++ pre)) by lens.
  rewrite copy_at_app by lia. rewrite <- !app_assoc. reflexivity.
Qed.

(* values of the two scanners on a composed reference *)
Definition pre_of (p : parts) : str := opt_post (p_scheme p) [COLON] ++ opt_pre [SLASH; SLASH] (p_authority p).
Lemma compose_pre p : compose p = pre_of p ++ p_path p ++ tail_of p.
Proof. unfold compose, pre_of. now rewrite <- !app_assoc. Qed.

Lemma find_path_value p : wf_parts p ->
  find_path (compose p) 0 = (length (pre_of p), length (pre_of p) + length (p_path p)).
Proof.
  intros W. rewrite find_path_is_parts, (reference_parts_compose p W). unfold expected, pre_of. simpl.
  destruct (p_scheme p), (p_authority p); simpl; f_equal; lens.
Qed.
Lemma find_authority_value p : wf_parts p ->
  (match find_authority (compose p) 0 with inl _ => true | inr _ => false end) =
  (match p_authority p with Some _ => true | None => false end).
Proof.
  intros W. pose proof (find_authority_is_parts (compose p)) as H. rewrite (reference_parts_compose p W) in H.
  unfold expected in H. simpl in H. destruct (find_authority (compose p) 0), (p_authority p); simpl in H; congruence.
Qed.
Lemma pre_len0 p : wf_parts p -> (length (pre_of p) =? 0) = match p_scheme p, p_authority p with None, None => true | _, _ => false end.
Proof.
  intros W. unfold pre_of. destruct (p_scheme p) as [s|], (p_authority p) as [a|]; simpl; rewrite ?app_length; simpl;
    try reflexivity; apply Nat.eqb_neq; lia.
Qed.

Theorem set_path_spec p new : wf_parts p ->
  set_path (compose p) new = Some (compose (with_path p (fix_path p new))).
Proof.
  intros W. unfold set_path. rewrite find_path_value, find_authority_value, pre_len0 by auto.
  unfold fix_path.
  assert (C : forall x, compose (with_path p x) = pre_of p ++ x ++ tail_of p).
  { intros x. rewrite compose_pre. reflexivity. }
  rewrite C, compose_pre.
  destruct (negb (match p_authority p with Some _ => true | None => false end) && starts_dslash new);
    [apply splice2_spec|].
  destruct ((match p_authority p with Some _ => true | None => false end) && negb (path_is_abs new) && negb (is_nil new));
    [apply splice2_spec|].
  destruct ((match p_scheme p, p_authority p with None, None => true | _, _ => false end) && colon_first new);
    [apply splice2_spec|].
  apply replace_spec.
Qed.
Print Assumptions set_path_spec.

(* ---------- the written path keeps the reference well formed (C04) and is a permitted shield (C05) ---------- *)
Lemma nocolon_is_not_colon l : nocolon_first l = negb (colon_first l).
Proof.
  induction l as [|c l IH]; simpl; auto.
  destruct (is c SLASH) eqn:ES, (is c COLON) eqn:EC; simpl; auto.
  apply N.eqb_eq in ES, EC. subst. discriminate.
Qed.

Theorem set_path_wf p new : wf_parts p -> none_of [QM; HASH] new -> wf_parts (with_path p (fix_path p new)).
Proof.
  intros [Hs Ha Hp Hq Hpa Hpn Hpc] Hnew. unfold fix_path.
  assert (Hsl : ~ In SLASH [QM; HASH]) by (simpl; unfold SLASH, QM, HASH; intros [E|[E|[]]]; discriminate).
  assert (Hdt : ~ In DOT [QM; HASH]) by (simpl; unfold DOT, QM, HASH; intros [E|[E|[]]]; discriminate).
  constructor; simpl; auto.
  - (* no '?' '#' *)
    destruct (negb _ && starts_dslash new); [repeat (apply none_of_cons; split; auto)|].
    destruct (_ && negb (path_is_abs new) && negb (is_nil new)); [repeat (apply none_of_cons; split; auto)|].
    destruct (_ && colon_first new); [repeat (apply none_of_cons; split; auto)|]. auto.
  - (* with an authority: empty or absolute *)
    intros Hau. destruct (p_authority p) as [a|]; [|tauto]. simpl.
    destruct new as [|c new']; simpl; [left; destruct (p_scheme p); reflexivity|].
    destruct (is c SLASH) eqn:E; simpl; destruct (p_scheme p); simpl; right;
      try (apply N.eqb_eq in E; subst c); eauto.
  - (* without an authority: does not start with "//" *)
    intros Hau t. rewrite Hau. simpl.
    destruct (starts_dslash new) eqn:E.
    + simpl. unfold DOT, SLASH. intros H. injection H as H. discriminate.
    + destruct (match p_scheme p with Some _ => false | None => true end && colon_first new) eqn:E2.
      * simpl. unfold DOT, SLASH. intros H. injection H as H. discriminate.
      * intros ->. simpl in E. change (is SLASH SLASH) with true in E. discriminate.
  - (* without scheme and authority: no ':' in the first segment *)
    intros Hsc Hau. rewrite Hsc, Hau. simpl.
    destruct (starts_dslash new) eqn:E; [reflexivity|].
    destruct (colon_first new) eqn:E2; [reflexivity|].
    rewrite nocolon_is_not_colon, E2. reflexivity.
Qed.
Print Assumptions set_path_wf.
