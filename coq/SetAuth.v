(* L0 model of RiRefBufImpl::set_authority and set_scheme (Option version) AS REPAIRED (R4, G6). *)
From Coq Require Import List NArith Bool Arith Lia.
Import ListNotations.
Require Import V.Regex V.Parse V.ParseProofs V.Parse2 V.Parse2Proofs V.ScanValues V.PathSpec V.Splice V.Setters V.Push V.SetPath.
Local Open Scope nat_scope.

(* allocate(start..start, n); then write pieces *)
Definition insert_at (buf : str) (start : nat) (content : str) : option str := replace buf start start content.

Definition set_authority (buf : str) (auth : option str) : option str :=
  match auth with
  | Some new =>
    match find_authority buf 0 with
    | inl (s, e) => replace buf s e new
    | inr start =>
      (* repaired: '/' only in front of a non-empty relative path *)
      let needs_slash := match nth_error buf start with
                         | None => false
                         | Some c => negb (is c SLASH || is_qh c) end in
      insert_at buf start ([SLASH; SLASH] ++ new ++ (if needs_slash then [SLASH] else []))
    end
  | None =>
    match find_authority buf 0 with
    | inl (s, e) =>
      let dd := match nth_error buf e, nth_error buf (e + 1) with
                | Some a, Some b => is a SLASH && is b SLASH | _, _ => false end in
      bind (sub_chk s 2) (fun s' => replace buf s' e (if dd then [SLASH; DOT] else []))
    | inr _ => Some buf
    end
  end.

Definition with_auth (p : parts) (a : option str) (path : str) : parts :=
  {| p_scheme := p_scheme p; p_authority := a; p_path := path; p_query := p_query p; p_fragment := p_fragment p |}.

Lemma compose_sch p : compose p = sch_of p ++ opt_pre [SLASH; SLASH] (p_authority p) ++ p_path p ++ tail_of p.
Proof. reflexivity. Qed.

(* the path as written after the call *)
Definition auth_fix_path (path tail : str) (new_auth : option str) (old_auth : option str) : str :=
  match new_auth, old_auth with
  | Some _, None =>      (* authority added *)
    match path ++ tail with
    | c :: _ => if negb (is c SLASH || is_qh c) then [SLASH] ++ path else path
    | [] => path
    end
  | None, Some _ => if starts_dslash path then [SLASH; DOT] ++ path else path
  | _, _ => path
  end.

Lemma nth_error_at {A} (pre : list A) rest : nth_error (pre ++ rest) (length pre) = nth_error rest 0.
Proof. rewrite nth_error_app2 by lia. now rewrite Nat.sub_diag. Qed.

Theorem set_authority_spec p new : wf_parts p ->
  set_authority (compose p) new =
  Some (compose (with_auth p new (auth_fix_path (p_path p) (tail_of p) new (p_authority p)))).
Proof.
  intros W. unfold set_authority. rewrite find_authority_full by auto.
  assert (C : forall a x, compose (with_auth p a x) = sch_of p ++ opt_pre [SLASH; SLASH] a ++ x ++ tail_of p) by reflexivity.
  rewrite C, compose_sch. unfold auth_fix_path.
  destruct new as [new|]; destruct (p_authority p) as [a|] eqn:Ea; simpl opt_pre.
  - (* replace *)
    replace (sch_of p ++ (SLASH :: SLASH :: a) ++ p_path p ++ tail_of p)
      with ((sch_of p ++ [SLASH; SLASH]) ++ a ++ (p_path p ++ tail_of p)) by (rewrite <- !app_assoc; reflexivity).
    replace (length (sch_of p) + 2) with (length (sch_of p ++ [SLASH; SLASH])) by lens.
    rewrite replace_spec. rewrite <- !app_assoc. reflexivity.
  - (* insert *)
    unfold insert_at. simpl app. rewrite nth_error_at.
    pose proof (replace_spec (sch_of p) [] (p_path p ++ tail_of p)) as R. simpl in R. rewrite Nat.add_0_r in R.
    rewrite R. f_equal. f_equal.
    destruct (p_path p ++ tail_of p) as [|c rest] eqn:E; simpl.
    + apply app_eq_nil in E as [-> ->]. simpl. rewrite !app_nil_r. reflexivity.
    + destruct (negb (is c SLASH || is_qh c)); simpl; rewrite <- ?app_assoc; simpl; rewrite <- ?E; rewrite <- ?app_assoc; reflexivity.
  - (* remove *)
    unfold sub_chk. replace (2 <=? length (sch_of p) + 2) with true by (symmetry; apply Nat.leb_le; lia).
    simpl bind. replace (length (sch_of p) + 2 - 2) with (length (sch_of p)) by lia.
    replace (sch_of p ++ (SLASH :: SLASH :: a) ++ p_path p ++ tail_of p)
      with (sch_of p ++ (SLASH :: SLASH :: a) ++ (p_path p ++ tail_of p)) by reflexivity.
    replace (length (sch_of p) + 2 + length a) with (length (sch_of p) + length (SLASH :: SLASH :: a)) by (simpl; lia).
    (* the two bytes after the authority *)
    assert (Hpa : p_path p = [] \/ exists t, p_path p = SLASH :: t) by (destruct W as [_ _ _ _ Hpa _ _]; apply Hpa; congruence).
    assert (Hends : ends_ok is_qh (tail_of p)) by apply tail_ends_qh.
    set (A := sch_of p ++ SLASH :: SLASH :: a).
    set (B := sch_of p ++ SLASH :: SLASH :: a ++ p_path p ++ tail_of p).
    assert (HB : B = A ++ p_path p ++ tail_of p) by (unfold A, B; rewrite <- !app_assoc; reflexivity).
    replace (length (sch_of p) + length (SLASH :: SLASH :: a)) with (length A) by (unfold A; lens).
    assert (Hdd : (match nth_error B (length A), nth_error B (length A + 1) with
                   | Some x, Some y => is x SLASH && is y SLASH | _, _ => false end) = starts_dslash (p_path p)).
    { rewrite HB. rewrite nth_error_at. rewrite (nth_error_app2 A) by lia. replace (length A + 1 - length A) with 1 by lia.
      destruct Hpa as [->|(t & ->)]; simpl.
      - destruct Hends as [->|(c & r & -> & Hc)]; simpl; auto.
        destruct (is c SLASH) eqn:E; [|destruct r; reflexivity].
        apply N.eqb_eq in E; subst. discriminate.
      - change (is SLASH SLASH) with true. simpl.
        destruct t as [|d t']; simpl.
        + destruct Hends as [->|(c & r & -> & Hc)]; simpl; auto.
          destruct (is c SLASH) eqn:E; auto. apply N.eqb_eq in E; subst. discriminate.
        + reflexivity. }
    rewrite Hdd. unfold B, A.
    change (sch_of p ++ SLASH :: SLASH :: a ++ p_path p ++ tail_of p)
      with (sch_of p ++ (SLASH :: SLASH :: a) ++ (p_path p ++ tail_of p)).
    replace (length (sch_of p ++ SLASH :: SLASH :: a)) with (length (sch_of p) + length (SLASH :: SLASH :: a)) by lens.
    rewrite replace_spec. destruct (starts_dslash (p_path p)); simpl; rewrite <- ?app_assoc; reflexivity.
  - reflexivity.
Qed.
Print Assumptions set_authority_spec.
