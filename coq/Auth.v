(* Model of the authority scanners of parse.rs AS REPAIRED (G1: host() tests bytes[i]; G2: '[' in
   user_info_or_host scans to ']') and of AuthorityImpl::parts. *)
From Coq Require Import List NArith Bool Arith.
Import ListNotations.
Require Import V.Regex V.Parse.
Local Open Scope nat_scope.

Definition AT : N := 64%N. Definition LBR : N := 91%N. Definition RBR : N := 93%N.

Inductive uih := UihUserInfo | UihHost.

(* inner `while i < len { if bytes[i] == '@' { return UserInfo i } i += 1 }; return Host end` *)
Fixpoint uih_after_colon (l : str) (i end_ : nat) : uih * nat :=
  match l with
  | [] => (UihHost, end_)
  | c :: l' => if is c AT then (UihUserInfo, i) else uih_after_colon l' (S i) end_
  end.
(* repaired '[' branch: `while i < len && bytes[i] != ']' { i += 1 }; (Host, min(i + 1, len))` *)
Fixpoint to_rbr (l : str) (i : nat) : nat := match l with [] => i | c :: l' => if is c RBR then i else to_rbr l' (S i) end.
Fixpoint uih_loop (l : str) (i len : nat) : uih * nat :=
  match l with
  | [] => (UihHost, i)
  | c :: l' =>
    if is c LBR then (UihHost, Nat.min (to_rbr l i + 1) len)
    else if is c AT then (UihUserInfo, i)
    else if is c COLON then uih_after_colon l i i
    else uih_loop l' (S i) len
  end.
Definition user_info_or_host (bytes : str) (i : nat) : uih * nat := uih_loop (skipn i bytes) i (length bytes).

Fixpoint find_user_info_loop (l : str) (start i : nat) : option range :=
  match l with [] => None | c :: l' => if is c AT then Some (start, i) else find_user_info_loop l' start (S i) end.
Definition find_user_info (bytes : str) (i : nat) : option range := find_user_info_loop (skipn i bytes) i i.

(* host(bytes, i) -> usize (repaired) *)
Definition host_end (bytes : str) (i : nat) : nat :=
  let l := skipn i bytes in
  match l with
  | c :: l' => if is c LBR then
                 let j := to_rbr l' (S i) in                      (* index of ']' or len *)
                 scan (fun c => is c COLON) (skipn j bytes) j
               else scan (fun c => is c COLON) l i
  | [] => i
  end.

Definition find_host (bytes : str) (i : nat) : range :=
  match user_info_or_host bytes i with
  | (UihUserInfo, j) => (j + 1, host_end bytes (j + 1))
  | (UihHost, e) => (i, e)
  end.

Definition port (bytes : str) (i : nat) : bool * nat :=
  match skipn i bytes with c :: _ => if is c COLON then (true, length bytes) else (false, i) | [] => (false, i) end.

Record auth_ranges := { a_userinfo : option range; a_host : range; a_port : option range }.
Definition authority_parts (bytes : str) : auth_ranges :=
  let '(ui, host) :=
    match user_info_or_host bytes 0 with
    | (UihUserInfo, e) => (Some (0, e), (e + 1, host_end bytes (e + 1)))
    | (UihHost, e) => (None, (0, e))
    end in
  let '(has_port, pe) := port bytes (snd host) in
  {| a_userinfo := ui; a_host := host; a_port := if has_port then Some (snd host + 1, pe) else None |}.
