(* Path vocabulary of the spec: '/'-split, rendering, dot-segment normalisation. *)
From Coq Require Import List NArith Bool Arith Lia.
Import ListNotations.
Require Import V.Regex V.Parse.
Local Open Scope nat_scope.

Definition DOT : N := 46%N.
Definition seg := str.
Definition is_dot (s : seg) : bool := match s with [c] => is c DOT | _ => false end.
Definition is_dotdot (s : seg) : bool := match s with [c; d] => is c DOT && is d DOT | _ => false end.

(* split on '/', with split [] = [[]] so that it is a homomorphism *)
Fixpoint split (l : str) : list seg :=
  match l with
  | [] => [[]]
  | c :: l' => if is c SLASH then [] :: split l'
               else match split l' with s :: r => (c :: s) :: r | [] => [[c]] end
  end.
Fixpoint join (l : list seg) : str :=
  match l with [] => [] | [s] => s | s :: r => s ++ SLASH :: join r end.

Lemma split_nonempty l : split l <> [].
Proof. induction l as [|c l IH]; simpl; [discriminate|]. destruct (is c SLASH); [discriminate|]. destruct (split l); discriminate. Qed.

Lemma join_split l : join (split l) = l.
Proof.
  induction l as [|c l IH]; simpl; auto.
  destruct (is c SLASH) eqn:E.
  - apply N.eqb_eq in E; subst c. simpl. destruct (split l) eqn:S; [now apply split_nonempty in S|]. rewrite IH. reflexivity.
  - destruct (split l) as [|s r] eqn:S; [now apply split_nonempty in S|]. simpl in *. destruct r; simpl in *; rewrite <- IH; reflexivity.
Qed.

Lemma split_app a b : split (a ++ SLASH :: b) = split a ++ split b.
Proof.
  induction a as [|c a IH]; simpl.
  - reflexivity.
  - destruct (is c SLASH); [now rewrite IH|]. rewrite IH.
    destruct (split a) as [|s r] eqn:S; [now apply split_nonempty in S|]. reflexivity.
Qed.

Definition noslash (s : seg) : Prop := Forall (fun c => c <> SLASH) s.
Lemma split_noslash s : noslash s -> split s = [s].
Proof.
  induction 1 as [|c s Hc _ IH]; simpl; auto.
  apply N.eqb_neq in Hc. unfold is. rewrite Hc, IH. reflexivity.
Qed.
Lemma split_join l : l <> [] -> Forall noslash l -> split (join l) = l.
Proof.
  induction l as [|s l IH]; [tauto|]. intros _ H. inversion H as [|? ? Hs Hl]; subst.
  destruct l as [|s' l]; simpl.
  - now apply split_noslash.
  - rewrite split_app, split_noslash by auto. simpl. f_equal. apply IH; [discriminate | auto].
Qed.
Lemma split_all_noslash l : Forall noslash (split l).
Proof.
  induction l as [|c l IH]; simpl; [repeat constructor|].
  destruct (is c SLASH) eqn:E; [constructor; [constructor | auto]|].
  destruct (split l) as [|s r]; [repeat constructor; now apply N.eqb_neq|].
  inversion IH; subst. constructor; auto. constructor; auto. now apply N.eqb_neq.
Qed.

(* the library's convention: "" and "/" have no segment *)
Definition is_abs (p : str) : bool := match p with c :: _ => is c SLASH | [] => false end.
Definition segs (p : str) : list seg :=
  match p with
  | [] => []
  | c :: r => if is c SLASH then (match r with [] => [] | _ => split r end) else split p
  end.
Definition render (ab : bool) (l : list seg) : str := (if ab then [SLASH] else []) ++ join l.

Theorem render_segs p : render (is_abs p) (segs p) = p.
Proof.
  unfold render, segs, is_abs. destruct p as [|c r]; [reflexivity|].
  destruct (is c SLASH) eqn:E.
  - apply N.eqb_eq in E; subst c. destruct r as [|d r]; [reflexivity|].
    cbn [app]. f_equal. apply join_split.
  - cbn [app]. apply join_split.
Qed.

(* ---------- normalisation: the stack walk of the property text ---------- *)
Definition step (ab : bool) (stack : list seg) (s : seg) : list seg :=   (* stack kept reversed *)
  if is_dot s then stack
  else if is_dotdot s then
    match stack with
    | top :: rest => if is_dotdot top then s :: stack else rest
    | [] => if ab then [] else [s]
    end
  else s :: stack.
Definition norm (ab : bool) (l : list seg) : list seg := rev (fold_left (step ab) l []).

(* normal forms *)
Fixpoint plain (l : list seg) : Prop := match l with [] => True | s :: r => is_dot s = false /\ is_dotdot s = false /\ plain r end.
Fixpoint all_dotdot (l : list seg) : Prop := match l with [] => True | s :: r => is_dotdot s = true /\ all_dotdot r end.
Definition normal (ab : bool) (l : list seg) : Prop :=
  exists ups rest, l = ups ++ rest /\ all_dotdot ups /\ plain rest /\ (ab = true -> ups = []).

Lemma dotdot_not_dot s : is_dotdot s = true -> is_dot s = false.
Proof. destruct s as [|a [|b [|c s]]]; simpl; auto; discriminate. Qed.

Lemma last_case {A} (l : list A) : l = [] \/ exists l' x, l = l' ++ [x].
Proof. induction l as [|x l _] using rev_ind; [left; auto | right; eauto]. Qed.
Lemma plain_app a b : plain (a ++ b) <-> plain a /\ plain b.
Proof. induction a; simpl; tauto. Qed.
Lemma all_dotdot_app a b : all_dotdot (a ++ b) <-> all_dotdot a /\ all_dotdot b.
Proof. induction a; simpl; tauto. Qed.

(* invariant of the walk: the reversed stack is normal *)
Lemma step_normal ab stack s : normal ab (rev stack) -> normal ab (rev (step ab stack s)).
Proof.
  intros (ups & rest & E & Hu & Hp & Hab). unfold step.
  destruct (is_dot s) eqn:D; [exists ups, rest; auto|].
  destruct (is_dotdot s) eqn:DD.
  - destruct stack as [|top stack']; simpl in *.
    + destruct ab.
      * exists [], []. simpl; auto.
      * exists [s], []. simpl. repeat split; auto. discriminate.
    + destruct (last_case rest) as [-> | (rest' & y & ->)].
      * (* everything on the stack is '..' *)
        rewrite app_nil_r in E. subst ups. apply all_dotdot_app in Hu as [Hu1 Hu2]. simpl in Hu2.
        destruct Hu2 as [T _]. rewrite T. simpl.
        exists ((rev stack' ++ [top]) ++ [s]), []. rewrite app_nil_r. repeat split; auto.
        -- apply all_dotdot_app; split; [apply all_dotdot_app; simpl; auto | simpl; auto].
        -- intros Ht. specialize (Hab Ht). destruct (rev stack'); discriminate.
      * (* the top is a plain segment: pop it *)
        rewrite app_assoc in E. apply app_inj_tail in E as [E <-].
        apply plain_app in Hp as [Hp1 Hp2]. simpl in Hp2. destruct Hp2 as (_ & T & _). rewrite T.
        exists ups, rest'. auto.
  - simpl. exists ups, (rest ++ [s]). rewrite E, app_assoc. repeat split; auto.
    apply plain_app. simpl. auto.
Qed.

Lemma fold_normal ab l : forall stack, normal ab (rev stack) -> normal ab (rev (fold_left (step ab) l stack)).
Proof. induction l as [|s l IH]; simpl; auto. intros stack H. apply IH, step_normal, H. Qed.

Theorem norm_normal ab l : normal ab (norm ab l).
Proof. unfold norm. apply fold_normal. exists [], []. simpl; auto. Qed.

(* on a normal list the walk is the identity, hence idempotence *)
Lemma fold_ups ab ups : ab = false -> all_dotdot ups -> forall stack, all_dotdot (rev stack) ->
  fold_left (step ab) ups stack = rev ups ++ stack.
Proof.
  intros -> . induction ups as [|u ups IH]; simpl; auto. intros [Hu Hups] stack Hs.
  unfold step at 2. rewrite (dotdot_not_dot _ Hu), Hu.
  destruct stack as [|top st]; simpl in *.
  - rewrite IH; simpl; auto. now rewrite <- app_assoc.
  - apply all_dotdot_app in Hs as [Hs1 Hs2]. simpl in Hs2. destruct Hs2 as [T _]. rewrite T.
    rewrite IH; auto.
    + now rewrite <- app_assoc.
    + simpl. apply all_dotdot_app; split; [apply all_dotdot_app; simpl; auto | simpl; auto].
Qed.

Lemma fold_plain ab rest : plain rest -> forall stack, fold_left (step ab) rest stack = rev rest ++ stack.
Proof.
  induction rest as [|r rest IH]; simpl; auto. intros (D & DD & Hp) stack.
  unfold step at 2. rewrite D, DD. rewrite IH by auto. now rewrite <- app_assoc.
Qed.

Theorem norm_id_on_normal ab l : normal ab l -> norm ab l = l.
Proof.
  intros (ups & rest & -> & Hu & Hp & Hab). unfold norm. rewrite fold_left_app.
  destruct ab.
  - rewrite (Hab eq_refl). simpl. rewrite fold_plain by auto. rewrite app_nil_r. apply rev_involutive.
  - rewrite (fold_ups false ups eq_refl Hu []) by (simpl; auto). rewrite app_nil_r.
    rewrite fold_plain by auto. rewrite rev_app_distr, !rev_involutive. reflexivity.
Qed.

Theorem norm_idempotent ab l : norm ab (norm ab l) = norm ab l.
Proof. apply norm_id_on_normal, norm_normal. Qed.
Print Assumptions norm_idempotent.
Print Assumptions render_segs.
