From Coq Require Import List NArith Bool Lia.
Import ListNotations.
Require Import V.Regex.
Open Scope N_scope.

(* ---------- character classes cut out by breakpoints ---------- *)
Definition class_equiv (A : cls) (c c' : N) : Prop := forall r, In r A -> in_rng c r = in_rng c' r.

Definition breakpoints (A : cls) : list N := flat_map (fun r => [fst r; snd r + 1]) A.

Fixpoint rep_of (l : list N) (c : N) : N :=
  match l with
  | [] => 0
  | b :: l' => let best := rep_of l' c in if (b <=? c) && (best <=? b) then b else best
  end.

Lemma rep_of_le l c : rep_of l c <= c.
Proof. induction l as [|b l IH]; simpl; [lia|]. destruct (b <=? c) eqn:E1; simpl; auto. destruct (_ <=? b); auto. apply N.leb_le in E1; auto. Qed.

Lemma rep_of_in l c : rep_of l c = 0 \/ In (rep_of l c) l.
Proof. induction l as [|b l IH]; simpl; auto. destruct ((b <=? c) && (rep_of l c <=? b)); auto. destruct IH; auto. Qed.

Lemma rep_of_max l c b : In b l -> b <= c -> b <= rep_of l c.
Proof.
  induction l as [|b' l IH]; simpl; [tauto|].
  intros [->|Hin] Hle.
  - apply N.leb_le in Hle. rewrite Hle. simpl. destruct (rep_of l c <=? b) eqn:E; [lia|]. apply N.leb_gt in E. lia.
  - specialize (IH Hin Hle). destruct (b' <=? c) eqn:E1; simpl; auto.
    destruct (rep_of l c <=? b') eqn:E2; auto. apply N.leb_le in E2. lia.
Qed.

Lemma rep_of_equiv A c : class_equiv A c (rep_of (breakpoints A) c).
Proof.
  intros [lo hi] Hin. unfold in_rng; simpl.
  set (l := breakpoints A). set (c' := rep_of l c).
  assert (Hlo : In lo l). { apply in_flat_map. exists (lo, hi). simpl; auto. }
  assert (Hhi : In (hi + 1) l). { apply in_flat_map. exists (lo, hi). simpl; auto. }
  assert (Hle : c' <= c) by apply rep_of_le.
  assert (M1 := rep_of_max l c lo Hlo). assert (M2 := rep_of_max l c (hi + 1) Hhi). fold c' in M1, M2.
  destruct (lo <=? c) eqn:E1, (c <=? hi) eqn:E2, (lo <=? c') eqn:E3, (c' <=? hi) eqn:E4; simpl; auto;
    repeat match goal with
           | H : (_ <=? _) = true |- _ => apply N.leb_le in H
           | H : (_ <=? _) = false |- _ => apply N.leb_gt in H
           end; lia.
Qed.

Definition reps (A : cls) : list N := 0 :: breakpoints A.
Lemma rep_of_reps A c : In (rep_of (breakpoints A) c) (reps A).
Proof. unfold reps. destruct (rep_of_in (breakpoints A) c) as [->|H]; simpl; auto. Qed.

Definition rng_eqb (r s : N * N) : bool := (fst r =? fst s) && (snd r =? snd s).
Lemma rng_eqb_eq r s : rng_eqb r s = true -> r = s.
Proof. destruct r, s; unfold rng_eqb; simpl. rewrite andb_true_iff, !N.eqb_eq. intros [-> ->]; auto. Qed.
Definition subset (k A : cls) : bool := forallb (fun r => existsb (rng_eqb r) A) k.
Lemma subset_In k A : subset k A = true -> forall r, In r k -> In r A.
Proof.
  unfold subset. rewrite forallb_forall. intros H r Hr. specialize (H r Hr).
  apply existsb_exists in H as (r' & Hin & E). apply rng_eqb_eq in E; subst; auto.
Qed.
Lemma class_equiv_subset k A c c' : subset k A = true -> class_equiv A c c' -> class_equiv k c c'.
Proof. intros S H r Hr. apply H. eapply subset_In; eauto. Qed.

(* ---------- generic certificate checker ---------- *)
Section Check.
  Variables SA SB : Type.
  Variable stepA : SA -> N -> SA. Variable accA : SA -> bool. Variable atomsA : SA -> cls. Variable eqbA : SA -> SA -> bool.
  Variable stepB : SB -> N -> SB. Variable accB : SB -> bool. Variable atomsB : SB -> cls. Variable eqbB : SB -> SB -> bool.
  Hypothesis eqbA_eq : forall x y, eqbA x y = true -> x = y.
  Hypothesis eqbB_eq : forall x y, eqbB x y = true -> x = y.
  Hypothesis stepA_equiv : forall x c c', class_equiv (atomsA x) c c' -> stepA x c = stepA x c'.
  Hypothesis stepB_equiv : forall x c c', class_equiv (atomsB x) c c' -> stepB x c = stepB x c'.
  Variable rel : bool -> bool -> bool.
  Variable A0 : cls.

  Definition memV (a : SA) (b : SB) (V : list (SA * SB)) : bool :=
    existsb (fun q => eqbA a (fst q) && eqbB b (snd q)) V.

  Definition ok_pair (V : list (SA * SB)) (p : SA * SB) : bool :=
    rel (accA (fst p)) (accB (snd p))
    && subset (atomsA (fst p)) A0 && subset (atomsB (snd p)) A0
    && forallb (fun c => memV (stepA (fst p) c) (stepB (snd p) c) V) (reps A0).

  Definition closed (V : list (SA * SB)) (a0 : SA) (b0 : SB) : bool :=
    memV a0 b0 V && forallb (ok_pair V) V.

  Fixpoint run {S} (step : S -> N -> S) (x : S) (w : str) : S :=
    match w with [] => x | c :: w' => run step (step x c) w' end.

  Lemma memV_In a b V : memV a b V = true -> In (a, b) V.
  Proof.
    unfold memV. intros H. apply existsb_exists in H as ([a' b'] & Hin & E). simpl in E.
    apply andb_true_iff in E as [E1 E2]. apply eqbA_eq in E1. apply eqbB_eq in E2. subst; auto.
  Qed.

  Theorem closed_sound V a0 b0 : closed V a0 b0 = true ->
    forall w, rel (accA (run stepA a0 w)) (accB (run stepB b0 w)) = true.
  Proof.
    unfold closed. rewrite andb_true_iff. intros [Hinit Hall].
    apply memV_In in Hinit. rewrite forallb_forall in Hall.
    intros w. revert a0 b0 Hinit. induction w as [|c w IH]; intros a b Hin; simpl.
    - specialize (Hall _ Hin). unfold ok_pair in Hall. cbn [fst snd] in Hall.
      repeat (apply andb_true_iff in Hall as [Hall ?]). exact Hall.
    - apply IH. specialize (Hall _ Hin). unfold ok_pair in Hall. cbn [fst snd] in Hall.
      apply andb_true_iff in Hall as [Hall Hstep].
      apply andb_true_iff in Hall as [Hall HsB].
      apply andb_true_iff in Hall as [_ HsA].
      rewrite forallb_forall in Hstep.
      set (c' := rep_of (breakpoints A0) c).
      assert (Heq : class_equiv A0 c c') by apply rep_of_equiv.
      rewrite (stepA_equiv a c c'), (stepB_equiv b c c').
      + apply memV_In. apply Hstep. apply rep_of_reps.
      + eapply class_equiv_subset; eauto.
      + eapply class_equiv_subset; eauto.
  Qed.
End Check.

(* ---------- regexes as a recogniser ---------- *)
Fixpoint atoms (r : re) : cls :=
  match r with
  | Empty | Eps => []
  | Cls k => k
  | Cat a b | Alt a b | And a b => atoms a ++ atoms b
  | Star a => atoms a
  end.

Lemma in_cls_equiv k c c' : class_equiv k c c' -> in_cls c k = in_cls c' k.
Proof.
  unfold in_cls. induction k as [|r k IH]; intros H; simpl; auto.
  rewrite (H r (or_introl eq_refl)), IH; auto. intros r' Hr'. apply H; right; auto.
Qed.

Lemma class_equiv_app k1 k2 c c' : class_equiv (k1 ++ k2) c c' -> class_equiv k1 c c' /\ class_equiv k2 c c'.
Proof. intros H; split; intros r Hr; apply H; apply in_or_app; auto. Qed.

Lemma deriv_equiv r c c' : class_equiv (atoms r) c c' -> deriv c r = deriv c' r.
Proof.
  induction r; simpl; intros H; auto.
  - now rewrite (in_cls_equiv k c c').
  - apply class_equiv_app in H as [H1 H2]. now rewrite IHr1, IHr2.
  - apply class_equiv_app in H as [H1 H2]. now rewrite IHr1, IHr2.
  - now rewrite IHr.
  - apply class_equiv_app in H as [H1 H2]. now rewrite IHr1, IHr2.
Qed.

Definition re_step (r : re) (c : N) : re := deriv c r.
Lemma run_re_matchb w : forall r, nullable (run re_step r w) = matchb r w.
Proof. induction w as [|c w IH]; intros r; simpl; auto. Qed.

(* ---------- table DFAs (what the translator emits) ---------- *)
Record dfa := { d_init : N; d_states : list (bool * list (cls * N)) }.

Fixpoint find_arm (c : N) (arms : list (cls * N)) : option N :=
  match arms with [] => None | (k, t) :: arms' => if in_cls c k then Some t else find_arm c arms' end.

Definition d_row (d : dfa) (q : option N) : option (bool * list (cls * N)) :=
  match q with None => None | Some i => nth_error (d_states d) (N.to_nat i) end.
Definition d_step (d : dfa) (q : option N) (c : N) : option N :=
  match d_row d q with None => None | Some (_, arms) => find_arm c arms end.
Definition d_acc (d : dfa) (q : option N) : bool :=
  match d_row d q with None => false | Some (f, _) => f end.
Definition d_atoms (d : dfa) (q : option N) : cls :=
  match d_row d q with None => [] | Some (_, arms) => flat_map fst arms end.
Definition d_eqb (x y : option N) : bool :=
  match x, y with None, None => true | Some a, Some b => a =? b | _, _ => false end.
Lemma d_eqb_eq x y : d_eqb x y = true -> x = y.
Proof. destruct x, y; simpl; try discriminate; auto. intros H; apply N.eqb_eq in H; subst; auto. Qed.

Lemma find_arm_equiv arms c c' : class_equiv (flat_map fst arms) c c' -> find_arm c arms = find_arm c' arms.
Proof.
  induction arms as [|[k t] arms IH]; simpl; intros H; auto.
  apply class_equiv_app in H as [H1 H2]. rewrite (in_cls_equiv k c c' H1), IH; auto.
Qed.
Lemma d_step_equiv d q c c' : class_equiv (d_atoms d q) c c' -> d_step d q c = d_step d q c'.
Proof. unfold d_atoms, d_step. destruct (d_row d q) as [[f arms]|]; auto. apply find_arm_equiv. Qed.

Definition dfa_accepts (d : dfa) (w : str) : bool := d_acc d (run (d_step d) (Some (d_init d)) w).

(* ---------- the two instances used by the properties ---------- *)
Definition cert_dfa_re (d : dfa) (r : re) (A0 : cls) (V : list (option N * re)) : bool :=
  closed _ _ (d_step d) (d_acc d) (d_atoms d) d_eqb re_step nullable atoms re_eqb Bool.eqb A0 V (Some (d_init d)) r.

Theorem dfa_re_equiv d r A0 V : cert_dfa_re d r A0 V = true ->
  forall w, dfa_accepts d w = true <-> L r w.
Proof.
  intros H w. rewrite <- matchb_spec, <- run_re_matchb. unfold dfa_accepts.
  pose proof (closed_sound _ _ (d_step d) (d_acc d) (d_atoms d) d_eqb re_step nullable atoms re_eqb
    d_eqb_eq re_eqb_eq (d_step_equiv d) (fun x c c' => deriv_equiv x c c') Bool.eqb A0 V _ _ H w) as E.
  apply eqb_prop in E. rewrite E. tauto.
Qed.

Definition cert_re_incl (r1 r2 : re) (A0 : cls) (V : list (re * re)) : bool :=
  closed _ _ re_step nullable atoms re_eqb re_step nullable atoms re_eqb implb A0 V r1 r2.

Theorem re_incl r1 r2 A0 V : cert_re_incl r1 r2 A0 V = true -> forall w, L r1 w -> L r2 w.
Proof.
  intros H w. rewrite <- !matchb_spec, <- !run_re_matchb.
  pose proof (closed_sound _ _ re_step nullable atoms re_eqb re_step nullable atoms re_eqb
    re_eqb_eq re_eqb_eq (fun x c c' => deriv_equiv x c c') (fun x c c' => deriv_equiv x c c') implb A0 V _ _ H w) as E.
  intros H1. rewrite H1 in E. exact E.
Qed.

(* ---------- unverified explorer producing the certificate ---------- *)
Section Explore.
  Variables SA SB : Type.
  Variable stepA : SA -> N -> SA. Variable eqbA : SA -> SA -> bool.
  Variable stepB : SB -> N -> SB. Variable eqbB : SB -> SB -> bool.
  Variable rs : list N.
  Fixpoint explore (fuel : nat) (seen work : list (SA * SB)) : list (SA * SB) :=
    match fuel with O => seen | S f =>
      match work with
      | [] => seen
      | p :: w =>
        let nxt := map (fun c => (stepA (fst p) c, stepB (snd p) c)) rs in
        let '(seen', w') := fold_left (fun '(s, w) q => if memV _ _ eqbA eqbB (fst q) (snd q) s then (s, w) else (q :: s, q :: w)) nxt (seen, w) in
        explore f seen' w'
      end
    end.
End Explore.

Definition explore_dfa_re (d : dfa) (r : re) (A0 : cls) : list (option N * re) :=
  explore _ _ (d_step d) d_eqb re_step re_eqb (reps A0) 100000 [(Some (d_init d), r)] [(Some (d_init d), r)].
Definition explore_re_re (r1 r2 : re) (A0 : cls) : list (re * re) :=
  explore _ _ re_step re_eqb re_step re_eqb (reps A0) 100000 [(r1, r2)] [(r1, r2)].

Definition dfa_all_atoms (d : dfa) : cls := flat_map (fun row => flat_map fst (snd row)) (d_states d).
Print Assumptions dfa_re_equiv.
Print Assumptions re_incl.
