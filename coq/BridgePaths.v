(* valid_parts -> wf_parts : the path-class facts, by reflection + inversion of small raw regexes. *)
From Coq Require Import List NArith Bool Arith Lia.
Import ListNotations.
Require Import V.Regex V.Bisim V.Abnf V.Parse V.ParseProofs V.Bridge V.Factor.
Open Scope N_scope.

Definition ANY : cls := [(0, MAXC)].
Definition not_slash : cls := [(0,46); (48,MAXC)].
Definition not_qh : cls := [(0,34); (36,62); (64,MAXC)].
Definition not_colon_slash : cls := [(0,46); (48,57); (59,MAXC)].

Lemma in_not_slash c : in_cls c not_slash = true -> c <> SLASH.
Proof. unfold in_cls, not_slash, in_rng, SLASH, MAXC. simpl. rewrite !orb_true_iff, !andb_true_iff, !N.leb_le. intros H ->. lia. Qed.
Lemma in_not_qh c : in_cls c not_qh = true -> ~ In c [QM; HASH].
Proof. unfold in_cls, not_qh, in_rng, QM, HASH, MAXC. simpl. rewrite !orb_true_iff, !andb_true_iff, !N.leb_le. intros H [E|[E|[]]]; subst c; lia. Qed.
Lemma in_not_colon_slash c : in_cls c not_colon_slash = true -> c <> COLON /\ c <> SLASH.
Proof. unfold in_cls, not_colon_slash, in_rng, COLON, SLASH, MAXC. simpl. rewrite !orb_true_iff, !andb_true_iff, !N.leb_le. intros H; split; intros ->; lia. Qed.

Lemma cls1_L k s : L (Cls k) s <-> exists c, s = [c] /\ in_cls c k = true.
Proof. reflexivity. Qed.

(* shapes *)
Definition SH_abempty : re := Alt Eps (Cat (ch SLASH) (Star (Cls ANY))).
Definition SH_absolute : re := Alt (ch SLASH) (Cat (ch SLASH) (Cat (Cls not_slash) (Star (Cls ANY)))).
Definition SH_rel : re := Cat (Cls not_slash) (Star (Cls ANY)).
Definition SH_noscheme : re := Cat (Cls not_colon_slash) (Cat (Star (Cls not_colon_slash)) (Alt Eps (Cat (ch SLASH) (Star (Cls ANY))))).

Lemma SH_abempty_inv s : L SH_abempty s -> s = [] \/ exists t, s = SLASH :: t.
Proof. unfold SH_abempty. rewrite Alt_L, Eps_L, lit1_L. intros [->|(t & -> & _)]; eauto. Qed.
Lemma SH_absolute_inv s : L SH_absolute s -> forall t, s <> SLASH :: SLASH :: t.
Proof.
  unfold SH_absolute. rewrite Alt_L, ch_L, lit1_L. intros [->|(t & -> & H)] t'; [discriminate|].
  use (Cat_L _ _ _) in H. destruct H as (a & b & -> & Ha & _). apply cls1_L in Ha as (c & -> & Hc).
  apply in_not_slash in Hc. simpl. intros E. injection E as E _. congruence.
Qed.
Lemma SH_rel_inv s : L SH_rel s -> forall t, s <> SLASH :: SLASH :: t.
Proof.
  unfold SH_rel. intros H t. use (Cat_L _ _ _) in H. destruct H as (a & b & -> & Ha & _).
  apply cls1_L in Ha as (c & -> & Hc). apply in_not_slash in Hc. simpl. intros E. injection E as E _. congruence.
Qed.

Lemma nocolon_first_app s rest : Forall (fun c => c <> COLON /\ c <> SLASH) s -> (rest = [] \/ exists t, rest = SLASH :: t) ->
  nocolon_first (s ++ rest) = true.
Proof.
  induction 1 as [|c s [Hc1 Hc2] _ IH]; intros Hr; simpl.
  - destruct Hr as [->|(t & ->)]; reflexivity.
  - apply N.eqb_neq in Hc1, Hc2. unfold is. rewrite Hc1, Hc2. auto.
Qed.
Lemma SH_noscheme_inv s : L SH_noscheme s -> nocolon_first s = true.
Proof.
  unfold SH_noscheme. intros H. use (Cat_L _ _ _) in H. destruct H as (a & b & -> & Ha & H).
  use (Cat_L _ _ _) in H. destruct H as (m & r & -> & Hm & Hr).
  apply cls1_L in Ha as (c & -> & Hc). apply star_cls_forall in Hm.
  rewrite Alt_L, Eps_L, lit1_L in Hr.
  replace ([c] ++ m ++ r) with ((c :: m) ++ r) by reflexivity.
  apply nocolon_first_app.
  - constructor; [now apply in_not_colon_slash|]. eapply Forall_impl; [|exact Hm]. intros x Hx. now apply in_not_colon_slash.
  - destruct Hr as [->|(t & -> & _)]; eauto.
Qed.

(* ---------- the reflection checks, both families ---------- *)
Definition U := @nil (N * N).
Definition I := ucschar_3987.
Ltac refl := vm_compute; reflexivity.

Lemma chk_abempty_U : incl_check (ipath_abempty U) SH_abempty = true. Proof. refl. Qed.
Lemma chk_abempty_I : incl_check (ipath_abempty I) SH_abempty = true. Proof. refl. Qed.
Lemma chk_absolute_U : incl_check (ipath_absolute U) SH_absolute = true. Proof. refl. Qed.
Lemma chk_absolute_I : incl_check (ipath_absolute I) SH_absolute = true. Proof. refl. Qed.
Lemma chk_rootless_U : incl_check (ipath_rootless U) SH_rel = true. Proof. refl. Qed.
Lemma chk_rootless_I : incl_check (ipath_rootless I) SH_rel = true. Proof. refl. Qed.
Lemma chk_noscheme_U : incl_check (ipath_noscheme U) SH_noscheme = true. Proof. refl. Qed.
Lemma chk_noscheme_I : incl_check (ipath_noscheme I) SH_noscheme = true. Proof. refl. Qed.
Lemma chk_path_qh_U : incl_check (ipath U) (Star (Cls not_qh)) = true. Proof. refl. Qed.
Lemma chk_path_qh_I : incl_check (ipath I) (Star (Cls not_qh)) = true. Proof. refl. Qed.

Theorem path_noscheme_wf_I s : L (ipath_noscheme I) s -> nocolon_first s = true /\ forall t, s <> SLASH :: SLASH :: t.
Proof.
  intros H. split.
  - apply SH_noscheme_inv. exact (incl_check_sound _ _ chk_noscheme_I s H).
  - pose proof (incl_check_sound _ _ chk_noscheme_I s H) as H'. unfold SH_noscheme in H'.
    use (Cat_L _ _ _) in H'. destruct H' as (a & b & -> & Ha & _). apply cls1_L in Ha as (c & -> & Hc).
    apply in_not_colon_slash in Hc as [_ Hc]. intros t E. simpl in E. injection E as E _. congruence.
Qed.
Theorem path_absolute_wf_I s : L (ipath_absolute I) s -> forall t, s <> SLASH :: SLASH :: t.
Proof. intros H. apply SH_absolute_inv. exact (incl_check_sound _ _ chk_absolute_I s H). Qed.
Theorem path_abempty_wf_I s : L (ipath_abempty I) s -> s = [] \/ exists t, s = SLASH :: t.
Proof. intros H. apply SH_abempty_inv. exact (incl_check_sound _ _ chk_abempty_I s H). Qed.
Theorem path_no_qh_I s : L (ipath I) s -> none_of [QM; HASH] s.
Proof.
  intros H. pose proof (incl_check_sound _ _ chk_path_qh_I s H) as H'. apply star_cls_forall in H'.
  unfold none_of. eapply Forall_impl; [|exact H']. intros c Hc. now apply in_not_qh.
Qed.
Print Assumptions path_noscheme_wf_I.
Print Assumptions path_no_qh_I.
