(* C07 / C08: the comparison model of Cmp.v factors through a canonical form:
     canon x = Some cx -> canon y = Some cy ->
       cmp x y = Some (rcmp cx cy)   /\   eq x y = Some (is_eq (rcmp cx cy))   /\   hash x = Some (hcanon cx)
   where rcmp is a total order built with the combinators of Ord.v.  Hence: == is the equality of canonical
   forms (an equivalence relation), cmp is a total order whose Eq outcome coincides with ==, and equal values
   hash identically. *)
From Coq Require Import List NArith Bool Arith Lia.
Import ListNotations.
Require Import V.Regex V.Parse V.Parse2 V.Auth V.PathSpec V.Splice V.Setters V.Iter V.PathQ V.AuthMut V.Cmp V.Ord.
Local Open Scope nat_scope.

Definition strcmp : str -> str -> comparison := lex_cmp N.compare.
Lemma cmp_list_lex a : forall b, cmp_list a b = strcmp a b.
Proof. induction a as [|x a IH]; intros [|y b]; simpl; auto; try (rewrite IH; reflexivity). Qed.
Lemma str_ord : ordspec strcmp. Proof. apply lex_ord, N_ord. Qed.

Definition is_eq (c : comparison) : bool := match c with Eq => true | _ => false end.

(* ---------- canonical forms ---------- *)
Definition canon_a := (option str * (str * option str))%type.
Definition canon_r := (option str * (option canon_a * (bool * (list str * (option str * option str)))))%type.
Definition acmp : canon_a -> canon_a -> comparison := pair_cmp (opt_cmp strcmp) (pair_cmp strcmp (opt_cmp strcmp)).
Definition pcmp : bool * list str -> bool * list str -> comparison := pair_cmp bool_cmp (lex_cmp strcmp).
Definition rcmp : canon_r -> canon_r -> comparison :=
  pair_cmp (opt_cmp strcmp) (pair_cmp (opt_cmp acmp) (pair_cmp bool_cmp (pair_cmp (lex_cmp strcmp) (pair_cmp (opt_cmp strcmp) (opt_cmp strcmp))))).
Lemma acmp_ord : ordspec acmp.
Proof. repeat (apply pair_ord || apply opt_ord || apply str_ord). Qed.
Lemma pcmp_ord : ordspec pcmp.
Proof. apply pair_ord; [apply bool_ord | apply lex_ord, str_ord]. Qed.
Lemma rcmp_ord : ordspec rcmp.
Proof. repeat (apply pair_ord || apply opt_ord || apply str_ord || apply acmp_ord || apply bool_ord || apply lex_ord). Qed.

Definition obind {A B} (o : option A) (f : A -> option B) : option B := match o with Some a => f a | None => None end.
Definition odec (o : option str) : option (option str) := match o with None => Some None | Some s => option_map Some (dec s) end.
Definition canon_auth (a : str) : option canon_a :=
  let '(u, h, p) := auth_texts a in
  obind (odec u) (fun u' => obind (dec h) (fun h' => Some (u', (h', p)))).
Definition canon_path (p : str) : option (bool * list str) := option_map (fun l => (is_abs p, l)) (dec_all (nsegs p)).
Definition canon_texts (x : rtexts) : option canon_r :=
  obind (match t_authority x with None => Some None | Some a => option_map Some (canon_auth a) end) (fun a' =>
  obind (dec_all (nsegs (t_path x))) (fun segs' =>
  obind (odec (t_query x)) (fun q' =>
  obind (odec (t_fragment x)) (fun f' =>
  Some (t_scheme x, (a', (is_abs (t_path x), (segs', (q', f'))))))))).
Definition canon (s : str) : option canon_r := canon_texts (ref_texts s).

(* ---------- components ---------- *)
Lemma cmp_pct a b a' b' : dec a = Some a' -> dec b = Some b' -> cmp_key pct_key a b = Some (strcmp a' b').
Proof. intros Ha Hb. unfold cmp_key, pct_key. rewrite Ha, Hb. simpl. now rewrite cmp_list_lex. Qed.
Lemma cmp_raw a b : cmp_key raw_key a b = Some (strcmp a b).
Proof. unfold cmp_key, raw_key. simpl. now rewrite cmp_list_lex. Qed.
Lemma cmp_opt_pct u v u' v' : odec u = Some u' -> odec v = Some v' ->
  cmp_opt (cmp_key pct_key) u v = Some (opt_cmp strcmp u' v').
Proof.
  intros Hu Hv. destruct u as [a|], v as [b|]; simpl in *.
  - destruct (dec a) as [a'|] eqn:Ea; [|discriminate]. destruct (dec b) as [b'|] eqn:Eb; [|discriminate].
    injection Hu as <-. injection Hv as <-. simpl. now apply cmp_pct.
  - destruct (dec a); [|discriminate]. injection Hu as <-. injection Hv as <-. reflexivity.
  - destruct (dec b); [|discriminate]. injection Hu as <-. injection Hv as <-. reflexivity.
  - injection Hu as <-. injection Hv as <-. reflexivity.
Qed.
Lemma cmp_opt_raw u v : cmp_opt (cmp_key raw_key) u v = Some (opt_cmp strcmp u v).
Proof. destruct u, v; simpl; auto; try apply cmp_raw. Qed.

Lemma seq3 (c1 c2 c3 : comparison) (f1 f2 f3 : unit -> option comparison) :
  f1 tt = Some c1 -> f2 tt = Some c2 -> f3 tt = Some c3 ->
  seq_cmp [f1; f2; f3] = Some (match c1 with Eq => match c2 with Eq => c3 | c => c end | c => c end).
Proof. intros H1 H2 H3. unfold seq_cmp. simpl. rewrite H1. destruct c1; auto. rewrite H2. destruct c2; auto. Qed.

Theorem cmp_authority_canon a b ca cb : canon_auth a = Some ca -> canon_auth b = Some cb ->
  cmp_authority a b = Some (acmp ca cb).
Proof.
  unfold canon_auth, cmp_authority. destruct (auth_texts a) as [[ua ha] pa]. destruct (auth_texts b) as [[ub hb] pb].
  destruct (odec ua) as [ua'|] eqn:E1; [|discriminate]. destruct (dec ha) as [ha'|] eqn:E2; [|discriminate]. simpl. intros H; injection H as <-.
  destruct (odec ub) as [ub'|] eqn:E3; [|discriminate]. destruct (dec hb) as [hb'|] eqn:E4; [|discriminate]. simpl. intros H; injection H as <-.
  rewrite (seq3 (opt_cmp strcmp ua' ub') (strcmp ha' hb') (opt_cmp strcmp pa pb)).
  - unfold acmp, pair_cmp. simpl. destruct (opt_cmp strcmp ua' ub'); auto. destruct (strcmp ha' hb'); auto.
  - now apply cmp_opt_pct.
  - now apply cmp_pct.
  - apply cmp_opt_raw.
Qed.

(* ---------- paths ---------- *)
Lemma dec_all_cons s r : dec_all (s :: r) = obind2 (dec s) (dec_all r) (fun a b => Some (a :: b)).
Proof. reflexivity. Qed.
Lemma cmp_segs_canon la : forall lb la' lb', dec_all la = Some la' -> dec_all lb = Some lb' ->
  cmp_segs la lb = Some (lex_cmp strcmp la' lb').
Proof.
  induction la as [|x la IH]; intros [|y lb] la' lb' Ha Hb; simpl in Ha, Hb.
  - injection Ha as <-. injection Hb as <-. reflexivity.
  - injection Ha as <-. destruct (dec y), (dec_all lb); simpl in Hb; try discriminate. injection Hb as <-. reflexivity.
  - destruct (dec x), (dec_all la); simpl in Ha; try discriminate. injection Ha as <-. injection Hb as <-. reflexivity.
  - destruct (dec x) as [x'|] eqn:Ex; [|discriminate]. destruct (dec_all la) as [ta|] eqn:Ea; [|discriminate]. simpl in Ha. injection Ha as <-.
    destruct (dec y) as [y'|] eqn:Ey; [|discriminate]. destruct (dec_all lb) as [tb|] eqn:Eb; [|discriminate]. simpl in Hb. injection Hb as <-.
    simpl. rewrite (cmp_pct x y x' y' Ex Ey). destruct (strcmp x' y'); auto.
Qed.
Theorem cmp_path_canon a b ca cb : canon_path a = Some ca -> canon_path b = Some cb -> cmp_path a b = Some (pcmp ca cb).
Proof.
  unfold canon_path, cmp_path. destruct (dec_all (nsegs a)) as [la|] eqn:Ea; [|discriminate]. destruct (dec_all (nsegs b)) as [lb|] eqn:Eb; [|discriminate].
  simpl. intros H; injection H as <-. intros H; injection H as <-. unfold pcmp, pair_cmp. simpl.
  destruct (is_abs a), (is_abs b); simpl; auto; now apply cmp_segs_canon.
Qed.

(* ---------- references ---------- *)
Lemma seq5 (c1 c2 c3 c4 c5 : comparison) (f1 f2 f3 f4 f5 : unit -> option comparison) :
  f1 tt = Some c1 -> f2 tt = Some c2 -> f3 tt = Some c3 -> f4 tt = Some c4 -> f5 tt = Some c5 ->
  seq_cmp [f1; f2; f3; f4; f5] =
  Some (match c1 with Eq => match c2 with Eq => match c3 with Eq => match c4 with Eq => c5 | c => c end | c => c end | c => c end | c => c end).
Proof.
  intros H1 H2 H3 H4 H5. unfold seq_cmp. simpl. rewrite H1. destruct c1; auto. rewrite H2. destruct c2; auto.
  rewrite H3. destruct c3; auto. rewrite H4. destruct c4; auto.
Qed.

Theorem cmp_texts_canon x y cx cy : canon_texts x = Some cx -> canon_texts y = Some cy -> cmp_texts x y = Some (rcmp cx cy).
Proof.
  unfold canon_texts, cmp_texts.
  destruct (match t_authority x with None => Some None | Some a => option_map Some (canon_auth a) end) as [ax|] eqn:E1; [|discriminate].
  destruct (dec_all (nsegs (t_path x))) as [sx|] eqn:E2; [|discriminate].
  destruct (odec (t_query x)) as [qx|] eqn:E3; [|discriminate]. destruct (odec (t_fragment x)) as [fx|] eqn:E4; [|discriminate].
  simpl. intros H; injection H as <-.
  destruct (match t_authority y with None => Some None | Some a => option_map Some (canon_auth a) end) as [ay|] eqn:F1; [|discriminate].
  destruct (dec_all (nsegs (t_path y))) as [sy|] eqn:F2; [|discriminate].
  destruct (odec (t_query y)) as [qy|] eqn:F3; [|discriminate]. destruct (odec (t_fragment y)) as [fy|] eqn:F4; [|discriminate].
  simpl. intros H; injection H as <-.
  rewrite (seq5 (opt_cmp strcmp (t_scheme x) (t_scheme y)) (opt_cmp acmp ax ay) (pcmp (is_abs (t_path x), sx) (is_abs (t_path y), sy))
                (opt_cmp strcmp qx qy) (opt_cmp strcmp fx fy)).
  - unfold rcmp, pcmp, pair_cmp. simpl.
    destruct (opt_cmp strcmp (t_scheme x) (t_scheme y)); auto. destruct (opt_cmp acmp ax ay); auto.
    destruct (bool_cmp (is_abs (t_path x)) (is_abs (t_path y))); auto.
    destruct (lex_cmp strcmp sx sy); auto. destruct (opt_cmp strcmp qx qy); auto.
  - apply cmp_opt_raw.
  - destruct (t_authority x) as [a|], (t_authority y) as [b|]; simpl in *.
    + destruct (canon_auth a) as [ca|] eqn:Ca; [|discriminate]. destruct (canon_auth b) as [cb|] eqn:Cb; [|discriminate].
      injection E1 as <-. injection F1 as <-. simpl. now apply cmp_authority_canon.
    + destruct (canon_auth a); [|discriminate]. injection E1 as <-. injection F1 as <-. reflexivity.
    + destruct (canon_auth b); [|discriminate]. injection E1 as <-. injection F1 as <-. reflexivity.
    + injection E1 as <-. injection F1 as <-. reflexivity.
  - apply cmp_path_canon; unfold canon_path; [rewrite E2 | rewrite F2]; reflexivity.
  - now apply cmp_opt_pct.
  - now apply cmp_opt_pct.
Qed.

(* ================= equality ================= *)
Lemma is_eq_pair {A B} (ca : A -> A -> comparison) (cb : B -> B -> comparison) x y :
  is_eq (pair_cmp ca cb x y) = is_eq (ca (fst x) (fst y)) && is_eq (cb (snd x) (snd y)).
Proof. unfold pair_cmp. destruct (ca (fst x) (fst y)); reflexivity. Qed.

Lemma eq_pct a b a' b' : dec a = Some a' -> dec b = Some b' -> eq_key pct_key a b = Some (is_eq (strcmp a' b')).
Proof. intros Ha Hb. unfold eq_key. rewrite (cmp_pct a b a' b' Ha Hb). reflexivity. Qed.
Lemma eq_raw a b : eq_key raw_key a b = Some (is_eq (strcmp a b)).
Proof. unfold eq_key. rewrite cmp_raw. reflexivity. Qed.
Lemma eq_opt_pct u v u' v' : odec u = Some u' -> odec v = Some v' ->
  eq_opt (eq_key pct_key) u v = Some (is_eq (opt_cmp strcmp u' v')).
Proof.
  intros Hu Hv. destruct u as [a|], v as [b|]; simpl in *.
  - destruct (dec a) as [a'|] eqn:Ea; [|discriminate]. destruct (dec b) as [b'|] eqn:Eb; [|discriminate].
    injection Hu as <-. injection Hv as <-. simpl. now apply eq_pct.
  - destruct (dec a); [|discriminate]. injection Hu as <-. injection Hv as <-. reflexivity.
  - destruct (dec b); [|discriminate]. injection Hu as <-. injection Hv as <-. reflexivity.
  - injection Hu as <-. injection Hv as <-. reflexivity.
Qed.
Lemma eq_opt_raw u v : eq_opt (eq_key raw_key) u v = Some (is_eq (opt_cmp strcmp u v)).
Proof. destruct u, v; simpl; auto; try apply eq_raw. Qed.

Lemma seqe3 (b1 b2 b3 : bool) (f1 f2 f3 : unit -> option bool) :
  f1 tt = Some b1 -> f2 tt = Some b2 -> f3 tt = Some b3 -> seq_eq [f1; f2; f3] = Some (b1 && (b2 && b3)).
Proof. intros H1 H2 H3. unfold seq_eq. simpl. rewrite H1. destruct b1; auto. rewrite H2. destruct b2; auto. Qed.
Lemma seqe5 (b1 b2 b3 b4 b5 : bool) (f1 f2 f3 f4 f5 : unit -> option bool) :
  f1 tt = Some b1 -> f2 tt = Some b2 -> f3 tt = Some b3 -> f4 tt = Some b4 -> f5 tt = Some b5 ->
  seq_eq [f1; f2; f3; f4; f5] = Some (b1 && (b2 && (b3 && (b4 && b5)))).
Proof.
  intros H1 H2 H3 H4 H5. unfold seq_eq. simpl. rewrite H1. destruct b1; auto. rewrite H2. destruct b2; auto.
  rewrite H3. destruct b3; auto. rewrite H4. destruct b4; auto.
Qed.

Theorem eq_authority_canon a b ca cb : canon_auth a = Some ca -> canon_auth b = Some cb ->
  eq_authority a b = Some (is_eq (acmp ca cb)).
Proof.
  unfold canon_auth, eq_authority. destruct (auth_texts a) as [[ua ha] pa]. destruct (auth_texts b) as [[ub hb] pb].
  destruct (odec ua) as [ua'|] eqn:E1; [|discriminate]. destruct (dec ha) as [ha'|] eqn:E2; [|discriminate]. simpl. intros H; injection H as <-.
  destruct (odec ub) as [ub'|] eqn:E3; [|discriminate]. destruct (dec hb) as [hb'|] eqn:E4; [|discriminate]. simpl. intros H; injection H as <-.
  rewrite (seqe3 (is_eq (opt_cmp strcmp ua' ub')) (is_eq (strcmp ha' hb')) (is_eq (opt_cmp strcmp pa pb))).
  - unfold acmp. rewrite !is_eq_pair. reflexivity.
  - now apply eq_opt_pct.
  - now apply eq_pct.
  - apply eq_opt_raw.
Qed.

Lemma dec_all_length l : forall l', dec_all l = Some l' -> length l' = length l.
Proof.
  induction l as [|s r IH]; intros l' H; simpl in H.
  - injection H as <-. reflexivity.
  - destruct (dec s); [|discriminate]. destruct (dec_all r) as [t|] eqn:E; [|discriminate]. simpl in H. injection H as <-. simpl. f_equal. now apply IH.
Qed.
Lemma all_eq_canon la : forall lb la' lb', dec_all la = Some la' -> dec_all lb = Some lb' -> length la = length lb ->
  all_eq la lb = Some (is_eq (lex_cmp strcmp la' lb')).
Proof.
  induction la as [|x la IH]; intros [|y lb] la' lb' Ha Hb Hl; simpl in Ha, Hb, Hl; try discriminate.
  - injection Ha as <-. injection Hb as <-. reflexivity.
  - destruct (dec x) as [x'|] eqn:Ex; [|discriminate]. destruct (dec_all la) as [ta|] eqn:Ea; [|discriminate]. simpl in Ha. injection Ha as <-.
    destruct (dec y) as [y'|] eqn:Ey; [|discriminate]. destruct (dec_all lb) as [tb|] eqn:Eb; [|discriminate]. simpl in Hb. injection Hb as <-.
    simpl. rewrite (cmp_pct x y x' y' Ex Ey). destruct (strcmp x' y'); auto; try (apply IH; auto).
Qed.
Lemma lex_len_ne {A} (c : A -> A -> comparison) (O : ordspec c) (a b : list A) : length a <> length b -> is_eq (lex_cmp c a b) = false.
Proof.
  intros H. destruct (lex_cmp c a b) eqn:E; auto. apply (os_eq _ (lex_ord c O)) in E. subst. congruence.
Qed.
Theorem eq_path_canon a b ca cb : canon_path a = Some ca -> canon_path b = Some cb -> eq_path a b = Some (is_eq (pcmp ca cb)).
Proof.
  unfold canon_path, eq_path. destruct (dec_all (nsegs a)) as [la|] eqn:Ea; [|discriminate]. destruct (dec_all (nsegs b)) as [lb|] eqn:Eb; [|discriminate].
  simpl. intros H; injection H as <-. intros H; injection H as <-. unfold pcmp. rewrite is_eq_pair. simpl.
  destruct (is_abs a), (is_abs b); simpl; auto.
  - destruct (length (nsegs a) =? length (nsegs b)) eqn:L.
    + apply Nat.eqb_eq in L. now apply all_eq_canon.
    + apply Nat.eqb_neq in L. rewrite lex_len_ne; [reflexivity | apply str_ord |].
      rewrite (dec_all_length _ _ Ea), (dec_all_length _ _ Eb). exact L.
  - destruct (length (nsegs a) =? length (nsegs b)) eqn:L.
    + apply Nat.eqb_eq in L. now apply all_eq_canon.
    + apply Nat.eqb_neq in L. rewrite lex_len_ne; [reflexivity | apply str_ord |].
      rewrite (dec_all_length _ _ Ea), (dec_all_length _ _ Eb). exact L.
Qed.

Theorem eq_texts_canon x y cx cy : canon_texts x = Some cx -> canon_texts y = Some cy -> eq_texts x y = Some (is_eq (rcmp cx cy)).
Proof.
  unfold canon_texts, eq_texts.
  destruct (match t_authority x with None => Some None | Some a => option_map Some (canon_auth a) end) as [ax|] eqn:E1; [|discriminate].
  destruct (dec_all (nsegs (t_path x))) as [sx|] eqn:E2; [|discriminate].
  destruct (odec (t_query x)) as [qx|] eqn:E3; [|discriminate]. destruct (odec (t_fragment x)) as [fx|] eqn:E4; [|discriminate].
  simpl. intros H; injection H as <-.
  destruct (match t_authority y with None => Some None | Some a => option_map Some (canon_auth a) end) as [ay|] eqn:F1; [|discriminate].
  destruct (dec_all (nsegs (t_path y))) as [sy|] eqn:F2; [|discriminate].
  destruct (odec (t_query y)) as [qy|] eqn:F3; [|discriminate]. destruct (odec (t_fragment y)) as [fy|] eqn:F4; [|discriminate].
  simpl. intros H; injection H as <-.
  rewrite (seqe5 (is_eq (opt_cmp strcmp (t_scheme x) (t_scheme y))) (is_eq (opt_cmp acmp ax ay)) (is_eq (pcmp (is_abs (t_path x), sx) (is_abs (t_path y), sy)))
                 (is_eq (opt_cmp strcmp qx qy)) (is_eq (opt_cmp strcmp fx fy))).
  - unfold rcmp, pcmp. rewrite !is_eq_pair. simpl. rewrite <- !andb_assoc. reflexivity.
  - apply eq_opt_raw.
  - destruct (t_authority x) as [a|], (t_authority y) as [b|]; simpl in *.
    + destruct (canon_auth a) as [ca|] eqn:Ca; [|discriminate]. destruct (canon_auth b) as [cb|] eqn:Cb; [|discriminate].
      injection E1 as <-. injection F1 as <-. simpl. now apply eq_authority_canon.
    + destruct (canon_auth a); [|discriminate]. injection E1 as <-. injection F1 as <-. reflexivity.
    + destruct (canon_auth b); [|discriminate]. injection E1 as <-. injection F1 as <-. reflexivity.
    + injection E1 as <-. injection F1 as <-. reflexivity.
  - apply eq_path_canon; unfold canon_path; [rewrite E2 | rewrite F2]; reflexivity.
  - now apply eq_opt_pct.
  - now apply eq_opt_pct.
Qed.

(* ================= hashing ================= *)
Definition hraw (s : str) : list htok := [HUsize (N.of_nat (length s)); HBytes s].
Definition hpct (s : str) : list htok := map HU8 s.
Definition hopt {A} (f : A -> list htok) (o : option A) : list htok := match o with None => [HIsize 0] | Some x => HIsize 1 :: f x end.
Definition hauth (c : canon_a) : list htok := let '(u, (h, p)) := c in hopt hpct u ++ hpct h ++ hopt hraw p.
Definition hcanon (c : canon_r) : list htok :=
  let '(s, (a, (ab, (segs, (q, f))))) := c in
  hopt hraw s ++ hopt hauth a ++ (HU8 (if ab then 1 else 0)%N :: flat_map hpct segs) ++ hopt hpct q ++ hopt hpct f.

Lemma hash_pct_canon s s' : dec s = Some s' -> hash_pct s = Some (hpct s').
Proof. intros H. unfold hash_pct. rewrite H. reflexivity. Qed.
Lemma hash_opt_pct u u' : odec u = Some u' -> hash_opt hash_pct u = Some (hopt hpct u').
Proof.
  destruct u as [a|]; simpl; intros H.
  - destruct (dec a) as [a'|] eqn:E; [|discriminate]. injection H as <-. rewrite (hash_pct_canon a a' E). reflexivity.
  - injection H as <-. reflexivity.
Qed.
Lemma hash_opt_raw u : hash_opt hash_raw u = Some (hopt hraw u).
Proof. destruct u; reflexivity. Qed.
Lemma hconcat_some l : hconcat (map Some l) = Some (concat l).
Proof. induction l as [|a l IH]; simpl; auto. rewrite IH. reflexivity. Qed.

Theorem hash_authority_canon a ca : canon_auth a = Some ca -> hash_authority a = Some (hauth ca).
Proof.
  unfold canon_auth, hash_authority. destruct (auth_texts a) as [[u h] p].
  destruct (odec u) as [u'|] eqn:E1; [|discriminate]. destruct (dec h) as [h'|] eqn:E2; [|discriminate]. simpl. intros H; injection H as <-.
  rewrite (hash_opt_pct u u' E1), (hash_pct_canon h h' E2), hash_opt_raw.
  change (hconcat (map Some [hopt hpct u'; hpct h'; hopt hraw p]) = Some (hauth (u', (h', p)))).
  rewrite hconcat_some. simpl. rewrite app_nil_r. reflexivity.
Qed.

Lemma hash_segs l : forall l', dec_all l = Some l' -> hconcat (map hash_pct l) = Some (flat_map hpct l').
Proof.
  induction l as [|s r IH]; intros l' H; simpl in H.
  - injection H as <-. reflexivity.
  - destruct (dec s) as [s'|] eqn:E; [|discriminate]. destruct (dec_all r) as [t|] eqn:Er; [|discriminate]. simpl in H. injection H as <-.
    simpl. rewrite (hash_pct_canon s s' E), (IH t eq_refl). reflexivity.
Qed.
Lemma hash_path_canon p l' : dec_all (nsegs p) = Some l' -> hash_path p = Some (HU8 (if is_abs p then 1 else 0)%N :: flat_map hpct l').
Proof. intros H. unfold hash_path. simpl. rewrite (hash_segs _ _ H). reflexivity. Qed.

Theorem hash_texts_canon x cx : canon_texts x = Some cx -> hash_texts x = Some (hcanon cx).
Proof.
  unfold canon_texts, hash_texts.
  destruct (match t_authority x with None => Some None | Some a => option_map Some (canon_auth a) end) as [ax|] eqn:E1; [|discriminate].
  destruct (dec_all (nsegs (t_path x))) as [sx|] eqn:E2; [|discriminate].
  destruct (odec (t_query x)) as [qx|] eqn:E3; [|discriminate]. destruct (odec (t_fragment x)) as [fx|] eqn:E4; [|discriminate].
  simpl. intros H; injection H as <-.
  assert (HA : hash_opt hash_authority (t_authority x) = Some (hopt hauth ax)).
  { destruct (t_authority x) as [a|]; simpl in *.
    - destruct (canon_auth a) as [ca|] eqn:Ca; [|discriminate]. injection E1 as <-. rewrite (hash_authority_canon a ca Ca). reflexivity.
    - injection E1 as <-. reflexivity. }
  rewrite hash_opt_raw, HA, (hash_path_canon _ _ E2), (hash_opt_pct _ _ E3), (hash_opt_pct _ _ E4).
  change (hconcat (map Some [hopt hraw (t_scheme x); hopt hauth ax; HU8 (if is_abs (t_path x) then 1 else 0)%N :: flat_map hpct sx; hopt hpct qx; hopt hpct fx]) = Some (hcanon (t_scheme x, (ax, (is_abs (t_path x), (sx, (qx, fx))))))).
  rewrite hconcat_some. simpl. rewrite app_nil_r. reflexivity.
Qed.

(* ================= the properties ================= *)
Lemma is_eq_iff c : is_eq c = true <-> c = Eq.
Proof. destruct c; simpl; split; congruence. Qed.

Section Props.
  Variables a b c : str.
  Variables ca cb cc : canon_r.
  Hypothesis Ha : canon a = Some ca.
  Hypothesis Hb : canon b = Some cb.
  Hypothesis Hc : canon c = Some cc.

  Theorem eq_ref_total : eq_ref a b = Some (is_eq (rcmp ca cb)).
  Proof. apply eq_texts_canon; assumption. Qed.
  Theorem eq_ref_iff : eq_ref a b = Some true <-> ca = cb.
  Proof.
    rewrite eq_ref_total. split.
    - intros H. injection H as H. apply is_eq_iff in H. now apply (os_eq _ rcmp_ord).
    - intros H. apply (os_eq _ rcmp_ord) in H. rewrite H. reflexivity.
  Qed.
  Theorem cmp_ref_total : cmp_ref a b = Some (rcmp ca cb).
  Proof. apply cmp_texts_canon; assumption. Qed.
  Theorem cmp_eq_agree : cmp_ref a b = Some Eq <-> eq_ref a b = Some true.
  Proof.
    rewrite cmp_ref_total, eq_ref_total. split.
    - intros H. injection H as H. rewrite H. reflexivity.
    - intros H. injection H as H. apply is_eq_iff in H. rewrite H. reflexivity.
  Qed.
  Theorem hash_of_equal : eq_ref a b = Some true -> hash_ref a = hash_ref b /\ hash_ref a <> None.
  Proof.
    intros E. apply eq_ref_iff in E. unfold hash_ref. rewrite (hash_texts_canon _ _ Ha), (hash_texts_canon _ _ Hb), E. split; congruence.
  Qed.
End Props.

Theorem eq_ref_refl a ca : canon a = Some ca -> eq_ref a a = Some true.
Proof. intros H. apply (eq_ref_iff a a ca ca H H). reflexivity. Qed.
Theorem eq_ref_sym a b ca cb : canon a = Some ca -> canon b = Some cb -> eq_ref a b = Some true -> eq_ref b a = Some true.
Proof. intros Ha Hb E. apply (eq_ref_iff b a cb ca Hb Ha). symmetry. now apply (eq_ref_iff a b ca cb Ha Hb). Qed.
Theorem eq_ref_trans a b c ca cb cc : canon a = Some ca -> canon b = Some cb -> canon c = Some cc ->
  eq_ref a b = Some true -> eq_ref b c = Some true -> eq_ref a c = Some true.
Proof.
  intros Ha Hb Hc E1 E2. apply (eq_ref_iff a c ca cc Ha Hc).
  transitivity cb; [now apply (eq_ref_iff a b ca cb Ha Hb) | now apply (eq_ref_iff b c cb cc Hb Hc)].
Qed.
Theorem cmp_ref_antisym a b ca cb : canon a = Some ca -> canon b = Some cb ->
  exists x, cmp_ref a b = Some x /\ cmp_ref b a = Some (CompOpp x).
Proof.
  intros Ha Hb. exists (rcmp ca cb). rewrite (cmp_ref_total a b ca cb Ha Hb), (cmp_ref_total b a cb ca Hb Ha).
  rewrite (os_anti _ rcmp_ord ca cb). split; reflexivity.
Qed.
Theorem cmp_ref_trans a b c ca cb cc : canon a = Some ca -> canon b = Some cb -> canon c = Some cc ->
  cmp_ref a b = Some Lt -> cmp_ref b c = Some Lt -> cmp_ref a c = Some Lt.
Proof.
  intros Ha Hb Hc. rewrite (cmp_ref_total a b ca cb Ha Hb), (cmp_ref_total b c cb cc Hb Hc), (cmp_ref_total a c ca cc Ha Hc).
  intros E1 E2. injection E1 as E1. injection E2 as E2. f_equal. eapply (os_trans _ rcmp_ord); eauto.
Qed.
