(* C04 / C11 at the level of the enclosing reference: the authority handle obtained from a well-formed
   reference satisfies the handle invariant; any history of edits through it yields compose of the reference
   with the new authority, again well-formed. *)
From Coq Require Import List NArith Bool Arith Lia.
Import ListNotations.
Require Import V.Regex V.Parse V.ParseProofs V.Parse2 V.Parse2Proofs V.ScanValues V.PathSpec V.Splice V.Setters
  V.Auth V.AuthProofs V.AuthMut V.AuthMutProofs V.AuthValues V.AuthMutProofs2 V.Push V.SetPath V.SetAuth V.Reference.
Local Open Scope nat_scope.

Definition with_authority (p : parts) (a : str) : parts :=
  {| p_scheme := p_scheme p; p_authority := Some a; p_path := p_path p; p_query := p_query p; p_fragment := p_fragment p |}.

Lemma with_authority_wf p a0 a : wf_parts p -> p_authority p = Some a0 -> none_of [SLASH; QM; HASH] a -> wf_parts (with_authority p a).
Proof.
  intros [Hs Ha Hp Hq Hpa Hpn Hpc] E Hn. constructor; cbn [with_authority p_scheme p_authority p_path p_query p_fragment]; auto; try discriminate.
  - intros x Ex. injection Ex as <-. exact Hn.
  - intros _. apply Hpa. congruence.
Qed.

Theorem authority_mut_inv p a : wf_parts p -> p_authority p = Some (acompose a) ->
  exists h, authority_mut (compose p) = Some h /\ Inv h a (sch_of p ++ [SLASH; SLASH]) (p_path p ++ tail_of p).
Proof.
  intros W E. unfold authority_mut. rewrite (find_authority_full p W), E.
  eexists; split; [reflexivity|]. unfold Inv; cbn [h_data h_start h_end]. repeat split.
  - rewrite compose_sch, E. cbn [opt_pre]. rewrite <- !app_assoc. reflexivity.
  - rewrite app_length. cbn [length]. reflexivity.
  - rewrite app_length. cbn [length]. lia.
Qed.

(* the parts of an authority must stay free of '/', '?', '#' for the enclosing reference to stay well-formed *)
Definition aarg_ok2 (o : aop) : Prop :=
  aarg_ok o /\ match o with
               | AUser u => forall x, u = Some x -> none_of [SLASH; QM; HASH] x
               | AHost h => none_of [SLASH; QM; HASH] h
               | APort p => forall x, p = Some x -> none_of [SLASH; QM; HASH] x
               end.
Definition aparts_clean (a : aparts) : Prop :=
  (forall u, ap_userinfo a = Some u -> none_of [SLASH; QM; HASH] u) /\ none_of [SLASH; QM; HASH] (ap_host a) /\
  (forall p, ap_port a = Some p -> none_of [SLASH; QM; HASH] p).
Lemma none_of_app' D a b : none_of D (a ++ b) <-> none_of D a /\ none_of D b.
Proof. unfold none_of. apply Forall_app. Qed.
Lemma acompose_clean a : aparts_clean a -> none_of [SLASH; QM; HASH] (acompose a).
Proof.
  intros (Hu & Hh & Hp). unfold acompose. apply none_of_app'. split; [|apply none_of_app'; split; auto].
  - destruct (ap_userinfo a) as [u|]; cbn [opt_post]; [|constructor]. apply none_of_app'. split; [now apply Hu|].
    repeat constructor. simpl. unfold AT, SLASH, QM, HASH. intros [E|[E|[E|[]]]]; discriminate.
  - destruct (ap_port a) as [p|]; cbn [opt_pre]; [|constructor]. cbn [app]. constructor; [|now apply Hp].
    simpl. unfold COLON, SLASH, QM, HASH. intros [E|[E|[E|[]]]]; discriminate.
Qed.
Lemma aupdate_clean a o : aparts_clean a -> aarg_ok2 o -> aparts_clean (aupdate a o).
Proof.
  intros (Hu & Hh & Hp) [_ A]. destruct o as [u|x|q]; cbn [aupdate with_userinfo with_host with_port]; unfold aparts_clean; cbn [ap_userinfo ap_host ap_port]; auto.
Qed.
Lemma fold_clean ops : forall a, aparts_clean a -> Forall aarg_ok2 ops -> aparts_clean (fold_left aupdate ops a).
Proof.
  induction ops as [|o r IH]; intros a C A; cbn [fold_left]; auto. inversion A; subst. apply IH; auto. now apply aupdate_clean.
Qed.
Lemma fold_wf ops : forall a, wf_aparts_s a -> Forall aarg_ok2 ops -> wf_aparts_s (fold_left aupdate ops a).
Proof.
  induction ops as [|o r IH]; intros a C A; cbn [fold_left]; auto. inversion A as [|? ? [A1 _] Ar]; subst. apply IH; auto. now apply aupdate_wf.
Qed.

(* a history of authority edits on a reference: through ONE handle obtained from the buffer *)
Definition ref_auth_history (buf : str) (ops : list aop) : option str :=
  match authority_mut buf with Some h => option_map h_data (arun ops h) | None => Some buf end.

Theorem ref_auth_history_spec p a ops : wf_parts p -> p_authority p = Some (acompose a) -> wf_aparts_s a -> aparts_clean a ->
  Forall aarg_ok2 ops ->
  let a' := fold_left aupdate ops a in
  ref_auth_history (compose p) ops = Some (compose (with_authority p (acompose a'))) /\
  wf_parts (with_authority p (acompose a')) /\ wf_aparts_s a' /\ aparts_clean a'.
Proof.
  intros W E Wa Ca A a'. destruct (authority_mut_inv p a W E) as (h & Eh & I).
  assert (A1 : Forall aarg_ok ops) by (eapply Forall_impl; [|exact A]; intros o [H _]; exact H).
  destruct (history ops h a _ _ I Wa A1) as (h' & Er & (Hd & _ & _) & _).
  split; [|split; [|split]].
  - unfold ref_auth_history. rewrite Eh, Er. cbn [option_map]. rewrite Hd. fold a'.
    rewrite (compose_sch (with_authority p (acompose a'))). unfold sch_of. cbn [with_authority p_scheme p_authority p_path opt_pre].
    unfold tail_of. cbn [with_authority p_query p_fragment]. rewrite <- !app_assoc. reflexivity.
  - eapply with_authority_wf; eauto. apply acompose_clean. now apply fold_clean.
  - now apply fold_wf.
  - now apply fold_clean.
Qed.
