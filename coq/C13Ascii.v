(* C13: an IRI (IRI reference) is a URI (URI reference) exactly when it contains no non-ASCII character -- what
   as_uri / as_uri_ref / try_into_uri / try_into_uri_ref decide by re-validating the text as a URI. *)
From Coq Require Import List NArith Bool Arith Lia.
Import ListNotations.
Require Import V.Regex V.Bisim V.Abnf V.Parse V.ParseProofs V.Bridge V.Factor V.BridgePaths V.C02Bridge.
Open Scope N_scope.
Ltac refl := vm_cast_no_check (eq_refl true).
Notation P := C02Bridge.P.

Definition ASCIIS : re := Star (Cls [(0, 127)]).
Lemma a1 : incl_check (and2 (IRI I P) ASCIIS) (IRI U U) = true. Proof. refl. Qed.
Lemma a2 : incl_check (IRI U U) ASCIIS = true. Proof. refl. Qed.
Lemma a3 : incl_check (and2 (IRI_reference I P) ASCIIS) (IRI_reference U U) = true. Proof. refl. Qed.
Lemma a4 : incl_check (IRI_reference U U) ASCIIS = true. Proof. refl. Qed.

Lemma asciis_L s : L ASCIIS s <-> Forall (fun c => c < 128) s.
Proof.
  split.
  - intros H. apply star_cls_forall in H. eapply Forall_impl; [|exact H]. intros c Hc.
    unfold in_cls, in_rng in Hc. simpl in Hc. rewrite orb_false_r, andb_true_iff, !N.leb_le in Hc. lia.
  - intros H. unfold ASCIIS. simpl. induction H as [|c s Hc _ IH]; [apply star_nil|].
    apply (star_app _ [c] s); [|exact IH]. exists c. split; [reflexivity|].
    unfold in_cls, in_rng. simpl. rewrite orb_false_r, andb_true_iff, !N.leb_le. lia.
Qed.

Theorem iri_is_uri_iff_ascii s : L (IRI I P) s -> (L (IRI U U) s <-> Forall (fun c => c < 128) s).
Proof.
  intros Hi. split.
  - intros Hu. apply asciis_L. exact (incl_check_sound _ _ a2 _ Hu).
  - intros Ha. apply (incl_check_sound _ _ a1). apply and2_L. split; [exact Hi | now apply asciis_L].
Qed.
Theorem iriref_is_uriref_iff_ascii s : L (IRI_reference I P) s -> (L (IRI_reference U U) s <-> Forall (fun c => c < 128) s).
Proof.
  intros Hi. split.
  - intros Hu. apply asciis_L. exact (incl_check_sound _ _ a4 _ Hu).
  - intros Ha. apply (incl_check_sound _ _ a3). apply and2_L. split; [exact Hi | now apply asciis_L].
Qed.
