(* C19: the octet view as a relation on whole strings: dec s = Some t exactly when t is s with each %XY replaced by the
   octet 16*X+Y and every other byte kept (so the fuel of the model never runs out, and a malformed escape is the only
   way to get None). *)
From Coq Require Import List NArith Bool Arith Lia.
Import ListNotations.
Require Import V.Regex V.Parse V.Cmp.
Local Open Scope nat_scope.

Inductive Decoded : str -> str -> Prop :=
| D_nil : Decoded [] []
| D_lit c s t : is c PCT = false -> Decoded s t -> Decoded (c :: s) (c :: t)
| D_esc a b x y s t : hexval a = Some x -> hexval b = Some y -> Decoded s t -> Decoded (PCT :: a :: b :: s) ((x * 16 + y)%N :: t).

Lemma dec_fuel_sound f : forall s t, length s < f -> dec_fuel f s = Some t -> Decoded s t.
Proof.
  induction f as [|f IH]; intros s t Hl H; [lia|]. destruct s as [|c rest]; cbn [dec_fuel] in H.
  - injection H as <-. constructor.
  - destruct (is c PCT) eqn:Ec.
    + apply N.eqb_eq in Ec. subst c. destruct rest as [|a [|b rest']]; try discriminate H.
      destruct (hexval a) as [x|] eqn:Ea; [|discriminate H]. destruct (hexval b) as [y|] eqn:Eb; [|discriminate H].
      destruct (dec_fuel f rest') as [t'|] eqn:Er; [|discriminate H]. cbn [option_map] in H. injection H as <-.
      apply D_esc; [exact Ea | exact Eb | apply IH; [cbn [length] in Hl; lia | exact Er]].
    + destruct (dec_fuel f rest) as [t'|] eqn:Er; [|discriminate H]. cbn [option_map] in H. injection H as <-.
      apply D_lit; [exact Ec | apply IH; [cbn [length] in Hl; lia | exact Er]].
Qed.
Lemma dec_fuel_complete s t : Decoded s t -> forall f, length s < f -> dec_fuel f s = Some t.
Proof.
  induction 1 as [|c s t Hc _ IH|a b x y s t Ha Hb _ IH]; intros f Hl; (destruct f as [|f]; [lia|]); cbn [dec_fuel].
  - reflexivity.
  - rewrite Hc, (IH f) by (cbn [length] in Hl; lia). reflexivity.
  - change (is PCT PCT) with true. cbv iota. rewrite Ha, Hb, (IH f) by (cbn [length] in Hl; lia). reflexivity.
Qed.
Theorem dec_iff s t : dec s = Some t <-> Decoded s t.
Proof. unfold dec. split; [apply dec_fuel_sound; lia | intros H; apply (dec_fuel_complete s t H); lia]. Qed.

(* the relation is a function, and never lengthens *)
Lemma decoded_fun s t : Decoded s t -> forall t', Decoded s t' -> t = t'.
Proof. intros H t' H'. apply dec_iff in H, H'. congruence. Qed.
Lemma decoded_length s t : Decoded s t -> length t <= length s.
Proof. induction 1; cbn [length]; lia. Qed.
(* text without '%' is its own octet view *)
Lemma decoded_plain s : Forall (fun c => is c PCT = false) s -> Decoded s s.
Proof. induction 1; constructor; assumption. Qed.
