(* C11: set_userinfo and set_port re-establish the handle invariant; any history of calls through one handle
   keeps it (so the handle always views exactly the current authority and `before`/`after` never change). *)
From Coq Require Import List NArith Bool Arith Lia.
Import ListNotations.
Require Import V.Regex V.Parse V.ParseProofs V.Auth V.AuthProofs V.Splice V.Setters V.AuthMut V.AuthMutProofs V.AuthValues.
Local Open Scope nat_scope.

Ltac lens := repeat (rewrite app_length || cbn [length]); lia.

(* allocate(start..start, |v|+1); copy v at start; write the delimiter after it *)
Lemma insert_value_delim A T v d :
  bind (allocate_range (A ++ T) (length A) (length A) (length v + 1)) (fun b =>
  bind (copy_at b (length A) v) (fun b => set_nth b (length A + length v) d)) = Some (A ++ v ++ d :: T).
Proof.
  destruct (allocate_range_spec A [] T (length v + 1)) as (J & HJ & E). simpl in E. rewrite Nat.add_0_r in E.
  rewrite E. cbn [bind]. destruct (split_at J (length v)) as (J1 & J2 & -> & HJ1); [lia|].
  rewrite app_length in HJ. destruct J2 as [|j J2]; [cbn [length] in HJ; lia|]. destruct J2; [|cbn [length] in HJ; lia].
  replace (A ++ (J1 ++ [j]) ++ T) with (A ++ J1 ++ (j :: T)) by (rewrite <- !app_assoc; reflexivity).
  rewrite copy_at_app by auto. cbn [bind].
  replace (A ++ v ++ j :: T) with ((A ++ v) ++ j :: T) by (rewrite <- app_assoc; reflexivity).
  rewrite set_nth_at by lens. rewrite <- app_assoc. reflexivity.
Qed.
(* allocate(end..end, |v|+1); write the delimiter; copy v after it *)
Lemma insert_delim_value A T v d :
  bind (allocate_range (A ++ T) (length A) (length A) (length v + 1)) (fun b =>
  bind (set_nth b (length A) d) (fun b => copy_at b (length A + 1) v)) = Some (A ++ d :: v ++ T).
Proof. apply insert_delim. Qed.

Definition with_userinfo (a : aparts) (u : option str) : aparts := {| ap_userinfo := u; ap_host := ap_host a; ap_port := ap_port a |}.
Definition with_port (a : aparts) (p : option str) : aparts := {| ap_userinfo := ap_userinfo a; ap_host := ap_host a; ap_port := p |}.

Theorem set_userinfo_spec h a before after new : Inv h a before after -> wf_aparts_s a ->
  exists h', set_userinfo h new = Some h' /\ Inv h' (with_userinfo a new) before after.
Proof.
  intros I W. unfold set_userinfo. rewrite (window_inv h a before after I). destruct I as (Hd & Hs & He).
  rewrite Hs, (find_user_info_value a before W).
  assert (Hac : acompose a = ui_part a ++ ap_host a ++ port_part a) by reflexivity.
  unfold ui_part in Hac.
  destruct new as [nu|]; destruct (ap_userinfo a) as [u|] eqn:Eu; cbn [option_map opt_post] in *.
  - (* replace *)
    unfold sub_chk. replace (length before + length u - length before) with (length u) by lia.
    replace (length u <=? h_end h + length nu) with true by (symmetry; apply Nat.leb_le; rewrite He, Hac; lens).
    cbn [bind]. rewrite Hd, Hac.
    replace (before ++ ((u ++ [AT]) ++ ap_host a ++ port_part a) ++ after) with (before ++ u ++ (AT :: ap_host a ++ port_part a ++ after)) by (rewrite <- !app_assoc; reflexivity).
    rewrite replace_spec. cbn [bind]. eexists; split; [reflexivity|]. unfold Inv, with_userinfo, acompose, port_part; cbn [h_data h_start h_end ap_userinfo ap_host ap_port opt_post].
    repeat split.
    + rewrite <- !app_assoc. reflexivity.
    + rewrite He, Hac. unfold port_part. lens.
  - (* insert *)
    rewrite Hd, Hac. cbn [app].
    pose proof (insert_value_delim before (ap_host a ++ port_part a ++ after) nu AT) as Hi.
    replace (before ++ (ap_host a ++ port_part a) ++ after) with (before ++ ap_host a ++ port_part a ++ after) by (rewrite <- !app_assoc; reflexivity).
    destruct (allocate_range (before ++ ap_host a ++ port_part a ++ after) (length before) (length before) (length nu + 1)) as [d1|]; [|discriminate].
    cbn [bind] in *. destruct (copy_at d1 (length before) nu) as [d2|]; [|discriminate]. cbn [bind] in *. rewrite Hi. cbn [bind].
    eexists; split; [reflexivity|]. unfold Inv, with_userinfo, acompose, port_part; cbn [h_data h_start h_end ap_userinfo ap_host ap_port opt_post].
    repeat split.
    + rewrite <- !app_assoc. reflexivity.
    + rewrite He, Hac. unfold port_part. lens.
  - (* remove *)
    rewrite Hd, Hac.
    replace (before ++ ((u ++ [AT]) ++ ap_host a ++ port_part a) ++ after) with (before ++ (u ++ [AT]) ++ (ap_host a ++ port_part a ++ after)) by (rewrite <- !app_assoc; reflexivity).
    replace (length before + length u + 1) with (length before + length (u ++ [AT])) by lens.
    rewrite replace_spec. cbn [bind]. unfold sub_chk.
    replace (length before + length u - length before + 1) with (length u + 1) by lia.
    replace (length u + 1 <=? h_end h) with true by (symmetry; apply Nat.leb_le; rewrite He, Hac; lens).
    cbn [bind]. eexists; split; [reflexivity|]. unfold Inv, with_userinfo, acompose, port_part; cbn [h_data h_start h_end ap_userinfo ap_host ap_port opt_post app].
    repeat split.
    + rewrite <- !app_assoc. reflexivity.
    + rewrite He, Hac. unfold port_part. lens.
  - (* nothing to remove *)
    eexists; split; [reflexivity|]. unfold Inv, with_userinfo. rewrite <- Eu. destruct a; cbn in *. repeat split; auto; try (rewrite Hd, Eu; reflexivity).
Qed.

Theorem set_port_spec h a before after new : Inv h a before after -> wf_aparts a ->
  exists h', set_port h new = Some h' /\ Inv h' (with_port a new) before after.
Proof.
  intros I W. unfold set_port. rewrite (window_inv h a before after I). destruct I as (Hd & Hs & He).
  rewrite Hs, (find_port_value a before W).
  assert (Hac : acompose a = ui_part a ++ ap_host a ++ port_part a) by reflexivity.
  unfold port_part in Hac.
  destruct new as [np|]; destruct (ap_port a) as [p|] eqn:Ep; cbn [option_map opt_pre] in *.
  - (* replace *)
    assert (Hl : length (acompose a) = length (ui_part a ++ ap_host a ++ [COLON]) + length p) by (rewrite Hac; lens).
    unfold sub_chk.
    replace (length before + length (acompose a) - (length before + length (acompose a) - length p)) with (length p) by lia.
    replace (length p <=? h_end h + length np) with true by (symmetry; apply Nat.leb_le; lia).
    cbn [bind]. rewrite Hd.
    replace (before ++ acompose a ++ after) with ((before ++ ui_part a ++ ap_host a ++ [COLON]) ++ p ++ after) by (rewrite Hac, <- !app_assoc; reflexivity).
    replace (length before + length (acompose a) - length p) with (length (before ++ ui_part a ++ ap_host a ++ [COLON])) by (rewrite Hl; lens).
    replace (length before + length (acompose a)) with (length (before ++ ui_part a ++ ap_host a ++ [COLON]) + length p) by (rewrite Hl; lens).
    rewrite replace_spec. cbn [bind]. eexists; split; [reflexivity|]. unfold Inv, with_port, acompose, ui_part; cbn [h_data h_start h_end ap_userinfo ap_host ap_port opt_pre].
    repeat split.
    + rewrite <- !app_assoc. reflexivity.
    + rewrite He, Hl. unfold ui_part. lens.
  - (* insert ':' port at the end of the authority *)
    rewrite Hd, He. rewrite app_nil_r in Hac.
    pose proof (insert_delim_value (before ++ ui_part a ++ ap_host a) after np COLON) as Hi.
    replace (before ++ acompose a ++ after) with ((before ++ ui_part a ++ ap_host a) ++ after) by (rewrite Hac, <- !app_assoc; reflexivity).
    replace (length before + length (acompose a)) with (length (before ++ ui_part a ++ ap_host a)) by (rewrite Hac; lens).
    destruct (allocate_range ((before ++ ui_part a ++ ap_host a) ++ after) (length (before ++ ui_part a ++ ap_host a)) (length (before ++ ui_part a ++ ap_host a)) (length np + 1)) as [d1|]; [|discriminate].
    cbn [bind] in *. destruct (set_nth d1 (length (before ++ ui_part a ++ ap_host a)) COLON) as [d2|]; [|discriminate]. cbn [bind] in *. rewrite Hi. cbn [bind].
    eexists; split; [reflexivity|]. unfold Inv, with_port, acompose, ui_part; cbn [h_data h_start h_end ap_userinfo ap_host ap_port opt_pre].
    repeat split.
    + rewrite <- !app_assoc. reflexivity.
    + unfold ui_part. lens.
  - (* remove ':' port *)
    assert (Hl : length (acompose a) = length (ui_part a ++ ap_host a) + length (COLON :: p)) by (rewrite Hac; lens).
    unfold sub_chk.
    replace (1 <=? length before + length (acompose a) - length p) with true by (symmetry; apply Nat.leb_le; rewrite Hl; lens).
    cbn [bind]. rewrite Hd.
    replace (before ++ acompose a ++ after) with ((before ++ ui_part a ++ ap_host a) ++ (COLON :: p) ++ after) by (rewrite Hac, <- !app_assoc; reflexivity).
    replace (length before + length (acompose a) - length p - 1) with (length (before ++ ui_part a ++ ap_host a)) by (rewrite Hl; lens).
    replace (length before + length (acompose a)) with (length (before ++ ui_part a ++ ap_host a) + length (COLON :: p)) by (rewrite Hl; lens).
    rewrite replace_spec. cbn [bind].
    replace (length (before ++ ui_part a ++ ap_host a) + length (COLON :: p) - (length (before ++ ui_part a ++ ap_host a) + length (COLON :: p) - length p) + 1) with (length p + 1) by lens.
    replace (length p + 1 <=? h_end h) with true by (symmetry; apply Nat.leb_le; rewrite He, Hl; lens).
    cbn [bind]. eexists; split; [reflexivity|]. unfold Inv, with_port, acompose, ui_part; cbn [h_data h_start h_end ap_userinfo ap_host ap_port opt_pre app].
    repeat split.
    + rewrite app_nil_r, <- !app_assoc. reflexivity.
    + rewrite He, Hl. unfold ui_part. lens.
  - eexists; split; [reflexivity|]. unfold Inv, with_port. rewrite <- Ep. destruct a; cbn in *. repeat split; auto; try (rewrite Hd, Ep; reflexivity).
Qed.

(* ---------- any history of calls through one handle ---------- *)
Inductive aop := AUser (u : option str) | AHost (h : str) | APort (p : option str).
Definition aarg_ok (o : aop) : Prop :=
  match o with
  | AUser u => forall x, u = Some x -> none_of [AT; LBR] x
  | AHost h => (ip_literal h \/ none_of [COLON; AT; LBR] h) /\ none_of [AT] h
  | APort p => forall x, p = Some x -> none_of [AT] x
  end.
Definition aapply (h : handle) (o : aop) : option handle :=
  match o with AUser u => set_userinfo h u | AHost x => set_host h x | APort p => set_port h p end.
Definition aupdate (a : aparts) (o : aop) : aparts :=
  match o with AUser u => with_userinfo a u | AHost x => with_host a x | APort p => with_port a p end.
Fixpoint arun (ops : list aop) (h : handle) : option handle :=
  match ops with [] => Some h | o :: r => bind (aapply h o) (arun r) end.

Lemma aupdate_wf a o : wf_aparts_s a -> aarg_ok o -> wf_aparts_s (aupdate a o).
Proof.
  intros [[Hu Hh Hp] Hat] A. destruct o as [u|x|p]; simpl in *.
  - split; [constructor; simpl; auto | exact Hat].
  - destruct A as [A1 A2]. split; [constructor; simpl; auto | exact A2].
  - split; [constructor; simpl; auto | exact Hat].
Qed.

Lemma astep h a before after o : Inv h a before after -> wf_aparts_s a -> aarg_ok o ->
  exists h', aapply h o = Some h' /\ Inv h' (aupdate a o) before after.
Proof.
  intros I W A. destruct o as [u|x|p]; simpl.
  - now apply set_userinfo_spec.
  - apply set_host_spec; [exact I | exact (proj1 W)].
  - apply set_port_spec; [exact I | exact (proj1 W)].
Qed.

Theorem history ops : forall h a before after, Inv h a before after -> wf_aparts_s a -> Forall aarg_ok ops ->
  exists h', arun ops h = Some h' /\ Inv h' (fold_left aupdate ops a) before after /\ view h' = acompose (fold_left aupdate ops a).
Proof.
  induction ops as [|o r IH]; intros h a before after I W A; simpl.
  - exists h. split; [reflexivity|]. split; [exact I | exact (view_inv h a before after I)].
  - inversion A as [|? ? Ao Ar]; subst. destruct (astep h a before after o I W Ao) as (h1 & E & I1). rewrite E. simpl.
    apply IH; auto. now apply aupdate_wf.
Qed.
