(* C16: the reconstruction law at text level: pushing the suffix's segments onto the prefix path (as a PathBuf) gives a
   path that the value is == to. *)
From Coq Require Import List NArith Bool Arith Lia.
Import ListNotations.
Require Import V.Regex V.Parse V.ParseProofs V.Parse2 V.Parse2Proofs V.PathSpec V.Splice V.Setters V.Iter V.IterProofs V.IterAll V.PathQ V.Push V.PushWf V.PathMut V.PathMutProofs
  V.C09Proofs V.C12Proofs V.Reference V.GetProofs V.Ord V.Cmp V.CmpProofs V.NormProofs V.MergeProofs V.C16Proofs V.NormalizedProofs V.C16Proofs2 V.RelProofs V.RelProofs2 V.C16Proofs3.
Local Open Scope nat_scope.

(* a stand-alone path buffer keeps its absoluteness under push *)
Lemma push_abs p seg : noslash seg -> is_abs (push true true p seg) = is_abs p.
Proof.
  intros Hs. unfold push. cbn [andb negb].
  destruct (path_is_empty p) eqn:Ee.
  - assert (Ep : p = [] \/ p = [SLASH]).
    { destruct p as [|c [|d r]]; [left; reflexivity | right | discriminate Ee]. cbn [path_is_empty] in Ee. apply is_true in Ee. now subst. }
    cbn [andb]. destruct (colon_first seg || is_nil seg) eqn:Ec.
    + destruct Ep as [->| ->]; reflexivity.
    + destruct Ep as [->| ->]; [|reflexivity]. cbn [app]. destruct seg as [|c s]; [reflexivity|]. cbn [is_abs].
      inversion Hs as [|? ? Hc _]; subst. now apply is_false.
  - cbn [andb orb]. destruct (ends_dotslash p) eqn:Ed.
    + apply ends_dotslash_inv in Ed as (q & ->). unfold drop_last2. rewrite app_length. cbn [length].
      replace (length q + 3 - 2) with (S (length q)) by lia.
      destruct q as [|c q]; [reflexivity|]. cbn [app firstn is_abs]. reflexivity.
    + destruct p as [|c r]; [discriminate Ee|]. reflexivity.
Qed.

(* suffix_loop buf rest [] pushes the segments of rest onto buf, one by one *)
Definition append_segs (buf : str) (rest : list str) : option (option str) := suffix_loop buf rest [].

Lemma append_segs_spec rest : Forall noslash rest -> Forall (none_of [QM; HASH]) rest -> forall buf, none_of [QM; HASH] buf ->
  exists r, append_segs buf rest = Some (Some r) /\ nodot (segs r) = nodot (segs buf ++ rest) /\ is_abs r = is_abs buf /\ none_of [QM; HASH] r.
Proof.
  unfold append_segs. induction 1 as [|x rest Hx _ IH]; intros Hq buf Wb.
  - exists buf. rewrite app_nil_r. auto.
  - inversion Hq as [|? ? Hqx Hqr]; subst. cbn [suffix_loop]. destruct (push_fresh buf x) as (h & E & Eb). rewrite E. cbn [bind]. rewrite Eb.
    assert (W' : none_of [QM; HASH] (push true true buf x)).
    { unfold push. cbn [andb negb]. unfold none_of in *.
      assert (Hd : Forall (fun c => ~ In c [QM; HASH]) (firstn (length buf - 2) buf)) by (rewrite <- (firstn_skipn (length buf - 2) buf) in Wb; apply Forall_app in Wb; tauto).
      assert (H2 : forall l, Forall (fun c => ~ In c [QM; HASH]) l -> Forall (fun c => ~ In c [QM; HASH]) (l ++ [SLASH] ++ x)).
      { intros l Hl. apply Forall_app. split; [exact Hl|]. constructor; [simpl; unfold SLASH, QM, HASH; intros [E0|[E0|[]]]; discriminate | exact Hqx]. }
      destruct (path_is_empty buf && (colon_first x || is_nil x)).
      - apply Forall_app. split; [destruct (is_abs buf); repeat constructor; simpl; unfold SLASH, QM, HASH; intros [E0|[E0|[]]]; discriminate|].
        cbn [app]. repeat (constructor; [simpl; unfold DOT, SLASH, QM, HASH; intros [E0|[E0|[]]]; discriminate|]). exact Hqx.
      - destruct (path_is_empty buf); [apply Forall_app; split; assumption|].
        destruct ((true || (3 <? length buf)) && ends_dotslash buf); [apply H2; exact Hd | apply H2; exact Wb]. }
    destruct (IH Hqr (push true true buf x) W') as (r & Er & Es & Ea & Wr). exists r. split; [exact Er|]. split; [|split; [|exact Wr]].
    + rewrite Es, !nodot_app, (push_law true true buf x Hx), nodot_app, <- app_assoc. f_equal. change (x :: rest) with ([x] ++ rest). now rewrite nodot_app.
    + rewrite Ea. now apply push_abs.
Qed.

Lemma norm_nodot ab (l : list seg) : norm ab (nodot l) = norm ab l.
Proof. unfold norm. rewrite fold_nodot. reflexivity. Qed.

Lemma all_eq_forall2 a b : Forall2 seg_eq a b -> all_eq a b = Some true.
Proof. induction 1 as [|x y a b Hxy _ IH]; [reflexivity|]. cbn [all_eq]. rewrite (seg_eq_cmp x y Hxy). exact IH. Qed.

Lemma suffix_loop_prefix ys : forall X1 rest buf, Forall2 seg_eq X1 ys -> suffix_loop buf (X1 ++ rest) ys = suffix_loop buf rest [].
Proof.
  induction ys as [|y ys IH]; intros X1 rest buf H; inversion H; subst; cbn [app]; [reflexivity|].
  cbn [suffix_loop]. match goal with Hs : seg_eq _ y |- _ => unfold seg_eq in Hs; rewrite Hs end. now apply IH.
Qed.

(* the suffix path is itself free of '?' and '#' *)
Lemma suffix_wf a p r : none_of [QM; HASH] a -> path_suffix a p = Some (Some r) -> none_of [QM; HASH] r.
Proof.
  intros Wa H. destruct (suffix_decomp a p r Wa H) as (_ & X1 & rest & Exs & F & _).
  unfold path_suffix in H. destruct (negb (Bool.eqb (is_abs a) (is_abs p))); [discriminate H|].
  rewrite Exs, (suffix_loop_prefix _ _ _ [] F) in H.
  assert (Hall : Forall (none_of [QM; HASH]) (nsegs a)).
  { rewrite (nsegs_norm a Wa). apply Forall_forall. intros x Hx. apply norm_sub in Hx.
    pose proof (segs_none_of _ a Wa) as Hs. rewrite Forall_forall in Hs. now apply Hs. }
  assert (Hn : Forall noslash (nsegs a)) by (rewrite (nsegs_norm a Wa); apply norm_noslash, segs_noslash).
  rewrite Exs in Hall, Hn. apply Forall_app in Hall as [_ Hall]. apply Forall_app in Hn as [_ Hn].
  destruct (append_segs_spec rest Hn Hall [] ltac:(constructor)) as (r' & Er & _ & _ & Wr). unfold append_segs in Er. rewrite H in Er. injection Er as <-. exact Wr.
Qed.

(* THE LAW at text level *)
Theorem suffix_reconstruct_text a p r : none_of [QM; HASH] a -> none_of [QM; HASH] p -> path_suffix a p = Some (Some r) ->
  Forall (fun x => dec x <> None) (nsegs a) ->
  plain (skipn (length (nsegs p)) (nsegs a)) \/ all_dotdot (nsegs p) ->
  exists back, append_segs p (segs r) = Some (Some back) /\ eq_path a back = Some true.
Proof.
  intros Wa Wp H Hd C. pose proof (suffix_wf a p r Wa H) as Wr.
  destruct (append_segs_spec (segs r) (segs_noslash r) (segs_none_of _ r Wr) p Wp) as (back & Eb & Es & Eab & Wb).
  exists back. split; [exact Eb|].
  pose proof (suffix_reconstruct a p r Wa Wp H Hd C) as F.
  destruct (suffix_decomp a p r Wa H) as (Eabs & _).
  assert (En : nsegs back = norm (is_abs p) (segs p ++ segs r)).
  { rewrite (nsegs_norm back Wb), Eab, <- norm_nodot, Es, norm_nodot. reflexivity. }
  unfold eq_path. rewrite Eab, Eabs, Bool.eqb_reflx, En.
  assert (El : length (nsegs a) = length (norm (is_abs p) (segs p ++ segs r))) by (clear -F; induction F; cbn [length]; congruence).
  rewrite El, Nat.eqb_refl. now apply all_eq_forall2.
Qed.
