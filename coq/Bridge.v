From Coq Require Import List NArith Bool Arith Lia.
Import ListNotations.
Require Import V.Regex V.Bisim V.Abnf V.Parse V.ParseProofs.
Open Scope N_scope.

(* from a star over one class to a list fact *)
Lemma star_cls_forall k s : L (Star (Cls k)) s -> Forall (fun c => in_cls c k = true) s.
Proof.
  simpl. induction 1 as [|s1 s2 (c & -> & Hc) _ IH]; simpl; auto.
Qed.

Definition MAXC : N := 1114111.
Definition not_sch_delims : cls := [(0,34); (36,46); (48,57); (59,62); (64,MAXC)].   (* everything but # / : ? *)

Fixpoint ins_rng (r : N * N) (l : cls) : cls :=
  match l with [] => [r] | x :: l' =>
    match N.compare (fst r) (fst x) with
    | Lt => r :: l | Gt => x :: ins_rng r l'
    | Eq => match N.compare (snd r) (snd x) with Lt => r :: l | Eq => l | Gt => x :: ins_rng r l' end end end.
Definition dedupe (l : cls) : cls := fold_right ins_rng [] l.
Definition incl_check (r1 r2 : re) : bool :=
  let A0 := dedupe (atoms r1 ++ atoms r2) in cert_re_incl r1 r2 A0 (explore_re_re r1 r2 A0).
Lemma incl_check_sound r1 r2 : incl_check r1 r2 = true -> forall w, L r1 w -> L r2 w.
Proof. unfold incl_check. apply re_incl. Qed.

Lemma in_cls_not_delims c : in_cls c not_sch_delims = true -> ~ In c [COLON; SLASH; QM; HASH].
Proof.
  unfold in_cls, not_sch_delims, in_rng, COLON, SLASH, QM, HASH, MAXC. simpl.
  rewrite !orb_true_iff, !andb_true_iff, !N.leb_le. intros H [E|[E|[E|[E|[]]]]]; subst c; lia.
Qed.

Theorem scheme_wf s : L scheme s -> s <> [] /\ none_of [COLON; SLASH; QM; HASH] s.
Proof.
  intros H. split.
  - intros ->. apply nullable_spec in H. vm_compute in H. discriminate.
  - assert (I : incl_check scheme (Star (Cls not_sch_delims)) = true) by (vm_compute; reflexivity).
    apply (incl_check_sound _ _ I) in H. apply star_cls_forall in H.
    unfold none_of. eapply Forall_impl; [|exact H]. intros c Hc. now apply in_cls_not_delims.
Qed.

(* the same for a big language: authorities contain no / ? #  (IRI family) *)
Definition not_auth_delims : cls := [(0,34); (36,46); (48,62); (64,MAXC)].
Theorem iauthority_wf a : L (iauthority ucschar_3987) a -> Forall (fun c => in_cls c not_auth_delims = true) a.
Proof.
  intros H.
  assert (I : incl_check (iauthority ucschar_3987) (Star (Cls not_auth_delims)) = true) by (vm_compute; reflexivity).
  apply (incl_check_sound _ _ I) in H. now apply star_cls_forall.
Qed.

(* structure lemmas for the smart-constructor combinators *)
Lemma opt_L r s : L (opt r) s <-> s = [] \/ L r s.
Proof. unfold opt. rewrite alt2_L. simpl. tauto. Qed.
Lemma cats_cons_L x l s : L (cats (x :: l)) s <-> exists s1 s2, s = s1 ++ s2 /\ L x s1 /\ L (cats l) s2.
Proof. simpl cats. rewrite cat_L. simpl. tauto. Qed.
Lemma alts_cons_L x l s : L (alts (x :: l)) s <-> L x s \/ L (alts l) s.
Proof. simpl alts. apply alt2_L. Qed.
Print Assumptions scheme_wf.
Print Assumptions iauthority_wf.
