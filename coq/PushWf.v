(* C04 for the path handle: push (list level, Push.v) keeps the delimiter well-formedness of the enclosing
   reference; lifted to the reference buffer through the refinement of PathMutProofs.v. *)
From Coq Require Import List NArith Bool Arith Lia.
Import ListNotations.
Require Import V.Regex V.Parse V.ParseProofs V.Parse2 V.Parse2Proofs V.ScanValues V.PathSpec V.Splice V.Setters V.Iter V.PathQ V.Push
  V.SetPath V.SetAuth V.SetScheme V.PathMut V.PathMutProofs V.Reference V.C05Proofs.
Local Open Scope nat_scope.

(* the path well-formedness of wf_parts, as a predicate of the context (has scheme / has authority) *)
Record wf_path_in (hs ha : bool) (v : str) : Prop := {
  wp_qh : none_of [QM; HASH] v;
  wp_auth : ha = true -> v = [] \/ exists t, v = SLASH :: t;
  wp_noauth : ha = false -> forall t, v <> SLASH :: SLASH :: t;
  wp_nosch : hs = false -> ha = false -> nocolon_first v = true }.

Lemma wf_parts_path p : wf_parts p -> wf_path_in (has (p_scheme p)) (has (p_authority p)) (p_path p).
Proof.
  intros [Hs Ha Hp Hq Hpa Hpn Hpc]. constructor; auto.
  - intros E. apply Hpa. destruct (p_authority p); [discriminate | discriminate E].
  - intros E. apply Hpn. destruct (p_authority p); [discriminate E | reflexivity].
  - intros E1 E2. apply Hpc; [destruct (p_scheme p); [discriminate E1 | reflexivity] | destruct (p_authority p); [discriminate E2 | reflexivity]].
Qed.
Lemma with_path_wf p v : wf_parts p -> wf_path_in (has (p_scheme p)) (has (p_authority p)) v -> wf_parts (with_path p v).
Proof.
  intros [Hs Ha Hp Hq Hpa Hpn Hpc] [W1 W2 W3 W4]. constructor; cbn [with_path p_scheme p_authority p_path p_query p_fragment]; auto.
  - intros E. apply W2. destruct (p_authority p); [reflexivity | congruence].
  - intros E. apply W3. rewrite E. reflexivity.
  - intros E1 E2. apply W4; [rewrite E1 | rewrite E2]; reflexivity.
Qed.

Lemma nocolon_ext p r : nocolon_first p = true -> nocolon_first (p ++ SLASH :: r) = true.
Proof.
  induction p as [|c p IH]; cbn [app nocolon_first]; intros H.
  - unfold is. rewrite N.eqb_refl. reflexivity.
  - destruct (is c SLASH); [reflexivity|]. destruct (is c COLON); [discriminate|]. auto.
Qed.
Lemma nocolon_same_head q r1 r2 : nocolon_first (q ++ SLASH :: r1) = nocolon_first (q ++ SLASH :: r2).
Proof.
  induction q as [|c q IH]; cbn [app nocolon_first].
  - unfold is. rewrite N.eqb_refl. reflexivity.
  - destruct (is c SLASH); [reflexivity|]. destruct (is c COLON); [reflexivity|]. exact IH.
Qed.
Lemma noslash_nocolon seg : noslash seg -> colon_first seg = false -> nocolon_first seg = true.
Proof. intros _ H. rewrite nocolon_colon, H. reflexivity. Qed.
Lemma none_of_app D a b : none_of D (a ++ b) <-> none_of D a /\ none_of D b.
Proof. unfold none_of. apply Forall_app. Qed.
Lemma noslash_head seg t : noslash seg -> seg <> SLASH :: t.
Proof. intros H E. subst. inversion H as [|? ? Hc _]. congruence. Qed.

Theorem push_wf hs ha v seg : wf_path_in hs ha v -> noslash seg -> none_of [QM; HASH] seg ->
  wf_path_in hs ha (push (negb hs && negb ha) ha v seg).
Proof.
  intros [W1 W2 W3 W4] Hns Hqh.
  assert (Hsl : ~ In SLASH [QM; HASH]) by (simpl; unfold SLASH, QM, HASH; intros [E|[E|[]]]; discriminate).
  assert (Hdt : ~ In DOT [QM; HASH]) by (simpl; unfold DOT, QM, HASH; intros [E|[E|[]]]; discriminate).
  unfold push.
  set (p := if ha && negb (negb hs && negb ha) && is_nil v then [SLASH] else v).
  assert (Pq : none_of [QM; HASH] p) by (unfold p; destruct (ha && negb (negb hs && negb ha) && is_nil v); [repeat constructor; auto | exact W1]).
  assert (Pa : ha = true -> exists t, p = SLASH :: t).
  { intros E. subst ha. unfold p. rewrite andb_false_r. cbn [negb andb]. destruct v as [|c r]; cbn [is_nil]; [eauto|].
    destruct (W2 eq_refl) as [E|(t & E)]; [discriminate | eauto]. }
  assert (Pn : ha = false -> p = v) by (intros E; unfold p; rewrite E; reflexivity).
  destruct (path_is_empty p && ((negb hs && negb ha) && colon_first seg || is_nil seg)) eqn:Cd.
  - (* shield *)
    apply andb_true_iff in Cd as [Ce _].
    constructor.
    + apply none_of_app. split; [destruct (is_abs p); repeat constructor; auto|]. cbn [app]. repeat (constructor; auto).
    + intros E. destruct (Pa E) as (t & Et). rewrite Et. cbn [is_abs]. unfold is. rewrite N.eqb_refl. right. eexists. reflexivity.
    + intros E t. destruct (is_abs p); cbn [app]; intros Ht; injection Ht; intros; subst; try discriminate; try (unfold DOT, SLASH in *; congruence).
    + intros _ _. destruct (is_abs p); cbn [app nocolon_first]; unfold is, SLASH, DOT, COLON; reflexivity.
  - destruct (path_is_empty p) eqn:Ce; cbn [andb] in Cd.
    + (* append to an empty path *)
      apply orb_false_iff in Cd as [Cc Cn]. destruct seg as [|s0 seg']; [discriminate Cn|].
      assert (Hs0 : s0 <> SLASH) by (inversion Hns; auto).
      constructor.
      * apply none_of_app. split; auto.
      * intros E. destruct (Pa E) as (t & ->). right. eexists. reflexivity.
      * intros E t. rewrite (Pn E) in *. destruct v as [|c [|d r]]; try discriminate; cbn [app].
        -- apply noslash_head. exact Hns.
        -- simpl in Ce. intros Ht. injection Ht as -> Ht. congruence.
      * intros E1 E2. rewrite E1, E2 in Cc. cbn [negb andb] in Cc. rewrite (Pn E2) in *.
        destruct v as [|c [|d r]]; try discriminate; cbn [app].
        -- now apply noslash_nocolon.
        -- simpl in Ce. cbn [nocolon_first]. rewrite Ce. reflexivity.
    + destruct ((ha || (3 <? length p)) && ends_dotslash p) eqn:Cx.
      * (* drop a trailing "./" *)
        apply andb_true_iff in Cx as [Cl Cx]. destruct (ends_dotslash_inv p Cx) as (q & Eq).
        assert (Hd : drop_last2 p = q ++ [SLASH]).
        { rewrite Eq. unfold drop_last2. rewrite !app_length. cbn [length]. replace (length q + 3 - 2) with (length (q ++ [SLASH])) by (rewrite app_length; cbn [length]; lia).
          replace (q ++ [SLASH; DOT; SLASH]) with ((q ++ [SLASH]) ++ [DOT; SLASH]) by (rewrite <- app_assoc; reflexivity). apply firstn_exact. reflexivity. }
        rewrite Hd. rewrite Eq in Pq. apply none_of_app in Pq as [Pq1 _].
        constructor.
        -- rewrite <- app_assoc. apply none_of_app. split; auto. cbn [app]. repeat (constructor; auto).
        -- intros E. destruct (Pa E) as (t & Et). rewrite Eq in Et. destruct q as [|c q']; cbn [app] in *; [right; eexists; reflexivity|].
           injection Et as -> _. right. eexists. reflexivity.
        -- intros E t Ht. rewrite E in Cl. cbn [orb] in Cl. apply Nat.ltb_lt in Cl. rewrite Eq, app_length in Cl. cbn [length] in Cl.
           rewrite (Pn E) in Eq. destruct q as [|c [|d q']]; cbn [length] in Cl; [lia | |].
           ++ cbn [app] in Ht. injection Ht as -> _. apply (W3 E [DOT; SLASH]). rewrite Eq. reflexivity.
           ++ cbn [app] in Ht. injection Ht as -> -> _. apply (W3 E (q' ++ [SLASH; DOT; SLASH])). rewrite Eq. reflexivity.
        -- intros E1 E2. specialize (W4 E1 E2). rewrite <- (Pn E2), Eq in W4. rewrite <- app_assoc. cbn [app].
           rewrite (nocolon_same_head q (SLASH :: seg) [DOT; SLASH]). exact W4.
      * (* general case *)
        constructor.
        -- apply none_of_app. split; auto. cbn [app]. repeat (constructor; auto).
        -- intros E. destruct (Pa E) as (t & ->). right. eexists. reflexivity.
        -- intros E t Ht. rewrite (Pn E) in *. destruct v as [|c [|d r]]; cbn [app] in Ht.
           ++ discriminate Ce.
           ++ injection Ht as -> _. simpl in Ce. discriminate.
           ++ injection Ht as -> -> _. apply (W3 E r). reflexivity.
        -- intros E1 E2. rewrite (Pn E2). cbn [app]. apply nocolon_ext. now apply W4.
Qed.
