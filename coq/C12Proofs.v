(* C12: the forward iteration of the model yields exactly the '/'-split of the text (segs), for every path whose
   bytes avoid '?' and '#' (every valid path).  Built on the interleaving theorem of IterAll.v. *)
From Coq Require Import List NArith Bool Arith Lia.
Import ListNotations.
Require Import V.Regex V.Parse V.ParseProofs V.PathSpec V.Splice V.Setters V.Iter V.IterProofs V.IterAll V.PathQ.
Local Open Scope nat_scope.

Fixpoint somes (l : list (option range)) : list range :=
  match l with Some r :: t => r :: somes t | _ => [] end.

(* collect_fwd is the Some-prefix of what `run` returns on an all-`next` script *)
Lemma collect_run pfx l fuel : forall st rs st', run pfx l (repeat true fuel) st = Some (rs, st') ->
  collect_fwd (P pfx l) st fuel = somes rs.
Proof.
  induction fuel as [|f IH]; intros st rs st' H; cbn [repeat run collect_fwd] in *.
  - injection H as <- _. reflexivity.
  - destruct (it_next (P pfx l) st) as [r st1] eqn:E.
    destruct (run pfx l (repeat true f) st1) as [[rs1 s1]|] eqn:E1; [|discriminate]. injection H as <- _.
    destruct r as [r|]; cbn [somes].
    + f_equal. eapply IH. exact E1.
    + reflexivity.
Qed.

Lemma seq_nth_id {A} (d : A) l : map (fun k => nth k l d) (seq 0 (length l)) = l.
Proof.
  induction l as [|a l IH]; [reflexivity|]. cbn [length seq map nth]. f_equal.
  rewrite <- seq_shift, map_map. exact IH.
Qed.

Section Fwd.
  Variable pfx : str. Variable l : list str.
  Hypothesis Hpfx : pfx = [] \/ pfx = [SLASH].
  Hypothesis Hl : l <> [].
  Hypothesis Hsegs : Forall seg_ok l.
  Hypothesis Hfirst : first_off (P pfx l) = length pfx.
  Hypothesis Hne : path_is_empty (P pfx l) = false.

  (* expected results of n + extra forward calls from position k *)
  Lemma expect_fwd extra : forall k, k <= length l ->
    somes (expect pfx l (repeat true (length l - k + extra)) k 0) = map (rng pfx l) (seq k (length l - k)).
  Proof.
    intros k Hk. remember (length l - k) as d eqn:Ed. revert k Hk Ed.
    induction d as [|d IH]; intros k Hk Ed.
    - cbn [plus]. destruct extra as [|e]; cbn [repeat expect somes seq map]; [reflexivity|].
      replace (k + 0 <? length l) with false by (symmetry; apply Nat.ltb_ge; lia). reflexivity.
    - cbn [plus repeat expect]. replace (k + 0 <? length l) with true by (symmetry; apply Nat.ltb_lt; lia).
      cbn [somes seq map]. f_equal. apply IH; lia.
  Qed.

  Theorem pq_segments_ranges : pq_segments (P pfx l) = map (rng pfx l) (seq 0 (length l)).
  Proof.
    unfold pq_segments.
    destruct (interleave_from_start pfx l Hpfx Hl Hsegs Hfirst Hne (repeat true (length (P pfx l) + 2))) as (st & E).
    rewrite (collect_run pfx l _ _ _ _ E).
    assert (Hlen : length l <= length (P pfx l) + 1).
    { pose proof (o_n pfx l Hl Hfirst) as Hn. pose proof (o_mono pfx l Hfirst) as Hm.
      assert (forall k, k <= length l -> k <= o pfx l k) as Hk.
      { induction k as [|k IHk]; intros Hle; [lia|]. specialize (Hm k (S k) (Nat.lt_succ_diag_r k) Hle). lia. }
      specialize (Hk (length l) (Nat.le_refl _)). lia. }
    replace (length (P pfx l) + 2) with (length l - 0 + (length (P pfx l) + 2 - length l)) by lia.
    rewrite (expect_fwd _ 0) by lia. rewrite Nat.sub_0_r. reflexivity.
  Qed.

  Lemma slice_rng k : k < length l -> slice (P pfx l) (rng pfx l k) = nth k l [].
  Proof.
    intros Hk. pose proof (nth_some l k Hk) as Hn. destruct (P_at pfx l k _ Hn) as [E Hlen].
    unfold rng. rewrite E at 1. rewrite <- Hlen.
    unfold slice. cbn [fst snd]. rewrite skipn_app_len.
    replace (length (pfx ++ joinS (firstn k l)) + length (nth k l []) - length (pfx ++ joinS (firstn k l))) with (length (nth k l [])) by lia.
    rewrite firstn_app, Nat.sub_diag, firstn_all. simpl. apply app_nil_r.
  Qed.

  Theorem pq_segments_texts : map (slice (P pfx l)) (pq_segments (P pfx l)) = l.
  Proof.
    rewrite pq_segments_ranges, map_map.
    rewrite (map_ext_in _ (fun k => nth k l [])).
    - apply seq_nth_id.
    - intros k Hk. apply in_seq in Hk. apply slice_rng. lia.
  Qed.
End Fwd.

(* ---------- every path free of '?' and '#' ---------- *)
Lemma split_forall (Q : N -> Prop) p : Forall Q p -> Forall (Forall Q) (split p).
Proof.
  induction p as [|c p IH]; intros H; simpl; [repeat constructor|].
  inversion H as [|? ? Hc Hp]; subst. specialize (IH Hp).
  destruct (is c SLASH); [constructor; [constructor | exact IH]|].
  destruct (split p) as [|s r]; [repeat constructor; auto|].
  inversion IH; subst. constructor; auto.
Qed.

Lemma segs_seg_ok p : none_of [QM; HASH] p -> Forall seg_ok (segs p).
Proof.
  intros H. assert (G : forall q, none_of [QM; HASH] q -> Forall seg_ok (split q)).
  { intros q Hq. pose proof (split_all_noslash q) as H1. pose proof (split_forall _ q Hq) as H2.
    rewrite Forall_forall in H1, H2. apply Forall_forall. intros s Hs. specialize (H1 s Hs). specialize (H2 s Hs).
    unfold noslash in H1. unfold seg_ok, stop_seg. rewrite Forall_forall in H1, H2. apply Forall_forall. intros c Hc.
    specialize (H1 c Hc). specialize (H2 c Hc).
    unfold is_qh. rewrite !orb_false_iff. repeat split; apply is_false; auto; intros ->; apply H2; simpl; auto. }
  unfold segs. destruct p as [|c r]; [constructor|].
  destruct (is c SLASH).
  - destruct r; [constructor|]. apply G. now apply none_of_cons in H as [_ H].
  - now apply G.
Qed.

Theorem segments_are_the_split p : none_of [QM; HASH] p -> map (slice p) (pq_segments p) = segs p.
Proof.
  intros H. destruct (path_is_empty p) eqn:E.
  - (* "" and "/" have no segments *)
    unfold pq_segments, segments. rewrite E. cbn [collect_fwd]. destruct (length p + 2); cbn [collect_fwd it_next map].
    + destruct p as [|c [|d r]]; try discriminate; simpl in *; [reflexivity | rewrite E; reflexivity].
    + destruct p as [|c [|d r]]; try discriminate; simpl in *; [reflexivity | rewrite E; reflexivity].
  - set (pfx := if is_abs p then [SLASH] else @nil N).
    assert (Hp : p = P pfx (segs p)). { unfold P, pfx. pose proof (render_segs p) as R. unfold render in R. now rewrite R. }
    assert (Hl : segs p <> []).
    { unfold segs. destruct p as [|c r]; [discriminate|]. destruct (is c SLASH) eqn:Ec.
      - destruct r; [simpl in E; rewrite Ec in E; discriminate | apply split_nonempty].
      - apply split_nonempty. }
    rewrite Hp at 1 2. apply pq_segments_texts; auto.
    + unfold pfx. destruct (is_abs p); auto.
    + now apply segs_seg_ok.
    + rewrite <- Hp. unfold first_off, pfx. destruct (is_abs p); reflexivity.
    + rewrite <- Hp. exact E.
Qed.
