(* C06: the merge branch equals RFC 3986 5.2.2 (5.2.3 merge + 5.2.4) when the directory of the base path and the
   reference path contain no empty segment before their last one. *)
From Coq Require Import List NArith Bool Arith Lia.
Import ListNotations.
Require Import V.Regex V.Parse V.ParseProofs V.Parse2 V.PathSpec V.Splice V.Setters V.Iter V.PathQ V.Push V.PathMut V.PathMutProofs
  V.SetPath V.SetAuth V.SetScheme V.C05Proofs V.Reference V.Rfc V.PushWf V.IterProofs V.IterAll V.C12Proofs V.NormProofs V.PopProofs V.ParentProofs V.SymProofs
  V.ResolveProofs3 V.MergeProofs.
Local Open Scope nat_scope.

Lemma norm_snoc_empty ab l : norm ab (l ++ [[]]) = norm ab l ++ [[]].
Proof.
  transitivity (rev (fold_left (step ab) [[]] (rev (norm ab l)))); [apply norm_app|].
  cbn [fold_left]. unfold step. cbn [is_dot is_dotdot rev]. rewrite rev_involutive. reflexivity.
Qed.

Lemma clean_sub (a b : list seg) : (forall x, In x a -> In x b) -> clean b -> clean a.
Proof. intros H C. unfold clean in *. rewrite Forall_forall in *. auto. Qed.

(* the shape of the 5.2.4 output on such inputs: clean segments, possibly followed by one empty segment *)
Lemma rds_shape ab (D L0 : list seg) : clean D -> clean L0 ->
  (exists m, clean m /\ (rds_segs ab (D ++ L0) = m \/ rds_segs ab (D ++ L0) = m ++ [[]])) /\
  (exists m, clean m /\ rds_segs ab (D ++ L0 ++ [[]]) = m ++ [[]]).
Proof.
  intros CD CL.
  assert (Cn : clean (norm ab (D ++ L0))).
  { apply (clean_sub _ (D ++ L0)); [intros x; apply norm_sub | apply clean_app; auto]. }
  split.
  - exists (norm ab (D ++ L0)). split; [exact Cn|]. unfold rds_segs. destruct (last_is_dot (D ++ L0) && negb (nil_segs (norm ab (D ++ L0)))); auto.
  - exists (norm ab (D ++ L0)). split; [exact Cn|]. unfold rds_segs.
    assert (Ed : last_is_dot (D ++ L0 ++ [[]]) = false) by (unfold last_is_dot; rewrite !rev_app_distr; reflexivity).
    rewrite Ed. cbn [andb]. rewrite app_assoc. apply norm_snoc_empty.
Qed.

Lemma shape_dslash ab m : clean m -> starts_dslash (render ab m) = false /\ starts_dslash (render ab (m ++ [[]])) = false.
Proof.
  intros C. split; [now apply clean_starts_dslash|].
  destruct m as [|s m]; [destruct ab; reflexivity|].
  rewrite render_snoc by discriminate.
  destruct (clean_head_join (s :: m) C ltac:(discriminate)) as (c & r & E & Hc). unfold render. rewrite E.
  destruct ab; cbn [app starts_dslash]; [rewrite Hc, andb_false_r; reflexivity|]. rewrite Hc. destruct (r ++ [SLASH]); reflexivity.
Qed.

Lemma split_rel_nonempty c t : is c SLASH = false -> exists s r, split (c :: t) = (c :: s) :: r.
Proof. intros H. cbn [split]. rewrite H. destruct (split t) as [|s r]; eauto. Qed.

(* a list without inner empty segments is clean, or clean followed by one empty segment *)
Lemma no_inner_split (L : list seg) : Forall noslash L -> no_inner_empty L -> L <> [] ->
  clean L \/ exists L0, L = L0 ++ [[]] /\ clean L0.
Proof.
  intros Hn Hi HL. destruct (last_case L) as [->|(L0 & x & ->)]; [contradiction|].
  specialize (Hi L0 x eq_refl). apply Forall_app in Hn as [Hn0 Hnx]. inversion Hnx as [|? ? Hx _]; subst.
  assert (C0 : clean L0).
  { unfold clean. rewrite Forall_forall in *. intros y Hy. split; [intros ->; contradiction | auto]. }
  destruct x as [|cx x'].
  - right. eauto.
  - left. apply clean_app. split; [exact C0|]. constructor; [split; [discriminate | exact Hx] | constructor].
Qed.

Section Final.
  Variables pb pr : parts.
  Variable s : str.
  Hypothesis Wb : wf_parts pb.
  Hypothesis Wr : wf_parts pr.
  Hypothesis Hbs : p_scheme pb = Some s.
  Hypothesis Hrs : p_scheme pr = None.
  Hypothesis Hra : p_authority pr = None.
  Variable c : N. Variable t : str.
  Hypothesis Hrp : p_path pr = c :: t.
  Hypothesis Hc : is c SLASH = false.
  Local Notation bp := (p_path pb).
  Local Notation rp := (c :: t).
  Local Notation fa := (has (p_authority pb)).
  Local Notation D := (removelast (segs (p_path pb))).
  Local Notation L := (split (c :: t)).
  Local Notation abM := ((has (p_authority pb) && path_is_empty (p_path pb)) || is_abs (p_path pb)).
  Hypothesis CD : clean D.
  Hypothesis HL : no_inner_empty L.

  Lemma fa_abM : fa = true -> abM = true.
  Proof.
    intros E. rewrite E. cbn [andb]. destruct (wf_path_auth pb Wb) as [E0|(t0 & E0)].
    - destruct (p_authority pb); [discriminate | discriminate E].
    - rewrite E0. reflexivity.
    - rewrite E0. cbn [is_abs]. change (is SLASH SLASH) with true. apply orb_true_r.
  Qed.

  Lemma base_rep : Rep abM (base_dir pb s) (norm abM D).
  Proof.
    unfold base_dir. destruct (fa && path_is_empty bp) eqn:E.
    - cbn [orb]. apply andb_true_iff in E as [Ef Ee].
      assert (ED : D = []) by (destruct bp as [|c0 [|d r]]; try discriminate; [reflexivity | cbn [path_is_empty] in Ee; unfold segs; rewrite Ee; reflexivity]).
      rewrite ED. unfold fix_path. cbn [with_auth p_authority p_scheme]. destruct (p_authority pb); [|discriminate Ef].
      cbn. split; [reflexivity | split; [constructor | exists [], []; repeat split; auto]].
    - cbn [orb]. rewrite (parent_text_clean bp (wf_path pb Wb) CD).
      assert (Hfix : fix_path (with_auth (q0 s) (p_authority pb) (auth_path (q0 s) (p_authority pb))) (render (is_abs bp) D) = render (is_abs bp) D).
      { unfold fix_path. cbn [with_auth p_authority p_scheme q0]. rewrite (clean_starts_dslash _ _ CD), andb_false_r.
        destruct (p_authority pb) as [a|] eqn:Ea; [|reflexivity].
        cbn [has andb] in E. destruct (wf_path_auth pb Wb ltac:(rewrite Ea; discriminate)) as [E0|(t0 & E0)]; [rewrite E0 in E; discriminate|].
        rewrite E0. unfold render. cbn [is_abs]. change (is SLASH SLASH) with true. cbn [app path_is_abs]. change (is SLASH SLASH) with true. reflexivity. }
      rewrite Hfix. destruct (normalize1_clean fa (is_abs bp) D CD) as [En R]. rewrite En. exact R.
  Qed.

  Lemma L_shape : clean L \/ exists L0, L = L0 ++ [[]] /\ clean L0.
  Proof. apply no_inner_split; [apply split_all_noslash | exact HL | apply split_nonempty]. Qed.

  Lemma segs_p2 : segs (p_path (with_auth (with_scheme pr (Some s) (scheme_fix_path pr (Some s))) (p_authority pb)
                           (auth_path (with_scheme pr (Some s) (scheme_fix_path pr (Some s))) (p_authority pb)))) = L.
  Proof.
    cbn [with_auth p_path]. unfold auth_path, auth_fix_path, scheme_fix_path. cbn [with_scheme p_path p_authority p_scheme].
    rewrite ?Hrs, ?Hra, ?Hrp. destruct (p_authority pb).
    - cbn [app]. rewrite Hc. assert (Hq : is_qh c = false).
      { pose proof (wf_path pr Wr) as Hp. rewrite Hrp in Hp. inversion Hp as [|? ? Hcq _]; subst. unfold is_qh. apply orb_false_iff. split; apply is_false; intros ->; apply Hcq; simpl; auto. }
      rewrite Hq. cbn [orb negb app]. unfold segs. change (is SLASH SLASH) with true. reflexivity.
    - unfold segs. rewrite Hc. reflexivity.
  Qed.

  (* what the code computes *)
  Theorem merge_impl_value : merge_impl pb pr s = render abM (rds_segs abM (D ++ L)).
  Proof.
    unfold merge_impl. rewrite segs_p2.
    assert (ctxM : ctx_ok false fa abM) by (intros E; apply fa_abM; destruct fa; [reflexivity | discriminate E]).
    assert (good : forall l, clean l -> Forall (fun x => nonempty_seg x /\ seg_ctx false x) l).
    { intros l Cl. eapply Forall_impl; [|exact Cl]. intros x Hx. split; [exact Hx | intros E0; discriminate E0]. }
    destruct L_shape as [CL|(L0 & EL & CL)].
    - apply (append_all_nonempty false abM fa _ D L base_rep ctxM); [apply split_nonempty | exact (good _ CL)].
    - apply (append_trailing_empty false abM fa _ D L base_rep ctxM L0 EL (good _ CL)).
  Qed.

  (* what RFC 3986 5.2.3 builds *)
  Lemma join_split_L : join L = rp. Proof. apply join_split. Qed.
  Theorem merged_text : merge pb rp = render abM (D ++ L).
  Proof.
    unfold merge. destruct (p_authority pb) as [a|] eqn:Ea; cbn [has andb].
    - destruct bp as [|c0 r0] eqn:Eb.
      + cbn [path_is_empty orb segs removelast app]. unfold render. rewrite join_split_L. reflexivity.
      + rewrite <- Eb in *. rewrite (dir_of_path bp (wf_path pb Wb)).
        assert (Eab : is_abs bp = true).
        { destruct (wf_path_auth pb Wb ltac:(rewrite Ea; discriminate)) as [E0|(t0 & E0)]; [rewrite E0 in Eb; discriminate|]. rewrite E0. cbn [is_abs]. reflexivity. }
        rewrite Eab, orb_true_r. destruct D as [|d0 D0] eqn:ED.
        * cbn [nil_segs app]. unfold render. rewrite join_split_L. reflexivity.
        * cbn [nil_segs]. rewrite <- ED. unfold render. rewrite join_app by (rewrite ?ED; try discriminate; apply split_nonempty).
          rewrite join_split_L, <- !app_assoc. reflexivity.
    - cbn [orb]. rewrite (dir_of_path bp (wf_path pb Wb)). destruct D as [|d0 D0] eqn:ED.
      + cbn [nil_segs app]. unfold render. rewrite join_split_L. destruct (is_abs bp); reflexivity.
      + cbn [nil_segs]. rewrite <- ED. unfold render. rewrite join_app by (rewrite ?ED; try discriminate; apply split_nonempty).
        rewrite join_split_L, <- !app_assoc. reflexivity.
  Qed.

  Lemma DL_render_ok : segs (render abM (D ++ L)) = D ++ L /\ is_abs (render abM (D ++ L)) = abM.
  Proof.
    destruct (split_rel_nonempty c t Hc) as (s1 & r1 & Es).
    assert (HnL : Forall noslash L) by apply split_all_noslash. revert HnL. rewrite Es. intros HnL.
    apply segs_render_prefix.
    - apply Forall_app. split; [apply clean_noslash, CD | exact HnL].
    - intros _ r E. destruct D as [|d0 D0] eqn:ED.
      + cbn [app] in E. discriminate.
      + cbn [app] in E. injection E as E _. subst d0. apply (clean_no_empty _ CD). left. reflexivity.
    - intros [_ E]. destruct D as [|d0 D0]; cbn [app] in E; [discriminate|].
      injection E as _ E. destruct D0; cbn [app] in E; discriminate.
  Qed.

  Theorem rfc_merged_path : rds (merge pb rp) = render abM (rds_segs abM (D ++ L)).
  Proof. rewrite merged_text. unfold rds. destruct DL_render_ok as [E1 E2]. rewrite E1, E2. reflexivity. Qed.

  (* the final set_path writes the merged path unchanged *)
  Lemma final_fix : forall p2, p_scheme p2 = Some s -> p_authority p2 = p_authority pb ->
    fix_path p2 (render abM (rds_segs abM (D ++ L))) = render abM (rds_segs abM (D ++ L)).
  Proof.
    intros p2 E1 E2. unfold fix_path. rewrite E1, E2.
    assert (Hd : starts_dslash (render abM (rds_segs abM (D ++ L))) = false).
    { destruct L_shape as [CL|(L0 & EL & CL)].
      - destruct (proj1 (rds_shape abM D L CD CL)) as (m & Cm & [E|E]).
        + assert (Hx : render abM (rds_segs abM (D ++ L)) = render abM m) by (f_equal; exact E). rewrite Hx. apply (shape_dslash abM m Cm).
        + assert (Hx : render abM (rds_segs abM (D ++ L)) = render abM (m ++ [[]])) by (f_equal; exact E). rewrite Hx. apply (shape_dslash abM m Cm).
      - destruct (proj2 (rds_shape abM D L0 CD CL)) as (m & Cm & E).
        assert (Hx : render abM (rds_segs abM (D ++ L)) = render abM (m ++ [[]])) by (rewrite EL; f_equal; exact E).
        rewrite Hx. apply (shape_dslash abM m Cm). }
    rewrite Hd, andb_false_r. pose proof fa_abM as Hf. destruct (p_authority pb) eqn:Ea; [|reflexivity].
    specialize (Hf eq_refl). rewrite Hf.
    unfold render. cbn [app path_is_abs]. change (is SLASH SLASH) with true. reflexivity.
  Qed.

  Theorem resolve_merge_rfc : resolve (compose pr) (compose pb) = Some (compose (rfc_target pb pr)).
  Proof.
    destruct (resolve_merge pb pr s Wb Wr Hbs Hrs Hra c t Hrp Hc) as [E _]. rewrite E, merge_impl_value, final_fix by reflexivity.
    f_equal. f_equal. unfold rfc_target. rewrite Hrs, Hra, Hrp, Hc, rfc_merged_path.
    unfold with_path, with_auth, with_scheme. cbn [p_scheme p_authority p_path p_query p_fragment]. rewrite Hbs. reflexivity.
  Qed.
End Final.

(* ---------- all five branches against RFC 3986 5.2.2 ---------- *)
Require Import V.ResolveProofs V.ResolveProofs2.
Definition no_empty_but_last (v : str) : Prop := forall l' x, segs v = l' ++ [x] -> ~ In [] l'.
Definition merges (pr : parts) : Prop := p_scheme pr = None /\ p_authority pr = None /\ exists c t, p_path pr = c :: t /\ is c SLASH = false.

Lemma clean_dir bp : no_empty_but_last bp -> clean (removelast (segs bp)).
Proof.
  intros H. destruct (@last_case str (segs bp)) as [E|(l' & x & E)]; [rewrite E; constructor|].
  rewrite E, removelast_last. specialize (H l' x E). pose proof (segs_noslash bp) as Hn. rewrite E in Hn. apply Forall_app in Hn as [Hn _].
  unfold clean. rewrite Forall_forall in *. intros y Hy. split; [intros ->; contradiction | auto].
Qed.

Theorem resolve_is_rfc pb pr s : wf_parts pb -> wf_parts pr -> p_scheme pb = Some s ->
  no_empty_but_last (p_path pr) -> (merges pr -> no_empty_but_last (p_path pb)) ->
  resolve (compose pr) (compose pb) = Some (compose (rfc_target pb pr)).
Proof.
  intros Wb Wr Hbs Hr Hb.
  destruct (p_scheme pr) as [sr|] eqn:Hrs.
  - apply (resolve_no_merge_rfc pb pr s Wb Wr Hbs); [left; congruence | apply rds_exact_simple; exact Hr].
  - destruct (p_authority pr) as [a|] eqn:Hra.
    + apply (resolve_no_merge_rfc pb pr s Wb Wr Hbs); [right; left; congruence | apply rds_exact_simple; exact Hr].
    + destruct (p_path pr) as [|c t] eqn:Hp.
      * rewrite <- (target_empty_is_rfc pb pr s Hbs Hrs Hra Hp). now apply resolve_empty_path.
      * destruct (is c SLASH) eqn:Hc.
        -- apply (resolve_no_merge_rfc pb pr s Wb Wr Hbs); [right; right; rewrite Hp; exact Hc | apply rds_exact_simple; rewrite Hp; exact Hr].
        -- apply (resolve_merge_rfc pb pr s Wb Wr Hbs Hrs Hra c t Hp Hc).
           ++ apply clean_dir. apply Hb. repeat split; auto. eauto.
           ++ intros l' x E. apply (Hr l' x). unfold segs. rewrite Hc. exact E.
Qed.
