(* Property C16 -- suffix and base.  Statements only. *)
From Coq Require Import List NArith Bool Arith.
Import ListNotations.
Require Import V.Regex V.Parse V.ParseProofs V.PathSpec V.Splice V.Setters V.SetPath V.Iter V.PathQ V.Push V.PathMut V.Reference V.Cmp V.Rfc V.C16Proofs V.C16Proofs2 V.DirProofs V.C16Proofs3 V.C16Proofs4.
Local Open Scope nat_scope.

(* a suffix is produced only when the prefix's (normalised) segments are a leading part of the value's,
   segment-wise equal after percent-decoding ... *)
Theorem C16_suffix_only_for_prefixes : forall buf xs ys r, suffix_loop buf xs ys = Some (Some r) -> is_prefix ys xs.
Proof. exact suffix_some. Qed.
Print Assumptions C16_suffix_only_for_prefixes.

(* ... and "no suffix" is reported only when they are not *)
Theorem C16_none_only_for_non_prefixes : forall buf xs ys, suffix_loop buf xs ys = Some None -> ~ is_prefix ys xs.
Proof. exact suffix_none. Qed.
Print Assumptions C16_none_only_for_non_prefixes.

(* base() is a leading part of the text (zero-copy, C20) *)
Theorem C16_base_is_prefix : forall buf, exists rest, buf = ref_base buf ++ rest.
Proof. exact base_is_prefix. Qed.
Print Assumptions C16_base_is_prefix.

(* exactness and totality: when the prefix's segments are matched (segment-wise equal after percent-decoding) by the
   first |ys| segments of the value, the loop returns -- no panic, whatever the remaining segments are -- a path
   whose segments are exactly the remaining ones (up to "." shield segments: the push law of C10) *)
Theorem C16_suffix_exact : forall ys xs1 rest buf, Forall2 seg_eq xs1 ys -> Forall noslash rest ->
  exists r, suffix_loop buf (xs1 ++ rest) ys = Some (Some r) /\ nodot (segs r) = nodot (segs buf ++ rest).
Proof. exact suffix_exact. Qed.
Print Assumptions C16_suffix_exact.

(* PATH LEVEL, both directions.  A Some answer means: same absoluteness, the value's normalised segments are X1 ++ rest
   with X1 segment-wise equal (after percent-decoding) to the prefix's normalised segments, and the returned path has
   exactly the segments rest (up to "." shields) ... *)
Theorem C16_suffix_decomposition : forall a p r, none_of [QM; HASH] a -> path_suffix a p = Some (Some r) ->
  is_abs a = is_abs p /\ exists X1 rest, nsegs a = X1 ++ rest /\ Forall2 seg_eq X1 (nsegs p) /\ nodot (segs r) = nodot rest.
Proof. exact suffix_decomp. Qed.
Print Assumptions C16_suffix_decomposition.
(* ... whenever such a decomposition exists the answer is Some (no panic) ... *)
Theorem C16_path_suffix_exact : forall a p X1 rest, is_abs a = is_abs p -> nsegs a = X1 ++ rest -> Forall2 seg_eq X1 (nsegs p) -> Forall noslash rest ->
  exists r, path_suffix a p = Some (Some r) /\ nodot (segs r) = nodot rest.
Proof. exact path_suffix_exact. Qed.
Print Assumptions C16_path_suffix_exact.
(* ... and None is answered only when absoluteness differs or the prefix's segments are not a leading part *)
Theorem C16_path_suffix_none : forall a p, path_suffix a p = Some None -> is_abs a <> is_abs p \/ ~ is_prefix (nsegs p) (nsegs a).
Proof. exact path_suffix_none. Qed.
Print Assumptions C16_path_suffix_none.

(* THE RECONSTRUCTION LAW ("appending them to the prefix path gives a path equal to the original"): the prefix's
   segments followed by the suffix's segments normalise to a list segment-wise == the value's normalised segments --
   PROVED when the remaining segments contain no ".." (always so for absolute paths) or the prefix's normalised
   segments are all literally "..".  Outside: recorded class K_pct_dotdot (a prefix segment that only DECODES to ".."
   followed by a remaining ".."), witness below. *)
Theorem C16_reconstruction_partial : forall a p r, none_of [QM; HASH] a -> none_of [QM; HASH] p -> path_suffix a p = Some (Some r) ->
  Forall (fun x => dec x <> None) (nsegs a) ->
  plain (skipn (length (nsegs p)) (nsegs a)) \/ all_dotdot (nsegs p) ->
  Forall2 seg_eq (nsegs a) (norm (is_abs p) (segs p ++ segs r)).
Proof. exact suffix_reconstruct. Qed.
Print Assumptions C16_reconstruction_partial.
(* the same law on TEXTS: pushing the suffix's segments one by one onto the prefix path held as a PathBuf
   (append_segs = the push loop of the library) never panics and gives a path that the value is == to (Cmp.eq_path) *)
Theorem C16_reconstruction_text_partial : forall a p r, none_of [QM; HASH] a -> none_of [QM; HASH] p -> path_suffix a p = Some (Some r) ->
  Forall (fun x => dec x <> None) (nsegs a) ->
  plain (skipn (length (nsegs p)) (nsegs a)) \/ all_dotdot (nsegs p) ->
  exists back, append_segs p (segs r) = Some (Some back) /\ eq_path a back = Some true.
Proof. exact suffix_reconstruct_text. Qed.
Print Assumptions C16_reconstruction_text_partial.
(* the suffix is a well-formed path, and a PathBuf keeps its absoluteness under push *)
Theorem C16_suffix_wf : forall a p r, none_of [QM; HASH] a -> path_suffix a p = Some (Some r) -> none_of [QM; HASH] r.
Proof. exact suffix_wf. Qed.
Print Assumptions C16_suffix_wf.
Theorem C16_K_pct_dotdot_witness :
  path_suffix kp_a kp_p = Some (Some [46;46]%N) /\ nsegs kp_a = [DOTDOT; DOTDOT] /\ norm (is_abs kp_p) (segs kp_p ++ segs [46;46]%N) = [].
Proof. exact K_pct_dotdot_witness. Qed.
Print Assumptions C16_K_pct_dotdot_witness.

(* REFERENCE LEVEL: for all well-formed value / prefix, suffix() is gated by literal scheme equality and authority ==,
   then is the path-level suffix, accompanied by the value's own query and fragment *)
Theorem C16_ref_suffix_spec : forall pa pp, wf_parts pa -> wf_parts pp ->
  ref_suffix (compose pa) (compose pp) =
  if eq_oscheme (p_scheme pa) (p_scheme pp) then
    bind (eq_opt eq_authority (p_authority pa) (p_authority pp)) (fun same =>
    if same then bind (path_suffix (p_path pa) (p_path pp)) (fun r => Some (option_map (fun s => (s, p_query pa, p_fragment pa)) r))
    else Some None)
  else Some None.
Proof. exact ref_suffix_spec. Qed.
Print Assumptions C16_ref_suffix_spec.
Theorem C16_ref_suffix_some : forall pa pp r q f, wf_parts pa -> wf_parts pp -> ref_suffix (compose pa) (compose pp) = Some (Some (r, q, f)) ->
  eq_oscheme (p_scheme pa) (p_scheme pp) = true /\ eq_opt eq_authority (p_authority pa) (p_authority pp) = Some true /\
  path_suffix (p_path pa) (p_path pp) = Some (Some r) /\ q = p_query pa /\ f = p_fragment pa.
Proof. exact ref_suffix_some. Qed.
Print Assumptions C16_ref_suffix_some.

(* base(): for every well-formed reference, everything before the path followed by the path's text up to and
   including its last '/' (Rfc.dir_of: "" when the path has no '/'); the query and fragment are dropped *)
Theorem C16_base_spec : forall p, wf_parts p -> ref_base (compose p) = pre_of p ++ dir_of (p_path p).
Proof. exact ref_base_spec. Qed.
Print Assumptions C16_base_spec.

Example C16_example :   (* /a/b/c over /%61/x/..  ->  b/c ;  base(http://a/b/c?q#f) = http://a/b/ *)
  path_suffix [47;97;47;98;47;99]%N [47;37;54;49;47;120;47;46;46]%N = Some (Some [98;47;99]%N)
  /\ ref_base [104;116;116;112;58;47;47;97;47;98;47;99;63;113;35;102]%N = [104;116;116;112;58;47;47;97;47;98;47]%N.
Proof. vm_compute. split; reflexivity. Qed.
