(* Property C16 -- suffix and base.  Statements only. *)
From Coq Require Import List NArith Bool Arith.
Import ListNotations.
Require Import V.Regex V.Parse V.ParseProofs V.PathSpec V.Splice V.Setters V.SetPath V.Iter V.PathQ V.Push V.PathMut V.Reference V.Cmp V.Rfc V.C16Proofs V.C16Proofs2 V.DirProofs.
Local Open Scope nat_scope.

(* a suffix is produced only when the prefix's (normalised) segments are a leading part of the value's,
   segment-wise equal after percent-decoding ... *)
Theorem C16_suffix_only_for_prefixes : forall buf xs ys r, suffix_loop buf xs ys = Some (Some r) -> is_prefix ys xs.
Proof. exact suffix_some. Qed.
Print Assumptions C16_suffix_only_for_prefixes.

(* ... and "no suffix" is reported only when they are not *)
Theorem C16_none_only_for_non_prefixes : forall buf xs ys, suffix_loop buf xs ys = Some None -> ~ is_prefix ys xs.
Proof. exact suffix_none. Qed.
Print Assumptions C16_none_only_for_non_prefixes.

(* base() is a leading part of the text (zero-copy, C20) *)
Theorem C16_base_is_prefix : forall buf, exists rest, buf = ref_base buf ++ rest.
Proof. exact base_is_prefix. Qed.
Print Assumptions C16_base_is_prefix.

(* exactness and totality: when the prefix's segments are matched (segment-wise equal after percent-decoding) by the
   first |ys| segments of the value, the loop returns -- no panic, whatever the remaining segments are -- a path
   whose segments are exactly the remaining ones (up to "." shield segments: the push law of C10) *)
Theorem C16_suffix_exact : forall ys xs1 rest buf, Forall2 seg_eq xs1 ys -> Forall noslash rest ->
  exists r, suffix_loop buf (xs1 ++ rest) ys = Some (Some r) /\ nodot (segs r) = nodot (segs buf ++ rest).
Proof. exact suffix_exact. Qed.
Print Assumptions C16_suffix_exact.

(* base(): for every well-formed reference, everything before the path followed by the path's text up to and
   including its last '/' (Rfc.dir_of: "" when the path has no '/'); the query and fragment are dropped *)
Theorem C16_base_spec : forall p, wf_parts p -> ref_base (compose p) = pre_of p ++ dir_of (p_path p).
Proof. exact ref_base_spec. Qed.
Print Assumptions C16_base_spec.

Example C16_example :   (* /a/b/c over /%61/x/..  ->  b/c ;  base(http://a/b/c?q#f) = http://a/b/ *)
  path_suffix [47;97;47;98;47;99]%N [47;37;54;49;47;120;47;46;46]%N = Some (Some [98;47;99]%N)
  /\ ref_base [104;116;116;112;58;47;47;97;47;98;47;99;63;113;35;102]%N = [104;116;116;112;58;47;47;97;47;98;47]%N.
Proof. vm_compute. split; reflexivity. Qed.
