(* Property C16 -- suffix and base.  Statements only. *)
From Coq Require Import List NArith Bool Arith.
Import ListNotations.
Require Import V.Regex V.Parse V.PathSpec V.Splice V.Setters V.Iter V.PathQ V.PathMut V.Reference V.Cmp V.C16Proofs.
Local Open Scope nat_scope.

(* a suffix is produced only when the prefix's (normalised) segments are a leading part of the value's,
   segment-wise equal after percent-decoding ... *)
Theorem C16_suffix_only_for_prefixes : forall buf xs ys r, suffix_loop buf xs ys = Some (Some r) -> is_prefix ys xs.
Proof. exact suffix_some. Qed.
Print Assumptions C16_suffix_only_for_prefixes.

(* ... and "no suffix" is reported only when they are not *)
Theorem C16_none_only_for_non_prefixes : forall buf xs ys, suffix_loop buf xs ys = Some None -> ~ is_prefix ys xs.
Proof. exact suffix_none. Qed.
Print Assumptions C16_none_only_for_non_prefixes.

(* base() is a leading part of the text (zero-copy, C20) *)
Theorem C16_base_is_prefix : forall buf, exists rest, buf = ref_base buf ++ rest.
Proof. exact base_is_prefix. Qed.
Print Assumptions C16_base_is_prefix.

Example C16_example :   (* /a/b/c over /%61/x/..  ->  b/c ;  base(http://a/b/c?q#f) = http://a/b/ *)
  path_suffix [47;97;47;98;47;99]%N [47;37;54;49;47;120;47;46;46]%N = Some (Some [98;47;99]%N)
  /\ ref_base [104;116;116;112;58;47;47;97;47;98;47;99;63;113;35;102]%N = [104;116;116;112;58;47;47;97;47;98;47]%N.
Proof. vm_compute. split; reflexivity. Qed.
