(* Model of uri/scheme/data.rs: DataUrlDelimiters::parse (offsets stored by the owned form) and the
   three re-scanning accessors of the borrowed form, and their coherence.  `None` in a re-scanning
   accessor = the Rust loop would not terminate (no ',' / ';' in the text). *)
From Coq Require Import List NArith Bool Arith Lia.
Import ListNotations.
Require Import V.Regex V.Parse.
Local Open Scope nat_scope.

Definition SEMI : N := 59%N. Definition COMMA : N := 44%N.
Definition DATA : str := [100;97;116;97;58]%N.                (* "data:" *)
Definition B64C : str := [98;97;115;101;54;52;44]%N.          (* "base64," *)
Definition B64 : str := [59;98;97;115;101;54;52]%N.           (* ";base64" *)

Definition mt_char (c : N) : bool :=
  ((48 <=? c) && (c <=? 57) || (65 <=? c) && (c <=? 90) || (97 <=? c) && (c <=? 122))%N
  || existsb (N.eqb c) [47;33;35;36;38;45;43;94;95;46]%N.

Fixpoint str_eqb (a b : str) : bool :=
  match a, b with [], [] => true | x :: a', y :: b' => N.eqb x y && str_eqb a' b' | _, _ => false end.
Lemma str_eqb_eq a : forall b, str_eqb a b = true -> a = b.
Proof. induction a as [|x a IH]; intros [|y b]; simpl; try discriminate; auto. intros H. apply andb_true_iff in H as [H1 H2]. apply N.eqb_eq in H1. f_equal; auto. Qed.

Fixpoint strip_prefix (pre l : str) : option str :=
  match pre, l with
  | [], _ => Some l
  | p :: pre', c :: l' => if N.eqb p c then strip_prefix pre' l' else None
  | _ :: _, [] => None
  end.

(* the media-type loop over the suffix after "data:"; i = index in the suffix *)
Fixpoint dloop (l : str) (i : nat) : option (nat * bool * nat) :=
  match l with
  | [] => None
  | c :: rest =>
    if is c COMMA then Some (5 + i, false, 5 + i + 1)
    else if is c SEMI then (if str_eqb (firstn 7 rest) B64C then Some (5 + i, true, 5 + (i + 8)) else None)
    else if mt_char c then dloop rest (S i) else None
  end.
Definition dparse (u : str) : option (nat * bool * nat) :=
  match strip_prefix DATA u with Some suf => dloop suf 0 | None => None end.

(* owned accessors: from the stored offsets *)
Definition o_media_type (u : str) (d : nat * bool * nat) : str := slice u (5, fst (fst d)).
Definition o_base64 (d : nat * bool * nat) : bool := snd (fst d).
Definition o_data (u : str) (d : nat * bool * nat) : str := skipn (snd d) u.

(* borrowed accessors: re-scan the whole text *)
Fixpoint first_sc (l : str) (i : nat) : option (nat * N) :=
  match l with [] => None | c :: r => if is c SEMI || is c COMMA then Some (i, c) else first_sc r (S i) end.
Fixpoint first_comma (l : str) (i : nat) : option nat :=
  match l with [] => None | c :: r => if is c COMMA then Some i else first_comma r (S i) end.
Definition b_media_type (u : str) : option str := option_map (fun x => slice u (5, fst x)) (first_sc u 0).
Definition b_base64 (u : str) : option bool := option_map (fun x => is (snd x) SEMI) (first_sc u 0).
Definition b_data (u : str) : option str := option_map (fun i => skipn (S i) u) (first_comma u 0).
