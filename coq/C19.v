(* Property C19 -- percent-decoded views of components.  Statements only.
   What a model of the repository can carry: the OCTET view (`as_pct_str().bytes()`, model Cmp.dec) is
   total on every valid component of both families and replaces each %XX by that octet.  The character
   view (chars/len/decode/==) is implemented by the external crates pct-str / utf8-decode and is covered by
   the correspondence run only; its panics on ill-formed octets are a recorded finding (partial). *)
From Coq Require Import List NArith Bool Arith.
Import ListNotations.
Require Import V.Regex V.Abnf V.Parse V.ParseProofs V.Factor V.BridgePaths V.C02Bridge V.C02Proofs V.Auth V.AuthProofs V.C03Bridge V.Cmp V.PctWf V.C03Embed V.C19Proofs V.C19Auth V.PathSpec V.PathGrammar V.PathGrammarInst.
Local Open Scope nat_scope.

Theorem C19_octets_total_partial : forall s,
  L (iuserinfo U) s \/ L (iuserinfo I) s \/ L (ihost U) s \/ L (ihost I) s \/ L (isegment U) s \/ L (isegment I) s \/
  L (iquery U U) s \/ L (iquery I C02Bridge.P) s \/ L (ifragment U) s \/ L (ifragment I) s -> exists s', dec s = Some s'.
Proof.
  intros s [H|[H|[H|[H|[H|[H|[H|[H|[H|H]]]]]]]]]; eapply dec_total_component; try exact H.
  - exact chk_ui_U. - exact chk_ui_I. - exact chk_host_U. - exact chk_host_I. - exact chk_seg_U. - exact chk_seg_I.
  - exact chk_q_U. - exact chk_q_I. - exact chk_f_U. - exact chk_f_I.
Qed.
Print Assumptions C19_octets_total_partial.

(* FAITHFUL, on whole strings: the octet view of s is t exactly when t is s with each %XY replaced by the octet 16*X+Y
   and every other byte kept (relation Decoded, C19Proofs.v) -- in particular the fuel of the model is never exhausted
   and None arises only from a malformed escape; with C19_octets_total_partial every valid component has exactly one
   such t.  Text without '%' is its own view. *)
Theorem C19_octets_faithful : forall s t, dec s = Some t <-> Decoded s t.
Proof. exact dec_iff. Qed.
Print Assumptions C19_octets_faithful.
Theorem C19_octets_plain : forall s, Forall (fun c => is c PCT = false) s -> dec s = Some s.
Proof. intros s H. apply dec_iff, decoded_plain, H. Qed.
Print Assumptions C19_octets_plain.

(* each step of the decoder: a literal octet is kept, "%XY" becomes the octet 16*X+Y *)
Theorem C19_step_literal : forall c s f, is c PCT = false -> dec_fuel (S f) (c :: s) = option_map (cons c) (dec_fuel f s).
Proof. intros c s f H. simpl. rewrite H. reflexivity. Qed.
Print Assumptions C19_step_literal.
Theorem C19_step_escape : forall a b x y s f, hexval a = Some x -> hexval b = Some y ->
  dec_fuel (S f) (PCT :: a :: b :: s) = option_map (cons (x * 16 + y)%N) (dec_fuel f s).
Proof. intros a b x y s f Ha Hb. simpl. rewrite Ha, Hb. reflexivity. Qed.
Print Assumptions C19_step_escape.

(* THROUGH THE ACCESSORS: for EVERY URI / IRI reference, the query and the fragment that the accessors hand out (the
   slices of the text at the ranges the decomposition returns, C02) have a total octet view -- the chain
   grammar -> decomposition -> component language -> decoder, with no hypothesis on the reference *)
Theorem C19_reference_query_fragment_URI : forall s, L (IRI_reference U U) s ->
  (forall q, oslice s (r_query (reference_parts s 0)) = Some q -> exists q', dec q = Some q') /\
  (forall f, oslice s (r_fragment (reference_parts s 0)) = Some f -> exists f', dec f = Some f').
Proof.
  intros s H. destruct (uri_reference_decomposition s H) as (p & (_ & _ & _ & Hq & Hf) & -> & E & _). rewrite E.
  destruct (expected_slices p) as (_ & _ & _ & Sq & Sf). rewrite Sq, Sf. split.
  - intros q Eq. rewrite Eq in Hq. exact (dec_total_component _ _ chk_q_U Hq).
  - intros f Ef. rewrite Ef in Hf. exact (dec_total_component _ _ chk_f_U Hf).
Qed.
Print Assumptions C19_reference_query_fragment_URI.
Theorem C19_reference_query_fragment_IRI : forall s, L (IRI_reference I C02Bridge.P) s ->
  (forall q, oslice s (r_query (reference_parts s 0)) = Some q -> exists q', dec q = Some q') /\
  (forall f, oslice s (r_fragment (reference_parts s 0)) = Some f -> exists f', dec f = Some f').
Proof.
  intros s H. destruct (iri_reference_decomposition s H) as (p & (_ & _ & _ & Hq & Hf) & -> & E & _). rewrite E.
  destruct (expected_slices p) as (_ & _ & _ & Sq & Sf). rewrite Sq, Sf. split.
  - intros q Eq. rewrite Eq in Hq. exact (dec_total_component _ _ chk_q_I Hq).
  - intros f Ef. rewrite Ef in Hf. exact (dec_total_component _ _ chk_f_I Hf).
Qed.
Print Assumptions C19_reference_query_fragment_IRI.

(* the same through the AUTHORITY accessors: for every authority of either family the user info slice (when present) and
   the host slice that the decomposition returns have a total octet view *)
Theorem C19_authority_views_URI : forall s, L (iauthority U) s ->
  (forall u, oslice s (a_userinfo (authority_parts s)) = Some u -> exists u', dec u = Some u') /\
  (exists h', dec (slice s (a_host (authority_parts s))) = Some h').
Proof. intros s H. destruct (uri_authority_decomposition s H) as (a & Hv & Hd). exact (authority_views_decode U chk_ui_U chk_host_U s a Hv Hd). Qed.
Print Assumptions C19_authority_views_URI.
Theorem C19_authority_views_IRI : forall s, L (iauthority I) s ->
  (forall u, oslice s (a_userinfo (authority_parts s)) = Some u -> exists u', dec u = Some u') /\
  (exists h', dec (slice s (a_host (authority_parts s))) = Some h').
Proof. intros s H. destruct (iri_authority_decomposition s H) as (a & Hv & Hd). exact (authority_views_decode I chk_ui_I chk_host_I s a Hv Hd). Qed.
Print Assumptions C19_authority_views_IRI.

(* and through the SEGMENT iterator: every segment of every path of either family (the '/'-split that the iterator
   yields, C12) has a total octet view *)
Theorem C19_path_segments_URI : forall v, L (ipath U) v -> Forall (fun sg => exists sg', dec sg = Some sg') (segs v).
Proof. intros v H. eapply Forall_impl; [|exact (segs_of_path_U v H)]. intros sg Hs. exact (dec_total_component _ _ chk_seg_U Hs). Qed.
Print Assumptions C19_path_segments_URI.
Theorem C19_path_segments_IRI : forall v, L (ipath I) v -> Forall (fun sg => exists sg', dec sg = Some sg') (segs v).
Proof. intros v H. eapply Forall_impl; [|exact (segs_of_path_I v H)]. intros sg Hs. exact (dec_total_component _ _ chk_seg_I Hs). Qed.
Print Assumptions C19_path_segments_IRI.

(* and for the authority EMBEDDED in a reference (reference.authority().host() ...): the authority slice that the reference
   decomposition returns decomposes in turn, and its user info and host have a total octet view *)
Theorem C19_embedded_authority_URI : forall s, L (IRI_reference U U) s ->
  forall au, oslice s (r_authority (reference_parts s 0)) = Some au ->
  (forall u, oslice au (a_userinfo (authority_parts au)) = Some u -> exists u', dec u = Some u') /\
  (exists h', dec (slice au (a_host (authority_parts au))) = Some h').
Proof.
  intros s H au Ea. destruct (embedded_uri s H) as (p & _ & (-> & E & _) & Hemb). rewrite E in Ea.
  destruct (expected_slices p) as (_ & Sa & _). rewrite Sa in Ea.
  destruct (Hemb au Ea) as (a & Hv & Hd). exact (authority_views_decode U chk_ui_U chk_host_U au a Hv Hd).
Qed.
Print Assumptions C19_embedded_authority_URI.
Theorem C19_embedded_authority_IRI : forall s, L (IRI_reference I C02Bridge.P) s ->
  forall au, oslice s (r_authority (reference_parts s 0)) = Some au ->
  (forall u, oslice au (a_userinfo (authority_parts au)) = Some u -> exists u', dec u = Some u') /\
  (exists h', dec (slice au (a_host (authority_parts au))) = Some h').
Proof.
  intros s H au Ea. destruct (embedded_iri s H) as (p & _ & (-> & E & _) & Hemb). rewrite E in Ea.
  destruct (expected_slices p) as (_ & Sa & _). rewrite Sa in Ea.
  destruct (Hemb au Ea) as (a & Hv & Hd). exact (authority_views_decode I chk_ui_I chk_host_I au a Hv Hd).
Qed.
Print Assumptions C19_embedded_authority_IRI.

Example C19_example : dec [97;37;70;70;37;99;51;37;65;57]%N = Some [97;255;195;169]%N.   (* a%FF%c3%A9 *)
Proof. vm_compute. reflexivity. Qed.
