(* C10 / C04: the text-level meaning of pop (PathMutProofs.pop1, which the index-level handle refines): it never
   panics on a path free of '?' and '#', removes exactly the last '/'-separated piece (or appends ".." when there is
   nothing to remove), and keeps the delimiter-level well-formedness of the path in its context. *)
From Coq Require Import List NArith Bool Arith Lia.
Import ListNotations.
Require Import V.Regex V.Parse V.ParseProofs V.Parse2 V.PathSpec V.Splice V.Setters V.Iter V.IterProofs V.IterAll V.PathQ V.Push V.PathMut
  V.PathMutProofs V.C12Proofs V.PushWf V.NormProofs.
Local Open Scope nat_scope.

Section Last.
  Variable pfx : str. Variable l' : list str. Variable x : str.
  Hypothesis Hpfx : pfx = [] \/ pfx = [SLASH].
  Hypothesis Hsegs : Forall seg_ok (l' ++ [x]).
  Local Notation l := (l' ++ [x]).
  Local Notation p := (P pfx (l' ++ [x])).
  Hypothesis Hfirst : first_off p = length pfx.
  Hypothesis Hne : path_is_empty p = false.

  Lemma l_nonempty : l <> []. Proof. destruct l'; discriminate. Qed.
  Lemma len_l : length l = S (length l'). Proof. rewrite app_length. cbn [length]. lia. Qed.
  Lemma nth_last : nth_error l (length l') = Some x.
  Proof. rewrite nth_error_app2 by lia. rewrite Nat.sub_diag. reflexivity. Qed.
  Lemma firstn_last : firstn (length l') l = l'.
  Proof. rewrite firstn_app, Nat.sub_diag, firstn_all. cbn [firstn]. apply app_nil_r. Qed.
  Lemma restR_last : restR l (length l') = [].
  Proof. unfold restR. rewrite skipn_all2; [reflexivity | rewrite len_l; lia]. Qed.
  Lemma x_ok : seg_ok x. Proof. apply Forall_app in Hsegs as [_ H]. now inversion H. Qed.

  Lemma p_split : p = (pfx ++ joinS l') ++ x.
  Proof.
    destruct (P_at pfx l (length l') x nth_last) as [E _]. rewrite firstn_last, restR_last, app_nil_r in E. exact E.
  Qed.

  Theorem pq_last_value : exists r, pq_last p = Some (Some r) /\ slice p r = x.
  Proof.
    unfold pq_last. rewrite Hne.
    pose proof (prev_at pfx l Hpfx Hsegs Hfirst Hne (length l') x nth_last) as E.
    assert (Eo : o pfx l (S (length l')) = length p + 1) by (rewrite <- len_l; apply (o_n pfx l l_nonempty Hfirst)).
    rewrite Eo in E. rewrite E. eexists. split; [reflexivity|].
    pose proof (slice_rng pfx l Hfirst (length l')) as Hs. unfold rng in Hs.
    rewrite (nth_error_nth _ _ _ nth_last) in Hs. apply Hs. rewrite len_l. lia.
  Qed.

  (* the backward scan of pop stops on the '/' that precedes the last segment (or at the start of the path) *)
  Theorem pop_scan : back_scan p (first_off p) (length p - 1) (S (length p)) = Some (length (pfx ++ join l')).
  Proof.
    rewrite Hfirst. destruct (last_case l') as [E0|(l2 & y & E0)].
    - (* a single segment *)
      assert (Ep : p = pfx ++ x ++ []) by (rewrite p_split, E0; cbn [joinS concat map app]; rewrite !app_nil_r; reflexivity).
      replace (pfx ++ join l') with pfx by (rewrite E0; cbn [join]; rewrite app_nil_r; reflexivity).
      assert (Hx : x = [] \/ 0 < length x) by (destruct x; [left; reflexivity | right; cbn [length]; lia]).
      destruct Hx as [Ex|Hx].
      + exfalso. rewrite Ep, Ex, !app_nil_r in Hne. destruct Hpfx as [E1|E1]; rewrite E1 in Hne; discriminate.
      + rewrite Ep at 1 3. replace (length p - 1) with (length pfx + (length x - 1)) by (rewrite Ep, !app_length; cbn [length]; lia).
        rewrite (back_scan_in_seg pfx x [] (length pfx) x_ok (le_n _) (length x - 1)); [| lia | rewrite !app_length; lia].
        rewrite Nat.ltb_irrefl. reflexivity.
    - (* a '/' precedes the last segment *)
      set (A' := pfx ++ join l').
      assert (EA : pfx ++ joinS l' = A' ++ [SLASH]).
      { unfold A'. rewrite joinS_join by (rewrite E0; destruct l2; discriminate). rewrite app_assoc. reflexivity. }
      assert (Ep : p = (A' ++ [SLASH]) ++ x ++ []) by (rewrite p_split, EA, app_nil_r; reflexivity).
      assert (Hf : length pfx <= length A') by (unfold A'; rewrite app_length; lia).
      assert (Gs : get_nth p (length A') = Some SLASH).
      { rewrite Ep, <- app_assoc. cbn [app]. apply get_nth_app. }
      assert (Hstop : forall fuel, 0 < fuel -> back_scan p (length pfx) (length A') fuel = Some (length A')).
      { intros fuel H0. destruct fuel; [lia|]. cbn [back_scan]. destruct (length pfx <? length A'); [|reflexivity]. rewrite Gs.
        change (is SLASH SLASH) with true. reflexivity. }
      assert (Hx : x = [] \/ 0 < length x) by (destruct x; [left; reflexivity | right; cbn [length]; lia]).
      destruct Hx as [Ex|Hx].
      + replace (length p - 1) with (length A') by (rewrite Ep, Ex, !app_length; cbn [length]; lia). apply Hstop. lia.
      + replace (length p - 1) with (length (A' ++ [SLASH]) + (length x - 1)) by (rewrite Ep, !app_length; cbn [length]; lia).
        rewrite Ep at 1. rewrite (back_scan_in_seg (A' ++ [SLASH]) x [] (length pfx) x_ok); [| rewrite app_length; lia | lia | rewrite Ep, !app_length; cbn [length]; lia].
        replace (length pfx <? length (A' ++ [SLASH])) with true by (symmetry; apply Nat.ltb_lt; rewrite app_length; cbn [length]; lia).
        replace (length (A' ++ [SLASH]) - 1) with (length A') by (rewrite app_length; cbn [length]; lia).
        rewrite <- Ep. apply Hstop. rewrite Ep, !app_length. cbn [length]. lia.
  Qed.

  Lemma firstn_pop : firstn (length (pfx ++ join l')) p = pfx ++ join l'.
  Proof.
    destruct (last_case l') as [E0|(l2 & y & E0)].
    - rewrite p_split, E0. cbn [join joinS concat map]. rewrite !app_nil_r. apply firstn_exact. reflexivity.
    - rewrite p_split, joinS_join by (rewrite E0; destruct l2; discriminate).
      rewrite (app_assoc pfx), <- !app_assoc. rewrite (app_assoc pfx). apply firstn_exact. reflexivity.
  Qed.
End Last.

Definition last_is_dotdot (l : list seg) : bool := match rev l with x :: _ => is_dotdot x | [] => false end.
Definition pop_text (start0 fa : bool) (v : str) : str :=
  if path_is_empty v then (if is_abs v then v else push start0 fa v DOTDOT)
  else if last_is_dotdot (segs v) then push start0 fa v DOTDOT
  else render (is_abs v) (removelast (segs v)).

Lemma nonempty_decomp v : none_of [QM; HASH] v -> path_is_empty v = false ->
  exists (pfx : str) (l' : list str) (x : str), (pfx = [] \/ pfx = [SLASH]) /\ pfx = (if is_abs v then [SLASH] else []) /\ segs v = l' ++ [x] /\ v = P pfx (l' ++ [x]) /\
                   Forall seg_ok (l' ++ [x]) /\ first_off (P pfx (l' ++ [x])) = length pfx.
Proof.
  intros H E. set (pfx := if is_abs v then [SLASH] else @nil N).
  assert (Hp : v = P pfx (segs v)). { unfold P, pfx. pose proof (render_segs v) as R. unfold render in R. now rewrite R. }
  assert (Hl : segs v <> []).
  { unfold segs. destruct v as [|c r]; [discriminate|]. destruct (is c SLASH) eqn:Ec.
    - destruct r; [simpl in E; rewrite Ec in E; discriminate | apply split_nonempty].
    - apply split_nonempty. }
  destruct (@last_case str (segs v)) as [E0|(l' & x & E0)]; [contradiction|].
  exists pfx, l', x. rewrite <- E0. repeat split; auto.
  - unfold pfx. destruct (is_abs v); auto.
  - now apply segs_seg_ok.
  - rewrite <- Hp. unfold first_off, pfx. destruct (is_abs v); reflexivity.
Qed.

Theorem pop1_spec start0 fa v : none_of [QM; HASH] v -> pop1 start0 fa v = Some (pop_text start0 fa v).
Proof.
  intros H. unfold pop1, pop_text. destruct (path_is_empty v) eqn:E.
  - destruct (is_abs v) eqn:Ea; cbn [negb andb bind]; [|reflexivity].
    unfold pq_last. rewrite E. reflexivity.
  - cbn [andb negb].
    destruct (nonempty_decomp v H E) as (pfx & l' & x & Hpfx & Epfx & El & Ev & Hs & Hf).
    assert (Hne : path_is_empty (P pfx (l' ++ [x])) = false) by (rewrite <- Ev; exact E).
    destruct (pq_last_value pfx l' x Hpfx Hs Hf Hne) as (r & Er & Esl). rewrite <- Ev in Er, Esl. rewrite Er, Esl. cbn [bind].
    unfold last_is_dotdot. rewrite El, rev_app_distr. cbn [rev app].
    destruct (is_dotdot x); [reflexivity|].
    pose proof (pop_scan pfx l' x Hpfx Hs Hf Hne) as Sc. rewrite <- Ev in Sc. rewrite Sc. cbn [option_map].
    rewrite removelast_last. f_equal. rewrite Ev at 1. rewrite (firstn_pop pfx l' x) by exact Hf. unfold render. rewrite Epfx. reflexivity.
Qed.

(* ---------- the list law of pop ---------- *)
(* [removes exactly the last segment]: for a non-empty path whose last segment is not "..", the result has the same
   absoluteness and its segments are those of v without the last one -- except when v is "//x" (absolute, two
   segments, the first one empty), where the remaining lone empty segment vanishes too (recorded finding K_pop_dslash) *)
Lemma segs_render_prefix ab l' : Forall noslash l' -> (ab = false -> forall r, l' <> [] :: r) -> ~ (ab = true /\ l' = [[]]) ->
  segs (render ab l') = l' /\ is_abs (render ab l') = ab.
Proof.
  intros Hs Hrel Hab. unfold render. destruct l' as [|s r]; [destruct ab; split; reflexivity|].
  assert (Hsp : split (join (s :: r)) = s :: r) by (apply split_join; [discriminate | exact Hs]).
  destruct ab; cbn [app].
  - split; [|reflexivity]. unfold segs. change (is SLASH SLASH) with true. cbv iota.
    destruct (join (s :: r)) as [|c t] eqn:Ej; [|exact Hsp].
    exfalso. apply Hab. split; [reflexivity|]. destruct (join_nil _ Ej) as [H|H]; [discriminate | exact H].
  - assert (Hh : starts_slash (join (s :: r)) = false).
    { rewrite join_head by exact Hs. destruct s as [|c s]; [|reflexivity]. destruct r; [reflexivity|]. exfalso. exact (Hrel eq_refl _ eq_refl). }
    destruct (join (s :: r)) as [|c t] eqn:Ej.
    + destruct (join_nil _ Ej) as [H|H]; [discriminate|]. exfalso. injection H as -> ->. exact (Hrel eq_refl _ eq_refl).
    + cbn [starts_slash] in Hh. split; [|exact Hh]. unfold segs. rewrite Hh. exact Hsp.
Qed.

Theorem pop_law start0 fa v l' x : none_of [QM; HASH] v -> path_is_empty v = false -> segs v = l' ++ [x] -> is_dotdot x = false ->
  ~ (is_abs v = true /\ l' = [[]]) ->
  exists v', pop1 start0 fa v = Some v' /\ segs v' = l' /\ is_abs v' = is_abs v.
Proof.
  intros H E El Hx Hk. rewrite (pop1_spec start0 fa v H). eexists. split; [reflexivity|].
  unfold pop_text. rewrite E. unfold last_is_dotdot. rewrite El, rev_app_distr. cbn [rev app]. rewrite Hx, removelast_last.
  apply segs_render_prefix; [| | exact Hk].
  - pose proof (segs_noslash v) as Hn. rewrite El in Hn. apply Forall_app in Hn. tauto.
  - intros Ha r Er. subst l'.
    (* a relative path cannot start with an empty segment followed by another one *)
    pose proof (render_segs v) as R. rewrite El, Ha in R. unfold render in R. cbn [app] in R.
    assert (Hst : is_abs v = true).
    { rewrite <- R. destruct r; cbn [app join]; unfold is_abs, is; cbn [app]; apply N.eqb_refl. }
    congruence.
Qed.

(* nothing to remove: the path is "" or ends with "..": pop appends ".." (list level: C10 push law) *)
Theorem pop_pushes_dotdot start0 fa v : none_of [QM; HASH] v ->
  (v = [] \/ (path_is_empty v = false /\ last_is_dotdot (segs v) = true)) -> pop1 start0 fa v = Some (push start0 fa v DOTDOT).
Proof.
  intros H Hc. rewrite (pop1_spec start0 fa v H). unfold pop_text. destruct Hc as [->|[E Hd]]; [reflexivity|]. rewrite E, Hd. reflexivity.
Qed.
(* the root "/" is left alone *)
Theorem pop_root start0 fa : pop1 start0 fa [SLASH] = Some [SLASH].
Proof. reflexivity. Qed.

(* ---------- well-formedness in context ---------- *)
Lemma none_of_firstn D k (v : str) : none_of D v -> none_of D (firstn k v).
Proof. intros H. revert k. induction H as [|c v Hc _ IH]; intros k; destruct k; cbn [firstn]; try apply Forall_nil. apply Forall_cons; [exact Hc | apply IH]. Qed.
Lemma nocolon_firstn k v : nocolon_first v = true -> nocolon_first (firstn k v) = true.
Proof.
  revert k. induction v as [|c v IH]; intros k H; [destruct k; reflexivity|]. destruct k; [reflexivity|].
  cbn [firstn nocolon_first] in *. destruct (is c SLASH); [reflexivity|]. destruct (is c COLON); [discriminate|]. now apply IH.
Qed.
Lemma prefix_wf hs ha v k : wf_path_in hs ha v -> wf_path_in hs ha (firstn k v).
Proof.
  intros [W1 W2 W3 W4]. constructor.
  - now apply none_of_firstn.
  - intros E. destruct (W2 E) as [->|(t & ->)]; [left; destruct k; reflexivity|]. destruct k; [left; reflexivity | right; cbn [firstn]; eauto].
  - intros E t Ht. destruct v as [|a [|b r]]; [destruct k; discriminate | destruct k as [|[|k]]; discriminate |].
    destruct k as [|[|k]]; try discriminate. cbn [firstn] in Ht. injection Ht as -> -> _. exact (W3 E r eq_refl).
  - intros E1 E2. apply nocolon_firstn. now apply W4.
Qed.

Lemma render_removelast_prefix v : none_of [QM; HASH] v -> path_is_empty v = false ->
  exists k, render (is_abs v) (removelast (segs v)) = firstn k v.
Proof.
  intros H E. destruct (nonempty_decomp v H E) as (pfx & l' & x & Hpfx & Epfx & El & Ev & Hs & Hf).
  exists (length (pfx ++ join l')). rewrite El, removelast_last. rewrite Ev at 2. rewrite (firstn_pop pfx l' x) by exact Hf.
  unfold render. rewrite Epfx. reflexivity.
Qed.

Lemma dotdot_noslash : noslash DOTDOT. Proof. unfold DOTDOT, DOT, SLASH. repeat constructor; discriminate. Qed.
Lemma dotdot_noqh : none_of [QM; HASH] DOTDOT.
Proof. unfold DOTDOT, DOT, QM, HASH. repeat constructor; simpl; intros [E|[E|[]]]; discriminate. Qed.

Theorem pop_text_wf hs ha v : wf_path_in hs ha v -> wf_path_in hs ha (pop_text (negb hs && negb ha) ha v).
Proof.
  intros W. unfold pop_text. destruct (path_is_empty v) eqn:E.
  - destruct (is_abs v); [exact W | apply push_wf; auto using dotdot_noslash, dotdot_noqh].
  - destruct (last_is_dotdot (segs v)); [apply push_wf; auto using dotdot_noslash, dotdot_noqh|].
    destruct (render_removelast_prefix v (wp_qh _ _ _ W) E) as (k & ->). now apply prefix_wf.
Qed.

(* C12: last() *)
Theorem pq_last_spec v : none_of [QM; HASH] v ->
  match pq_last v with
  | Some (Some r) => last_opt (segs v) = Some (slice v r)
  | Some None => segs v = []
  | None => False
  end.
Proof.
  intros H. destruct (path_is_empty v) eqn:E.
  - unfold pq_last. rewrite E. destruct v as [|c [|d r]]; try discriminate; [reflexivity|]. cbn [path_is_empty] in E. unfold segs. rewrite E. reflexivity.
  - destruct (nonempty_decomp v H E) as (pfx & l' & x & Hpfx & Epfx & El & Ev & Hs & Hf).
    assert (Hne : path_is_empty (P pfx (l' ++ [x])) = false) by (rewrite <- Ev; exact E).
    destruct (pq_last_value pfx l' x Hpfx Hs Hf Hne) as (r & Er & Esl). rewrite <- Ev in Er, Esl. rewrite Er, Esl, El.
    unfold last_opt. rewrite rev_app_distr. reflexivity.
Qed.

(* C12: first() and file_name() *)
Theorem pq_first_spec v : none_of [QM; HASH] v -> option_map (slice v) (pq_first v) = hd_error (segs v).
Proof.
  intros H. unfold pq_first. destruct (path_is_empty v) eqn:E.
  - destruct v as [|c [|d r]]; try discriminate; [reflexivity|]. cbn [path_is_empty] in E. unfold segs. rewrite E. reflexivity.
  - set (pfx := if is_abs v then [SLASH] else @nil N).
    assert (Hp : v = P pfx (segs v)). { unfold P, pfx. pose proof (render_segs v) as R. unfold render in R. now rewrite R. }
    assert (Hf : first_off (P pfx (segs v)) = length pfx) by (rewrite <- Hp; unfold first_off, pfx; destruct (is_abs v); reflexivity).
    destruct (segs v) as [|s0 r0] eqn:El.
    + exfalso. unfold P in Hp. cbn [join] in Hp. rewrite app_nil_r in Hp. rewrite Hp in E. unfold pfx in E. destruct (is_abs v); discriminate E.
    + rewrite <- El in *. assert (Hn : nth_error (segs v) 0 = Some s0) by (rewrite El; reflexivity).
      destruct (P_at pfx (segs v) 0 s0 Hn) as [Ep _]. cbn [firstn joinS concat map] in Ep. rewrite app_nil_r in Ep.
      assert (Hs0 : seg_ok s0). { pose proof (segs_seg_ok v H) as Hs. rewrite El in Hs. now inversion Hs. }
      cbn [option_map fst]. rewrite El. cbn [hd_error]. f_equal.
      replace (first_off v) with (length pfx) by (rewrite Hp at 1; symmetry; exact Hf).
      rewrite Hp at 1 2. rewrite Ep, (segment_at_spec pfx s0 _ Hs0 (restR_ok (segs v) 0)). cbn [fst].
      unfold slice. cbn [fst snd]. rewrite skipn_app_len. replace (length pfx + length s0 - length pfx) with (length s0) by lia.
      rewrite firstn_app, Nat.sub_diag, firstn_all. cbn [firstn]. apply app_nil_r.
Qed.

Theorem pq_file_name_spec v : none_of [QM; HASH] v ->
  match pq_file_name v with
  | Some (Some r) => last_opt (segs v) = Some (slice v r) /\ snd r <> fst r
  | Some None => match last_opt (segs v) with Some x => x = [] | None => True end
  | None => False
  end.
Proof.
  intros H. pose proof (file_or_last_raw_spec v H) as F. unfold pq_file_or_last_raw in F. unfold pq_file_name.
  destruct (it_next_back v (segments v)) as [[[r|] st]|]; [| |discriminate F].
  - injection F as F. destruct (snd r =? fst r) eqn:Er.
    + rewrite <- F. apply Nat.eqb_eq in Er. unfold slice. rewrite Er, Nat.sub_diag. reflexivity.
    + split; [symmetry; exact F | now apply Nat.eqb_neq].
  - injection F as F. rewrite <- F. exact I.
Qed.
