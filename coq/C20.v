(* Property C20 (the part a value-level model can express): every component is a RANGE of the
   input, the five ranges are ordered and do not overlap, and they lie inside the input. *)
From Coq Require Import List NArith Bool Arith Lia.
Import ListNotations.
Require Import V.Regex V.Abnf V.Parse V.ParseProofs V.Auth V.AuthProofs V.BridgePaths V.C02Bridge V.C02Proofs V.C03Bridge V.C03Embed V.Utf8.
Local Open Scope nat_scope.

Definition wfr (x : option range) : Prop := match x with Some (a, b) => a <= b | None => True end.
Definition ends_before (x : option range) (y : nat) : Prop := match x with Some (_, b) => b <= y | None => True end.
Definition starts_after (x : option range) (y : nat) : Prop := match x with Some (a, _) => y <= a | None => True end.
Definition ostart (x : option range) (dflt : nat) : nat := match x with Some (a, _) => a | None => dflt end.

(* scheme < authority <= path <= query < fragment <= n, each range well-formed *)
Definition ordered (r : ref_ranges) (n : nat) : Prop :=
  wfr (r_scheme r) /\ wfr (r_authority r) /\ fst (r_path r) <= snd (r_path r) /\ wfr (r_query r) /\ wfr (r_fragment r) /\
  ends_before (r_scheme r) (ostart (r_authority r) (fst (r_path r))) /\
  ends_before (r_authority r) (fst (r_path r)) /\
  starts_after (r_query r) (snd (r_path r)) /\
  ends_before (r_query r) (ostart (r_fragment r) n) /\
  starts_after (r_fragment r) (snd (r_path r)) /\
  ends_before (r_fragment r) n /\ snd (r_path r) <= n.

Lemma expected_ordered p : ordered (expected p) (length (compose p)).
Proof.
  destruct p as [s a pa q f]. unfold ordered, expected, compose, tail_of, q_end, olen, wfr, ends_before, starts_after, ostart.
  cbn [p_scheme p_authority p_path p_query p_fragment r_scheme r_authority r_path r_query r_fragment fst snd].
  destruct s, a, q, f; cbn [option_map opt_post opt_pre]; rewrite ?app_length; cbn [length]; rewrite ?app_length; cbn [length];
    rewrite ?app_length; cbn [length]; rewrite ?app_length; cbn [length]; repeat split; lia.
Qed.

Theorem C20_reference_ranges : forall p, wf_parts p -> ordered (reference_parts (compose p) 0) (length (compose p)).
Proof. intros p W. rewrite (reference_parts_compose p W). apply expected_ordered. Qed.
Print Assumptions C20_reference_ranges.

Definition aordered (r : auth_ranges) (n : nat) : Prop :=
  wfr (a_userinfo r) /\ fst (a_host r) <= snd (a_host r) /\ wfr (a_port r) /\
  ends_before (a_userinfo r) (fst (a_host r)) /\ starts_after (a_port r) (snd (a_host r)) /\ ends_before (a_port r) n /\ snd (a_host r) <= n.

Theorem C20_authority_ranges : forall a, wf_aparts a -> aordered (authority_parts (acompose a)) (length (acompose a)).
Proof.
  intros a W. rewrite (authority_parts_compose a W). destruct a as [u h po].
  unfold aordered, aexpected, acompose, olen, wfr, ends_before, starts_after.
  cbn [ap_userinfo ap_host ap_port a_userinfo a_host a_port fst snd].
  destruct u, po; cbn [option_map opt_post opt_pre]; rewrite ?app_length; cbn [length]; rewrite ?app_length; cbn [length];
    rewrite ?app_length; cbn [length]; repeat split; lia.
Qed.
Print Assumptions C20_authority_ranges.

(* GRAMMAR LEVEL: the same for EVERY string of the RFC languages (no well-formedness hypothesis left): the ranges that the
   decomposition of any URI / IRI reference returns are well-formed, ordered, disjoint and inside the text -- for IRI
   references also on the UTF-8 BYTES the implementation scans -- and likewise for every authority of either family *)
Theorem C20_uri_reference_ranges : forall s, L (IRI_reference U U) s -> ordered (reference_parts s 0) (length s).
Proof. intros s H. destruct (uri_reference_decomposition s H) as (p & _ & -> & E & _). rewrite E. apply expected_ordered. Qed.
Print Assumptions C20_uri_reference_ranges.
Theorem C20_iri_reference_ranges : forall s, L (IRI_reference I C02Bridge.P) s -> ordered (reference_parts s 0) (length s).
Proof. intros s H. destruct (iri_reference_decomposition s H) as (p & _ & -> & E & _). rewrite E. apply expected_ordered. Qed.
Print Assumptions C20_iri_reference_ranges.
Theorem C20_iri_reference_byte_ranges : forall s, L (IRI_reference I C02Bridge.P) s -> ordered (reference_parts (utf8 s) 0) (length (utf8 s)).
Proof. intros s H. destruct (iri_reference_bytes s H) as (p & _ & _ & E0 & E & _). rewrite E, E0. apply expected_ordered. Qed.
Print Assumptions C20_iri_reference_byte_ranges.

Lemma aexpected_aordered a : aordered (aexpected a) (length (acompose a)).
Proof.
  destruct a as [u h po].
  unfold aordered, aexpected, acompose, olen, wfr, ends_before, starts_after.
  cbn [ap_userinfo ap_host ap_port a_userinfo a_host a_port fst snd].
  destruct u, po; cbn [option_map opt_post opt_pre]; rewrite ?app_length; cbn [length]; rewrite ?app_length; cbn [length];
    rewrite ?app_length; cbn [length]; repeat split; lia.
Qed.
Theorem C20_uri_authority_ranges : forall s, L (iauthority U) s -> aordered (authority_parts s) (length s).
Proof. intros s H. destruct (uri_authority_decomposition s H) as (a & _ & -> & E & _). rewrite E. apply aexpected_aordered. Qed.
Print Assumptions C20_uri_authority_ranges.
Theorem C20_iri_authority_ranges : forall s, L (iauthority I) s -> aordered (authority_parts s) (length s).
Proof. intros s H. destruct (iri_authority_decomposition s H) as (a & _ & -> & E & _). rewrite E. apply aexpected_aordered. Qed.
Print Assumptions C20_iri_authority_ranges.

(* ... and for the authority EMBEDDED in any reference: the sub-ranges handed out by reference.authority().user_info() /
   host() / port() are ordered, disjoint and inside the authority slice, itself a range of the reference (above) *)
Theorem C20_embedded_authority_ranges_URI : forall s, L (IRI_reference U U) s ->
  forall au, oslice s (r_authority (reference_parts s 0)) = Some au -> aordered (authority_parts au) (length au).
Proof.
  intros s H au Ea. destruct (embedded_uri s H) as (p & _ & (-> & E & _) & Hemb). rewrite E in Ea.
  destruct (expected_slices p) as (_ & Sa & _). rewrite Sa in Ea.
  destruct (Hemb au Ea) as (a & _ & -> & Ex & _). rewrite Ex. apply aexpected_aordered.
Qed.
Print Assumptions C20_embedded_authority_ranges_URI.
Theorem C20_embedded_authority_ranges_IRI : forall s, L (IRI_reference I C02Bridge.P) s ->
  forall au, oslice s (r_authority (reference_parts s 0)) = Some au -> aordered (authority_parts au) (length au).
Proof.
  intros s H au Ea. destruct (embedded_iri s H) as (p & _ & (-> & E & _) & Hemb). rewrite E in Ea.
  destruct (expected_slices p) as (_ & Sa & _). rewrite Sa in Ea.
  destruct (Hemb au Ea) as (a & _ & -> & Ex & _). rewrite Ex. apply aexpected_aordered.
Qed.
Print Assumptions C20_embedded_authority_ranges_IRI.
