(* L0 model of common/authority_mut.rs AS REPAIRED (G3: `end` updated in every branch) and of parse::find_port. *)
From Coq Require Import List NArith Bool Arith.
Import ListNotations.
Require Import V.Regex V.Parse V.Auth V.Splice V.Setters.
Local Open Scope nat_scope.

(* inner loop of find_port after a ':' : looks for '@'.  inl (rest, i) = found, continue 'host after it;
   inr i = reached the end *)
Fixpoint fp_inner (l : str) (i : nat) : (str * nat) + nat :=
  match l with
  | [] => inr i
  | c :: l' => if is c AT then inl (l', S i) else fp_inner l' (S i)
  end.
(* `while i < len && bytes[i] != ']' { i += 1 }` returning the suffix that starts at ']' (or []) *)
Fixpoint drop_to_rbr (l : str) (i : nat) : str * nat :=
  match l with [] => ([], i) | c :: l' => if is c RBR then (l, i) else drop_to_rbr l' (S i) end.

Fixpoint find_port_loop (fuel : nat) (l : str) (i : nat) : option range :=
  match fuel with O => None | S f =>
  match l with
  | [] => None
  | c :: l' =>
    if is c LBR then
      let '(r, j) := drop_to_rbr l i in
      match r with [] => None | _ :: r' => find_port_loop f r' (S j) end        (* i += 1 past ']' *)
    else if is c COLON then
      match fp_inner l i with
      | inl (r, j) => find_port_loop f r j                                    (* continue 'host *)
      | inr e => Some (S i, e)
      end
    else find_port_loop f l' (S i)
  end end.
Definition find_port (bytes : str) (i : nat) : option range := find_port_loop (S (length bytes)) (skipn i bytes) i.

(* ---------- the handle ---------- *)
Record handle := { h_data : str; h_start : nat; h_end : nat }.
Definition window (h : handle) : str := firstn (h_end h) (h_data h).     (* &self.data[..self.end] *)
Definition view (h : handle) : str := skipn (h_start h) (window h).      (* as_authority() *)

Definition set_userinfo (h : handle) (ui : option str) : option handle :=
  let bytes := window h in
  match ui with
  | Some new =>
    match find_user_info bytes (h_start h) with
    | Some (s, e) =>
      bind (sub_chk (h_end h + length new) (e - s)) (fun end' =>
      bind (replace (h_data h) s e new) (fun d => Some {| h_data := d; h_start := h_start h; h_end := end' |}))
    | None =>
      bind (allocate_range (h_data h) (h_start h) (h_start h) (length new + 1)) (fun d =>
      bind (copy_at d (h_start h) new) (fun d =>
      bind (set_nth d (h_start h + length new) AT) (fun d =>
      Some {| h_data := d; h_start := h_start h; h_end := h_end h + (length new + 1) |})))
    end
  | None =>
    match find_user_info bytes (h_start h) with
    | Some (s, e) =>
      bind (replace (h_data h) s (e + 1) []) (fun d =>
      bind (sub_chk (h_end h) (e - s + 1)) (fun end' => Some {| h_data := d; h_start := h_start h; h_end := end' |}))
    | None => Some h
    end
  end.

Definition set_host (h : handle) (new : str) : option handle :=
  let '(s, e) := find_host (window h) (h_start h) in
  bind (sub_chk (h_end h + length new) (e - s)) (fun end' =>
  bind (replace (h_data h) s e new) (fun d => Some {| h_data := d; h_start := h_start h; h_end := end' |})).

Definition set_port (h : handle) (p : option str) : option handle :=
  let bytes := window h in
  match p with
  | Some new =>
    match find_port bytes (h_start h) with
    | Some (s, e) =>
      bind (sub_chk (h_end h + length new) (e - s)) (fun end' =>
      bind (replace (h_data h) s e new) (fun d => Some {| h_data := d; h_start := h_start h; h_end := end' |}))
    | None =>
      bind (allocate_range (h_data h) (h_end h) (h_end h) (length new + 1)) (fun d =>
      bind (set_nth d (h_end h) COLON) (fun d =>
      bind (copy_at d (h_end h + 1) new) (fun d =>
      Some {| h_data := d; h_start := h_start h; h_end := h_end h + (length new + 1) |})))
    end
  | None =>
    match find_port bytes (h_start h) with
    | Some (s, e) =>
      bind (sub_chk s 1) (fun s' =>
      bind (replace (h_data h) s' e []) (fun d =>
      bind (sub_chk (h_end h) (e - s + 1)) (fun end' => Some {| h_data := d; h_start := h_start h; h_end := end' |})))
    | None => Some h
    end
  end.
