(* C09: the stack walk of NormalizedSegmentsImpl::new (model PathQ.nstep, on ranges) is the
   specification walk `norm` (PathSpec.step, on segment texts). *)
From Coq Require Import List NArith Bool Arith Lia.
Import ListNotations.
Require Import V.Regex V.Parse V.PathSpec V.Splice V.Setters V.Iter V.PathQ.
Local Open Scope nat_scope.

Lemma nstep_step p ab stack r :
  map (slice p) (nstep p (negb ab) stack r) = step ab (map (slice p) stack) (slice p r).
Proof.
  unfold nstep, step. destruct (is_dot (slice p r)); [reflexivity|].
  destruct (is_dotdot (slice p r)); [|reflexivity].
  destruct stack as [|t rest]; cbn [map].
  - destruct ab; reflexivity.
  - destruct (is_dotdot (slice p t)); reflexivity.
Qed.

Lemma nfold_fold p ab rs : forall stack,
  map (slice p) (fold_left (nstep p (negb ab)) rs stack) = fold_left (step ab) (map (slice p) rs) (map (slice p) stack).
Proof.
  induction rs as [|r rs IH]; intros stack; cbn [fold_left map]; [reflexivity|].
  rewrite IH, nstep_step. reflexivity.
Qed.

Theorem normalized_segments_is_norm p :
  map (slice p) (pq_normalized_segments p) = norm (is_abs p) (map (slice p) (pq_segments p)).
Proof.
  unfold pq_normalized_segments, norm. rewrite map_rev. f_equal.
  exact (nfold_fold p (is_abs p) (pq_segments p) []).
Qed.
