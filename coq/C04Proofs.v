(* C04 for the five setters: every finite sequence of setter calls with valid arguments, from any
   well-formed reference, runs without panic and ends in a well-formed reference. *)
From Coq Require Import List NArith Bool Arith Lia.
Import ListNotations.
Require Import V.Regex V.Parse V.ParseProofs V.Parse2 V.PathSpec V.Splice V.Setters V.Push V.SetPath V.SetAuth V.SetScheme
  V.Reference V.SetFragment V.C05Proofs.
Local Open Scope nat_scope.

Inductive sop :=
| OpScheme (v : option str) | OpAuthority (v : option str) | OpPath (v : str) | OpQuery (v : option str) | OpFragment (v : option str).

(* delimiter-level validity of the argument (what every valid value of the argument type satisfies) *)
Definition arg_ok (o : sop) : Prop :=
  match o with
  | OpScheme v => forall s, v = Some s -> s <> [] /\ none_of [COLON; SLASH; QM; HASH] s
  | OpAuthority v => forall a, v = Some a -> none_of [SLASH; QM; HASH] a
  | OpPath v => none_of [QM; HASH] v
  | OpQuery v => forall q, v = Some q -> none_of [HASH] q
  | OpFragment _ => True
  end.

Definition step (buf : str) (o : sop) : option str :=
  match o with
  | OpScheme v => set_scheme buf v
  | OpAuthority v => set_authority buf v
  | OpPath v => set_path buf v
  | OpQuery v => set_query buf v
  | OpFragment v => set_fragment buf v
  end.
Fixpoint run (ops : list sop) (buf : str) : option str :=
  match ops with [] => Some buf | o :: r => bind (step buf o) (run r) end.

Lemma step_wf p o : wf_parts p -> arg_ok o -> exists p', step (compose p) o = Some (compose p') /\ wf_parts p'.
Proof.
  intros W A. destruct o as [v|v|v|v|v]; simpl in *.
  - eexists; split; [apply set_scheme_spec; auto | apply set_scheme_wf; auto].
  - eexists; split; [apply set_authority_spec; auto | apply set_authority_wf; auto].
  - eexists; split; [apply set_path_spec; auto | apply set_path_wf; auto].
  - eexists; split; [apply set_query_spec; auto | apply set_query_wf; auto].
  - eexists; split; [apply set_fragment_spec; auto | apply set_fragment_wf; auto].
Qed.

Theorem run_wf ops : forall p, wf_parts p -> Forall arg_ok ops -> exists p', run ops (compose p) = Some (compose p') /\ wf_parts p'.
Proof.
  induction ops as [|o r IH]; intros p W A; simpl.
  - exists p; auto.
  - inversion A as [|? ? Ao Ar]; subst. destruct (step_wf p o W Ao) as (p1 & E & W1). rewrite E. simpl.
    apply IH; auto.
Qed.
