(* C12: the counting queries agree with the '/'-split. *)
From Coq Require Import List NArith Bool Arith.
Import ListNotations.
Require Import V.Regex V.Parse V.ParseProofs V.PathSpec V.Splice V.Setters V.Iter V.IterProofs V.IterAll V.PathQ V.C09Proofs V.C12Proofs V.Rfc.
Local Open Scope nat_scope.

Lemma split_not_nil (v : str) : split v <> [].
Proof. induction v as [|c v IH]; cbn [split]; [discriminate|]. destruct (is c SLASH); [discriminate|]. destruct (split v); [contradiction | discriminate]. Qed.

(* is_empty(): true exactly when there is no segment *)
Lemma is_empty_spec p : path_is_empty p = nil_segs (segs p).
Proof.
  destruct p as [|c [|d r]]; [reflexivity | |].
  - cbn [path_is_empty segs]. destruct (is c SLASH) eqn:E; [reflexivity|]. cbn [split]. rewrite E. reflexivity.
  - cbn [path_is_empty]. unfold segs. pose proof (split_not_nil (d :: r)) as H1. pose proof (split_not_nil (c :: d :: r)) as H2.
    destruct (is c SLASH); [destruct (split (d :: r)) | destruct (split (c :: d :: r))]; try contradiction; reflexivity.
Qed.

(* segment_count() = segments().count() *)
Lemma segment_count_spec p : none_of [QM; HASH] p -> length (pq_segments p) = length (segs p).
Proof. intros H. rewrite <- (segments_are_the_split p H). symmetry. apply map_length. Qed.

(* normalized_segments().len() *)
Lemma normalized_len_spec p : none_of [QM; HASH] p -> length (pq_normalized_segments p) = length (norm (is_abs p) (segs p)).
Proof.
  intros H. assert (E : map (slice p) (pq_normalized_segments p) = norm (is_abs p) (segs p)).
  { rewrite normalized_segments_is_norm, (segments_are_the_split p H). reflexivity. }
  rewrite <- E. symmetry. apply map_length.
Qed.
