(* C04 at the level of the RFC grammar: any finite sequence of the five setters with VALID arguments, from any
   VALID reference, returns (no panic) a text of the same RFC language. *)
From Coq Require Import List NArith Bool Arith Lia.
Import ListNotations.
Require Import V.Regex V.Bisim V.Abnf V.Parse V.ParseProofs V.Bridge V.Factor V.BridgePaths V.C02Bridge V.FactorU V.FactorI
  V.Splice V.Setters V.SetPath V.SetAuth V.SetScheme V.Reference V.SetFragment V.C05Proofs V.C04Proofs V.ValidSet V.ValidSetInst.
Local Open Scope nat_scope.
Notation P := C02Bridge.P.

Definition varg (X PX : cls) (o : sop) : Prop :=
  match o with
  | OpScheme v => oL scheme v
  | OpAuthority v => oL (iauthority X) v
  | OpPath v => L (ipath X) v
  | OpQuery v => oL (iquery X PX) v
  | OpFragment v => oL (ifragment X) v
  end.

Lemma vstep_U p o : valid_parts_U p -> varg U U o -> exists p', step (compose p) o = Some (compose p') /\ valid_parts_U p'.
Proof.
  intros V A. destruct o as [v|v|v|v|v]; cbn [step varg] in *.
  - destruct (set_scheme_valid_U p v V A) as (p' & E & V' & _). eauto.
  - destruct (set_authority_valid_U p v V A) as (p' & E & V' & _). eauto.
  - destruct (set_path_valid_U p v V A) as (p' & E & V' & _). eauto.
  - destruct (set_query_valid_U p v V A) as (p' & E & V' & _). eauto.
  - destruct (set_fragment_valid_U p v V A) as (p' & E & V' & _). eauto.
Qed.
Lemma vstep_I p o : valid_parts_I p -> varg I P o -> exists p', step (compose p) o = Some (compose p') /\ valid_parts_I p'.
Proof.
  intros V A. destruct o as [v|v|v|v|v]; cbn [step varg] in *.
  - destruct (set_scheme_valid_I p v V A) as (p' & E & V' & _). eauto.
  - destruct (set_authority_valid_I p v V A) as (p' & E & V' & _). eauto.
  - destruct (set_path_valid_I p v V A) as (p' & E & V' & _). eauto.
  - destruct (set_query_valid_I p v V A) as (p' & E & V' & _). eauto.
  - destruct (set_fragment_valid_I p v V A) as (p' & E & V' & _). eauto.
Qed.

Theorem valid_sequences_U ops : forall s, L (IRI_reference U U) s -> Forall (varg U U) ops ->
  exists s', run ops s = Some s' /\ L (IRI_reference U U) s'.
Proof.
  intros s H A. apply uri_ref_shape in H. apply REF_factor in H as (p & V & ->). revert p V.
  induction A as [|o r Ao _ IH]; intros p V; cbn [run].
  - eexists; split; [reflexivity | now apply valid_in_language_U].
  - destruct (vstep_U p o V Ao) as (p1 & E & V1). rewrite E. cbn [bind]. now apply IH.
Qed.
Theorem valid_sequences_I ops : forall s, L (IRI_reference I P) s -> Forall (varg I P) ops ->
  exists s', run ops s = Some s' /\ L (IRI_reference I P) s'.
Proof.
  intros s H A. apply iri_ref_shape in H. apply REF_factor in H as (p & V & ->). revert p V.
  induction A as [|o r Ao _ IH]; intros p V; cbn [run].
  - eexists; split; [reflexivity | now apply valid_in_language_I].
  - destruct (vstep_I p o V Ao) as (p1 & E & V1). rewrite E. cbn [bind]. now apply IH.
Qed.
