(* Property C03 -- authority accessors return user info, host and port per RFC 3986 section 3.2.
   Statements only; proofs in AuthProofs.v, AuthMutProofs.v. *)
From Coq Require Import List NArith Bool Arith.
Import ListNotations.
Require Import V.Regex V.Parse V.ParseProofs V.Auth V.AuthProofs V.Splice V.Setters V.AuthMut V.AuthMutProofs.
Local Open Scope nat_scope.

(* The all-at-once decomposition of [userinfo "@"] host [":" port] returns exactly the three ranges of
   the components it was composed from, for every authority whose parts satisfy the delimiter
   conditions wf_aparts (user info free of '@' '['; host an IP-literal "[" body "]" or free of ':' '@' '[';
   port free of '@') -- conditions every RFC-valid authority meets. *)
Theorem C03_parts : forall a, wf_aparts a -> authority_parts (acompose a) = aexpected a.
Proof. exact authority_parts_compose. Qed.
Print Assumptions C03_parts.

(* host(): the individual scanner, at any offset inside an enclosing buffer *)
Theorem C03_find_host : forall a before, wf_aparts a ->
  find_host (before ++ acompose a) (length before) =
  (length before + length (ui_part a), length before + length (ui_part a) + length (ap_host a)).
Proof. exact find_host_value. Qed.
Print Assumptions C03_find_host.

(* non-vacuity: user info with ':', IPv6 literal, port *)
Example C03_example :
  let s := [117;58;112;64;91;58;58;49;93;58;56;48]%N in   (* u:p@[::1]:80 *)
  authority_parts s = {| a_userinfo := Some (0,3); a_host := (4,9); a_port := Some (10,12) |}
  /\ find_port s 0 = Some (10,12) /\ find_user_info s 0 = Some (0,3) /\ find_host s 0 = (4,9).
Proof. vm_compute. repeat split; reflexivity. Qed.
