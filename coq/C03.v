(* Property C03 -- authority accessors return user info, host and port per RFC 3986 section 3.2.
   Statements only; proofs in AuthProofs.v, AuthMutProofs.v. *)
From Coq Require Import List NArith Bool Arith.
Import ListNotations.
Require Import V.Regex V.Parse V.ParseProofs V.Auth V.AuthProofs V.Splice V.Setters V.AuthMut V.AuthMutProofs V.AuthValues V.Abnf V.BridgePaths V.C03Bridge V.C02Bridge V.C02Proofs V.C03Embed.
Local Open Scope nat_scope.

(* The all-at-once decomposition of [userinfo "@"] host [":" port] returns exactly the three ranges of
   the components it was composed from, for every authority whose parts satisfy the delimiter
   conditions wf_aparts (user info free of '@' '['; host an IP-literal "[" body "]" or free of ':' '@' '[';
   port free of '@') -- conditions every RFC-valid authority meets. *)
Theorem C03_parts : forall a, wf_aparts a -> authority_parts (acompose a) = aexpected a.
Proof. exact authority_parts_compose. Qed.
Print Assumptions C03_parts.

(* host(): the individual scanner, at any offset inside an enclosing buffer *)
Theorem C03_find_host : forall a before, wf_aparts a ->
  find_host (before ++ acompose a) (length before) =
  (length before + length (ui_part a), length before + length (ui_part a) + length (ap_host a)).
Proof. exact find_host_value. Qed.
Print Assumptions C03_find_host.

(* user_info() and port(): the two remaining individual scanners, at any offset *)
Theorem C03_find_user_info : forall a before, wf_aparts_s a ->
  find_user_info (before ++ acompose a) (length before) =
  option_map (fun u => (length before, length before + length u)) (ap_userinfo a).
Proof. exact find_user_info_value. Qed.
Print Assumptions C03_find_user_info.
Theorem C03_find_port : forall a before, wf_aparts a ->
  find_port (before ++ acompose a) (length before) =
  option_map (fun p => (length before + length (acompose a) - length p, length before + length (acompose a))) (ap_port a).
Proof. exact find_port_value. Qed.
Print Assumptions C03_find_port.

(* the whole chain, for every string of the RFC 3986 / RFC 3987 authority language: it is
   [userinfo "@"] host [":" port] with each part in its own language, the one-pass decomposition and the
   three individual scanners return exactly the ranges of those parts (absent vs empty distinguished) *)
Theorem C03_uri_authority : forall s, L (iauthority U) s -> exists a, valid_aparts_fam U a /\ adecomposition_ok s a.
Proof. exact uri_authority_decomposition. Qed.
Print Assumptions C03_uri_authority.
Theorem C03_iri_authority : forall s, L (iauthority I) s -> exists a, valid_aparts_fam I a /\ adecomposition_ok s a.
Proof. exact iri_authority_decomposition. Qed.
Print Assumptions C03_iri_authority.

(* EMBEDDED authorities (reference.authority().host() etc.): the authority component that the reference-level
   decomposition hands out (C02) is a string of the authority language, so the chain above applies to it: for every
   URI / IRI reference that has an authority, that authority decomposes into valid parts and every authority scanner
   returns exactly their ranges *)
Theorem C03_embedded_uri : forall s, L (IRI_reference U U) s -> exists p, valid_parts_U p /\ decomposition_ok s p /\
  forall au, p_authority p = Some au -> exists a, valid_aparts_fam U a /\ adecomposition_ok au a.
Proof. exact embedded_uri. Qed.
Print Assumptions C03_embedded_uri.
Theorem C03_embedded_iri : forall s, L (IRI_reference I C02Bridge.P) s -> exists p, valid_parts_I p /\ decomposition_ok s p /\
  forall au, p_authority p = Some au -> exists a, valid_aparts_fam I a /\ adecomposition_ok au a.
Proof. exact embedded_iri. Qed.
Print Assumptions C03_embedded_iri.

(* non-vacuity: user info with ':', IPv6 literal, port *)
Example C03_example :
  let s := [117;58;112;64;91;58;58;49;93;58;56;48]%N in   (* u:p@[::1]:80 *)
  authority_parts s = {| a_userinfo := Some (0,3); a_host := (4,9); a_port := Some (10,12) |}
  /\ find_port s 0 = Some (10,12) /\ find_user_info s 0 = Some (0,3) /\ find_host s 0 = (4,9).
Proof. vm_compute. repeat split; reflexivity. Qed.
