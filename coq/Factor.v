From Coq Require Import List NArith Bool Arith Lia.
Import ListNotations.
Require Import V.Regex V.Bisim V.Abnf V.Parse V.ParseProofs V.Bridge.

Tactic Notation "use" uconstr(lem) "in" hyp(H) := let H' := fresh in pose proof (proj1 lem H) as H'; clear H; rename H' into H.

Lemma Cat_L a b s : L (Cat a b) s <-> exists s1 s2, s = s1 ++ s2 /\ L a s1 /\ L b s2.
Proof. reflexivity. Qed.
Lemma Alt_L a b s : L (Alt a b) s <-> L a s \/ L b s.
Proof. reflexivity. Qed.
Lemma Eps_L s : L Eps s <-> s = [].
Proof. reflexivity. Qed.
Lemma ch_L c s : L (ch c) s <-> s = [c].
Proof.
  unfold ch. simpl. split.
  - intros (c' & -> & H). unfold in_cls, in_rng in H. simpl in H. rewrite orb_false_r, andb_true_iff, !N.leb_le in H.
    f_equal. lia.
  - intros ->. exists c. split; auto. unfold in_cls, in_rng. simpl. rewrite !N.leb_refl. reflexivity.
Qed.
Lemma lit1_L c r s : L (Cat (ch c) r) s <-> exists t, s = c :: t /\ L r t.
Proof.
  rewrite Cat_L. split.
  - intros (a & b & -> & Ha & Hb). use (ch_L _ _) in Ha; subst. exists b; auto.
  - intros (t & -> & H). exists [c], t. repeat split; auto. now apply ch_L.
Qed.

Global Arguments L : simpl never.

(* The shape of RFC 3986 section 3 / appendix A, for arbitrary component languages. *)
Section Factor.
  Variables Rs Ra Rabempty Rabs Rrootless Rnoscheme Rq Rf : re.

  Definition TAIL : re := Cat (Alt Eps (Cat (ch QM) Rq)) (Alt Eps (Cat (ch HASH) Rf)).
  Definition AUTHP : re := Cat (ch SLASH) (Cat (ch SLASH) (Cat Ra Rabempty)).
  Definition HIER : re := Alt AUTHP (Alt Rabs (Alt Rrootless Eps)).
  Definition RELP : re := Alt AUTHP (Alt Rabs (Alt Rnoscheme Eps)).
  Definition ABS_raw : re := Cat Rs (Cat (ch COLON) (Cat HIER TAIL)).
  Definition REF_raw : re := Alt ABS_raw (Cat RELP TAIL).

  Definition oL (r : re) (o : option str) : Prop := match o with Some s => L r s | None => True end.
  Definition path_ok (p : parts) : Prop :=
    match p_authority p, p_scheme p with
    | Some _, _ => L Rabempty (p_path p)
    | None, Some _ => L Rabs (p_path p) \/ L Rrootless (p_path p) \/ p_path p = []
    | None, None => L Rabs (p_path p) \/ L Rnoscheme (p_path p) \/ p_path p = []
    end.
  Definition valid_parts (p : parts) : Prop :=
    oL Rs (p_scheme p) /\ oL Ra (p_authority p) /\ path_ok p /\ oL Rq (p_query p) /\ oL Rf (p_fragment p).

  Lemma TAIL_L t : L TAIL t <-> exists q f, oL Rq q /\ oL Rf f /\ t = opt_pre [QM] q ++ opt_pre [HASH] f.
  Proof.
    unfold TAIL. rewrite Cat_L. split.
    - intros (t1 & t2 & -> & H1 & H2). rewrite Alt_L, Eps_L, lit1_L in H1, H2.
      destruct H1 as [->|(q & -> & Hq)], H2 as [->|(f & -> & Hf)].
      + exists None, None. simpl; auto.
      + exists None, (Some f). simpl; auto.
      + exists (Some q), None. simpl; auto.
      + exists (Some q), (Some f). simpl; auto.
    - intros (q & f & Hq & Hf & ->). exists (opt_pre [QM] q), (opt_pre [HASH] f). split; auto.
      rewrite !Alt_L, !Eps_L, !lit1_L. split.
      + destruct q; simpl; eauto.
      + destruct f; simpl; eauto.
  Qed.

  Lemma AUTHP_L s : L AUTHP s <-> exists a p, s = SLASH :: SLASH :: a ++ p /\ L Ra a /\ L Rabempty p.
  Proof.
    unfold AUTHP. rewrite lit1_L. split.
    - intros (t & -> & H). use (lit1_L _ _ _) in H; destruct H as (t' & -> & H). use (Cat_L _ _ _) in H; destruct H as (a & p & -> & Ha & Hp). eauto.
    - intros (a & p & -> & Ha & Hp). eexists; split; [reflexivity|]. apply lit1_L. eexists; split; [reflexivity|].
      apply Cat_L. eauto.
  Qed.

  Theorem REF_factor s : L REF_raw s <-> exists p, valid_parts p /\ s = compose p.
  Proof.
    unfold REF_raw, ABS_raw. rewrite Alt_L. split.
    - intros [H | H]; use (Cat_L _ _ _) in H; [destruct H as (sch & rest & -> & Hs & Hrest) | destruct H as (rp & t & -> & Hrp & Ht)].
      + use (lit1_L _ _ _) in Hrest; destruct Hrest as (rest' & -> & Hrest). use (Cat_L _ _ _) in Hrest; destruct Hrest as (h & t & -> & Hh & Ht).
        use (TAIL_L _) in Ht; destruct Ht as (q & f & Hq & Hf & ->).
        unfold HIER in Hh. rewrite !Alt_L, Eps_L, AUTHP_L in Hh.
        destruct Hh as [(a & p & -> & Ha & Hp) | Hp].
        * exists {| p_scheme := Some sch; p_authority := Some a; p_path := p; p_query := q; p_fragment := f |}.
          split; [repeat split; auto|]. unfold compose, tail_of. simpl. rewrite <- !app_assoc. reflexivity.
        * exists {| p_scheme := Some sch; p_authority := None; p_path := h; p_query := q; p_fragment := f |}.
          split; [repeat split; auto|]. unfold compose, tail_of. simpl. rewrite <- !app_assoc. reflexivity.
      + use (TAIL_L _) in Ht; destruct Ht as (q & f & Hq & Hf & ->).
        unfold RELP in Hrp. rewrite !Alt_L, Eps_L, AUTHP_L in Hrp.
        destruct Hrp as [(a & p & -> & Ha & Hp) | Hp].
        * exists {| p_scheme := None; p_authority := Some a; p_path := p; p_query := q; p_fragment := f |}.
          split; [repeat split; auto|]. unfold compose, tail_of. simpl. rewrite <- !app_assoc. reflexivity.
        * exists {| p_scheme := None; p_authority := None; p_path := rp; p_query := q; p_fragment := f |}.
          split; [repeat split; auto|]. unfold compose, tail_of. simpl. reflexivity.
    - intros ([sch auth path q f] & (Hs & Ha & Hp & Hq & Hf) & ->). unfold compose, tail_of; simpl in *.
      assert (Ht : L TAIL (opt_pre [QM] q ++ opt_pre [HASH] f)) by (apply TAIL_L; eauto).
      destruct sch as [sch|]; simpl.
      + left. apply Cat_L. exists sch, (COLON :: opt_pre [SLASH; SLASH] auth ++ path ++ opt_pre [QM] q ++ opt_pre [HASH] f).
        split; [rewrite <- app_assoc; reflexivity|]. split; auto.
        apply lit1_L. eexists; split; [reflexivity|]. apply Cat_L.
        exists (opt_pre [SLASH; SLASH] auth ++ path), (opt_pre [QM] q ++ opt_pre [HASH] f).
        split; [rewrite <- app_assoc; reflexivity|]. split; auto.
        unfold HIER. rewrite !Alt_L, Eps_L, AUTHP_L. unfold path_ok in Hp; simpl in Hp.
        destruct auth as [a|]; simpl.
        * left. exists a, path. auto.
        * right. tauto.
      + right. apply Cat_L. exists (opt_pre [SLASH; SLASH] auth ++ path), (opt_pre [QM] q ++ opt_pre [HASH] f).
        split; [rewrite <- app_assoc; reflexivity|]. split; auto.
        unfold RELP. rewrite !Alt_L, Eps_L, AUTHP_L. unfold path_ok in Hp; simpl in Hp.
        destruct auth as [a|]; simpl.
        * left. exists a, path. auto.
        * right. tauto.
  Qed.
  Theorem ABS_factor s : L ABS_raw s <-> exists p sch, valid_parts p /\ p_scheme p = Some sch /\ s = compose p.
  Proof.
    unfold ABS_raw. split.
    - intros H. use (Cat_L _ _ _) in H. destruct H as (sch & rest & -> & Hs & Hrest).
      use (lit1_L _ _ _) in Hrest; destruct Hrest as (rest' & -> & Hrest). use (Cat_L _ _ _) in Hrest; destruct Hrest as (h & t & -> & Hh & Ht).
      use (TAIL_L _) in Ht; destruct Ht as (q & f & Hq & Hf & ->).
      unfold HIER in Hh. rewrite !Alt_L, Eps_L, AUTHP_L in Hh.
      destruct Hh as [(a & p & -> & Ha & Hp) | Hp].
      + exists {| p_scheme := Some sch; p_authority := Some a; p_path := p; p_query := q; p_fragment := f |}, sch.
        split; [repeat split; auto|]. split; [reflexivity|]. unfold compose, tail_of. simpl. rewrite <- !app_assoc. reflexivity.
      + exists {| p_scheme := Some sch; p_authority := None; p_path := h; p_query := q; p_fragment := f |}, sch.
        split; [repeat split; auto|]. split; [reflexivity|]. unfold compose, tail_of. simpl. rewrite <- !app_assoc. reflexivity.
    - intros ([sch0 auth path q f] & sch & (Hs & Ha & Hp & Hq & Hf) & E & ->). simpl in E. subst sch0. unfold compose, tail_of; simpl in *.
      assert (Ht : L TAIL (opt_pre [QM] q ++ opt_pre [HASH] f)) by (apply TAIL_L; eauto).
      apply Cat_L. exists sch, (COLON :: opt_pre [SLASH; SLASH] auth ++ path ++ opt_pre [QM] q ++ opt_pre [HASH] f).
      split; [rewrite <- app_assoc; reflexivity|]. split; auto.
      apply lit1_L. eexists; split; [reflexivity|]. apply Cat_L.
      exists (opt_pre [SLASH; SLASH] auth ++ path), (opt_pre [QM] q ++ opt_pre [HASH] f).
      split; [rewrite <- app_assoc; reflexivity|]. split; auto.
      unfold HIER. rewrite !Alt_L, Eps_L, AUTHP_L. unfold path_ok in Hp; simpl in Hp.
      destruct auth as [a|]; simpl.
      + left. exists a, path. auto.
      + right. tauto.
  Qed.
End Factor.
Print Assumptions REF_factor.
Print Assumptions ABS_factor.
