(* C06/C09: the in-place normalisation of a path handle (PathMutImpl::normalize) and the wrapper
   RiRefBufImpl::remove_dot_segments refine text-level functions built from the specification walk `norm`;
   then the relation of that text-level function with RFC 3986 5.2.4 (Rfc.rds). *)
From Coq Require Import List NArith Bool Arith Lia.
Import ListNotations.
Require Import V.Regex V.Parse V.ParseProofs V.Parse2 V.Parse2Proofs V.ScanValues V.PathSpec V.Splice V.Setters V.Iter V.IterProofs V.IterAll V.PathQ V.Push V.PathMut V.SetPath V.SetAuth V.SetScheme V.C05Proofs
  V.PathMutProofs V.C09Proofs V.C12Proofs V.PushWf V.RefPath V.Reference V.GetProofs V.Rfc.
Local Open Scope nat_scope.

Lemma join_slash_join l : join_slash l = join l.
Proof. induction l as [|s [|t r] IH]; [reflexivity | reflexivity |]. cbn [join_slash join] in *. rewrite IH. reflexivity. Qed.

(* ---------- PathMutImpl::normalize at text level ---------- *)
Definition shield_of (start0 fa ab : bool) (buffer : str) : bool :=
  match buffer with
  | c :: _ => if is c SLASH then negb ab || negb fa else negb ab && start0 && colon_first buffer
  | [] => false
  end.
Definition normalize1 (start0 fa : bool) (v : str) : str :=
  let buffer := join (norm (is_abs v) (segs v)) in
  clear1 v ++ (if shield_of start0 fa (is_abs v) buffer then DOT :: SLASH :: buffer else buffer).

Theorem pm_normalize_refines h before v after : PInv h before v after -> none_of [QM; HASH] v ->
  exists h', pm_normalize h = Some h' /\ PInv h' before (normalize1 (pm_start h =? 0) (pm_fa h) v) after /\ pm_fa h' = pm_fa h /\ pm_start h' = pm_start h.
Proof.
  intros I Hqh. pose proof I as (Hb & Hs & He). unfold pm_normalize. rewrite (pm_view_inv h before v after I). cbn [bind].
  rewrite join_slash_join, normalized_segments_is_norm, (segments_are_the_split v Hqh).
  set (buffer := join (norm (is_abs v) (segs v))).
  set (sh := match buffer with c :: _ => if is c SLASH then negb (is_abs v) || negb (pm_fa h) else negb (is_abs v) && (pm_start h =? 0) && colon_first buffer | [] => false end).
  assert (Esh : sh = shield_of (pm_start h =? 0) (pm_fa h) (is_abs v) buffer) by reflexivity.
  set (content := if sh then DOT :: SLASH :: buffer else buffer).
  assert (Hc : v = clear1 v ++ skipn (length (clear1 v)) v).
  { unfold clear1. destruct v as [|c r]; [reflexivity|]. cbn [is_abs]. destruct (is c SLASH) eqn:E; [|reflexivity]. apply is_true in E. subst. reflexivity. }
  assert (Hfso : fso h v = length before + length (clear1 v)) by (unfold fso, clear1; rewrite Hs; destruct (is_abs v); cbn [length]; lia).
  set (w := skipn (length (clear1 v)) v) in *.
  assert (Hbuf : before ++ v ++ after = (before ++ clear1 v) ++ w ++ after).
  { transitivity (before ++ (clear1 v ++ w) ++ after); [rewrite <- Hc; reflexivity | rewrite <- !app_assoc; reflexivity]. }
  assert (Hlen : length v = length (clear1 v) + length w) by (rewrite Hc at 1; apply app_length).
  rewrite Hfso, Hb, He, Hbuf, Hlen.
  replace (length before + length (clear1 v)) with (length (before ++ clear1 v)) by lens.
  replace (length before + (length (clear1 v) + length w)) with (length (before ++ clear1 v) + length w) by lens.
  rewrite replace_spec. cbn [bind]. eexists; split; [reflexivity|]. unfold PInv, with_buf; cbn [pm_buf pm_start pm_end pm_fa].
  unfold normalize1. fold buffer. rewrite <- Esh. fold content.
  repeat split; auto.
  - rewrite <- !app_assoc. reflexivity.
  - lens.
Qed.

(* ---------- the last segment, by the backward iterator (C12) ---------- *)
Definition last_opt {A} (l : list A) : option A := match rev l with x :: _ => Some x | [] => None end.

Lemma file_or_last_raw_spec p : none_of [QM; HASH] p -> pq_file_or_last_raw p = Some (last_opt (segs p)).
Proof.
  intros H. unfold pq_file_or_last_raw. destruct (path_is_empty p) eqn:E.
  - unfold segments. rewrite E. cbn [it_next_back].
    destruct p as [|c [|d r]]; try discriminate; [reflexivity|]. simpl in E. unfold segs. rewrite E. reflexivity.
  - set (pfx := if is_abs p then [SLASH] else @nil N).
    assert (Hp : p = P pfx (segs p)). { unfold P, pfx. pose proof (render_segs p) as R. unfold render in R. now rewrite R. }
    assert (Hl : segs p <> []).
    { unfold segs. destruct p as [|c r]; [discriminate|]. destruct (is c SLASH) eqn:Ec.
      - destruct r; [simpl in E; rewrite Ec in E; discriminate | apply split_nonempty].
      - apply split_nonempty. }
    assert (Hpfx : pfx = [] \/ pfx = [SLASH]) by (unfold pfx; destruct (is_abs p); auto).
    assert (Hfirst : first_off (P pfx (segs p)) = length pfx) by (rewrite <- Hp; unfold first_off, pfx; destruct (is_abs p); reflexivity).
    assert (Hne : path_is_empty (P pfx (segs p)) = false) by (rewrite <- Hp; exact E).
    destruct (interleave_from_start pfx (segs p) Hpfx Hl (segs_seg_ok p H) Hfirst Hne [false]) as (st & Er).
    cbn [run] in Er. rewrite <- Hp in Er.
    revert Er. destruct (it_next_back p (segments p)) as [[r st']|]; intros Er; [|discriminate].
    injection Er as Er _. cbn [expect] in Er.
    unfold seg in *.
    assert (Hlen : 0 < length (segs p)) by (destruct (segs p) as [|x0 r0]; [exfalso; apply Hl; reflexivity | cbn [length]; lia]).
    assert (Et : (0 <? @length str (segs p)) = true) by (apply Nat.ltb_lt; exact Hlen). rewrite Et in Er.
    injection Er as ->. f_equal. f_equal.
    rewrite Hp at 1. rewrite (slice_rng pfx (segs p) Hfirst) by (unfold seg in *; lia).
    unfold last_opt. destruct (last_case (segs p)) as [E0|(l' & x & E0)]; [exfalso; apply Hl; exact E0|].
    rewrite E0, rev_app_distr, app_length. cbn [rev app length].
    replace (length l' + 1 - 0 - 1) with (length l') by lia. rewrite app_nth2, Nat.sub_diag by lia. reflexivity.
Qed.

Lemma last_opt_dot l : match last_opt l with Some s => is_dot s || is_dotdot s | None => false end = last_is_dot l.
Proof. unfold last_opt, last_is_dot. destruct (rev l); reflexivity. Qed.

(* ---------- RiRefBufImpl::remove_dot_segments at text level ---------- *)
Definition rds_impl (start0 fa : bool) (v : str) : str :=
  let v' := normalize1 start0 fa v in
  if last_is_dot (segs v) && negb (path_is_empty v') then push start0 fa v' [] else v'.

Theorem remove_dot_segments_spec p : wf_parts p ->
  remove_dot_segments (compose p) =
  Some (compose (with_path p (rds_impl (negb (has (p_scheme p)) && negb (has (p_authority p))) (has (p_authority p)) (p_path p)))).
Proof.
  intros W. unfold remove_dot_segments. rewrite (get_path_compose p W).
  rewrite (file_or_last_raw_spec _ (wf_path p W)). cbn [bind]. rewrite last_opt_dot.
  destruct (path_mut_inv p W) as (I & Hfa & Hst).
  destruct (pm_normalize_refines _ _ _ _ I (wf_path p W)) as (h' & E & I' & Hfa' & Hst').
  rewrite E. cbn [bind]. rewrite (pm_view_inv _ _ _ _ I'). cbn [bind].
  rewrite Hfa, Hst, pre_len0' in I' |- *. unfold rds_impl.
  set (v' := normalize1 (negb (has (p_scheme p)) && negb (has (p_authority p))) (has (p_authority p)) (p_path p)) in *.
  destruct (last_is_dot (segs (p_path p)) && negb (path_is_empty v')).
  - destruct (pm_push_refines _ _ _ _ [] I') as (h2 & E2 & (Hb2 & _ & _) & _ & _).
    rewrite E2. cbn [option_map]. rewrite Hb2, Hfa', Hst', Hfa, Hst, pre_len0', compose_with_path. reflexivity.
  - destruct I' as (Hb' & _ & _). rewrite Hb', compose_with_path. reflexivity.
Qed.

(* ---------- relation with RFC 3986 5.2.4 (Rfc.rds) ---------- *)
Lemma step_sub ab stack s x : In x (step ab stack s) -> x = s \/ In x stack.
Proof.
  unfold step. destruct (is_dot s); [auto|]. destruct (is_dotdot s).
  - destruct stack as [|top rest].
    + destruct ab; simpl; [tauto | intros [<-|[]]; auto].
    + destruct (is_dotdot top); simpl; intros H; [destruct H as [<-|H]; auto | auto].
  - simpl. intros [<-|H]; auto.
Qed.
Lemma fold_sub ab l : forall stack x, In x (fold_left (step ab) l stack) -> In x l \/ In x stack.
Proof.
  induction l as [|s l IH]; intros stack x H; cbn [fold_left] in H; [auto|].
  destruct (IH _ _ H) as [H1|H1]; [left; right; exact H1|]. destruct (step_sub _ _ _ _ H1) as [->|H2]; [left; left; reflexivity | auto].
Qed.
Lemma norm_sub ab l x : In x (norm ab l) -> In x l.
Proof. unfold norm. rewrite <- in_rev. intros H. destruct (fold_sub _ _ _ _ H) as [H1|[]]; exact H1. Qed.

Lemma all_dotdot_in ups x : all_dotdot ups -> In x ups -> is_dotdot x = true.
Proof. induction ups as [|u ups IH]; simpl; [tauto|]. intros [H1 H2] [<-|H]; auto. Qed.
Lemma plain_in rest x : plain rest -> In x rest -> is_dot x = false.
Proof. induction rest as [|u r IH]; simpl; [tauto|]. intros (H1 & H2 & H3) [<-|H]; auto. Qed.
Lemma normal_no_dot ab n : normal ab n -> ~ In [DOT] n.
Proof.
  intros (ups & rest & -> & Hu & Hp & _) H. apply in_app_or in H as [H|H].
  - apply (all_dotdot_in _ _ Hu) in H. discriminate.
  - apply (plain_in _ _ Hp) in H. unfold is_dot, is, DOT in H. rewrite N.eqb_refl in H. discriminate.
Qed.

Lemma segs_noslash v : Forall noslash (segs v).
Proof.
  unfold segs. destruct v as [|c r]; [constructor|]. destruct (is c SLASH); [destruct r; [constructor | apply split_all_noslash] | apply split_all_noslash].
Qed.
Lemma norm_noslash ab l : Forall noslash l -> Forall noslash (norm ab l).
Proof. intros H. apply Forall_forall. intros x Hx. apply norm_sub in Hx. rewrite Forall_forall in H. auto. Qed.

Definition starts_slash (s : str) : bool := match s with c :: _ => is c SLASH | [] => false end.
Definition head_empty2 (n : list seg) : bool := match n with [] :: _ :: _ => true | _ => false end.
Lemma join_head n : Forall noslash n -> starts_slash (join n) = head_empty2 n.
Proof.
  intros H. destruct n as [|[|c s] [|t r]]; try reflexivity.
  - cbn [join starts_slash head_empty2]. inversion H as [|? ? Hs _]; subst. inversion Hs; subst. now apply is_false.
  - cbn [join starts_slash head_empty2 app]. inversion H as [|? ? Hs _]; subst. inversion Hs; subst. now apply is_false.
Qed.
Lemma join_nil n : join n = [] -> n = [] \/ n = [[]].
Proof.
  destruct n as [|[|c s] [|t r]]; auto; cbn [join app]; discriminate.
Qed.
Lemma join_snoc_empty n : n <> [] -> join (n ++ [[]]) = join n ++ [SLASH].
Proof.
  induction n as [|s n IH]; [tauto|]. intros _. destruct n as [|t r].
  - cbn [app join]. reflexivity.
  - change ((s :: t :: r) ++ [[]]) with (s :: (t :: r) ++ [[]]). 
    change (join (s :: (t :: r) ++ [[]])) with (s ++ SLASH :: join ((t :: r) ++ [[]])).
    rewrite IH by discriminate. change (join (s :: t :: r)) with (s ++ SLASH :: join (t :: r)).
    rewrite <- app_assoc. reflexivity.
Qed.

(* a rendered dot-free segment list does not end with "/./" *)
Lemma join_ends_dotslash n q : n <> [] -> Forall noslash n -> join n = q ++ [SLASH; DOT; SLASH] -> In [DOT] n.
Proof.
  intros Hn Hs E. rewrite <- (split_join n Hn Hs), E.
  change (q ++ [SLASH; DOT; SLASH]) with (q ++ SLASH :: [DOT; SLASH]). rewrite split_app.
  apply in_or_app. right. unfold split. unfold is, DOT, SLASH. simpl. left. reflexivity.
Qed.
Lemma render_ends_dotslash ab n : n <> [] -> Forall noslash n -> ~ In [DOT] n -> ends_dotslash (render ab n) = false.
Proof.
  intros Hn Hs Hd. destruct (ends_dotslash (render ab n)) eqn:E; [|reflexivity]. exfalso.
  apply ends_dotslash_inv in E as (q & E). unfold render in E. destruct ab; cbn [app] in E.
  - destruct q as [|c q].
    + cbn [app] in E. injection E as E. apply Hd. rewrite <- (split_join n Hn Hs), E. unfold split, is, DOT, SLASH. simpl. left. reflexivity.
    + cbn [app] in E. injection E as _ E. apply Hd. now apply (join_ends_dotslash n q).
  - apply Hd. now apply (join_ends_dotslash n q).
Qed.

Section Rds.
  Variable fa : bool.
  Variable v : str.
  Local Notation ab := (is_abs v).
  Local Notation l := (segs v).
  Local Notation n := (norm (is_abs v) (segs v)).
  (* the two situations in which the code departs from 5.2.4 (both are instances of the recorded class K_R2) *)
  Hypothesis HA : head_empty2 n = true -> ab = true /\ fa = true.
  Hypothesis HB : ~ (last_is_dot l = true /\ n = [[]]).

  Lemma n_noslash : Forall noslash n. Proof. apply norm_noslash, segs_noslash. Qed.
  Lemma n_no_dot : ~ In [DOT] n. Proof. apply (normal_no_dot ab), norm_normal. Qed.

  Lemma no_shield : shield_of false fa ab (join n) = false.
  Proof.
    pose proof (join_head n n_noslash) as Hh. unfold shield_of. destruct (join n) as [|c r] eqn:E; [reflexivity|].
    cbn [starts_slash] in Hh. destruct (is c SLASH).
    - destruct (HA (eq_sym Hh)) as [-> ->]. reflexivity.
    - rewrite andb_false_r. reflexivity.
  Qed.
  Lemma normalize1_render : normalize1 false fa v = render ab n.
  Proof. unfold normalize1. rewrite no_shield. reflexivity. Qed.

  Theorem rds_impl_is_rds : rds_impl false fa v = rds v.
  Proof.
    unfold rds_impl, rds, rds_segs. rewrite normalize1_render.
    destruct (last_is_dot l) eqn:Hd; cbn [andb]; [|reflexivity].
    assert (Hcase : n = [] \/ n <> []) by (destruct n; [left; reflexivity | right; discriminate]).
    destruct Hcase as [En|Hn].
    - rewrite En. cbn [nil_segs negb andb]. unfold render. cbn [join]. rewrite app_nil_r. destruct ab; reflexivity.
    - assert (Hns : nil_segs n = false) by (destruct n; [contradiction | reflexivity]). rewrite Hns. cbn [negb].
      assert (Hj : join n <> []).
      { intros Hj. destruct (join_nil n Hj) as [H|H]; [contradiction | apply HB; auto]. }
      assert (Hne : path_is_empty (render ab n) = false).
      { pose proof (join_head n n_noslash) as Hh. unfold render. destruct (join n) as [|c r] eqn:Ej; [contradiction|].
        cbn [starts_slash] in Hh. destruct ab eqn:Eab; cbn [app path_is_empty]; [reflexivity|].
        destruct r; [|reflexivity]. destruct (is c SLASH) eqn:Ec; [|reflexivity]. exfalso.
        destruct (HA (eq_sym Hh)) as [H _]. discriminate. }
      rewrite Hne. cbn [negb]. unfold push.
      assert (Hnil : is_nil (render ab n) = false) by (destruct (render ab n); [discriminate | reflexivity]).
      rewrite Hnil, andb_false_r, Hne. cbn [andb].
      rewrite (render_ends_dotslash ab n Hn n_noslash n_no_dot), andb_false_r.
      unfold render. rewrite <- app_assoc. f_equal. symmetry. exact (join_snoc_empty n Hn).
  Qed.
End Rds.

(* a simple sufficient condition: no empty segment except possibly the last one *)
Definition no_inner_empty (l : list seg) : Prop := forall l' x, l = l' ++ [x] -> ~ In [] l'.

Lemma norm_snoc ab l' x : norm ab (l' ++ [x]) = rev (step ab (fold_left (step ab) l' []) x).
Proof. unfold norm. rewrite fold_left_app. reflexivity. Qed.

Lemma no_inner_A ab l : no_inner_empty l -> head_empty2 (norm ab l) = true -> False.
Proof.
  intros H Hh. destruct (last_case l) as [->|(l' & x & ->)]; [discriminate|].
  specialize (H l' x eq_refl). rewrite norm_snoc in Hh.
  set (st := fold_left (step ab) l' []) in *.
  assert (Hst : ~ In [] st). { intros Hi. destruct (fold_sub ab l' [] [] Hi) as [H1|[]]. contradiction. }
  destruct x as [|c x'].
  - change (step ab st []) with ([] :: st) in Hh. cbn [rev] in Hh.
    revert Hh. destruct (rev st) as [|y r] eqn:Er; intros Hh; [discriminate|]. destruct y; [|discriminate].
    apply Hst. assert (Hi : In [] (rev st)) by (rewrite Er; left; reflexivity). apply in_rev in Hi. exact Hi.
  - revert Hh. destruct (rev (step ab st (c :: x'))) as [|y r] eqn:Er; intros Hh; [discriminate|]. destruct y; [|discriminate].
    assert (Hi : In [] (rev (step ab st (c :: x')))) by (rewrite Er; left; reflexivity). apply in_rev in Hi.
    destruct (step_sub _ _ _ _ Hi) as [H1|H1]; [discriminate | contradiction].
Qed.
Lemma no_inner_B ab l : no_inner_empty l -> ~ (last_is_dot l = true /\ norm ab l = [[]]).
Proof.
  intros H [Hd Hn]. destruct (last_case l) as [->|(l' & x & ->)]; [discriminate|].
  specialize (H l' x eq_refl). unfold last_is_dot in Hd. rewrite rev_app_distr in Hd. cbn [rev app] in Hd.
  assert (Hi : In [] (norm ab (l' ++ [x]))) by (rewrite Hn; left; reflexivity).
  apply norm_sub in Hi. apply in_app_or in Hi as [Hi|[->|[]]]; [contradiction | discriminate].
Qed.
Theorem rds_impl_is_rds_simple fa v : no_inner_empty (segs v) -> rds_impl false fa v = rds v.
Proof.
  intros H. apply rds_impl_is_rds.
  - intros Hh. exfalso. exact (no_inner_A _ _ H Hh).
  - apply no_inner_B, H.
Qed.

(* the exact condition under which the code's dot-segment removal coincides with 5.2.4 *)
Definition rds_exact (fa : bool) (v : str) : Prop :=
  (head_empty2 (norm (is_abs v) (segs v)) = true -> is_abs v = true /\ fa = true) /\
  ~ (last_is_dot (segs v) = true /\ norm (is_abs v) (segs v) = [[]]).
Lemma rds_exact_simple fa v : no_inner_empty (segs v) -> rds_exact fa v.
Proof. intros H. split; [intros Hh; exfalso; exact (no_inner_A _ _ H Hh) | apply no_inner_B, H]. Qed.
Theorem rds_impl_exact fa v : rds_exact fa v -> rds_impl false fa v = rds v.
Proof. intros [HA HB]. now apply rds_impl_is_rds. Qed.

(* ---------- C09: what the in-place normalisation writes ---------- *)
Definition shield_segs (start0 fa : bool) (v : str) : list seg :=
  if shield_of start0 fa (is_abs v) (join (norm (is_abs v) (segs v))) then [[DOT]] else [].
Theorem normalize1_is_render start0 fa v :
  normalize1 start0 fa v = render (is_abs v) (shield_segs start0 fa v ++ norm (is_abs v) (segs v)).
Proof.
  unfold normalize1, shield_segs, render, clear1.
  destruct (shield_of start0 fa (is_abs v) (join (norm (is_abs v) (segs v)))) eqn:E; [|reflexivity].
  f_equal. destruct (norm (is_abs v) (segs v)) as [|s r]; [discriminate E | reflexivity].
Qed.
Theorem normalize1_abs start0 fa v : is_abs (normalize1 start0 fa v) = is_abs v.
Proof.
  unfold normalize1, clear1. destruct (is_abs v) eqn:E; [cbn [app is_abs]; unfold is; apply N.eqb_refl|].
  cbn [app]. pose proof (join_head _ (norm_noslash false _ (segs_noslash v))) as Hh.
  unfold shield_of. destruct (join (norm false (segs v))) as [|c r]; [reflexivity|].
  cbn [starts_slash] in Hh. destruct (is c SLASH) eqn:Ec.
  - cbn [negb orb]. cbn [is_abs]. reflexivity.
  - cbn [negb andb]. destruct (start0 && colon_first (c :: r)); cbn [is_abs]; [reflexivity | exact Ec].
Qed.

(* ---------- C04: in-place normalisation keeps the path well-formed in its context ---------- *)
Lemma none_of_join D l : ~ In SLASH D -> Forall (none_of D) l -> none_of D (join l).
Proof.
  intros HS H. induction H as [|s l Hs Hl IH]; [constructor|]. destruct l as [|t r]; [exact Hs|].
  change (join (s :: t :: r)) with (s ++ SLASH :: join (t :: r)). apply Forall_app. split; [exact Hs|]. constructor; [exact HS | exact IH].
Qed.
Lemma segs_none_of D v : none_of D v -> Forall (none_of D) (segs v).
Proof.
  intros H. unfold segs. destruct v as [|c r]; [constructor|]. destruct (is c SLASH).
  - destruct r; [constructor|]. apply split_forall. now inversion H.
  - now apply split_forall.
Qed.
Lemma norm_none_of D ab l : Forall (none_of D) l -> Forall (none_of D) (norm ab l).
Proof. intros H. apply Forall_forall. intros x Hx. apply norm_sub in Hx. rewrite Forall_forall in H. auto. Qed.

Theorem normalize1_wf hs ha v : wf_path_in hs ha v -> wf_path_in hs ha (normalize1 (negb hs && negb ha) ha v).
Proof.
  intros [W1 W2 W3 W4].
  assert (Hsl : ~ In SLASH [QM; HASH]) by (simpl; unfold SLASH, QM, HASH; intros [E|[E|[]]]; discriminate).
  assert (Hdt : ~ In DOT [QM; HASH]) by (simpl; unfold DOT, QM, HASH; intros [E|[E|[]]]; discriminate).
  pose proof (join_head _ (norm_noslash (is_abs v) _ (segs_noslash v))) as Hh.
  assert (HJ : none_of [QM; HASH] (join (norm (is_abs v) (segs v)))) by (apply none_of_join; [exact Hsl | apply norm_none_of, segs_none_of, W1]).
  unfold normalize1. set (J := join (norm (is_abs v) (segs v))) in *. unfold shield_of.
  constructor.
  - apply Forall_app. split; [unfold clear1; destruct (is_abs v); repeat constructor; exact Hsl|].
    destruct J as [|c r]; [constructor|]. destruct (if is c SLASH then _ else _); [constructor; [exact Hdt | constructor; [exact Hsl | exact HJ]] | exact HJ].
  - intros E. destruct (W2 E) as [->|(t & ->)]; [left; reflexivity | right].
    unfold clear1. cbn [is_abs]. change (is SLASH SLASH) with true. cbn [app]. eauto.
  - intros E t. subst ha. unfold clear1. destruct (is_abs v) eqn:Ea; cbn [app negb orb andb].
    + destruct J as [|c r]; [discriminate|]. cbn [starts_slash] in Hh. destruct (is c SLASH) eqn:Ec.
      * unfold DOT, SLASH. intros Ht. injection Ht as Ht _. discriminate.
      * intros Ht. injection Ht as Ht _. subst c. discriminate Ec.
    + destruct J as [|c r]; [discriminate|]. cbn [starts_slash] in Hh. destruct (is c SLASH) eqn:Ec.
      * unfold DOT, SLASH. intros Ht. injection Ht as Ht _. discriminate.
      * destruct (negb hs && true && colon_first (c :: r)); [unfold DOT, SLASH; intros Ht; injection Ht as Ht _; discriminate|].
        intros Ht. injection Ht as Ht _. subst c. discriminate Ec.
  - intros E1 E2. subst hs ha. unfold clear1. destruct (is_abs v) eqn:Ea; cbn [app negb orb andb].
    + cbn [nocolon_first]. change (is SLASH SLASH) with true. reflexivity.
    + destruct J as [|c r] eqn:EJ; [reflexivity|]. cbn [starts_slash] in Hh. destruct (is c SLASH) eqn:Ec.
      * reflexivity.
      * destruct (colon_first (c :: r)) eqn:Ecf; [reflexivity|]. rewrite nocolon_is_not_colon, Ecf. reflexivity.
Qed.

Theorem rds_impl_wf hs ha v : wf_path_in hs ha v -> wf_path_in hs ha (rds_impl (negb hs && negb ha) ha v).
Proof.
  intros W. unfold rds_impl. pose proof (normalize1_wf hs ha v W) as Wn.
  destruct (last_is_dot (segs v) && negb (path_is_empty (normalize1 (negb hs && negb ha) ha v))); [|exact Wn].
  apply push_wf; [exact Wn | constructor | constructor].
Qed.
Theorem remove_dot_segments_wf p : wf_parts p ->
  wf_parts (with_path p (rds_impl (negb (has (p_scheme p)) && negb (has (p_authority p))) (has (p_authority p)) (p_path p))).
Proof. intros W. apply with_path_wf; [exact W|]. apply rds_impl_wf. now apply wf_parts_path. Qed.
