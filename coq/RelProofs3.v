(* C15, the two shapes in which relative_to writes a "./" shield (a's path continues below b's directory with an empty
   segment or with a segment whose first part contains ':'): the reference is "./" ++ the remaining segments, and
   resolving it against b gives a with b's spelling of the common prefix, which is == a. *)
From Coq Require Import List NArith Bool Arith Lia.
Import ListNotations.
Require Import V.Regex V.Parse V.ParseProofs V.Parse2 V.Parse2Proofs V.ScanValues V.PathSpec V.Splice V.Setters V.Iter V.PathQ V.Push V.PathMut V.PathMutProofs
  V.SetPath V.SetAuth V.SetScheme V.SetFragment V.C05Proofs V.Reference V.GetProofs V.Rfc V.PushWf V.RefPath V.IterProofs V.IterAll V.C09Proofs V.C12Proofs V.NormProofs V.PopProofs V.ParentProofs V.SymProofs
  V.MergeProofs V.ResolveProofs V.ResolveProofs2 V.ResolveProofs3 V.ResolveProofs4 V.Ord V.Cmp V.CmpProofs V.C02Proofs V.C16Proofs V.RelProofs V.RelProofs2.
Local Open Scope nat_scope.

(* ---------- pushes onto a shielded relative path ---------- *)
Lemma split_nonnil (v : str) : split v <> [].
Proof. induction v as [|c v IH]; cbn [split]; [discriminate|]. destruct (is c SLASH); [discriminate|]. destruct (split v); [contradiction | discriminate]. Qed.

Lemma shield_not_dotslash (l : list seg) : Forall noslash l -> ~ In [DOT] l -> ends_dotslash (render false ([DOT] :: l)) = false.
Proof.
  intros Hs Hd. destruct (ends_dotslash (render false ([DOT] :: l))) eqn:E; [|reflexivity]. exfalso.
  apply ends_dotslash_inv in E as (q & E). unfold render in E. cbn [app] in E.
  assert (Hn : Forall noslash ([DOT] :: l)) by (constructor; [repeat constructor; unfold DOT, SLASH; intros E0; discriminate E0 | exact Hs]).
  assert (Es : [DOT] :: l = split q ++ [[DOT]; []]).
  { rewrite <- (split_join ([DOT] :: l) ltac:(discriminate) Hn), E.
    change (q ++ [SLASH; DOT; SLASH]) with (q ++ SLASH :: [DOT; SLASH]). rewrite split_app. reflexivity. }
  pose proof (split_nonnil q) as Hq. destruct (split q) as [|x r]; [contradiction|]. cbn [app] in Es. injection Es as _ Es.
  apply Hd. rewrite Es. apply in_or_app. right. left. reflexivity.
Qed.
Lemma shield_not_empty (l : list seg) : l <> [] -> path_is_empty (render false ([DOT] :: l)) = false.
Proof. intros Hl. destruct l as [|s r]; [contradiction|]. reflexivity. Qed.

Lemma push_shield (l : list seg) s : l <> [] -> Forall noslash l -> ~ In [DOT] l ->
  push true false (render false ([DOT] :: l)) s = render false ([DOT] :: l ++ [s]).
Proof.
  intros Hl Hs Hd. unfold push. cbn [andb negb]. rewrite (shield_not_empty l Hl). cbn [andb].
  rewrite (shield_not_dotslash l Hs Hd), andb_false_r.
  change ([DOT] :: l ++ [s]) with (([DOT] :: l) ++ [s]). rewrite render_snoc by discriminate. reflexivity.
Qed.

Lemma push_all_shield rest : Forall seg_arg rest -> ~ In [DOT] rest -> forall l, l <> [] -> Forall noslash l -> ~ In [DOT] l ->
  wf_path_in false false (render false ([DOT] :: l)) ->
  push_all (render false ([DOT] :: l)) rest = Some (render false ([DOT] :: l ++ rest)) /\ wf_path_in false false (render false ([DOT] :: l ++ rest)).
Proof.
  induction 1 as [|s rest [Hs Hq] _ IH]; intros Hdr l Hl Hn Hd W; cbn [push_all].
  - rewrite app_nil_r. auto.
  - set (v := render false ([DOT] :: l)) in *. rewrite <- (compose_relp v) at 1.
    destruct (ref_push_exact (relp v) s (relp_wf v W) (conj Hs Hq)) as [E _]. unfold ref_push in E. rewrite E.
    cbn [option_map bind relp p_scheme p_authority p_path has negb andb].
    change (with_path (relp v) (push true false v s)) with (relp (push true false v s)). rewrite compose_relp.
    pose proof (push_wf false false v s W Hs Hq) as Hw. cbn [negb andb] in Hw.
    unfold v in *. rewrite (push_shield l s Hl Hn Hd) in Hw |- *.
    assert (Hdr' : ~ In [DOT] rest) by (intros Hi; apply Hdr; right; exact Hi).
    assert (Hs' : s <> [DOT]) by (intros E0; apply Hdr; left; exact E0).
    destruct (IH Hdr' (l ++ [s])) as (E2 & W2).
    + destruct l; discriminate.
    + apply Forall_app. split; [exact Hn | constructor; [exact Hs | constructor]].
    + intros Hi. apply in_app_or in Hi as [Hi|[Hi|[]]]; [now apply Hd | now apply Hs'].
    + exact Hw.
    + rewrite <- app_assoc in E2, W2. cbn [app] in E2, W2. auto.
Qed.

Lemma plain_no_dot (l : list seg) : plain l -> ~ In [DOT] l.
Proof. intros Hp Hi. apply (plain_in _ _ Hp) in Hi. unfold is_dot, is, DOT in Hi. rewrite N.eqb_refl in Hi. discriminate. Qed.

Lemma last_opt_in {A} (l : list A) x : last_opt l = Some x -> In x l.
Proof. unfold last_opt. destruct (rev l) as [|y r] eqn:E; [discriminate|]. intros Ex. injection Ex as ->. apply in_rev. rewrite E. left. reflexivity. Qed.

Lemma norm_dot_mid (X ss : list seg) : plain X -> plain ss -> norm true ((X ++ []) ++ [DOT] :: ss) = X ++ ss.
Proof.
  intros HX Hs. rewrite app_nil_r. unfold norm. rewrite fold_left_app. rewrite (fold_plain true X []) by exact HX. rewrite app_nil_r.
  cbn [fold_left]. unfold step at 2. change (is_dot [DOT]) with true. cbv iota.
  rewrite (fold_plain true ss) by exact Hs. rewrite rev_app_distr, !rev_involutive. reflexivity.
Qed.

Section Shield.
  Variables pa pb : parts. Variable s : str.
  Hypothesis Wa : wf_parts pa. Hypothesis Wb : wf_parts pb.
  Hypothesis Has : p_scheme pa = Some s. Hypothesis Hbs : p_scheme pb = Some s.
  Hypothesis Hae : p_authority pa = p_authority pb.
  Hypothesis Hax : forall x, p_authority pa = Some x -> eq_authority x x = Some true.
  Local Notation xa := (p_path pa).
  Local Notation xb := (p_path pb).
  Hypothesis Haa : is_abs xa = true. Hypothesis Hab : is_abs xb = true.
  Variables ca cb ss : list str.
  Hypothesis Hsa : segs xa = ca ++ ss.
  Hypothesis Hsb : removelast (segs xb) = cb ++ [].
  Hypothesis Hpa : plain (segs xa). Hypothesis Hpb : plain (segs xb).
  Hypothesis Hna : no_empty_but_last xa. Hypothesis Hnb : no_empty_but_last xb.
  Hypothesis Hstrip : strip_common (ca ++ ss) (cb ++ []) = Some (ss, []).
  Hypothesis Hshield : match ss with x :: _ => x = [] \/ colon_first x = true | [] => False end.

  Local Notation v := (render false ([DOT] :: ss)).
  Local Notation qa := (p_query pa).
  Local Notation fa := (p_fragment pa).

  Lemma sh_ss_ne : ss <> []. Proof. destruct ss; [contradiction | discriminate]. Qed.
  Lemma sh_args : Forall seg_arg ss.
  Proof.
    pose proof (ss_noslash pa ca ss Hsa) as H1. pose proof (ss_noqh pa Wa ca ss Hsa) as H2. rewrite Forall_forall in *.
    intros x Hx. split; [now apply H1 | now apply H2].
  Qed.
  Lemma sh_no_dot : ~ In [DOT] ss. Proof. apply plain_no_dot. exact (ss_plain pa ca ss Hsa Hpa). Qed.

  Lemma sh_pushes : bind (push_all [] (map (fun _ => DOTDOT) (@nil str))) (fun r => push_all r ss) = Some v /\ wf_path_in false false v.
  Proof.
    cbn [map push_all bind]. pose proof sh_args as Ha. pose proof sh_no_dot as Hd.
    destruct ss as [|s1 rest] eqn:Ess; [contradiction|]. inversion Ha as [|? ? [Hs1 Hq1] Hrest]; subst.
    cbn [push_all]. rewrite <- (compose_relp []) at 1.
    destruct (ref_push_exact (relp []) s1 (relp_wf [] wf_rel_nil) (conj Hs1 Hq1)) as [E _]. unfold ref_push in E. rewrite E.
    cbn [option_map bind relp p_scheme p_authority p_path has negb andb].
    change (with_path (relp []) (push true false [] s1)) with (relp (push true false [] s1)). rewrite compose_relp.
    pose proof (push_wf false false [] s1 wf_rel_nil Hs1 Hq1) as Hw. cbn [negb andb] in Hw.
    assert (Et : push true false [] s1 = render false ([DOT] :: [s1])).
    { unfold push. cbn [andb negb is_nil path_is_empty is_abs app].
      assert (Hc : colon_first s1 || is_nil s1 = true) by (destruct Hshield as [->|Hc]; [reflexivity | rewrite Hc; reflexivity]).
      rewrite Hc. reflexivity. }
    rewrite Et in Hw |- *.
    apply (push_all_shield rest Hrest ltac:(intros Hi; apply Hd; right; exact Hi) [s1] ltac:(discriminate)).
    - constructor; [exact Hs1 | constructor].
    - intros [Hi|[]]. apply Hd. left. exact Hi.
    - exact Hw.
  Qed.

  Definition sh_ref : parts := with_fragment (with_query (relp (render false ([DOT] :: ss))) (p_query pa)) (p_fragment pa).
  Lemma sh_ref_wf : wf_parts sh_ref.
  Proof. unfold sh_ref. apply set_fragment_wf, set_query_wf; [apply relp_wf, (proj2 sh_pushes) | exact (qa_ok pa Wa)]. Qed.

  Lemma sh_has_slash : ~ noslash v.
  Proof.
    intros H. destruct ss as [|s1 rest]; [contradiction|]. unfold render in H. cbn [app join] in H.
    inversion H as [|? ? _ H0]; subst. inversion H0 as [|? ? H1 _]; subst. now apply H1.
  Qed.

  Theorem sh_relative_to_value : relative_to (compose pa) (compose pb) = Some (compose sh_ref).
  Proof.
    unfold relative_to.
    rewrite (get_scheme_compose pa Wa), (get_scheme_compose pb Wb), Has, Hbs, list_eqb_refl.
    rewrite (get_authority_compose pa Wa), (get_authority_compose pb Wb), <- Hae.
    assert (Hau : match p_authority pa, p_authority pa with Some x, Some y => eq_authority x y | _, _ => Some true end = Some true).
    { destruct (p_authority pa) as [x|] eqn:Ex; [apply Hax; reflexivity | reflexivity]. }
    rewrite Hau. cbn [bind negb].
    rewrite (get_path_compose pa Wa), (get_path_compose pb Wb), (parent_value pb Wb Hab cb [] Hsb Hnb). cbn [bind].
    rewrite (nsegs_plain xa (wf_path pa Wa) Hpa), Hsa, (nsegs_parent pb Wb Hab cb [] Hsb Hpb Hnb), Haa, Hab. cbn [Bool.eqb]. rewrite Hstrip. cbn [bind].
    destruct sh_pushes as [E W].
    destruct (push_all [] (map (fun _ => DOTDOT) (@nil str))) as [r1|]; [|discriminate E]. cbn [bind] in E |- *. rewrite E. cbn [bind].
    destruct (last_value pb Wb) as (o & Eo & Elast). rewrite Eo. cbn [bind]. rewrite Elast.
    rewrite (get_query_compose pa Wa), (get_fragment_compose pa Wa).
    assert (Egp : get_path v = v).
    { rewrite <- (compose_relp v) at 1. apply (get_path_compose (relp v) (relp_wf v W)). }
    rewrite Egp.
    match goal with |- bind (if ?c then _ else _) _ = _ => assert (Ec0 : c = false); [|rewrite Ec0] end.
    { apply andb_false_iff. right. destruct (last_opt (segs xb)) as [l|] eqn:El; [|reflexivity].
      destruct (list_eqb v l) eqn:Eq; [|reflexivity]. exfalso. apply list_eqb_eq in Eq.
      apply last_opt_in in El. pose proof (segs_noslash xb) as Hn. rewrite Forall_forall in Hn. apply sh_has_slash. rewrite Eq. now apply Hn. }
    unfold sh_ref. cbn [bind]. rewrite <- (compose_relp v) at 1. rewrite (set_query_spec (relp v) qa (relp_wf v W)). cbn [bind].
    apply set_fragment_spec. apply set_query_wf; [apply relp_wf, W | exact (qa_ok pa Wa)].
  Qed.

  (* ---------- resolving the shielded reference against b ---------- *)
  Lemma sh_segs_v : segs v = [DOT] :: ss /\ is_abs v = false.
  Proof.
    apply segs_render_prefix.
    - constructor; [repeat constructor; unfold DOT, SLASH; intros E0; discriminate E0 | exact (ss_noslash pa ca ss Hsa)].
    - intros _ r Er. discriminate Er.
    - intros [Ef _]. discriminate Ef.
  Qed.
  Lemma sh_v_no_inner : no_empty_but_last v.
  Proof.
    intros l' x E Hi. rewrite (proj1 sh_segs_v) in E.
    destruct (@last_case str ss) as [E0|(s1 & y & E0)]; [now apply sh_ss_ne in E0|].
    rewrite E0 in E. change ([DOT] :: s1 ++ [y]) with (([DOT] :: s1) ++ [y]) in E. apply app_inj_tail in E as [E _]. subst l'.
    destruct Hi as [Hi|Hi]; [discriminate Hi|].
    exact (ss_no_inner pa ca ss Hsa Hna s1 y E0 Hi).
  Qed.
  Lemma sh_last_not_dot : last_is_dot ((cb ++ []) ++ [DOT] :: ss) = false.
  Proof.
    destruct (@last_case str ss) as [E0|(s1 & y & E0)]; [now apply sh_ss_ne in E0|].
    unfold last_is_dot. rewrite E0. change ([DOT] :: s1 ++ [y]) with (([DOT] :: s1) ++ [y]). rewrite app_assoc, rev_app_distr. cbn [rev app].
    pose proof (ss_plain pa ca ss Hsa Hpa) as H. rewrite E0 in H. apply plain_app in H as [_ (H1 & H2 & _)]. rewrite H1, H2. reflexivity.
  Qed.
  Lemma sh_norm : norm true ((cb ++ []) ++ [DOT] :: ss) = cb ++ ss.
  Proof.
    pose proof (D_plain pb cb [] Hsb Hpb) as HX. rewrite app_nil_r in HX.
    exact (norm_dot_mid cb ss HX (ss_plain pa ca ss Hsa Hpa)).
  Qed.

  Theorem sh_round_trip : resolve (compose sh_ref) (compose pb) = Some (compose (with_path pa (render true (cb ++ ss)))).
  Proof.
    assert (Hne : no_empty_but_last (p_path sh_ref)) by exact sh_v_no_inner.
    rewrite (resolve_is_rfc pb sh_ref s Wb sh_ref_wf Hbs Hne (fun _ => Hnb)). f_equal. f_equal.
    assert (Epa : with_path pa (render true (cb ++ ss)) = {| p_scheme := Some s; p_authority := p_authority pb; p_path := render true (cb ++ ss); p_query := qa; p_fragment := fa |}).
    { unfold with_path. rewrite <- Hae, <- Has. reflexivity. }
    rewrite Epa. unfold rfc_target. cbn [sh_ref with_fragment with_query relp p_scheme p_authority p_path p_query p_fragment].
    destruct sh_segs_v as [Esv Eav].
    destruct v as [|c t] eqn:Ev.
    - discriminate Esv.
    - cbn [is_abs] in Eav. rewrite Eav, Hbs. f_equal.
      assert (CD : clean (removelast (segs xb))) by (rewrite Hsb; exact (D_clean pb cb [] Hsb Hnb)).
      rewrite (rfc_merged_path pb Wb c t Eav CD), Hab, orb_true_r, Hsb.
      assert (Esp : split (c :: t) = [DOT] :: ss) by (rewrite <- Esv; unfold segs; rewrite Eav; reflexivity).
      rewrite Esp. unfold rds_segs.
      match goal with |- render true (if ?a && _ then _ else _) = _ => replace a with false by (symmetry; exact sh_last_not_dot) end. cbn [andb].
      f_equal. exact sh_norm.
  Qed.
End Shield.

(* ---------- packaged: the shield shapes round-trip ---------- *)
Theorem round_trip_shield_partial (pa pb : parts) (s : str) (ca cb ss : list str) :
  wf_parts pa -> wf_parts pb -> p_scheme pa = Some s -> p_scheme pb = Some s ->
  p_authority pa = p_authority pb -> (forall x, p_authority pa = Some x -> eq_authority x x = Some true) ->
  is_abs (p_path pa) = true -> is_abs (p_path pb) = true ->
  segs (p_path pa) = ca ++ ss -> removelast (segs (p_path pb)) = cb ->
  plain (segs (p_path pa)) -> plain (segs (p_path pb)) -> no_empty_but_last (p_path pa) -> no_empty_but_last (p_path pb) ->
  Forall2 seg_eq cb ca -> strip_common (ca ++ ss) cb = Some (ss, []) ->
  match ss with x :: _ => x = [] \/ colon_first x = true | [] => False end ->
  Forall (fun x => dec x <> None) ss -> (forall x, p_query pa = Some x -> dec x <> None) -> (forall x, p_fragment pa = Some x -> dec x <> None) ->
  exists pr back, wf_parts pr /\ relative_to (compose pa) (compose pb) = Some (compose pr) /\
                  resolve (compose pr) (compose pb) = Some back /\ eq_ref back (compose pa) = Some true.
Proof.
  intros Wa Wb Has Hbs Hae Hax Haa Hab Hsa Hsb0 Hpa Hpb Hna Hnb Hf2 Hst0 Hsh Hds Hdq Hdf.
  assert (Hsb : removelast (segs (p_path pb)) = cb ++ []) by (rewrite app_nil_r; exact Hsb0).
  assert (Hst : strip_common (ca ++ ss) (cb ++ []) = Some (ss, [])) by (rewrite app_nil_r; exact Hst0).
  assert (Hss : ss <> []) by (destruct ss; [contradiction | discriminate]).
  exists (sh_ref pa ss), (compose (with_path pa (render true (cb ++ ss)))). split; [|split; [|split]].
  - eapply sh_ref_wf; eassumption.
  - eapply sh_relative_to_value; eassumption.
  - eapply sh_round_trip; eassumption.
  - assert (Ccb : clean cb) by (pose proof (clean_dir _ Hnb) as C; rewrite Hsb in C; apply clean_app in C; tauto).
    assert (Hns : Forall noslash ss) by (pose proof (segs_noslash (p_path pa)) as H; rewrite Hsa in H; apply Forall_app in H; tauto).
    pose proof (respelled_wf pa pb ca cb ss [] s Wa Wb Has Hae Haa Hsa Hsb Hnb Hf2 Hss) as Wp.
    apply (respelled_equal pa cb ca ss s Wa Wp Has Hax Haa Hsa); auto.
    + rewrite <- Hsa. exact Hpa.
    + pose proof (plain_removelast _ Hpb) as H1. rewrite Hsb0 in H1.
      pose proof Hpa as H2. rewrite Hsa in H2. apply plain_app in H2 as [_ H2]. apply plain_app. split; assumption.
    + exact (wf_path _ Wp).
Qed.

(* the hypotheses are satisfiable: h://h/a/x:y/c relative to h://h/a/z is ./x:y/c, which resolves back *)
Definition sh_ex_a : parts := {| p_scheme := Some [104%N]; p_authority := Some [104%N]; p_path := [47;97;47;120;58;121;47;99]%N; p_query := None; p_fragment := None |}.
Definition sh_ex_b : parts := {| p_scheme := Some [104%N]; p_authority := Some [104%N]; p_path := [47;97;47;122]%N; p_query := None; p_fragment := None |}.
Lemma sh_ex_wf_a : wf_parts sh_ex_a.
Proof.
  constructor; cbn [sh_ex_a p_scheme p_authority p_path p_query p_fragment].
  - intros s E. injection E as <-. split; [discriminate | no_qh].
  - intros a E. injection E as <-. no_qh.
  - no_qh.
  - intros q E. discriminate E.
  - intros _. right. eexists. reflexivity.
  - intros E. discriminate E.
  - intros E. discriminate E.
Qed.
Lemma sh_ex_wf_b : wf_parts sh_ex_b.
Proof.
  constructor; cbn [sh_ex_b p_scheme p_authority p_path p_query p_fragment].
  - intros s E. injection E as <-. split; [discriminate | no_qh].
  - intros a E. injection E as <-. no_qh.
  - no_qh.
  - intros q E. discriminate E.
  - intros _. right. eexists. reflexivity.
  - intros E. discriminate E.
  - intros E. discriminate E.
Qed.
Example round_trip_shield_instance :
  relative_to (compose sh_ex_a) (compose sh_ex_b) = Some [46;47;120;58;121;47;99]%N /\
  exists pr back, wf_parts pr /\ relative_to (compose sh_ex_a) (compose sh_ex_b) = Some (compose pr) /\
                  resolve (compose pr) (compose sh_ex_b) = Some back /\ eq_ref back (compose sh_ex_a) = Some true.
Proof.
  split; [vm_compute; reflexivity|].
  apply (round_trip_shield_partial sh_ex_a sh_ex_b [104%N] [[97%N]] [[97%N]] [[120;58;121]%N; [99%N]]); try reflexivity; try exact sh_ex_wf_a; try exact sh_ex_wf_b.
  all: try (intros x E; injection E as <-; vm_compute; reflexivity).
  all: try (apply (concrete_no_empty [[97%N]; [120;58;121]%N] [99%N]); [reflexivity | vm_compute; intuition discriminate]).
  all: try (apply (concrete_no_empty [[97%N]] [122%N]); [reflexivity | vm_compute; intuition discriminate]).
  all: try (vm_compute; tauto).
  all: try (intros x E; discriminate E).
  all: try (right; reflexivity).
  all: try (repeat constructor; vm_compute; try reflexivity; discriminate).
Qed.
