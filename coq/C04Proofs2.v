(* C04: every finite sequence mixing the five setters, path push / clear, and histories of authority edits keeps
   the buffer equal to compose of well-formed parts (whose authority is itself a well-formed
   [userinfo@]host[:port]) -- without panic. *)
From Coq Require Import List NArith Bool Arith Lia.
Import ListNotations.
Require Import V.Regex V.Parse V.ParseProofs V.Parse2 V.PathSpec V.Splice V.Setters V.Push V.SetPath V.SetAuth V.SetScheme
  V.Reference V.SetFragment V.C05Proofs V.C04Proofs V.Auth V.AuthProofs V.AuthMut V.AuthMutProofs V.AuthValues V.AuthMutProofs2
  V.Iter V.PathQ V.PathMut V.PathMutProofs V.PushWf V.RefPath V.RefAuth V.NormProofs V.PopProofs V.SymProofs V.ResolveProofs3.
Local Open Scope nat_scope.

Definition auth_shape_of (s : str) : Prop := exists a, s = acompose a /\ wf_aparts_s a /\ aparts_clean a.
Definition auth_shape (p : parts) : Prop := forall s, p_authority p = Some s -> auth_shape_of s.

Inductive mop := MSet (o : sop) | MPush (seg : str) | MClear | MAuthEdits (ops : list aop)
  | MPop | MNormalize | MSymPush (seg : str) | MSymAppend (segs : list str) | MResolve (base : str).
Definition marg_ok (m : mop) : Prop :=
  match m with
  | MSet o => arg_ok o /\ match o with OpAuthority (Some s) => auth_shape_of s | _ => True end
  | MPush seg => noslash seg /\ none_of [QM; HASH] seg
  | MClear => True
  | MAuthEdits ops => Forall aarg_ok2 ops
  | MPop | MNormalize => True
  | MSymPush seg => seg_arg seg
  | MSymAppend segs => Forall seg_arg segs
  | MResolve base => exists pb s, base = compose pb /\ wf_parts pb /\ p_scheme pb = Some s /\ auth_shape pb
  end.
Definition mstep (buf : str) (m : mop) : option str :=
  match m with
  | MSet o => step buf o
  | MPush seg => ref_push buf seg
  | MClear => ref_clear buf
  | MAuthEdits ops => ref_auth_history buf ops
  | MPop => ref_pop buf
  | MNormalize => ref_normalize buf
  | MSymPush seg => ref_sympush buf seg
  | MSymAppend segs => ref_symappend buf segs
  | MResolve base => resolve buf base
  end.
Fixpoint mrun (ms : list mop) (buf : str) : option str :=
  match ms with [] => Some buf | m :: r => bind (mstep buf m) (mrun r) end.

Lemma mstep_inv p m : wf_parts p -> auth_shape p -> marg_ok m ->
  exists p', mstep (compose p) m = Some (compose p') /\ wf_parts p' /\ auth_shape p'.
Proof.
  intros W S A. destruct m as [o|seg| |ops| | |seg|segs|base]; cbn [mstep marg_ok] in *.
  - destruct A as [A1 A2]. destruct o as [v|v|v|v|v]; cbn [step arg_ok] in *.
    + eexists; split; [apply set_scheme_spec; auto | split; [apply set_scheme_wf; auto | exact S]].
    + eexists; split; [apply set_authority_spec; auto | split; [apply set_authority_wf; auto |]].
      intros s E. cbn [with_auth p_authority] in E. subst v. exact A2.
    + eexists; split; [apply set_path_spec; auto | split; [apply set_path_wf; auto | exact S]].
    + eexists; split; [apply set_query_spec; auto | split; [apply set_query_wf; auto | exact S]].
    + eexists; split; [apply set_fragment_spec; auto | split; [apply set_fragment_wf; auto | exact S]].
  - destruct A as [A1 A2]. destruct (ref_push_spec p seg W A1 A2) as (v' & E & W' & _).
    exists (with_path p v'). split; [exact E | split; [exact W' | exact S]].
  - destruct (ref_clear_spec p W) as [E W']. eexists; split; [exact E | split; [exact W' | exact S]].
  - destruct (p_authority p) as [s|] eqn:Ea.
    + destruct (S s Ea) as (a & -> & Wa & Ca).
      destruct (ref_auth_history_spec p a ops W Ea Wa Ca A) as (E & W' & Wa' & Ca').
      eexists; split; [exact E | split; [exact W'|]].
      intros s E'. cbn [with_authority p_authority] in E'. injection E' as <-. eexists; split; [reflexivity | split; assumption].
    + exists p. split; [|split; assumption].
      unfold ref_auth_history, authority_mut. rewrite (ScanValues.find_authority_full p W), Ea. reflexivity.
  - destruct (ref_pop_spec p W) as [E W']. eexists; split; [exact E | split; [exact W' | exact S]].
  - destruct (ref_normalize_spec p W) as [E W']. eexists; split; [exact E | split; [exact W' | exact S]].
  - destruct (ref_sympush_spec p W seg A) as [E W']. eexists; split; [exact E | split; [exact W' | exact S]].
  - destruct (ref_symappend_spec p W segs A) as [E W']. eexists; split; [exact E | split; [exact W' | exact S]].
  - destruct A as (pb & s & -> & Wb & Hbs & Sb). destruct (resolve_total pb p s Wb W Hbs) as (p' & E & W' & Ha).
    exists p'. split; [exact E | split; [exact W'|]]. unfold auth_shape in *. destruct Ha as [Ha|Ha]; rewrite Ha; assumption.
Qed.

Theorem mrun_wf ms : forall p, wf_parts p -> auth_shape p -> Forall marg_ok ms ->
  exists p', mrun ms (compose p) = Some (compose p') /\ wf_parts p' /\ auth_shape p'.
Proof.
  induction ms as [|m r IH]; intros p W S A; cbn [mrun].
  - exists p; auto.
  - inversion A as [|? ? Am Ar]; subst. destruct (mstep_inv p m W S Am) as (p1 & E & W1 & S1). rewrite E. cbn [bind]. now apply IH.
Qed.
