(* Property C18 -- data URL views are coherent and reassemble the original.  Statements only. *)
From Coq Require Import List NArith Bool Arith.
Import ListNotations.
Require Import V.Regex V.Abnf V.Parse V.ParseProofs V.Parse2 V.BridgePaths V.C02Bridge V.C02Proofs V.DataUrl V.DataUrlProofs V.DataUrlProofs2 V.C18Uri.
Local Open Scope nat_scope.

(* whenever the delimiter parser accepts a text (what both constructors run after the URI validator), the
   text is  "data:" media-type [";base64"] "," data  with media-type over the media-type alphabet; the
   accessors of the owned form (stored offsets) and of the borrowed form (which re-scans the text and
   therefore terminates: it finds its ',' / ';') return the same media type, base64 flag and data *)
Theorem C18_coherent : forall u d, dparse u = Some d ->
  exists media data,
    u = DATA ++ media ++ (if o_base64 d then B64 else []) ++ COMMA :: data /\
    Forall (fun c => mt_char c = true) media /\
    o_media_type u d = media /\ o_data u d = data /\
    b_media_type u = Some media /\ b_base64 u = Some (o_base64 d) /\ b_data u = Some data.
Proof. exact dataurl_coherent. Qed.
Print Assumptions C18_coherent.

(* REASSEMBLY: the owned accessors put back together are the original text, byte for byte *)
Theorem C18_reassemble : forall u d, dparse u = Some d ->
  DATA ++ o_media_type u d ++ (if o_base64 d then B64 else []) ++ COMMA :: o_data u d = u.
Proof. intros u d H. destruct (dataurl_coherent u d H) as (media & data & Hu & _ & -> & -> & _). symmetry. exact Hu. Qed.
Print Assumptions C18_reassemble.

(* CONVERSE: every text of the data-URL shape is accepted, with the offsets of that shape (so the views of a text
   BUILT from a media type, a flag and a payload are that media type, flag and payload); the accepted texts are
   exactly the texts of the shape; one text has one decomposition *)
Theorem C18_parse_complete : forall media (b : bool) data, Forall (fun c => mt_char c = true) media ->
  dparse (DATA ++ media ++ (if b then B64 else []) ++ COMMA :: data) =
  Some (5 + length media, b, 5 + length media + (if b then 8 else 1)).
Proof. exact dparse_complete. Qed.
Print Assumptions C18_parse_complete.
Theorem C18_accepts_exactly : forall u, (exists d, dparse u = Some d) <->
  exists media (b : bool) data, Forall (fun c => mt_char c = true) media /\ u = DATA ++ media ++ (if b then B64 else []) ++ COMMA :: data.
Proof. exact dparse_accepts_iff. Qed.
Print Assumptions C18_accepts_exactly.
Theorem C18_views_of_built_text : forall media (b : bool) data, Forall (fun c => mt_char c = true) media ->
  let u := DATA ++ media ++ (if b then B64 else []) ++ COMMA :: data in
  exists d, dparse u = Some d /\ o_media_type u d = media /\ o_base64 d = b /\ o_data u d = data /\ b_media_type u = Some media /\ b_base64 u = Some b /\ b_data u = Some data.
Proof.
  intros media b data Hm u. pose proof (dparse_complete media b data Hm) as P. fold u in P.
  eexists. split; [exact P|]. destruct (dataurl_coherent u _ P) as (m & dd & Hu & Hm' & Ho & Hd & Hbm & Hbb & Hbd).
  unfold o_base64 in Hu, Hbb |- *. cbn [fst snd] in Hu, Hbb |- *. unfold u in Hu at 1.
  destruct (dataurl_unique _ _ _ _ _ _ Hm Hm' Hu) as (Em & _ & Ed). subst m dd.
  rewrite <- Em in Hbm |- *. rewrite <- Ed in Hbd |- *. repeat split; try assumption; reflexivity.
Qed.
Print Assumptions C18_views_of_built_text.
Theorem C18_decomposition_unique : forall media (b : bool) data media' (b' : bool) data',
  Forall (fun c => mt_char c = true) media -> Forall (fun c => mt_char c = true) media' ->
  DATA ++ media ++ (if b then B64 else []) ++ COMMA :: data = DATA ++ media' ++ (if b' then B64 else []) ++ COMMA :: data' ->
  media = media' /\ b = b' /\ data = data'.
Proof. exact dataurl_unique. Qed.
Print Assumptions C18_decomposition_unique.

(* TIED TO THE URI VIEW (C02): a data URL is a URI (both constructors run the URI validator first); on every text that the
   URI grammar and the delimiter parser both accept, the generic decomposition reports the scheme component "data" at
   bytes 0..4, i.e. the data-URL view and the Uri view of the same text agree on where the scheme ends *)
Theorem C18_scheme_is_data : forall u d, dparse u = Some d -> L (IRI U U) u ->
  exists p, valid_parts_U p /\ decomposition_ok u p /\ p_scheme p = Some DATA_SCHEME /\
    scheme_range u 0 = (0, 4) /\ slice u (scheme_range u 0) = DATA_SCHEME.
Proof. exact dataurl_scheme. Qed.
Print Assumptions C18_scheme_is_data.

Example C18_example :   (* data:a/b;base64,QQ== *)
  dparse [100;97;116;97;58;97;47;98;59;98;97;115;101;54;52;44;81;81;61;61]%N = Some (8, true, 16)
  /\ dparse [100;97;116;97;58;97;59;98;97;115;101;54;52;120;44]%N = None.      (* data:a;base64x, *)
Proof. vm_compute. split; reflexivity. Qed.
