(* Property C18 -- data URL views are coherent and reassemble the original.  Statements only. *)
From Coq Require Import List NArith Bool Arith.
Import ListNotations.
Require Import V.Regex V.Parse V.DataUrl V.DataUrlProofs.
Local Open Scope nat_scope.

(* whenever the delimiter parser accepts a text (what both constructors run after the URI validator), the
   text is  "data:" media-type [";base64"] "," data  with media-type over the media-type alphabet; the
   accessors of the owned form (stored offsets) and of the borrowed form (which re-scans the text and
   therefore terminates: it finds its ',' / ';') return the same media type, base64 flag and data *)
Theorem C18_coherent : forall u d, dparse u = Some d ->
  exists media data,
    u = DATA ++ media ++ (if o_base64 d then B64 else []) ++ COMMA :: data /\
    Forall (fun c => mt_char c = true) media /\
    o_media_type u d = media /\ o_data u d = data /\
    b_media_type u = Some media /\ b_base64 u = Some (o_base64 d) /\ b_data u = Some data.
Proof. exact dataurl_coherent. Qed.
Print Assumptions C18_coherent.

Example C18_example :   (* data:a/b;base64,QQ== *)
  dparse [100;97;116;97;58;97;47;98;59;98;97;115;101;54;52;44;81;81;61;61]%N = Some (8, true, 16)
  /\ dparse [100;97;116;97;58;97;59;98;97;115;101;54;52;120;44]%N = None.      (* data:a;base64x, *)
Proof. vm_compute. split; reflexivity. Qed.
