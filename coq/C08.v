(* Property C08 -- Eq, Ord and Hash agree with each other.  Statements only (see C07.v for `canon`). *)
From Coq Require Import List NArith Bool Arith.
Import ListNotations.
Require Import V.Regex V.Parse V.Cmp V.Ord V.CmpProofs.
Local Open Scope nat_scope.

(* equal values hash identically: the hash stream (the exact sequence of Hasher::write_* calls) is a function
   of the canonical form only *)
Theorem C08_equal_hash_equal : forall a b ca cb, canon a = Some ca -> canon b = Some cb ->
  eq_ref a b = Some true -> hash_ref a = hash_ref b /\ hash_ref a <> None.
Proof. exact hash_of_equal. Qed.
Print Assumptions C08_equal_hash_equal.

(* the 'equal' outcome of the ordering coincides with == *)
Theorem C08_cmp_eq_agree : forall a b ca cb, canon a = Some ca -> canon b = Some cb ->
  (cmp_ref a b = Some Eq <-> eq_ref a b = Some true).
Proof. exact cmp_eq_agree. Qed.
Print Assumptions C08_cmp_eq_agree.

(* the ordering is total (never panics, antisymmetric) and transitive *)
Theorem C08_total_antisymmetric : forall a b ca cb, canon a = Some ca -> canon b = Some cb ->
  exists x, cmp_ref a b = Some x /\ cmp_ref b a = Some (CompOpp x).
Proof. exact cmp_ref_antisym. Qed.
Print Assumptions C08_total_antisymmetric.
Theorem C08_transitive : forall a b c ca cb cc, canon a = Some ca -> canon b = Some cb -> canon c = Some cc ->
  cmp_ref a b = Some Lt -> cmp_ref b c = Some Lt -> cmp_ref a c = Some Lt.
Proof. exact cmp_ref_trans. Qed.
Print Assumptions C08_transitive.

(* the order underneath is a genuine total order on canonical forms *)
Theorem C08_order : ordspec rcmp.
Proof. exact rcmp_ord. Qed.
Print Assumptions C08_order.

(* views: Uri/Iri and the same text as a reference, owned or borrowed, are ONE model value (the text), so
   their ==, cmp and hash coincide by construction; that the four Rust front ends really implement this one
   model is what the correspondence run checks (hash streams compared token by token, set lookups through
   every Borrow impl). *)
Example C08_example :
  hash_ref [115;58;47;97]%N = Some [HIsize 1; HUsize 1; HBytes [115%N]; HIsize 0; HU8 1; HU8 97; HIsize 0; HIsize 0]
  /\ cmp_ref [115;58;47;97]%N [115;58;47;97;47;98]%N = Some Lt.
Proof. vm_compute. split; reflexivity. Qed.
