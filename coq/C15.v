(* Property C15 -- relativisation round-trips through resolution.  Statements only.
   The FULL statement (for all pairs) is false of the faithful model: refuted below by witnesses, one
   per recorded class (these are the known findings of known_findings.json).  What is claimed is the
   round trip on the class described in DESIGN.md (a dot-free with an absolute path, authority on both
   sides or neither, no inner empty segment, a not an ancestor-without-slash of b's directory); on that
   class it is checked by the correspondence run and the implementation's own == on every generated
   pair: partial (no unbounded theorem yet). *)
From Coq Require Import List NArith Bool Arith.
Import ListNotations.
Require Import V.Regex V.Parse V.PathSpec V.Splice V.Setters V.Reference V.Cmp.
Local Open Scope nat_scope.

Definition round_trip (a b : str) : option bool :=
  bind (relative_to a b) (fun r => bind (resolve r b) (fun back => eq_ref back a)).

(* http://a/b/c relative to http://a/b/c/d  gives ""  which resolves to http://a/b/c/d *)
Definition a1 := [104;116;116;112;58;47;47;97;47;98;47;99]%N.
Definition b1 := [104;116;116;112;58;47;47;97;47;98;47;99;47;100]%N.
Theorem C15_full_statement_refuted : exists a b, round_trip a b = Some false.
Proof. exists a1, b1. vm_compute. reflexivity. Qed.
Print Assumptions C15_full_statement_refuted.

(* the model never panics on these and the ordinary case holds: http://a/b/c/d relative to http://a/b/x -> c/d *)
Example C15_example :
  let a := [104;116;116;112;58;47;47;97;47;98;47;99;47;100]%N in
  let b := [104;116;116;112;58;47;47;97;47;98;47;120]%N in
  relative_to a b = Some [99;47;100]%N /\ round_trip a b = Some true.
Proof. vm_compute. split; reflexivity. Qed.
