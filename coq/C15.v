(* Property C15 -- relativisation round-trips through resolution.  Statements only.
   The FULL statement (for all pairs) is false of the faithful model: refuted below (the recorded classes are the
   known findings of known_findings.json).  PROVED, for all inputs of the class: the round trip when a and b have
   the same scheme and authority, absolute dot-free paths without an empty segment before the last one and a
   literal common directory prefix (C15_round_trip_partial), and when they differ in scheme or in authority
   (C15_other_scheme, C15_other_authority); with percent-respelled common prefixes (C15_round_trip_respelled_partial),
   with authorities that are only == (C15_round_trip_authority_respelled_partial)
   and in the two "./"-shield shapes (C15_round_trip_shield_partial) the round trip up to ==.  Outside these
   hypotheses (dot segments or inner empty segments in the inputs, authority on one side only, relative inputs: the
   recorded classes; the shield shapes combined with a respelled authority) the
   property is carried by the correspondence run and the implementation's own == on every generated pair. *)
From Coq Require Import List NArith Bool Arith.
Import ListNotations.
Require Import V.Regex V.Parse V.ParseProofs V.PathSpec V.Splice V.Setters V.Push V.Reference V.Cmp V.ResolveProofs4 V.C16Proofs V.RelProofs V.RelProofs2 V.RelProofs3 V.RelProofs4.
Local Open Scope nat_scope.

Definition round_trip (a b : str) : option bool :=
  bind (relative_to a b) (fun r => bind (resolve r b) (fun back => eq_ref back a)).

(* http://a/b/c relative to http://a/b/c/d  gives ""  which resolves to http://a/b/c/d *)
Definition a1 := [104;116;116;112;58;47;47;97;47;98;47;99]%N.
Definition b1 := [104;116;116;112;58;47;47;97;47;98;47;99;47;100]%N.
Theorem C15_full_statement_refuted : exists a b, round_trip a b = Some false.
Proof. exists a1, b1. vm_compute. reflexivity. Qed.
Print Assumptions C15_full_statement_refuted.

(* THE ROUND TRIP on the claimed class.  a = compose pa, b = compose pb, both with scheme s and the same authority
   (whose == with itself is defined: every valid authority), absolute paths whose segments are free of "." and ".."
   and non-empty except possibly the last; `common` is the literal common prefix of the segments of a's path and of
   b's directory, ss / bs what remains (strip_common stops there: C15_strip_common_literal), ss non-empty (else a is
   an ancestor of b's directory: recorded class K_ancestor); the first remaining segment of a is non-empty and without
   ':' when b's directory is exhausted (else relative_to writes a "./" shield); and the query of b is not inherited
   (recorded class K_query_inherit).  Then the index-level model of relative_to returns -- no panic -- a well-formed
   relative reference pr, and the index-level model of resolve maps it back to a, LITERALLY. *)
Theorem C15_round_trip_partial : forall (pa pb : parts) (s : str) (common ss bs : list str),
  wf_parts pa -> wf_parts pb -> p_scheme pa = Some s -> p_scheme pb = Some s ->
  p_authority pa = p_authority pb -> (forall x, p_authority pa = Some x -> eq_authority x x = Some true) ->
  is_abs (p_path pa) = true -> is_abs (p_path pb) = true ->
  segs (p_path pa) = common ++ ss -> removelast (segs (p_path pb)) = common ++ bs ->
  plain (segs (p_path pa)) -> plain (segs (p_path pb)) -> no_empty_but_last (p_path pa) -> no_empty_but_last (p_path pb) ->
  strip_common (common ++ ss) (common ++ bs) = Some (ss, bs) ->
  ss <> [] ->
  (bs = [] -> match ss with x :: _ => x <> [] /\ colon_first x = false | [] => False end) ->
  (p_query pa = None -> p_fragment pa <> None -> p_path pa = p_path pb -> p_query pb = None) ->
  exists pr, wf_parts pr /\ relative_to (compose pa) (compose pb) = Some (compose pr) /\ resolve (compose pr) (compose pb) = Some (compose pa).
Proof. exact round_trip_partial. Qed.
Print Assumptions C15_round_trip_partial.

(* GENERALISED: the directory prefixes of a and b need not be literally equal, only segment-wise equal after
   percent-decoding (cb for b, ca for a: exactly what strip_common compares).  relative_to returns the same
   reference; resolving it gives a with b's spelling of the common prefix -- a value that the normalising ==
   (Cmp.eq_ref, property C07) identifies with a.  This is the round trip as the property states it ("equal to a"). *)
Theorem C15_round_trip_respelled_partial : forall (pa pb : parts) (s : str) (ca cb ss bs : list str),
  wf_parts pa -> wf_parts pb -> p_scheme pa = Some s -> p_scheme pb = Some s ->
  p_authority pa = p_authority pb -> (forall x, p_authority pa = Some x -> eq_authority x x = Some true) ->
  is_abs (p_path pa) = true -> is_abs (p_path pb) = true ->
  segs (p_path pa) = ca ++ ss -> removelast (segs (p_path pb)) = cb ++ bs ->
  plain (segs (p_path pa)) -> plain (segs (p_path pb)) -> no_empty_but_last (p_path pa) -> no_empty_but_last (p_path pb) ->
  Forall2 seg_eq cb ca -> strip_common (ca ++ ss) (cb ++ bs) = Some (ss, bs) ->
  ss <> [] ->
  (bs = [] -> match ss with x :: _ => x <> [] /\ colon_first x = false | [] => False end) ->
  (p_query pa = None -> p_fragment pa <> None -> p_path pb = render true (cb ++ ss) -> p_query pb = None) ->
  Forall (fun x => dec x <> None) ss -> (forall x, p_query pa = Some x -> dec x <> None) -> (forall x, p_fragment pa = Some x -> dec x <> None) ->
  exists pr back, wf_parts pr /\ relative_to (compose pa) (compose pb) = Some (compose pr) /\
                  resolve (compose pr) (compose pb) = Some back /\ eq_ref back (compose pa) = Some true.
Proof. exact round_trip_respelled_partial. Qed.
Print Assumptions C15_round_trip_respelled_partial.

(* AUTHORITIES EQUAL ONLY UNDER == : the authorities of a and b need not be literally equal, only == in both directions
   (auth_match: eq_authority, what relative_to tests; symmetric for valid authorities by C07).  relative_to returns the
   same reference; resolving it gives a with b's spelling of the authority and of the common prefix, == a. *)
Theorem C15_round_trip_authority_respelled_partial : forall (pa pb : parts) (s : str) (ca cb ss bs : list str),
  wf_parts pa -> wf_parts pb -> p_scheme pa = Some s -> p_scheme pb = Some s ->
  auth_match (p_authority pa) (p_authority pb) ->
  is_abs (p_path pa) = true -> is_abs (p_path pb) = true ->
  segs (p_path pa) = ca ++ ss -> removelast (segs (p_path pb)) = cb ++ bs ->
  plain (segs (p_path pa)) -> plain (segs (p_path pb)) -> no_empty_but_last (p_path pa) -> no_empty_but_last (p_path pb) ->
  Forall2 seg_eq cb ca -> strip_common (ca ++ ss) (cb ++ bs) = Some (ss, bs) ->
  ss <> [] ->
  (bs = [] -> match ss with x :: _ => x <> [] /\ colon_first x = false | [] => False end) ->
  (p_query pa = None -> p_fragment pa <> None -> p_path pb = render true (cb ++ ss) -> p_query pb = None) ->
  Forall (fun x => dec x <> None) ss -> (forall x, p_query pa = Some x -> dec x <> None) -> (forall x, p_fragment pa = Some x -> dec x <> None) ->
  exists pr back, wf_parts pr /\ relative_to (compose pa) (compose pb) = Some (compose pr) /\
                  resolve (compose pr) (compose pb) = Some back /\ eq_ref back (compose pa) = Some true.
Proof. exact round_trip_auth_respelled_partial. Qed.
Print Assumptions C15_round_trip_authority_respelled_partial.
(* satisfiable: h://%68/a/b/c?q relative to h://h/a/x is b/c?q *)
Theorem C15_round_trip_authority_instance :
  relative_to (compose ex_a2) (compose ex_b) = Some [98;47;99;63;113]%N /\
  exists pr back, wf_parts pr /\ relative_to (compose ex_a2) (compose ex_b) = Some (compose pr) /\
                  resolve (compose pr) (compose ex_b) = Some back /\ eq_ref back (compose ex_a2) = Some true.
Proof. exact round_trip_auth_instance. Qed.
Print Assumptions C15_round_trip_authority_instance.

(* THE SHIELD SHAPES: b's directory is a (respelled) prefix of a's path and the first remaining segment of a is empty
   or has a ':' -- relative_to then writes "./" in front (sh_ref: path "./" ++ remaining segments, a's query and
   fragment), and resolving that against b gives a with b's spelling of the prefix, == a. *)
Theorem C15_round_trip_shield_partial : forall (pa pb : parts) (s : str) (ca cb ss : list str),
  wf_parts pa -> wf_parts pb -> p_scheme pa = Some s -> p_scheme pb = Some s ->
  p_authority pa = p_authority pb -> (forall x, p_authority pa = Some x -> eq_authority x x = Some true) ->
  is_abs (p_path pa) = true -> is_abs (p_path pb) = true ->
  segs (p_path pa) = ca ++ ss -> removelast (segs (p_path pb)) = cb ->
  plain (segs (p_path pa)) -> plain (segs (p_path pb)) -> no_empty_but_last (p_path pa) -> no_empty_but_last (p_path pb) ->
  Forall2 seg_eq cb ca -> strip_common (ca ++ ss) cb = Some (ss, []) ->
  match ss with x :: _ => x = [] \/ colon_first x = true | [] => False end ->
  Forall (fun x => dec x <> None) ss -> (forall x, p_query pa = Some x -> dec x <> None) -> (forall x, p_fragment pa = Some x -> dec x <> None) ->
  exists pr back, wf_parts pr /\ relative_to (compose pa) (compose pb) = Some (compose pr) /\
                  resolve (compose pr) (compose pb) = Some back /\ eq_ref back (compose pa) = Some true.
Proof. exact round_trip_shield_partial. Qed.
Print Assumptions C15_round_trip_shield_partial.
(* satisfiable: h://h/a/x:y/c relative to h://h/a/z is ./x:y/c *)
Theorem C15_round_trip_shield_instance :
  relative_to (compose sh_ex_a) (compose sh_ex_b) = Some [46;47;120;58;121;47;99]%N /\
  exists pr back, wf_parts pr /\ relative_to (compose sh_ex_a) (compose sh_ex_b) = Some (compose pr) /\
                  resolve (compose pr) (compose sh_ex_b) = Some back /\ eq_ref back (compose sh_ex_a) = Some true.
Proof. exact round_trip_shield_instance. Qed.
Print Assumptions C15_round_trip_shield_instance.

(* the strip_common hypothesis holds whenever the common prefix is literal and decodable and the next segments
   differ after percent-decoding *)
Theorem C15_strip_common_literal : forall common ss bs, Forall (fun x => dec x <> None) common ->
  match ss, bs with x :: _, y :: _ => eq_key pct_key x y = Some false | _, _ => True end ->
  strip_common (common ++ ss) (common ++ bs) = Some (ss, bs).
Proof. exact strip_common_literal. Qed.
Print Assumptions C15_strip_common_literal.

(* different schemes, or the same scheme and different authorities: the result is a itself, and a (dot-free path,
   no empty segment before the last) resolves to itself against any b *)
Theorem C15_other_scheme : forall pa pb sa sb, wf_parts pa -> wf_parts pb -> p_scheme pa = Some sa -> p_scheme pb = Some sb ->
  plain (segs (p_path pa)) -> no_empty_but_last (p_path pa) -> list_eqb sa sb = false ->
  relative_to (compose pa) (compose pb) = Some (compose pa) /\ resolve (compose pa) (compose pb) = Some (compose pa).
Proof. exact other_scheme. Qed.
Print Assumptions C15_other_scheme.
Theorem C15_other_authority : forall pa pb sa sb, wf_parts pa -> wf_parts pb -> p_scheme pa = Some sa -> p_scheme pb = Some sb ->
  plain (segs (p_path pa)) -> no_empty_but_last (p_path pa) -> forall x y, sa = sb -> p_authority pa = Some x -> p_authority pb = Some y ->
  eq_authority x y = Some false ->
  relative_to (compose pa) (compose pb) = Some (compose pa) /\ resolve (compose pa) (compose pb) = Some (compose pa).
Proof. exact other_authority. Qed.
Print Assumptions C15_other_authority.

(* the hypotheses of C15_round_trip_partial are satisfiable: h://h/a/b/c?q relative to h://h/a/x *)
Theorem C15_round_trip_instance :
  exists pr, wf_parts pr /\ relative_to (compose ex_a) (compose ex_b) = Some (compose pr) /\ resolve (compose pr) (compose ex_b) = Some (compose ex_a).
Proof. exact round_trip_instance. Qed.
Print Assumptions C15_round_trip_instance.

(* the model never panics on these and the ordinary case holds: http://a/b/c/d relative to http://a/b/x -> c/d *)
Example C15_example :
  let a := [104;116;116;112;58;47;47;97;47;98;47;99;47;100]%N in
  let b := [104;116;116;112;58;47;47;97;47;98;47;120]%N in
  relative_to a b = Some [99;47;100]%N /\ round_trip a b = Some true.
Proof. vm_compute. split; reflexivity. Qed.
