(* Shape regexes for the boolean tests the setters use (starts with "//", relative and non-empty, colon in the
   first segment, ...) and the passage from the boolean test on a list to membership in the shape.  They let
   the validity of a rewritten path be decided by inclusion certificates between small regexes. *)
From Coq Require Import List NArith Bool Arith Lia.
Import ListNotations.
Require Import V.Regex V.Bisim V.Abnf V.Parse V.ParseProofs V.Bridge V.Factor V.BridgePaths V.Push V.SetPath.
Open Scope N_scope.

Definition ANYS : re := Star (Cls ANY).
Definition bounded (s : str) : Prop := Forall (fun c => c <= MAXC) s.

Lemma in_ANY c : c <= MAXC -> in_cls c ANY = true.
Proof. intros H. unfold in_cls, ANY, in_rng. simpl. rewrite orb_false_r, andb_true_iff, !N.leb_le. lia. Qed.
Lemma ANYS_L s : bounded s -> L ANYS s.
Proof.
  induction 1 as [|c s Hc _ IH]; [constructor|]. change (c :: s) with ([c] ++ s). constructor; [|exact IH].
  exists c. split; [reflexivity | now apply in_ANY].
Qed.
Lemma bounded_of_star k s : L (Star (Cls k)) s -> (forall c, in_cls c k = true -> c <= MAXC) -> bounded s.
Proof. intros H Hk. apply star_cls_forall in H. unfold bounded. eapply Forall_impl; [|exact H]. intros c Hc. now apply Hk. Qed.
Lemma in_ANY_le c : in_cls c ANY = true -> c <= MAXC.
Proof. unfold in_cls, ANY, in_rng. simpl. rewrite orb_false_r, andb_true_iff, !N.leb_le. lia. Qed.

Lemma cls_one k c : in_cls c k = true -> L (Cls k) [c].
Proof. intros H. exists c. auto. Qed.
Lemma in_not_slash' c : c <= MAXC -> c <> SLASH -> in_cls c not_slash = true.
Proof. unfold in_cls, not_slash, in_rng, SLASH, MAXC. simpl. rewrite !orb_true_iff, !andb_true_iff, !N.leb_le. lia. Qed.
Lemma in_ncs' c : c <= MAXC -> c <> SLASH -> c <> COLON -> in_cls c not_colon_slash = true.
Proof. unfold in_cls, not_colon_slash, in_rng, SLASH, COLON, MAXC. simpl. rewrite !orb_true_iff, !andb_true_iff, !N.leb_le. lia. Qed.

Definition slash := ch SLASH.
Definition DSLASH : re := Cat slash (Cat slash ANYS).
Definition REL_NE : re := Cat (Cls not_slash) ANYS.
Definition ABS_OR_EMPTY : re := Alt Eps (Cat slash ANYS).
Definition NODSLASH : re := Alt Eps (Alt REL_NE (Cat slash (Alt Eps REL_NE))).
Definition NOCOLON : re := Cat (Star (Cls not_colon_slash)) (Alt Eps (Cat slash ANYS)).
Definition HASCOLON : re := Cat (Star (Cls not_colon_slash)) (Cat (ch COLON) ANYS).

Lemma bounded_cons c s : bounded (c :: s) -> c <= MAXC /\ bounded s.
Proof. intros H. inversion H; auto. Qed.

Lemma DSLASH_of v : bounded v -> starts_dslash v = true -> L DSLASH v.
Proof.
  intros B H. destruct v as [|a [|b r]]; try discriminate. simpl in H. apply andb_true_iff in H as [Ha Hb]. apply is_true in Ha, Hb. subst.
  apply bounded_cons in B as [_ B]. apply bounded_cons in B as [_ B].
  apply lit1_L. eexists; split; [reflexivity|]. apply lit1_L. eexists; split; [reflexivity|]. now apply ANYS_L.
Qed.
Lemma REL_NE_of v : bounded v -> path_is_abs v = false -> is_nil v = false -> L REL_NE v.
Proof.
  intros B H1 H2. destruct v as [|c r]; [discriminate|]. simpl in H1. apply is_false in H1. apply bounded_cons in B as [Bc B].
  apply Cat_L. exists [c], r. split; [reflexivity|]. split; [apply cls_one; now apply in_not_slash' | now apply ANYS_L].
Qed.
Lemma ABS_OR_EMPTY_of v : bounded v -> path_is_abs v = true \/ v = [] -> L ABS_OR_EMPTY v.
Proof.
  intros B [H| ->]; apply Alt_L; [right | left; now apply Eps_L].
  destruct v as [|c r]; [discriminate|]. simpl in H. apply is_true in H. subst. apply bounded_cons in B as [_ B].
  apply lit1_L. eexists; split; [reflexivity | now apply ANYS_L].
Qed.
Lemma NODSLASH_of v : bounded v -> starts_dslash v = false -> L NODSLASH v.
Proof.
  intros B H. unfold NODSLASH. rewrite !Alt_L, Eps_L. destruct v as [|a r]; [left; reflexivity | right].
  apply bounded_cons in B as [Ba B]. destruct (is a SLASH) eqn:Ea.
  - right. apply is_true in Ea. subst. apply lit1_L. eexists; split; [reflexivity|]. rewrite Alt_L, Eps_L.
    destruct r as [|b r']; [left; reflexivity | right]. cbn [starts_dslash] in H. change (is SLASH SLASH) with true in H. cbn [andb] in H. apply is_false in H.
    apply bounded_cons in B as [Bb B]. apply Cat_L. exists [b], r'. split; [reflexivity|]. split; [apply cls_one; now apply in_not_slash' | now apply ANYS_L].
  - left. apply is_false in Ea. apply Cat_L. exists [a], r. split; [reflexivity|]. split; [apply cls_one; now apply in_not_slash' | now apply ANYS_L].
Qed.
Lemma NOCOLON_of v : bounded v -> colon_first v = false -> L NOCOLON v.
Proof.
  intros B. induction v as [|c r IH]; intros H.
  - apply Cat_L. exists [], []. split; [reflexivity|]. split; [constructor | apply Alt_L; left; now apply Eps_L].
  - apply bounded_cons in B as [Bc B]. simpl in H. destruct (is c COLON) eqn:Ec; [discriminate|]. apply is_false in Ec.
    destruct (is c SLASH) eqn:Es.
    + apply is_true in Es. subst. apply Cat_L. exists [], (SLASH :: r). split; [reflexivity|]. split; [constructor|].
      apply Alt_L. right. apply lit1_L. eexists; split; [reflexivity | now apply ANYS_L].
    + apply is_false in Es. specialize (IH B H). use (Cat_L _ _ _) in IH. destruct IH as (a & b & -> & Ha & Hb).
      apply Cat_L. exists (c :: a), b. split; [reflexivity|]. split; [|exact Hb].
      change (c :: a) with ([c] ++ a). constructor; [apply cls_one; now apply in_ncs' | exact Ha].
Qed.
Lemma HASCOLON_of v : bounded v -> colon_first v = true -> L HASCOLON v.
Proof.
  intros B. induction v as [|c r IH]; intros H; [discriminate|].
  apply bounded_cons in B as [Bc B]. simpl in H. destruct (is c COLON) eqn:Ec.
  - apply is_true in Ec. subst. apply Cat_L. exists [], (COLON :: r). split; [reflexivity|]. split; [constructor|].
    apply lit1_L. eexists; split; [reflexivity | now apply ANYS_L].
  - destruct (is c SLASH) eqn:Es; [discriminate|]. apply is_false in Ec, Es. specialize (IH B H).
    use (Cat_L _ _ _) in IH. destruct IH as (a & b & -> & Ha & Hb).
    apply Cat_L. exists (c :: a), b. split; [reflexivity|]. split; [|exact Hb].
    change (c :: a) with ([c] ++ a). constructor; [apply cls_one; now apply in_ncs' | exact Ha].
Qed.
