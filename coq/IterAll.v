(* C12: any interleaving of next / next_back yields the '/'-split, each segment once, in order. *)
From Coq Require Import List NArith Bool Arith Lia.
Import ListNotations.
Require Import V.Regex V.Parse V.ParseProofs V.PathSpec V.Splice V.Setters V.Iter V.IterProofs.
Local Open Scope nat_scope.

Definition joinS (l : list str) : str := concat (map (fun s => s ++ [SLASH]) l).
Lemma joinS_app a b : joinS (a ++ b) = joinS a ++ joinS b.
Proof. unfold joinS. now rewrite map_app, concat_app. Qed.
Lemma joinS_one s : joinS [s] = s ++ [SLASH].
Proof. unfold joinS. simpl. apply app_nil_r. Qed.
Lemma joinS_join l : l <> [] -> joinS l = join l ++ [SLASH].
Proof.
  induction l as [|s l IH]; [tauto|]. intros _. destruct l as [|y l'].
  - apply joinS_one.
  - change (s :: y :: l') with ([s] ++ (y :: l')). rewrite joinS_app, joinS_one, IH by discriminate.
    change (join ([s] ++ y :: l')) with (s ++ SLASH :: join (y :: l')). rewrite <- !app_assoc. reflexivity.
Qed.
Lemma firstn_snoc {A} (l : list A) k s : nth_error l k = Some s -> firstn (S k) l = firstn k l ++ [s].
Proof.
  revert k. induction l as [|x l IH]; intros [|k] H; simpl in H; try discriminate.
  - injection H as ->. reflexivity.
  - simpl. f_equal. now apply IH.
Qed.

(* join l = joinS (firstn j l) ++ l_j ++ R_j *)
Definition restR (l : list str) (j : nat) : str := match skipn (S j) l with [] => [] | r => SLASH :: join r end.
Lemma join_decomp l : forall j s, nth_error l j = Some s -> join l = joinS (firstn j l) ++ s ++ restR l j.
Proof.
  induction l as [|x l IH]; intros [|j] s H; simpl in H; try discriminate.
  - injection H as ->. unfold restR. simpl. destruct l; simpl; [now rewrite app_nil_r | reflexivity].
  - destruct l as [|y l']; [destruct j; discriminate|].
    change (join (x :: y :: l')) with (x ++ SLASH :: join (y :: l')). rewrite (IH j s H).
    change (firstn (S j) (x :: y :: l')) with ([x] ++ firstn j (y :: l')). rewrite joinS_app, joinS_one.
    unfold restR. simpl skipn. rewrite <- !app_assoc. reflexivity.
Qed.
Lemma restR_ok l j : rest_ok (restR l j).
Proof. unfold restR. destruct (skipn (S j) l); [left; auto | right; eauto]. Qed.

Section Path.
  Variable pfx : str. Variable l : list str.
  Hypothesis Hpfx : pfx = [] \/ pfx = [SLASH].
  Hypothesis Hl : l <> [].
  Hypothesis Hsegs : Forall seg_ok l.
  Definition P : str := pfx ++ join l.
  Hypothesis Hfirst : first_off P = length pfx.
  Hypothesis Hne : path_is_empty P = false.
  Definition o (k : nat) : nat := length pfx + length (joinS (firstn k l)).

  Lemma o_0 : o 0 = length pfx. Proof. unfold o. simpl. lia. Qed.
  Lemma o_S k s : nth_error l k = Some s -> o (S k) = o k + length s + 1.
  Proof. intros H. unfold o. rewrite (firstn_snoc l k s H), joinS_app, joinS_one, !app_length. simpl. lia. Qed.
  Lemma o_n : o (length l) = length P + 1.
  Proof. unfold o, P. rewrite firstn_all, joinS_join, !app_length by auto. simpl. lia. Qed.

  (* the path seen from segment k *)
  Lemma P_at k s : nth_error l k = Some s -> P = (pfx ++ joinS (firstn k l)) ++ s ++ restR l k /\ length (pfx ++ joinS (firstn k l)) = o k.
  Proof. intros H. unfold P, o. rewrite (join_decomp l k s H), app_length, <- app_assoc. auto. Qed.

  Lemma seg_k_ok k s : nth_error l k = Some s -> seg_ok s.
  Proof. intros H. rewrite Forall_forall in Hsegs. apply Hsegs. eapply nth_error_In; eauto. Qed.

  Theorem next_at k s : nth_error l k = Some s ->
    next_segment_from P (o k) = Some ((o k, o k + length s), o (S k)).
  Proof.
    intros H. destruct (P_at k s H) as [E L]. rewrite E, <- L.
    rewrite next_segment_from_spec by (eauto using seg_k_ok, restR_ok).
    rewrite L, (o_S k s H). reflexivity.
  Qed.

  Theorem prev_at k s : nth_error l k = Some s ->
    previous_segment_from P (o (S k)) = Some (Some ((o k, o k + length s), o k)).
  Proof.
    intros H. rewrite (o_S k s H). destruct (P_at k s H) as [E L].
    destruct k as [|k'].
    - (* first segment *)
      simpl in E. rewrite app_nil_r in E. rewrite o_0 in *.
      assert (H2 : 2 <= length pfx + length s + 1 \/ (pfx = [] /\ s = [])).
      { destruct Hpfx as [->| ->]; simpl; [|lia]. destruct s; [right; auto | simpl; lia]. }
      destruct H2 as [H2|[-> ->]].
      + pose proof (previous_first pfx s (restR l 0) Hpfx) as PF. rewrite <- E in PF.
        apply PF; eauto using seg_k_ok, restR_ok.
      + (* a relative path whose first segment is empty: its text would start with '/', so |pfx| could not be 0 *)
        exfalso. simpl in E. unfold restR in E. destruct (skipn 1 l) eqn:Sk.
        * (* l = [[]] : P = [] *)
          rewrite E in Hne. discriminate.
        * (* P starts with '/' but first_off P = 0 *)
          rewrite E in Hfirst. simpl in Hfirst. change (is SLASH SLASH) with true in Hfirst. discriminate.
    - (* a slash precedes *)
      assert (Hk : k' < length l) by (assert (S k' < length l) by (apply nth_error_Some; congruence); lia).
      destruct (nth_error l k') as [s'|] eqn:H'; [|apply nth_error_None in H'; lia].
      set (A' := pfx ++ joinS (firstn k' l) ++ s').
      assert (EA : pfx ++ joinS (firstn (S k') l) = A' ++ [SLASH]).
      { unfold A'. rewrite (firstn_snoc l k' s' H'), joinS_app, joinS_one, <- !app_assoc. reflexivity. }
      rewrite EA in E, L.
      pose proof (previous_later A' s (restR l (S k'))) as PL. rewrite <- E in PL. rewrite L in PL.
      apply PL; eauto using seg_k_ok, restR_ok.
      rewrite Hfirst. unfold A'. rewrite app_length. lia.
  Qed.

  (* ---------- every interleaving ---------- *)
  Definition rng (k : nat) : range := (o k, o k + length (nth k l [])).
  Lemma nth_some k : k < length l -> nth_error l k = Some (nth k l []).
  Proof. intros H. apply nth_error_nth'. exact H. Qed.

  Lemma o_mono j j' : j < j' -> j' <= length l -> o j < o j'.
  Proof.
    intros H. induction H as [|j' H IH]; intros Hj'.
    - rewrite (o_S j _ (nth_some j Hj')). lia.
    - rewrite (o_S j' _ (nth_some j' Hj')). specialize (IH (Nat.lt_le_incl _ _ Hj')). lia.
  Qed.

  (* true = next(), false = next_back(); outer None = a panic in the model *)
  Fixpoint run (w : list bool) (st : it_state) : option (list (option range) * it_state) :=
    match w with
    | [] => Some ([], st)
    | true :: w' => let '(r, st') := it_next P st in
                    match run w' st' with Some (rs, s) => Some (r :: rs, s) | None => None end
    | false :: w' => match it_next_back P st with
                     | None => None
                     | Some (r, st') => match run w' st' with Some (rs, s) => Some (r :: rs, s) | None => None end
                     end
    end.

  (* what the calls should return when k segments were taken from the front and m from the back *)
  Fixpoint expect (w : list bool) (k m : nat) : list (option range) :=
    match w with
    | [] => []
    | true :: w' => if k + m <? length l then Some (rng k) :: expect w' (S k) m else None :: expect w' k m
    | false :: w' => if k + m <? length l then Some (rng (length l - m - 1)) :: expect w' k (S m) else None :: expect w' k m
    end.

  Theorem interleave w : forall k m, k + m <= length l ->
    exists st, run w (ItNonEmpty (o k) (o (length l - m))) = Some (expect w k m, st).
  Proof.
    induction w as [|b w IH]; intros k m Hkm; simpl.
    - eauto.
    - destruct (k + m <? length l) eqn:E.
      + apply Nat.ltb_lt in E.
        assert (Hlt : o k <? o (length l - m) = true) by (apply Nat.ltb_lt; apply o_mono; lia).
        destruct b; simpl.
        * rewrite Hlt. rewrite (next_at k _ (nth_some k ltac:(lia))).
          destruct (IH (S k) m ltac:(lia)) as (st & ->). eauto.
        * rewrite Hlt.
          pose proof (prev_at (length l - m - 1) _ (nth_some (length l - m - 1) ltac:(lia))) as PA.
          replace (S (length l - m - 1)) with (length l - m) in PA by lia. rewrite PA.
          destruct (IH k (S m) ltac:(lia)) as (st & E2).
          replace (length l - S m) with (length l - m - 1) in E2 by lia. rewrite E2. eauto.
      + apply Nat.ltb_ge in E. assert (k = length l - m) by lia. subst k.
        rewrite Nat.ltb_irrefl.
        destruct b; simpl; rewrite ?Nat.ltb_irrefl; destruct (IH (length l - m) m ltac:(lia)) as (st & ->); eauto.
  Qed.
  (* from the iterator a caller obtains: segments P *)
  Theorem interleave_from_start w : exists st, run w (segments P) = Some (expect w 0 0, st).
  Proof.
    unfold segments. rewrite Hne, Hfirst.
    replace (length pfx) with (o 0) by apply o_0.
    replace (length P + 1) with (o (length l - 0)) by (rewrite Nat.sub_0_r; apply o_n).
    apply interleave. lia.
  Qed.
End Path.
Check interleave.
Print Assumptions interleave.
