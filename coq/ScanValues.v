(* Values of the two reference state machines on a composed reference: everything else follows. *)
From Coq Require Import List NArith Bool Arith Lia.
Import ListNotations.
Require Import V.Regex V.Parse V.ParseProofs V.Parse2.
Local Open Scope nat_scope.

Lemma sap_value p : wf_parts p ->
  scheme_authority_or_path (compose p) 0 =
  match p_scheme p, p_authority p with
  | Some s, _ => (SapScheme, length s)
  | None, Some a => (SapAuthority, 2 + length a)
  | None, None => (SapPath, length (p_path p))
  end.
Proof.
  intros [Hs Ha Hp Hq Hpa Hpn Hpc].
  rewrite (sap_at (compose p) [] (compose p) 0) by reflexivity. unfold compose.
  destruct (p_scheme p) as [s|] eqn:Es; destruct (p_authority p) as [a|] eqn:Ea; simpl opt_post; simpl opt_pre.
  - destruct (Hs s eq_refl) as [Hs1 Hs2]. rewrite <- app_assoc. simpl app. rewrite sap_scheme by auto. reflexivity.
  - destruct (Hs s eq_refl) as [Hs1 Hs2]. rewrite <- app_assoc. simpl app. rewrite sap_scheme by auto. reflexivity.
  - simpl app. simpl sap_loop. rewrite sap_auth_loop; [f_equal; lia | auto |].
    apply path_tail_ends_auth. apply Hpa. discriminate.
  - simpl app. rewrite sap_path by (auto using tail_ends_qh). reflexivity.
Qed.

Lemma aop_value p s : wf_parts p -> p_scheme p = Some s ->
  authority_or_path (compose p) (length s + 1) =
  match p_authority p with
  | Some a => (AopAuthority, length s + 1 + 2 + length a)
  | None => (AopPath, length s + 1 + length (p_path p))
  end.
Proof.
  intros [Hs Ha Hp Hq Hpa Hpn Hpc] Es. unfold compose. rewrite Es. simpl opt_post.
  destruct (p_authority p) as [a|] eqn:Ea; simpl opt_pre.
  - rewrite (aop_at _ (s ++ [COLON]) (SLASH :: SLASH :: a ++ p_path p ++ tail_of p)); [| reassoc | len].
    simpl aop_loop. rewrite aop_auth_loop; [f_equal; lia | auto |].
    apply path_tail_ends_auth. apply Hpa. discriminate.
  - rewrite (aop_at _ (s ++ [COLON]) (p_path p ++ tail_of p)); [| reassoc | len].
    rewrite aop_path by (auto using tail_ends_qh). reflexivity.
Qed.

Definition sch_of (p : parts) : str := opt_post (p_scheme p) [COLON].

Theorem find_authority_full p : wf_parts p ->
  find_authority (compose p) 0 =
  match p_authority p with
  | Some a => inl (length (sch_of p) + 2, length (sch_of p) + 2 + length a)
  | None => inr (length (sch_of p))
  end.
Proof.
  intros W. unfold find_authority, sch_of. rewrite sap_value by auto.
  destruct (p_scheme p) as [s|] eqn:Es.
  - rewrite (aop_value p s W Es). destruct (p_authority p); simpl; rewrite app_length; simpl; f_equal; f_equal; lia.
  - destruct (p_authority p); simpl; reflexivity.
Qed.
Print Assumptions find_authority_full.
