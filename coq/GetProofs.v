(* The accessor models of Reference.v on a composed well-formed reference return the components. *)
From Coq Require Import List NArith Bool Arith Lia.
Import ListNotations.
Require Import V.Regex V.Bisim V.Abnf V.Parse V.ParseProofs V.Parse2 V.Parse2Proofs V.ScanValues V.Bridge V.Factor V.BridgePaths
  V.C02Bridge V.FactorU V.FactorI V.C02Proofs V.PathSpec V.Splice V.Setters V.Push V.SetPath V.SetAuth V.SetScheme V.Reference.
Local Open Scope nat_scope.

Section Get.
  Variable p : parts.
  Hypothesis W : wf_parts p.
  Let D := decomposition_compose p W.
  Let S := expected_slices p.

  Lemma get_scheme_compose : get_scheme (compose p) = p_scheme p.
  Proof. unfold get_scheme. destruct D as (_ & _ & E & _). rewrite E. exact (proj1 S). Qed.
  Lemma get_authority_compose : get_authority (compose p) = p_authority p.
  Proof.
    unfold get_authority. destruct D as (_ & _ & _ & E & _). destruct S as (_ & S2 & _).
    unfold oslice in S2. rewrite <- E in S2. destruct (find_authority (compose p) 0); exact S2.
  Qed.
  Lemma get_path_compose : get_path (compose p) = p_path p.
  Proof. unfold get_path. destruct D as (_ & _ & _ & _ & E & _). rewrite E. exact (proj1 (proj2 (proj2 S))). Qed.
  Lemma get_query_compose : get_query (compose p) = p_query p.
  Proof.
    unfold get_query. destruct D as (_ & _ & _ & _ & _ & E & _). destruct S as (_ & _ & _ & S4 & _).
    unfold oslice in S4. rewrite <- E in S4. destruct (find_query (compose p) 0); exact S4.
  Qed.
  Lemma get_fragment_compose : get_fragment (compose p) = p_fragment p.
  Proof.
    unfold get_fragment. destruct D as (_ & _ & _ & _ & _ & _ & E). destruct S as (_ & _ & _ & _ & S5).
    unfold oslice in S5. rewrite <- E in S5. destruct (find_fragment (compose p) 0); exact S5.
  Qed.
  Lemma abs_scheme_compose s : p_scheme p = Some s -> abs_scheme (compose p) = s.
  Proof.
    intros Es. unfold abs_scheme. rewrite (scheme_range_compose p s W Es).
    pose proof (proj1 S) as H. unfold oslice, expected in H. cbn [r_scheme] in H. rewrite Es in H. cbn [option_map] in H.
    injection H as H. exact H.
  Qed.
End Get.
