(* Extraction of the executable model and of the spec oracles to OCaml (ExtrOcamlBasic only:
   bool, option, unit, list, prod, sumbool, sumor to the OCaml types; andb/orb inlined; nat, N and
   positive stay Coq datatypes). *)
From Coq Require Import List NArith Bool Arith.
Require Import V.Regex V.Parse V.Parse2 V.Auth V.PathSpec V.Splice V.Setters V.Iter V.PathQ V.AuthMut.
Require Extraction.
Require Import ExtrOcamlBasic.
Extraction Language OCaml.

Extraction "../ocaml/model.ml"
  reference_parts abs_parts scheme_range find_scheme find_authority find_path find_query find_fragment slice
  authority_parts find_user_info find_host host_end port user_info_or_host
  segments it_next it_next_back path_is_empty is_abs
  pq_first pq_last pq_segments pq_segments_rev pq_file_name pq_directory pq_parent pq_parent_or_empty pq_normalized_segments
  find_port set_userinfo set_host set_port view window
  segs split join render norm.
