(* Extraction of the executable model and of the spec oracles to OCaml (ExtrOcamlBasic only:
   bool, option, unit, list, prod, sumbool, sumor to the OCaml types; andb/orb inlined; nat, N and
   positive stay Coq datatypes). *)
From Coq Require Import List NArith Bool Arith.
Require Import V.Regex V.Parse V.Parse2 V.Auth V.PathSpec V.Splice V.Setters V.Iter V.PathQ V.AuthMut V.Push V.SetPath V.SetAuth V.SetScheme V.PathMut V.Reference V.Cmp V.DataUrl.
Require Extraction.
Require Import ExtrOcamlBasic.
Extraction Language OCaml.

Extraction "../ocaml/model.ml"
  reference_parts abs_parts scheme_range find_scheme find_authority find_path find_query find_fragment slice
  authority_parts find_user_info find_host host_end port user_info_or_host
  segments it_next it_next_back path_is_empty is_abs
  pq_first pq_last pq_segments pq_segments_rev pq_file_name pq_directory pq_parent pq_parent_or_empty pq_normalized_segments
  find_port set_userinfo set_host set_port view window
  set_scheme set_authority set_path Setters.set_query set_fragment abs_set_scheme from_scheme path_mut authority_mut
  get_scheme get_authority get_path get_query get_fragment abs_scheme remove_dot_segments resolve ref_base
  pm_view pm_new pm_from_path pm_push pm_pop pm_clear pm_symbolic_push pm_symbolic_push_pub pm_symbolic_append pm_normalize path_normalized pb_apply seg_texts
  relative_to path_suffix ref_suffix
  dec cmp_ref eq_ref hash_ref cmp_path eq_path hash_path cmp_authority eq_authority hash_authority cmp_key eq_key pct_key raw_key hash_pct hash_raw nsegs
  dparse o_media_type o_base64 o_data b_media_type b_base64 b_data
  segs split join render norm.
