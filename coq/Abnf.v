From Coq Require Import List NArith Bool.
Import ListNotations.
Require Import V.Regex.
Open Scope N_scope.

(* helpers *)
Fixpoint alts (l : list re) : re := match l with [] => Empty | x :: l' => alt2 x (alts l') end.
Fixpoint cats (l : list re) : re := match l with [] => Eps | x :: l' => cat x (cats l') end.
Definition opt (r : re) := alt2 Eps r.
Fixpoint rep_exact (n : nat) (r : re) : re := match n with O => Eps | S n' => cat r (rep_exact n' r) end.
Fixpoint rep_upto (n : nat) (r : re) : re := match n with O => Eps | S n' => opt (cat r (rep_upto n' r)) end.
Definition rep (lo hi : nat) (r : re) := cat (rep_exact lo r) (rep_upto (hi - lo) r).
Definition plus (r : re) := cat r (star r).
Definition ch (c : N) : re := Cls [(c,c)].
Definition chs (l : list N) : cls := map (fun c => (c,c)) l.
Definition ci (c : N) : re := (* case-insensitive ASCII letter literal, RFC 5234 *)
  if (97 <=? c) && (c <=? 122) then Cls [(c - 32, c - 32); (c, c)] else if (65 <=? c) && (c <=? 90) then Cls [(c, c); (c + 32, c + 32)] else ch c.

(* RFC 5234 core rules *)
Definition ALPHA : cls := [(65,90);(97,122)].
Definition DIGIT : cls := [(48,57)].
Definition HEXDIG : cls := DIGIT ++ [(65,70);(97,102)].

Section Grammar.
  Variable ucschar : cls.     (* [] for RFC 3986 *)
  Variable iprivate : cls.    (* [] for RFC 3986 *)

  Definition unreserved : cls := ALPHA ++ DIGIT ++ chs [45;46;95;126].          (* - . _ ~ *)
  Definition iunreserved : cls := unreserved ++ ucschar.
  Definition sub_delims : cls := chs [33;36;38;39;40;41;42;43;44;59;61].         (* ! $ & ' ( ) * + , ; = *)
  Definition pct_encoded : re := cats [ch 37; Cls HEXDIG; Cls HEXDIG].
  Definition ipchar : re := alt2 (Cls (iunreserved ++ sub_delims ++ chs [58;64])) pct_encoded.

  Definition scheme : re := cat (Cls ALPHA) (star (Cls (ALPHA ++ DIGIT ++ chs [43;45;46]))).
  Definition iuserinfo : re := star (alt2 (Cls (iunreserved ++ sub_delims ++ chs [58])) pct_encoded).

  Definition dig := Cls DIGIT.
  Definition dec_octet : re :=
    alts [dig; cat (Cls [(49,57)]) dig; cats [ch 49; dig; dig]; cats [ch 50; Cls [(48,52)]; dig]; cats [ch 50; ch 53; Cls [(48,53)]]].
  Definition IPv4address : re := cats [dec_octet; ch 46; dec_octet; ch 46; dec_octet; ch 46; dec_octet].
  Definition h16 : re := rep 1 4 (Cls HEXDIG).
  Definition ls32 : re := alt2 (cats [h16; ch 58; h16]) IPv4address.
  Definition h16c : re := cat h16 (ch 58).
  Definition pre (n : nat) : re := opt (cat (rep 0 n h16c) h16).                  (* [ *n( h16 ":" ) h16 ] *)
  Definition dcolon : re := cat (ch 58) (ch 58).
  Definition IPv6address : re := alts [
    cat (rep 6 6 h16c) ls32;
    cats [dcolon; rep 5 5 h16c; ls32];
    cats [opt h16; dcolon; rep 4 4 h16c; ls32];
    cats [pre 1; dcolon; rep 3 3 h16c; ls32];
    cats [pre 2; dcolon; rep 2 2 h16c; ls32];
    cats [pre 3; dcolon; h16c; ls32];
    cats [pre 4; dcolon; ls32];
    cats [pre 5; dcolon; h16];
    cats [pre 6; dcolon]].
  Definition IPvFuture : re := cats [ci 118; plus (Cls HEXDIG); ch 46; plus (Cls (unreserved ++ sub_delims ++ chs [58]))].
  Definition IP_literal : re := cats [ch 91; alt2 IPv6address IPvFuture; ch 93].
  Definition ireg_name : re := star (alt2 (Cls (iunreserved ++ sub_delims)) pct_encoded).
  Definition ihost : re := alts [IP_literal; IPv4address; ireg_name].
  Definition port : re := star dig.
  Definition iauthority : re := cats [opt (cat iuserinfo (ch 64)); ihost; opt (cat (ch 58) port)].

  Definition isegment : re := star ipchar.
  Definition isegment_nz : re := plus ipchar.
  Definition isegment_nz_nc : re := plus (alt2 (Cls (iunreserved ++ sub_delims ++ chs [64])) pct_encoded).
  Definition slash := ch 47.
  Definition ipath_abempty : re := star (cat slash isegment).
  Definition ipath_absolute : re := cat slash (opt (cat isegment_nz ipath_abempty)).
  Definition ipath_noscheme : re := cat isegment_nz_nc ipath_abempty.
  Definition ipath_rootless : re := cat isegment_nz ipath_abempty.
  Definition ipath_empty : re := Eps.
  Definition ipath : re := alts [ipath_abempty; ipath_absolute; ipath_noscheme; ipath_rootless; ipath_empty].

  Definition iquery : re := star (alts [ipchar; Cls iprivate; Cls (chs [47;63])]).
  Definition ifragment : re := star (alt2 ipchar (Cls (chs [47;63]))).

  Definition ihier_part : re := alts [cats [slash; slash; iauthority; ipath_abempty]; ipath_absolute; ipath_rootless; ipath_empty].
  Definition IRI : re := cats [scheme; ch 58; ihier_part; opt (cat (ch 63) iquery); opt (cat (ch 35) ifragment)].
  Definition irelative_part : re := alts [cats [slash; slash; iauthority; ipath_abempty]; ipath_absolute; ipath_noscheme; ipath_empty].
  Definition irelative_ref : re := cats [irelative_part; opt (cat (ch 63) iquery); opt (cat (ch 35) ifragment)].
  Definition IRI_reference : re := alt2 IRI irelative_ref.
End Grammar.

(* RFC 3987 *)
Definition ucschar_3987 : cls :=
  [(160,55295); (63744,64975); (65008,65519); (65536,131069); (131072,196605); (196608,262141);
   (262144,327677); (327680,393213); (393216,458749); (458752,524285); (524288,589821); (589824,655357);
   (655360,720893); (720896,786429); (786432,851965); (851968,917501); (921600,983037)].
Definition iprivate_3987 : cls := [(57344,63743); (983040,1048573); (1048576,1114109)].
