(* C04 at the level of the RFC grammar for the PATH-HANDLE mutators: from a VALID reference (every component in its
   RFC language, cross rules respected), push / pop / clear / normalize / symbolic_push / symbolic_append with valid
   segment arguments return -- no panic -- a VALID reference; and so do all finite sequences mixing them with the five
   setters.  Ingredients: the index-level -> text-level refinements (SymProofs), "segments of the result are among
   the input's segments, the argument, '.', '..', ''" (SegsQ), "path of the grammar <-> every segment is a segment
   of the grammar" (PathGrammar, by certificates), and the validity of set_path (ValidSet). *)
From Coq Require Import List NArith Bool Arith Lia.
Import ListNotations.
Require Import V.Regex V.Bisim V.Abnf V.Parse V.ParseProofs V.Bridge V.Factor V.BridgePaths V.C02Bridge V.FactorU V.FactorI
  V.PathSpec V.Splice V.Setters V.Iter V.Push V.PathMut V.PathMutProofs V.SetPath V.SetAuth V.SetScheme V.Reference V.SetFragment V.C05Proofs V.C04Proofs
  V.Shapes V.ValidSet V.ValidSetInst V.C04Valid V.PushWf V.RefPath V.NormProofs V.PopProofs V.SymProofs V.MergeProofs V.SegsQ V.PathGrammar V.PathGrammarInst.
Local Open Scope nat_scope.
Local Strategy opaque [L].
Ltac refl := vm_cast_no_check (eq_refl true).

Section Fam.
  Variables X PX : cls.
  Notation valid := (valid_parts_fam X PX).
  Notation SEG := (isegment X).
  Hypothesis Hwf : forall p, valid p -> wf_parts p.
  Hypothesis Hvsp : forall p v, valid p -> L (ipath X) v -> valid (with_path p (fix_path p v)).
  Hypothesis Hps : forall v, Forall (L SEG) (segs v) -> L (ipath X) v.
  Hypothesis Hsp : forall v, L (ipath X) v -> Forall (L SEG) (segs v).
  Hypothesis j_ab : incl_check (ipath_abempty X) (ipath X) = true.
  Hypothesis j_abs : incl_check (ipath_absolute X) (ipath X) = true.
  Hypothesis j_root : incl_check (ipath_rootless X) (ipath X) = true.
  Hypothesis j_ns : incl_check (ipath_noscheme X) (ipath X) = true.
  Hypothesis j_eps : incl_check Eps (ipath X) = true.
  Hypothesis j_dots : incl_check (Alt (ch DOT) (Cat (ch DOT) (ch DOT))) SEG = true.
  Hypothesis j_noslash : incl_check SEG (Star (Cls not_slash)) = true.
  Hypothesis j_noqh : incl_check SEG (Star (Cls not_qh)) = true.

  Lemma seg_dot : L SEG [DOT].
  Proof. apply (incl_check_sound _ _ j_dots). apply Alt_L. left. apply ch_L. reflexivity. Qed.
  Lemma seg_dotdot : L SEG DOTDOT.
  Proof. apply (incl_check_sound _ _ j_dots). apply Alt_L. right. apply Cat_L. exists [DOT], [DOT]. split; [reflexivity | split; apply ch_L; reflexivity]. Qed.
  Lemma seg_nil : L SEG [].
  Proof. unfold isegment. apply star_L. apply star_nil. Qed.
  Lemma seg_is_arg s : L SEG s -> seg_arg s.
  Proof.
    intros H. split.
    - pose proof (incl_check_sound _ _ j_noslash _ H) as H1. apply star_cls_forall in H1. unfold noslash. eapply Forall_impl; [|exact H1]. intros c Hc. now apply in_not_slash.
    - eapply star_none_of; [apply in_not_qh | exact j_noqh | exact H].
  Qed.

  Lemma valid_path p : valid p -> L (ipath X) (p_path p).
  Proof.
    intros (_ & _ & Hp & _). unfold path_ok in Hp. destruct (p_authority p), (p_scheme p).
    - exact (incl_check_sound _ _ j_ab _ Hp).
    - exact (incl_check_sound _ _ j_ab _ Hp).
    - destruct Hp as [H|[H|H]]; [exact (incl_check_sound _ _ j_abs _ H) | exact (incl_check_sound _ _ j_root _ H) | rewrite H; apply (incl_check_sound _ _ j_eps); apply Eps_L; reflexivity].
    - destruct Hp as [H|[H|H]]; [exact (incl_check_sound _ _ j_abs _ H) | exact (incl_check_sound _ _ j_ns _ H) | rewrite H; apply (incl_check_sound _ _ j_eps); apply Eps_L; reflexivity].
  Qed.

  (* a well-formed result whose segments are segments of the grammar is valid *)
  Lemma keep p v' : valid p -> wf_parts (with_path p v') -> Forall (L SEG) (segs v') -> valid (with_path p v').
  Proof.
    intros V W Hs. pose proof (wf_parts_path _ W) as Wp. cbn [with_path p_scheme p_authority p_path] in Wp.
    rewrite <- (fix_path_id p v' Wp). apply Hvsp; [exact V | now apply Hps].
  Qed.

  Inductive pop_ := VPush (seg : str) | VPop | VClear | VNormalize | VSymPush (seg : str) | VSymAppend (segs : list str).
  Definition parg (o : pop_) : Prop :=
    match o with
    | VPush s | VSymPush s => L SEG s
    | VSymAppend l => Forall (L SEG) l
    | _ => True
    end.
  Definition pstep (buf : str) (o : pop_) : option str :=
    match o with
    | VPush s => ref_push buf s
    | VPop => ref_pop buf
    | VClear => ref_clear buf
    | VNormalize => ref_normalize buf
    | VSymPush s => ref_sympush buf s
    | VSymAppend l => ref_symappend buf l
    end.

  Theorem pstep_valid p o : valid p -> parg o -> exists p', pstep (compose p) o = Some (compose p') /\ valid p'.
  Proof.
    intros V A. pose proof (Hwf p V) as W. pose proof (Hsp _ (valid_path p V)) as Hs.
    destruct o as [s| | | |s|l]; cbn [pstep parg] in *.
    - destruct (hpush _ _ _ _ _ _ s (path_mut_hinv p W) (seg_is_arg s A)) as (h' & E & HI).
      destruct (hinv_result p h' _ W HI) as [Eb Wp]. eexists. split; [unfold ref_push; rewrite E; cbn [option_map]; rewrite Eb; reflexivity|].
      apply (keep p _ V Wp). apply (push_Q (L SEG) seg_dot); [exact Hs | exact A | exact (proj1 (seg_is_arg s A))].
    - destruct (ref_pop_spec p W) as [E Wp]. eexists. split; [exact E|]. apply (keep p _ V Wp). now apply (pop_Q (L SEG) seg_dot seg_dotdot).
    - destruct (ref_clear_spec p W) as [E Wp]. eexists. split; [exact E|]. apply (keep p _ V Wp). apply clear_Q.
    - destruct (ref_normalize_spec p W) as [E Wp]. eexists. split; [exact E|]. apply (keep p _ V Wp). now apply (normalize_Q (L SEG) seg_dot).
    - destruct (ref_sympush_spec p W s (seg_is_arg s A)) as [E Wp]. eexists. split; [exact E|]. apply (keep p _ V Wp).
      apply (sympush_Q (L SEG) seg_dot seg_dotdot seg_nil); [exact Hs | exact A | exact (proj1 (seg_is_arg s A))].
    - assert (Hargs : Forall seg_arg l) by (eapply Forall_impl; [|exact A]; intros x; apply seg_is_arg).
      destruct (ref_symappend_spec p W l Hargs) as [E Wp]. eexists. split; [exact E|]. apply (keep p _ V Wp).
      apply (append_Q (L SEG) seg_dot seg_dotdot seg_nil); [exact Hs|]. eapply Forall_impl; [|exact A]. intros x Hx. split; [exact Hx | exact (proj1 (seg_is_arg x Hx))].
  Qed.
End Fam.

(* ---------- instances ---------- *)
Notation P := C02Bridge.P.

Definition pstep_valid_U := pstep_valid U U valid_parts_wf_U vsp_U path_of_segs_U segs_of_path_U InstU.i14a InstU.i14b InstU.i14c k_ns_U k_eps_U k_dots_U pg3_U k_noqh_U.
Definition pstep_valid_I := pstep_valid I P valid_parts_wf_I vsp_I path_of_segs_I segs_of_path_I InstI.i14a InstI.i14b InstI.i14c k_ns_I k_eps_I k_dots_I pg3_I k_noqh_I.

(* ---------- sequences mixing the five setters and the path-handle mutators ---------- *)
Inductive vop := VSet (o : sop) | VPath (o : pop_).
Definition vstep (buf : str) (o : vop) : option str := match o with VSet o => step buf o | VPath o => pstep buf o end.
Fixpoint vrun (ops : list vop) (buf : str) : option str := match ops with [] => Some buf | o :: r => bind (vstep buf o) (vrun r) end.
Definition vok (X PX : cls) (o : vop) : Prop := match o with VSet o => varg X PX o | VPath o => parg X o end.

Theorem valid_mixed_U ops : forall s, L (IRI_reference U U) s -> Forall (vok U U) ops ->
  exists s', vrun ops s = Some s' /\ L (IRI_reference U U) s'.
Proof.
  intros s H A. apply uri_ref_shape in H. apply REF_factor in H as (p & V & ->). revert p V.
  induction A as [|o r Ao _ IH]; intros p V; cbn [vrun].
  - eexists; split; [reflexivity | now apply valid_in_language_U].
  - destruct o as [o|o]; cbn [vstep vok] in *.
    + destruct (vstep_U p o V Ao) as (p1 & E & V1). rewrite E. cbn [bind]. now apply IH.
    + destruct (pstep_valid_U p o V Ao) as (p1 & E & V1). rewrite E. cbn [bind]. now apply IH.
Qed.
Theorem valid_mixed_I ops : forall s, L (IRI_reference I P) s -> Forall (vok I P) ops ->
  exists s', vrun ops s = Some s' /\ L (IRI_reference I P) s'.
Proof.
  intros s H A. apply iri_ref_shape in H. apply REF_factor in H as (p & V & ->). revert p V.
  induction A as [|o r Ao _ IH]; intros p V; cbn [vrun].
  - eexists; split; [reflexivity | now apply valid_in_language_I].
  - destruct o as [o|o]; cbn [vstep vok] in *.
    + destruct (vstep_I p o V Ao) as (p1 & E & V1). rewrite E. cbn [bind]. now apply IH.
    + destruct (pstep_valid_I p o V Ao) as (p1 & E & V1). rewrite E. cbn [bind]. now apply IH.
Qed.
