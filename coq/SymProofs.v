(* C04 / C10 / C06: pop, in-place normalisation and the symbolic operations at the level of the handle and of the
   enclosing reference: each returns (no panic), the handle invariant is kept, the text-level result is given by
   the functions pop_text / normalize1 / sym1 / sym_append1, and the path stays well-formed in its context. *)
From Coq Require Import List NArith Bool Arith Lia.
Import ListNotations.
Require Import V.Regex V.Parse V.ParseProofs V.Parse2 V.Parse2Proofs V.ScanValues V.PathSpec V.Splice V.Setters V.Iter V.PathQ V.Push
  V.SetPath V.SetAuth V.SetScheme V.PathMut V.PathMutProofs V.Reference V.C05Proofs V.PushWf V.RefPath V.NormProofs V.PopProofs.
Local Open Scope nat_scope.

(* ---------- text level ---------- *)
Definition sym1 (start0 fa : bool) (v seg : str) : str * bool :=
  if is_dot seg then (v, true)
  else if is_dotdot seg then (pop_text start0 fa v, true)
  else if negb (is_nil seg) || negb (path_is_empty v) then (push start0 fa v seg, false)
  else (v, false).
Fixpoint sym_fold1 (start0 fa : bool) (v : str) (open : bool) (segs : list str) : str * bool :=
  match segs with
  | [] => (v, open)
  | s :: rest => let '(v', o) := sym1 start0 fa v s in sym_fold1 start0 fa v' o rest
  end.
Definition close1 (start0 fa : bool) (r : str * bool) : str :=
  let '(v, open) := r in if open && negb (path_is_empty v) then push start0 fa v [] else v.
Definition sym_append1 (start0 fa : bool) (v : str) (segs : list str) : str := close1 start0 fa (sym_fold1 start0 fa v false segs).
Definition sym_push1 (start0 fa : bool) (v seg : str) : str := close1 start0 fa (sym1 start0 fa v seg).

(* ---------- the handle invariant with its context ---------- *)
Definition HInv (hs ha : bool) (h : pm) (before v after : str) : Prop :=
  PInv h before v after /\ pm_fa h = ha /\ (pm_start h =? 0) = negb hs && negb ha /\ wf_path_in hs ha v.

Definition seg_arg (seg : str) : Prop := noslash seg /\ none_of [QM; HASH] seg.

Lemma hpush hs ha h before v after seg : HInv hs ha h before v after -> seg_arg seg ->
  exists h', pm_push h seg = Some h' /\ HInv hs ha h' before (push (negb hs && negb ha) ha v seg) after.
Proof.
  intros (I & Hfa & Hst & W) [A1 A2]. destruct (pm_push_refines _ _ _ _ seg I) as (h' & E & I' & Hfa' & Hst').
  rewrite Hfa, Hst in I'. exists h'. split; [exact E|]. split; [exact I' | split; [congruence | split; [rewrite Hst'; exact Hst | now apply push_wf]]].
Qed.
Lemma hpop hs ha h before v after : HInv hs ha h before v after ->
  exists h', pm_pop h = Some h' /\ HInv hs ha h' before (pop_text (negb hs && negb ha) ha v) after.
Proof.
  intros (I & Hfa & Hst & W). pose proof (pm_pop_refines _ _ _ _ I) as R.
  rewrite (pop1_spec _ _ _ (wp_qh _ _ _ W)), Hfa, Hst in R. destruct R as (h' & E & I' & Hfa' & Hst').
  exists h'. split; [exact E|]. split; [exact I' | split; [congruence | split; [rewrite Hst'; exact Hst | now apply pop_text_wf]]].
Qed.
Lemma hnormalize hs ha h before v after : HInv hs ha h before v after ->
  exists h', pm_normalize h = Some h' /\ HInv hs ha h' before (normalize1 (negb hs && negb ha) ha v) after.
Proof.
  intros (I & Hfa & Hst & W). destruct (pm_normalize_refines _ _ _ _ I (wp_qh _ _ _ W)) as (h' & E & I' & Hfa' & Hst').
  rewrite Hfa, Hst in I'. exists h'. split; [exact E|]. split; [exact I' | split; [congruence | split; [rewrite Hst'; exact Hst | now apply normalize1_wf]]].
Qed.

Lemma dot_not_nil seg : is_dot seg = false -> is_dotdot seg = false -> True. Proof. trivial. Qed.

Lemma hsym hs ha h before v after seg : HInv hs ha h before v after -> seg_arg seg ->
  exists h', pm_symbolic_push h seg = Some (h', snd (sym1 (negb hs && negb ha) ha v seg)) /\
             HInv hs ha h' before (fst (sym1 (negb hs && negb ha) ha v seg)) after.
Proof.
  intros HI A. unfold pm_symbolic_push, sym1. destruct (is_dot seg); [exists h; split; [reflexivity | exact HI]|].
  destruct (is_dotdot seg).
  - destruct (hpop _ _ _ _ _ _ HI) as (h' & E & HI'). rewrite E. cbn [bind]. exists h'. split; [reflexivity | exact HI'].
  - destruct HI as (I & R). rewrite (pm_view_inv _ _ _ _ I). cbn [bind].
    destruct (negb (is_nil seg) || negb (path_is_empty v)).
    + destruct (hpush _ _ _ _ _ _ seg (conj I R) A) as (h' & E & HI'). rewrite E. cbn [bind]. exists h'. split; [reflexivity | exact HI'].
    + exists h. split; [reflexivity | exact (conj I R)].
Qed.
Lemma hfold hs ha segs : Forall seg_arg segs -> forall h before v after open, HInv hs ha h before v after ->
  exists h', sym_fold h open segs = Some (h', snd (sym_fold1 (negb hs && negb ha) ha v open segs)) /\
             HInv hs ha h' before (fst (sym_fold1 (negb hs && negb ha) ha v open segs)) after.
Proof.
  induction 1 as [|s rest Hs _ IH]; intros h before v after open HI; cbn [sym_fold sym_fold1].
  - exists h. split; [reflexivity | exact HI].
  - destruct (hsym _ _ _ _ _ _ s HI Hs) as (h1 & E1 & HI1). rewrite E1. cbn [bind].
    destruct (sym1 (negb hs && negb ha) ha v s) as [v1 o1]. cbn [fst snd] in *. now apply IH.
Qed.
Lemma nil_arg : seg_arg []. Proof. split; constructor. Qed.
Lemma hclose hs ha h before v after open : HInv hs ha h before v after ->
  exists h', close_open (h, open) = Some h' /\ HInv hs ha h' before (close1 (negb hs && negb ha) ha (v, open)) after.
Proof.
  intros HI. unfold close_open, close1. pose proof HI as (I & _). rewrite (pm_view_inv _ _ _ _ I). cbn [bind].
  destruct (open && negb (path_is_empty v)); [apply hpush; [exact HI | exact nil_arg] | exists h; split; [reflexivity | exact HI]].
Qed.
Theorem happend hs ha h before v after segs : HInv hs ha h before v after -> Forall seg_arg segs ->
  exists h', pm_symbolic_append h segs = Some h' /\ HInv hs ha h' before (sym_append1 (negb hs && negb ha) ha v segs) after.
Proof.
  intros HI A. unfold pm_symbolic_append, sym_append1. destruct (hfold hs ha segs A _ _ _ _ false HI) as (h1 & E1 & HI1). rewrite E1. cbn [bind].
  destruct (sym_fold1 (negb hs && negb ha) ha v false segs) as [v1 o1]. cbn [fst snd] in *. now apply hclose.
Qed.
Theorem hsympush hs ha h before v after seg : HInv hs ha h before v after -> seg_arg seg ->
  exists h', pm_symbolic_push_pub h seg = Some h' /\ HInv hs ha h' before (sym_push1 (negb hs && negb ha) ha v seg) after.
Proof.
  intros HI A. unfold pm_symbolic_push_pub, sym_push1. destruct (hsym _ _ _ _ _ _ seg HI A) as (h1 & E1 & HI1). rewrite E1. cbn [bind].
  destruct (sym1 (negb hs && negb ha) ha v seg) as [v1 o1]. cbn [fst snd] in *. now apply hclose.
Qed.

(* ---------- at the level of the enclosing reference ---------- *)
Lemma path_mut_hinv p : wf_parts p ->
  HInv (has (p_scheme p)) (has (p_authority p)) (path_mut (compose p)) (pre_of p) (p_path p) (tail_of p).
Proof.
  intros W. destruct (path_mut_inv p W) as (I & Hfa & Hst). split; [exact I | split; [exact Hfa | split; [rewrite Hst; apply pre_len0' | apply (wf_parts_path p W)]]].
Qed.
Lemma hinv_result p h v' : wf_parts p -> HInv (has (p_scheme p)) (has (p_authority p)) h (pre_of p) v' (tail_of p) ->
  pm_buf h = compose (with_path p v') /\ wf_parts (with_path p v').
Proof.
  intros W ((Hb & _ & _) & _ & _ & Wv). split; [rewrite Hb, compose_with_path; reflexivity | now apply with_path_wf].
Qed.

Definition ref_pop (buf : str) : option str := option_map pm_buf (pm_pop (path_mut buf)).
Definition ref_normalize (buf : str) : option str := option_map pm_buf (pm_normalize (path_mut buf)).
Definition ref_sympush (buf seg : str) : option str := option_map pm_buf (pm_symbolic_push_pub (path_mut buf) seg).
Definition ref_symappend (buf : str) (segs : list str) : option str := option_map pm_buf (pm_symbolic_append (path_mut buf) segs).

Section Ref.
  Variable p : parts.
  Hypothesis W : wf_parts p.
  Local Notation s0 := (negb (has (p_scheme p)) && negb (has (p_authority p))).
  Local Notation fa := (has (p_authority p)).
  Theorem ref_pop_spec : ref_pop (compose p) = Some (compose (with_path p (pop_text s0 fa (p_path p)))) /\ wf_parts (with_path p (pop_text s0 fa (p_path p))).
  Proof. destruct (hpop _ _ _ _ _ _ (path_mut_hinv p W)) as (h' & E & HI). destruct (hinv_result p h' _ W HI) as [Eb Wp]. unfold ref_pop. rewrite E. cbn [option_map]. rewrite Eb. auto. Qed.
  Theorem ref_normalize_spec : ref_normalize (compose p) = Some (compose (with_path p (normalize1 s0 fa (p_path p)))) /\ wf_parts (with_path p (normalize1 s0 fa (p_path p))).
  Proof. destruct (hnormalize _ _ _ _ _ _ (path_mut_hinv p W)) as (h' & E & HI). destruct (hinv_result p h' _ W HI) as [Eb Wp]. unfold ref_normalize. rewrite E. cbn [option_map]. rewrite Eb. auto. Qed.
  Theorem ref_sympush_spec seg : seg_arg seg ->
    ref_sympush (compose p) seg = Some (compose (with_path p (sym_push1 s0 fa (p_path p) seg))) /\ wf_parts (with_path p (sym_push1 s0 fa (p_path p) seg)).
  Proof. intros A. destruct (hsympush _ _ _ _ _ _ seg (path_mut_hinv p W) A) as (h' & E & HI). destruct (hinv_result p h' _ W HI) as [Eb Wp]. unfold ref_sympush. rewrite E. cbn [option_map]. rewrite Eb. auto. Qed.
  Theorem ref_symappend_spec segs : Forall seg_arg segs ->
    ref_symappend (compose p) segs = Some (compose (with_path p (sym_append1 s0 fa (p_path p) segs))) /\ wf_parts (with_path p (sym_append1 s0 fa (p_path p) segs)).
  Proof. intros A. destruct (happend _ _ _ _ _ _ segs (path_mut_hinv p W) A) as (h' & E & HI). destruct (hinv_result p h' _ W HI) as [Eb Wp]. unfold ref_symappend. rewrite E. cbn [option_map]. rewrite Eb. auto. Qed.
End Ref.
