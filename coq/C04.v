(* Property C04 -- safe mutation never breaks well-formedness.  Statements only.
   Proved part: all finite sequences of the five component setters (any valid arguments incl. removal).
   The other mutators (path and authority handles, normalisation, resolution) are covered by their
   functional theorems where proved (C10 push law, C11 set_host) and by the correspondence check. *)
From Coq Require Import List NArith Bool Arith.
Import ListNotations.
Require Import V.Regex V.Parse V.ParseProofs V.Splice V.Setters V.C04Proofs.
Local Open Scope nat_scope.

Theorem C04_setter_sequences_partial : forall (ops : list sop) (p : parts), wf_parts p -> Forall arg_ok ops ->
  exists p', run ops (compose p) = Some (compose p') /\ wf_parts p'.
Proof. exact run_wf. Qed.
Print Assumptions C04_setter_sequences_partial.

(* totality of the splice: allocate_range never indexes out of bounds on a range inside the buffer *)
Theorem C04_splice_total : forall A O T len, exists J, length J = len /\
  allocate_range (A ++ O ++ T) (length A) (length A + length O) len = Some (A ++ J ++ T).
Proof. exact allocate_range_spec. Qed.
Print Assumptions C04_splice_total.

Example C04_example :
  run [OpScheme None; OpAuthority (Some [104]); OpPath [49;97;58;98]; OpAuthority None; OpQuery (Some [])]%N [115;58;97;58;98]%N
  = Some [47;49;97;58;98;63]%N.    (* s:a:b -> ./a:b -> //h/./a:b ... -> /1a:b? *)
Proof. vm_compute. reflexivity. Qed.
