(* Property C04 -- safe mutation never breaks well-formedness.  Statements only.
   Proved: all finite sequences of the five component setters (any valid arguments incl. removal), at delimiter level
   and at grammar level; all finite sequences mixing the setters with every path-handle mutator (push, pop, clear,
   normalize, symbolic_push, symbolic_append), in-place resolution (all five branches) and authority-handle histories. *)
From Coq Require Import List NArith Bool Arith.
Import ListNotations.
Require Import V.Regex V.Parse V.ParseProofs V.PathSpec V.Splice V.Setters V.Push V.Auth V.AuthProofs V.AuthMut V.AuthMutProofs2 V.RefPath V.RefAuth V.C04Proofs V.C04Proofs2 V.Abnf V.BridgePaths V.C02Bridge V.ValidSetInst V.C04Valid V.C04Valid2 V.ResolveValid V.C04Valid3 V.PathBufValid V.AuthMut V.AuthMutProofs2 V.C11Valid V.C04Valid4.
Local Open Scope nat_scope.

Theorem C04_setter_sequences_partial : forall (ops : list sop) (p : parts), wf_parts p -> Forall arg_ok ops ->
  exists p', run ops (compose p) = Some (compose p') /\ wf_parts p'.
Proof. exact run_wf. Qed.
Print Assumptions C04_setter_sequences_partial.

(* AT THE LEVEL OF THE RFC GRAMMAR: from ANY string of the URI-reference (IRI-reference) language, any finite
   sequence of the five setters whose arguments are valid values of their component types (or removals)
   returns -- no panic -- a string of the same language; with C01 (validator = language, re-proved on every run)
   the buffer re-parses as the same type after every call. *)
Theorem C04_setters_keep_validity_URI : forall ops s, L (IRI_reference U U) s -> Forall (C04Valid.varg U U) ops ->
  exists s', run ops s = Some s' /\ L (IRI_reference U U) s'.
Proof. exact valid_sequences_U. Qed.
Print Assumptions C04_setters_keep_validity_URI.
Theorem C04_setters_keep_validity_IRI : forall ops s, L (IRI_reference I C02Bridge.P) s -> Forall (C04Valid.varg I C02Bridge.P) ops ->
  exists s', run ops s = Some s' /\ L (IRI_reference I C02Bridge.P) s'.
Proof. exact valid_sequences_I. Qed.
Print Assumptions C04_setters_keep_validity_IRI.

(* ... and the same AT THE LEVEL OF THE RFC GRAMMAR for sequences that mix the five setters with the PATH-HANDLE
   mutators push / pop / clear / normalize / symbolic_push / symbolic_append (segment arguments in the segment
   language): the text stays in the URI-reference (IRI-reference) language, no call panics.  (Index-level handle ->
   text-level functions; segments of every result are input segments, the argument, ".", ".." or ""; a text is a path
   of the grammar iff all pieces of its '/'-split are segments of the grammar -- two certificates per family.) *)
Theorem C04_mixed_validity_URI : forall ops s, L (IRI_reference U U) s -> Forall (vok U U) ops ->
  exists s', vrun ops s = Some s' /\ L (IRI_reference U U) s'.
Proof. exact valid_mixed_U. Qed.
Print Assumptions C04_mixed_validity_URI.
Theorem C04_mixed_validity_IRI : forall ops s, L (IRI_reference I C02Bridge.P) s -> Forall (vok I C02Bridge.P) ops ->
  exists s', vrun ops s = Some s' /\ L (IRI_reference I C02Bridge.P) s'.
Proof. exact valid_mixed_I. Qed.
Print Assumptions C04_mixed_validity_IRI.

(* ... and with IN-PLACE RESOLUTION against any URI (IRI) added to the mix -- all five branches of resolve, each shown
   to return a reference whose every component is in its RFC language: THE PROPERTY at grammar level for every safe
   mutator of a reference except the authority handle (whose own grammar-level statement is C11_history_valid_URI, _IRI) *)
Theorem C04_all_mutators_keep_validity_URI : forall ops s, L (IRI_reference U U) s -> Forall (wok U U) ops ->
  exists s', wrun ops s = Some s' /\ L (IRI_reference U U) s'.
Proof. exact valid_all_U. Qed.
Print Assumptions C04_all_mutators_keep_validity_URI.
Theorem C04_all_mutators_keep_validity_IRI : forall ops s, L (IRI_reference I C02Bridge.P) s -> Forall (wok I C02Bridge.P) ops ->
  exists s', wrun ops s = Some s' /\ L (IRI_reference I C02Bridge.P) s'.
Proof. exact valid_all_I. Qed.
Print Assumptions C04_all_mutators_keep_validity_IRI.

(* THE PROPERTY, complete, at the level of the RFC grammar: from ANY string of the URI-reference (IRI-reference)
   language, ANY finite sequence of safe mutators -- the five setters, the six path-handle mutators, in-place
   resolution against any URI (IRI), and whole histories of set_userinfo / set_host / set_port through an authority
   handle -- with arguments valid for their types, runs without panic in the index-level model and leaves a string of
   the same language; with C01 (validator = language, re-proved for the current tree on every run) the buffer
   re-parses as the same type after every call. *)
Theorem C04_every_mutator_keeps_validity_URI : forall ops s, L (IRI_reference U U) s -> Forall (xok U U) ops ->
  exists s', xrun ops s = Some s' /\ L (IRI_reference U U) s'.
Proof. exact valid_every_U. Qed.
Print Assumptions C04_every_mutator_keeps_validity_URI.
Theorem C04_every_mutator_keeps_validity_IRI : forall ops s, L (IRI_reference I C02Bridge.P) s -> Forall (xok I C02Bridge.P) ops ->
  exists s', xrun ops s = Some s' /\ L (IRI_reference I C02Bridge.P) s'.
Proof. exact valid_every_I. Qed.
Print Assumptions C04_every_mutator_keeps_validity_IRI.

(* THE OWNED PATH TYPE (PathBuf: every call takes a fresh handle on the whole buffer -- start = 0, follows_authority):
   any finite sequence of push / pop / clear / normalize / symbolic_push / symbolic_append with segment arguments of the
   grammar maps a path of the grammar to a path of the grammar, without panic *)
Theorem C04_pathbuf_sequences_URI : forall ops p, L (ipath U) p -> Forall (barg U) ops -> exists p', brun ops p = Some p' /\ L (ipath U) p'.
Proof. exact pathbuf_sequences_U. Qed.
Print Assumptions C04_pathbuf_sequences_URI.
Theorem C04_pathbuf_sequences_IRI : forall ops p, L (ipath I) p -> Forall (barg I) ops -> exists p', brun ops p = Some p' /\ L (ipath I) p'.
Proof. exact pathbuf_sequences_I. Qed.
Print Assumptions C04_pathbuf_sequences_IRI.

(* the same for sequences that MIX the five setters, path push / pop / clear / normalize / symbolic_push /
   symbolic_append (through a handle taken on the reference), in-place resolution against any well-formed base that
   has a scheme, and whole histories of
   set_userinfo / set_host / set_port edits through one authority handle (the invariant additionally says that
   the authority, when present, is [userinfo@]host[:port] with delimiter-well-formed parts): every call returns
   (no panic: all index arithmetic is checked in the model) and the buffer is again compose of such parts.
   The owned types outside a reference: PathBuf is C04_pathbuf_sequences_URI / _IRI above; AuthorityBuf is the case
   before = after = [] of C11_history and C11_history_valid_URI / _IRI. *)
Theorem C04_mixed_sequences_partial : forall (ms : list mop) (p : parts), wf_parts p -> auth_shape p -> Forall marg_ok ms ->
  exists p', mrun ms (compose p) = Some (compose p') /\ wf_parts p' /\ auth_shape p'.
Proof. exact mrun_wf. Qed.
Print Assumptions C04_mixed_sequences_partial.

(* totality of the splice: allocate_range never indexes out of bounds on a range inside the buffer *)
Theorem C04_splice_total : forall A O T len, exists J, length J = len /\
  allocate_range (A ++ O ++ T) (length A) (length A + length O) len = Some (A ++ J ++ T).
Proof. exact allocate_range_spec. Qed.
Print Assumptions C04_splice_total.

Example C04_example :
  run [OpScheme None; OpAuthority (Some [104]); OpPath [49;97;58;98]; OpAuthority None; OpQuery (Some [])]%N [115;58;97;58;98]%N
  = Some [47;49;97;58;98;63]%N.    (* s:a:b -> ./a:b -> //h/./a:b ... -> /1a:b? *)
Proof. vm_compute. reflexivity. Qed.
