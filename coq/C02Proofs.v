(* Assembly of the C02 chain: RFC language -> valid parts -> delimiter well-formedness -> every
   scanner returns the expected range, and the ranges denote the components. *)
From Coq Require Import List NArith Bool Arith Lia.
Import ListNotations.
Require Import V.Regex V.Bisim V.Abnf V.Parse V.ParseProofs V.Parse2 V.Parse2Proofs V.ScanValues V.Bridge V.Factor V.BridgePaths
  V.C02Bridge V.FactorU V.FactorI.
Local Open Scope nat_scope.

Definition decomposition_ok (s : str) (p : parts) : Prop :=
  s = compose p /\
  reference_parts s 0 = expected p /\
  find_scheme s 0 = r_scheme (expected p) /\
  to_opt (find_authority s 0) = r_authority (expected p) /\
  find_path s 0 = r_path (expected p) /\
  to_opt (find_query s 0) = r_query (expected p) /\
  to_opt (find_fragment s 0) = r_fragment (expected p).

Theorem decomposition_compose p : wf_parts p -> decomposition_ok (compose p) p.
Proof.
  intros W. pose proof (reference_parts_compose p W) as E. unfold decomposition_ok. rewrite <- E.
  split; [reflexivity|]. split; [reflexivity|]. split; [apply (find_scheme_compose p W)|].
  split; [apply find_authority_is_parts|]. split; [apply find_path_is_parts|].
  split; [apply (find_query_compose p W) | apply (find_fragment_compose p W)].
Qed.

(* the ranges of `expected p` denote the components *)
Lemma slice_at (pre x post : str) : slice (pre ++ x ++ post) (length pre, length pre + length x) = x.
Proof.
  unfold slice. cbn [fst snd]. rewrite skipn_app_len.
  replace (length pre + length x - length pre) with (length x) by lia.
  rewrite firstn_app, Nat.sub_diag, firstn_all. simpl. apply app_nil_r.
Qed.
Definition oslice (s : str) (o : option range) : option str := option_map (slice s) o.

Theorem expected_slices p :
  oslice (compose p) (r_scheme (expected p)) = p_scheme p /\
  oslice (compose p) (r_authority (expected p)) = p_authority p /\
  slice (compose p) (r_path (expected p)) = p_path p /\
  oslice (compose p) (r_query (expected p)) = p_query p /\
  oslice (compose p) (r_fragment (expected p)) = p_fragment p.
Proof.
  destruct p as [sch auth path q f]. unfold expected, compose, tail_of, q_end, olen, oslice. cbn [p_scheme p_authority p_path p_query p_fragment r_scheme r_authority r_path r_query r_fragment option_map].
  repeat split.
  - destruct sch as [s|]; cbn [option_map opt_post]; [|reflexivity]. f_equal.
    change (slice (([] ++ s ++ [COLON]) ++ opt_pre [SLASH; SLASH] auth ++ path ++ opt_pre [QM] q ++ opt_pre [HASH] f) (length (@nil N), length s) = s).
    rewrite <- !app_assoc. exact (slice_at [] s _).
  - destruct auth as [a|]; cbn [option_map opt_pre]; [|reflexivity]. f_equal.
    replace (opt_post sch [COLON] ++ ([SLASH; SLASH] ++ a) ++ path ++ opt_pre [QM] q ++ opt_pre [HASH] f)
      with ((opt_post sch [COLON] ++ [SLASH; SLASH]) ++ a ++ path ++ opt_pre [QM] q ++ opt_pre [HASH] f) by (rewrite <- !app_assoc; reflexivity).
    replace (match sch with Some s => length s + 1 | None => 0 end + 2) with (length (opt_post sch [COLON] ++ [SLASH; SLASH]))
      by (destruct sch; cbn [opt_post]; rewrite ?app_length; cbn [length]; lia).
    apply slice_at.
  - replace (opt_post sch [COLON] ++ opt_pre [SLASH; SLASH] auth ++ path ++ opt_pre [QM] q ++ opt_pre [HASH] f)
      with ((opt_post sch [COLON] ++ opt_pre [SLASH; SLASH] auth) ++ path ++ opt_pre [QM] q ++ opt_pre [HASH] f) by (rewrite <- !app_assoc; reflexivity).
    replace (match sch with Some s => length s + 1 | None => 0 end + match auth with Some s => length s + 2 | None => 0 end)
      with (length (opt_post sch [COLON] ++ opt_pre [SLASH; SLASH] auth))
      by (destruct sch, auth; cbn [opt_post opt_pre]; rewrite ?app_length; cbn [length]; rewrite ?app_length; cbn [length]; lia).
    apply slice_at.
  - destruct q as [qq|]; cbn [option_map opt_pre]; [|reflexivity]. f_equal.
    replace (opt_post sch [COLON] ++ opt_pre [SLASH; SLASH] auth ++ path ++ ([QM] ++ qq) ++ opt_pre [HASH] f)
      with ((opt_post sch [COLON] ++ opt_pre [SLASH; SLASH] auth ++ path ++ [QM]) ++ qq ++ opt_pre [HASH] f) by (rewrite <- !app_assoc; reflexivity).
    set (pre := opt_post sch [COLON] ++ opt_pre [SLASH; SLASH] auth ++ path ++ [QM]).
    assert (Hl : length pre = match sch with Some s => length s + 1 | None => 0 end + match auth with Some s => length s + 2 | None => 0 end + length path + 1).
    { unfold pre. destruct sch, auth; cbn [opt_post opt_pre]; rewrite ?app_length; cbn [length]; rewrite ?app_length; cbn [length]; rewrite ?app_length; cbn [length]; lia. }
    rewrite <- Hl. replace (length pre - 1 + 1 + length qq) with (length pre + length qq) by lia. apply slice_at.
  - destruct f as [ff|]; cbn [option_map opt_pre]; [|reflexivity]. f_equal.
    set (whole := opt_post sch [COLON] ++ opt_pre [SLASH; SLASH] auth ++ path ++ opt_pre [QM] q ++ [HASH] ++ ff).
    set (pre := opt_post sch [COLON] ++ opt_pre [SLASH; SLASH] auth ++ path ++ opt_pre [QM] q ++ [HASH]).
    assert (Hw : whole = pre ++ ff ++ []) by (unfold whole, pre; rewrite app_nil_r, <- !app_assoc; reflexivity).
    assert (Hl : length pre = match q with Some _ => match sch with Some s => length s + 1 | None => 0 end + match auth with Some s => length s + 2 | None => 0 end + length path + 1 + length (match q with Some x => x | None => [] end)
                               | None => match sch with Some s => length s + 1 | None => 0 end + match auth with Some s => length s + 2 | None => 0 end + length path end + 1).
    { unfold pre. destruct sch, auth, q; cbn [opt_post opt_pre]; rewrite ?app_length; cbn [length]; rewrite ?app_length; cbn [length]; rewrite ?app_length; cbn [length]; rewrite ?app_length; cbn [length]; lia. }
    rewrite Hw.
    replace (length (pre ++ ff ++ [])) with (length pre + length ff) by (rewrite !app_length; cbn [length]; lia).
    destruct q as [qq|]; rewrite <- Hl; apply slice_at.
Qed.

(* Uri / Iri: parse::parts and parse::scheme agree with the reference decomposition *)
Lemma scheme_range_compose p s : wf_parts p -> p_scheme p = Some s -> scheme_range (compose p) 0 = (0, length s).
Proof.
  intros [Hs _ _ _ _ _ _] Es. unfold scheme_range, compose. rewrite Es. cbn [opt_post skipn].
  destruct (Hs s Es) as [_ Hs2]. rewrite <- app_assoc. cbn [app].
  rewrite scan_app.
  - reflexivity.
  - eapply Forall_impl; [|exact Hs2]. intros c Hc. cbv beta in Hc. kill_is c. reflexivity.
  - right. eexists _, _. split; [reflexivity|]. reflexivity.
Qed.

Theorem abs_parts_compose p s : wf_parts p -> p_scheme p = Some s -> abs_parts (compose p) 0 = expected p.
Proof.
  intros W Es. rewrite <- (reference_parts_compose p W).
  unfold abs_parts, reference_parts. rewrite (scheme_range_compose p s W Es), (sap_value p W), Es. cbn [fst snd].
  destruct (authority_or_path (compose p) (length s + 1)) as [[|] e]; reflexivity.
Qed.

(* ---------- every valid reference ---------- *)
Theorem uri_reference_decomposition s : L (IRI_reference U U) s -> exists p, valid_parts_U p /\ decomposition_ok s p.
Proof.
  intros H. apply uri_ref_shape in H. apply REF_factor in H as (p & V & ->).
  exists p. split; [exact V|]. apply decomposition_compose. now apply valid_parts_wf_U.
Qed.
Theorem iri_reference_decomposition s : L (IRI_reference I C02Bridge.P) s -> exists p, valid_parts_I p /\ decomposition_ok s p.
Proof.
  intros H. apply iri_ref_shape in H. apply REF_factor in H as (p & V & ->).
  exists p. split; [exact V|]. apply decomposition_compose. now apply valid_parts_wf_I.
Qed.
Theorem uri_decomposition s : L (IRI U U) s ->
  exists p sch, valid_parts_U p /\ p_scheme p = Some sch /\ decomposition_ok s p /\ abs_parts s 0 = expected p /\ scheme_range s 0 = (0, length sch).
Proof.
  intros H. apply uri_shape in H. unfold raw_uri in H. destruct (proj1 (ABS_factor _ _ _ _ _ (ipath_noscheme U) _ _ s) H) as (p & sch & V & Es & ->).
  assert (V' : valid_parts_U p) by exact V.
  pose proof (valid_parts_wf_U p V') as W.
  exists p, sch. split; [exact V'|]. split; [exact Es|]. split; [now apply decomposition_compose|].
  split; [now apply (abs_parts_compose p sch) | now apply scheme_range_compose].
Qed.
Theorem iri_decomposition s : L (IRI I C02Bridge.P) s ->
  exists p sch, valid_parts_I p /\ p_scheme p = Some sch /\ decomposition_ok s p /\ abs_parts s 0 = expected p /\ scheme_range s 0 = (0, length sch).
Proof.
  intros H. apply iri_shape in H. unfold raw_iri in H. destruct (proj1 (ABS_factor _ _ _ _ _ (ipath_noscheme I) _ _ s) H) as (p & sch & V & Es & ->).
  assert (V' : valid_parts_I p) by exact V.
  pose proof (valid_parts_wf_I p V') as W.
  exists p, sch. split; [exact V'|]. split; [exact Es|]. split; [now apply decomposition_compose|].
  split; [now apply (abs_parts_compose p sch) | now apply scheme_range_compose].
Qed.
