From Coq Require Import List NArith Bool Arith Lia.
Import ListNotations.
Require Import V.Regex V.Parse V.ParseProofs V.Auth.
Local Open Scope nat_scope.

Record aparts := { ap_userinfo : option str; ap_host : str; ap_port : option str }.
Definition acompose (a : aparts) : str := opt_post (ap_userinfo a) [AT] ++ ap_host a ++ opt_pre [COLON] (ap_port a).

Definition ip_literal (h : str) : Prop := exists body, h = LBR :: body ++ [RBR] /\ none_of [RBR] body.
Record wf_aparts (a : aparts) : Prop := {
  wfa_ui : forall u, ap_userinfo a = Some u -> none_of [AT; LBR] u;
  wfa_host : ip_literal (ap_host a) \/ none_of [COLON; AT; LBR] (ap_host a);
  wfa_port : forall p, ap_port a = Some p -> none_of [AT] p
}.

Lemma uih_after_colon_found pre rest i e : none_of [AT] pre ->
  uih_after_colon (pre ++ AT :: rest) i e = (UihUserInfo, i + length pre).
Proof.
  revert i. induction pre as [|c pre IH]; intros i H; simpl.
  - f_equal; lia.
  - apply none_of_cons in H as [Hc H]. kill_is c. rewrite IH by auto. f_equal; lia.
Qed.
Lemma uih_after_colon_none l i e : none_of [AT] l -> uih_after_colon l i e = (UihHost, e).
Proof.
  revert i. induction l as [|c l IH]; intros i H; simpl; auto.
  apply none_of_cons in H as [Hc H]. kill_is c. auto.
Qed.

Lemma uih_userinfo u rest i len : none_of [AT; LBR] u ->
  uih_loop (u ++ AT :: rest) i len = (UihUserInfo, i + length u).
Proof.
  revert i. induction u as [|c u IH]; intros i H; simpl.
  - f_equal; lia.
  - pose proof H as H0. apply none_of_cons in H as [Hc H]. kill_is c.
    destruct (is c COLON) eqn:EC.
    + rewrite uih_after_colon_found; [f_equal; simpl; lia|]. eapply none_of_weaken; [|exact H]. simpl; tauto.
    + rewrite IH by auto. f_equal; lia.
Qed.

Definition port_tail (rest : str) : Prop := rest = [] \/ exists p, rest = COLON :: p /\ none_of [AT] p.

Lemma uih_host_plain h rest i len : none_of [COLON; AT; LBR] h -> port_tail rest ->
  uih_loop (h ++ rest) i len = (UihHost, i + length h).
Proof.
  revert i. induction h as [|c h IH]; intros i H Hr; simpl.
  - destruct Hr as [->|(p & -> & Hp)]; simpl; [f_equal; lia|].
    change (is COLON LBR) with false. change (is COLON AT) with false. change (is COLON COLON) with true. cbn iota.
    rewrite uih_after_colon_none by auto. f_equal; lia.
  - apply none_of_cons in H as [Hc H]. kill_is c. rewrite IH by auto. f_equal; lia.
Qed.

Lemma to_rbr_found pre rest i : none_of [RBR] pre -> to_rbr (pre ++ RBR :: rest) i = i + length pre.
Proof.
  revert i. induction pre as [|c pre IH]; intros i H; simpl.
  - lia.
  - apply none_of_cons in H as [Hc H]. kill_is c. rewrite IH by auto. lia.
Qed.

Lemma uih_host_literal body rest i len : none_of [RBR] body -> i + length body + 2 <= len ->
  uih_loop (LBR :: body ++ RBR :: rest) i len = (UihHost, i + length body + 2).
Proof.
  intros H Hlen. simpl. rewrite to_rbr_found by auto. f_equal. lia.
Qed.

(* host_end after a user info *)
Lemma host_end_plain bytes pre h rest n : bytes = pre ++ h ++ rest -> n = length pre ->
  none_of [COLON; AT; LBR] h -> port_tail rest -> host_end bytes n = n + length h.
Proof.
  intros -> -> H Hr. unfold host_end. rewrite skipn_app_len.
  assert (Hscan : scan (fun c => is c COLON) (h ++ rest) (length pre) = length pre + length h).
  { apply scan_app.
    - eapply Forall_impl; [|exact H]. intros c Hc. cbv beta in Hc. kill_is c. reflexivity.
    - destruct Hr as [->|(p & -> & _)]; [left; auto | right]. eexists _, _. split; reflexivity. }
  destruct (h ++ rest) as [|c l] eqn:E.
  - destruct h; [|discriminate]. simpl. lia.
  - destruct (is c LBR) eqn:EL; [|exact Hscan].
    exfalso. destruct h as [|c' h']; simpl in E.
    + destruct Hr as [->|(p & -> & _)]; [discriminate|]. injection E as <- _. discriminate.
    + injection E as -> _. apply none_of_cons in H as [Hc _]. apply N.eqb_eq in EL; subst c. apply Hc. simpl; auto.
Qed.

Lemma host_end_literal bytes pre body rest n : bytes = pre ++ (LBR :: body ++ [RBR]) ++ rest -> n = length pre ->
  none_of [RBR] body -> port_tail rest -> host_end bytes n = n + length body + 2.
Proof.
  intros -> -> H Hr. unfold host_end. rewrite skipn_app_len. simpl app.
  change (is LBR LBR) with true. cbn iota.
  rewrite <- app_assoc. simpl app. rewrite to_rbr_found by auto.
  replace (pre ++ LBR :: body ++ RBR :: rest) with ((pre ++ LBR :: body) ++ RBR :: rest) by (rewrite <- app_assoc; reflexivity).
  replace (S (length pre) + length body) with (length (pre ++ LBR :: body)) by (rewrite app_length; simpl; lia).
  rewrite skipn_app_len. simpl. change (is RBR COLON) with false. cbn iota.
  destruct Hr as [->|(p & -> & _)]; simpl.
  - rewrite app_length; simpl; lia.
  - change (is COLON COLON) with true. cbn iota. rewrite app_length; simpl; lia.
Qed.

(* ---------- expected ranges and the theorem ---------- *)
Definition aexpected (a : aparts) : auth_ranges :=
  let lu := olen (ap_userinfo a) 1 in
  let he := lu + length (ap_host a) in
  {| a_userinfo := option_map (fun u => (0, length u)) (ap_userinfo a);
     a_host := (lu, he);
     a_port := option_map (fun _ => (he + 1, length (acompose a))) (ap_port a) |}.

Lemma port_tail_of a : wf_aparts a -> port_tail (opt_pre [COLON] (ap_port a)).
Proof. intros [_ _ Hp]. destruct (ap_port a) as [p|]; simpl; [right; eauto | left; auto]. Qed.

Lemma port_at bytes pre rest n : bytes = pre ++ rest -> n = length pre -> port_tail rest ->
  port bytes n = (match rest with [] => false | _ => true end, match rest with [] => n | _ => length bytes end).
Proof.
  intros -> -> Hr. unfold port. rewrite skipn_app_len.
  destruct Hr as [->|(p & -> & _)]; simpl; auto.
Qed.

Theorem authority_parts_compose a : wf_aparts a -> authority_parts (acompose a) = aexpected a.
Proof.
  intros W. pose proof (port_tail_of a W) as Hpt. destruct W as [Hu Hh Hp].
  unfold authority_parts, aexpected, user_info_or_host. set (bytes := acompose a).
  assert (Hb : bytes = acompose a) by reflexivity. unfold acompose in Hb. simpl skipn.
  destruct (ap_userinfo a) as [u|] eqn:Eu; simpl opt_post in Hb; simpl olen; simpl option_map.
  - (* user info present *)
    specialize (Hu u eq_refl).
    rewrite Hb at 1. rewrite <- app_assoc. simpl app. rewrite uih_userinfo by auto. cbn [fst snd].
    destruct Hh as [(body & Eh & Hbody) | Hplain].
    + rewrite (host_end_literal bytes (u ++ [AT]) body (opt_pre [COLON] (ap_port a))); auto;
        [| rewrite Hb, Eh; reflexivity | rewrite app_length; simpl; lia].
      rewrite (port_at bytes ((u ++ [AT]) ++ ap_host a) (opt_pre [COLON] (ap_port a))); auto;
        [| rewrite Hb, <- !app_assoc; reflexivity | rewrite Eh, !app_length; simpl; rewrite app_length; simpl; lia].
      try rewrite Eh. destruct (ap_port a); simpl; f_equal; repeat (f_equal; try (rewrite ?app_length; simpl; rewrite ?app_length; simpl; lia)).
    + rewrite (host_end_plain bytes (u ++ [AT]) (ap_host a) (opt_pre [COLON] (ap_port a))); auto;
        [| rewrite app_length; simpl; lia].
      rewrite (port_at bytes ((u ++ [AT]) ++ ap_host a) (opt_pre [COLON] (ap_port a))); auto;
        [| rewrite Hb, <- !app_assoc; reflexivity | rewrite !app_length; simpl; lia].
      destruct (ap_port a); simpl; f_equal; repeat (f_equal; try lia).
  - (* no user info *)
    simpl app in Hb.
    destruct Hh as [(body & Eh & Hbody) | Hplain].
    + rewrite Hb at 1. rewrite Eh. simpl app. rewrite <- app_assoc. simpl app.
      rewrite uih_host_literal; auto.
      2:{ rewrite Hb, Eh. rewrite !app_length. simpl. rewrite app_length. simpl. lia. }
      cbn [fst snd].
      rewrite (port_at bytes (ap_host a) (opt_pre [COLON] (ap_port a))); auto;
        [| rewrite Eh; simpl; rewrite app_length; simpl; lia].
      try rewrite Eh. destruct (ap_port a); simpl; f_equal; repeat (f_equal; try (rewrite ?app_length; simpl; rewrite ?app_length; simpl; lia)).
    + rewrite Hb at 1. rewrite uih_host_plain by auto. cbn [fst snd].
      rewrite (port_at bytes (ap_host a) (opt_pre [COLON] (ap_port a))); auto.
      destruct (ap_port a); simpl; f_equal; repeat (f_equal; try lia).
Qed.
Print Assumptions authority_parts_compose.
