(* Property C09 -- dot-segment normalisation.  Statements only. *)
From Coq Require Import List NArith Bool Arith.
Import ListNotations.
Require Import V.Regex V.Parse V.PathSpec V.Splice V.Setters V.Iter V.PathQ V.ParseProofs V.PathMut V.PathMutProofs V.C09Proofs V.C12Proofs V.NormProofs V.Rfc V.ResolveProofs4 V.NormalizedProofs V.NormIdem.
Local Open Scope nat_scope.

(* the normalized-segment iterator of the model (a stack of ranges, as in the Rust code) computes
   exactly the left-to-right walk of the property text (`norm`: drop ".", ".." pops, is kept when the
   path is relative and nothing is left to pop, is dropped at the root of an absolute path) on the
   segments the segment iterator yields (C12 identifies those with the '/'-split) *)
Theorem C09_normalized_segments : forall p,
  map (slice p) (pq_normalized_segments p) = norm (is_abs p) (map (slice p) (pq_segments p)).
Proof. exact normalized_segments_is_norm. Qed.
Print Assumptions C09_normalized_segments.

(* with C12: for every path free of '?' and '#' the normalized-segment iterator yields `norm` of the '/'-split *)
Theorem C09_normalized_segments_of_text : forall p, none_of [QM; HASH] p ->
  map (slice p) (pq_normalized_segments p) = norm (is_abs p) (segs p).
Proof. intros p H. rewrite normalized_segments_is_norm, (segments_are_the_split p H). reflexivity. Qed.
Print Assumptions C09_normalized_segments_of_text.

(* the walk always ends in a normal form: leading ".." (none when absolute) followed by dot-free segments *)
Theorem C09_normal_form : forall ab l, normal ab (norm ab l).
Proof. exact norm_normal. Qed.
Print Assumptions C09_normal_form.

(* idempotence of the walk *)
Theorem C09_idempotent : forall ab l, norm ab (norm ab l) = norm ab l.
Proof. exact norm_idempotent. Qed.
Print Assumptions C09_idempotent.

(* rendering a segment list and splitting it again is the identity on texts: absoluteness and segments
   determine the path *)
Theorem C09_render_segs : forall p, render (is_abs p) (segs p) = p.
Proof. exact render_segs. Qed.
Print Assumptions C09_render_segs.

(* IN-PLACE normalisation through a path handle (PathMutImpl::normalize, index-level model): for every handle that
   views a path v inside a buffer (before ++ v ++ after) the call returns -- no panic -- a handle viewing
   normalize1 v in (before ++ normalize1 v ++ after): bytes before and after untouched, offsets coherent *)
Theorem C09_normalize_in_place : forall h before v after, PInv h before v after -> none_of [QM; HASH] v ->
  exists h', pm_normalize h = Some h' /\ PInv h' before (normalize1 (pm_start h =? 0) (pm_fa h) v) after /\
             pm_fa h' = pm_fa h /\ pm_start h' = pm_start h.
Proof. exact pm_normalize_refines. Qed.
Print Assumptions C09_normalize_in_place.

(* ... where normalize1 v is the rendering, with the absoluteness of v, of the specification walk `norm` on the
   '/'-split of v, preceded by one "." segment exactly when the code writes its "./" shield (the rendering would
   otherwise start with "//" without an authority, or with a colon segment at offset 0) *)
Theorem C09_normalize_text : forall start0 fa v,
  normalize1 start0 fa v = render (is_abs v) (shield_segs start0 fa v ++ norm (is_abs v) (segs v)).
Proof. exact normalize1_is_render. Qed.
Print Assumptions C09_normalize_text.

(* normalisation never changes absoluteness *)
Theorem C09_normalize_keeps_absoluteness : forall start0 fa v, is_abs (normalize1 start0 fa v) = is_abs v.
Proof. exact normalize1_abs. Qed.
Print Assumptions C09_normalize_keeps_absoluteness.

(* in-place normalisation is IDEMPOTENT at text level, for EVERY byte string and every handle context (with
   C09_normalize_in_place: a second normalize() through any handle leaves the buffer unchanged) *)
Theorem C09_normalize_idempotent : forall start0 fa v, normalize1 start0 fa (normalize1 start0 fa v) = normalize1 start0 fa v.
Proof. exact normalize1_idempotent. Qed.
Print Assumptions C09_normalize_idempotent.

(* THE COPYING normalized() (PathImpl::normalized: a fold of symbolic pushes into a fresh buffer, each through a fresh
   whole-buffer handle, then the closing empty segment): on every path free of '?' and '#' that has no empty segment
   before its last one and no segment on which first_segment_contains_colon holds, the index-level model returns --
   no panic -- exactly RFC 3986 5.2.4 (Rfc.rds: the walk `norm`, a trailing "/" after a final dot segment, the
   absoluteness of the input).  Both exclusions are needed for TEXTUAL equality: witnesses below (the first two are
   the recorded findings K_G11 and K_shield_left; the third differs from 5.2.4 only by a "./" shield). *)
Theorem C09_normalized_partial : forall p, none_of [QM; HASH] p -> no_empty_but_last p -> colon_free p ->
  path_normalized p = Some (rds p).
Proof. exact path_normalized_is_rds. Qed.
Print Assumptions C09_normalized_partial.
Theorem C09_normalized_witnesses :
  (path_normalized [47;47;97]%N = Some [47;97]%N /\ rds [47;47;97]%N = [47;47;97]%N) /\                       (* //a -> /a *)
  (path_normalized [46;47;98;58;99;47;46;46]%N = Some [46;47]%N /\ rds [46;47;98;58;99;47;46;46]%N = []) /\   (* ./b:c/.. -> ./ *)
  (path_normalized [47;98;58;99]%N = Some [47;46;47;98;58;99]%N /\ rds [47;98;58;99]%N = [47;98;58;99]%N).    (* /b:c -> /./b:c *)
Proof. vm_compute. repeat split; reflexivity. Qed.
Print Assumptions C09_normalized_witnesses.

Example C09_example : norm true (segs [47;97;47;46;47;98;47;46;46;47;46;46;47;46;46;47;99]%N) = [[99%N]].   (* /a/./b/../../../c *)
Proof. vm_compute. reflexivity. Qed.
