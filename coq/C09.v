(* Property C09 -- dot-segment normalisation.  Statements only. *)
From Coq Require Import List NArith Bool Arith.
Import ListNotations.
Require Import V.Regex V.Parse V.PathSpec V.Splice V.Setters V.Iter V.PathQ V.ParseProofs V.C09Proofs V.C12Proofs.
Local Open Scope nat_scope.

(* the normalized-segment iterator of the model (a stack of ranges, as in the Rust code) computes
   exactly the left-to-right walk of the property text (`norm`: drop ".", ".." pops, is kept when the
   path is relative and nothing is left to pop, is dropped at the root of an absolute path) on the
   segments the segment iterator yields (C12 identifies those with the '/'-split) *)
Theorem C09_normalized_segments : forall p,
  map (slice p) (pq_normalized_segments p) = norm (is_abs p) (map (slice p) (pq_segments p)).
Proof. exact normalized_segments_is_norm. Qed.
Print Assumptions C09_normalized_segments.

(* with C12: for every path free of '?' and '#' the normalized-segment iterator yields `norm` of the '/'-split *)
Theorem C09_normalized_segments_of_text : forall p, none_of [QM; HASH] p ->
  map (slice p) (pq_normalized_segments p) = norm (is_abs p) (segs p).
Proof. intros p H. rewrite normalized_segments_is_norm, (segments_are_the_split p H). reflexivity. Qed.
Print Assumptions C09_normalized_segments_of_text.

(* the walk always ends in a normal form: leading ".." (none when absolute) followed by dot-free segments *)
Theorem C09_normal_form : forall ab l, normal ab (norm ab l).
Proof. exact norm_normal. Qed.
Print Assumptions C09_normal_form.

(* idempotence of the walk *)
Theorem C09_idempotent : forall ab l, norm ab (norm ab l) = norm ab l.
Proof. exact norm_idempotent. Qed.
Print Assumptions C09_idempotent.

(* rendering a segment list and splitting it again is the identity on texts: absoluteness and segments
   determine the path *)
Theorem C09_render_segs : forall p, render (is_abs p) (segs p) = p.
Proof. exact render_segs. Qed.
Print Assumptions C09_render_segs.

Example C09_example : norm true (segs [47;97;47;46;47;98;47;46;46;47;46;46;47;46;46;47;99]%N) = [[99%N]].   (* /a/./b/../../../c *)
Proof. vm_compute. reflexivity. Qed.
