(* set_fragment (model in Reference.v): functional theorem, after the pattern of set_query_spec. *)
From Coq Require Import List NArith Bool Arith Lia.
Import ListNotations.
Require Import V.Regex V.Parse V.ParseProofs V.Parse2 V.Parse2Proofs V.Splice V.Setters V.Reference.
Local Open Scope nat_scope.

Definition with_fragment (p : parts) (f : option str) : parts :=
  {| p_scheme := p_scheme p; p_authority := p_authority p; p_path := p_path p; p_query := p_query p; p_fragment := f |}.
Definition head_q (p : parts) : str := head_of p ++ opt_pre [QM] (p_query p).
Lemma compose_head_q p : compose p = head_q p ++ opt_pre [HASH] (p_fragment p).
Proof. unfold head_q. rewrite compose_head_tail. unfold tail_of. now rewrite <- app_assoc. Qed.
Lemma head_q_no_hash p : wf_parts p -> none_of [HASH] (head_q p).
Proof.
  intros W. pose proof (head_no_qh p W) as Hh. destruct W as [Hs Ha Hp Hq Hpa Hpn Hpc].
  unfold head_q. apply none_of_app; split.
  - eapply none_of_weaken; [|exact Hh]. simpl; tauto.
  - destruct (p_query p) as [q|]; simpl; [|constructor]. constructor.
    + simpl. unfold QM, HASH. intros [E|[]]; discriminate.
    + now apply Hq.
Qed.

Lemma find_fragment_value p : wf_parts p ->
  find_fragment (compose p) 0 =
  match p_fragment p with
  | Some f => inl (length (head_q p) + 1, length (compose p))
  | None => inr (length (head_q p))
  end.
Proof.
  intros W. pose proof (head_q_no_hash p W) as Hh.
  unfold find_fragment. simpl skipn. rewrite compose_head_q at 1. rewrite find_fragment_skip by auto. simpl.
  destruct (p_fragment p) as [f|]; simpl.
  - f_equal. f_equal. lia.
  - reflexivity.
Qed.

Theorem set_fragment_spec p f : wf_parts p -> set_fragment (compose p) f = Some (compose (with_fragment p f)).
Proof.
  intros W. unfold set_fragment. rewrite find_fragment_value by auto.
  assert (C : forall f', compose (with_fragment p f') = head_q p ++ opt_pre [HASH] f').
  { intros f'. rewrite compose_head_q. reflexivity. }
  rewrite C. rewrite (compose_head_q p).
  destruct f as [new|]; destruct (p_fragment p) as [f0|] eqn:Ef; simpl opt_pre.
  - replace (head_q p ++ HASH :: f0) with ((head_q p ++ [HASH]) ++ f0 ++ []) by (rewrite app_nil_r, <- app_assoc; reflexivity).
    replace (length (head_q p) + 1) with (length (head_q p ++ [HASH])) by (rewrite app_length; simpl; lia).
    replace (length ((head_q p ++ [HASH]) ++ f0 ++ [])) with (length (head_q p ++ [HASH]) + length f0) by (rewrite !app_length; simpl; lia).
    rewrite replace_spec. rewrite app_nil_r, <- app_assoc. reflexivity.
  - rewrite app_nil_r. pose proof (insert_delim (head_q p) [] HASH new) as H. rewrite !app_nil_r in H. exact H.
  - unfold sub_chk. replace (1 <=? length (head_q p) + 1) with true by (symmetry; apply Nat.leb_le; lia).
    simpl bind. replace (length (head_q p) + 1 - 1) with (length (head_q p)) by lia.
    replace (head_q p ++ HASH :: f0) with (head_q p ++ (HASH :: f0) ++ []) by (rewrite app_nil_r; reflexivity).
    replace (length (head_q p ++ (HASH :: f0) ++ [])) with (length (head_q p) + length (HASH :: f0)) by (rewrite !app_length; simpl; lia).
    rewrite replace_spec. reflexivity.
  - reflexivity.
Qed.
Print Assumptions set_fragment_spec.
