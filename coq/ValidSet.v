(* C04/C05 at the level of the RFC grammars: each setter maps VALID parts (every component in its RFC
   language, cross rules of section 3 respected) and a VALID new value to valid parts -- hence, with the
   factorisation theorem, the text after the call is again in the URI-reference / IRI-reference language and
   re-parses as the same type.  All language facts are inclusion certificates between small regexes. *)
From Coq Require Import List NArith Bool Arith Lia.
Import ListNotations.
Require Import V.Regex V.Bisim V.Abnf V.Parse V.ParseProofs V.Parse2 V.Bridge V.Factor V.BridgePaths V.C02Bridge
  V.PathSpec V.Splice V.Setters V.Push V.SetPath V.SetAuth V.SetScheme V.Reference V.SetFragment V.C05Proofs V.Shapes.
Open Scope N_scope.

Lemma and2_intro a b s : L a s -> L b s -> L (and2 a b) s.
Proof. intros. apply and2_L. auto. Qed.

Section Fam.
  Variables X PX : cls.
  Let Pab := ipath_abempty X. Let Pabs := ipath_absolute X. Let Proot := ipath_rootless X. Let Pns := ipath_noscheme X. Let Ppath := ipath X.
  Hypothesis i1 : incl_check Pns Proot = true.
  Hypothesis i2 : incl_check (and2 Proot NOCOLON) Pns = true.
  Hypothesis i3 : incl_check (Cat (ch DOT) (Cat slash Proot)) Pns = true.
  Hypothesis i4 : incl_check (Cat slash Proot) Pab = true.
  Hypothesis i5 : incl_check Pabs Pab = true.
  Hypothesis i6 : incl_check (and2 Pab NODSLASH) (Alt Pabs Eps) = true.
  Hypothesis i7 : incl_check (Cat slash (Cat (ch DOT) Pab)) Pabs = true.
  Hypothesis i8 : incl_check (and2 Ppath DSLASH) Pab = true.
  Hypothesis i9 : incl_check (and2 Ppath REL_NE) Proot = true.
  Hypothesis i10 : incl_check (and2 Ppath ABS_OR_EMPTY) Pab = true.
  Hypothesis i11 : incl_check (and2 Ppath NODSLASH) (Alt Pabs (Alt Proot Eps)) = true.
  Hypothesis i12 : incl_check (and2 (and2 Ppath NODSLASH) NOCOLON) (Alt Pabs (Alt Pns Eps)) = true.
  Hypothesis i13 : incl_check Ppath ANYS = true.
  Hypothesis i14a : incl_check Pab Ppath = true.
  Hypothesis i14b : incl_check Pabs Ppath = true.
  Hypothesis i14c : incl_check Proot Ppath = true.
  Hypothesis i15 : incl_check Eps Pab = true.
  Hypothesis i16 : incl_check Pabs (Cat slash ANYS) = true.
  Hypothesis i17 : incl_check Proot REL_NE = true.
  (* the delimiter-level facts of C02Bridge for this family *)
  Hypothesis Hwf : forall p, valid_parts_fam X PX p -> wf_parts p.

  Notation valid := (valid_parts_fam X PX).
  Let incl := incl_check_sound.

  Lemma path_bounded v : L Ppath v -> bounded v.
  Proof. intros H. apply (incl _ _ i13) in H. eapply bounded_of_star; [exact H | apply in_ANY_le]. Qed.
  Lemma abs_head v : L Pabs v -> exists t, v = SLASH :: t.
  Proof. intros H. apply (incl _ _ i16) in H. use (lit1_L _ _ _) in H. destruct H as (t & -> & _). eauto. Qed.
  Lemma root_head v : L Proot v -> exists c t, v = c :: t /\ c <> SLASH.
  Proof.
    intros H. apply (incl _ _ i17) in H. unfold REL_NE in H. use (Cat_L _ _ _) in H. destruct H as (a & b & -> & Ha & _).
    apply cls1_L in Ha as (c & -> & Hc). exists c, b. split; [reflexivity | now apply in_not_slash].
  Qed.

  (* ---------- query / fragment ---------- *)
  Theorem valid_set_query p q : valid p -> oL (iquery X PX) q -> valid (with_query p q).
  Proof. intros (Hs & Ha & Hp & Hq & Hf) Hnew. repeat split; auto. Qed.
  Theorem valid_set_fragment p f : valid p -> oL (ifragment X) f -> valid (with_fragment p f).
  Proof. intros (Hs & Ha & Hp & Hq & Hf) Hnew. repeat split; auto. Qed.

  (* ---------- scheme ---------- *)
  Theorem valid_set_scheme p new : valid p -> oL scheme new -> valid (with_scheme p new (scheme_fix_path p new)).
  Proof.
    intros V Hnew. pose proof V as (Hs & Ha & Hp & Hq & Hf). unfold valid_parts_fam, valid_parts, with_scheme, scheme_fix_path, path_ok in *.
    cbn [p_scheme p_authority p_path p_query p_fragment].
    split; [exact Hnew|]. split; [exact Ha|]. split; [|split; assumption].
    destruct new as [s|]; destruct (p_scheme p) as [s0|] eqn:Es; destruct (p_authority p) as [a|] eqn:Ea; auto.
    - (* a scheme is added in front of a noscheme path *)
      destruct Hp as [Hp|[Hp|Hp]]; auto. right; left. exact (incl _ _ i1 _ Hp).
    - (* the scheme is removed and no authority follows *)
      destruct Hp as [Hp|[Hp|Hp]].
      + destruct (abs_head _ Hp) as (t & E). rewrite E. cbn [colon_first]. change (is SLASH COLON) with false. change (is SLASH SLASH) with true. cbn iota.
        left. rewrite <- E. exact Hp.
      + destruct (colon_first (p_path p)) eqn:Ec.
        * right; left. apply (incl _ _ i3). apply lit1_L. eexists; split; [reflexivity|]. apply lit1_L. eexists; split; [reflexivity | exact Hp].
        * right; left. apply (incl _ _ i2). apply and2_intro; [exact Hp|]. apply NOCOLON_of; [|exact Ec]. apply path_bounded. exact (incl _ _ i14c _ Hp).
      + rewrite Hp. cbn [colon_first]. right; right. reflexivity.
  Qed.

  (* ---------- authority ---------- *)
  Theorem valid_set_authority p new : valid p -> oL (iauthority X) new -> valid (with_auth p new (auth_path p new)).
  Proof.
    intros V Hnew. pose proof (Hwf p V) as W. pose proof V as (Hs & Ha & Hp & Hq & Hf).
    unfold valid_parts_fam, valid_parts, with_auth, auth_path, auth_fix_path, path_ok in *.
    cbn [p_scheme p_authority p_path p_query p_fragment].
    split; [exact Hs|]. split; [exact Hnew|]. split; [|split; assumption].
    destruct new as [a|]; destruct (p_authority p) as [a0|] eqn:Ea.
    - exact Hp.
    - (* an authority is added *)
      assert (Hcase : L Pabs (p_path p) \/ L Proot (p_path p) \/ p_path p = []).
      { destruct (p_scheme p); destruct Hp as [Hp|[Hp|Hp]]; auto. right; left. exact (incl _ _ i1 _ Hp). }
      destruct Hcase as [Hc|[Hc|Hc]].
      + destruct (abs_head _ Hc) as (t & E). rewrite E. cbn [app]. change (is SLASH SLASH) with true. cbn [orb negb]. rewrite <- E. exact (incl _ _ i5 _ Hc).
      + destruct (root_head _ Hc) as (c & t & E & Hne). rewrite E. cbn [app].
        assert (Hq' : is_qh c = false).
        { pose proof (wf_path p W) as Hpq. rewrite E in Hpq. apply none_of_cons in Hpq as [Hpq _]. unfold is_qh. apply orb_false_iff. split; apply is_false; intros ->; apply Hpq; simpl; auto. }
        replace (is c SLASH) with false by (symmetry; now apply is_false). rewrite Hq'. cbn [orb negb].
        apply (incl _ _ i4). apply lit1_L. eexists; split; [reflexivity|]. rewrite <- E. exact Hc.
      + rewrite Hc. cbn [app]. pose proof (tail_ends_qh p) as Ht. destruct (tail_of p) as [|c r]; [apply (incl _ _ i15); now apply Eps_L|].
        destruct Ht as [Ht|(c' & t' & E' & Hc')]; [discriminate|]. injection E' as -> ->. rewrite Hc', orb_true_r. cbn [negb]. apply (incl _ _ i15). now apply Eps_L.
    - (* the authority is removed *)
      destruct (starts_dslash (p_path p)) eqn:Ed.
      + assert (H7 : L Pabs ([SLASH; DOT] ++ p_path p)).
        { apply (incl _ _ i7). apply lit1_L. eexists; split; [reflexivity|]. apply lit1_L. eexists; split; [reflexivity | exact Hp]. }
        destruct (p_scheme p); left; exact H7.
      + assert (H6 : L (Alt Pabs Eps) (p_path p)).
        { apply (incl _ _ i6). apply and2_intro; [exact Hp|]. apply NODSLASH_of; [|exact Ed]. apply path_bounded. exact (incl _ _ i14a _ Hp). }
        rewrite Alt_L, Eps_L in H6. destruct (p_scheme p); destruct H6 as [H6|H6]; auto.
    - exact Hp.
  Qed.

  (* ---------- path ---------- *)
  Theorem valid_set_path p v : valid p -> L Ppath v -> valid (with_path p (fix_path p v)).
  Proof.
    intros V Hv. pose proof (path_bounded v Hv) as Bv. pose proof V as (Hs & Ha & Hp & Hq & Hf).
    unfold valid_parts_fam, valid_parts, with_path, fix_path, path_ok in *.
    cbn [p_scheme p_authority p_path p_query p_fragment].
    split; [exact Hs|]. split; [exact Ha|]. split; [|split; assumption].
    destruct (p_authority p) as [a|] eqn:Ea; cbn [negb andb].
    - (* an authority is present *)
      destruct (path_is_abs v) eqn:Eabs; cbn [negb andb].
      + destruct (p_scheme p); cbn [andb]; apply (incl _ _ i10); apply and2_intro; auto; apply ABS_OR_EMPTY_of; auto.
      + destruct (is_nil v) eqn:En; cbn [negb andb].
        * destruct v; [|discriminate]. destruct (p_scheme p); cbn [andb colon_first]; apply (incl _ _ i15); now apply Eps_L.
        * apply (incl _ _ i4). apply lit1_L. eexists; split; [reflexivity|]. apply (incl _ _ i9). apply and2_intro; auto. now apply REL_NE_of.
    - (* no authority *)
      destruct (starts_dslash v) eqn:Ed.
      + assert (H7 : L Pabs ([SLASH; DOT] ++ v)).
        { apply (incl _ _ i7). apply lit1_L. eexists; split; [reflexivity|]. apply lit1_L. eexists; split; [reflexivity|].
          apply (incl _ _ i8). apply and2_intro; auto. now apply DSLASH_of. }
        destruct (p_scheme p); left; exact H7.
      + destruct (p_scheme p) as [s|] eqn:Es; cbn [andb].
        * assert (H : L (Alt Pabs (Alt Proot Eps)) v) by (apply (incl _ _ i11); apply and2_intro; auto; now apply NODSLASH_of).
          rewrite !Alt_L, Eps_L in H. exact H.
        * destruct (colon_first v) eqn:Ec.
          -- (* "./" shield: v is relative and non-empty *)
             right; left. apply (incl _ _ i3). apply lit1_L. eexists; split; [reflexivity|]. apply lit1_L. eexists; split; [reflexivity|].
             apply (incl _ _ i9). apply and2_intro; auto. apply REL_NE_of; auto.
             ++ destruct v as [|c r]; [discriminate|]. cbn [path_is_abs colon_first] in *. destruct (is c SLASH) eqn:E1; [|reflexivity].
                apply is_true in E1. subst. change (is SLASH COLON) with false in Ec. discriminate.
             ++ destruct v; [discriminate | reflexivity].
          -- assert (H : L (Alt Pabs (Alt Pns Eps)) v).
             { apply (incl _ _ i12). apply and2_intro; [apply and2_intro; auto; now apply NODSLASH_of | now apply NOCOLON_of]. }
             rewrite !Alt_L, Eps_L in H. exact H.
  Qed.
End Fam.
