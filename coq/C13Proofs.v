(* C13 at the level of the RFC grammars: URI subset IRI, URI-reference subset IRI-reference, and a
   reference is a full URI/IRI exactly when it has a scheme (shape: no ':' '/' '?' '#' before a ':'). *)
From Coq Require Import List NArith Bool Arith Lia.
Import ListNotations.
Require Import V.Regex V.Bisim V.Abnf V.Parse V.ParseProofs V.Parse2 V.Bridge V.Factor V.BridgePaths V.C02Bridge.
Open Scope N_scope.

Ltac refl := vm_cast_no_check (eq_refl true).
Lemma uri_in_iri : incl_check (IRI U U) (IRI I C02Bridge.P) = true. Proof. refl. Qed.
Lemma uriref_in_iriref : incl_check (IRI_reference U U) (IRI_reference I C02Bridge.P) = true. Proof. refl. Qed.

Definition SCHEME_SHAPE : re := Cat (Star (Cls not_sch_delims)) (Cat (ch COLON) (Star (Cls ANY))).
Lemma abs_is_ref_with_scheme_U1 : incl_check (IRI U U) (and2 (IRI_reference U U) SCHEME_SHAPE) = true. Proof. refl. Qed.
Lemma abs_is_ref_with_scheme_U2 : incl_check (and2 (IRI_reference U U) SCHEME_SHAPE) (IRI U U) = true. Proof. refl. Qed.
Lemma abs_is_ref_with_scheme_I1 : incl_check (IRI I C02Bridge.P) (and2 (IRI_reference I C02Bridge.P) SCHEME_SHAPE) = true. Proof. refl. Qed.
Lemma abs_is_ref_with_scheme_I2 : incl_check (and2 (IRI_reference I C02Bridge.P) SCHEME_SHAPE) (IRI I C02Bridge.P) = true. Proof. refl. Qed.

Theorem uri_iff_ref_with_scheme s : L (IRI U U) s <-> L (IRI_reference U U) s /\ L SCHEME_SHAPE s.
Proof.
  rewrite <- and2_L. split; [apply (incl_check_sound _ _ abs_is_ref_with_scheme_U1) | apply (incl_check_sound _ _ abs_is_ref_with_scheme_U2)].
Qed.
Theorem iri_iff_ref_with_scheme s : L (IRI I C02Bridge.P) s <-> L (IRI_reference I C02Bridge.P) s /\ L SCHEME_SHAPE s.
Proof.
  rewrite <- and2_L. split; [apply (incl_check_sound _ _ abs_is_ref_with_scheme_I1) | apply (incl_check_sound _ _ abs_is_ref_with_scheme_I2)].
Qed.
