(* URI family: the smart-constructor grammar of Abnf.v equals the raw RFC shape of Factor.v (two
   inclusion certificates checked by reflection). *)
From Coq Require Import List NArith Bool.
Import ListNotations.
Require Import V.Regex V.Bisim V.Abnf V.Parse V.ParseProofs V.Bridge V.Factor V.BridgePaths.
Open Scope N_scope.
Definition raw_uri_ref := REF_raw scheme (iauthority U) (ipath_abempty U) (ipath_absolute U) (ipath_rootless U) (ipath_noscheme U) (iquery U U) (ifragment U).
Definition raw_uri := ABS_raw scheme (iauthority U) (ipath_abempty U) (ipath_absolute U) (ipath_rootless U) (iquery U U) (ifragment U).
Lemma ref_fwd_U : incl_check (IRI_reference U U) raw_uri_ref = true. Proof. vm_cast_no_check (eq_refl true). Qed.
Lemma ref_bwd_U : incl_check raw_uri_ref (IRI_reference U U) = true. Proof. vm_cast_no_check (eq_refl true). Qed.
Lemma abs_fwd_U : incl_check (IRI U U) raw_uri = true. Proof. vm_cast_no_check (eq_refl true). Qed.
Lemma abs_bwd_U : incl_check raw_uri (IRI U U) = true. Proof. vm_cast_no_check (eq_refl true). Qed.
Theorem uri_ref_shape s : L (IRI_reference U U) s <-> L raw_uri_ref s.
Proof. split; [apply (incl_check_sound _ _ ref_fwd_U) | apply (incl_check_sound _ _ ref_bwd_U)]. Qed.
Theorem uri_shape s : L (IRI U U) s <-> L raw_uri s.
Proof. split; [apply (incl_check_sound _ _ abs_fwd_U) | apply (incl_check_sound _ _ abs_bwd_U)]. Qed.
