(* C18, converse direction: the delimiter parser accepts EVERY text of the data-URL shape, with exactly the offsets of
   that shape; together with dataurl_coherent the accepted texts are characterised (iff) and the decomposition is unique. *)
From Coq Require Import List NArith Bool Arith Lia.
Import ListNotations.
Require Import V.Regex V.Parse V.ParseProofs V.DataUrl V.DataUrlProofs.
Local Open Scope nat_scope.

Lemma strip_prefix_refl pre : forall suf, strip_prefix pre (pre ++ suf) = Some suf.
Proof. induction pre as [|p pre IH]; intros suf; simpl; [reflexivity|]. rewrite N.eqb_refl. apply IH. Qed.

Lemma str_eqb_refl a : str_eqb a a = true.
Proof. induction a as [|x a IH]; simpl; [reflexivity|]. rewrite N.eqb_refl. exact IH. Qed.

Lemma triple_eq (a a' : nat) (b : bool) (c c' : nat) : a = a' -> c = c' -> Some (a, b, c) = Some (a', b, c').
Proof. intros -> ->. reflexivity. Qed.

Lemma dloop_complete media : forall i (b : bool) data, Forall (fun c => mt_char c = true) media ->
  dloop (media ++ (if b then B64 else []) ++ COMMA :: data) i =
  Some (5 + (i + length media), b, 5 + (i + length media) + (if b then 8 else 1)).
Proof.
  induction media as [|c media IH]; intros i b data H.
  - destruct b; cbn [app length].
    + change (B64 ++ COMMA :: data) with (SEMI :: B64C ++ data). cbn [dloop].
      change (is SEMI COMMA) with false. change (is SEMI SEMI) with true. cbn iota.
      change (firstn 7 (B64C ++ data)) with B64C. rewrite str_eqb_refl. apply triple_eq; lia.
    + cbn [dloop]. change (is COMMA COMMA) with true. cbn iota. apply triple_eq; lia.
  - inversion H as [|? ? Hc H']; subst. destruct (mt_not_delim c Hc) as [Hs Hk].
    cbn [app dloop]. rewrite Hk, Hs, Hc. rewrite IH by exact H'. cbn [length]. apply triple_eq; lia.
Qed.

Theorem dparse_complete media (b : bool) data : Forall (fun c => mt_char c = true) media ->
  dparse (DATA ++ media ++ (if b then B64 else []) ++ COMMA :: data) =
  Some (5 + length media, b, 5 + length media + (if b then 8 else 1)).
Proof. intros H. unfold dparse. rewrite strip_prefix_refl. rewrite dloop_complete by exact H. reflexivity. Qed.

(* accepted texts are exactly the texts of the shape *)
Theorem dparse_accepts_iff u : (exists d, dparse u = Some d) <->
  exists media (b : bool) data, Forall (fun c => mt_char c = true) media /\ u = DATA ++ media ++ (if b then B64 else []) ++ COMMA :: data.
Proof.
  split.
  - intros [d H]. destruct (dataurl_coherent u d H) as (media & data & Hu & Hm & _). exists media, (o_base64 d), data. split; assumption.
  - intros (media & b & data & Hm & ->). eexists. apply dparse_complete, Hm.
Qed.

Lemma app_len_inj (A : Type) (a a' x y : list A) : length a = length a' -> a ++ x = a' ++ y -> a = a' /\ x = y.
Proof.
  revert a'. induction a as [|c a IH]; intros [|c' a'] Hl E; simpl in *; try discriminate; [auto|].
  injection E as -> E. injection Hl as Hl. destruct (IH a' Hl E) as [-> ->]. auto.
Qed.

(* the decomposition is unique: one text has one media type, one flag, one payload *)
Theorem dataurl_unique media (b : bool) data media' (b' : bool) data' :
  Forall (fun c => mt_char c = true) media -> Forall (fun c => mt_char c = true) media' ->
  DATA ++ media ++ (if b then B64 else []) ++ COMMA :: data = DATA ++ media' ++ (if b' then B64 else []) ++ COMMA :: data' ->
  media = media' /\ b = b' /\ data = data'.
Proof.
  intros Hm Hm' E.
  pose proof (dparse_complete media b data Hm) as P. pose proof (dparse_complete media' b' data' Hm') as P'.
  destruct (dataurl_coherent _ _ P) as (m1 & d1 & _ & _ & Ho & Hd & _).
  destruct (dataurl_coherent _ _ P') as (m2 & d2 & _ & _ & Ho' & Hd' & _).
  rewrite E in P. rewrite P in P'. injection P' as El Eb _. subst b'.
  (* media from lengths and the equation *)
  apply app_inv_head in E.
  assert (Hl : length media = length media') by lia.
  destruct (app_len_inj _ _ _ _ _ Hl E) as [Em E'].
  subst media'. clear E. rename E' into E. apply app_inv_head in E. injection E as E. auto.
Qed.
