(* L0 model of crates/core/src/utils.rs and its refinement to the list splice. *)
From Coq Require Import List NArith Bool Arith Lia.
Import ListNotations.
Require Import V.Regex.
Local Open Scope nat_scope.

(* buffer[i] = v ; None = index out of bounds (panic) *)
Fixpoint set_nth (l : str) (i : nat) (v : N) : option str :=
  match l, i with
  | [], _ => None
  | _ :: l', O => Some (v :: l')
  | x :: l', S i' => option_map (cons x) (set_nth l' i' v)
  end.
Definition get_nth (l : str) (i : nat) : option N := nth_error l i.

Definition resize (l : str) (n : nat) : str := firstn n l ++ repeat 0%N (n - length l).

(* for i in 0..tail_len { buffer[new_end + i] = buffer[range.end + i] } *)
Fixpoint shrink_loop (buf : str) (new_end old_end i : nat) (fuel : nat) : option str :=
  match fuel with
  | O => Some buf
  | S f => match get_nth buf (old_end + i) with
           | None => None
           | Some v => match set_nth buf (new_end + i) v with None => None | Some buf' => shrink_loop buf' new_end old_end (S i) f end
           end
  end.
(* for i in 0..tail_len { buffer[new_end + tail_len - i - 1] = buffer[range.end + tail_len - i - 1] } *)
Fixpoint grow_loop (buf : str) (new_end old_end tail_len i : nat) (fuel : nat) : option str :=
  match fuel with
  | O => Some buf
  | S f => match get_nth buf (old_end + tail_len - i - 1) with
           | None => None
           | Some v => match set_nth buf (new_end + tail_len - i - 1) v with None => None | Some buf' => grow_loop buf' new_end old_end tail_len (S i) f end
           end
  end.

Definition sub_chk (a b : nat) : option nat := if b <=? a then Some (a - b) else None.

Definition allocate_range (buf : str) (rs re len : nat) : option str :=
  match sub_chk re rs with None => None | Some range_len =>
  if range_len =? len then Some buf else
  match sub_chk (length buf) re with None => None | Some tail_len =>
  let new_end := rs + len in
  if len <? range_len then
    match shrink_loop buf new_end re 0 tail_len with None => None | Some b => Some (resize b (new_end + tail_len)) end
  else
    grow_loop (resize buf (new_end + tail_len)) new_end re tail_len 0 tail_len
  end end.

(* buffer[start..start+len].copy_from_slice(content) *)
Fixpoint copy_at (buf : str) (start : nat) (content : str) : option str :=
  match content with
  | [] => if start <=? length buf then Some buf else None
  | c :: cs => match set_nth buf start c with None => None | Some b => copy_at b (S start) cs end
  end.

Definition replace (buf : str) (rs re : nat) (content : str) : option str :=
  match allocate_range buf rs re (length content) with None => None | Some b => copy_at b rs content end.

(* ---------- refinement, in decomposed form (no firstn/skipn algebra) ---------- *)
Lemma set_nth_app pre x post v : set_nth (pre ++ x :: post) (length pre) v = Some (pre ++ v :: post).
Proof. induction pre as [|p pre IH]; simpl; auto. now rewrite IH. Qed.

Lemma get_nth_app pre x post : get_nth (pre ++ x :: post) (length pre) = Some x.
Proof. unfold get_nth. induction pre; simpl; auto. Qed.

Lemma copy_at_app content : forall pre old post, length old = length content ->
  copy_at (pre ++ old ++ post) (length pre) content = Some (pre ++ content ++ post).
Proof.
  induction content as [|c cs IH]; intros pre old post H; destruct old as [|o old]; simpl in H; try discriminate.
  - simpl. replace (length pre <=? length (pre ++ post)) with true; auto.
    symmetry. apply Nat.leb_le. rewrite app_length. lia.
  - simpl. rewrite set_nth_app.
    replace (pre ++ c :: old ++ post) with ((pre ++ [c]) ++ old ++ post) by (rewrite <- app_assoc; reflexivity).
    replace (S (length pre)) with (length (pre ++ [c])) by (rewrite app_length; simpl; lia).
    rewrite IH by lia. rewrite <- app_assoc. reflexivity.
Qed.

Lemma skipn_S_tl {A} n (l : list A) y rest : skipn n l = y :: rest -> rest = skipn (S n) l.
Proof. revert l. induction n as [|n IH]; intros l H; destruct l as [|x l]; simpl in *; try discriminate.
  - injection H as _ ->. reflexivity.
  - apply IH in H. destruct l; simpl in *; auto. Qed.

Lemma last_case {A} (l : list A) : l = [] \/ exists l' x, l = l' ++ [x].
Proof. induction l as [|x l _] using rev_ind; [left; auto | right; eauto]. Qed.

Lemma skipn_app_le {A} n (l1 l2 : list A) : n <= length l1 -> skipn n (l1 ++ l2) = skipn n l1 ++ l2.
Proof. intros H. rewrite skipn_app. replace (n - length l1) with 0 by lia. reflexivity. Qed.

(* shrinking loop: A ++ X ++ T, copying T over X ++ T from the left *)
Lemma shrink_loop_inv : forall (T2 T1 A X : str) i,
  i = length T1 -> X <> [] ->
  shrink_loop (A ++ T1 ++ skipn i (X ++ T1 ++ T2)) (length A) (length A + length X) i (length T2)
  = Some (A ++ (T1 ++ T2) ++ skipn (length (T1 ++ T2)) (X ++ T1 ++ T2)).
Proof.
  induction T2 as [|t T2 IH]; intros T1 A X i Hi HX; simpl.
  - rewrite !app_nil_r. subst i. reflexivity.
  - (* read position |A|+|X|+i, i.e. element t *)
    assert (Hread : get_nth (A ++ T1 ++ skipn i (X ++ T1 ++ t :: T2)) (length A + length X + i) = Some t).
    { subst i.
      assert (E : skipn (length T1) (X ++ T1 ++ t :: T2) = skipn (length T1) (X ++ T1) ++ t :: T2).
      { replace (X ++ T1 ++ t :: T2) with ((X ++ T1) ++ t :: T2) by (rewrite <- app_assoc; reflexivity).
        apply skipn_app_le. rewrite app_length. lia. }
      rewrite E.
      replace (A ++ T1 ++ skipn (length T1) (X ++ T1) ++ t :: T2)
        with ((A ++ T1 ++ skipn (length T1) (X ++ T1)) ++ t :: T2) by (rewrite <- !app_assoc; reflexivity).
      replace (length A + length X + length T1) with (length (A ++ T1 ++ skipn (length T1) (X ++ T1))).
      - apply get_nth_app.
      - rewrite !app_length, skipn_length, app_length. lia. }
    rewrite Hread.
    (* write position |A|+i : first element of skipn i (X ++ ...) which exists since X <> [] *)
    destruct (skipn i (X ++ T1 ++ t :: T2)) as [|y rest] eqn:Esk.
    { exfalso. assert (L : length (skipn i (X ++ T1 ++ t :: T2)) = 0) by (rewrite Esk; reflexivity).
      rewrite skipn_length, !app_length in L. destruct X; [tauto|]. cbn [length] in L. lia. }
    replace (A ++ T1 ++ y :: rest) with ((A ++ T1) ++ y :: rest) by (rewrite <- app_assoc; reflexivity).
    replace (length A + i) with (length (A ++ T1)) by (rewrite app_length; lia).
    rewrite set_nth_app.
    assert (Hrest : rest = skipn (S i) (X ++ T1 ++ t :: T2)).
    { eapply skipn_S_tl; eauto. }
    specialize (IH (T1 ++ [t]) A X (S i)).
    replace (X ++ (T1 ++ [t]) ++ T2) with (X ++ T1 ++ t :: T2) in IH by (rewrite <- app_assoc; reflexivity).
    replace ((A ++ T1) ++ t :: rest) with (A ++ (T1 ++ [t]) ++ skipn (S i) (X ++ T1 ++ t :: T2)).
    + rewrite IH; [| rewrite app_length; simpl; lia | auto].
      rewrite <- !app_assoc. reflexivity.
    + rewrite Hrest, <- !app_assoc. reflexivity.
Qed.

(* ---------- growing loop: buffer resized first, tail moved from the right ---------- *)
Ltac lens := repeat (first [rewrite app_length in * | progress cbn [length] in * ]); lia.

Lemma set_nth_at pre x post v n : n = length pre -> set_nth (pre ++ x :: post) n v = Some (pre ++ v :: post).
Proof. intros ->. apply set_nth_app. Qed.
Lemma get_nth_at pre x post n : n = length pre -> get_nth (pre ++ x :: post) n = Some x.
Proof. intros ->. apply get_nth_app. Qed.

(* buffer = A ++ O ++ T1 ++ J ++ T2 : T2 already moved right by d = |J| > 0, T1 still to move *)
Lemma grow_loop_inv : forall (T1 A O J T2 : str) (n i : nat),
  J <> [] -> i = length T2 -> n = length T1 + length T2 ->
  exists J', length J' = length J /\
    grow_loop (A ++ O ++ T1 ++ J ++ T2) (length A + length O + length J) (length A + length O) n i (length T1)
    = Some (A ++ O ++ J' ++ T1 ++ T2).
Proof.
  induction T1 as [|t T1 IH] using rev_ind; intros A O J T2 n i HJ Hi Hn.
  - exists J. split; auto.
  - rewrite app_length in *. simpl length in *. replace (length T1 + 1) with (S (length T1)) by lia.
    cbn [grow_loop].
    (* read *)
    replace (A ++ O ++ (T1 ++ [t]) ++ J ++ T2) with ((A ++ O ++ T1) ++ t :: (J ++ T2))
      by (rewrite <- !app_assoc; reflexivity).
    rewrite get_nth_at by lens.
    (* write: last element of J *)
    destruct (last_case J) as [->|(J0 & j & ->)]; [tauto|].
    replace ((A ++ O ++ T1) ++ t :: (J0 ++ [j]) ++ T2) with ((A ++ O ++ T1 ++ [t] ++ J0) ++ j :: T2)
      by (rewrite <- !app_assoc; reflexivity).
    rewrite set_nth_at by lens.
    destruct (IH A O (t :: J0) (t :: T2) n (S i)) as (J' & HJ' & E); [discriminate | simpl; lia | simpl; lia |].
    exists J'. split; [rewrite HJ'; lens|].
    replace ((A ++ O ++ T1 ++ [t] ++ J0) ++ t :: T2) with (A ++ O ++ T1 ++ (t :: J0) ++ t :: T2)
      by (rewrite <- !app_assoc; reflexivity).
    replace (length A + length O + length (J0 ++ [j])) with (length A + length O + length (t :: J0))
      by lens.
    rewrite E. rewrite <- !app_assoc. reflexivity.
Qed.

(* ---------- the splice theorem: utils::replace is list surgery, for any tail length ---------- *)
Lemma firstn_exact {A} (l1 l2 : list A) n : n = length l1 -> firstn n (l1 ++ l2) = l1.
Proof. intros ->. rewrite firstn_app, Nat.sub_diag, firstn_all. simpl. apply app_nil_r. Qed.
Lemma resize_shrink l1 l2 n : n = length l1 -> resize (l1 ++ l2) n = l1.
Proof. intros ->. unfold resize. rewrite firstn_exact by reflexivity. rewrite app_length.
  replace (length l1 - (length l1 + length l2)) with 0 by lia. simpl. apply app_nil_r. Qed.
Lemma resize_grow l n : length l <= n -> resize l n = l ++ repeat 0%N (n - length l).
Proof. intros H. unfold resize. rewrite firstn_all2 by lia. reflexivity. Qed.

Lemma split_at {A} (l : list A) n : n <= length l -> exists l1 l2, l = l1 ++ l2 /\ length l1 = n.
Proof. intros H. exists (firstn n l), (skipn n l). split; [symmetry; apply firstn_skipn | rewrite firstn_length; lia]. Qed.

(* allocate_range makes room: the window becomes some J of the requested length, prefix and tail untouched *)
Theorem allocate_range_spec (A O T : str) (len : nat) :
  exists J, length J = len /\ allocate_range (A ++ O ++ T) (length A) (length A + length O) len = Some (A ++ J ++ T).
Proof.
  unfold allocate_range, sub_chk.
  replace (length A <=? length A + length O) with true by (symmetry; apply Nat.leb_le; lia).
  replace (length A + length O - length A) with (length O) by lia.
  destruct (length O =? len) eqn:Elen.
  - apply Nat.eqb_eq in Elen. exists O. auto.
  - apply Nat.eqb_neq in Elen.
    replace (length A + length O <=? length (A ++ O ++ T)) with true by (symmetry; apply Nat.leb_le; lens).
    replace (length (A ++ O ++ T) - (length A + length O)) with (length T) by lens.
    destruct (len <? length O) eqn:Elt.
    + (* shrink *)
      apply Nat.ltb_lt in Elt.
      destruct (split_at O len) as (O1 & O2 & -> & HO1); [lia|].
      assert (HO2 : O2 <> []). { intros ->. rewrite app_nil_r in Elt. lia. }
      pose proof (shrink_loop_inv T [] (A ++ O1) O2 0 eq_refl HO2) as S. simpl in S.
      replace (A ++ (O1 ++ O2) ++ T) with ((A ++ O1) ++ O2 ++ T) by (rewrite <- !app_assoc; reflexivity).
      replace (length A + len) with (length (A ++ O1)) by lens.
      replace (length A + length (O1 ++ O2)) with (length (A ++ O1) + length O2) by lens.
      rewrite S.
      replace ((A ++ O1) ++ T ++ skipn (length T) (O2 ++ T)) with (((A ++ O1) ++ T) ++ skipn (length T) (O2 ++ T))
        by (rewrite <- !app_assoc; reflexivity).
      rewrite resize_shrink by lens.
      exists O1. split; auto. rewrite <- app_assoc. reflexivity.
    + (* grow *)
      apply Nat.ltb_ge in Elt.
      set (d := len - length O).
      assert (Hd : d > 0) by (unfold d; lia).
      rewrite resize_grow by lens.
      replace (length A + len + length T - length (A ++ O ++ T)) with d by (unfold d; lens).
      assert (HJ : repeat 0%N d <> []) by (destruct d; [lia | discriminate]).
      destruct (grow_loop_inv T A O (repeat 0%N d) [] (length T) 0 HJ eq_refl) as (J' & HJ' & E); [simpl; lia|].
      rewrite repeat_length in HJ'. rewrite repeat_length in E. rewrite !app_nil_r in E.
      replace ((A ++ O ++ T) ++ repeat 0%N d) with (A ++ O ++ T ++ repeat 0%N d) by (rewrite <- !app_assoc; reflexivity).
      replace (length A + len) with (length A + length O + d) by (unfold d; lia).
      rewrite E. exists (O ++ J'). split; [unfold d in HJ'; lens|]. rewrite <- !app_assoc. reflexivity.
Qed.

Theorem replace_spec (A O T content : str) :
  replace (A ++ O ++ T) (length A) (length A + length O) content = Some (A ++ content ++ T).
Proof.
  unfold replace. destruct (allocate_range_spec A O T (length content)) as (J & HJ & ->).
  apply copy_at_app. auto.
Qed.
Print Assumptions replace_spec.
