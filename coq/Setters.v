(* L0 model of RiRefBufImpl::set_query / set_fragment (common/reference.rs) and their functional theorems. *)
From Coq Require Import List NArith Bool Arith Lia.
Import ListNotations.
Require Import V.Regex V.Parse V.ParseProofs V.Parse2 V.Parse2Proofs V.Splice.
Local Open Scope nat_scope.

Definition bind {A B} (o : option A) (f : A -> option B) : option B := match o with Some a => f a | None => None end.

(* Some(new) / Ok(range): replace(range, new); Err(start): allocate(start..start, len+1), write '?', copy;
   None / Ok(range): replace((range.start - 1)..range.end, b"") *)
Definition set_query (buf : str) (q : option str) : option str :=
  match q with
  | Some new =>
    match find_query buf 0 with
    | inl (s, e) => replace buf s e new
    | inr start =>
      bind (allocate_range buf start start (length new + 1)) (fun b =>
      bind (set_nth b start QM) (fun b => copy_at b (start + 1) new))
    end
  | None =>
    match find_query buf 0 with
    | inl (s, e) => bind (sub_chk s 1) (fun s' => replace buf s' e [])
    | inr _ => Some buf
    end
  end.

Definition with_query (p : parts) (q : option str) : parts :=
  {| p_scheme := p_scheme p; p_authority := p_authority p; p_path := p_path p; p_query := q; p_fragment := p_fragment p |}.

(* find_query on a composed reference, as a concrete value *)
Lemma find_query_value p : wf_parts p ->
  find_query (compose p) 0 =
  match p_query p with
  | Some q => inl (length (head_of p) + 1, length (head_of p) + 1 + length q)
  | None => inr (length (head_of p))
  end.
Proof.
  intros W. pose proof (head_no_qh p W) as Hh. destruct W as [Hs Ha Hp Hq Hpa Hpn Hpc].
  unfold find_query. simpl skipn. rewrite compose_head_tail, find_query_skip by auto. simpl.
  unfold tail_of. destruct (p_query p) as [q|] eqn:Eq; simpl.
  - f_equal. f_equal; [lia|]. rewrite scan_app; [lia| |].
    + specialize (Hq q eq_refl). eapply Forall_impl; [|exact Hq]. intros c Hc. cbv beta in Hc. kill_is c. reflexivity.
    + destruct (p_fragment p); simpl; [right | left; auto]. eexists _, _. split; reflexivity.
  - destruct (p_fragment p) as [f|]; simpl; auto.
Qed.

(* the "insert delimiter + value" idiom: allocate(start..start, |v|+1); buf[start] = d; copy v *)
Lemma insert_delim A T d v :
  bind (allocate_range (A ++ T) (length A) (length A) (length v + 1)) (fun b =>
  bind (set_nth b (length A) d) (fun b => copy_at b (length A + 1) v)) = Some (A ++ d :: v ++ T).
Proof.
  destruct (allocate_range_spec A [] T (length v + 1)) as (J & HJ & E). simpl in E. rewrite Nat.add_0_r in E.
  rewrite E. simpl bind. destruct J as [|j J]; [simpl in HJ; lia|]. simpl in HJ.
  change (A ++ (j :: J) ++ T) with (A ++ j :: (J ++ T)). rewrite set_nth_app. simpl bind.
  replace (A ++ d :: J ++ T) with ((A ++ [d]) ++ J ++ T) by (rewrite <- app_assoc; reflexivity).
  replace (length A + 1) with (length (A ++ [d])) by (rewrite app_length; simpl; lia).
  rewrite copy_at_app by lia. rewrite <- app_assoc. reflexivity.
Qed.

Theorem set_query_spec p q : wf_parts p -> set_query (compose p) q = Some (compose (with_query p q)).
Proof.
  intros W. unfold set_query. rewrite find_query_value by auto.
  assert (C : forall q', compose (with_query p q') = head_of p ++ opt_pre [QM] q' ++ opt_pre [HASH] (p_fragment p)).
  { intros q'. rewrite compose_head_tail. reflexivity. }
  rewrite C. rewrite compose_head_tail. unfold tail_of.
  destruct q as [new|]; destruct (p_query p) as [q0|] eqn:Eq; simpl opt_pre.
  - (* replace the old query *)
    replace (head_of p ++ (QM :: q0) ++ opt_pre [HASH] (p_fragment p))
      with ((head_of p ++ [QM]) ++ q0 ++ opt_pre [HASH] (p_fragment p)) by (rewrite <- !app_assoc; reflexivity).
    replace (length (head_of p) + 1) with (length (head_of p ++ [QM])) by (rewrite app_length; simpl; lia).
    rewrite replace_spec. rewrite <- !app_assoc. reflexivity.
  - (* insert '?' new *)
    simpl app. rewrite insert_delim. reflexivity.
  - (* remove '?' old *)
    unfold sub_chk. replace (1 <=? length (head_of p) + 1) with true by (symmetry; apply Nat.leb_le; lia).
    simpl bind. replace (length (head_of p) + 1 - 1) with (length (head_of p)) by lia.
    replace (length (head_of p) + 1 + length q0) with (length (head_of p) + length (QM :: q0)) by (simpl; lia).
    change (head_of p ++ QM :: q0 ++ opt_pre [HASH] (p_fragment p))
      with (head_of p ++ (QM :: q0) ++ opt_pre [HASH] (p_fragment p)).
    rewrite replace_spec. reflexivity.
  - reflexivity.
Qed.
Print Assumptions set_query_spec.

(* hence: validity is preserved and only the query changes (C04/C05 for this setter) *)
Corollary set_query_wf p q : wf_parts p -> (forall x, q = Some x -> none_of [HASH] x) -> wf_parts (with_query p q).
Proof. intros [Hs Ha Hp Hq Hpa Hpn Hpc] Hnew. constructor; simpl; auto. Qed.
