(* C16: the suffix loop of the model reports a suffix only for (percent-decoded) prefixes and reports
   "none" only for non-prefixes. *)
From Coq Require Import List NArith Bool Arith Lia.
Import ListNotations.
Require Import V.Regex V.Parse V.Parse2 V.PathSpec V.Splice V.Setters V.Iter V.PathQ V.PathMut V.Reference V.Cmp.
Local Open Scope nat_scope.

Definition seg_eq (x y : str) : Prop := eq_key pct_key x y = Some true.
(* ys is a leading part of xs, segment-wise equal after percent-decoding *)
Inductive is_prefix : list str -> list str -> Prop :=
| pre_nil xs : is_prefix [] xs
| pre_cons x xs y ys : seg_eq x y -> is_prefix ys xs -> is_prefix (y :: ys) (x :: xs).

Theorem suffix_some buf xs : forall ys r, suffix_loop buf xs ys = Some (Some r) -> is_prefix ys xs.
Proof.
  revert buf. induction xs as [|x xs IH]; intros buf ys r H.
  - destruct ys; simpl in H; [constructor | discriminate].
  - destruct ys as [|y ys].
    + constructor.
    + simpl in H. destruct (eq_key pct_key x y) as [[|]|] eqn:E; try discriminate.
      constructor; [exact E | eapply IH; exact H].
Qed.

(* with the prefix exhausted the loop only pushes: it ends in a suffix or in a panic, never in "none" *)
Lemma push_only l : forall buf, suffix_loop buf l [] <> Some None.
Proof.
  induction l as [|a l IH]; intros buf H; simpl in H; [discriminate|].
  destruct (pm_push (pm_from_path buf) a) as [h|]; simpl in H; [|discriminate]. eapply IH; exact H.
Qed.

Theorem suffix_none buf xs : forall ys, suffix_loop buf xs ys = Some None -> ~ is_prefix ys xs.
Proof.
  revert buf. induction xs as [|x xs IH]; intros buf ys H P.
  - destruct ys; simpl in H; [discriminate | inversion P].
  - destruct ys as [|y ys].
    + exact (push_only (x :: xs) buf H).
    + inversion P as [|? ? ? ? E P']; subst. simpl in H. unfold seg_eq in E. rewrite E in H. eapply IH; eauto.
Qed.

(* base() returns a leading part of the text *)
Theorem base_is_prefix buf : exists rest, buf = ref_base buf ++ rest.
Proof.
  unfold ref_base. destruct (find_path buf 0) as [ps pe].
  eexists. symmetry. apply firstn_skipn.
Qed.
