(* Total orders given by a `comparison`-valued function, and the combinators that derive(Ord) uses:
   Option (None < Some), lexicographic product, lexicographic lists (shorter prefix first), bool. *)
From Coq Require Import List NArith Bool Arith Lia.
Import ListNotations.

Record ordspec {A} (cmp : A -> A -> comparison) : Prop := {
  os_eq : forall a b, cmp a b = Eq <-> a = b;
  os_anti : forall a b, cmp b a = CompOpp (cmp a b);
  os_trans : forall a b c, cmp a b = Lt -> cmp b c = Lt -> cmp a c = Lt }.

Lemma os_refl {A} (cmp : A -> A -> comparison) : ordspec cmp -> forall a, cmp a a = Eq.
Proof. intros O a. now apply (os_eq _ O). Qed.
Lemma os_gt_lt {A} (cmp : A -> A -> comparison) : ordspec cmp -> forall a b, cmp a b = Gt <-> cmp b a = Lt.
Proof. intros O a b. rewrite (os_anti _ O a b). destruct (cmp a b); simpl; split; congruence. Qed.

Lemma N_ord : ordspec N.compare.
Proof.
  constructor.
  - apply N.compare_eq_iff.
  - intros a b. apply N.compare_antisym.
  - intros a b c. rewrite !N.compare_lt_iff. apply N.lt_trans.
Qed.

Definition bool_cmp (a b : bool) : comparison :=
  match a, b with false, false | true, true => Eq | false, true => Lt | true, false => Gt end.
Lemma bool_ord : ordspec bool_cmp.
Proof. constructor; intros [] []; simpl; try intros []; simpl; intuition congruence. Qed.

Section Opt.
  Context {A} (cmp : A -> A -> comparison) (O : ordspec cmp).
  Definition opt_cmp (a b : option A) : comparison :=
    match a, b with None, None => Eq | None, Some _ => Lt | Some _, None => Gt | Some x, Some y => cmp x y end.
  Lemma opt_ord : ordspec opt_cmp.
  Proof.
    constructor.
    - intros [x|] [y|]; simpl; try (split; congruence). rewrite (os_eq _ O). split; congruence.
    - intros [x|] [y|]; simpl; auto. apply (os_anti _ O).
    - intros [x|] [y|] [z|]; simpl; try congruence. apply (os_trans _ O).
  Qed.
End Opt.

Section Pair.
  Context {A B} (ca : A -> A -> comparison) (cb : B -> B -> comparison) (OA : ordspec ca) (OB : ordspec cb).
  Definition pair_cmp (x y : A * B) : comparison :=
    match ca (fst x) (fst y) with Eq => cb (snd x) (snd y) | c => c end.
  Lemma pair_ord : ordspec pair_cmp.
  Proof.
    constructor.
    - intros [a b] [a' b']; unfold pair_cmp; simpl. destruct (ca a a') eqn:E.
      + apply (os_eq _ OA) in E. subst. rewrite (os_eq _ OB). split; congruence.
      + split; [discriminate|]. intros H. injection H as -> ->. rewrite (os_refl _ OA) in E. discriminate.
      + split; [discriminate|]. intros H. injection H as -> ->. rewrite (os_refl _ OA) in E. discriminate.
    - intros [a b] [a' b']; unfold pair_cmp; simpl. rewrite (os_anti _ OA a a'). destruct (ca a a'); simpl; auto. apply (os_anti _ OB).
    - intros [a b] [a' b'] [a'' b'']; unfold pair_cmp; simpl.
      destruct (ca a a') eqn:E1; try discriminate; destruct (ca a' a'') eqn:E2; try discriminate; intros H1 H2.
      + apply (os_eq _ OA) in E1, E2. subst. rewrite (os_refl _ OA). eapply (os_trans _ OB); eauto.
      + apply (os_eq _ OA) in E1. subst. rewrite E2. reflexivity.
      + apply (os_eq _ OA) in E2. subst. rewrite E1. reflexivity.
      + rewrite (os_trans _ OA _ _ _ E1 E2). reflexivity.
  Qed.
End Pair.

Section Lex.
  Context {A} (cmp : A -> A -> comparison) (O : ordspec cmp).
  Fixpoint lex_cmp (a b : list A) : comparison :=
    match a, b with
    | [], [] => Eq
    | [], _ :: _ => Lt
    | _ :: _, [] => Gt
    | x :: a', y :: b' => match cmp x y with Eq => lex_cmp a' b' | c => c end
    end.
  Lemma lex_ord : ordspec lex_cmp.
  Proof.
    constructor.
    - induction a as [|x a IH]; intros [|y b]; simpl; try (split; congruence).
      destruct (cmp x y) eqn:E.
      + apply (os_eq _ O) in E. subst. rewrite IH. split; congruence.
      + split; [discriminate|]. intros H. injection H as -> ->. rewrite (os_refl _ O) in E. discriminate.
      + split; [discriminate|]. intros H. injection H as -> ->. rewrite (os_refl _ O) in E. discriminate.
    - induction a as [|x a IH]; intros [|y b]; simpl; auto.
      rewrite (os_anti _ O x y). destruct (cmp x y); simpl; auto.
    - induction a as [|x a IH]; intros [|y b] [|z c]; simpl; try congruence.
      destruct (cmp x y) eqn:E1; try discriminate; destruct (cmp y z) eqn:E2; try discriminate; intros H1 H2.
      + apply (os_eq _ O) in E1, E2. subst. rewrite (os_refl _ O). eapply IH; eauto.
      + apply (os_eq _ O) in E1. subst. rewrite E2. reflexivity.
      + apply (os_eq _ O) in E2. subst. rewrite E1. reflexivity.
      + rewrite (os_trans _ O _ _ _ E1 E2). reflexivity.
  Qed.
End Lex.
