From Coq Require Import List NArith Bool Lia.
Import ListNotations.
Open Scope N_scope.

Definition str := list N.
Definition cls := list (N * N).

Definition in_rng (c : N) (r : N * N) : bool := (fst r <=? c) && (c <=? snd r).
Definition in_cls (c : N) (k : cls) : bool := existsb (in_rng c) k.

Inductive re :=
| Empty | Eps | Cls (k : cls) | Cat (a b : re) | Alt (a b : re) | Star (a : re) | And (a b : re).

(* ---------- semantics ---------- *)
Inductive star_lang (P : str -> Prop) : str -> Prop :=
| star_nil : star_lang P []
| star_app s1 s2 : P s1 -> star_lang P s2 -> star_lang P (s1 ++ s2).

Fixpoint L (r : re) (s : str) : Prop :=
  match r with
  | Empty => False
  | Eps => s = []
  | Cls k => exists c, s = [c] /\ in_cls c k = true
  | Cat a b => exists s1 s2, s = s1 ++ s2 /\ L a s1 /\ L b s2
  | Alt a b => L a s \/ L b s
  | Star a => star_lang (L a) s
  | And a b => L a s /\ L b s
  end.

(* ---------- total order on regexes, for canonical forms ---------- *)
Fixpoint cmp_cls (a b : cls) : comparison :=
  match a, b with
  | [], [] => Eq | [], _ => Lt | _, [] => Gt
  | (l1,h1)::a', (l2,h2)::b' =>
    match N.compare l1 l2 with
    | Eq => match N.compare h1 h2 with Eq => cmp_cls a' b' | c => c end
    | c => c end
  end.

Definition tag (r : re) : N :=
  match r with Empty => 0 | Eps => 1 | Cls _ => 2 | Cat _ _ => 3 | Alt _ _ => 4 | Star _ => 5 | And _ _ => 6 end.

Fixpoint re_cmp (r s : re) : comparison :=
  match r, s with
  | Empty, Empty => Eq
  | Eps, Eps => Eq
  | Cls a, Cls b => cmp_cls a b
  | Cat a1 a2, Cat b1 b2 => match re_cmp a1 b1 with Eq => re_cmp a2 b2 | c => c end
  | Alt a1 a2, Alt b1 b2 => match re_cmp a1 b1 with Eq => re_cmp a2 b2 | c => c end
  | And a1 a2, And b1 b2 => match re_cmp a1 b1 with Eq => re_cmp a2 b2 | c => c end
  | Star a, Star b => re_cmp a b
  | _, _ => N.compare (tag r) (tag s)
  end.

Lemma cmp_cls_eq a : forall b, cmp_cls a b = Eq -> a = b.
Proof.
  induction a as [|[l1 h1] a IH]; intros [|[l2 h2] b]; simpl; try discriminate; auto.
  destruct (N.compare_spec l1 l2) as [E1| |]; try discriminate.
  destruct (N.compare_spec h1 h2) as [E2| |]; try discriminate.
  intros H0; subst; f_equal; auto.
Qed.

Lemma re_cmp_eq r : forall s, re_cmp r s = Eq -> r = s.
Proof.
  induction r; intros s; destruct s; simpl; try discriminate; auto.
  - intros H; f_equal; now apply cmp_cls_eq.
  - destruct (re_cmp r1 s1) eqn:E; try discriminate. intros H. f_equal; auto.
  - destruct (re_cmp r1 s1) eqn:E; try discriminate. intros H. f_equal; auto.
  - intros H; f_equal; auto.
  - destruct (re_cmp r1 s1) eqn:E; try discriminate. intros H. f_equal; auto.
Qed.

Definition re_eqb (r s : re) : bool := match re_cmp r s with Eq => true | _ => false end.
Lemma re_eqb_eq r s : re_eqb r s = true -> r = s.
Proof. unfold re_eqb. destruct (re_cmp r s) eqn:E; try discriminate. intros _. now apply re_cmp_eq. Qed.

(* ---------- smart constructors ---------- *)
Fixpoint insert (x c : re) : re :=
  match c with
  | Empty => x
  | Alt y c' => match re_cmp x y with Lt => Alt x c | Eq => c | Gt => Alt y (insert x c') end
  | y => match re_cmp x y with Lt => Alt x y | Eq => y | Gt => Alt y x end
  end.

Fixpoint alt2 (a b : re) : re :=
  match a with
  | Empty => b
  | Alt x a' => insert x (alt2 a' b)
  | x => insert x b
  end.

Fixpoint cat (a b : re) : re :=
  match a with
  | Empty => Empty
  | Eps => b
  | Cat a1 a2 => match b with Empty => Empty | _ => Cat a1 (cat a2 b) end
  | _ => match b with Empty => Empty | Eps => a | _ => Cat a b end
  end.

Definition star (a : re) : re := match a with Empty | Eps => Eps | Star _ => a | _ => Star a end.

Definition and2 (a b : re) : re :=
  match a, b with
  | Empty, _ | _, Empty => Empty
  | _, _ => match re_cmp a b with Eq => a | Lt => And a b | Gt => And b a end
  end.

Lemma insert_L x c s : L (insert x c) s <-> L x s \/ L c s.
Proof.
  assert (G : forall y, L (match re_cmp x y with Lt => Alt x y | Eq => y | Gt => Alt y x end) s <-> L x s \/ L y s).
  { intros y. destruct (re_cmp x y) eqn:E; simpl; try tauto. apply re_cmp_eq in E; subst; tauto. }
  induction c; simpl; try apply G.
  - tauto.
  - destruct (re_cmp x c1) eqn:E; simpl; try tauto.
    apply re_cmp_eq in E; subst; tauto.
Qed.

Lemma alt2_L a : forall b s, L (alt2 a b) s <-> L a s \/ L b s.
Proof.
  induction a; intros b s; simpl; try (rewrite insert_L; simpl; tauto); try tauto.
  rewrite insert_L, IHa2. tauto.
Qed.

Lemma cat_L a : forall b s, L (cat a b) s <-> L (Cat a b) s.
Proof.
  induction a; intros b s; simpl.
  - split; [tauto | intros (s1 & s2 & _ & [] & _)].
  - split.
    + intros H; exists [], s; auto.
    + intros (s1 & s2 & -> & -> & H); auto.
  - destruct b; simpl; try tauto.
    + split; [tauto | intros (s1 & s2 & _ & _ & [])].
    + split.
      * intros H. exists s, []. rewrite app_nil_r. auto.
      * intros (s1 & s2 & -> & H & ->). now rewrite app_nil_r.
  - assert (Hassoc : L (Cat a1 (cat a2 b)) s <-> L (Cat (Cat a1 a2) b) s).
    { simpl. split.
      - intros (s1 & s2 & -> & H1 & H2). apply IHa2 in H2. destruct H2 as (t1 & t2 & -> & H2 & H3).
        exists (s1 ++ t1), t2. rewrite app_assoc. repeat split; auto. exists s1, t1; auto.
      - intros (s1 & s2 & -> & (t1 & t2 & -> & H1 & H2) & H3).
        exists t1, (t2 ++ s2). rewrite app_assoc. repeat split; auto. apply IHa2. exists t2, s2; auto. }
    destruct b; try exact Hassoc.
    simpl. split; [tauto | intros (s1 & s2 & _ & _ & [])].
  - destruct b; simpl; try tauto.
    + split; [tauto | intros (s1 & s2 & _ & _ & [])].
    + split.
      * intros H. exists s, []. rewrite app_nil_r. auto.
      * intros (s1 & s2 & -> & H & ->). now rewrite app_nil_r.
  - destruct b; simpl; try tauto.
    + split; [tauto | intros (s1 & s2 & _ & _ & [])].
    + split.
      * intros H. exists s, []. rewrite app_nil_r. auto.
      * intros (s1 & s2 & -> & H & ->). now rewrite app_nil_r.
  - destruct b; simpl; try tauto.
    + split; [tauto | intros (s1 & s2 & _ & _ & [])].
    + split.
      * intros H. exists s, []. rewrite app_nil_r. auto.
      * intros (s1 & s2 & -> & H & ->). now rewrite app_nil_r.
Qed.

Lemma star_lang_idem P s : star_lang (star_lang P) s -> star_lang P s.
Proof.
  induction 1 as [|s1 s2 H1 _ IH]; [constructor|].
  induction H1 as [|t1 t2 Ht _ IHt]; simpl; auto.
  rewrite <- app_assoc. constructor; auto.
Qed.

Lemma star_L a s : L (star a) s <-> star_lang (L a) s.
Proof.
  destruct a; simpl; try tauto.
  - split; [intros ->; constructor|]. induction 1 as [|s1 s2 [] _ _]; auto.
  - split; [intros ->; constructor|]. induction 1 as [|s1 s2 H1 _ IH]; auto. simpl in H1; subst; auto.
  - split.
    + intros H. replace s with (s ++ []) by apply app_nil_r. constructor; [exact H|constructor].
    + apply star_lang_idem.
Qed.

Lemma and2_L a b s : L (and2 a b) s <-> L a s /\ L b s.
Proof.
  unfold and2.
  assert (G : L (match re_cmp a b with Eq => a | Lt => And a b | Gt => And b a end) s <-> L a s /\ L b s).
  { destruct (re_cmp a b) eqn:E; simpl; try tauto. apply re_cmp_eq in E; subst; tauto. }
  destruct a; simpl; try tauto; destruct b; simpl in *; tauto.
Qed.

(* ---------- nullable and derivative ---------- *)
Fixpoint nullable (r : re) : bool :=
  match r with
  | Empty => false | Eps => true | Cls _ => false
  | Cat a b => nullable a && nullable b
  | Alt a b => nullable a || nullable b
  | Star _ => true
  | And a b => nullable a && nullable b
  end.

Fixpoint deriv (c : N) (r : re) : re :=
  match r with
  | Empty | Eps => Empty
  | Cls k => if in_cls c k then Eps else Empty
  | Cat a b => let d := cat (deriv c a) b in if nullable a then alt2 d (deriv c b) else d
  | Alt a b => alt2 (deriv c a) (deriv c b)
  | Star a => cat (deriv c a) (star a)
  | And a b => and2 (deriv c a) (deriv c b)
  end.

Lemma nullable_spec r : nullable r = true <-> L r [].
Proof.
  induction r; simpl.
  - split; [discriminate | tauto].
  - tauto.
  - split; [discriminate | intros (c & H & _); discriminate].
  - rewrite andb_true_iff, IHr1, IHr2. split.
    + intros [H1 H2]. exists [], []. auto.
    + intros (s1 & s2 & H & H1 & H2). symmetry in H. apply app_eq_nil in H as [-> ->]. auto.
  - rewrite orb_true_iff, IHr1, IHr2. tauto.
  - split; [constructor | auto].
  - rewrite andb_true_iff, IHr1, IHr2. tauto.
Qed.

Lemma star_cons_inv P c s : star_lang P (c :: s) ->
  exists s1 s2, s = s1 ++ s2 /\ P (c :: s1) /\ star_lang P s2.
Proof.
  intros H. remember (c :: s) as w eqn:E. revert c s E.
  induction H as [|s1 s2 H1 H2 IH]; intros c s E; [discriminate|].
  destruct s1 as [|c' s1]; simpl in E.
  - apply IH; auto.
  - injection E as -> <-. exists s1, s2. auto.
Qed.

Lemma deriv_spec r : forall c s, L (deriv c r) s <-> L r (c :: s).
Proof.
  induction r; intros c s; simpl.
  - tauto.
  - split; [tauto | discriminate].
  - destruct (in_cls c k) eqn:E; simpl.
    + split.
      * intros ->. exists c; auto.
      * intros (c' & H & _). injection H as _ ->; auto.
    + split; [tauto|]. intros (c' & H & H'). injection H as -> ->. congruence.
  - assert (D : L (cat (deriv c r1) r2) s <-> exists s1 s2, s = s1 ++ s2 /\ L r1 (c :: s1) /\ L r2 s2).
    { rewrite cat_L. simpl. split; intros (s1 & s2 & -> & H1 & H2); exists s1, s2; repeat split; auto; now apply IHr1. }
    destruct (nullable r1) eqn:N1.
    + rewrite alt2_L, D, IHr2. apply nullable_spec in N1. split.
      * intros [(s1 & s2 & -> & H1 & H2) | H].
        -- exists (c :: s1), s2; auto.
        -- exists [], (c :: s); auto.
      * intros (s1 & s2 & E & H1 & H2). destruct s1 as [|c' s1]; simpl in E.
        -- subst s2. right; auto.
        -- injection E as <- ->. left. exists s1, s2; auto.
    + rewrite D. split.
      * intros (s1 & s2 & -> & H1 & H2). exists (c :: s1), s2; auto.
      * intros (s1 & s2 & E & H1 & H2). destruct s1 as [|c' s1]; simpl in E.
        -- apply nullable_spec in H1. congruence.
        -- injection E as <- ->. exists s1, s2; auto.
  - rewrite alt2_L, IHr1, IHr2. tauto.
  - rewrite cat_L. simpl. split.
    + intros (s1 & s2 & -> & H1 & H2). apply IHr in H1. apply star_L in H2.
      change (c :: s1 ++ s2) with ((c :: s1) ++ s2). constructor; auto.
    + intros H. apply star_cons_inv in H as (s1 & s2 & -> & H1 & H2).
      exists s1, s2. repeat split; auto. now apply IHr. now apply star_L.
  - rewrite and2_L, IHr1, IHr2. tauto.
Qed.

Fixpoint matchb (r : re) (s : str) : bool :=
  match s with [] => nullable r | c :: s' => matchb (deriv c r) s' end.

Theorem matchb_spec s : forall r, matchb r s = true <-> L r s.
Proof.
  induction s as [|c s IH]; intros r; simpl.
  - apply nullable_spec.
  - rewrite IH. apply deriv_spec.
Qed.
