(* Property C05 -- component setters change exactly the targeted component.  Statements only.
   Each theorem: on compose p (p delimiter-well-formed, which every valid reference is -- C02), the
   L0 model of the setter does not panic and returns compose p' where p' is p with that one component
   replaced, every other component IDENTICAL, and the path written differs from the path requested
   only by one of the three documented disambiguations (`permitted`); p' is again well-formed, so by
   C02 every accessor reads p' back. *)
From Coq Require Import List NArith Bool Arith.
Import ListNotations.
Require Import V.Regex V.Parse V.ParseProofs V.Parse2 V.PathSpec V.Splice V.Setters V.Push V.SetPath V.SetAuth V.SetScheme
  V.Reference V.SetFragment V.C05Proofs V.Abnf V.Factor V.BridgePaths V.C02Bridge V.ValidSetInst.
Local Open Scope nat_scope.

Theorem C05_set_query : forall p q, wf_parts p -> (forall x, q = Some x -> none_of [HASH] x) ->
  set_query (compose p) q = Some (compose (with_query p q)) /\ wf_parts (with_query p q).
Proof. intros p q W H. split; [now apply set_query_spec | now apply set_query_wf]. Qed.
Print Assumptions C05_set_query.

Theorem C05_set_fragment : forall p f, wf_parts p ->
  set_fragment (compose p) f = Some (compose (with_fragment p f)) /\ wf_parts (with_fragment p f).
Proof. intros p f W. split; [now apply set_fragment_spec | now apply set_fragment_wf]. Qed.
Print Assumptions C05_set_fragment.

Theorem C05_set_path : forall p new, wf_parts p -> none_of [QM; HASH] new ->
  set_path (compose p) new = Some (compose (with_path p (fix_path p new))) /\
  permitted (has (p_scheme p)) (has (p_authority p)) new (fix_path p new) /\
  wf_parts (with_path p (fix_path p new)).
Proof. intros p new W H. split; [now apply set_path_spec|]. split; [apply fix_path_permitted | now apply set_path_wf]. Qed.
Print Assumptions C05_set_path.

Theorem C05_set_authority : forall p new, wf_parts p -> (forall a, new = Some a -> none_of [SLASH; QM; HASH] a) ->
  set_authority (compose p) new = Some (compose (with_auth p new (auth_path p new))) /\
  permitted (has (p_scheme p)) (has new) (p_path p) (auth_path p new) /\
  wf_parts (with_auth p new (auth_path p new)).
Proof. intros p new W H. split; [now apply set_authority_spec|]. split; [now apply auth_fix_permitted | now apply set_authority_wf]. Qed.
Print Assumptions C05_set_authority.

Theorem C05_set_scheme : forall p new, wf_parts p -> (forall s, new = Some s -> s <> [] /\ none_of [COLON; SLASH; QM; HASH] s) ->
  set_scheme (compose p) new = Some (compose (with_scheme p new (scheme_fix_path p new))) /\
  permitted (has new) (has (p_authority p)) (p_path p) (scheme_fix_path p new) /\
  wf_parts (with_scheme p new (scheme_fix_path p new)).
Proof. intros p new W H. split; [now apply set_scheme_spec|]. split; [apply scheme_fix_permitted | now apply set_scheme_wf]. Qed.
Print Assumptions C05_set_scheme.

(* AT THE LEVEL OF THE RFC GRAMMAR (shown for set_path and set_authority, the two setters that rewrite the path; the
   other three are in ValidSetInst.v): valid reference + valid value -> the result is compose of VALID parts,
   hence a string of the reference language again *)
Theorem C05_set_path_valid_URI : forall p v, valid_parts_U p -> L (ipath U) v ->
  exists p', set_path (compose p) v = Some (compose p') /\ valid_parts_U p' /\ L (IRI_reference U U) (compose p').
Proof. exact set_path_valid_U. Qed.
Print Assumptions C05_set_path_valid_URI.
Theorem C05_set_authority_valid_IRI : forall p new, valid_parts_I p -> oL (iauthority I) new ->
  exists p', set_authority (compose p) new = Some (compose p') /\ valid_parts_I p' /\ L (IRI_reference I C02Bridge.P) (compose p').
Proof. exact set_authority_valid_I. Qed.
Print Assumptions C05_set_authority_valid_IRI.

(* the splice underneath: replacing a range keeps everything before and after it (any tail length) *)
Theorem C05_replace : forall A O T c, replace (A ++ O ++ T) (length A) (length A + length O) c = Some (A ++ c ++ T).
Proof. exact replace_spec. Qed.
Print Assumptions C05_replace.

(* non-vacuity: s:1a:b  set_scheme(None)  ->  ./1a:b *)
Example C05_example : set_scheme [115;58;49;97;58;98]%N None = Some [46;47;49;97;58;98]%N.
Proof. vm_compute. reflexivity. Qed.
