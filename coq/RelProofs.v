(* C15: relativisation round-trips through resolution on the class where it is claimed: same scheme, same
   authority, absolute dot-free paths without an empty segment before the last one, a literal common directory
   prefix; excluded: the recorded classes (a is an ancestor of b's directory, query inheritance) and the two shapes in
   which relative_to writes a "./" shield. *)
From Coq Require Import List NArith Bool Arith Lia.
Import ListNotations.
Require Import V.Regex V.Parse V.ParseProofs V.Parse2 V.Parse2Proofs V.ScanValues V.PathSpec V.Splice V.Setters V.Iter V.PathQ V.Push V.PathMut V.PathMutProofs
  V.SetPath V.SetAuth V.SetScheme V.SetFragment V.C05Proofs V.Reference V.GetProofs V.Rfc V.PushWf V.RefPath V.IterProofs V.IterAll V.C09Proofs V.C12Proofs V.NormProofs V.PopProofs V.ParentProofs V.SymProofs
  V.MergeProofs V.ResolveProofs V.ResolveProofs2 V.ResolveProofs3 V.ResolveProofs4 V.Ord V.Cmp V.CmpProofs.
Local Open Scope nat_scope.

(* ---------- push through a handle on a reference: the exact text ---------- *)
Theorem ref_push_exact p seg : wf_parts p -> seg_arg seg ->
  ref_push (compose p) seg = Some (compose (with_path p (push (negb (has (p_scheme p)) && negb (has (p_authority p))) (has (p_authority p)) (p_path p) seg))) /\
  wf_parts (with_path p (push (negb (has (p_scheme p)) && negb (has (p_authority p))) (has (p_authority p)) (p_path p) seg)).
Proof.
  intros W A. destruct (hpush _ _ _ _ _ _ seg (path_mut_hinv p W) A) as (h' & E & HI).
  destruct (hinv_result p h' _ W HI) as [Eb Wp]. unfold ref_push. rewrite E. cbn [option_map]. rewrite Eb. auto.
Qed.

(* a relative reference that consists of its path only *)
Definition relp (v : str) : parts := {| p_scheme := None; p_authority := None; p_path := v; p_query := None; p_fragment := None |}.
Lemma compose_relp v : compose (relp v) = v.
Proof. unfold compose, relp. cbn [p_scheme p_authority p_path p_query p_fragment opt_post opt_pre tail_of app]. rewrite ?app_nil_r. reflexivity. Qed.
Lemma relp_wf v : wf_path_in false false v -> wf_parts (relp v).
Proof.
  intros [W1 W2 W3 W4]. constructor; cbn [relp p_scheme p_authority p_path p_query p_fragment].
  - intros s E. discriminate E.
  - intros a E. discriminate E.
  - exact W1.
  - intros q E. discriminate E.
  - intros E. contradiction.
  - intros _. now apply W3.
  - intros _ _. now apply W4.
Qed.

Definition rel_seg (s : str) : Prop := nonempty_seg s /\ none_of [QM; HASH] s.

(* push_all on a relative reference that consists of its path only *)
Lemma push_all_rel segs : Forall rel_seg segs -> forall v l, Rep false v l -> wf_path_in false false v ->
  (forall k, normal false (l ++ firstn k segs)) ->
  (l = [] -> match segs with s :: _ => colon_first s = false | [] => True end) ->
  push_all v segs = Some (render false (l ++ segs)) /\ Rep false (render false (l ++ segs)) (l ++ segs) /\ wf_path_in false false (render false (l ++ segs)).
Proof.
  induction 1 as [|s rest [Hs Hq] _ IH]; intros v l R W Hn Hcol; cbn [push_all].
  - rewrite app_nil_r. pose proof R as (Ev & C & N). subst v. split; [reflexivity | split; [exact R | exact W]].
  - rewrite <- (compose_relp v) at 1.
    destruct (ref_push_exact (relp v) s (relp_wf v W) (conj (proj2 Hs) Hq)) as [E Wp]. unfold ref_push in E. rewrite E. cbn [option_map bind relp p_scheme p_authority p_path has negb andb].
    assert (Et : push true false v s = render false (l ++ [s])).
    { assert (Hcase : l = [] \/ l <> []) by (destruct l; [left; reflexivity | right; discriminate]). destruct Hcase as [El|Hl].
      - apply (push_text true false false v l s R); [intros E0; discriminate E0 | intros _; exact (Hcol El) | exact (proj1 Hs) | exact (proj2 Hs)].
      - apply (push_text_nonempty true false false v l s R Hl (proj1 Hs) (proj2 Hs)). }
    change (with_path (relp v) (push true false v s)) with (relp (push true false v s)). rewrite compose_relp, Et.
    assert (R' : Rep false (render false (l ++ [s])) (l ++ [s])).
    { destruct R as (_ & C & _). split; [reflexivity | split].
      - apply clean_app. split; [exact C | constructor; [exact Hs | constructor]].
      - exact (Hn 1). }
    assert (W' : wf_path_in false false (render false (l ++ [s]))).
    { pose proof (push_wf false false v s W (proj2 Hs) Hq) as Hw. cbn [negb andb] in Hw. rewrite Et in Hw. exact Hw. }
    assert (Hn' : forall k, normal false ((l ++ [s]) ++ firstn k rest)).
    { intros k. rewrite <- app_assoc. exact (Hn (S k)). }
    destruct (IH _ (l ++ [s]) R' W' Hn' ltac:(intros E0; destruct l; discriminate E0)) as (E2 & R2 & W2).
    rewrite <- app_assoc in E2, R2, W2. cbn [app] in E2, R2, W2. auto.
Qed.

(* ---------- list level: going up |bs| times cancels bs ---------- *)
Lemma fold_plain ab l : forall st, plain l -> fold_left (step ab) l st = rev l ++ st.
Proof.
  induction l as [|x l IH]; intros st Hp; cbn [fold_left rev app]; [reflexivity|]. cbn [plain] in Hp. destruct Hp as (Hd & Hdd & Hp).
  rewrite IH by exact Hp. unfold step. rewrite Hd, Hdd, <- app_assoc. reflexivity.
Qed.
Lemma fold_pops ab bs : forall st, plain bs -> fold_left (step ab) (repeat DOTDOT (length bs)) (rev bs ++ st) = st.
Proof.
  induction bs as [|x bs IH] using rev_ind; intros st Hp; [reflexivity|].
  apply plain_app in Hp as [Hp (Hd & Hdd & _)].
  rewrite app_length. cbn [length]. rewrite Nat.add_1_r. cbn [repeat fold_left]. rewrite rev_app_distr. cbn [rev app].
  rewrite step_dotdot_cons, Hdd. apply IH, Hp.
Qed.
Lemma norm_updown X bs ss : plain X -> plain bs -> plain ss ->
  norm true (X ++ bs ++ repeat DOTDOT (length bs) ++ ss) = X ++ ss.
Proof.
  intros HX Hb Hs. unfold norm. rewrite !fold_left_app. rewrite (fold_plain true X []) by exact HX. rewrite app_nil_r.
  rewrite (fold_plain true bs) by exact Hb. rewrite (fold_pops true bs) by exact Hb. rewrite (fold_plain true ss) by exact Hs.
  rewrite rev_app_distr, !rev_involutive. reflexivity.
Qed.

Lemma plain_firstn k l : plain l -> plain (firstn k l).
Proof. revert k. induction l as [|x l IH]; intros k H; destruct k; cbn [firstn plain] in *; auto. destruct H as (H1 & H2 & H3). auto. Qed.
Lemma all_dotdot_repeat k : all_dotdot (repeat DOTDOT k).
Proof. induction k; cbn [repeat all_dotdot]; auto. Qed.
Lemma firstn_repeat {A} (x : A) j k : firstn j (repeat x k) = repeat x (min j k).
Proof. revert k. induction j; intros k; [reflexivity|]. destruct k; [reflexivity|]. cbn [repeat firstn min]. f_equal. apply IHj. Qed.
Lemma normal_dots_plain k ss : plain ss -> forall j, normal false (repeat DOTDOT k ++ firstn j ss).
Proof. intros H j. exists (repeat DOTDOT k), (firstn j ss). repeat split; [apply all_dotdot_repeat | now apply plain_firstn | discriminate]. Qed.

Lemma clean_dots k : clean (repeat DOTDOT k).
Proof. induction k; cbn [repeat]; constructor; [exact dotdot_seg | exact IHk]. Qed.
Lemma rel_seg_dots k : Forall rel_seg (repeat DOTDOT k).
Proof. induction k; cbn [repeat]; constructor; [split; [exact dotdot_seg | exact dotdot_noqh] | exact IHk]. Qed.

Lemma wf_rel_nil : wf_path_in false false [].
Proof. constructor; [constructor | intros E; discriminate E | intros _ t E; discriminate E | reflexivity]. Qed.
Lemma rep_nil : Rep false [] []. Proof. split; [reflexivity | split; [constructor | exists [], []; repeat split; auto]]. Qed.

(* the two push_all phases of relative_to *)
Theorem rel_pushes k ss : Forall rel_seg ss -> plain ss ->
  (k = 0 -> match ss with x :: _ => colon_first x = false | [] => True end) ->
  bind (push_all [] (repeat DOTDOT k)) (fun r => push_all r ss) = Some (render false (repeat DOTDOT k ++ ss)) /\
  Rep false (render false (repeat DOTDOT k ++ ss)) (repeat DOTDOT k ++ ss) /\ wf_path_in false false (render false (repeat DOTDOT k ++ ss)).
Proof.
  intros Hss Hp Hcol.
  destruct (push_all_rel (repeat DOTDOT k) (rel_seg_dots k) [] [] rep_nil wf_rel_nil) as (E1 & R1 & W1).
  - intros j. cbn [app]. rewrite firstn_repeat. exists (repeat DOTDOT (min j k)), []. rewrite app_nil_r. repeat split; [apply all_dotdot_repeat | discriminate].
  - intros _. destruct k; cbn [repeat]; reflexivity.
  - cbn [app] in E1, R1, W1. rewrite E1. cbn [bind].
    apply (push_all_rel ss Hss _ _ R1 W1); [apply normal_dots_plain, Hp|].
    intros E0. destruct k; [apply Hcol; reflexivity | discriminate E0].
Qed.

Lemma push_all_app a : forall v b, push_all v (a ++ b) = bind (push_all v a) (fun r => push_all r b).
Proof.
  induction a as [|s a IH]; intros v b; cbn [app push_all bind]; [reflexivity|].
  destruct (option_map pm_buf (pm_push (path_mut v) s)) as [r|]; cbn [bind]; [apply IH | reflexivity].
Qed.
Lemma push_all_empty_seg v l : Rep false v l -> l <> [] -> wf_path_in false false v ->
  push_all v [[]] = Some (render false (l ++ [[]])) /\ wf_path_in false false (render false (l ++ [[]])).
Proof.
  intros R Hl W. cbn [push_all]. rewrite <- (compose_relp v) at 1.
  destruct (ref_push_exact (relp v) [] (relp_wf v W) nil_arg) as [E Wp]. unfold ref_push in E. rewrite E.
  cbn [option_map bind relp p_scheme p_authority p_path has negb andb].
  change (with_path (relp v) (push true false v [])) with (relp (push true false v [])). rewrite compose_relp.
  pose proof (push_empty_text true false false v l R Hl) as Et. rewrite Et. split; [reflexivity|].
  pose proof (push_wf false false v [] W ltac:(constructor) ltac:(constructor)) as Hw. cbn [negb andb] in Hw. rewrite Et in Hw. exact Hw.
Qed.
Theorem rel_pushes_trailing k ss0 : Forall rel_seg ss0 -> plain ss0 ->
  (k = 0 -> match ss0 with x :: _ => colon_first x = false | [] => False end) ->
  bind (push_all [] (repeat DOTDOT k)) (fun r => push_all r (ss0 ++ [[]])) = Some (render false (repeat DOTDOT k ++ ss0 ++ [[]])) /\
  wf_path_in false false (render false (repeat DOTDOT k ++ ss0 ++ [[]])).
Proof.
  intros Hss Hp Hcol.
  assert (Hcol' : k = 0 -> match ss0 with x :: _ => colon_first x = false | [] => True end) by (intros E; specialize (Hcol E); destruct ss0; [contradiction | exact Hcol]).
  destruct (rel_pushes k ss0 Hss Hp Hcol') as (E & R & W).
  destruct (push_all [] (repeat DOTDOT k)) as [r1|]; [|discriminate E]. cbn [bind] in *. rewrite push_all_app, E. cbn [bind].
  assert (Hl : repeat DOTDOT k ++ ss0 <> []).
  { destruct k; [|discriminate]. specialize (Hcol eq_refl). destruct ss0; [contradiction | discriminate]. }
  destruct (push_all_empty_seg _ _ R Hl W) as [E2 W2]. rewrite E2. rewrite <- app_assoc in W2 |- *. auto.
Qed.

(* ---------- small facts ---------- *)
Lemma list_eqb_eq a b : list_eqb a b = true -> a = b.
Proof. unfold list_eqb. rewrite cmp_list_lex. destruct (strcmp a b) eqn:E; try discriminate. intros _. now apply (os_eq _ str_ord). Qed.
Lemma list_eqb_refl a : list_eqb a a = true.
Proof. unfold list_eqb. rewrite cmp_list_lex, (os_refl _ str_ord). reflexivity. Qed.
Lemma map_const_dots (bs : list str) : map (fun _ => DOTDOT) bs = repeat DOTDOT (length bs).
Proof. induction bs; cbn [map repeat length]; [reflexivity | now rewrite IHbs]. Qed.
Lemma plain_normal l : plain l -> normal true l.
Proof. intros H. exists [], l. repeat split; auto. Qed.
Lemma plain_removelast l : plain l -> plain (removelast l).
Proof. intros H. destruct (last_case l) as [->|(l' & x & ->)]; [exact H|]. rewrite removelast_last. apply plain_app in H. tauto. Qed.
Lemma nsegs_plain p : none_of [QM; HASH] p -> plain (segs p) -> nsegs p = segs p.
Proof.
  intros H Hp. unfold nsegs. rewrite normalized_segments_is_norm, (segments_are_the_split p H).
  destruct (is_abs p); [now apply norm_id_on_normal, plain_normal|].
  apply norm_id_on_normal. exists [], (segs p). repeat split; auto.
Qed.

Section RoundTrip.
  Variables pa pb : parts. Variable s : str.
  Hypothesis Wa : wf_parts pa. Hypothesis Wb : wf_parts pb.
  Hypothesis Has : p_scheme pa = Some s. Hypothesis Hbs : p_scheme pb = Some s.
  Hypothesis Hae : p_authority pa = p_authority pb.
  Hypothesis Hax : forall x, p_authority pa = Some x -> eq_authority x x = Some true.
  Local Notation xa := (p_path pa).
  Local Notation xb := (p_path pb).
  Hypothesis Haa : is_abs xa = true. Hypothesis Hab : is_abs xb = true.
  Variables common ss bs : list str.
  Hypothesis Hsa : segs xa = common ++ ss.
  Hypothesis Hsb : removelast (segs xb) = common ++ bs.
  Hypothesis Hpa : plain (segs xa). Hypothesis Hpb : plain (segs xb).
  Hypothesis Hna : no_empty_but_last xa. Hypothesis Hnb : no_empty_but_last xb.
  Hypothesis Hstrip : strip_common (common ++ ss) (common ++ bs) = Some (ss, bs).
  Hypothesis Hss : ss <> [].
  Hypothesis Hshield : bs = [] -> match ss with x :: _ => x <> [] /\ colon_first x = false | [] => False end.

  Local Notation dots := (repeat DOTDOT (length bs)).
  Local Notation v := (render false (repeat DOTDOT (length bs) ++ ss)).

  Lemma D_clean : clean (common ++ bs). Proof. rewrite <- Hsb. apply clean_dir, Hnb. Qed.
  Lemma D_plain : plain (common ++ bs). Proof. rewrite <- Hsb. apply plain_removelast, Hpb. Qed.
  Lemma ss_plain : plain ss. Proof. pose proof Hpa as H. rewrite Hsa in H. apply plain_app in H. tauto. Qed.
  Lemma ss_noslash : Forall noslash ss. Proof. pose proof (segs_noslash xa) as H. rewrite Hsa in H. apply Forall_app in H. tauto. Qed.
  Lemma ss_noqh : Forall (none_of [QM; HASH]) ss.
  Proof. pose proof (segs_none_of _ xa (wf_path pa Wa)) as H. rewrite Hsa in H. apply Forall_app in H. tauto. Qed.
  Lemma ss_no_inner : no_inner_empty ss.
  Proof. intros l' x E Hi. apply (Hna (common ++ l') x); [rewrite Hsa, E, app_assoc; reflexivity | apply in_or_app; right; exact Hi]. Qed.

  (* the pushes of relative_to produce v, a well-formed relative path *)
  Lemma pushes_value : bind (push_all [] (map (fun _ => DOTDOT) bs)) (fun r => push_all r ss) = Some v /\ wf_path_in false false v.
  Proof.
    rewrite map_const_dots.
    assert (Hrel : forall l, clean l -> (forall x, In x l -> In x ss) -> Forall rel_seg l).
    { intros l Cl Hsub. unfold clean in Cl. rewrite Forall_forall in *. intros x Hx. split; [apply Cl, Hx|].
      pose proof ss_noqh as Hq. rewrite Forall_forall in Hq. apply Hq, Hsub, Hx. }
    destruct (no_inner_split ss ss_noslash ss_no_inner Hss) as [CL|(ss0 & E0 & CL)].
    - destruct (rel_pushes (length bs) ss (Hrel _ CL (fun x Hx => Hx)) ss_plain) as (E & _ & W).
      + intros Ek. apply length_zero_iff_nil in Ek. specialize (Hshield Ek). destruct ss; [exact I | tauto].
      + auto.
    - assert (Hsub : forall x, In x ss0 -> In x ss) by (intros x Hx; rewrite E0; apply in_or_app; left; exact Hx).
      assert (Hp0 : plain ss0) by (pose proof ss_plain as H; rewrite E0 in H; apply plain_app in H; tauto).
      destruct (rel_pushes_trailing (length bs) ss0 (Hrel _ CL Hsub) Hp0) as (E & W).
      + intros Ek. apply length_zero_iff_nil in Ek. specialize (Hshield Ek). rewrite E0 in Hshield.
        destruct ss0 as [|x r]; cbn [app] in Hshield; [destruct Hshield as [H _]; now apply H | tauto].
      + rewrite E0. auto.
  Qed.

  Lemma parent_value : pq_parent_or_empty_text xb = Some (render true (common ++ bs)).
  Proof.
    rewrite (parent_or_empty_spec xb (wf_path pb Wb)). f_equal.
    assert (C : clean (removelast (segs xb))) by (rewrite Hsb; exact D_clean).
    rewrite (parent_text_clean xb (wf_path pb Wb) C), Hab, Hsb. reflexivity.
  Qed.
  Lemma parent_noqh : none_of [QM; HASH] (render true (common ++ bs)).
  Proof.
    pose proof (none_of_render_prefix xb (wf_path pb Wb)) as H.
    assert (C : clean (removelast (segs xb))) by (rewrite Hsb; exact D_clean).
    rewrite (parent_text_clean xb (wf_path pb Wb) C), Hab, Hsb in H. exact H.
  Qed.
  Lemma nsegs_parent : nsegs (render true (common ++ bs)) = common ++ bs.
  Proof.
    destruct (segs_render true (common ++ bs) D_clean) as [Es _].
    rewrite (nsegs_plain _ parent_noqh); rewrite Es; [reflexivity | exact D_plain].
  Qed.
  Lemma last_value : exists o, pq_last xb = Some o /\ option_map (slice xb) o = last_opt (segs xb).
  Proof.
    pose proof (pq_last_spec xb (wf_path pb Wb)) as H. destruct (pq_last xb) as [[r|]|]; [| |contradiction].
    - exists (Some r). split; [reflexivity | symmetry; exact H].
    - exists None. split; [reflexivity|]. rewrite H. reflexivity.
  Qed.

  Local Notation qa := (p_query pa).
  Local Notation fa := (p_fragment pa).
  Definition rt_cond : bool :=
    (is_some (p_query pa) || is_some (p_fragment pa)) &&
    match last_opt (segs (p_path pb)) with Some l => list_eqb (render false (repeat DOTDOT (length bs) ++ ss)) l | None => false end.
  Definition rt_path : str := if rt_cond then [] else render false (repeat DOTDOT (length bs) ++ ss).
  Definition rt_ref : parts := with_fragment (with_query (relp rt_path) (p_query pa)) (p_fragment pa).

  Lemma rt_path_wf : wf_path_in false false rt_path.
  Proof. unfold rt_path. destruct rt_cond; [exact wf_rel_nil | exact (proj2 pushes_value)]. Qed.
  Lemma qa_ok : forall x, qa = Some x -> none_of [HASH] x. Proof. intros x E. exact (wf_query pa Wa x E). Qed.
  Lemma rt_ref_wf : wf_parts rt_ref.
  Proof. unfold rt_ref. apply set_fragment_wf, set_query_wf; [apply relp_wf, rt_path_wf | exact qa_ok]. Qed.

  Theorem relative_to_value : relative_to (compose pa) (compose pb) = Some (compose rt_ref).
  Proof.
    unfold relative_to.
    rewrite (get_scheme_compose pa Wa), (get_scheme_compose pb Wb), Has, Hbs, list_eqb_refl.
    rewrite (get_authority_compose pa Wa), (get_authority_compose pb Wb), <- Hae.
    assert (Hau : match p_authority pa, p_authority pa with Some x, Some y => eq_authority x y | _, _ => Some true end = Some true).
    { destruct (p_authority pa) as [x|] eqn:Ex; [apply Hax; reflexivity | reflexivity]. }
    rewrite Hau. cbn [bind negb].
    rewrite (get_path_compose pa Wa), (get_path_compose pb Wb), parent_value. cbn [bind].
    rewrite (nsegs_plain xa (wf_path pa Wa) Hpa), Hsa, nsegs_parent, Haa, Hab. cbn [Bool.eqb]. rewrite Hstrip. cbn [bind].
    destruct pushes_value as [E W].
    destruct (push_all [] (map (fun _ => DOTDOT) bs)) as [r1|]; [|discriminate E]. cbn [bind] in E |- *. rewrite E. cbn [bind].
    destruct last_value as (o & Eo & Elast). rewrite Eo. cbn [bind]. rewrite Elast.
    rewrite (get_query_compose pa Wa), (get_fragment_compose pa Wa).
    assert (Egp : get_path v = v).
    { rewrite <- (compose_relp v) at 1. apply (get_path_compose (relp v) (relp_wf v W)). }
    rewrite Egp.
    match goal with |- bind (if ?c then _ else _) _ = _ => assert (Ec0 : c = rt_cond) by reflexivity; rewrite Ec0; clear Ec0 end.
    unfold rt_ref, rt_path. destruct rt_cond.
    - rewrite <- (compose_relp v) at 1. destruct (ref_clear_spec (relp v) (relp_wf v W)) as [Ec Wc]. unfold ref_clear in Ec. rewrite Ec. cbn [bind].
      assert (Ecl : with_path (relp v) (clear1 (p_path (relp v))) = relp []).
      { unfold clear1. cbn [relp p_path]. destruct (segs_render_prefix false (repeat DOTDOT (length bs) ++ ss)) as [_ Ea].
        - apply Forall_app. split; [apply clean_noslash, clean_dots | exact ss_noslash].
        - intros _ r Er. destruct bs as [|b0 bs0]; cbn [length repeat app] in Er; [|discriminate Er].
          specialize (Hshield eq_refl). rewrite Er in Hshield. destruct Hshield as [H _]. now apply H.
        - intros [Ef _]. discriminate Ef.
        - rewrite Ea. reflexivity. }
      rewrite Ecl. rewrite (set_query_spec (relp []) qa (relp_wf [] wf_rel_nil)). cbn [bind].
      apply set_fragment_spec. apply set_query_wf; [apply relp_wf, wf_rel_nil | exact qa_ok].
    - cbn [bind]. rewrite <- (compose_relp v) at 1. rewrite (set_query_spec (relp v) qa (relp_wf v W)). cbn [bind].
      apply set_fragment_spec. apply set_query_wf; [apply relp_wf, W | exact qa_ok].
  Qed.

  (* ---------- resolving the relative reference against b ---------- *)
  Lemma segs_v : segs v = repeat DOTDOT (length bs) ++ ss /\ is_abs v = false.
  Proof.
    apply segs_render_prefix.
    - apply Forall_app. split; [apply clean_noslash, clean_dots | exact ss_noslash].
    - intros _ r Er. destruct bs as [|b0 bs0]; cbn [length repeat app] in Er; [|discriminate Er].
      specialize (Hshield eq_refl). rewrite Er in Hshield. destruct Hshield as [H _]. now apply H.
    - intros [Ef _]. discriminate Ef.
  Qed.
  Lemma v_no_inner : no_empty_but_last v.
  Proof.
    intros l' x E Hi. rewrite (proj1 segs_v) in E.
    destruct (@last_case str ss) as [E0|(s1 & y & E0)]; [contradiction|].
    rewrite E0, app_assoc in E. apply app_inj_tail in E as [E _]. subst l'.
    apply in_app_or in Hi as [Hi|Hi].
    - apply repeat_spec in Hi. discriminate Hi.
    - exact (ss_no_inner s1 y E0 Hi).
  Qed.
  Lemma last_ss_not_dot : last_is_dot (common ++ bs ++ repeat DOTDOT (length bs) ++ ss) = false.
  Proof.
    destruct (@last_case str ss) as [E0|(s1 & y & E0)]; [contradiction|].
    unfold last_is_dot. rewrite E0, !app_assoc, rev_app_distr. cbn [rev app].
    pose proof ss_plain as H. rewrite E0 in H. apply plain_app in H as [_ (H1 & H2 & _)]. rewrite H1, H2. reflexivity.
  Qed.
  Lemma common_plain : plain common /\ plain bs.
  Proof. pose proof D_plain as H. apply plain_app in H. exact H. Qed.
  Lemma xa_text : render true (common ++ ss) = xa.
  Proof. rewrite <- Hsa, <- Haa. apply render_segs. Qed.

  Hypothesis Hqi : p_query pa = None -> p_fragment pa <> None -> xa = xb -> p_query pb = None.

  (* when relative_to clears the path, a and b have the same path *)
  Lemma cleared_same_path : rt_cond = true -> xa = xb /\ (qa = None -> fa <> None).
  Proof.
    unfold rt_cond. intros Hc. apply andb_true_iff in Hc as [Hq Hl]. split.
    - destruct (last_opt (segs xb)) as [l|] eqn:El; [|discriminate Hl]. apply list_eqb_eq in Hl.
      unfold last_opt in El. destruct (rev (segs xb)) as [|l0 r0] eqn:Er; [discriminate El|]. injection El as ->.
      assert (Esb : segs xb = rev r0 ++ [l]) by (rewrite <- (rev_involutive (segs xb)), Er; reflexivity).
      assert (Hl_plain : is_dotdot l = false /\ noslash l).
      { split.
        - pose proof Hpb as H. rewrite Esb in H. apply plain_app in H as [_ (_ & H2 & _)]. exact H2.
        - pose proof (segs_noslash xb) as H. rewrite Esb in H. apply Forall_app in H as [_ H]. now inversion H. }
      destruct Hl_plain as [Hdd Hns].
      assert (Hsegs : repeat DOTDOT (length bs) ++ ss = segs l) by (rewrite <- (proj1 segs_v), Hl; reflexivity).
      destruct l as [|c0 t0].
      + cbn [segs] in Hsegs. apply app_eq_nil in Hsegs as [_ E]. contradiction.
      + assert (Hc0 : is c0 SLASH = false) by (inversion Hns; subst; now apply is_false).
        assert (Esl : segs (c0 :: t0) = [c0 :: t0]) by (unfold segs; rewrite Hc0; now apply split_noslash).
        rewrite Esl in Hsegs.
        assert (Eb : bs = []).
        { destruct bs as [|b0 bs0]; [reflexivity|]. cbn [length repeat app] in Hsegs. injection Hsegs as E1 E2 E3. subst c0 t0. vm_compute in Hdd. discriminate Hdd. }
        rewrite Eb in Hsegs, Hsb. cbn [length repeat app] in Hsegs. rewrite app_nil_r in Hsb.
        rewrite <- (render_segs xa), <- (render_segs xb), Haa, Hab, Hsa, Hsegs, Esb. f_equal.
        assert (Erl : removelast (segs xb) = rev r0) by (rewrite Esb; apply removelast_last). rewrite <- Erl, Hsb. reflexivity.
    - intros Eq Ef. rewrite Eq, Ef in Hq. discriminate Hq.
  Qed.

  Theorem round_trip_holds : resolve (compose rt_ref) (compose pb) = Some (compose pa).
  Proof.
    assert (Hne : no_empty_but_last (p_path rt_ref)).
    { cbn [rt_ref with_fragment with_query relp p_path]. unfold rt_path. destruct rt_cond; [|exact v_no_inner].
      intros l' x E. destruct l'; discriminate E. }
    rewrite (resolve_is_rfc pb rt_ref s Wb rt_ref_wf Hbs Hne (fun _ => Hnb)). f_equal. f_equal.
    assert (Epa : pa = {| p_scheme := Some s; p_authority := p_authority pb; p_path := xa; p_query := qa; p_fragment := fa |}).
    { rewrite <- Hae, <- Has. destruct pa; reflexivity. }
    rewrite Epa at 1. unfold rfc_target. cbn [rt_ref with_fragment with_query relp p_scheme p_authority p_path p_query p_fragment].
    unfold rt_path. destruct rt_cond eqn:Ec.
    - destruct (cleared_same_path Ec) as [Exy Hf]. rewrite Hbs, Exy. f_equal.
      destruct qa as [q|] eqn:Eq; [reflexivity|]. rewrite (Hqi eq_refl (Hf eq_refl) Exy). reflexivity.
    - destruct segs_v as [Esv Eav].
      destruct v as [|c t] eqn:Ev.
      + exfalso. cbn [segs] in Esv. symmetry in Esv. apply app_eq_nil in Esv as [_ E]. contradiction.
      + cbn [is_abs] in Eav. rewrite Eav, Hbs. f_equal.
        assert (CD : clean (removelast (segs xb))) by (rewrite Hsb; exact D_clean).
        rewrite (rfc_merged_path pb Wb c t Eav CD), Hab, orb_true_r, Hsb.
        assert (Esp : split (c :: t) = repeat DOTDOT (length bs) ++ ss) by (rewrite <- Esv; unfold segs; rewrite Eav; reflexivity).
        rewrite Esp, <- app_assoc. unfold rds_segs. rewrite last_ss_not_dot. cbn [andb].
        etransitivity; [|exact xa_text]. f_equal. exact (norm_updown common bs ss (proj1 common_plain) (proj2 common_plain) ss_plain).
  Qed.
End RoundTrip.

(* ---------- discharging the strip_common hypothesis ---------- *)
Lemma eq_key_refl x : dec x <> None -> eq_key pct_key x x = Some true.
Proof.
  intros H. destruct (dec x) as [d|] eqn:E; [|contradiction]. unfold eq_key. rewrite (cmp_pct x x d d E E), (os_refl _ str_ord). reflexivity.
Qed.
Lemma strip_common_literal common ss bs : Forall (fun x => dec x <> None) common ->
  match ss, bs with x :: _, y :: _ => eq_key pct_key x y = Some false | _, _ => True end ->
  strip_common (common ++ ss) (common ++ bs) = Some (ss, bs).
Proof.
  induction 1 as [|x common Hx _ IH]; intros Hd; cbn [app strip_common].
  - destruct ss as [|x ss']; [reflexivity|]. destruct bs as [|y bs']; [reflexivity|]. cbn [strip_common]. rewrite Hd. reflexivity.
  - rewrite (eq_key_refl x Hx). now apply IH.
Qed.

(* ---------- a and b differ in scheme, or in authority: the "relative" reference is a itself ---------- *)
Lemma rds_plain_path p : plain (segs p) -> rds p = p.
Proof. intros H. unfold rds. rewrite (rds_segs_plain _ _ H). apply render_segs. Qed.

Section Other.
  Variables pa pb : parts. Variables sa sb : str.
  Hypothesis Wa : wf_parts pa. Hypothesis Wb : wf_parts pb.
  Hypothesis Has : p_scheme pa = Some sa. Hypothesis Hbs : p_scheme pb = Some sb.
  Hypothesis Hpa : plain (segs (p_path pa)). Hypothesis Hna : no_empty_but_last (p_path pa).

  Lemma resolve_self : resolve (compose pa) (compose pb) = Some (compose pa).
  Proof.
    rewrite (resolve_no_merge_rfc pb pa sb Wb Wa Hbs); [| left; congruence | apply rds_exact_simple; exact Hna].
    f_equal. f_equal. unfold rfc_target. rewrite Has, (rds_plain_path _ Hpa). rewrite <- Has. destruct pa; reflexivity.
  Qed.

  Theorem other_scheme : list_eqb sa sb = false ->
    relative_to (compose pa) (compose pb) = Some (compose pa) /\ resolve (compose pa) (compose pb) = Some (compose pa).
  Proof.
    intros Hd. split; [|exact resolve_self]. unfold relative_to.
    rewrite (get_scheme_compose pa Wa), (get_scheme_compose pb Wb), Has, Hbs, Hd. reflexivity.
  Qed.
  Theorem other_authority x y : sa = sb -> p_authority pa = Some x -> p_authority pb = Some y -> eq_authority x y = Some false ->
    relative_to (compose pa) (compose pb) = Some (compose pa) /\ resolve (compose pa) (compose pb) = Some (compose pa).
  Proof.
    intros Es Ex Ey Hd. split; [|exact resolve_self]. unfold relative_to.
    rewrite (get_scheme_compose pa Wa), (get_scheme_compose pb Wb), Has, Hbs, Es, list_eqb_refl.
    rewrite (get_authority_compose pa Wa), (get_authority_compose pb Wb), Ex, Ey, Hd. reflexivity.
  Qed.
End Other.

(* ---------- the packaged statement and a concrete instance ---------- *)
Theorem round_trip_partial (pa pb : parts) (s : str) (common ss bs : list str) :
  wf_parts pa -> wf_parts pb -> p_scheme pa = Some s -> p_scheme pb = Some s ->
  p_authority pa = p_authority pb -> (forall x, p_authority pa = Some x -> eq_authority x x = Some true) ->
  is_abs (p_path pa) = true -> is_abs (p_path pb) = true ->
  segs (p_path pa) = common ++ ss -> removelast (segs (p_path pb)) = common ++ bs ->
  plain (segs (p_path pa)) -> plain (segs (p_path pb)) -> no_empty_but_last (p_path pa) -> no_empty_but_last (p_path pb) ->
  strip_common (common ++ ss) (common ++ bs) = Some (ss, bs) ->
  ss <> [] ->
  (bs = [] -> match ss with x :: _ => x <> [] /\ colon_first x = false | [] => False end) ->
  (p_query pa = None -> p_fragment pa <> None -> p_path pa = p_path pb -> p_query pb = None) ->
  exists pr, wf_parts pr /\ relative_to (compose pa) (compose pb) = Some (compose pr) /\ resolve (compose pr) (compose pb) = Some (compose pa).
Proof.
  intros Wa Wb Has Hbs Hae Hax Haa Hab Hsa Hsb Hpa Hpb Hna Hnb Hst Hss Hsh Hqi.
  exists (rt_ref pa pb ss bs). split; [|split].
  - eapply rt_ref_wf; eassumption.
  - exact (relative_to_value pa pb s Wa Wb Has Hbs Hae Hax Haa Hab common ss bs Hsa Hsb Hpa Hpb Hna Hnb Hst Hss Hsh).
  - exact (round_trip_holds pa pb s Wa Wb Has Hbs Hae Hax Haa Hab common ss bs Hsa Hsb Hpa Hpb Hna Hnb Hst Hss Hsh Hqi).
Qed.

Ltac no_qh := repeat (apply Forall_cons; [vm_compute; intuition discriminate|]); apply Forall_nil.
Definition ex_a : parts := {| p_scheme := Some [104%N]; p_authority := Some [104%N]; p_path := [47;97;47;98;47;99]%N; p_query := Some [113%N]; p_fragment := None |}.
Definition ex_b : parts := {| p_scheme := Some [104%N]; p_authority := Some [104%N]; p_path := [47;97;47;120]%N; p_query := None; p_fragment := None |}.
Lemma ex_wf_a : wf_parts ex_a.
Proof.
  constructor; cbn [ex_a p_scheme p_authority p_path p_query p_fragment].
  - intros s E. injection E as <-. split; [discriminate | no_qh].
  - intros a E. injection E as <-. no_qh.
  - no_qh.
  - intros q E. injection E as <-. no_qh.
  - intros _. right. eexists. reflexivity.
  - intros E. discriminate E.
  - intros E. discriminate E.
Qed.
Lemma ex_wf_b : wf_parts ex_b.
Proof.
  constructor; cbn [ex_b p_scheme p_authority p_path p_query p_fragment].
  - intros s E. injection E as <-. split; [discriminate | no_qh].
  - intros a E. injection E as <-. no_qh.
  - no_qh.
  - intros q E. discriminate E.
  - intros _. right. eexists. reflexivity.
  - intros E. discriminate E.
  - intros E. discriminate E.
Qed.
Lemma concrete_no_empty (l0 : list str) (y : str) p : segs p = l0 ++ [y] -> ~ In [] l0 -> no_empty_but_last p.
Proof. intros E H l' x E2. rewrite E in E2. apply app_inj_tail in E2 as [<- _]. exact H. Qed.

(* http://h... : a = h://h/a/b/c?q relative to b = h://h/a/x is b/c?q, which resolves back to a *)
Example round_trip_instance :
  exists pr, wf_parts pr /\ relative_to (compose ex_a) (compose ex_b) = Some (compose pr) /\ resolve (compose pr) (compose ex_b) = Some (compose ex_a).
Proof.
  apply (round_trip_partial ex_a ex_b [104%N] [[97%N]] [[98%N]; [99%N]] []); try reflexivity; try exact ex_wf_a; try exact ex_wf_b.
  all: try (intros x E; injection E as <-; vm_compute; reflexivity).
  all: try (apply (concrete_no_empty [[97%N]; [98%N]] [99%N]); [reflexivity | vm_compute; intuition discriminate]).
  all: try (apply (concrete_no_empty [[97%N]] [120%N]); [reflexivity | vm_compute; intuition discriminate]).
  all: try (vm_compute; tauto).
  all: try discriminate.
  all: try (intros _; split; [discriminate | reflexivity]).
  all: try (intros E; discriminate E).
Qed.
