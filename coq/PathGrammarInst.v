From Coq Require Import List NArith Bool Arith.
Import ListNotations.
Require Import V.Regex V.Bisim V.Abnf V.Parse V.ParseProofs V.Bridge V.Factor V.BridgePaths V.PathSpec V.Shapes V.PathGrammar.
Ltac refl := vm_cast_no_check (eq_refl true).
Lemma pg1_U : incl_check (RP U) (ipath U) = true. Proof. refl. Qed.
Lemma pg2_U : incl_check (ipath U) (RP U) = true. Proof. refl. Qed.
Lemma pg3_U : incl_check (isegment U) (Star (Cls not_slash)) = true. Proof. refl. Qed.
Lemma pg1_I : incl_check (RP I) (ipath I) = true. Proof. refl. Qed.
Lemma pg2_I : incl_check (ipath I) (RP I) = true. Proof. refl. Qed.
Lemma pg3_I : incl_check (isegment I) (Star (Cls not_slash)) = true. Proof. refl. Qed.

(* certificates used by C04Valid2 *)
Lemma k_ns_U : incl_check (ipath_noscheme U) (ipath U) = true. Proof. refl. Qed.
Lemma k_eps_U : incl_check Eps (ipath U) = true. Proof. refl. Qed.
Lemma k_dots_U : incl_check (Alt (ch DOT) (Cat (ch DOT) (ch DOT))) (isegment U) = true. Proof. refl. Qed.
Lemma k_noqh_U : incl_check (isegment U) (Star (Cls not_qh)) = true. Proof. refl. Qed.
Lemma k_ns_I : incl_check (ipath_noscheme I) (ipath I) = true. Proof. refl. Qed.
Lemma k_eps_I : incl_check Eps (ipath I) = true. Proof. refl. Qed.
Lemma k_dots_I : incl_check (Alt (ch DOT) (Cat (ch DOT) (ch DOT))) (isegment I) = true. Proof. refl. Qed.
Lemma k_noqh_I : incl_check (isegment I) (Star (Cls not_qh)) = true. Proof. refl. Qed.

Theorem path_of_segs_U v : Forall (L (isegment U)) (segs v) -> L (ipath U) v.
Proof. exact (path_of_segs U pg1_U pg2_U pg3_U v). Qed.
Theorem segs_of_path_U v : L (ipath U) v -> Forall (L (isegment U)) (segs v).
Proof. exact (segs_of_path U pg1_U pg2_U pg3_U v). Qed.
Theorem path_of_segs_I v : Forall (L (isegment I)) (segs v) -> L (ipath I) v.
Proof. exact (path_of_segs I pg1_I pg2_I pg3_I v). Qed.
Theorem segs_of_path_I v : L (ipath I) v -> Forall (L (isegment I)) (segs v).
Proof. exact (segs_of_path I pg1_I pg2_I pg3_I v). Qed.
