(* Model of the remaining reference-level scanners of parse.rs: scheme, find_scheme, find_authority,
   find_path, find_query, find_fragment, parts. *)
From Coq Require Import List NArith Bool Arith.
Import ListNotations.
Require Import V.Regex V.Parse.
Local Open Scope nat_scope.

(* pub fn scheme(bytes, i) -> Range : scan to the first ':' *)
Definition scheme_range (bytes : str) (i : nat) : range := (i, scan (fun c => is c COLON) (skipn i bytes) i).

(* find_scheme: stop (None) at '/', '?', '#'; Some(start..i) at ':' *)
Fixpoint find_scheme_loop (l : str) (start i : nat) : option range :=
  match l with
  | [] => None
  | c :: l' => if is c SLASH || is_qh c then None else if is c COLON then Some (start, i) else find_scheme_loop l' start (S i)
  end.
Definition find_scheme (bytes : str) (i : nat) : option range := find_scheme_loop (skipn i bytes) i i.

(* Result<Range, usize> *)
Definition find_authority (bytes : str) (i : nat) : range + nat :=
  match scheme_authority_or_path bytes i with
  | (SapScheme, scheme_end) =>
    match authority_or_path bytes (scheme_end + 1) with
    | (AopAuthority, e) => inl (scheme_end + 3, e)
    | (AopPath, _) => inr (scheme_end + 1)
    end
  | (SapAuthority, e) => inl (2, e)
  | (SapPath, _) => inr 0
  end.

Definition find_path (bytes : str) (i : nat) : range :=
  match scheme_authority_or_path bytes i with
  | (SapScheme, scheme_end) =>
    match authority_or_path bytes (scheme_end + 1) with
    | (AopAuthority, ae) => (ae, path_end bytes ae)
    | (AopPath, e) => (scheme_end + 1, e)
    end
  | (SapAuthority, ae) => (ae, path_end bytes ae)
  | (SapPath, e) => (0, e)
  end.

Fixpoint find_query_loop (l : str) (i : nat) : range + nat :=
  match l with
  | [] => inr i
  | c :: l' => if is c HASH then inr i
               else if is c QM then inl (S i, scan (fun c => is c HASH) l' (S i))
               else find_query_loop l' (S i)
  end.
Definition find_query (bytes : str) (i : nat) : range + nat := find_query_loop (skipn i bytes) i.

Fixpoint find_fragment_loop (l : str) (i len : nat) : range + nat :=
  match l with
  | [] => inr i
  | c :: l' => if is c HASH then inl (S i, len) else find_fragment_loop l' (S i) len
  end.
Definition find_fragment (bytes : str) (i : nat) : range + nat := find_fragment_loop (skipn i bytes) i (length bytes).

(* pub fn parts(bytes, i) -> Parts : decomposition of a value known to have a scheme (Uri, Iri) *)
Definition abs_parts (bytes : str) (i : nat) : ref_ranges :=
  let sch := scheme_range bytes i in
  let '(auth, path) :=
    match authority_or_path bytes (snd sch + 1) with
    | (AopAuthority, ae) => (Some (snd sch + 3, ae), (ae, path_end bytes ae))
    | (AopPath, pe) => (None, (snd sch + 1, pe))
    end in
  let '(has_q, qe) := query bytes (snd path) in
  let '(has_f, fe) := fragment bytes qe in
  {| r_scheme := Some sch; r_authority := auth; r_path := path;
     r_query := if has_q then Some (snd path + 1, qe) else None;
     r_fragment := if has_f then Some (qe + 1, fe) else None |}.
