(* C06: refinement of the model of RiRefBufImpl::resolve to the RFC 3986 5.2.2 specification, branch by branch. *)
From Coq Require Import List NArith Bool Arith Lia.
Import ListNotations.
Require Import V.Regex V.Parse V.ParseProofs V.Parse2 V.Parse2Proofs V.ScanValues V.PathSpec V.Splice V.Setters V.Push
  V.SetPath V.SetAuth V.SetScheme V.Iter V.Reference V.SetFragment V.C05Proofs V.GetProofs V.Rfc.
Local Open Scope nat_scope.

(* ---- the "empty path" branch of 5.2.2: the reference has no scheme, no authority and an empty path ---- *)
Section EmptyPath.
  Variables pb pr : parts.
  Variable s : str.
  Hypothesis Wb : wf_parts pb.
  Hypothesis Wr : wf_parts pr.
  Hypothesis Hbs : p_scheme pb = Some s.
  Hypothesis Hrs : p_scheme pr = None.
  Hypothesis Hra : p_authority pr = None.
  Hypothesis Hrp : p_path pr = [].

  Let p1 := with_scheme pr (Some s) (scheme_fix_path pr (Some s)).
  Let p2 := with_auth p1 (p_authority pb) (auth_path p1 (p_authority pb)).
  Let p3 := with_path p2 (fix_path p2 (p_path pb)).

  Lemma s_ok : forall x, Some s = Some x -> x <> [] /\ none_of [COLON; SLASH; QM; HASH] x.
  Proof. intros x E. injection E as <-. apply (wf_scheme pb Wb). exact Hbs. Qed.
  Lemma W1 : wf_parts p1.
  Proof. apply set_scheme_wf; auto using s_ok. Qed.
  Lemma path1 : p_path p1 = [].
  Proof. unfold p1, scheme_fix_path. cbn [with_scheme p_path]. destruct (p_scheme pr), (p_authority pr); exact Hrp. Qed.
  Lemma W2 : wf_parts p2.
  Proof. apply set_authority_wf; [exact W1|]. intros a E. apply (wf_auth pb Wb). exact E. Qed.
  Lemma path2 : p_path p2 = [].
  Proof.
    unfold p2, auth_path, auth_fix_path. cbn [with_auth p_path]. rewrite path1.
    assert (E1 : p_authority p1 = None) by (unfold p1; cbn [with_scheme p_authority]; exact Hra). rewrite E1.
    destruct (p_authority pb) as [a|]; [|reflexivity].
    cbn [app]. pose proof (tail_ends_qh p1) as H. destruct (tail_of p1) as [|c r]; [reflexivity|].
    destruct H as [H|(c' & t' & E & Hc)]; [discriminate|]. injection E as -> ->. rewrite Hc, orb_true_r. reflexivity.
  Qed.
  Lemma fix3 : fix_path p2 (p_path pb) = p_path pb.
  Proof.
    unfold fix_path. assert (E2 : p_authority p2 = p_authority pb) by reflexivity.
    assert (E3 : p_scheme p2 = Some s) by reflexivity. rewrite E2, E3.
    destruct (p_authority pb) as [a|] eqn:Ea; cbn [negb andb].
    - destruct (wf_path_auth pb Wb) as [E|(t & E)]; [congruence | |]; rewrite E; reflexivity.
    - rewrite (starts_dslash_true (p_path pb)) by (apply (wf_path_noauth pb Wb); exact Ea). reflexivity.
  Qed.
  Lemma W3 : wf_parts p3.
  Proof. apply set_path_wf; [exact W2 | exact (wf_path pb Wb)]. Qed.

  Definition target_empty : parts :=
    {| p_scheme := Some s; p_authority := p_authority pb; p_path := p_path pb;
       p_query := match p_query pr with Some q => Some q | None => p_query pb end; p_fragment := p_fragment pr |}.

  Theorem resolve_empty_path : resolve (compose pr) (compose pb) = Some (compose target_empty).
  Proof.
    unfold resolve. rewrite (reference_parts_compose pr Wr). unfold expected. cbn [r_scheme r_authority]. rewrite Hrs, Hra. cbn [option_map].
    rewrite (abs_scheme_compose pb Wb s Hbs).
    rewrite (set_scheme_spec pr (Some s) Wr). fold p1. cbn [bind].
    rewrite (get_path_compose p1 W1), path1. cbn [is_abs negb path_is_empty andb].
    rewrite (get_authority_compose pb Wb).
    rewrite (set_authority_spec p1 (p_authority pb) W1).
    change (with_auth p1 (p_authority pb) (auth_fix_path (p_path p1) (tail_of p1) (p_authority pb) (p_authority p1))) with p2. cbn [bind].
    rewrite (get_path_compose pb Wb).
    rewrite (set_path_spec p2 (p_path pb) W2). fold p3. cbn [bind].
    rewrite (get_query_compose p3 W3).
    assert (Eq3 : p_query p3 = p_query pr) by reflexivity. rewrite Eq3.
    assert (Ep3 : p3 = {| p_scheme := Some s; p_authority := p_authority pb; p_path := p_path pb; p_query := p_query pr; p_fragment := p_fragment pr |}).
    { unfold p3. rewrite fix3. reflexivity. }
    destruct (p_query pr) as [q|] eqn:Eq.
    - f_equal. f_equal. rewrite Ep3. unfold target_empty. rewrite Eq. reflexivity.
    - rewrite (get_query_compose pb Wb). rewrite (set_query_spec p3 (p_query pb) W3). f_equal. f_equal.
      rewrite Ep3. unfold target_empty, with_query. rewrite Eq. reflexivity.
  Qed.

  (* and that is the RFC target *)
  Theorem target_empty_is_rfc : target_empty = rfc_target pb pr.
  Proof. unfold target_empty, rfc_target. rewrite Hrs, Hra, Hrp, Hbs. reflexivity. Qed.
End EmptyPath.
