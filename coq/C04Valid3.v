(* C04 at grammar level, complete: sequences mixing the five setters, the path-handle mutators and in-place resolution. *)
From Coq Require Import List NArith Bool Arith Lia.
Import ListNotations.
Require Import V.Regex V.Bisim V.Abnf V.Parse V.ParseProofs V.Bridge V.Factor V.BridgePaths V.C02Bridge V.FactorU V.FactorI
  V.Splice V.Setters V.SetPath V.SetAuth V.SetScheme V.Reference V.SetFragment V.C05Proofs V.C04Proofs V.ValidSet V.ValidSetInst V.C04Valid
  V.C02Proofs V.C04Valid2 V.ResolveValid.
Local Open Scope nat_scope.
Local Strategy opaque [L].
Notation P := C02Bridge.P.

Inductive wop := WSet (o : sop) | WPath (o : pop_) | WResolve (base : str).
Definition wstep (buf : str) (o : wop) : option str :=
  match o with WSet o => step buf o | WPath o => pstep buf o | WResolve b => resolve buf b end.
Fixpoint wrun (ops : list wop) (buf : str) : option str := match ops with [] => Some buf | o :: r => bind (wstep buf o) (wrun r) end.
Definition wok (X PX : cls) (o : wop) : Prop :=
  match o with WSet o => varg X PX o | WPath o => parg X o | WResolve b => L (IRI X PX) b end.

Theorem valid_all_U ops : forall s, L (IRI_reference U U) s -> Forall (wok U U) ops ->
  exists s', wrun ops s = Some s' /\ L (IRI_reference U U) s'.
Proof.
  intros s H A. apply uri_ref_shape in H. apply REF_factor in H as (p & V & ->). revert p V.
  induction A as [|o r Ao _ IH]; intros p V; cbn [wrun].
  - eexists; split; [reflexivity | now apply valid_in_language_U].
  - destruct o as [o|o|b]; cbn [wstep wok] in *.
    + destruct (vstep_U p o V Ao) as (p1 & E & V1). rewrite E. cbn [bind]. now apply IH.
    + destruct (pstep_valid_U p o V Ao) as (p1 & E & V1). rewrite E. cbn [bind]. now apply IH.
    + destruct (uri_decomposition b Ao) as (pb & sch & Vb & Hs & (Eb & _) & _). subst b.
      destruct (resolve_valid_U pb p sch Vb V Hs) as (p1 & E & V1). rewrite E. cbn [bind]. now apply IH.
Qed.
Theorem valid_all_I ops : forall s, L (IRI_reference I P) s -> Forall (wok I P) ops ->
  exists s', wrun ops s = Some s' /\ L (IRI_reference I P) s'.
Proof.
  intros s H A. apply iri_ref_shape in H. apply REF_factor in H as (p & V & ->). revert p V.
  induction A as [|o r Ao _ IH]; intros p V; cbn [wrun].
  - eexists; split; [reflexivity | now apply valid_in_language_I].
  - destruct o as [o|o|b]; cbn [wstep wok] in *.
    + destruct (vstep_I p o V Ao) as (p1 & E & V1). rewrite E. cbn [bind]. now apply IH.
    + destruct (pstep_valid_I p o V Ao) as (p1 & E & V1). rewrite E. cbn [bind]. now apply IH.
    + destruct (iri_decomposition b Ao) as (pb & sch & Vb & Hs & (Eb & _) & _). subst b.
      destruct (resolve_valid_I pb p sch Vb V Hs) as (p1 & E & V1). rewrite E. cbn [bind]. now apply IH.
Qed.
