(* C05/C04: each setter writes compose of the updated parts, the written path differs from the requested
   one only by a permitted disambiguation, and delimiter well-formedness (hence unambiguous read-back
   through C02) is preserved. *)
From Coq Require Import List NArith Bool Arith Lia.
Import ListNotations.
Require Import V.Regex V.Parse V.ParseProofs V.Parse2 V.Parse2Proofs V.ScanValues V.PathSpec V.Splice V.Setters V.Push
  V.SetPath V.SetAuth V.SetScheme V.Reference V.SetFragment.
Local Open Scope nat_scope.

(* the three documented disambiguations, and nothing else *)
Definition permitted (has_scheme has_auth : bool) (requested written : str) : Prop :=
  written = requested
  \/ (has_auth = true /\ path_is_abs requested = false /\ written = SLASH :: requested)
  \/ (has_auth = false /\ starts_dslash requested = true /\ written = SLASH :: DOT :: requested)
  \/ (has_scheme = false /\ has_auth = false /\ colon_first requested = true /\ written = DOT :: SLASH :: requested).

Definition has {A} (o : option A) : bool := match o with Some _ => true | None => false end.

Lemma nocolon_colon p : nocolon_first p = negb (colon_first p).
Proof. induction p as [|c p IH]; simpl; auto. destruct (is c SLASH) eqn:E1, (is c COLON) eqn:E2; simpl; auto.
  apply is_true in E1, E2. subst. discriminate. Qed.
Lemma starts_dslash_false p : starts_dslash p = false -> forall t, p <> SLASH :: SLASH :: t.
Proof. intros H t ->. vm_compute in H. discriminate. Qed.
Lemma starts_dslash_true p : (forall t, p <> SLASH :: SLASH :: t) -> starts_dslash p = false.
Proof.
  intros H. destruct p as [|a [|b t]]; simpl; auto.
  destruct (is a SLASH) eqn:Ea, (is b SLASH) eqn:Eb; simpl; auto. apply is_true in Ea, Eb. subst. exfalso. eapply H; reflexivity.
Qed.

(* ---------- set_path ---------- *)
Lemma fix_path_permitted p new : permitted (has (p_scheme p)) (has (p_authority p)) new (fix_path p new).
Proof.
  unfold fix_path, permitted, has. destruct (p_authority p) as [a|], (p_scheme p) as [s|]; cbn [negb andb].
  - destruct (path_is_abs new) eqn:E; cbn [negb andb]; [left; reflexivity|].
    destruct (is_nil new); cbn [negb andb]; [left; reflexivity | right; left; auto].
  - destruct (path_is_abs new) eqn:E; cbn [negb andb]; [left; reflexivity|].
    destruct (is_nil new); cbn [negb andb]; [left; reflexivity | right; left; auto].
  - destruct (starts_dslash new) eqn:E; [right; right; left; auto | left; reflexivity].
  - destruct (starts_dslash new) eqn:E; [right; right; left; auto|].
    destruct (colon_first new) eqn:E2; [right; right; right; auto | left; reflexivity].
Qed.

(* ---------- set_authority ---------- *)
Definition auth_path (p : parts) (new : option str) : str := auth_fix_path (p_path p) (tail_of p) new (p_authority p).
Lemma auth_fix_permitted p new : wf_parts p -> permitted (has (p_scheme p)) (has new) (p_path p) (auth_path p new).
Proof.
  intros W. unfold auth_path, auth_fix_path, permitted, has.
  destruct new as [a|], (p_authority p) as [a0|] eqn:Ea; auto.
  - destruct (p_path p ++ tail_of p) as [|c r] eqn:E; auto.
    destruct (negb (is c SLASH || is_qh c)) eqn:Ec; auto.
    right; left. repeat split; auto. destruct (p_path p) as [|d t]; auto. simpl in E. injection E as -> _.
    apply negb_true_iff, orb_false_iff in Ec as [Ec _]. simpl. exact Ec.
  - destruct (starts_dslash (p_path p)) eqn:E; auto. right; right; left. auto.
Qed.
Lemma added_path_ok p a : wf_parts p -> p_authority p = None ->
  let x := auth_fix_path (p_path p) (tail_of p) (Some a) None in
  none_of [QM; HASH] x /\ (x = [] \/ exists t, x = SLASH :: t).
Proof.
  intros [Hs Ha Hp Hq Hpa Hpn Hpc] Ea.
  assert (Hsl : ~ In SLASH [QM; HASH]) by (simpl; unfold SLASH, QM, HASH; intros [E|[E|[]]]; discriminate).
  unfold auth_fix_path. destruct (p_path p) as [|d t] eqn:Ep; cbn [app].
  - destruct (tail_of p) as [|c r] eqn:Et; [split; [constructor | left; reflexivity]|].
    pose proof (tail_ends_qh p) as Hq'. rewrite Et in Hq'. destruct Hq' as [Hq'|(c' & t' & E' & Hc')]; [discriminate|].
    injection E' as -> ->. rewrite Hc', orb_true_r. cbn [negb]. split; [constructor | left; reflexivity].
  - destruct (negb (is d SLASH || is_qh d)) eqn:Ec.
    + split; [constructor; auto | right; eexists; reflexivity].
    + split; [exact Hp|]. apply negb_false_iff, orb_true_iff in Ec as [Ec|Ec].
      * apply is_true in Ec. subst. right; eexists; reflexivity.
      * exfalso. apply none_of_cons in Hp as [Hd _]. unfold is_qh in Ec.
        apply orb_true_iff in Ec as [Ec|Ec]; apply is_true in Ec; subst; apply Hd; simpl; tauto.
Qed.
Lemma auth_fix_added path tail a b : auth_fix_path path tail (Some a) None = auth_fix_path path tail (Some b) None.
Proof. reflexivity. Qed.

Lemma removed_path_ok p a0 : wf_parts p -> p_authority p = Some a0 ->
  let x := auth_fix_path (p_path p) (tail_of p) None (Some a0) in
  none_of [QM; HASH] x /\ (forall t, x <> SLASH :: SLASH :: t) /\ nocolon_first x = true.
Proof.
  intros [Hs Ha Hp Hq Hpa Hpn Hpc] Ea.
  assert (Hsl : ~ In SLASH [QM; HASH]) by (simpl; unfold SLASH, QM, HASH; intros [E|[E|[]]]; discriminate).
  assert (Hdt : ~ In DOT [QM; HASH]) by (simpl; unfold DOT, QM, HASH; intros [E|[E|[]]]; discriminate).
  assert (Hpa' : p_path p = [] \/ exists t, p_path p = SLASH :: t) by (apply Hpa; congruence).
  unfold auth_fix_path. destruct (starts_dslash (p_path p)) eqn:E.
  - split; [constructor; auto; constructor; auto|]. split.
    + intros t Ht. injection Ht as Ht _. unfold DOT, SLASH in Ht. discriminate.
    + reflexivity.
  - split; [exact Hp|]. split; [now apply starts_dslash_false|].
    destruct Hpa' as [->|(t & ->)]; reflexivity.
Qed.

Lemma set_authority_wf p new : wf_parts p -> (forall a, new = Some a -> none_of [SLASH; QM; HASH] a) ->
  wf_parts (with_auth p new (auth_path p new)).
Proof.
  intros W Hnew. pose proof W as [Hs Ha Hp Hq Hpa Hpn Hpc]. unfold auth_path.
  destruct new as [a|]; destruct (p_authority p) as [a0|] eqn:Ea.
  - constructor; cbn [with_auth p_scheme p_authority p_path p_query p_fragment auth_fix_path].
    + exact Hs.
    + intros x E. injection E as <-. now apply Hnew.
    + exact Hp.
    + exact Hq.
    + intros _. apply Hpa. congruence.
    + discriminate.
    + discriminate.
  - destruct (added_path_ok p a W Ea) as [H1 H2].
    constructor; cbn [with_auth p_scheme p_authority p_path p_query p_fragment].
    + exact Hs.
    + intros x E. injection E as <-. now apply Hnew.
    + exact H1.
    + exact Hq.
    + intros _. exact H2.
    + discriminate.
    + discriminate.
  - destruct (removed_path_ok p a0 W Ea) as (H1 & H2 & H3).
    constructor; cbn [with_auth p_scheme p_authority p_path p_query p_fragment].
    + exact Hs.
    + discriminate.
    + exact H1.
    + exact Hq.
    + congruence.
    + intros _. exact H2.
    + intros _ _. exact H3.
  - constructor; cbn [with_auth p_scheme p_authority p_path p_query p_fragment auth_fix_path].
    + exact Hs.
    + discriminate.
    + exact Hp.
    + exact Hq.
    + congruence.
    + intros _. now apply Hpn.
    + intros E _. now apply Hpc.
Qed.

(* ---------- set_scheme ---------- *)
Lemma scheme_fix_permitted p new : permitted (has new) (has (p_authority p)) (p_path p) (scheme_fix_path p new).
Proof.
  unfold scheme_fix_path, permitted, has. destruct new, (p_scheme p), (p_authority p); auto.
  destruct (colon_first (p_path p)) eqn:E; auto. right; right; right. auto.
Qed.
Lemma set_scheme_wf p new : wf_parts p -> (forall s, new = Some s -> s <> [] /\ none_of [COLON; SLASH; QM; HASH] s) ->
  wf_parts (with_scheme p new (scheme_fix_path p new)).
Proof.
  intros W Hnew. pose proof W as [Hs Ha Hp Hq Hpa Hpn Hpc].
  assert (Hsl : ~ In SLASH [QM; HASH]) by (simpl; unfold SLASH, QM, HASH; intros [E|[E|[]]]; discriminate).
  assert (Hdt : ~ In DOT [QM; HASH]) by (simpl; unfold DOT, QM, HASH; intros [E|[E|[]]]; discriminate).
  destruct new as [s|].
  - assert (E : scheme_fix_path p (Some s) = p_path p) by (unfold scheme_fix_path; destruct (p_scheme p), (p_authority p); reflexivity).
    rewrite E. constructor; cbn [with_scheme p_scheme p_authority p_path p_query p_fragment].
    + intros x Ex. injection Ex as <-. now apply Hnew.
    + exact Ha.
    + exact Hp.
    + exact Hq.
    + exact Hpa.
    + exact Hpn.
    + discriminate.
  - unfold scheme_fix_path. destruct (p_scheme p) as [s0|] eqn:Es; destruct (p_authority p) as [a|] eqn:Ea.
    + constructor; cbn [with_scheme p_scheme p_authority p_path p_query p_fragment]; rewrite ?Ea.
      * discriminate.
      * exact Ha.
      * exact Hp.
      * exact Hq.
      * exact Hpa.
      * discriminate.
      * discriminate.
    + destruct (colon_first (p_path p)) eqn:Ec; constructor; cbn [with_scheme p_scheme p_authority p_path p_query p_fragment]; rewrite ?Ea.
      * discriminate.
      * exact Ha.
      * repeat (constructor; auto).
      * exact Hq.
      * congruence.
      * intros _ t Ht. injection Ht as Ht _. unfold DOT, SLASH in Ht. discriminate.
      * intros _ _. reflexivity.
      * discriminate.
      * exact Ha.
      * exact Hp.
      * exact Hq.
      * congruence.
      * exact Hpn.
      * intros _ _. rewrite nocolon_colon, Ec. reflexivity.
    + constructor; cbn [with_scheme p_scheme p_authority p_path p_query p_fragment]; rewrite ?Ea.
      * discriminate.
      * exact Ha.
      * exact Hp.
      * exact Hq.
      * exact Hpa.
      * discriminate.
      * discriminate.
    + constructor; cbn [with_scheme p_scheme p_authority p_path p_query p_fragment]; rewrite ?Ea.
      * discriminate.
      * exact Ha.
      * exact Hp.
      * exact Hq.
      * congruence.
      * exact Hpn.
      * intros _ _. now apply Hpc.
Qed.

(* ---------- set_fragment ---------- *)
Lemma set_fragment_wf p f : wf_parts p -> wf_parts (with_fragment p f).
Proof. intros [Hs Ha Hp Hq Hpa Hpn Hpc]. constructor; simpl; auto. Qed.
