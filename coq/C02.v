(* Property C02 -- component accessors return the RFC 3986 decomposition.
   Only statements here; proofs are in C02Proofs.v and the files it imports. *)
From Coq Require Import List NArith Bool Arith.
Import ListNotations.
Require Import V.Regex V.Abnf V.Parse V.ParseProofs V.Parse2 V.Parse2Proofs V.Factor V.BridgePaths V.C02Bridge V.C02Proofs V.Utf8.
Local Open Scope nat_scope.

(* Every string of the RFC 3986 URI-reference language is the section 5.3 composition of valid
   components, and on it the one-pass decomposition and each of the five individual scanners return
   exactly the ranges of those components (None exactly when the component is absent). *)
Theorem C02_uri_reference : forall s, L (IRI_reference U U) s -> exists p, valid_parts_U p /\ decomposition_ok s p.
Proof. exact uri_reference_decomposition. Qed.
Print Assumptions C02_uri_reference.

Theorem C02_iri_reference : forall s, L (IRI_reference I C02Bridge.P) s -> exists p, valid_parts_I p /\ decomposition_ok s p.
Proof. exact iri_reference_decomposition. Qed.
Print Assumptions C02_iri_reference.

(* Uri / Iri (a scheme is known to be present): parts() and scheme() agree with the same decomposition *)
Theorem C02_uri : forall s, L (IRI U U) s ->
  exists p sch, valid_parts_U p /\ p_scheme p = Some sch /\ decomposition_ok s p /\ abs_parts s 0 = expected p /\ scheme_range s 0 = (0, length sch).
Proof. exact uri_decomposition. Qed.
Print Assumptions C02_uri.

Theorem C02_iri : forall s, L (IRI I C02Bridge.P) s ->
  exists p sch, valid_parts_I p /\ p_scheme p = Some sch /\ decomposition_ok s p /\ abs_parts s 0 = expected p /\ scheme_range s 0 = (0, length sch).
Proof. exact iri_decomposition. Qed.
Print Assumptions C02_iri.

(* An IRI is held as UTF-8 BYTES and the scanners run on those bytes.  Every scanner theorem above carries
   over verbatim: for every Unicode string s of the IRI-reference language (code points), the byte string
   utf8 s is compose of the UTF-8 encoded components, and on it reference_parts and every find_* return exactly
   the byte ranges of those components. *)
Theorem C02_iri_reference_bytes : forall s, L (IRI_reference I C02Bridge.P) s ->
  exists p, valid_parts_I p /\ s = compose p /\ decomposition_ok (utf8 s) (map_parts utf8 p).
Proof. exact iri_reference_bytes. Qed.
Print Assumptions C02_iri_reference_bytes.

(* The ranges denote the components, so recomposing the reported slices reproduces the text and each
   reported component is the valid component it was composed from. *)
Theorem C02_slices : forall p,
  oslice (compose p) (r_scheme (expected p)) = p_scheme p /\
  oslice (compose p) (r_authority (expected p)) = p_authority p /\
  slice (compose p) (r_path (expected p)) = p_path p /\
  oslice (compose p) (r_query (expected p)) = p_query p /\
  oslice (compose p) (r_fragment (expected p)) = p_fragment p.
Proof. exact expected_slices. Qed.
Print Assumptions C02_slices.

(* non-vacuity: a concrete reference with every component present, empty query *)
Example C02_example :
  let s := [104;116;116;112;58;47;47;117;64;104;58;56;48;47;112;47;113;63;35;102]%N in   (* http://u@h:80/p/q?#f *)
  reference_parts s 0 = {| r_scheme := Some (0,4); r_authority := Some (7,13); r_path := (13,17); r_query := Some (18,18); r_fragment := Some (19,20) |}.
Proof. vm_compute. reflexivity. Qed.
