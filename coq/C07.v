(* Property C07 -- equality is exactly the documented normalising equivalence, and is total.
   Statements only.  `canon s` is the canonical form of a reference text: scheme literally, authority
   as (decoded user info, decoded host, literal port), absoluteness, the percent-decoded normalised
   segments, decoded query and fragment; it is defined (Some) whenever percent-decoding is, which
   C07_decode_total shows for every valid component of both families. *)
From Coq Require Import List NArith Bool Arith.
Import ListNotations.
Require Import V.Regex V.Abnf V.Parse V.BridgePaths V.C02Bridge V.Cmp V.Ord V.CmpProofs V.PctWf.
Local Open Scope nat_scope.

(* == (the derive-style model of PartialEq for Uri/UriRef/Iri/IriRef) never panics and holds exactly when
   the canonical forms coincide *)
Theorem C07_eq_is_canon_equality : forall a b ca cb, canon a = Some ca -> canon b = Some cb ->
  (eq_ref a b = Some true <-> ca = cb) /\ eq_ref a b <> None.
Proof.
  intros a b ca cb Ha Hb. split; [now apply eq_ref_iff|]. rewrite (eq_ref_total a b ca cb Ha Hb). discriminate.
Qed.
Print Assumptions C07_eq_is_canon_equality.

Theorem C07_reflexive : forall a ca, canon a = Some ca -> eq_ref a a = Some true.
Proof. exact eq_ref_refl. Qed.
Print Assumptions C07_reflexive.
Theorem C07_symmetric : forall a b ca cb, canon a = Some ca -> canon b = Some cb -> eq_ref a b = Some true -> eq_ref b a = Some true.
Proof. exact eq_ref_sym. Qed.
Print Assumptions C07_symmetric.
Theorem C07_transitive : forall a b c ca cb cc, canon a = Some ca -> canon b = Some cb -> canon c = Some cc ->
  eq_ref a b = Some true -> eq_ref b c = Some true -> eq_ref a c = Some true.
Proof. exact eq_ref_trans. Qed.
Print Assumptions C07_transitive.

(* stand-alone authorities and paths obey the same rules *)
Theorem C07_authority : forall a b ca cb, canon_auth a = Some ca -> canon_auth b = Some cb -> eq_authority a b = Some (is_eq (acmp ca cb)).
Proof. exact eq_authority_canon. Qed.
Print Assumptions C07_authority.
Theorem C07_path : forall a b ca cb, canon_path a = Some ca -> canon_path b = Some cb -> eq_path a b = Some (is_eq (pcmp ca cb)).
Proof. exact eq_path_canon. Qed.
Print Assumptions C07_path.

(* totality of percent-decoding on every valid user info, host, segment, query, fragment (both families),
   including octets that are not UTF-8 *)
Theorem C07_decode_total : forall s,
  L (iuserinfo U) s \/ L (iuserinfo I) s \/ L (ihost U) s \/ L (ihost I) s \/ L (isegment U) s \/ L (isegment I) s \/
  L (iquery U U) s \/ L (iquery I C02Bridge.P) s \/ L (ifragment U) s \/ L (ifragment I) s -> exists s', dec s = Some s'.
Proof.
  intros s [H|[H|[H|[H|[H|[H|[H|[H|[H|H]]]]]]]]]; eapply dec_total_component; try exact H.
  - exact chk_ui_U. - exact chk_ui_I. - exact chk_host_U. - exact chk_host_I. - exact chk_seg_U. - exact chk_seg_I.
  - exact chk_q_U. - exact chk_q_I. - exact chk_f_U. - exact chk_f_I.
Qed.
Print Assumptions C07_decode_total.

(* non-vacuity: http://a/%62/./c  ==  http://a/b/x/../c ; %FF compares (no panic) ; %C0%AF is not %2F *)
Example C07_examples :
  eq_ref [104;116;116;112;58;47;47;97;47;37;54;50;47;46;47;99]%N [104;116;116;112;58;47;47;97;47;98;47;120;47;46;46;47;99]%N = Some true
  /\ eq_key pct_key [37;70;70]%N [37;102;102]%N = Some true
  /\ eq_key pct_key [37;67;48;37;65;70]%N [37;50;70]%N = Some false.
Proof. vm_compute. repeat split; reflexivity. Qed.
