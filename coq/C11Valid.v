(* C11 at the level of the RFC grammar: from any authority of the language, any history of set_userinfo / set_host /
   set_port calls through one handle, with arguments valid for their component types (or removals), leaves the handle
   viewing a string of the authority language again. *)
From Coq Require Import List NArith Bool Arith.
Import ListNotations.
Require Import V.Regex V.Bisim V.Parse V.ParseProofs V.Auth V.AuthProofs V.Splice V.Setters V.AuthMut V.AuthMutProofs V.AuthValues V.AuthMutProofs2
  V.Abnf V.Bridge V.BridgePaths V.Factor V.C03Bridge.

Local Open Scope nat_scope.
(* keep the conversion checker out of the grammar *)
Local Strategy opaque [L iauthority iuserinfo ihost].

Section Fam.
  Variable X : cls.
  Hypothesis h_ui : incl_check (iuserinfo X) (Star (Cls not_at_lbr)) = true.
  Hypothesis h_host : incl_check (ihost X) SH_host = true.
  Hypothesis h_host_at : incl_check (ihost X) (Star (Cls not_at)) = true.
  Hypothesis h_bwd : incl_check (AUTH_raw (iuserinfo X) (ihost X) Abnf.port) (iauthority X) = true.
  Hypothesis h_fwd : incl_check (iauthority X) (AUTH_raw (iuserinfo X) (ihost X) Abnf.port) = true.

  Definition varg (o : aop) : Prop :=
    match o with
    | AUser u => oL (iuserinfo X) u
    | AHost h => L (ihost X) h
    | APort p => oL Abnf.port p
    end.

  Lemma varg_ok o : varg o -> aarg_ok o.
  Proof.
    destruct o as [u|h|p]; cbn [varg aarg_ok]; intros H.
    - intros x E. rewrite E in H. unfold oL in H. eapply (star_none Eps); [apply in_not_at_lbr | exact (incl_check_sound _ _ h_ui _ H)].
    - split; [apply SH_host_inv; exact (incl_check_sound _ _ h_host _ H) | eapply (star_none Eps); [apply in_not_at | exact (incl_check_sound _ _ h_host_at _ H)]].
    - intros x E. rewrite E in H. unfold oL in H. eapply (star_none Eps); [apply in_not_at | exact (incl_check_sound _ _ port_at _ H)].
  Qed.
  Lemma aupdate_valid a o : valid_aparts_fam X a -> varg o -> valid_aparts_fam X (aupdate a o).
  Proof.
    intros (Hu & Hh & Hp) H. destruct o as [u|h|p]; cbn [aupdate varg] in *; unfold valid_aparts_fam, valid_aparts;
      cbn [with_userinfo with_host with_port ap_userinfo ap_host ap_port]; auto.
  Qed.
  Lemma fold_valid ops : forall a, valid_aparts_fam X a -> Forall varg ops -> valid_aparts_fam X (fold_left aupdate ops a).
  Proof.
    induction ops as [|o ops IH]; intros a V H; cbn [fold_left]; [exact V|]. inversion H; subst. apply IH; [now apply aupdate_valid | assumption].
  Qed.
  Lemma valid_is_authority a : valid_aparts_fam X a -> L (iauthority X) (acompose a).
  Proof. intros V. apply (incl_check_sound _ _ h_bwd). apply AUTH_factor. exists a. split; [exact V | reflexivity]. Qed.

  Theorem history_valid ops h s before after : L (iauthority X) s -> Forall varg ops ->
    h_data h = before ++ s ++ after -> h_start h = length before -> h_end h = length before + length s ->
    exists h', arun ops h = Some h' /\ L (iauthority X) (view h').
  Proof.
    intros Hs Hops Hd Hst He. apply (incl_check_sound _ _ h_fwd) in Hs. apply AUTH_factor in Hs as (a & V & ->).
    assert (I : Inv h a before after) by (split; [exact Hd | split; [exact Hst | exact He]]).
    assert (Hok : Forall aarg_ok ops) by (eapply Forall_impl; [|exact Hops]; intros o; apply varg_ok).
    destruct (history ops h a before after I (valid_aparts_wf X h_ui h_host h_host_at a V) Hok) as (h' & E & _ & Ev).
    exists h'. split; [exact E|]. rewrite Ev. apply valid_is_authority, fold_valid; assumption.
  Qed.
End Fam.

Theorem history_valid_U : forall ops h s before after, L (iauthority U) s -> Forall (varg U) ops ->
  h_data h = before ++ s ++ after -> h_start h = length before -> h_end h = length before + length s ->
  exists h', arun ops h = Some h' /\ L (iauthority U) (view h').
Proof. exact (history_valid U ui_U host_U host_at_U a_bwd_U a_fwd_U). Qed.
Theorem history_valid_I : forall ops h s before after, L (iauthority I) s -> Forall (varg I) ops ->
  h_data h = before ++ s ++ after -> h_start h = length before -> h_end h = length before + length s ->
  exists h', arun ops h = Some h' /\ L (iauthority I) (view h').
Proof. exact (history_valid I ui_I host_I host_at_I a_bwd_I a_fwd_I). Qed.
