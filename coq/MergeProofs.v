(* C06: the text-level result of the merge branch (ResolveProofs3.merge_impl) equals RFC 3986 5.2.3 + 5.2.4 when neither
   the directory of the base path nor the reference path contains an empty segment before its last one.
   Representation invariant: the accumulated path is the rendering of a list of non-empty, dot-free segments
   (after an optional run of ".." when relative): exactly the states of the specification walk `norm`. *)
From Coq Require Import List NArith Bool Arith Lia.
Import ListNotations.
Require Import V.Regex V.Parse V.ParseProofs V.Parse2 V.PathSpec V.Splice V.Setters V.Iter V.PathQ V.Push V.PathMut V.PathMutProofs
  V.SetPath V.SetAuth V.SetScheme V.C05Proofs V.Reference V.Rfc V.PushWf V.IterProofs V.IterAll V.C12Proofs V.NormProofs V.PopProofs V.ParentProofs V.SymProofs.
Local Open Scope nat_scope.

Definition clean (l : list seg) : Prop := Forall (fun s => s <> [] /\ noslash s) l.
Lemma clean_noslash l : clean l -> Forall noslash l.
Proof. intros H. eapply Forall_impl; [|exact H]. intros s [_ Hs]. exact Hs. Qed.
Lemma clean_app a b : clean (a ++ b) <-> clean a /\ clean b.
Proof. apply Forall_app. Qed.
Lemma clean_no_empty l : clean l -> ~ In [] l.
Proof. intros H Hi. unfold clean in H. rewrite Forall_forall in H. destruct (H _ Hi) as [E _]. now apply E. Qed.

Lemma join_snoc (l : list seg) s : l <> [] -> join (l ++ [s]) = join l ++ SLASH :: s.
Proof.
  induction l as [|a l IH]; [tauto|]. intros _. destruct l as [|b r]; [reflexivity|].
  change ((a :: b :: r) ++ [s]) with (a :: (b :: r) ++ [s]).
  change (join (a :: (b :: r) ++ [s])) with (a ++ SLASH :: join ((b :: r) ++ [s])).
  rewrite IH by discriminate. change (join (a :: b :: r)) with (a ++ SLASH :: join (b :: r)). rewrite <- app_assoc. reflexivity.
Qed.
Lemma render_snoc ab (l : list seg) s : l <> [] -> render ab (l ++ [s]) = render ab l ++ SLASH :: s.
Proof. intros H. unfold render. rewrite (join_snoc l s H), <- app_assoc. reflexivity. Qed.

Lemma clean_head_join l : clean l -> l <> [] -> exists c r, join l = c :: r /\ is c SLASH = false.
Proof.
  intros H Hl. destruct l as [|s l]; [contradiction|]. inversion H as [|? ? [Hs Hn] _]; subst.
  destruct s as [|c s']; [contradiction|]. inversion Hn; subst. exists c.
  destruct l as [|t r]; [exists s'; split; [reflexivity | now apply is_false]|].
  exists (s' ++ SLASH :: join (t :: r)). split; [reflexivity | now apply is_false].
Qed.
Lemma render_empty_iff ab l : clean l -> path_is_empty (render ab l) = nil_segs l.
Proof.
  intros H. destruct l as [|s l]; [destruct ab; reflexivity|]. cbn [nil_segs].
  destruct (clean_head_join (s :: l) H ltac:(discriminate)) as (c & r & E & Hc). unfold render. rewrite E.
  destruct ab; cbn [app path_is_empty]; [reflexivity|]. destruct r; [exact Hc | reflexivity].
Qed.
Lemma render_nil_iff ab l : clean l -> is_nil (render ab l) = negb ab && nil_segs l.
Proof.
  intros H. destruct l as [|s l]; [destruct ab; reflexivity|]. cbn [nil_segs]. rewrite andb_false_r.
  destruct (clean_head_join (s :: l) H ltac:(discriminate)) as (c & r & E & Hc). unfold render. rewrite E. destruct ab; reflexivity.
Qed.
Lemma segs_render ab l : clean l -> segs (render ab l) = l /\ is_abs (render ab l) = ab.
Proof.
  intros H. apply segs_render_prefix; [now apply clean_noslash | |].
  - intros _ r E. apply (clean_no_empty l H). rewrite E. left. reflexivity.
  - intros [_ E]. apply (clean_no_empty l H). rewrite E. left. reflexivity.
Qed.

(* the accumulated states *)
Definition Rep (ab : bool) (v : str) (l : list seg) : Prop := v = render ab l /\ clean l /\ normal ab l.

Lemma rep_no_dot ab v l : Rep ab v l -> ~ In [DOT] l.
Proof. intros (_ & _ & N). now apply (normal_no_dot ab). Qed.

(* push of a non-empty segment *)
Definition ctx_ok (start0 fa ab : bool) : Prop := fa && negb start0 = true -> ab = true.
Definition seg_ctx (start0 : bool) (seg : str) : Prop := start0 = true -> colon_first seg = false.
Lemma push_text start0 ab fa v l seg : Rep ab v l -> ctx_ok start0 fa ab -> seg_ctx start0 seg -> seg <> [] -> noslash seg ->
  push start0 fa v seg = render ab (l ++ [seg]).
Proof.
  intros (-> & C & N) Hfa Hcol Hs Hn. unfold push.
  assert (Hp : (if fa && negb start0 && is_nil (render ab l) then [SLASH] else render ab l) = render ab l).
  { rewrite (render_nil_iff ab l C). destruct (fa && negb start0) eqn:E; [rewrite (Hfa E)|]; reflexivity. }
  rewrite Hp, (render_empty_iff ab l C).
  assert (Hnil : is_nil seg = false) by (destruct seg; [contradiction | reflexivity]). rewrite Hnil.
  assert (Hsc : start0 && colon_first seg = false) by (destruct start0; [rewrite (Hcol eq_refl)|]; reflexivity). rewrite Hsc. cbn [orb].
  destruct l as [|s0 l0] eqn:El; cbn [nil_segs andb].
  - unfold render. cbn [join app]. rewrite app_nil_r. reflexivity.
  - rewrite <- El in *. assert (Hl : l <> []) by (rewrite El; discriminate).
    rewrite (render_ends_dotslash ab l Hl (clean_noslash l C) (normal_no_dot ab l N)), andb_false_r.
    symmetry. exact (render_snoc ab l seg Hl).
Qed.

Definition nonempty_seg (s : str) : Prop := s <> [] /\ noslash s.

Lemma step_clean ab stack s : clean (rev stack) -> nonempty_seg s -> clean (rev (step ab stack s)).
Proof.
  intros C Hs. unfold clean in *. rewrite Forall_forall in *. intros x Hx. apply in_rev in Hx.
  destruct (step_sub _ _ _ _ Hx) as [->|Hi]; [exact Hs | apply C; now apply in_rev in Hi].
Qed.

Lemma dotdot_seg : nonempty_seg DOTDOT. Proof. split; [discriminate | apply dotdot_noslash]. Qed.

Lemma step_dotdot_nil ab : step ab [] DOTDOT = if ab then [] else [DOTDOT].
Proof. reflexivity. Qed.
Lemma step_dotdot_cons ab x st : step ab (x :: st) DOTDOT = if is_dotdot x then DOTDOT :: x :: st else st.
Proof. reflexivity. Qed.

Lemma dotdot_ctx start0 : seg_ctx start0 DOTDOT. Proof. intros _. reflexivity. Qed.
Lemma pop_rep start0 ab fa v l : Rep ab v l -> ctx_ok start0 fa ab -> pop_text start0 fa v = render ab (rev (step ab (rev l) DOTDOT)).
Proof.
  intros R Hfa. pose proof R as (Ev & C & N). unfold pop_text. subst v. rewrite (render_empty_iff ab l C).
  destruct (segs_render ab l C) as [Esg Eab]. rewrite Esg, Eab.
  destruct (last_case l) as [El|(l' & x & El)].
  - rewrite El in *. cbn [nil_segs rev]. rewrite step_dotdot_nil. destruct ab; [reflexivity|].
    exact (push_text start0 false fa (render false []) [] DOTDOT R Hfa (dotdot_ctx start0) (proj1 dotdot_seg) (proj2 dotdot_seg)).
  - assert (Hns : nil_segs l = false) by (rewrite El; destruct l'; reflexivity). rewrite Hns.
    assert (Er : rev l = x :: rev l') by (rewrite El, rev_app_distr; reflexivity). rewrite Er, step_dotdot_cons.
    unfold last_is_dotdot. rewrite Er. destruct (is_dotdot x).
    + rewrite <- Er. change (DOTDOT :: rev l) with ([DOTDOT] ++ rev l). rewrite rev_app_distr, rev_involutive. cbn [rev app].
      exact (push_text start0 ab fa (render ab l) l DOTDOT R Hfa (dotdot_ctx start0) (proj1 dotdot_seg) (proj2 dotdot_seg)).
    + rewrite El, removelast_last, rev_involutive. reflexivity.
Qed.

Lemma sym1_rep start0 ab fa v l seg : Rep ab v l -> ctx_ok start0 fa ab -> seg_ctx start0 seg -> nonempty_seg seg ->
  Rep ab (fst (sym1 start0 fa v seg)) (rev (step ab (rev l) seg)) /\ snd (sym1 start0 fa v seg) = is_dot seg || is_dotdot seg.
Proof.
  intros R Hfa Hcol Hs. pose proof R as (Ev & C & N).
  assert (N' : normal ab (rev (step ab (rev l) seg))) by (apply step_normal; rewrite rev_involutive; exact N).
  assert (C' : clean (rev (step ab (rev l) seg))) by (apply step_clean; [rewrite rev_involutive; exact C | exact Hs]).
  unfold sym1. destruct (is_dot seg) eqn:Ed.
  - cbn [fst snd orb]. split; [|reflexivity]. unfold step. rewrite Ed, rev_involutive. exact R.
  - destruct (is_dotdot seg) eqn:Edd; cbn [fst snd orb].
    + split; [|reflexivity]. split; [|split; [exact C' | exact N']].
      assert (Eseg : seg = DOTDOT).
      { destruct seg as [|a [|b [|c0 r]]]; try discriminate. cbn [is_dotdot] in Edd. apply andb_true_iff in Edd as [E1 E2].
        apply is_true in E1, E2. subst. reflexivity. }
      rewrite Eseg. exact (pop_rep start0 ab fa v l R Hfa).
    + assert (Hnil : is_nil seg = false) by (destruct seg; [exfalso; now apply (proj1 Hs) | reflexivity]). rewrite Hnil. cbn [negb orb fst snd].
      split; [|reflexivity]. split; [|split; [exact C' | exact N']].
      unfold step. rewrite Ed, Edd. cbn [rev]. rewrite rev_involutive. exact (push_text start0 ab fa v l seg R Hfa Hcol (proj1 Hs) (proj2 Hs)).
Qed.

Lemma last_is_dot_cons s rest : rest <> [] -> last_is_dot (s :: rest) = last_is_dot rest.
Proof.
  intros H. unfold last_is_dot. cbn [rev]. destruct (rev rest) as [|y r] eqn:E; [|reflexivity].
  exfalso. apply H. rewrite <- (rev_involutive rest), E. reflexivity.
Qed.

Lemma fold_rep start0 ab fa segs : Forall (fun s => nonempty_seg s /\ seg_ctx start0 s) segs -> forall v l open, Rep ab v l -> ctx_ok start0 fa ab ->
  Rep ab (fst (sym_fold1 start0 fa v open segs)) (rev (fold_left (step ab) segs (rev l))) /\
  snd (sym_fold1 start0 fa v open segs) = match segs with [] => open | _ => last_is_dot segs end.
Proof.
  induction 1 as [|s rest [Hs Hcs] Hrest IH]; intros v l open R Hfa; cbn [sym_fold1 fold_left].
  - rewrite rev_involutive. split; [exact R | reflexivity].
  - destruct (sym1_rep start0 ab fa v l s R Hfa Hcs Hs) as [R1 O1]. destruct (sym1 start0 fa v s) as [v1 o1]. cbn [fst snd] in *.
    destruct (IH v1 _ o1 R1 Hfa) as [R2 O2]. rewrite rev_involutive in R2. split; [exact R2|].
    rewrite O2. destruct rest as [|s2 r2]; [rewrite O1; unfold last_is_dot; reflexivity|].
    symmetry. apply last_is_dot_cons. discriminate.
Qed.

(* closing: the empty segment pushed after a final dot segment *)
Lemma push_empty_text start0 ab fa v l : Rep ab v l -> l <> [] -> push start0 fa v [] = render ab (l ++ [[]]).
Proof.
  intros (-> & C & N) Hl. unfold push. rewrite (render_nil_iff ab l C).
  assert (Hns : nil_segs l = false) by (destruct l; [contradiction | reflexivity]). rewrite Hns, !andb_false_r.
  rewrite (render_empty_iff ab l C), Hns. cbn [andb].
  rewrite (render_ends_dotslash ab l Hl (clean_noslash l C) (normal_no_dot ab l N)), andb_false_r.
  symmetry. exact (render_snoc ab l [] Hl).
Qed.

Lemma norm_app ab D L : norm ab (D ++ L) = rev (fold_left (step ab) L (rev (norm ab D))).
Proof. unfold norm. rewrite fold_left_app, rev_involutive. reflexivity. Qed.

Lemma render_snoc_empty_nil ab : render ab [[]] = render ab [].
Proof. reflexivity. Qed.

Section Append.
  Variables start0 ab fa : bool. Variable v0 : str. Variables D L : list seg.
  Hypothesis R0 : Rep ab v0 (norm ab D).
  Hypothesis Hfa : ctx_ok start0 fa ab.
  Local Notation seg_good := (fun s => nonempty_seg s /\ seg_ctx start0 s).

  (* every segment of the reference is non-empty *)
  Theorem append_all_nonempty : L <> [] -> Forall seg_good L ->
    sym_append1 start0 fa v0 L = render ab (rds_segs ab (D ++ L)).
  Proof.
    intros HL HF. unfold sym_append1, close1, rds_segs. destruct (fold_rep start0 ab fa L HF v0 _ false R0 Hfa) as [R1 O1].
    rewrite <- norm_app in R1. destruct (sym_fold1 start0 fa v0 false L) as [v1 o1]. cbn [fst snd] in *.
    assert (Eo : o1 = last_is_dot (D ++ L)).
    { rewrite O1. destruct L as [|s r] eqn:EL; [contradiction|]. rewrite <- EL.
      unfold last_is_dot. rewrite rev_app_distr. destruct (rev L) as [|y t] eqn:Er; [|reflexivity].
      exfalso. apply HL. rewrite <- EL, <- (rev_involutive L), Er. reflexivity. }
    rewrite Eo. pose proof R1 as (E1 & C1 & N1). rewrite E1 at 1. rewrite (render_empty_iff ab _ C1).
    destruct (last_is_dot (D ++ L) && negb (nil_segs (norm ab (D ++ L)))) eqn:Ec; [|exact E1].
    apply andb_true_iff in Ec as [_ Ec]. apply push_empty_text; [exact R1|]. destruct (norm ab (D ++ L)); [discriminate | discriminate].
  Qed.

  (* ... or all but the last one, which is empty ("x/", "a/b/") *)
  Theorem append_trailing_empty L' : L = L' ++ [[]] -> Forall seg_good L' ->
    sym_append1 start0 fa v0 L = render ab (rds_segs ab (D ++ L)).
  Proof.
    intros -> HF. unfold sym_append1, close1, rds_segs.
    assert (Hfold : forall v o, sym_fold1 start0 fa v o (L' ++ [[]]) =
              let '(v1, o1) := sym_fold1 start0 fa v o L' in sym1 start0 fa v1 []).
    { induction L' as [|s r IHr]; intros v o; cbn [app sym_fold1].
      - destruct (sym1 start0 fa v []); reflexivity.
      - destruct (sym1 start0 fa v s) as [v1 o1]. inversion HF; subst. now apply IHr. }
    rewrite Hfold. destruct (fold_rep start0 ab fa L' HF v0 _ false R0 Hfa) as [R1 _]. rewrite <- norm_app in R1.
    destruct (sym_fold1 start0 fa v0 false L') as [v1 o1]. cbn [fst snd] in *.
    assert (Ed : last_is_dot (D ++ L' ++ [[]]) = false).
    { unfold last_is_dot. rewrite !rev_app_distr. reflexivity. }
    rewrite Ed. cbn [andb].
    assert (En : norm ab (D ++ L' ++ [[]]) = norm ab (D ++ L') ++ [[]]).
    { transitivity (rev (fold_left (step ab) [[]] (rev (norm ab (D ++ L'))))); [rewrite app_assoc; apply norm_app|].
      cbn [fold_left]. unfold step. cbn [is_dot is_dotdot rev]. rewrite rev_involutive. reflexivity. }
    rewrite En. pose proof R1 as (E1 & C1 & N1).
    unfold sym1. cbn [is_dot is_dotdot is_nil negb orb]. rewrite E1 at 1. rewrite (render_empty_iff ab _ C1).
    destruct (nil_segs (norm ab (D ++ L'))) eqn:Ens; cbn [negb andb].
    - destruct (norm ab (D ++ L')); [|discriminate]. rewrite E1. reflexivity.
    - apply push_empty_text; [exact R1|]. destruct (norm ab (D ++ L')); discriminate.
  Qed.
End Append.

(* ---------- the starting state: the (normalised) parent of the base path ---------- *)
Lemma clean_starts_dslash ab D : clean D -> starts_dslash (render ab D) = false.
Proof.
  intros C. destruct D as [|s D]; [destruct ab; reflexivity|].
  destruct (clean_head_join (s :: D) C ltac:(discriminate)) as (c & r & E & Hc). unfold render. rewrite E.
  destruct ab; cbn [app starts_dslash]; [rewrite Hc, andb_false_r; reflexivity|]. rewrite Hc. destruct r; reflexivity.
Qed.

Lemma parent_text_clean bp : none_of [QM; HASH] bp -> clean (removelast (segs bp)) ->
  parent_or_empty_text1 bp = render (is_abs bp) (removelast (segs bp)).
Proof.
  intros H C. unfold parent_or_empty_text1, parent_text. destruct (path_is_empty bp) eqn:E.
  - destruct bp as [|c [|d r]]; try discriminate; [reflexivity|]. cbn [path_is_empty] in E. unfold segs, is_abs. rewrite E. reflexivity.
  - cbv zeta. destruct (removelast (segs bp)) as [|s0 r0] eqn:ED.
    + cbn [nil_segs]. destruct (is_abs bp); reflexivity.
    + cbn [nil_segs]. assert (Hse : single_empty (s0 :: r0) = false).
      { destruct s0 as [|c0 s0']; [exfalso; apply (clean_no_empty _ C); left; reflexivity|]. reflexivity. }
      rewrite Hse, andb_false_r. reflexivity.
Qed.

Lemma normalize1_clean fa ab D : clean D -> normalize1 false fa (render ab D) = render ab (norm ab D) /\ Rep ab (render ab (norm ab D)) (norm ab D).
Proof.
  intros C. destruct (segs_render ab D C) as [Es Ea].
  assert (Cn : clean (norm ab D)).
  { unfold clean in *. rewrite Forall_forall in *. intros x Hx. apply C. now apply norm_sub in Hx. }
  split; [|split; [reflexivity | split; [exact Cn | apply norm_normal]]].
  rewrite normalize1_is_render. unfold shield_segs, shield_of. rewrite !Es, !Ea.
  destruct (norm ab D) as [|s n] eqn:En; [reflexivity|]. rewrite <- En in *.
  destruct (clean_head_join _ Cn ltac:(rewrite En; discriminate)) as (c & r & E & Hc). rewrite E, Hc, andb_false_r. reflexivity.
Qed.

(* ---------- RFC 3986 5.2.3: the merged path ---------- *)
Lemma go_noslash x : noslash x -> forall acc cur,
  (fix go (l acc cur : str) {struct l} : str :=
     match l with [] => acc | c :: r => if is c SLASH then go r (acc ++ cur ++ [c]) [] else go r acc (cur ++ [c]) end) x acc cur = acc.
Proof.
  induction 1 as [|c x Hc _ IH]; intros acc cur; [reflexivity|]. apply is_false in Hc. rewrite Hc. apply IH.
Qed.
Lemma go_app_slash A x : forall acc cur,
  (fix go (l acc cur : str) {struct l} : str :=
     match l with [] => acc | c :: r => if is c SLASH then go r (acc ++ cur ++ [c]) [] else go r acc (cur ++ [c]) end) (A ++ SLASH :: x) acc cur =
  (fix go (l acc cur : str) {struct l} : str :=
     match l with [] => acc | c :: r => if is c SLASH then go r (acc ++ cur ++ [c]) [] else go r acc (cur ++ [c]) end) x (acc ++ cur ++ A ++ [SLASH]) [].
Proof.
  induction A as [|c A IH]; intros acc cur; cbn [app].
  - change (is SLASH SLASH) with true. cbv iota. reflexivity.
  - destruct (is c SLASH) eqn:Ec.
    + apply is_true in Ec. subst c. rewrite IH. f_equal. rewrite <- !app_assoc. reflexivity.
    + rewrite IH. f_equal. rewrite <- !app_assoc. reflexivity.
Qed.
Lemma dir_of_noslash x : noslash x -> dir_of x = [].
Proof. intros H. unfold dir_of. now apply go_noslash. Qed.
Lemma dir_of_slash A x : noslash x -> dir_of (A ++ SLASH :: x) = A ++ [SLASH].
Proof. intros H. unfold dir_of. rewrite go_app_slash, go_noslash by exact H. reflexivity. Qed.

Lemma join_app (a b : list seg) : a <> [] -> b <> [] -> join (a ++ b) = join a ++ SLASH :: join b.
Proof.
  intros Ha Hb. induction a as [|s a IH]; [contradiction|]. destruct a as [|t r].
  - cbn [app]. destruct b; [contradiction | reflexivity].
  - change ((s :: t :: r) ++ b) with (s :: ((t :: r) ++ b)).
    change (join (s :: (t :: r) ++ b)) with (s ++ SLASH :: join ((t :: r) ++ b)). rewrite IH by discriminate.
    change (join (s :: t :: r)) with (s ++ SLASH :: join (t :: r)). rewrite <- app_assoc. reflexivity.
Qed.

(* dir_of on a path: everything up to the last segment *)
Lemma dir_of_path bp : none_of [QM; HASH] bp ->
  dir_of bp = if nil_segs (removelast (segs bp)) then (if is_abs bp then [SLASH] else []) else render (is_abs bp) (removelast (segs bp)) ++ [SLASH].
Proof.
  intros H. destruct (path_is_empty bp) eqn:E.
  - destruct bp as [|c [|d r]]; try discriminate; [reflexivity|]. cbn [path_is_empty] in E. unfold segs, is_abs. rewrite E. apply is_true in E. subst c. reflexivity.
  - destruct (nonempty_decomp bp H E) as (pfx & l' & x & Hpfx & Epfx & El & Ev & Hs & Hf).
    rewrite El, removelast_last.
    assert (Hx : noslash x).
    { pose proof (segs_noslash bp) as Hn. rewrite El in Hn. apply Forall_app in Hn as [_ Hn]. now inversion Hn. }
    assert (Hcase : l' = [] \/ l' <> []) by (destruct l'; [left; reflexivity | right; discriminate]).
    destruct Hcase as [El'|Hl'].
    + rewrite El'. cbn [nil_segs]. set (ab := is_abs bp) in *. rewrite Ev, (p_split pfx l' x Hf), El'. cbn [joinS concat map]. rewrite app_nil_r.
      destruct Hpfx as [E1|E1]; rewrite E1 in *.
      * cbn [app]. rewrite dir_of_noslash by exact Hx. destruct ab; [discriminate Epfx | reflexivity].
      * change ([SLASH] ++ x) with ([] ++ SLASH :: x). rewrite dir_of_slash by exact Hx. destruct ab; [reflexivity | discriminate Epfx].
    + replace (nil_segs l') with false by (destruct l'; [contradiction | reflexivity]). rewrite Ev at 1. rewrite (p_split pfx l' x Hf), (IterAll.joinS_join l' Hl').
      replace ((pfx ++ join l' ++ [SLASH]) ++ x) with ((pfx ++ join l') ++ SLASH :: x) by (rewrite <- !app_assoc; reflexivity).
      rewrite dir_of_slash by exact Hx. unfold render. rewrite Epfx. reflexivity.
Qed.

(* push onto a non-empty accumulated path: no colon condition *)
Lemma push_text_nonempty start0 ab fa v l seg : Rep ab v l -> l <> [] -> seg <> [] -> noslash seg ->
  push start0 fa v seg = render ab (l ++ [seg]).
Proof.
  intros (-> & C & N) Hl Hs Hn. unfold push.
  assert (Hns : nil_segs l = false) by (destruct l; [contradiction | reflexivity]).
  rewrite (render_nil_iff ab l C), Hns, !andb_false_r. rewrite (render_empty_iff ab l C), Hns. cbn [andb].
  rewrite (render_ends_dotslash ab l Hl (clean_noslash l C) (normal_no_dot ab l N)), andb_false_r.
  symmetry. exact (render_snoc ab l seg Hl).
Qed.
