(* Property C06 -- reference resolution implements RFC 3986 section 5.2.  Statements only.
   Spec: Rfc.v (rfc_target = 5.2.2 on components, rds = 5.2.4 on segment lists, merge = 5.2.3).
   Proved refinement: the branch "reference with no scheme, no authority and an empty path" of the model
   of resolve (component selection incl. query inheritance) for ALL well-formed bases and references.
   The branches that remove dot segments (scheme / authority / absolute path / merge) are carried by the
   correspondence run and the independent RFC oracle (tools/spec.py): partial. *)
From Coq Require Import List NArith Bool Arith.
Import ListNotations.
Require Import V.Regex V.Parse V.ParseProofs V.PathSpec V.Splice V.Setters V.Reference V.Rfc V.ResolveProofs.
Local Open Scope nat_scope.

Theorem C06_empty_path_branch_partial : forall (pb pr : parts) (s : str),
  wf_parts pb -> wf_parts pr -> p_scheme pb = Some s ->
  p_scheme pr = None -> p_authority pr = None -> p_path pr = [] ->
  resolve (compose pr) (compose pb) = Some (compose (rfc_target pb pr)).
Proof.
  intros pb pr s Wb Wr Hbs Hrs Hra Hrp.
  rewrite <- (target_empty_is_rfc pb pr s Hbs Hrs Hra Hrp). now apply resolve_empty_path.
Qed.
Print Assumptions C06_empty_path_branch_partial.

(* the 5.2.4 output is always a normal form: no ".", ".." only as a leading run of a relative path *)
Theorem C06_rds_normal : forall ab l, normal ab (rds_segs ab l).
Proof. exact rds_segs_normal. Qed.
Print Assumptions C06_rds_normal.

(* and leaves dot-free paths alone *)
Theorem C06_rds_plain : forall ab l, plain l -> rds_segs ab l = l.
Proof. exact rds_segs_plain. Qed.
Print Assumptions C06_rds_plain.

(* non-vacuity and a sample of the other branches (RFC 3986 5.4.1): base http://a/b/c/d;p?q *)
Definition B := [104;116;116;112;58;47;47;97;47;98;47;99;47;100;59;112;63;113]%N.
Example C06_examples :
  resolve [46;46;47;103]%N B = Some [104;116;116;112;58;47;47;97;47;98;47;103]%N            (* ../g  -> http://a/b/g *)
  /\ resolve [63;121]%N B = Some [104;116;116;112;58;47;47;97;47;98;47;99;47;100;59;112;63;121]%N   (* ?y -> http://a/b/c/d;p?y *)
  /\ resolve [35;115]%N B = Some [104;116;116;112;58;47;47;97;47;98;47;99;47;100;59;112;63;113;35;115]%N. (* #s *)
Proof. vm_compute. repeat split; reflexivity. Qed.
