(* Property C06 -- reference resolution implements RFC 3986 section 5.2.  Statements only.
   Spec: Rfc.v (rfc_target = 5.2.2 on components, rds = 5.2.4 on segment lists, merge = 5.2.3).
   Proved refinement, for ALL well-formed bases and references:
   - the branch "no scheme, no authority, empty path" (component selection incl. query inheritance);
   - the three branches that remove dot segments without merging (reference with a scheme, with an authority,
     with an absolute path): exact text-level result rds_impl for all inputs, and equality with the RFC target
     under the exact condition rds_exact (implied by "no empty segment except the last"); outside that condition
     the code departs from 5.2.4 -- witness C06_K_R2_witness, recorded class K_R2.
   - the merge branch: exact text-level result merge_impl for all inputs (C06_merge_branch_exact), equal to 5.2.3 +
     5.2.4 when no segment before the last is empty in the base directory and in the reference path
     (C06_merge_branch_partial); totality of all five branches (C06_resolve_total);
   - all branches in one statement: C06_resolution_is_rfc_partial.
   "partial": the property text has no exclusion; on the excluded inputs (an empty segment before the last one) the
   code is known to depart from the RFC (K_R2), which the check reports as a known finding. *)
From Coq Require Import List NArith Bool Arith.
Import ListNotations.
Require Import V.Regex V.Parse V.ParseProofs V.PathSpec V.Splice V.Setters V.SetPath V.Reference V.C05Proofs V.Rfc V.ResolveProofs V.NormProofs V.ResolveProofs2 V.SetAuth V.SetScheme V.SymProofs V.ParentProofs V.ResolveProofs3 V.MergeProofs V.ResolveProofs4 V.Abnf V.BridgePaths V.C02Bridge V.ResolveValid.
Local Open Scope nat_scope.

Theorem C06_empty_path_branch_partial : forall (pb pr : parts) (s : str),
  wf_parts pb -> wf_parts pr -> p_scheme pb = Some s ->
  p_scheme pr = None -> p_authority pr = None -> p_path pr = [] ->
  resolve (compose pr) (compose pb) = Some (compose (rfc_target pb pr)).
Proof.
  intros pb pr s Wb Wr Hbs Hrs Hra Hrp.
  rewrite <- (target_empty_is_rfc pb pr s Hbs Hrs Hra Hrp). now apply resolve_empty_path.
Qed.
Print Assumptions C06_empty_path_branch_partial.

(* the branches that remove dot segments without merging: the reference has a scheme, or an authority, or an
   absolute path.  Exact result of the model for ALL well-formed inputs: the RFC target with its path computed by
   rds_impl (the text-level function that pm_normalize + the closing push refine: spec walk `norm`, "./" shield,
   trailing "/" after a final dot segment) *)
Theorem C06_no_merge_branches_exact : forall (pb pr : parts) (s : str),
  wf_parts pb -> wf_parts pr -> p_scheme pb = Some s ->
  (p_scheme pr <> None \/ p_authority pr <> None \/ is_abs (p_path pr) = true) ->
  resolve (compose pr) (compose pb) =
  Some (compose (with_path (rfc_target pb pr) (rds_impl false (has (p_authority (rfc_target pb pr))) (p_path pr)))).
Proof. exact resolve_no_merge. Qed.
Print Assumptions C06_no_merge_branches_exact.

(* ... and that is the RFC 3986 5.2.2 target whenever rds_exact holds: the normalised path starts with an empty
   segment followed by another one only when the result is absolute and has an authority (else the code writes a
   "./" shield), and it is not the single empty segment after a final dot segment *)
Theorem C06_no_merge_branches_partial : forall (pb pr : parts) (s : str),
  wf_parts pb -> wf_parts pr -> p_scheme pb = Some s ->
  (p_scheme pr <> None \/ p_authority pr <> None \/ is_abs (p_path pr) = true) ->
  rds_exact (has (p_authority (rfc_target pb pr))) (p_path pr) ->
  resolve (compose pr) (compose pb) = Some (compose (rfc_target pb pr)).
Proof. exact resolve_no_merge_rfc. Qed.
Print Assumptions C06_no_merge_branches_partial.

(* a simple sufficient condition: the reference path has no empty segment except possibly the last one *)
Theorem C06_rds_exact_simple : forall fa v, (forall l' x, segs v = l' ++ [x] -> ~ In [] l') -> rds_exact fa v.
Proof. exact rds_exact_simple. Qed.
Print Assumptions C06_rds_exact_simple.

(* the condition cannot be dropped: s://h//. resolves to s://h/ where 5.2.4 gives s://h// (class K_R2) *)
Definition K_R2_ref : parts := {| p_scheme := Some [115%N]; p_authority := Some [104%N]; p_path := [47;47;46]%N; p_query := None; p_fragment := None |}.
Theorem C06_K_R2_witness :
  resolve (compose K_R2_ref) (compose K_R2_ref) = Some [115;58;47;47;104;47]%N /\
  compose (rfc_target K_R2_ref K_R2_ref) = [115;58;47;47;104;47;47]%N.
Proof. vm_compute. split; reflexivity. Qed.
Print Assumptions C06_K_R2_witness.

(* the merge branch (no scheme, no authority, a relative path with at least one character): exact text-level result
   of the index-level model for ALL well-formed inputs.  The code does not build the string of 5.2.3; it takes the
   parent of the base path (parent_or_empty_text1: the text up to the last '/', "/./" for "//x"), normalises it in
   place, pushes the segments of the reference one by one symbolically ('.' skipped, '..' pops, sym_append1) and
   closes with an empty segment after a final dot segment; the result is written with set_path's disambiguation. *)
Theorem C06_merge_branch_exact : forall (pb pr : parts) (s : str) (c : N) (t : str),
  wf_parts pb -> wf_parts pr -> p_scheme pb = Some s -> p_scheme pr = None -> p_authority pr = None ->
  p_path pr = c :: t -> is c SLASH = false ->
  let p1 := with_scheme pr (Some s) (scheme_fix_path pr (Some s)) in
  let p2 := with_auth p1 (p_authority pb) (auth_path p1 (p_authority pb)) in
  resolve (compose pr) (compose pb) = Some (compose (with_path p2 (fix_path p2 (merge_impl pb pr s)))) /\
  none_of [QM; HASH] (merge_impl pb pr s).
Proof. intros pb pr s c t Wb Wr Hbs Hrs Hra Hp Hc. exact (resolve_merge pb pr s Wb Wr Hbs Hrs Hra c t Hp Hc). Qed.
Print Assumptions C06_merge_branch_exact.

(* ... and that is the RFC 3986 5.2.2 target (5.2.3 merge, then 5.2.4) when no segment before the last one is empty
   in the base path and in the reference path: the representation invariant is that the accumulated path is the
   rendering of the stack of the specification walk `norm` (non-empty, dot-free segments after a run of ".."
   when relative); push / pop / the skipped "." / the closing empty segment are matched step by step *)
Theorem C06_merge_branch_partial : forall (pb pr : parts) (s : str) (c : N) (t : str),
  wf_parts pb -> wf_parts pr -> p_scheme pb = Some s -> p_scheme pr = None -> p_authority pr = None ->
  p_path pr = c :: t -> is c SLASH = false ->
  clean (removelast (segs (p_path pb))) -> no_inner_empty (split (c :: t)) ->
  resolve (compose pr) (compose pb) = Some (compose (rfc_target pb pr)).
Proof. intros pb pr s c t Wb Wr Hbs Hrs Hra Hp Hc. exact (resolve_merge_rfc pb pr s Wb Wr Hbs Hrs Hra c t Hp Hc). Qed.
Print Assumptions C06_merge_branch_partial.

(* THE PROPERTY, all five branches in one statement: for every well-formed base with a scheme and every well-formed
   reference, if no segment of the reference path other than its last one is empty and -- when paths are merged -- no
   segment of the base path other than its last one is empty, the index-level model of resolve returns, without panic,
   exactly the RFC 3986 5.2.2 target.  The excluded inputs are the recorded class K_R2 (C06_K_R2_witness); on them
   the exact results are C06_no_merge_branches_exact / C06_merge_branch_exact. *)
Theorem C06_resolution_is_rfc_partial : forall (pb pr : parts) (s : str),
  wf_parts pb -> wf_parts pr -> p_scheme pb = Some s ->
  no_empty_but_last (p_path pr) -> (merges pr -> no_empty_but_last (p_path pb)) ->
  resolve (compose pr) (compose pb) = Some (compose (rfc_target pb pr)).
Proof. exact resolve_is_rfc. Qed.
Print Assumptions C06_resolution_is_rfc_partial.

(* all five branches together: resolution against a base that has a scheme never panics and returns a well-formed
   reference whose authority is the reference's or the base's *)
Theorem C06_resolve_total : forall (pb pr : parts) (s : str), wf_parts pb -> wf_parts pr -> p_scheme pb = Some s ->
  exists p', resolve (compose pr) (compose pb) = Some (compose p') /\ wf_parts p' /\
             (p_authority p' = p_authority pr \/ p_authority p' = p_authority pb).
Proof. exact resolve_total. Qed.
Print Assumptions C06_resolve_total.

(* "the result is a valid URI/IRI of the base's family": at the level of the RFC grammar, resolving ANY URI reference
   (IRI reference) against ANY URI (IRI) returns -- no panic, all five branches, no exclusion -- a string of the
   URI-reference (IRI-reference) language *)
Theorem C06_result_is_valid_URI : forall r b, L (IRI_reference U U) r -> L (IRI U U) b ->
  exists t, resolve r b = Some t /\ L (IRI_reference U U) t.
Proof. exact resolve_in_language_U. Qed.
Print Assumptions C06_result_is_valid_URI.
Theorem C06_result_is_valid_IRI : forall r b, L (IRI_reference I C02Bridge.P) r -> L (IRI I C02Bridge.P) b ->
  exists t, resolve r b = Some t /\ L (IRI_reference I C02Bridge.P) t.
Proof. exact resolve_in_language_I. Qed.
Print Assumptions C06_result_is_valid_IRI.

(* the 5.2.4 output is always a normal form: no ".", ".." only as a leading run of a relative path *)
Theorem C06_rds_normal : forall ab l, normal ab (rds_segs ab l).
Proof. exact rds_segs_normal. Qed.
Print Assumptions C06_rds_normal.

(* and leaves dot-free paths alone *)
Theorem C06_rds_plain : forall ab l, plain l -> rds_segs ab l = l.
Proof. exact rds_segs_plain. Qed.
Print Assumptions C06_rds_plain.

(* non-vacuity and a sample of the other branches (RFC 3986 5.4.1): base http://a/b/c/d;p?q *)
Definition B := [104;116;116;112;58;47;47;97;47;98;47;99;47;100;59;112;63;113]%N.
Example C06_examples :
  resolve [46;46;47;103]%N B = Some [104;116;116;112;58;47;47;97;47;98;47;103]%N            (* ../g  -> http://a/b/g *)
  /\ resolve [63;121]%N B = Some [104;116;116;112;58;47;47;97;47;98;47;99;47;100;59;112;63;121]%N   (* ?y -> http://a/b/c/d;p?y *)
  /\ resolve [35;115]%N B = Some [104;116;116;112;58;47;47;97;47;98;47;99;47;100;59;112;63;113;35;115]%N. (* #s *)
Proof. vm_compute. repeat split; reflexivity. Qed.
