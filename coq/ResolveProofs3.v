(* C06: the merge branch of resolve (reference without scheme and authority, relative non-empty path): exact
   text-level result of the index-level model for ALL well-formed inputs. *)
From Coq Require Import List NArith Bool Arith Lia.
Import ListNotations.
Require Import V.Regex V.Parse V.ParseProofs V.Parse2 V.Parse2Proofs V.ScanValues V.PathSpec V.Splice V.Setters V.Push
  V.SetPath V.SetAuth V.SetScheme V.Iter V.PathQ V.PathMut V.PathMutProofs V.Reference V.SetFragment V.C05Proofs V.GetProofs V.Rfc V.PushWf V.RefPath
  V.C12Proofs V.NormProofs V.PopProofs V.ParentProofs V.SymProofs.
Local Open Scope nat_scope.

Lemma none_of_render_prefix v : none_of [QM; HASH] v -> none_of [QM; HASH] (parent_or_empty_text1 v).
Proof.
  intros H.
  assert (Hsl : ~ In SLASH [QM; HASH]) by (simpl; unfold SLASH, QM, HASH; intros [E|[E|[]]]; discriminate).
  assert (Hdt : ~ In DOT [QM; HASH]) by (simpl; unfold DOT, QM, HASH; intros [E|[E|[]]]; discriminate).
  unfold parent_or_empty_text1, parent_text. destruct (path_is_empty v) eqn:E.
  - destruct (is_abs v); repeat constructor; exact Hsl.
  - cbv zeta. destruct (nil_segs (removelast (segs v))).
    + destruct (is_abs v); repeat constructor; exact Hsl.
    + destruct (is_abs v && single_empty (removelast (segs v))); [repeat constructor; assumption|].
      destruct (render_removelast_prefix v H E) as (k & ->). now apply none_of_firstn.
Qed.

Lemma seg_texts_segs v : none_of [QM; HASH] v -> seg_texts v = segs v.
Proof. apply segments_are_the_split. Qed.
Lemma segs_args v : none_of [QM; HASH] v -> Forall seg_arg (segs v).
Proof.
  intros H. pose proof (segs_noslash v) as H1. pose proof (segs_none_of _ v H) as H2.
  rewrite Forall_forall in *. intros s Hs. split; auto.
Qed.

Lemma dir_match {T} (A : option str) (X Y : T) : (match A with Some _ => X | None => Y end) = if has A then X else Y.
Proof. destruct A; reflexivity. Qed.

Section Merge.
  Variables pb pr : parts.
  Variable s : str.
  Hypothesis Wb : wf_parts pb.
  Hypothesis Wr : wf_parts pr.
  Hypothesis Hbs : p_scheme pb = Some s.
  Hypothesis Hrs : p_scheme pr = None.
  Hypothesis Hra : p_authority pr = None.
  Variable c : N. Variable t : str.
  Hypothesis Hrp : p_path pr = c :: t.
  Hypothesis Hc : is c SLASH = false.

  Local Notation fa := (has (p_authority pb)).
  Local Notation p1 := (with_scheme pr (Some s) (scheme_fix_path pr (Some s))).
  Local Notation p2 := (with_auth p1 (p_authority pb) (auth_path p1 (p_authority pb))).
  Definition q0 : parts := {| p_scheme := Some s; p_authority := None; p_path := []; p_query := None; p_fragment := None |}.
  Local Notation q1 := (with_auth q0 (p_authority pb) (auth_path q0 (p_authority pb))).

  Lemma sok : forall x, Some s = Some x -> x <> [] /\ none_of [COLON; SLASH; QM; HASH] x.
  Proof. intros x E. injection E as <-. apply (wf_scheme pb Wb). exact Hbs. Qed.
  Lemma aok : forall a, p_authority pb = Some a -> none_of [SLASH; QM; HASH] a.
  Proof. intros a E. apply (wf_auth pb Wb). exact E. Qed.
  Lemma Wp1 : wf_parts p1. Proof. apply set_scheme_wf; auto using sok. Qed.
  Lemma Wp2 : wf_parts p2. Proof. apply set_authority_wf; [exact Wp1 | exact aok]. Qed.
  Lemma Wq0 : wf_parts q0.
  Proof.
    constructor; cbn [q0 p_scheme p_authority p_path p_query p_fragment].
    - intros x E. apply sok. exact E.
    - intros a E. discriminate E.
    - constructor.
    - intros q E. discriminate E.
    - intros E. contradiction.
    - intros _ t0; discriminate.
    - reflexivity.
  Qed.
  Lemma Wq1 : wf_parts q1. Proof. apply set_authority_wf; [exact Wq0 | exact aok]. Qed.
  Lemma from_scheme_q0 : from_scheme s = compose q0.
  Proof. unfold from_scheme, compose, q0. cbn [p_scheme p_authority p_path p_query p_fragment opt_post opt_pre tail_of app]. rewrite app_nil_r. reflexivity. Qed.
  Lemma path_p1 : p_path p1 = p_path pr.
  Proof. unfold scheme_fix_path. cbn [with_scheme p_path]. destruct (p_scheme pr), (p_authority pr); reflexivity. Qed.

  (* the base directory the code starts from, and the merged path *)
  Definition base_dir : str :=
    if fa && path_is_empty (p_path pb) then fix_path q1 [SLASH]
    else normalize1 false fa (fix_path q1 (parent_or_empty_text1 (p_path pb))).
  Definition merge_impl : str := sym_append1 false fa base_dir (segs (p_path p2)).

  Lemma s0_q : forall v, negb (has (p_scheme (with_path q1 v))) && negb (has (p_authority (with_path q1 v))) = false.
  Proof. reflexivity. Qed.
  Lemma fa_q : forall v, has (p_authority (with_path q1 v)) = fa.
  Proof. reflexivity. Qed.

  Lemma Hdir : (match p_authority pb with
                    | Some _ => if path_is_empty (p_path pb) then set_path (compose q1) [SLASH]
                                else bind (pq_parent_or_empty_text (p_path pb)) (fun par => bind (set_path (compose q1) par) (fun pb0 => option_map pm_buf (pm_normalize (path_mut pb0))))
                    | None => bind (pq_parent_or_empty_text (p_path pb)) (fun par => bind (set_path (compose q1) par) (fun pb0 => option_map pm_buf (pm_normalize (path_mut pb0))))
                    end) = Some (compose (with_path q1 base_dir)) /\ wf_parts (with_path q1 base_dir).
  Proof.
    assert (Hpar : bind (pq_parent_or_empty_text (p_path pb)) (fun par => bind (set_path (compose q1) par) (fun pb0 => option_map pm_buf (pm_normalize (path_mut pb0))))
                     = Some (compose (with_path q1 (normalize1 false fa (fix_path q1 (parent_or_empty_text1 (p_path pb)))))) /\
                     wf_parts (with_path q1 (normalize1 false fa (fix_path q1 (parent_or_empty_text1 (p_path pb)))))).
      { rewrite (parent_or_empty_spec _ (wf_path pb Wb)). cbn [bind]. rewrite (set_path_spec q1 _ Wq1). cbn [bind].
        pose proof (set_path_wf q1 _ Wq1 (none_of_render_prefix _ (wf_path pb Wb))) as Wq2.
        destruct (ref_normalize_spec _ Wq2) as [En Wn]. unfold ref_normalize in En. rewrite En. split; [reflexivity | exact Wn]. }
      unfold base_dir. rewrite dir_match. revert Hpar. destruct (has (p_authority pb)) eqn:Efa; intros Hpar; cbn [andb].
      - destruct (path_is_empty (p_path pb)).
        + rewrite (set_path_spec q1 _ Wq1). split; [reflexivity|]. apply set_path_wf; [exact Wq1|].
          repeat constructor; simpl; unfold SLASH, QM, HASH; intros [E|[E|[]]]; discriminate.
        + exact Hpar.
      - exact Hpar. 
  Qed.
  Lemma merge_impl_noqh : none_of [QM; HASH] merge_impl.
  Proof.
    destruct Hdir as [_ Wd]. destruct (ref_symappend_spec _ Wd (segs (p_path p2)) (segs_args _ (wf_path p2 Wp2))) as [_ Wa].
    exact (wf_path _ Wa).
  Qed.

  Theorem resolve_merge :
    resolve (compose pr) (compose pb) = Some (compose (with_path p2 (fix_path p2 merge_impl))) /\ none_of [QM; HASH] merge_impl.
  Proof.
    split; [|exact merge_impl_noqh].
    unfold resolve. rewrite (reference_parts_compose pr Wr). unfold expected. cbn [r_scheme r_authority]. rewrite Hrs, Hra. cbn [option_map].
    rewrite (abs_scheme_compose pb Wb s Hbs), (set_scheme_spec pr (Some s) Wr). cbn [bind].
    rewrite (get_path_compose p1 Wp1), path_p1, Hrp. cbn [is_abs]. rewrite Hc. cbn [negb andb].
    assert (Hpe : path_is_empty (c :: t) = false) by (destruct t; [cbn [path_is_empty]; exact Hc | reflexivity]).
    rewrite Hpe. cbn [andb].
    rewrite (get_authority_compose pb Wb), (set_authority_spec p1 (p_authority pb) Wp1).
    change (with_auth p1 (p_authority pb) (auth_fix_path (p_path p1) (tail_of p1) (p_authority pb) (p_authority p1))) with p2. cbn [bind].
    rewrite from_scheme_q0, (set_authority_spec q0 (p_authority pb) Wq0).
    change (with_auth q0 (p_authority pb) (auth_fix_path (p_path q0) (tail_of q0) (p_authority pb) (p_authority q0))) with q1. cbn [bind].
    rewrite (get_path_compose pb Wb), (get_path_compose p2 Wp2), (seg_texts_segs _ (wf_path p2 Wp2)).
    pose proof Hdir as Hdir.
    destruct Hdir as [Ed Wd]. rewrite Ed. cbn [bind].
    destruct (ref_symappend_spec _ Wd (segs (p_path p2)) (segs_args _ (wf_path p2 Wp2))) as [Ea Wa].
    unfold ref_symappend in Ea. destruct (pm_symbolic_append (path_mut (compose (with_path q1 base_dir))) (segs (p_path p2))) as [h|]; [|discriminate].
    cbn [option_map] in Ea. injection Ea as Ea. cbn [bind]. rewrite Ea.
    erewrite get_path_compose; [|exact Wa].
    rewrite (set_path_spec p2 _ Wp2). reflexivity.
  Qed.
End Merge.

(* ---------- all five branches: resolve is total on well-formed inputs and keeps well-formedness ---------- *)
Require Import V.ResolveProofs V.ResolveProofs2.
Theorem resolve_total pb pr s : wf_parts pb -> wf_parts pr -> p_scheme pb = Some s ->
  exists p', resolve (compose pr) (compose pb) = Some (compose p') /\ wf_parts p' /\
             (p_authority p' = p_authority pr \/ p_authority p' = p_authority pb).
Proof.
  intros Wb Wr Hbs.
  destruct (p_scheme pr) as [sr|] eqn:Hrs.
  - eexists. split; [apply (resolve_scheme pb pr Wr sr Hrs)|].
    pose proof (remove_dot_segments_wf pr Wr) as W. rewrite Hrs in W. split; [exact W | left; reflexivity].
  - destruct (p_authority pr) as [a|] eqn:Hra.
    + eexists. split; [apply (resolve_authority pb pr s Wb Wr Hbs a Hrs Hra)|].
      pose proof (remove_dot_segments_wf _ (W1' pb pr s Wb Wr Hbs)) as W. rewrite (path1' pr s) in W.
      cbn [with_scheme p_scheme p_authority has negb andb] in W. rewrite Hra in W. split; [exact W | left; cbn [with_path with_scheme p_authority]; exact Hra].
    + destruct (p_path pr) as [|c t] eqn:Hp.
      * eexists. split; [apply (resolve_empty_path pb pr s Wb Wr Hbs Hrs Hra Hp)|].
        assert (Wt : wf_parts (target_empty pb pr s)).
        { rewrite (target_empty_is_rfc pb pr s Hbs Hrs Hra Hp). unfold rfc_target. rewrite Hrs, Hra, Hp.
          destruct Wb as [B1 B2 B3 B4 B5 B6 B7], Wr as [R1 R2 R3 R4 R5 R6 R7].
          constructor; cbn [p_scheme p_authority p_path p_query p_fragment]; [exact B1 | exact B2 | exact B3 | | exact B5 | exact B6 |].
          - intros q E. destruct (p_query pr) as [q0|] eqn:Eq; [injection E as <-; now apply R4 | now apply B4].
          - intros E1. rewrite Hbs in E1. discriminate. }
        split; [exact Wt | right; reflexivity].
      * destruct (is c SLASH) eqn:Hc.
        -- apply is_true in Hc. subst c. eexists. split; [apply (resolve_abs_path pb pr s Wb Wr Hbs t Hrs Hra Hp)|].
           pose proof (remove_dot_segments_wf _ (W2' pb pr s Wb Wr Hbs)) as W. rewrite (path2' pb pr s t Hra Hp) in W. split; [exact W | right; reflexivity].
        -- destruct (resolve_merge pb pr s Wb Wr Hbs Hrs Hra c t Hp Hc) as [E Hq]. eexists. split; [exact E|].
           split; [apply set_path_wf; [apply (Wp2 pb pr s Wb Wr Hbs) | exact Hq] | right; reflexivity].
Qed.
