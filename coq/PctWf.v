(* Percent-decoding (the model of pct_str::Bytes) never fails on a valid component: every component
   language of RFC 3986/3987 is included in (non-'%' | '%' HEXDIG HEXDIG)*  -- inclusions by reflection,
   totality of `dec` on that shape by induction. *)
From Coq Require Import List NArith Bool Arith Lia.
Import ListNotations.
Require Import V.Regex V.Bisim V.Abnf V.Parse V.ParseProofs V.Bridge V.Factor V.BridgePaths V.C02Bridge V.Cmp.
Local Open Scope nat_scope.

Definition not_pct : cls := [(0,36); (38,MAXC)]%N.
Definition ESC : re := Cat (ch 37) (Cat (Cls HEXDIG) (Cls HEXDIG)).
Definition PCTWF : re := Star (Alt (Cls not_pct) ESC).

Lemma hexval_hexdig c : in_cls c HEXDIG = true -> exists v, hexval c = Some v.
Proof.
  unfold in_cls, HEXDIG, DIGIT, in_rng, hexval. cbn [app existsb fst snd]. intros H.
  destruct ((48 <=? c)%N && (c <=? 57)%N) eqn:E1; [eauto|].
  destruct ((65 <=? c)%N && (c <=? 70)%N) eqn:E2; [eauto|].
  destruct ((97 <=? c)%N && (c <=? 102)%N) eqn:E3; [eauto|].
  simpl in H. discriminate.
Qed.
Lemma not_pct_ne c : in_cls c not_pct = true -> is c PCT = false.
Proof.
  unfold in_cls, not_pct, in_rng, is, PCT, MAXC. simpl. rewrite !orb_true_iff, !andb_true_iff, !N.leb_le.
  intros H. apply N.eqb_neq. lia.
Qed.

Lemma dec_fuel_total s : star_lang (L (Alt (Cls not_pct) ESC)) s -> forall f, length s < f -> exists s', dec_fuel f s = Some s'.
Proof.
  induction 1 as [|s1 s2 H1 _ IH]; intros f Hf.
  - destruct f; [simpl in Hf; lia|]. simpl. eauto.
  - destruct H1 as [(c & -> & Hc) | H1].
    + destruct f; [simpl in Hf; lia|]. simpl. rewrite (not_pct_ne c Hc).
      destruct (IH f) as (r & ->); [simpl in Hf; lia|]. simpl. eauto.
    + destruct H1 as (x0 & y0 & -> & (c0 & -> & Hc0) & (x & y & -> & (a & -> & Ha) & (b & -> & Hb))).
      assert (c0 = 37%N).
      { unfold in_cls, in_rng in Hc0. cbn [existsb fst snd] in Hc0. rewrite orb_false_r, andb_true_iff, !N.leb_le in Hc0. lia. }
      subst c0. cbn [app] in *.
      destruct f; [simpl in Hf; lia|]. cbn [dec_fuel].
      replace (is 37%N PCT) with true by reflexivity.
      destruct (hexval_hexdig a Ha) as (va & ->). destruct (hexval_hexdig b Hb) as (vb & ->).
      destruct (IH f) as (r & ->); [simpl in Hf; lia|]. simpl. eauto.
Qed.
Theorem dec_total s : L PCTWF s -> exists s', dec s = Some s'.
Proof. intros H. apply dec_fuel_total; [exact H | lia]. Qed.

Ltac refl := vm_cast_no_check (eq_refl true).
Lemma chk_seg_U : incl_check (isegment U) PCTWF = true. Proof. refl. Qed.
Lemma chk_seg_I : incl_check (isegment I) PCTWF = true. Proof. refl. Qed.
Lemma chk_ui_U : incl_check (iuserinfo U) PCTWF = true. Proof. refl. Qed.
Lemma chk_ui_I : incl_check (iuserinfo I) PCTWF = true. Proof. refl. Qed.
Lemma chk_host_U : incl_check (ihost U) PCTWF = true. Proof. refl. Qed.
Lemma chk_host_I : incl_check (ihost I) PCTWF = true. Proof. refl. Qed.
Lemma chk_q_U : incl_check (iquery U U) PCTWF = true. Proof. refl. Qed.
Lemma chk_q_I : incl_check (iquery I C02Bridge.P) PCTWF = true. Proof. refl. Qed.
Lemma chk_f_U : incl_check (ifragment U) PCTWF = true. Proof. refl. Qed.
Lemma chk_f_I : incl_check (ifragment I) PCTWF = true. Proof. refl. Qed.

Theorem dec_total_component r s : incl_check r PCTWF = true -> L r s -> exists s', dec s = Some s'.
Proof. intros C H. apply dec_total. exact (incl_check_sound _ _ C s H). Qed.
