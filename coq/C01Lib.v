(* Glue used by the generated per-type C01 files: atom de-duplication (unverified, only affects
   speed: the checker re-verifies inclusion), the certificate check, and an unverified breadth-first
   search for a shortest distinguishing word (used only to produce replays). *)
From Coq Require Import List NArith Bool.
Import ListNotations.
Require Import V.Regex V.Bisim V.Abnf.
Open Scope N_scope.

Fixpoint ins_rng (r : N * N) (l : cls) : cls :=
  match l with [] => [r] | x :: l' =>
    match N.compare (fst r) (fst x) with
    | Lt => r :: l | Gt => x :: ins_rng r l'
    | Eq => match N.compare (snd r) (snd x) with Lt => r :: l | Eq => l | Gt => x :: ins_rng r l' end end end.
Definition dedupe (l : cls) : cls := fold_right ins_rng [] l.
Definition all_atoms (d : dfa) (r : re) : cls := dedupe (dfa_all_atoms d ++ atoms r).
Definition cert (d : dfa) (r : re) := explore_dfa_re d r (all_atoms d r).
Definition check (d : dfa) (r : re) : bool := cert_dfa_re d r (all_atoms d r) (cert d r).

Theorem check_sound d r : check d r = true -> forall w, dfa_accepts d w = true <-> L r w.
Proof. unfold check. intros H. apply (dfa_re_equiv d r _ _ H). Qed.

Section FD.
  Variables SA SB : Type.
  Variable stepA : SA -> N -> SA. Variable accA : SA -> bool. Variable eqbA : SA -> SA -> bool.
  Variable stepB : SB -> N -> SB. Variable accB : SB -> bool. Variable eqbB : SB -> SB -> bool.
  Variable rel : bool -> bool -> bool.
  Variable rs : list N.
  Fixpoint bfs (fuel : nat) (seen : list (SA * SB)) (queue : list ((SA * SB) * list N)) : option (list N) :=
    match fuel with O => None | S f =>
      match queue with
      | [] => None
      | ((a, b), w) :: q =>
        if negb (rel (accA a) (accB b)) then Some (rev w)
        else
          let nxt := map (fun c => ((stepA a c, stepB b c), c :: w)) rs in
          let '(seen', q') := fold_left (fun '(s, q) x =>
              if memV _ _ eqbA eqbB (fst (fst x)) (snd (fst x)) s then (s, q) else (fst x :: s, q ++ [x])) nxt (seen, q) in
          bfs f seen' q'
      end
    end.
End FD.

Definition find_diff (d : dfa) (r : re) : option (list N) :=
  let A0 := all_atoms d r in
  bfs _ _ (d_step d) (d_acc d) d_eqb re_step nullable re_eqb Bool.eqb (reps A0) (N.to_nat 100000)
      [(Some (d_init d), r)] [((Some (d_init d), r), [])].
(* distinguishing word between two tables (C13 inclusions) under an arbitrary relation on acceptance *)
Definition find_diff_dd (rel : bool -> bool -> bool) (d1 d2 : dfa) : option (list N) :=
  let A0 := dedupe (dfa_all_atoms d1 ++ dfa_all_atoms d2) in
  bfs _ _ (d_step d1) (d_acc d1) d_eqb (d_step d2) (d_acc d2) d_eqb rel (reps A0) (N.to_nat 100000)
      [(Some (d_init d1), Some (d_init d2))] [((Some (d_init d1), Some (d_init d2)), [])].

Definition U : cls := [].
Definition I : cls := ucschar_3987.
Definition P : cls := iprivate_3987.

(* ---------- two generated tables against each other (C13) ---------- *)
Definition cert_dd (rel : bool -> bool -> bool) (d1 d2 : dfa) (A0 : cls) (V : list (option N * option N)) : bool :=
  closed _ _ (d_step d1) (d_acc d1) (d_atoms d1) d_eqb (d_step d2) (d_acc d2) (d_atoms d2) d_eqb rel A0 V
         (Some (d_init d1)) (Some (d_init d2)).
Theorem dd_sound rel d1 d2 A0 V : cert_dd rel d1 d2 A0 V = true ->
  forall w, rel (dfa_accepts d1 w) (dfa_accepts d2 w) = true.
Proof.
  intros H w. unfold dfa_accepts.
  exact (closed_sound _ _ (d_step d1) (d_acc d1) (d_atoms d1) d_eqb (d_step d2) (d_acc d2) (d_atoms d2) d_eqb
    d_eqb_eq d_eqb_eq (d_step_equiv d1) (d_step_equiv d2) rel A0 V _ _ H w).
Qed.
Definition explore_dd (d1 d2 : dfa) (A0 : cls) : list (option N * option N) :=
  explore _ _ (d_step d1) d_eqb (d_step d2) d_eqb (reps A0) 100000
          [(Some (d_init d1), Some (d_init d2))] [(Some (d_init d1), Some (d_init d2))].
Definition check_dd (rel : bool -> bool -> bool) (d1 d2 : dfa) : bool :=
  let A0 := dedupe (dfa_all_atoms d1 ++ dfa_all_atoms d2) in cert_dd rel d1 d2 A0 (explore_dd d1 d2 A0).
Theorem check_dd_sound rel d1 d2 : check_dd rel d1 d2 = true ->
  forall w, rel (dfa_accepts d1 w) (dfa_accepts d2 w) = true.
Proof. unfold check_dd. intros H. apply (dd_sound rel d1 d2 _ _ H). Qed.
Print Assumptions check_sound.
Print Assumptions check_dd_sound.
