(* C19 through the authority accessors: the user info and host slices that the authority decomposition returns
   are the parts the authority was composed of, hence strings of their component languages, hence decodable. *)
From Coq Require Import List NArith Bool Arith Lia.
Import ListNotations.
Require Import V.Regex V.Bisim V.Abnf V.Parse V.ParseProofs V.Bridge V.Factor V.Auth V.AuthProofs V.BridgePaths V.C02Proofs V.C03Bridge V.Cmp V.PctWf.
Local Open Scope nat_scope.

Lemma aexpected_slices a :
  oslice (acompose a) (a_userinfo (aexpected a)) = ap_userinfo a /\ slice (acompose a) (a_host (aexpected a)) = ap_host a.
Proof.
  destruct a as [u h po]. unfold aexpected, acompose, oslice, olen. cbn [ap_userinfo ap_host ap_port a_userinfo a_host].
  destruct u as [u|]; cbn [option_map opt_post].
  - split.
    + f_equal. rewrite <- app_assoc. exact (slice_at [] u _).
    + replace (length u + 1) with (length (u ++ [AT])) by (rewrite app_length; simpl; lia). apply slice_at.
  - split; [reflexivity|]. exact (slice_at [] h _).
Qed.

Section Fam.
  Variable X : cls.
  Hypothesis h_ui : incl_check (iuserinfo X) PCTWF = true.
  Hypothesis h_host : incl_check (ihost X) PCTWF = true.
  Lemma authority_views_decode s a : valid_aparts (iuserinfo X) (ihost X) Abnf.port a -> adecomposition_ok s a ->
    (forall u, oslice s (a_userinfo (authority_parts s)) = Some u -> exists u', dec u = Some u') /\
    (exists h', dec (slice s (a_host (authority_parts s))) = Some h').
  Proof.
    intros (Hu & Hh & _) (-> & E & _). rewrite E. destruct (aexpected_slices a) as [Su Sh]. rewrite Su, Sh. split.
    - intros u Eu. rewrite Eu in Hu. exact (dec_total_component _ _ h_ui Hu).
    - exact (dec_total_component _ _ h_host Hh).
  Qed.
End Fam.
