(* C12 / C06: PathImpl::parent / parent_or_empty at text level: the path without its last segment (None / "" or "/"
   when there is no '/' to cut at), with the library's "/./" for "//x". *)
From Coq Require Import List NArith Bool Arith Lia.
Import ListNotations.
Require Import V.Regex V.Parse V.ParseProofs V.Parse2 V.PathSpec V.Splice V.Setters V.Iter V.IterProofs V.IterAll V.PathQ V.Push V.PathMut
  V.PathMutProofs V.C12Proofs V.PushWf V.Rfc V.NormProofs V.PopProofs.
Local Open Scope nat_scope.

(* the loop over the characters of a segment *)
Lemma parent_loop_in_seg A s R : seg_ok s ->
  forall k fuel, k < length s -> k < fuel ->
  parent_loop (A ++ s ++ R) (length A + k) fuel =
  if length A =? 0 then None else parent_loop (A ++ s ++ R) (length A - 1) (fuel - k - 1).
Proof.
  intros Hs. induction k as [|k IH]; intros fuel Hk Hfuel; (destruct fuel as [|fuel]; [lia|]); cbn [parent_loop].
  - rewrite Nat.add_0_r. destruct (nth_error s 0) as [c|] eqn:Ec; [|apply nth_error_None in Ec; lia].
    pose proof (IterProofs.get_nth_mid A s R 0 c Ec) as G. rewrite Nat.add_0_r in G. rewrite G.
    rewrite (seg_ok_noslash s c Hs (nth_error_In _ _ Ec)). destruct (length A =? 0); [reflexivity|].
    replace (S fuel - 0 - 1) with fuel by lia. reflexivity.
  - destruct (nth_error s (S k)) as [c|] eqn:Ec; [|apply nth_error_None in Ec; lia].
    rewrite (IterProofs.get_nth_mid A s R (S k) c Ec), (seg_ok_noslash s c Hs (nth_error_In _ _ Ec)).
    replace (length A + S k =? 0) with false by (symmetry; apply Nat.eqb_neq; lia).
    replace (length A + S k - 1) with (length A + k) by lia. rewrite IH by lia.
    replace (S fuel - S k - 1) with (fuel - k - 1) by lia. reflexivity.
Qed.

Definition single_empty (l : list str) : bool := match l with [[]] => true | _ => false end.
Definition parent_text (v : str) : option str :=
  if path_is_empty v then None
  else let l' := removelast (segs v) in
       if nil_segs l' then (if is_abs v then Some [SLASH] else None)
       else if is_abs v && single_empty l' then Some [SLASH; DOT; SLASH] else Some (render (is_abs v) l').
Definition parent_or_empty_text1 (v : str) : str :=
  match parent_text v with Some s => s | None => if is_abs v then [SLASH] else [] end.

Section Last.
  Variable pfx : str. Variable l' : list str. Variable x : str.
  Hypothesis Hpfx : pfx = [] \/ pfx = [SLASH].
  Hypothesis Hsegs : Forall seg_ok (l' ++ [x]).
  Local Notation p := (P pfx (l' ++ [x])).
  Hypothesis Hfirst : first_off p = length pfx.
  Hypothesis Hne : path_is_empty p = false.

  (* the loop, started on the last character, stops on the last '/' of the text *)
  Theorem parent_loop_value :
    parent_loop p (length p - 1) (S (length p)) =
    match l' with
    | [] => if length pfx =? 0 then None else Some (inr tt)
    | _ => Some (inl (length (pfx ++ join l')))
    end.
  Proof.
    destruct (last_case l') as [E0|(l2 & y & E0)].
    - assert (Ep : p = pfx ++ x ++ []) by (rewrite (p_split pfx l' x Hfirst), E0; cbn [joinS concat map app]; rewrite !app_nil_r; reflexivity).
      replace (match l' with [] => if length pfx =? 0 then None else Some (inr tt) | _ :: _ => Some (inl (length (pfx ++ join l'))) end)
        with (if length pfx =? 0 then @None (nat + unit) else Some (inr tt)) by (rewrite E0; reflexivity).
      assert (Hx : x = [] \/ 0 < length x) by (destruct x; [left; reflexivity | right; cbn [length]; lia]).
      destruct Hx as [Ex|Hx].
      + exfalso. rewrite Ep, Ex, !app_nil_r in Hne. destruct Hpfx as [E1|E1]; rewrite E1 in Hne; discriminate.
      + rewrite Ep at 1 3. replace (length p - 1) with (length pfx + (length x - 1)) by (rewrite Ep, !app_length; cbn [length]; lia).
        rewrite (parent_loop_in_seg pfx x [] (x_ok l' x Hsegs) (length x - 1)); [| lia | rewrite !app_length; lia].
        destruct Hpfx as [E1|E1]; rewrite E1; cbn [length Nat.eqb]; [reflexivity|].
        remember (S (length ([SLASH] ++ x ++ [])) - (length x - 1) - 1) as fu eqn:Ef.
        destruct fu as [|f]; [exfalso; rewrite !app_length in Ef; cbn [length] in Ef; lia|].
        cbn [parent_loop]. unfold get_nth. cbn [app Nat.sub nth_error bind]. change (is SLASH SLASH) with true. reflexivity.
    - set (A' := pfx ++ join l').
      assert (Hl' : l' <> []) by (rewrite E0; destruct l2; discriminate).
      assert (EA : pfx ++ joinS l' = A' ++ [SLASH]).
      { unfold A'. rewrite joinS_join by exact Hl'. rewrite app_assoc. reflexivity. }
      assert (Ep : p = (A' ++ [SLASH]) ++ x ++ []) by (rewrite (p_split pfx l' x Hfirst), EA, app_nil_r; reflexivity).
      assert (Gs : get_nth p (length A') = Some SLASH).
      { rewrite Ep, <- app_assoc. cbn [app]. apply get_nth_app. }
      (* a relative path cannot be "/x": so the '/' found is not at index 0 unless the path is absolute and A' = "" -- impossible, pfx = "/" then *)
      assert (HA' : 0 < length A').
      { unfold A'. rewrite app_length. destruct Hpfx as [E1|E1]; rewrite E1; cbn [length]; [|lia].
        destruct (join l') as [|c t] eqn:Ej; [|cbn [length]; lia]. exfalso.
        destruct (join_nil _ Ej) as [H|H]; [contradiction|].
        pose proof Hfirst as Hf2. rewrite H, E1 in Hf2. unfold P, first_off in Hf2. cbn [app join is_abs length] in Hf2.
        change (is SLASH SLASH) with true in Hf2. discriminate. }
      assert (Hstop : forall fuel, 0 < fuel -> parent_loop p (length A') fuel = Some (inl (length A'))).
      { intros fuel H0. destruct fuel; [lia|]. cbn [parent_loop]. rewrite Gs. change (is SLASH SLASH) with true. cbv iota.
        replace (length A' =? 0) with false by (symmetry; apply Nat.eqb_neq; lia). reflexivity. }
      assert (Hm : forall (X Y : option (nat + unit)), match l' with [] => X | _ :: _ => Y end = Y) by (intros; destruct l'; [contradiction | reflexivity]).
      rewrite Hm. fold A'.
      assert (Hx : x = [] \/ 0 < length x) by (destruct x; [left; reflexivity | right; cbn [length]; lia]).
      destruct Hx as [Ex|Hx].
      + replace (length p - 1) with (length A') by (rewrite Ep, Ex, !app_length; cbn [length]; lia). apply Hstop. lia.
      + replace (length p - 1) with (length (A' ++ [SLASH]) + (length x - 1)) by (rewrite Ep, !app_length; cbn [length]; lia).
        rewrite Ep at 1. rewrite (parent_loop_in_seg (A' ++ [SLASH]) x [] (x_ok l' x Hsegs)); [| lia | rewrite Ep, !app_length; cbn [length]; lia].
        replace (length (A' ++ [SLASH]) =? 0) with false by (symmetry; apply Nat.eqb_neq; rewrite app_length; cbn [length]; lia).
        replace (length (A' ++ [SLASH]) - 1) with (length A') by (rewrite app_length; cbn [length]; lia).
        rewrite <- Ep. apply Hstop. rewrite Ep, !app_length. cbn [length]. lia.
  Qed.
End Last.

Lemma match2 {T} (v A' x : str) (C1 C2 : T) : v = (A' ++ [SLASH]) ++ x -> 0 < length A' ->
  (match v with
   | a :: b :: _ => if (length A' =? 1) && is a SLASH && is b SLASH then C1 else C2
   | _ => C2 end) = if (length A' =? 1) && starts_slash A' then C1 else C2.
Proof.
  intros -> H. destruct A' as [|a [|a2 A'']]; [cbn [length] in H; lia | |].
  - cbn [app length Nat.eqb andb starts_slash]. change (is SLASH SLASH) with true. rewrite andb_true_r. reflexivity.
  - cbn [app length Nat.eqb andb]. reflexivity.
Qed.

Lemma match_cons {T} (l : list str) (X Y : T) : l <> [] -> match l with [] => X | _ :: _ => Y end = Y.
Proof. destruct l; [contradiction | reflexivity]. Qed.

Lemma is_single_empty (l' : list str) : single_empty l' = true <-> l' = [[]].
Proof. unfold single_empty. destruct l' as [|[|c s] [|t r]]; split; intros H; try discriminate; auto. Qed.

Theorem pq_parent_spec v : none_of [QM; HASH] v -> option_map (pslice_text v) (pq_parent v) = parent_text v.
Proof.
  intros H. unfold pq_parent, parent_text. destruct (path_is_empty v) eqn:E; [reflexivity|].
  destruct (nonempty_decomp v H E) as (pfx & l' & x & Hpfx & Epfx & El & Ev & Hs & Hf).
  assert (Hne : path_is_empty (P pfx (l' ++ [x])) = false) by (rewrite <- Ev; exact E).
  pose proof (parent_loop_value pfx l' x Hpfx Hs Hf Hne) as PL. rewrite <- Ev in PL. rewrite PL, El, removelast_last.
  assert (Hcase : l' = [] \/ l' <> []) by (destruct l'; [left; reflexivity | right; discriminate]).
  destruct Hcase as [El'|Hl'].
  - rewrite El', Epfx. destruct (is_abs v); reflexivity.
  - rewrite (match_cons l') by exact Hl'. cbv zeta. replace (nil_segs l') with false by (destruct l'; [contradiction | reflexivity]).
    set (A' := pfx ++ join l') in *.
    assert (Ev2 : v = (A' ++ [SLASH]) ++ x).
    { rewrite Ev at 1. rewrite (p_split pfx l' x Hf). unfold A'. rewrite joinS_join by exact Hl'. rewrite (app_assoc pfx). reflexivity. }
    assert (HA' : 0 < length A').
    { unfold A'. rewrite app_length. destruct Hpfx as [E1|E1]; rewrite E1; cbn [length]; [|lia].
      destruct (join l') as [|c t] eqn:Ej; [|cbn [length]; lia]. exfalso.
      destruct (join_nil _ Ej) as [H0|H0]; [contradiction|].
      pose proof Hf as Hf2. rewrite H0, E1 in Hf2. unfold P, first_off in Hf2. cbn [app join is_abs length] in Hf2.
      change (is SLASH SLASH) with true in Hf2. discriminate. }
    assert (Hcond : (length A' =? 1) && starts_slash A' = is_abs v && single_empty l').
    { unfold A'. destruct Hpfx as [E1|E1]; rewrite E1 in *.
      - (* relative *)
        assert (Ea : is_abs v = false) by (destruct (is_abs v); [discriminate Epfx | reflexivity]). rewrite Ea. cbn [app andb].
        destruct (starts_slash (join l')) eqn:Es; [|apply andb_false_r]. exfalso.
        assert (Hn : Forall noslash l').
        { pose proof (segs_noslash v) as Hn. rewrite El in Hn. apply Forall_app in Hn. tauto. }
        rewrite (join_head l' Hn) in Es. destruct l' as [|[|c s] [|t r]]; discriminate.
      - assert (Ea : is_abs v = true) by (destruct (is_abs v); [reflexivity | discriminate Epfx]). rewrite Ea. cbn [app length starts_slash andb].
        change (is SLASH SLASH) with true. rewrite andb_true_r.
        destruct (single_empty l') eqn:Em.
        + apply is_single_empty in Em. rewrite Em. reflexivity.
        + destruct (join l') as [|c t] eqn:Ej; [|reflexivity]. exfalso. destruct (join_nil _ Ej) as [H0|H0]; [contradiction|].
          apply is_single_empty in H0. congruence. }
    rewrite (match2 v A' x _ _ Ev2 HA'), Hcond.
    destruct (is_abs v && single_empty l'); cbn [option_map pslice_text]; [reflexivity|].
    f_equal. unfold slice. cbn [fst snd skipn]. rewrite Nat.sub_0_r. rewrite Ev at 1. unfold A'. rewrite (firstn_pop pfx l' x Hf).
    unfold render. rewrite Epfx. reflexivity.
Qed.

Theorem parent_or_empty_spec v : none_of [QM; HASH] v -> pq_parent_or_empty_text v = Some (parent_or_empty_text1 v).
Proof.
  intros H. unfold pq_parent_or_empty_text, pq_parent_or_empty, parent_or_empty_text1. f_equal.
  rewrite <- (pq_parent_spec v H). destruct (pq_parent v); [reflexivity|]. destruct (is_abs v); reflexivity.
Qed.
