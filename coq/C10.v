(* Property C10 -- path editing has list semantics.  Statements only. *)
From Coq Require Import List NArith Bool Arith.
Import ListNotations.
Require Import V.Regex V.Parse V.ParseProofs V.PathSpec V.Splice V.Setters V.Iter V.PathQ V.Push V.PathMut V.PathMutProofs V.C10Proofs V.PushWf V.Rfc V.NormProofs V.PopProofs V.SymProofs V.MergeProofs V.PathBufValid.
Local Open Scope nat_scope.

(* push appends exactly the pushed segment to the segment sequence (sequences taken with "."
   segments removed, interpretation I2), for EVERY byte string p -- not only valid paths -- in each of
   the four contexts (at the start of the buffer or not, after an authority or not).  All five branches
   of the code are covered: the '/' put in front of an empty path after an authority, the "./" shield,
   appending to an empty path, dropping a trailing "./", the general case. *)
Theorem C10_push_law : forall (start0 fa : bool) (p seg : str), noslash seg ->
  nodot (segs (push start0 fa p seg)) = nodot (segs p ++ [seg]).
Proof. exact push_law. Qed.
Print Assumptions C10_push_law.

(* the same law for the INDEX-LEVEL handle (the model that is compared with the implementation after every edit):
   under the handle invariant PInv (buffer = before ++ view ++ after, start/end delimit the view) push does not
   panic, re-establishes the invariant with `before` and `after` untouched -- scheme, authority, query and
   fragment of the enclosing reference live there -- and appends exactly the pushed segment *)
Theorem C10_push_handle : forall h before v after seg, PInv h before v after -> noslash seg ->
  exists h', pm_push h seg = Some h' /\ exists v', pm_view h' = Some v' /\ PInv h' before v' after /\
             nodot (segs v') = nodot (segs v ++ [seg]).
Proof. exact pm_push_law. Qed.
Print Assumptions C10_push_handle.

(* clear removes every segment and keeps the path absolute or relative as it was *)
Theorem C10_clear_handle : forall h before v after, PInv h before v after ->
  exists h', pm_clear h = Some h' /\ PInv h' before (clear1 v) after /\ pm_fa h' = pm_fa h /\ pm_start h' = pm_start h.
Proof. exact pm_clear_refines. Qed.
Print Assumptions C10_clear_handle.
Theorem C10_clear_no_segments : forall v, segs (clear1 v) = [] /\ is_abs (clear1 v) = is_abs v.
Proof. intros v. split; [apply clear1_segs|]. unfold clear1. destruct (is_abs v); reflexivity. Qed.
Print Assumptions C10_clear_no_segments.

(* POP.  On every path free of '?' and '#' (every valid path) the list-level pop is defined -- the backward scan
   never leaves the path -- and equals pop_text: "/" is left alone; "" and paths whose last segment is ".." get
   ".." appended; otherwise the text is cut at the '/' that precedes the last segment *)
Theorem C10_pop_total : forall start0 fa v, none_of [QM; HASH] v -> pop1 start0 fa v = Some (pop_text start0 fa v).
Proof. exact pop1_spec. Qed.
Print Assumptions C10_pop_total.

(* the list law of pop: a non-empty path whose last segment x is not ".." loses exactly x and keeps its
   absoluteness.  The excluded shape is is_abs v /\ l' = [[]], i.e. "//x": there the remaining lone empty segment
   vanishes too -- recorded finding K_pop_dslash, witness C10_K_pop_dslash_witness *)
Theorem C10_pop_law_partial : forall start0 fa v l' x, none_of [QM; HASH] v -> path_is_empty v = false ->
  segs v = l' ++ [x] -> is_dotdot x = false -> ~ (is_abs v = true /\ l' = [[]]) ->
  exists v', pop1 start0 fa v = Some v' /\ segs v' = l' /\ is_abs v' = is_abs v.
Proof. exact pop_law. Qed.
Print Assumptions C10_pop_law_partial.
Theorem C10_K_pop_dslash_witness : pop1 false true [47;47;97]%N = Some [47%N] /\ segs [47;47;97]%N = [[]; [97%N]] /\ segs [47%N] = [].
Proof. vm_compute. repeat split; reflexivity. Qed.
Print Assumptions C10_K_pop_dslash_witness.

(* nothing to remove: pop appends ".." (then C10_push_law applies) *)
Theorem C10_pop_pushes_dotdot : forall start0 fa v, none_of [QM; HASH] v ->
  (v = [] \/ (path_is_empty v = false /\ last_is_dotdot (segs v) = true)) -> pop1 start0 fa v = Some (push start0 fa v DOTDOT).
Proof. exact pop_pushes_dotdot. Qed.
Print Assumptions C10_pop_pushes_dotdot.

(* the same through the INDEX-LEVEL handle, with the well-formedness of the path in its context (after an authority
   or not, at the start of the buffer or not) kept: pop, and the symbolic operations built on push and pop *)
Theorem C10_pop_handle : forall hs ha h before v after, HInv hs ha h before v after ->
  exists h', pm_pop h = Some h' /\ HInv hs ha h' before (pop_text (negb hs && negb ha) ha v) after.
Proof. exact hpop. Qed.
Print Assumptions C10_pop_handle.
Theorem C10_symbolic_append_handle : forall hs ha h before v after segs, HInv hs ha h before v after -> Forall seg_arg segs ->
  exists h', pm_symbolic_append h segs = Some h' /\ HInv hs ha h' before (sym_append1 (negb hs && negb ha) ha v segs) after.
Proof. exact happend. Qed.
Print Assumptions C10_symbolic_append_handle.
Theorem C10_symbolic_push_handle : forall hs ha h before v after seg, HInv hs ha h before v after -> seg_arg seg ->
  exists h', pm_symbolic_push_pub h seg = Some h' /\ HInv hs ha h' before (sym_push1 (negb hs && negb ha) ha v seg) after.
Proof. exact hsympush. Qed.
Print Assumptions C10_symbolic_push_handle.

(* THE LIST SEMANTICS OF symbolic_append: when the accumulated path v0 is the rendering of the stack that the
   specification walk `norm` reaches on a segment list D (non-empty, dot-free segments after a run of ".." when
   relative -- Rep), appending segments L that are all non-empty (or all but an empty last one) yields exactly the
   rendering of RFC 3986 5.2.4 on D ++ L: '.' is skipped, '..' removes the last segment (or is kept / dropped at the
   root as `norm` says), the other segments are appended, and a final dot segment leaves a trailing '/'.  In every
   handle context (ctx_ok) and for segments that do not need the colon shield (seg_ctx). *)
Theorem C10_symbolic_append_law_partial : forall start0 ab fa v0 (D L : list seg),
  Rep ab v0 (norm ab D) -> ctx_ok start0 fa ab -> L <> [] -> Forall (fun s => nonempty_seg s /\ seg_ctx start0 s) L ->
  sym_append1 start0 fa v0 L = render ab (rds_segs ab (D ++ L)).
Proof. exact append_all_nonempty. Qed.
Print Assumptions C10_symbolic_append_law_partial.
Theorem C10_symbolic_append_trailing_partial : forall start0 ab fa v0 (D L L0 : list seg),
  Rep ab v0 (norm ab D) -> ctx_ok start0 fa ab -> L = L0 ++ [[]] -> Forall (fun s => nonempty_seg s /\ seg_ctx start0 s) L0 ->
  sym_append1 start0 fa v0 L = render ab (rds_segs ab (D ++ L)).
Proof. intros start0 ab fa v0 D L L0 R C. exact (append_trailing_empty start0 ab fa v0 D L R C L0). Qed.
Print Assumptions C10_symbolic_append_trailing_partial.

(* THE OWNED PathBuf: each of its six mutators takes a fresh handle on the whole buffer (start = 0, follows_authority).
   On every path free of '?' and '#', with segment arguments free of '/', '?' and '#', the index-level model returns -- no
   panic -- exactly the text-level function: push true true / pop_text / clear1 / normalize1 / sym_push1 / sym_append1 *)
Theorem C10_pathbuf_ops_exact : forall p o, none_of [QM; HASH] p ->
  match o with BPush s | BSymPush s => noqh s /\ noslash s | BSymAppend l => Forall (fun s => noqh s /\ noslash s) l | _ => True end ->
  bstep p o = Some (btext p o).
Proof. exact bstep_text. Qed.
Print Assumptions C10_pathbuf_ops_exact.

(* ANY sequence of push / pop / clear through ONE handle: whenever the list-level edits of the view are defined
   (pop's scan cannot panic on a non-empty view), the index-level handle performs them without panic, its
   offsets stay coherent after every edit and `before`/`after` never change -- so the edits compose exactly as
   if each had been made through a fresh handle *)
Theorem C10_handle_sequences : forall ops h before v after, PInv h before v after ->
  match prun1 (pm_start h =? 0) (pm_fa h) ops v with
  | Some v' => exists h', prun0 ops h = Some h' /\ PInv h' before v' after /\ pm_view h' = Some v'
  | None => True
  end.
Proof. exact handle_sequences. Qed.
Print Assumptions C10_handle_sequences.

Example C10_example : push false true [] [120]%N = [47;120]%N /\ push true false [] [98;58;99]%N = [46;47;98;58;99]%N.
Proof. vm_compute. split; reflexivity. Qed.
