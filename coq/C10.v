(* Property C10 -- path editing has list semantics.  Statements only. *)
From Coq Require Import List NArith Bool Arith.
Import ListNotations.
Require Import V.Regex V.Parse V.ParseProofs V.PathSpec V.Iter V.Push.
Local Open Scope nat_scope.

(* push appends exactly the pushed segment to the segment sequence (sequences taken with "."
   segments removed, interpretation I2), for EVERY byte string p -- not only valid paths -- in each of
   the four contexts (at the start of the buffer or not, after an authority or not).  All five branches
   of the code are covered: the '/' put in front of an empty path after an authority, the "./" shield,
   appending to an empty path, dropping a trailing "./", the general case. *)
Theorem C10_push_law : forall (start0 fa : bool) (p seg : str), noslash seg ->
  nodot (segs (push start0 fa p seg)) = nodot (segs p ++ [seg]).
Proof. exact push_law. Qed.
Print Assumptions C10_push_law.

Example C10_example : push false true [] [120]%N = [47;120]%N /\ push true false [] [98;58;99]%N = [46;47;98;58;99]%N.
Proof. vm_compute. split; reflexivity. Qed.
