(* C06 / C04 at the level of the RFC grammar: resolving a VALID reference against a VALID base that has a scheme returns
   -- no panic -- a VALID reference (every component in its RFC language), in all five branches. *)
From Coq Require Import List NArith Bool Arith Lia.
Import ListNotations.
Require Import V.Regex V.Bisim V.Abnf V.Parse V.ParseProofs V.Bridge V.Factor V.BridgePaths V.C02Bridge V.FactorU V.FactorI
  V.PathSpec V.Splice V.Setters V.Iter V.Push V.PathMut V.PathMutProofs V.SetPath V.SetAuth V.SetScheme V.Reference V.SetFragment V.C05Proofs V.C04Proofs
  V.Shapes V.ValidSet V.ValidSetInst V.C04Valid V.PushWf V.RefPath V.Rfc V.NormProofs V.PopProofs V.ParentProofs V.SymProofs V.MergeProofs V.SegsQ V.PathGrammar V.PathGrammarInst
  V.C04Valid2 V.ResolveProofs V.ResolveProofs2 V.ResolveProofs3.
Local Open Scope nat_scope.
Local Strategy opaque [L].

(* ---------- predicates on all pieces of the '/'-split ---------- *)
Section QS.
  Variable Q : str -> Prop.
  Hypothesis Qdot : Q [DOT].
  Hypothesis Qdd : Q DOTDOT.
  Hypothesis Qnil : Q [].
  Definition QS (v : str) : Prop := Forall Q (split v).

  Lemma QS_of_segs v : Forall Q (segs v) -> QS v.
  Proof.
    intros H. unfold QS, segs in *. destruct v as [|c r]; [cbn [split]; constructor; [exact Qnil | constructor]|].
    destruct (is c SLASH) eqn:Ec.
    - cbn [split]. rewrite Ec. constructor; [exact Qnil|]. destruct r; [cbn [split]; constructor; [exact Qnil | constructor] | exact H].
    - exact H.
  Qed.
  Lemma segs_of_QS v : QS v -> Forall Q (segs v).
  Proof.
    intros H. unfold QS, segs in *. destruct v as [|c r]; [constructor|]. destruct (is c SLASH) eqn:Ec.
    - cbn [split] in H. rewrite Ec in H. inversion H; subst. destruct r; [constructor | assumption].
    - exact H.
  Qed.
  Lemma QS_slash v : QS v -> QS (SLASH :: v).
  Proof. intros H. unfold QS. cbn [split]. change (is SLASH SLASH) with true. cbv iota. constructor; [exact Qnil | exact H]. Qed.
  Lemma QS_dot_slash v : QS v -> QS (DOT :: SLASH :: v).
  Proof. intros H. unfold QS. cbn [split]. change (is DOT SLASH) with false. change (is SLASH SLASH) with true. cbv iota. constructor; [exact Qdot | exact H]. Qed.
  Lemma QS_tail v : QS (SLASH :: v) -> QS v.
  Proof. unfold QS. cbn [split]. change (is SLASH SLASH) with true. cbv iota. intros H. now inversion H. Qed.
  Lemma QS_fix_path q v : QS v -> QS (fix_path q v).
  Proof.
    intros H. unfold fix_path.
    destruct (negb (match p_authority q with Some _ => true | None => false end) && starts_dslash v) eqn:E1.
    - apply andb_true_iff in E1 as [_ E1]. destruct v as [|a [|b r]]; try discriminate E1.
      cbn [starts_dslash] in E1. apply andb_true_iff in E1 as [Ea _]. apply is_true in Ea. subst a. cbn [app].
      apply QS_slash, QS_dot_slash. now apply QS_tail.
    - destruct ((match p_authority q with Some _ => true | None => false end) && negb (path_is_abs v) && negb (is_nil v)); [cbn [app]; now apply QS_slash|].
      destruct ((match p_scheme q, p_authority q with None, None => true | _, _ => false end) && colon_first v); [cbn [app]; now apply QS_dot_slash | exact H].
  Qed.

  Lemma QS_render ab l : Forall noslash l -> Forall Q l -> QS (render ab l).
  Proof. intros Hn Hl. apply QS_of_segs. now apply (render_Q Q). Qed.
  Lemma QS_parent bp : QS bp -> QS (parent_or_empty_text1 bp).
  Proof.
    intros H. apply segs_of_QS in H. unfold parent_or_empty_text1, parent_text. destruct (path_is_empty bp).
    - destruct (is_abs bp); unfold QS; cbn [split]; change (is SLASH SLASH) with true; cbv iota; repeat constructor; exact Qnil.
    - cbv zeta. destruct (nil_segs (removelast (segs bp))).
      + destruct (is_abs bp); unfold QS; cbn [split]; change (is SLASH SLASH) with true; cbv iota; repeat constructor; exact Qnil.
      + destruct (is_abs bp && single_empty (removelast (segs bp))).
        * unfold QS. cbn [split]. change (is SLASH SLASH) with true. change (is DOT SLASH) with false. cbv iota. repeat constructor; [exact Qnil | exact Qdot | exact Qnil].
        * apply QS_render; [apply removelast_Forall, segs_noslash | now apply removelast_Forall].
  Qed.
  Lemma QS_normalize start0 fa v : QS v -> QS (normalize1 start0 fa v).
  Proof. intros H. apply QS_of_segs, (normalize_Q Q Qdot), segs_of_QS, H. Qed.
  Lemma QS_append start0 fa v segs : QS v -> Forall (fun s => Q s /\ noslash s) segs -> QS (sym_append1 start0 fa v segs).
  Proof. intros H Hs. apply QS_of_segs, (append_Q Q Qdot Qdd Qnil); [now apply segs_of_QS | exact Hs]. Qed.
  Lemma QS_rds_impl start0 fa v : QS v -> QS (rds_impl start0 fa v).
  Proof.
    intros H. unfold rds_impl. pose proof (QS_normalize start0 fa v H) as Hn.
    destruct (last_is_dot (segs v) && negb (path_is_empty (normalize1 start0 fa v))); [|exact Hn].
    apply QS_of_segs, (push_Q Q Qdot); [now apply segs_of_QS | exact Qnil | constructor].
  Qed.
End QS.

Section Fam.
  Variables X PX : cls.
  Notation valid := (valid_parts_fam X PX).
  Notation SEG := (isegment X).
  Hypothesis Hwf : forall p, valid p -> wf_parts p.
  Hypothesis Hvsp : forall p v, valid p -> L (ipath X) v -> valid (with_path p (fix_path p v)).
  Hypothesis Hvss : forall p new, valid p -> oL scheme new -> valid (with_scheme p new (scheme_fix_path p new)).
  Hypothesis Hvsa : forall p new, valid p -> oL (iauthority X) new -> valid (with_auth p new (auth_path p new)).
  Hypothesis Hps : forall v, Forall (L SEG) (segs v) -> L (ipath X) v.
  Hypothesis Hsp : forall v, L (ipath X) v -> Forall (L SEG) (segs v).
  Hypothesis Hvp : forall p, valid p -> L (ipath X) (p_path p).
  Hypothesis Hdot : L SEG [DOT].
  Hypothesis Hdd : L SEG DOTDOT.
  Hypothesis Hnil : L SEG [].
  Hypothesis Hns : forall s, L SEG s -> noslash s.

  Local Notation QSv := (QS (L SEG)).
  Lemma qs_path p : valid p -> QSv (p_path p).
  Proof. intros V. apply (QS_of_segs _ Hnil), Hsp, Hvp, V. Qed.
  Lemma path_of_qs v : QSv v -> L (ipath X) v.
  Proof. intros H. apply Hps, (segs_of_QS _ v H). Qed.
  Lemma keep' p v' : valid p -> wf_parts (with_path p v') -> QSv v' -> valid (with_path p v').
  Proof. intros V W H. apply (keep X PX Hvsp Hps p v' V W), (segs_of_QS _ v' H). Qed.

  Variables pb pr : parts. Variable s : str.
  Hypothesis Vb : valid pb. Hypothesis Vr : valid pr. Hypothesis Hbs : p_scheme pb = Some s.
  Let Wb := Hwf pb Vb. Let Wr := Hwf pr Vr.

  Lemma s_valid : oL scheme (Some s).
  Proof. pose proof Vb as (Hs & _). rewrite Hbs in Hs. exact Hs. Qed.
  Lemma auth_b_valid : oL (iauthority X) (p_authority pb).
  Proof. pose proof Vb as (_ & Ha & _). exact Ha. Qed.
  Lemma V1 : valid (with_scheme pr (Some s) (scheme_fix_path pr (Some s))).
  Proof. apply Hvss; [exact Vr | exact s_valid]. Qed.
  Lemma V2 : valid (with_auth (with_scheme pr (Some s) (scheme_fix_path pr (Some s))) (p_authority pb)
                      (auth_path (with_scheme pr (Some s) (scheme_fix_path pr (Some s))) (p_authority pb))).
  Proof. apply Hvsa; [exact V1 | exact auth_b_valid]. Qed.

  Lemma empty_valid : p_scheme pr = None -> p_authority pr = None -> p_path pr = [] -> valid (target_empty pb pr s).
  Proof.
    intros Hrs Hra Hp. pose proof Vb as (Bs & Ba & Bp & Bq & Bf). pose proof Vr as (Rs & Ra & Rp & Rq & Rf).
    unfold valid_parts_fam, valid_parts, target_empty, path_ok in Bs, Ba, Bp, Bq, Bf, Rs, Ra, Rp, Rq, Rf |- *. cbn [p_scheme p_authority p_path p_query p_fragment]. rewrite Hbs in *.
    split; [exact Bs | split; [exact Ba | split; [exact Bp | split; [|exact Rf]]]].
    destruct (p_query pr); [exact Rq | exact Bq].
  Qed.

  Theorem resolve_valid : exists p', resolve (compose pr) (compose pb) = Some (compose p') /\ valid p'.
  Proof.
    destruct (p_scheme pr) as [sr|] eqn:Hrs.
    - eexists. split; [apply (resolve_scheme pb pr Wr sr Hrs)|].
      pose proof (remove_dot_segments_wf pr Wr) as W. rewrite Hrs in W. cbn [has negb andb] in W.
      apply (keep' pr _ Vr W). apply (QS_rds_impl _ Hdot Hnil). exact (qs_path pr Vr).
    - destruct (p_authority pr) as [a|] eqn:Hra.
      + eexists. split; [apply (resolve_authority pb pr s Wb Wr Hbs a Hrs Hra)|].
        pose proof (remove_dot_segments_wf _ (W1' pb pr s Wb Wr Hbs)) as W. rewrite (path1' pr s) in W.
        cbn [with_scheme p_scheme p_authority has negb andb] in W. rewrite Hra in W.
        apply (keep' _ _ V1 W). apply (QS_rds_impl _ Hdot Hnil). exact (qs_path pr Vr).
      + destruct (p_path pr) as [|c t] eqn:Hp.
        * eexists. split; [apply (resolve_empty_path pb pr s Wb Wr Hbs Hrs Hra Hp) | exact (empty_valid Hrs Hra Hp)].
        * destruct (is c SLASH) eqn:Hc.
          -- apply is_true in Hc. subst c. eexists. split; [apply (resolve_abs_path pb pr s Wb Wr Hbs t Hrs Hra Hp)|].
             pose proof (remove_dot_segments_wf _ (W2' pb pr s Wb Wr Hbs)) as W. rewrite (path2' pb pr s t Hra Hp) in W.
             apply (keep' _ _ V2 W). apply (QS_rds_impl _ Hdot Hnil). exact (qs_path pr Vr).
          -- destruct (resolve_merge pb pr s Wb Wr Hbs Hrs Hra c t Hp Hc) as [E _]. eexists. split; [exact E|].
             apply Hvsp; [exact V2|]. apply path_of_qs. unfold merge_impl.
             apply (QS_append _ Hdot Hdd Hnil).
             ++ unfold base_dir. destruct (has (p_authority pb) && path_is_empty (p_path pb)).
                ** apply (QS_fix_path _ Hdot Hnil). unfold QS. cbn [split]. change (is SLASH SLASH) with true. cbv iota. repeat constructor; exact Hnil.
                ** apply (QS_normalize _ Hdot Hnil), (QS_fix_path _ Hdot Hnil), (QS_parent _ Hdot Hnil). exact (qs_path pb Vb).
             ++ pose proof (Hsp _ (Hvp _ V2)) as Hs2. eapply Forall_impl; [|exact Hs2]. intros x Hx. split; [exact Hx | exact (Hns x Hx)].
  Qed.
End Fam.

(* ---------- instances ---------- *)
Notation P := C02Bridge.P.
Lemma seg_noslash_U s : L (isegment U) s -> noslash s.
Proof. apply (seg_noslash U pg3_U). Qed.
Lemma seg_noslash_I s : L (isegment I) s -> noslash s.
Proof. apply (seg_noslash I pg3_I). Qed.
Definition valid_path_U := valid_path U U InstU.i14a InstU.i14b InstU.i14c k_ns_U k_eps_U.
Definition valid_path_I := valid_path I P InstI.i14a InstI.i14b InstI.i14c k_ns_I k_eps_I.

Theorem resolve_valid_U pb pr s : valid_parts_U pb -> valid_parts_U pr -> p_scheme pb = Some s ->
  exists p', resolve (compose pr) (compose pb) = Some (compose p') /\ valid_parts_U p'.
Proof.
  exact (resolve_valid U U valid_parts_wf_U vsp_U vss_U vsa_U path_of_segs_U segs_of_path_U valid_path_U
           (seg_dot U k_dots_U) (seg_dotdot U k_dots_U) (seg_nil U) seg_noslash_U pb pr s).
Qed.
Theorem resolve_valid_I pb pr s : valid_parts_I pb -> valid_parts_I pr -> p_scheme pb = Some s ->
  exists p', resolve (compose pr) (compose pb) = Some (compose p') /\ valid_parts_I p'.
Proof.
  exact (resolve_valid I P valid_parts_wf_I vsp_I vss_I vsa_I path_of_segs_I segs_of_path_I valid_path_I
           (seg_dot I k_dots_I) (seg_dotdot I k_dots_I) (seg_nil I) seg_noslash_I pb pr s).
Qed.

(* in terms of the languages: a URI reference resolved against a URI is a URI reference that has a scheme *)
Theorem resolve_in_language_U r b : L (IRI_reference U U) r -> L (IRI U U) b ->
  exists t, resolve r b = Some t /\ L (IRI_reference U U) t.
Proof.
  intros Hr Hb. apply uri_ref_shape in Hr. apply REF_factor in Hr as (pr & Vr & ->).
  destruct (C02Proofs.uri_decomposition b Hb) as (pb & sch & Vb & Hs & (Eb & _) & _). subst b.
  destruct (resolve_valid_U pb pr sch Vb Vr Hs) as (p' & E & V'). exists (compose p'). split; [exact E | now apply valid_in_language_U].
Qed.
Theorem resolve_in_language_I r b : L (IRI_reference I P) r -> L (IRI I P) b ->
  exists t, resolve r b = Some t /\ L (IRI_reference I P) t.
Proof.
  intros Hr Hb. apply iri_ref_shape in Hr. apply REF_factor in Hr as (pr & Vr & ->).
  destruct (C02Proofs.iri_decomposition b Hb) as (pb & sch & Vb & Hs & (Eb & _) & _). subst b.
  destruct (resolve_valid_I pb pr sch Vb Vr Hs) as (p' & E & V'). exists (compose p'). split; [exact E | now apply valid_in_language_I].
Qed.
