(* C03 chain: RFC authority language -> [userinfo "@"] host [":" port] with valid parts -> delimiter
   well-formedness wf_aparts_s -> every authority scanner returns the expected ranges. *)
From Coq Require Import List NArith Bool Arith Lia.
Import ListNotations.
Require Import V.Regex V.Bisim V.Abnf V.Parse V.ParseProofs V.Bridge V.Factor V.BridgePaths V.C02Bridge
  V.Auth V.AuthProofs V.Splice V.Setters V.AuthMut V.AuthMutProofs V.AuthValues.
Open Scope N_scope.

Section AFactor.
  Variables Rui Rhost Rport : re.
  Definition AUTH_raw : re := Cat (Alt Eps (Cat Rui (ch AT))) (Cat Rhost (Alt Eps (Cat (ch COLON) Rport))).
  Definition valid_aparts (a : aparts) : Prop := oL Rui (ap_userinfo a) /\ L Rhost (ap_host a) /\ oL Rport (ap_port a).
  Theorem AUTH_factor s : L AUTH_raw s <-> exists a, valid_aparts a /\ s = acompose a.
  Proof.
    unfold AUTH_raw. rewrite Cat_L. split.
    - intros (s1 & s2 & -> & H1 & H2). use (Cat_L _ _ _) in H2. destruct H2 as (h & t & -> & Hh & Ht).
      rewrite Alt_L, Eps_L in H1, Ht.
      assert (exists u, oL Rui u /\ s1 = opt_post u [AT]) as (u & Hu & ->).
      { destruct H1 as [->|H1]; [exists None; simpl; auto|]. use (Cat_L _ _ _) in H1. destruct H1 as (x & y & -> & Hx & Hy).
        use (ch_L _ _) in Hy. subst. exists (Some x). simpl; auto. }
      assert (exists p, oL Rport p /\ t = opt_pre [COLON] p) as (p & Hp & ->).
      { destruct Ht as [->|Ht]; [exists None; simpl; auto|]. use (lit1_L _ _ _) in Ht. destruct Ht as (x & -> & Hx). exists (Some x). simpl; auto. }
      exists {| ap_userinfo := u; ap_host := h; ap_port := p |}. split; [repeat split; auto|]. reflexivity.
    - intros ([u h p] & (Hu & Hh & Hp) & ->). unfold acompose; simpl in *.
      exists (opt_post u [AT]), (h ++ opt_pre [COLON] p). split; [reflexivity|]. split.
      + rewrite Alt_L, Eps_L. destruct u as [x|]; simpl; [right | left; reflexivity].
        apply Cat_L. exists x, [AT]. split; [reflexivity|]. split; auto. now apply ch_L.
      + apply Cat_L. exists h, (opt_pre [COLON] p). split; [reflexivity|]. split; auto.
        rewrite Alt_L, Eps_L. destruct p as [x|]; simpl; [right | left; reflexivity].
        apply lit1_L. eauto.
  Qed.
End AFactor.

(* ---------- shapes of the parts ---------- *)
Definition not_at_lbr : cls := [(0,63); (65,90); (92,MAXC)].
Definition not_at : cls := [(0,63); (65,MAXC)].
Definition not_rbr : cls := [(0,92); (94,MAXC)].
Definition not_colon_at_lbr : cls := [(0,57); (59,63); (65,90); (92,MAXC)].
Definition SH_host : re := Alt (Cat (ch LBR) (Cat (Star (Cls not_rbr)) (ch RBR))) (Star (Cls not_colon_at_lbr)).

Lemma in_not_at_lbr c : in_cls c not_at_lbr = true -> ~ In c [AT; LBR].
Proof. unfold in_cls, not_at_lbr, in_rng, AT, LBR, MAXC. simpl. rewrite !orb_true_iff, !andb_true_iff, !N.leb_le. intros H [E|[E|[]]]; subst c; lia. Qed.
Lemma in_not_at c : in_cls c not_at = true -> ~ In c [AT].
Proof. unfold in_cls, not_at, in_rng, AT, MAXC. simpl. rewrite !orb_true_iff, !andb_true_iff, !N.leb_le. intros H [E|[]]; subst c; lia. Qed.
Lemma in_not_rbr c : in_cls c not_rbr = true -> ~ In c [RBR].
Proof. unfold in_cls, not_rbr, in_rng, RBR, MAXC. simpl. rewrite !orb_true_iff, !andb_true_iff, !N.leb_le. intros H [E|[]]; subst c; lia. Qed.
Lemma in_not_colon_at_lbr c : in_cls c not_colon_at_lbr = true -> ~ In c [COLON; AT; LBR].
Proof. unfold in_cls, not_colon_at_lbr, in_rng, COLON, AT, LBR, MAXC. simpl. rewrite !orb_true_iff, !andb_true_iff, !N.leb_le. intros H [E|[E|[E|[]]]]; subst c; lia. Qed.

Lemma star_none (r : re) k D s : (forall c, in_cls c k = true -> ~ In c D) -> L (Star (Cls k)) s -> none_of D s.
Proof. intros Hk H. apply star_cls_forall in H. unfold none_of. eapply Forall_impl; [|exact H]. intros c Hc. now apply Hk. Qed.

Lemma SH_host_inv h : L SH_host h -> ip_literal h \/ none_of [COLON; AT; LBR] h.
Proof.
  unfold SH_host. rewrite Alt_L. intros [H|H].
  - left. use (lit1_L _ _ _) in H. destruct H as (t & -> & H). use (Cat_L _ _ _) in H. destruct H as (body & e & -> & Hb & He).
    use (ch_L _ _) in He. subst. exists body. split; [reflexivity|]. eapply (star_none Eps); [apply in_not_rbr | exact Hb].
  - right. eapply (star_none Eps); [apply in_not_colon_at_lbr | exact H].
Qed.

Ltac refl := vm_cast_no_check (eq_refl true).
Lemma a_fwd_U : incl_check (iauthority U) (AUTH_raw (iuserinfo U) (ihost U) Abnf.port) = true. Proof. refl. Qed.
Lemma a_bwd_U : incl_check (AUTH_raw (iuserinfo U) (ihost U) Abnf.port) (iauthority U) = true. Proof. refl. Qed.
Lemma a_fwd_I : incl_check (iauthority I) (AUTH_raw (iuserinfo I) (ihost I) Abnf.port) = true. Proof. refl. Qed.
Lemma a_bwd_I : incl_check (AUTH_raw (iuserinfo I) (ihost I) Abnf.port) (iauthority I) = true. Proof. refl. Qed.
Lemma ui_U : incl_check (iuserinfo U) (Star (Cls not_at_lbr)) = true. Proof. refl. Qed.
Lemma ui_I : incl_check (iuserinfo I) (Star (Cls not_at_lbr)) = true. Proof. refl. Qed.
Lemma host_U : incl_check (ihost U) SH_host = true. Proof. refl. Qed.
Lemma host_I : incl_check (ihost I) SH_host = true. Proof. refl. Qed.
Lemma host_at_U : incl_check (ihost U) (Star (Cls not_at)) = true. Proof. refl. Qed.
Lemma host_at_I : incl_check (ihost I) (Star (Cls not_at)) = true. Proof. refl. Qed.
Lemma port_at : incl_check Abnf.port (Star (Cls not_at)) = true. Proof. refl. Qed.

Section Fam.
  Variable X : cls.
  Hypothesis h_ui : incl_check (iuserinfo X) (Star (Cls not_at_lbr)) = true.
  Hypothesis h_host : incl_check (ihost X) SH_host = true.
  Hypothesis h_host_at : incl_check (ihost X) (Star (Cls not_at)) = true.
  Definition valid_aparts_fam := valid_aparts (iuserinfo X) (ihost X) Abnf.port.
  Theorem valid_aparts_wf a : valid_aparts_fam a -> wf_aparts_s a.
  Proof.
    intros (Hu & Hh & Hp). split; [constructor|].
    - intros u E. rewrite E in Hu. simpl in Hu. eapply (star_none Eps); [apply in_not_at_lbr | exact (incl_check_sound _ _ h_ui _ Hu)].
    - apply SH_host_inv. exact (incl_check_sound _ _ h_host _ Hh).
    - intros p E. rewrite E in Hp. simpl in Hp. eapply (star_none Eps); [apply in_not_at | exact (incl_check_sound _ _ port_at _ Hp)].
    - eapply (star_none Eps); [apply in_not_at | exact (incl_check_sound _ _ h_host_at _ Hh)].
  Qed.
End Fam.

Local Open Scope nat_scope.
Definition adecomposition_ok (s : str) (a : aparts) : Prop :=
  s = acompose a /\ authority_parts s = aexpected a /\
  find_user_info s 0 = option_map (fun u => (0, length u)) (ap_userinfo a) /\
  find_host s 0 = (length (ui_part a), length (ui_part a) + length (ap_host a)) /\
  find_port s 0 = option_map (fun p => (length s - length p, length s)) (ap_port a).

Lemma adecomposition a : wf_aparts_s a -> adecomposition_ok (acompose a) a.
Proof.
  intros W. pose proof (proj1 W) as W0. unfold adecomposition_ok.
  split; [reflexivity|]. split; [now apply authority_parts_compose|].
  split; [exact (find_user_info_value a [] W)|]. split; [exact (find_host_value a [] W0) | exact (find_port_value a [] W0)].
Qed.

Theorem uri_authority_decomposition s : L (iauthority U) s -> exists a, valid_aparts_fam U a /\ adecomposition_ok s a.
Proof.
  intros H. apply (incl_check_sound _ _ a_fwd_U) in H. apply AUTH_factor in H as (a & V & ->).
  exists a. split; [exact V|]. apply adecomposition. exact (valid_aparts_wf U ui_U host_U host_at_U a V).
Qed.
Theorem iri_authority_decomposition s : L (iauthority I) s -> exists a, valid_aparts_fam I a /\ adecomposition_ok s a.
Proof.
  intros H. apply (incl_check_sound _ _ a_fwd_I) in H. apply AUTH_factor in H as (a & V & ->).
  exists a. split; [exact V|]. apply adecomposition. exact (valid_aparts_wf I ui_I host_I host_at_I a V).
Qed.
