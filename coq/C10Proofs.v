(* C10: sequences of push / pop / clear through ONE index-level handle equal the list-level edits of the view:
   offsets stay coherent after every edit and the bytes around the path never change. *)
From Coq Require Import List NArith Bool Arith Lia.
Import ListNotations.
Require Import V.Regex V.Parse V.ParseProofs V.Parse2 V.PathSpec V.Splice V.Setters V.Iter V.PathQ V.Push V.PathMut V.PathMutProofs.
Local Open Scope nat_scope.

Inductive pop_ := PPush (seg : str) | PPop | PClear.
Definition papply0 (h : pm) (o : pop_) : option pm := match o with PPush s => pm_push h s | PPop => pm_pop h | PClear => pm_clear h end.
Definition papply1 (start0 fa : bool) (v : str) (o : pop_) : option str :=
  match o with PPush s => Some (push start0 fa v s) | PPop => pop1 start0 fa v | PClear => Some (clear1 v) end.
Fixpoint prun0 (ops : list pop_) (h : pm) : option pm := match ops with [] => Some h | o :: r => bind (papply0 h o) (prun0 r) end.
Fixpoint prun1 (start0 fa : bool) (ops : list pop_) (v : str) : option str :=
  match ops with [] => Some v | o :: r => bind (papply1 start0 fa v o) (prun1 start0 fa r) end.

Lemma pstep h before v after o : PInv h before v after ->
  match papply1 (pm_start h =? 0) (pm_fa h) v o with
  | Some v' => exists h', papply0 h o = Some h' /\ PInv h' before v' after /\ pm_fa h' = pm_fa h /\ pm_start h' = pm_start h
  | None => True
  end.
Proof.
  intros I. destruct o as [s| |]; cbn [papply0 papply1].
  - now apply pm_push_refines.
  - now apply pm_pop_refines.
  - now apply pm_clear_refines.
Qed.

Theorem handle_sequences ops : forall h before v after, PInv h before v after ->
  match prun1 (pm_start h =? 0) (pm_fa h) ops v with
  | Some v' => exists h', prun0 ops h = Some h' /\ PInv h' before v' after /\ pm_view h' = Some v'
  | None => True
  end.
Proof.
  induction ops as [|o r IH]; intros h before v after I; cbn [prun0 prun1].
  - exists h. split; [reflexivity|]. split; [exact I | now apply (pm_view_inv h before v after)].
  - pose proof (pstep h before v after o I) as S. destruct (papply1 (pm_start h =? 0) (pm_fa h) v o) as [v1|]; cbn [bind]; [|exact Logic.I].
    destruct S as (h1 & E & I1 & F1 & S1). rewrite E. cbn [bind].
    specialize (IH h1 before v1 after I1). rewrite F1, S1 in IH. exact IH.
Qed.

(* the push law carried down to the index-level handle *)
Theorem pm_push_law h before v after seg : PInv h before v after -> noslash seg ->
  exists h', pm_push h seg = Some h' /\ exists v', pm_view h' = Some v' /\ PInv h' before v' after /\
             nodot (segs v') = nodot (segs v ++ [seg]).
Proof.
  intros I Hs. destruct (pm_push_refines h before v after seg I) as (h' & E & I' & _ & _).
  exists h'. split; [exact E|]. exists (push (pm_start h =? 0) (pm_fa h) v seg). split; [exact (pm_view_inv h' before _ after I')|]. split; [exact I'|]. now apply push_law.
Qed.
Lemma clear1_segs v : segs (clear1 v) = [].
Proof. unfold clear1. destruct (is_abs v); reflexivity. Qed.
