(* C18 tied to the URI decomposition (C02): a data URL is a URI whose scheme component is exactly "data" *)
From Coq Require Import List NArith Bool Arith Lia.
Import ListNotations.
Require Import V.Regex V.Abnf V.Parse V.ParseProofs V.Parse2 V.Parse2Proofs V.Factor V.BridgePaths V.C02Bridge V.C02Proofs V.DataUrl V.DataUrlProofs.
Local Open Scope nat_scope.

Lemma prefix_until (c : N) (a : str) : forall b x y, ~ In c a -> ~ In c b -> a ++ c :: x = b ++ c :: y -> a = b /\ x = y.
Proof.
  induction a as [|k a IH]; intros [|k' b] x y Ha Hb E; simpl in E.
  - injection E as E. auto.
  - injection E as E1 E2. exfalso. apply Hb. left. symmetry. exact E1.
  - injection E as E1 E2. exfalso. apply Ha. left. exact E1.
  - injection E as E1 E2. subst k'. destruct (IH b x y) as [-> ->]; auto.
    + intros Hi. apply Ha. right. exact Hi.
    + intros Hi. apply Hb. right. exact Hi.
Qed.

Definition DATA_SCHEME : str := [100;97;116;97]%N.

Theorem dataurl_scheme u d : dparse u = Some d -> L (IRI U U) u ->
  exists p, valid_parts_U p /\ decomposition_ok u p /\ p_scheme p = Some DATA_SCHEME /\
    scheme_range u 0 = (0, 4) /\ slice u (scheme_range u 0) = DATA_SCHEME.
Proof.
  intros Hd Hu. destruct (dataurl_coherent u d Hd) as (media & data & Eu & _).
  destruct (uri_decomposition u Hu) as (p & sch & V & Es & D & _ & Sr).
  pose proof (valid_parts_wf_U p V) as W. destruct (wf_scheme p W sch Es) as [_ Hn].
  assert (Ec : u = compose p) by exact (proj1 D).
  assert (Hs : sch = DATA_SCHEME).
  { unfold compose in Ec. rewrite Es in Ec. cbn [opt_post] in Ec. rewrite <- app_assoc in Ec. cbn [app] in Ec.
    rewrite Eu in Ec. change (DATA ++ ?r) with (DATA_SCHEME ++ COLON :: r) in Ec.
    symmetry. eapply proj1. eapply (prefix_until COLON); [| |exact Ec].
    - unfold DATA_SCHEME, COLON. simpl. intros [H|[H|[H|[H|[]]]]]; discriminate.
    - intros Hi. unfold none_of in Hn. rewrite Forall_forall in Hn. apply (Hn COLON Hi). left. reflexivity. }
  subst sch. exists p. split; [exact V|]. split; [exact D|]. split; [exact Es|]. split; [exact Sr|].
  rewrite Sr, Eu. reflexivity.
Qed.
