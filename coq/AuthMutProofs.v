From Coq Require Import List NArith Bool Arith Lia.
Import ListNotations.
Require Import V.Regex V.Parse V.ParseProofs V.Auth V.AuthProofs V.Splice V.Setters V.AuthMut.
Local Open Scope nat_scope.

Definition Inv (h : handle) (a : aparts) (before after : str) : Prop :=
  h_data h = before ++ acompose a ++ after /\ h_start h = length before /\ h_end h = length before + length (acompose a).

Lemma window_inv h a before after : Inv h a before after -> window h = before ++ acompose a.
Proof.
  intros (Hd & Hs & He). unfold window. rewrite Hd, He, app_assoc.
  rewrite firstn_app. rewrite app_length. replace (length before + length (acompose a) - (length before + length (acompose a))) with 0 by lia.
  simpl. rewrite app_nil_r. apply firstn_all2. rewrite app_length. lia.
Qed.

Lemma view_inv h a before after : Inv h a before after -> view h = acompose a.
Proof.
  intros I. unfold view. rewrite (window_inv h a before after I). destruct I as (_ & -> & _). apply skipn_app_len.
Qed.

Definition ui_part (a : aparts) : str := opt_post (ap_userinfo a) [AT].
Definition port_part (a : aparts) : str := opt_pre [COLON] (ap_port a).
Lemma acompose_parts a : acompose a = ui_part a ++ ap_host a ++ port_part a.
Proof. reflexivity. Qed.

(* find_host on the window, as a concrete value *)
Lemma find_host_value a before : wf_aparts a ->
  find_host (before ++ acompose a) (length before) =
  (length before + length (ui_part a), length before + length (ui_part a) + length (ap_host a)).
Proof.
  intros W. pose proof (port_tail_of a W) as Hpt. destruct W as [Hu Hh Hp].
  unfold find_host, user_info_or_host. rewrite skipn_app_len. unfold acompose, ui_part.
  destruct (ap_userinfo a) as [u|] eqn:Eu; simpl opt_post.
  - specialize (Hu u eq_refl). rewrite <- app_assoc. simpl app. rewrite uih_userinfo by auto.
    destruct Hh as [(body & Eh & Hbody) | Hplain].
    + rewrite (host_end_literal _ (before ++ u ++ [AT]) body (opt_pre [COLON] (ap_port a))); auto.
      * rewrite Eh. f_equal; lens.
      * rewrite Eh. rewrite <- !app_assoc. reflexivity.
      * lens.
    + rewrite (host_end_plain _ (before ++ u ++ [AT]) (ap_host a) (opt_pre [COLON] (ap_port a))); auto.
      * f_equal; lens.
      * rewrite <- !app_assoc. reflexivity.
      * lens.
  - simpl app. destruct Hh as [(body & Eh & Hbody) | Hplain].
    + rewrite Eh. simpl app. rewrite <- app_assoc. simpl app. rewrite uih_host_literal; auto.
      * f_equal; lens.
      * lens.
    + rewrite uih_host_plain by auto. f_equal; lens.
Qed.

Definition with_host (a : aparts) (hst : str) : aparts :=
  {| ap_userinfo := ap_userinfo a; ap_host := hst; ap_port := ap_port a |}.

Theorem set_host_spec h a before after new : Inv h a before after -> wf_aparts a ->
  exists h', set_host h new = Some h' /\ Inv h' (with_host a new) before after.
Proof.
  intros I W. unfold set_host. rewrite (window_inv h a before after I). destruct I as (Hd & Hs & He).
  rewrite Hs, find_host_value by auto.
  unfold sub_chk.
  replace (length before + length (ui_part a) + length (ap_host a) - (length before + length (ui_part a))) with (length (ap_host a)) by lia.
  replace (length (ap_host a) <=? h_end h + length new) with true
    by (symmetry; apply Nat.leb_le; rewrite He, acompose_parts; lens).
  simpl bind. rewrite Hd, acompose_parts.
  replace (before ++ (ui_part a ++ ap_host a ++ port_part a) ++ after)
    with ((before ++ ui_part a) ++ ap_host a ++ (port_part a ++ after)) by (rewrite <- !app_assoc; reflexivity).
  replace (length before + length (ui_part a)) with (length (before ++ ui_part a)) by lens.
  rewrite replace_spec. simpl bind. eexists; split; [reflexivity|].
  unfold Inv; simpl. repeat split.
  - unfold with_host, acompose, ui_part, port_part. simpl. rewrite <- !app_assoc. reflexivity.
  - rewrite He. unfold with_host, acompose, ui_part, port_part. simpl. lens.
Qed.
Print Assumptions set_host_spec.
