(* C09: the copying normalisation PathImpl::normalized (a fold of symbolic pushes, each through a fresh whole-buffer
   handle) equals RFC 3986 5.2.4 on every path without an empty segment before its last one and without a ':' in the
   first position that would need the "./" shield (any segment whose first_segment_contains_colon test is true). *)
From Coq Require Import List NArith Bool Arith Lia.
Import ListNotations.
Require Import V.Regex V.Parse V.ParseProofs V.Parse2 V.PathSpec V.Splice V.Setters V.Iter V.PathQ V.Push V.PathMut V.PathMutProofs
  V.C05Proofs V.Rfc V.PushWf V.IterProofs V.IterAll V.C12Proofs V.NormProofs V.PopProofs V.ParentProofs V.SymProofs V.MergeProofs V.ResolveProofs3 V.ResolveProofs4.
Local Open Scope nat_scope.

Lemma fresh_inv buf : PInv (pm_from_path buf) [] buf [].
Proof. unfold PInv, pm_from_path. cbn [pm_buf pm_start pm_end app length]. rewrite app_nil_r. auto. Qed.
Lemma pinv_buf h v : PInv h [] v [] -> pm_buf h = v.
Proof. intros (E & _ & _). rewrite E. cbn [app]. apply app_nil_r. Qed.

(* one symbolic push through a fresh handle = the text-level step in the PathBuf context (start = 0, follows_authority) *)
Lemma fresh_sym buf seg : none_of [QM; HASH] buf ->
  exists h', pm_symbolic_push (pm_from_path buf) seg = Some (h', snd (sym1 true true buf seg)) /\ pm_buf h' = fst (sym1 true true buf seg).
Proof.
  intros H. pose proof (fresh_inv buf) as I. unfold pm_symbolic_push, sym1. destruct (is_dot seg).
  - eexists. split; [reflexivity | reflexivity].
  - destruct (is_dotdot seg).
    + pose proof (pm_pop_refines _ _ _ _ I) as R. cbn [pm_from_path pm_start pm_fa Nat.eqb] in R. rewrite (pop1_spec true true buf H) in R.
      destruct R as (h' & E & I' & _). rewrite E. cbn [bind]. exists h'. split; [reflexivity | apply (pinv_buf _ _ I')].
    + rewrite (pm_view_inv _ _ _ _ I). cbn [bind]. destruct (negb (is_nil seg) || negb (path_is_empty buf)).
      * destruct (pm_push_refines _ _ _ _ seg I) as (h' & E & I' & _). cbn [pm_from_path pm_start pm_fa Nat.eqb] in I'. rewrite E. cbn [bind].
        exists h'. split; [reflexivity | apply (pinv_buf _ _ I')].
      * eexists. split; reflexivity.
Qed.

Definition seg_fine (s : str) : Prop := (nonempty_seg s /\ seg_ctx true s) /\ none_of [QM; HASH] s.

Lemma rep_noqh ab v l : Rep ab v l -> Forall (none_of [QM; HASH]) l -> none_of [QM; HASH] v.
Proof.
  intros (-> & _ & _) H.
  assert (Hsl : ~ In SLASH [QM; HASH]) by (simpl; unfold SLASH, QM, HASH; intros [E|[E|[]]]; discriminate).
  unfold render. apply Forall_app. split; [destruct ab; repeat constructor; exact Hsl | now apply none_of_join].
Qed.

Lemma ctx_pathbuf ab : ctx_ok true true ab. Proof. intros E. discriminate E. Qed.

Lemma nfold ab segs : Forall seg_fine segs -> forall buf l open, Rep ab buf l -> Forall (none_of [QM; HASH]) l ->
  normalized_fold buf open segs = Some (sym_fold1 true true buf open segs).
Proof.
  induction 1 as [|s rest [Hs Hq] _ IH]; intros buf l open R Hl; cbn [normalized_fold sym_fold1].
  - reflexivity.
  - destruct (fresh_sym buf s (rep_noqh ab buf l R Hl)) as (h' & E & Eb). rewrite E. cbn [bind].
    destruct (sym1_rep true ab true buf l s R (ctx_pathbuf ab) (proj2 Hs) (proj1 Hs)) as [R1 _].
    destruct (sym1 true true buf s) as [v1 o1]. cbn [fst snd] in *. rewrite Eb.
    apply (IH v1 _ o1 R1). apply Forall_forall. intros x Hx. apply in_rev in Hx.
    destruct (step_sub _ _ _ _ Hx) as [->|Hi]; [exact Hq|]. rewrite Forall_forall in Hl. apply Hl. now apply in_rev in Hi.
Qed.


Lemma nfold_trailing ab segs : Forall seg_fine segs -> forall buf l open, Rep ab buf l -> Forall (none_of [QM; HASH]) l ->
  normalized_fold buf open (segs ++ [[]]) = Some (sym_fold1 true true buf open (segs ++ [[]])).
Proof.
  induction 1 as [|s rest [Hs Hq] _ IH]; intros buf l open R Hl; cbn [app normalized_fold sym_fold1].
  - destruct (fresh_sym buf [] (rep_noqh ab buf l R Hl)) as (h' & E & Eb). rewrite E. cbn [bind]. rewrite Eb.
    destruct (sym1 true true buf []) as [v1 o1]. reflexivity.
  - destruct (fresh_sym buf s (rep_noqh ab buf l R Hl)) as (h' & E & Eb). rewrite E. cbn [bind].
    destruct (sym1_rep true ab true buf l s R (ctx_pathbuf ab) (proj2 Hs) (proj1 Hs)) as [R1 _].
    destruct (sym1 true true buf s) as [v1 o1]. cbn [fst snd] in *. rewrite Eb.
    apply (IH v1 _ o1 R1). apply Forall_forall. intros x Hx. apply in_rev in Hx.
    destruct (step_sub _ _ _ _ Hx) as [->|Hi]; [exact Hq|]. rewrite Forall_forall in Hl. apply Hl. now apply in_rev in Hi.
Qed.

(* the closing push through a fresh handle *)
Lemma fresh_close buf open :
  (if open && negb (path_is_empty buf) then bind (pm_push (pm_from_path buf) []) (fun h => Some (pm_buf h)) else Some buf)
  = Some (close1 true true (buf, open)).
Proof.
  unfold close1. destruct (open && negb (path_is_empty buf)); [|reflexivity].
  destruct (pm_push_refines _ _ _ _ [] (fresh_inv buf)) as (h' & E & I' & _). cbn [pm_from_path pm_start pm_fa Nat.eqb] in I'.
  rewrite E. cbn [bind]. rewrite (pinv_buf _ _ I'). reflexivity.
Qed.

Definition colon_free (p : str) : Prop := Forall (fun s => colon_first s = false) (segs p).

Theorem path_normalized_is_rds p : none_of [QM; HASH] p -> no_empty_but_last p -> colon_free p ->
  path_normalized p = Some (rds p).
Proof.
  intros H Hne Hcf. unfold path_normalized. rewrite (seg_texts_segs p H).
  set (ab := is_abs p). set (start := if ab then [SLASH] else @nil N).
  assert (R0 : Rep ab start (norm ab [])).
  { split; [unfold start, render; destruct ab; reflexivity | split; [constructor | exists [], []; repeat split; auto]]. }
  assert (Hfine : forall l, clean l -> (forall x, In x l -> In x (segs p)) -> Forall seg_fine l).
  { intros l Cl Hsub. unfold clean in Cl. rewrite Forall_forall in *. intros x Hx. split; [split; [apply Cl, Hx|]|].
    - intros _. unfold colon_free in Hcf. rewrite Forall_forall in Hcf. apply Hcf, Hsub, Hx.
    - pose proof (segs_none_of _ p H) as Hq. rewrite Forall_forall in Hq. apply Hq, Hsub, Hx. }
  assert (Hgood : forall l, Forall seg_fine l -> Forall (fun s => nonempty_seg s /\ seg_ctx true s) l).
  { intros l Hl. eapply Forall_impl; [|exact Hl]. intros x [Hx _]. exact Hx. }
  destruct (segs p) as [|s0 r0] eqn:EL.
  - (* "" or "/" *)
    cbn [normalized_fold bind andb]. f_equal. unfold rds. rewrite EL. unfold start, ab. destruct (is_abs p); reflexivity.
  - rewrite <- EL in *. assert (HL : segs p <> []) by (rewrite EL; discriminate).
    destruct (no_inner_split (segs p) (segs_noslash p) Hne HL) as [CL|(L0 & EL0 & CL)].
    + rewrite (nfold ab (segs p) (Hfine _ CL (fun x Hx => Hx)) start [] false R0 (Forall_nil _)). cbn [bind].
      destruct (sym_fold1 true true start false (segs p)) as [b1 o1] eqn:Ef. rewrite fresh_close.
      f_equal. rewrite <- Ef. change (close1 true true (sym_fold1 true true start false (segs p))) with (sym_append1 true true start (segs p)).
      rewrite (append_all_nonempty true ab true start [] (segs p) R0 (ctx_pathbuf ab) HL (Hgood _ (Hfine _ CL (fun x Hx => Hx)))). reflexivity.
    + assert (Hsub : forall x, In x L0 -> In x (segs p)) by (intros x Hx; rewrite EL0; apply in_or_app; left; exact Hx).
      replace (normalized_fold start false (segs p)) with (Some (sym_fold1 true true start false (segs p)))
        by (rewrite EL0; symmetry; apply (nfold_trailing ab L0 (Hfine _ CL Hsub) start [] false R0 (Forall_nil _))).
      cbn [bind].
      destruct (sym_fold1 true true start false (segs p)) as [b1 o1] eqn:Ef. rewrite fresh_close.
      f_equal. rewrite <- Ef. change (close1 true true (sym_fold1 true true start false (segs p))) with (sym_append1 true true start (segs p)).
      rewrite (append_trailing_empty true ab true start [] (segs p) R0 (ctx_pathbuf ab) L0 EL0 (Hgood _ (Hfine _ CL Hsub))). reflexivity.
Qed.
