(* L1 model of PathMutImpl::push AS REPAIRED (G4, G5, G6) and the list law of C10. *)
From Coq Require Import List NArith Bool Arith Lia.
Import ListNotations.
Require Import V.Regex V.Parse V.ParseProofs V.PathSpec V.Iter.
Local Open Scope nat_scope.

Definition is_nil (l : str) : bool := match l with [] => true | _ => false end.
Fixpoint colon_first (s : str) : bool :=     (* parse::first_segment_contains_colon *)
  match s with [] => false | c :: s' => if is c COLON then true else if is c SLASH then false else colon_first s' end.
Definition ends_dotslash (p : str) : bool :=   (* bytes.ends_with(b"/./") *)
  match rev p with c3 :: c2 :: c1 :: _ => is c1 SLASH && is c2 DOT && is c3 SLASH | _ => false end.
Definition drop_last2 (p : str) : str := firstn (length p - 2) p.

(* start0 : self.start == 0;  fa : self.follows_authority *)
Definition push (start0 fa : bool) (p0 seg : str) : str :=
  let p := if fa && negb start0 && is_nil p0 then [SLASH] else p0 in
  let empty := path_is_empty p in
  if empty && ((start0 && colon_first seg) || is_nil seg) then
    (if is_abs p then [SLASH] else []) ++ [DOT; SLASH] ++ seg
  else if empty then p ++ seg
  else if (fa || (3 <? length p)) && ends_dotslash p then drop_last2 p ++ [SLASH] ++ seg
  else p ++ [SLASH] ++ seg.

Definition nodot (l : list seg) : list seg := filter (fun s => negb (is_dot s)) l.

(* ---------- segs of an extended path ---------- *)
Lemma segs_cons2 c d r : segs (c :: d :: r) = if is c SLASH then split (d :: r) else split (c :: d :: r).
Proof. reflexivity. Qed.
Lemma segs_snoc p t : path_is_empty p = false -> segs (p ++ SLASH :: t) = segs p ++ split t.
Proof.
  intros H. destruct p as [|c [|d r]]; [discriminate | |].
  - simpl in H. change ([c] ++ SLASH :: t) with (c :: SLASH :: t). rewrite segs_cons2, H.
    unfold segs. rewrite H. apply (split_app [c] t).
  - change ((c :: d :: r) ++ SLASH :: t) with (c :: d :: (r ++ SLASH :: t)). rewrite !segs_cons2.
    destruct (is c SLASH).
    + apply (split_app (d :: r) t).
    + apply (split_app (c :: d :: r) t).
Qed.

Lemma noslash_split s : noslash s -> split s = [s].
Proof. apply split_noslash. Qed.

Lemma nodot_app a b : nodot (a ++ b) = nodot a ++ nodot b.
Proof. apply filter_app. Qed.

Lemma is_dot_colon seg : colon_first seg = true -> is_dot seg = false.
Proof. destruct seg as [|c [|d s]]; simpl; auto. destruct (is c COLON) eqn:E; auto. apply N.eqb_eq in E; subst. reflexivity. destruct (is c SLASH); discriminate. Qed.

(* paths of the form q ++ "/./" *)
Lemma ends_dotslash_inv p : ends_dotslash p = true -> exists q, p = q ++ [SLASH; DOT; SLASH].
Proof.
  unfold ends_dotslash. destruct (rev p) as [|c3 [|c2 [|c1 r]]] eqn:E; try discriminate.
  rewrite !andb_true_iff. intros [[H1 H2] H3]. apply N.eqb_eq in H1, H2, H3. subst.
  exists (rev r). rewrite <- (rev_involutive p), E. simpl. rewrite <- !app_assoc. reflexivity.
Qed.
Lemma drop_last2_app q a b : drop_last2 (q ++ [a; b]) = q.
Proof. unfold drop_last2. rewrite app_length. simpl. replace (length q + 2 - 2) with (length q) by lia.
  rewrite firstn_app, Nat.sub_diag, firstn_all. simpl. apply app_nil_r. Qed.

Theorem push_law start0 fa p seg : noslash seg ->
  nodot (segs (push start0 fa p seg)) = nodot (segs p ++ [seg]).
Proof.
  intros Hseg. unfold push.
  set (p1 := if fa && negb start0 && is_nil p then [SLASH] else p).
  assert (Hsegs : segs p1 = segs p).
  { unfold p1. destruct (fa && negb start0 && is_nil p) eqn:E; auto.
    apply andb_true_iff in E as [_ E]. destruct p; [reflexivity | discriminate]. }
  rewrite <- Hsegs. clearbody p1. clear Hsegs p. rename p1 into p.
  destruct (path_is_empty p) eqn:Ee.
  - (* empty path: "" or "/" *)
    assert (Hs0 : segs p = []).
    { destruct p as [|c [|d r]]; simpl in *; auto; [rewrite Ee; reflexivity | discriminate]. }
    rewrite Hs0. simpl app. cbn [andb].
    destruct ((start0 && colon_first seg) || is_nil seg) eqn:Ed.
    + (* shielded *)
      assert (Hnd : is_dot seg = false).
      { apply orb_true_iff in Ed as [Ed|Ed].
        - apply andb_true_iff in Ed as [_ Ed]. now apply is_dot_colon.
        - destruct seg; [reflexivity | discriminate]. }
      assert (Hshield : segs ((if is_abs p then [SLASH] else []) ++ [DOT; SLASH] ++ seg) = [[DOT]; seg]).
      { destruct (is_abs p); simpl app.
        - unfold segs. change (is SLASH SLASH) with true. cbn iota.
          change (DOT :: SLASH :: seg) with ([DOT] ++ SLASH :: seg). rewrite split_app, (noslash_split seg) by auto. reflexivity.
        - unfold segs. change (is DOT SLASH) with false. cbn iota.
          change (DOT :: SLASH :: seg) with ([DOT] ++ SLASH :: seg). rewrite split_app, (noslash_split seg) by auto. reflexivity. }
      change ([DOT; SLASH] ++ seg) with (DOT :: SLASH :: seg) in Hshield. rewrite Hshield. unfold nodot. simpl. change (is DOT DOT) with true. simpl. rewrite Hnd. reflexivity.
    + (* plain append to "" or "/" : seg is not empty *)
      apply orb_false_iff in Ed as [_ Hne]. destruct seg as [|c0 seg']; [discriminate|].
      assert (Hc0 : is c0 SLASH = false) by (inversion Hseg; subst; now apply N.eqb_neq).
      f_equal. destruct p as [|c [|d r]]; simpl in Ee; try discriminate.
      * simpl app. unfold segs. rewrite Hc0. now rewrite noslash_split.
      * apply N.eqb_eq in Ee; subst c. simpl app. unfold segs. change (is SLASH SLASH) with true. cbn iota.
        now rewrite noslash_split.
  - cbn [andb].
    destruct ((fa || (3 <? length p)) && ends_dotslash p) eqn:Edd.
    + (* the trailing "./" is dropped *)
      apply andb_true_iff in Edd as [_ Edd]. apply ends_dotslash_inv in Edd as (q & ->).
      replace (q ++ [SLASH; DOT; SLASH]) with ((q ++ [SLASH]) ++ [DOT; SLASH]) by (rewrite <- app_assoc; reflexivity).
      rewrite drop_last2_app.
      assert (Hd : forall l, nodot ([DOT] :: l) = nodot l) by (intros l; unfold nodot; simpl; change (is DOT DOT) with true; reflexivity).
      assert (He : forall l, nodot ([] :: l) = [] :: nodot l) by reflexivity.
      assert (Sdot : split [DOT; SLASH] = [[DOT]; []]) by reflexivity.
      assert (Sseg : split (SLASH :: seg) = [[]; seg]).
      { change (SLASH :: seg) with ([] ++ SLASH :: seg). rewrite split_app, (noslash_split seg) by auto. reflexivity. }
      destruct (path_is_empty q) eqn:Eq.
      * (* q = "" or q = "/" *)
        destruct q as [|c [|d r]]; simpl in Eq; try discriminate.
        -- (* "/./" -> "//seg" *)
           simpl. rewrite (noslash_split seg) by auto. reflexivity.
        -- (* "//./" -> "///seg" *)
           apply N.eqb_eq in Eq; subst c. simpl. rewrite (noslash_split seg) by auto. reflexivity.
      * replace ((q ++ [SLASH]) ++ [SLASH] ++ seg) with (q ++ SLASH :: (SLASH :: seg)) by (rewrite <- app_assoc; reflexivity).
        replace ((q ++ [SLASH]) ++ [DOT; SLASH]) with (q ++ SLASH :: [DOT; SLASH]) by (rewrite <- app_assoc; reflexivity).
        rewrite !segs_snoc by auto. rewrite Sseg, Sdot. rewrite <- !app_assoc. rewrite !nodot_app.
        f_equal; try (simpl app; rewrite Hd, !He; reflexivity).
    + (* general case *)
      simpl app. rewrite segs_snoc by auto. now rewrite noslash_split.
Qed.
Print Assumptions push_law.
