(* Model of the segment iterator of common/path.rs (PathImpl::segment_at, next_segment_from,
   previous_segment_from, SegmentsImpl::next / next_back). *)
From Coq Require Import List NArith Bool Arith.
Import ListNotations.
Require Import V.Regex V.Parse V.PathSpec V.Splice V.Setters.
Local Open Scope nat_scope.

Definition stop_seg (c : N) : bool := is c SLASH || is_qh c.
Definition first_off (p : str) : nat := if is_abs p then 1 else 0.
Definition path_is_empty (p : str) : bool := match p with [] => true | [c] => is c SLASH | _ => false end.

(* (slice offset..i, i + 1) *)
Definition segment_at (p : str) (offset : nat) : range * nat :=
  let i := scan stop_seg (skipn offset p) offset in ((offset, i), i + 1).
Definition next_segment_from (p : str) (offset : nat) : option (range * nat) :=
  if offset <=? length p then Some (segment_at p offset) else None.

(* `while i > first && bytes[i] != '/' { i -= 1 }` ; None = index out of bounds *)
Fixpoint back_scan (p : str) (first i : nat) (fuel : nat) : option nat :=
  match fuel with O => Some i | S f =>
    if first <? i then
      match get_nth p i with
      | None => None
      | Some c => if is c SLASH then Some i else back_scan p first (i - 1) f
      end
    else Some i
  end.
Definition previous_segment_from (p : str) (offset : nat) : option (option (range * nat)) :=   (* outer None = panic *)
  if 2 <=? offset then
    let first := first_off p in
    bind (back_scan p first (offset - 2) (S (length p))) (fun i =>
    bind (get_nth p i) (fun c =>
      if is c SLASH then let j := i + 1 in Some (Some (fst (segment_at p j), j))
      else Some (Some (fst (segment_at p first), first))))
  else Some None.

Inductive it_state := ItEmpty | ItNonEmpty (offset back_offset : nat).
Definition segments (p : str) : it_state :=
  if path_is_empty p then ItEmpty else ItNonEmpty (first_off p) (length p + 1).

Definition it_next (p : str) (s : it_state) : option range * it_state :=
  match s with
  | ItEmpty => (None, s)
  | ItNonEmpty o b =>
    if o <? b then match next_segment_from p o with Some (r, i) => (Some r, ItNonEmpty i b) | None => (None, s) end
    else (None, s)
  end.
Definition it_next_back (p : str) (s : it_state) : option (option range * it_state) :=
  match s with
  | ItEmpty => Some (None, s)
  | ItNonEmpty o b =>
    if o <? b then
      match previous_segment_from p b with
      | None => None
      | Some (Some (r, i)) => Some (Some r, ItNonEmpty o i)
      | Some None => Some (None, s)
      end
    else Some (None, s)
  end.
