(* RFC 3986 section 5.2 as a specification on components (parts) and segment lists:
   remove_dot_segments (5.2.4, on the segment list, Errata 4547 for relative paths), merge (5.2.3),
   transform references (5.2.2).  Spec only; the executable model of the Rust code is Reference.v. *)
From Coq Require Import List NArith Bool Arith Lia.
Import ListNotations.
Require Import V.Regex V.Parse V.ParseProofs V.PathSpec.
Local Open Scope nat_scope.

Definition last_is_dot (l : list seg) : bool :=
  match rev l with s :: _ => is_dot s || is_dotdot s | [] => false end.
Definition nil_segs (l : list seg) : bool := match l with [] => true | _ => false end.

(* the segment sequence of the 5.2.4 output: the left-to-right walk, plus the trailing empty segment
   that a final "." or ".." leaves ("/a/b/." -> "/a/b/") *)
Definition rds_segs (ab : bool) (l : list seg) : list seg :=
  let n := norm ab l in if last_is_dot l && negb (nil_segs n) then n ++ [[]] else n.
Definition rds (p : str) : str := render (is_abs p) (rds_segs (is_abs p) (segs p)).

(* 5.2.3 *)
Definition dir_of (p : str) : str :=           (* up to and including the last '/' *)
  let fix go (l : str) (acc cur : str) : str :=
    match l with [] => acc | c :: r => if is c SLASH then go r (acc ++ cur ++ [c]) [] else go r acc (cur ++ [c]) end in
  go p [] [].
Definition merge (base : parts) (rpath : str) : str :=
  match p_authority base, p_path base with
  | Some _, [] => SLASH :: rpath
  | _, bp => dir_of bp ++ rpath
  end.

(* 5.2.2 *)
Definition rfc_target (base r : parts) : parts :=
  match p_scheme r with
  | Some _ => {| p_scheme := p_scheme r; p_authority := p_authority r; p_path := rds (p_path r); p_query := p_query r; p_fragment := p_fragment r |}
  | None =>
    match p_authority r with
    | Some _ => {| p_scheme := p_scheme base; p_authority := p_authority r; p_path := rds (p_path r); p_query := p_query r; p_fragment := p_fragment r |}
    | None =>
      match p_path r with
      | [] => {| p_scheme := p_scheme base; p_authority := p_authority base; p_path := p_path base;
                 p_query := match p_query r with Some q => Some q | None => p_query base end; p_fragment := p_fragment r |}
      | c :: _ =>
        {| p_scheme := p_scheme base; p_authority := p_authority base;
           p_path := if is c SLASH then rds (p_path r) else rds (merge base (p_path r));
           p_query := p_query r; p_fragment := p_fragment r |}
      end
    end
  end.

(* the 5.2.4 output never contains "." and keeps ".." only as a leading run of a relative path *)
Lemma normal_snoc_empty ab l : normal ab l -> normal ab (l ++ [[]]).
Proof.
  intros (ups & rest & -> & Hu & Hr & Ha). exists ups, (rest ++ [[]]). rewrite app_assoc. repeat split; auto.
  apply plain_app. split; auto. simpl. auto.
Qed.
Theorem rds_segs_normal ab l : normal ab (rds_segs ab l).
Proof.
  unfold rds_segs. destruct (last_is_dot l && negb (nil_segs (norm ab l))).
  - apply normal_snoc_empty, norm_normal.
  - apply norm_normal.
Qed.
(* on a dot-free list the walk changes nothing *)
Theorem rds_segs_plain ab l : plain l -> rds_segs ab l = l.
Proof.
  intros H. unfold rds_segs.
  assert (E : norm ab l = l). { apply norm_id_on_normal. exists [], l. repeat split; auto. }
  rewrite E. destruct (last_is_dot l) eqn:D; auto.
  exfalso. unfold last_is_dot in D. destruct (last_case l) as [->|(l' & x & ->)]; [discriminate|].
  rewrite rev_app_distr in D. simpl in D. apply plain_app in H as [_ (H1 & H2 & _)]. rewrite H1, H2 in D. discriminate.
Qed.
