(* C04 at the level of the RFC grammar for the path: a text is a path of the grammar (any of the five forms) iff every
   piece of its '/'-split is a segment of the grammar.  The link to the grammar is two inclusion certificates between
   ipath and the raw shape  segment *( "/" segment ), plus "segments contain no '/'". *)
From Coq Require Import List NArith Bool Arith Lia.
Import ListNotations.
Require Import V.Regex V.Bisim V.Abnf V.Parse V.ParseProofs V.Bridge V.Factor V.BridgePaths V.PathSpec V.Shapes.
Local Open Scope nat_scope.
Local Strategy opaque [L].

Lemma StarL r s : L (Star r) s = star_lang (L r) s.
Proof. reflexivity. Qed.

Definition tailjoin (l : list str) : str := concat (map (fun s => SLASH :: s) l).
Lemma join_cons s l : join (s :: l) = s ++ tailjoin l.
Proof.
  revert s. induction l as [|t l IH]; intros s; [cbn [join tailjoin map concat]; now rewrite app_nil_r|].
  change (join (s :: t :: l)) with (s ++ SLASH :: join (t :: l)). rewrite IH. reflexivity.
Qed.

Section Fam.
  Variable X : cls.
  Let SEG := isegment X.
  Definition RP : re := Cat (isegment X) (Star (Cat (ch SLASH) (isegment X))).
  Hypothesis c1 : incl_check RP (ipath X) = true.
  Hypothesis c2 : incl_check (ipath X) RP = true.
  Hypothesis c3 : incl_check (isegment X) (Star (Cls not_slash)) = true.

  Lemma seg_noslash s : L SEG s -> noslash s.
  Proof.
    intros H. apply (incl_check_sound _ _ c3) in H. apply star_cls_forall in H. unfold noslash.
    eapply Forall_impl; [|exact H]. intros c Hc. now apply in_not_slash.
  Qed.

  Lemma star_tail l : Forall (L SEG) l -> L (Star (Cat (ch SLASH) SEG)) (tailjoin l).
  Proof.
    intros H. rewrite StarL. induction H as [|s l Hs _ IH]; [apply star_nil|]. cbn [tailjoin map concat]. apply (star_app _ (SLASH :: s) _).
    - apply lit1_L. eauto.
    - exact IH.
  Qed.
  Lemma star_tail_inv v : L (Star (Cat (ch SLASH) SEG)) v -> exists l, Forall (L SEG) l /\ v = tailjoin l.
  Proof.
    intros H. rewrite StarL in H. induction H as [|s1 s2 H1 _ (l & Hl & ->)].
    - exists []. split; [constructor | reflexivity].
    - apply lit1_L in H1 as (t & -> & Ht). exists (t :: l). split; [constructor; assumption | reflexivity].
  Qed.

  Theorem path_iff v : L (ipath X) v <-> Forall (L SEG) (split v).
  Proof.
    split.
    - intros H. apply (incl_check_sound _ _ c2) in H. unfold RP in H. apply Cat_L in H as (s & t & -> & Hs & Ht).
      apply star_tail_inv in Ht as (l & Hl & ->). rewrite <- join_cons.
      rewrite split_join; [constructor; assumption | discriminate|].
      constructor; [now apply seg_noslash|]. eapply Forall_impl; [|exact Hl]. intros x. apply seg_noslash.
    - intros H. apply (incl_check_sound _ _ c1). rewrite <- (join_split v).
      destruct (split v) as [|s l] eqn:E; [now apply split_nonempty in E|]. inversion H; subst.
      rewrite join_cons. unfold RP. apply Cat_L. exists s, (tailjoin l). split; [reflexivity | split; [assumption | now apply star_tail]].
  Qed.

  (* in terms of the library's segments *)
  Lemma nil_seg : L SEG [].
  Proof. unfold SEG, isegment. apply star_L. apply star_nil. Qed.
  Theorem path_of_segs v : Forall (L SEG) (segs v) -> L (ipath X) v.
  Proof.
    intros H. apply path_iff. unfold segs in H. destruct v as [|c r]; [cbn [split]; constructor; [exact nil_seg | constructor]|].
    destruct (is c SLASH) eqn:Ec.
    - cbn [split]. rewrite Ec. constructor; [exact nil_seg|]. destruct r; [cbn [split]; constructor; [exact nil_seg | constructor] | exact H].
    - exact H.
  Qed.
  Theorem segs_of_path v : L (ipath X) v -> Forall (L SEG) (segs v).
  Proof.
    intros H. apply path_iff in H. unfold segs. destruct v as [|c r]; [constructor|].
    destruct (is c SLASH) eqn:Ec.
    - cbn [split] in H. rewrite Ec in H. inversion H; subst. destruct r; [constructor | assumption].
    - exact H.
  Qed.
End Fam.
