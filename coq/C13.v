(* Property C13 -- URIs embed into IRIs; a reference is a full URI/IRI exactly when it has a scheme.
   Statements only.  (The same inclusions are proved on the GENERATED validators on every run: files
   C13_<a>_in_<b>.v written by tools/c13.py.) *)
From Coq Require Import List NArith Bool Arith.
Import ListNotations.
Require Import V.Regex V.Abnf V.Parse V.Bridge V.BridgePaths V.C02Bridge V.C13Proofs V.C13Ascii.
Open Scope N_scope.

Theorem C13_uri_is_iri : forall s, L (IRI U U) s -> L (IRI I C02Bridge.P) s.
Proof. exact (incl_check_sound _ _ uri_in_iri). Qed.
Print Assumptions C13_uri_is_iri.
Theorem C13_uriref_is_iriref : forall s, L (IRI_reference U U) s -> L (IRI_reference I C02Bridge.P) s.
Proof. exact (incl_check_sound _ _ uriref_in_iriref). Qed.
Print Assumptions C13_uriref_is_iriref.
Theorem C13_uri_iff_scheme : forall s, L (IRI U U) s <-> L (IRI_reference U U) s /\ L SCHEME_SHAPE s.
Proof. exact uri_iff_ref_with_scheme. Qed.
Print Assumptions C13_uri_iff_scheme.
Theorem C13_iri_iff_scheme : forall s, L (IRI I C02Bridge.P) s <-> L (IRI_reference I C02Bridge.P) s /\ L SCHEME_SHAPE s.
Proof. exact iri_iff_ref_with_scheme. Qed.
Print Assumptions C13_iri_iff_scheme.

(* the partial conversions back (as_uri, as_uri_ref, try_into_uri, try_into_uri_ref re-validate the text as a URI):
   an IRI (IRI reference) is a URI (URI reference) exactly when it contains no non-ASCII character *)
Theorem C13_iri_is_uri_iff_ascii : forall s, L (IRI I C02Bridge.P) s -> (L (IRI U U) s <-> Forall (fun c => (c < 128)%N) s).
Proof. exact iri_is_uri_iff_ascii. Qed.
Print Assumptions C13_iri_is_uri_iff_ascii.
Theorem C13_iriref_is_uriref_iff_ascii : forall s, L (IRI_reference I C02Bridge.P) s -> (L (IRI_reference U U) s <-> Forall (fun c => (c < 128)%N) s).
Proof. exact iriref_is_uriref_iff_ascii. Qed.
Print Assumptions C13_iriref_is_uriref_iff_ascii.
