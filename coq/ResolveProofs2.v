(* C06: the branches of resolve that do not merge paths (reference with a scheme, with an authority, or with an
   absolute path) refine RFC 3986 5.2.2: exact text-level result for ALL well-formed inputs (rds_impl), equal to
   the RFC target under the exact condition rds_exact (whose complement is the recorded class K_R2). *)
From Coq Require Import List NArith Bool Arith Lia.
Import ListNotations.
Require Import V.Regex V.Parse V.ParseProofs V.Parse2 V.Parse2Proofs V.ScanValues V.PathSpec V.Splice V.Setters V.Push
  V.SetPath V.SetAuth V.SetScheme V.Iter V.Reference V.SetFragment V.C05Proofs V.GetProofs V.Rfc V.RefPath V.NormProofs.
Local Open Scope nat_scope.

Section NoMerge.
  Variables pb pr : parts.
  Variable s : str.
  Hypothesis Wb : wf_parts pb.
  Hypothesis Wr : wf_parts pr.
  Hypothesis Hbs : p_scheme pb = Some s.

  Lemma s_ok' : forall x, Some s = Some x -> x <> [] /\ none_of [COLON; SLASH; QM; HASH] x.
  Proof. intros x E. injection E as <-. apply (wf_scheme pb Wb). exact Hbs. Qed.

  (* the reference has a scheme *)
  Theorem resolve_scheme sr : p_scheme pr = Some sr ->
    resolve (compose pr) (compose pb) = Some (compose (with_path pr (rds_impl false (has (p_authority pr)) (p_path pr)))).
  Proof.
    intros Hrs. unfold resolve. rewrite (reference_parts_compose pr Wr). unfold expected. cbn [r_scheme]. rewrite Hrs. cbn [option_map].
    rewrite (remove_dot_segments_spec pr Wr), Hrs. reflexivity.
  Qed.

  Let p1 := with_scheme pr (Some s) (scheme_fix_path pr (Some s)).
  Lemma W1' : wf_parts p1. Proof. apply set_scheme_wf; auto using s_ok'. Qed.
  Lemma path1' : p_path p1 = p_path pr.
  Proof. unfold p1, scheme_fix_path. cbn [with_scheme p_path]. destruct (p_scheme pr), (p_authority pr); reflexivity. Qed.

  (* no scheme, an authority *)
  Theorem resolve_authority a : p_scheme pr = None -> p_authority pr = Some a ->
    resolve (compose pr) (compose pb) = Some (compose (with_path p1 (rds_impl false true (p_path pr)))).
  Proof.
    intros Hrs Hra. unfold resolve. rewrite (reference_parts_compose pr Wr). unfold expected. cbn [r_scheme r_authority]. rewrite Hrs, Hra. cbn [option_map].
    rewrite (abs_scheme_compose pb Wb s Hbs), (set_scheme_spec pr (Some s) Wr). fold p1. cbn [bind].
    rewrite (remove_dot_segments_spec p1 W1'), path1'.
    assert (E : p_authority p1 = Some a) by exact Hra. rewrite E. reflexivity.
  Qed.

  (* no scheme, no authority, an absolute path *)
  Let p2 := with_auth p1 (p_authority pb) (auth_path p1 (p_authority pb)).
  Lemma W2' : wf_parts p2.
  Proof. apply set_authority_wf; [exact W1'|]. intros a E. apply (wf_auth pb Wb). exact E. Qed.
  Lemma path2' t : p_authority pr = None -> p_path pr = SLASH :: t -> p_path p2 = p_path pr.
  Proof.
    intros Hra Hp. unfold p2, auth_path, auth_fix_path. cbn [with_auth p_path]. rewrite path1'.
    assert (E1 : p_authority p1 = None) by exact Hra. rewrite E1, Hp.
    destruct (p_authority pb); [|reflexivity]. cbn [app]. unfold is at 1. rewrite N.eqb_refl. reflexivity.
  Qed.
  Theorem resolve_abs_path t : p_scheme pr = None -> p_authority pr = None -> p_path pr = SLASH :: t ->
    resolve (compose pr) (compose pb) = Some (compose (with_path p2 (rds_impl false (has (p_authority pb)) (p_path pr)))).
  Proof.
    intros Hrs Hra Hp. unfold resolve. rewrite (reference_parts_compose pr Wr). unfold expected. cbn [r_scheme r_authority]. rewrite Hrs, Hra. cbn [option_map].
    rewrite (abs_scheme_compose pb Wb s Hbs), (set_scheme_spec pr (Some s) Wr). fold p1. cbn [bind].
    rewrite (get_path_compose p1 W1'), path1', Hp. cbn [is_abs]. unfold is at 1. rewrite N.eqb_refl. cbn [negb andb].
    unfold is at 1. rewrite N.eqb_refl.
    rewrite (get_authority_compose pb Wb), (set_authority_spec p1 (p_authority pb) W1').
    change (with_auth p1 (p_authority pb) (auth_fix_path (p_path p1) (tail_of p1) (p_authority pb) (p_authority p1))) with p2. cbn [bind].
    rewrite (remove_dot_segments_spec p2 W2'), (path2' t Hra Hp), <- Hp. reflexivity.
  Qed.

  (* the three branches in one statement, against the RFC target *)
  Definition no_merge : Prop := p_scheme pr <> None \/ p_authority pr <> None \/ is_abs (p_path pr) = true.
  Theorem resolve_no_merge : no_merge ->
    resolve (compose pr) (compose pb) =
    Some (compose (with_path (rfc_target pb pr) (rds_impl false (has (p_authority (rfc_target pb pr))) (p_path pr)))).
  Proof.
    intros H. unfold rfc_target. destruct (p_scheme pr) as [sr|] eqn:Hrs.
    - rewrite (resolve_scheme sr Hrs). unfold with_path. cbn [p_scheme p_authority p_path p_query p_fragment]. rewrite Hrs. reflexivity.
    - destruct (p_authority pr) as [a|] eqn:Hra.
      + rewrite (resolve_authority a Hrs Hra). unfold with_path, p1, with_scheme. cbn [p_scheme p_authority p_path p_query p_fragment]. rewrite Hbs, Hra. reflexivity.
      + destruct H as [H|[H|H]]; try congruence.
        destruct (p_path pr) as [|c t] eqn:Hp; [discriminate|]. cbn [is_abs] in H. pose proof H as Hc. apply is_true in Hc. subst c.
        rewrite (resolve_abs_path t Hrs Hra Hp). rewrite H.
        unfold with_path, p2, with_auth, p1, with_scheme. cbn [p_scheme p_authority p_path p_query p_fragment]. rewrite Hbs, Hp. reflexivity.
  Qed.

  Lemma target_path_no_merge : no_merge -> p_path (rfc_target pb pr) = rds (p_path pr).
  Proof.
    intros H. unfold rfc_target. destruct (p_scheme pr) eqn:Hrs; [reflexivity|]. destruct (p_authority pr) eqn:Hra; [reflexivity|].
    destruct H as [H|[H|H]]; try congruence. revert H. destruct (p_path pr) as [|c t]; intros H; cbn [is_abs] in H; [discriminate|]. rewrite H. reflexivity.
  Qed.

  Theorem resolve_no_merge_rfc : no_merge -> rds_exact (has (p_authority (rfc_target pb pr))) (p_path pr) ->
    resolve (compose pr) (compose pb) = Some (compose (rfc_target pb pr)).
  Proof.
    intros H Hx. rewrite (resolve_no_merge H), (rds_impl_exact _ _ Hx), <- (target_path_no_merge H).
    destruct (rfc_target pb pr); reflexivity.
  Qed.
End NoMerge.
