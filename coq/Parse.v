(* Model of crates/core/src/common/parse.rs (reference-level scanners). No proofs here. *)
From Coq Require Import List NArith Bool Arith.
Import ListNotations.
Require Import V.Regex.
Local Open Scope nat_scope.

Definition COLON : N := 58%N. Definition SLASH : N := 47%N. Definition QM : N := 63%N. Definition HASH : N := 35%N.
Definition is c d := N.eqb c d.
Definition is_qh (c : N) : bool := is c QM || is c HASH.

Inductive sap := SapScheme | SapAuthority | SapPath.
Inductive sapq := QStart | QSchemeOrPath | QPath | QSecondSlash | QAuthority.

(* `loop { if i < bytes.len() { ... i += 1 } else { break ... } }` of scheme_authority_or_path;
   `l` is bytes[i..] *)
Fixpoint sap_loop (q : sapq) (l : str) (i : nat) : sap * nat :=
  match l with
  | [] => (match q with QAuthority => SapAuthority | _ => SapPath end, i)
  | c :: l' =>
    match q with
    | QStart =>
      if is c COLON then (SapScheme, i) else if is_qh c then (SapPath, i)
      else if is c SLASH then sap_loop QSecondSlash l' (S i) else sap_loop QSchemeOrPath l' (S i)
    | QSchemeOrPath =>
      if is c COLON then (SapScheme, i) else if is_qh c then (SapPath, i)
      else if is c SLASH then sap_loop QPath l' (S i) else sap_loop QSchemeOrPath l' (S i)
    | QPath => if is_qh c then (SapPath, i) else sap_loop QPath l' (S i)
    | QSecondSlash =>
      if is c SLASH then sap_loop QAuthority l' (S i) else if is_qh c then (SapPath, i) else sap_loop QPath l' (S i)
    | QAuthority => if is c SLASH || is_qh c then (SapAuthority, i) else sap_loop QAuthority l' (S i)
    end
  end.
Definition scheme_authority_or_path (bytes : str) (i : nat) := sap_loop QStart (skipn i bytes) i.

Inductive aop := AopAuthority | AopPath.
Inductive aopq := AStart | ASecondSlash | APath | AAuthority.
Fixpoint aop_loop (q : aopq) (l : str) (i : nat) : aop * nat :=
  match l with
  | [] => (match q with AAuthority => AopAuthority | _ => AopPath end, i)
  | c :: l' =>
    match q with
    | AStart => if is_qh c then (AopPath, i) else if is c SLASH then aop_loop ASecondSlash l' (S i) else aop_loop APath l' (S i)
    | APath => if is_qh c then (AopPath, i) else aop_loop APath l' (S i)
    | ASecondSlash => if is c SLASH then aop_loop AAuthority l' (S i) else if is_qh c then (AopPath, i) else aop_loop APath l' (S i)
    | AAuthority => if is c SLASH || is_qh c then (AopAuthority, i) else aop_loop AAuthority l' (S i)
    end
  end.
Definition authority_or_path (bytes : str) (i : nat) := aop_loop AStart (skipn i bytes) i.

Fixpoint scan (stop : N -> bool) (l : str) (i : nat) : nat :=
  match l with [] => i | c :: l' => if stop c then i else scan stop l' (S i) end.
Definition path_end (bytes : str) (i : nat) : nat := scan is_qh (skipn i bytes) i.

(* query(bytes, i) -> (bool, usize) *)
Definition query (bytes : str) (i : nat) : bool * nat :=
  match skipn i bytes with
  | c :: l' => if is c QM then (true, scan (fun c => is c HASH) l' (S i)) else (false, i)
  | [] => (false, i)
  end.
Definition fragment (bytes : str) (i : nat) : bool * nat :=
  match skipn i bytes with
  | c :: _ => if is c HASH then (true, length bytes) else (false, length bytes)
  | [] => (false, length bytes)
  end.

Definition range := (nat * nat)%type.
Record ref_ranges := { r_scheme : option range; r_authority : option range; r_path : range; r_query : option range; r_fragment : option range }.

Definition reference_parts (bytes : str) (i : nat) : ref_ranges :=
  let '(sch, auth, path) :=
    match scheme_authority_or_path bytes i with
    | (SapScheme, scheme_end) =>
      match authority_or_path bytes (scheme_end + 1) with
      | (AopAuthority, authority_end) =>
        (Some (0, scheme_end), Some (scheme_end + 3, authority_end), (authority_end, path_end bytes authority_end))
      | (AopPath, pe) => (Some (0, scheme_end), None, (scheme_end + 1, pe))
      end
    | (SapAuthority, authority_end) => (None, Some (2, authority_end), (authority_end, path_end bytes authority_end))
    | (SapPath, pe) => (None, None, (0, pe))
    end in
  let '(has_q, qe) := query bytes (snd path) in
  let '(has_f, fe) := fragment bytes qe in
  {| r_scheme := sch; r_authority := auth; r_path := path;
     r_query := if has_q then Some (snd path + 1, qe) else None;
     r_fragment := if has_f then Some (qe + 1, fe) else None |}.

Definition slice (bytes : str) (r : range) : str := firstn (snd r - fst r) (skipn (fst r) bytes).
