From Coq Require Import List NArith Bool Arith Lia.
Import ListNotations.
Require Import V.Regex V.Parse V.ParseProofs V.Parse2.
Local Open Scope nat_scope.

Definition to_opt {A B} (x : A + B) : option A := match x with inl a => Some a | inr _ => None end.

(* find_path and find_authority agree with the one-pass decomposition by construction of the model;
   what has to be proved is that the *independent* loops (find_scheme, find_query, find_fragment, scheme)
   find the same ranges. *)

Lemma find_path_is_parts bytes : find_path bytes 0 = r_path (reference_parts bytes 0).
Proof.
  unfold find_path, reference_parts.
  destruct (scheme_authority_or_path bytes 0) as [[| |] e]; simpl.
  - destruct (authority_or_path bytes (e + 1)) as [[|] e']; simpl;
      destruct (query bytes _) as [hq qe]; destruct (fragment bytes qe); reflexivity.
  - destruct (query bytes _) as [hq qe]; destruct (fragment bytes qe); reflexivity.
  - destruct (query bytes _) as [hq qe]; destruct (fragment bytes qe); reflexivity.
Qed.

Lemma find_authority_is_parts bytes : to_opt (find_authority bytes 0) = r_authority (reference_parts bytes 0).
Proof.
  unfold find_authority, reference_parts.
  destruct (scheme_authority_or_path bytes 0) as [[| |] e]; simpl.
  - destruct (authority_or_path bytes (e + 1)) as [[|] e']; simpl;
      destruct (query bytes _) as [hq qe]; destruct (fragment bytes qe); reflexivity.
  - destruct (query bytes _) as [hq qe]; destruct (fragment bytes qe); reflexivity.
  - destruct (query bytes _) as [hq qe]; destruct (fragment bytes qe); reflexivity.
Qed.

(* ---- find_scheme ---- *)
Lemma find_scheme_some s rest start i : none_of [COLON; SLASH; QM; HASH] s ->
  find_scheme_loop (s ++ COLON :: rest) start i = Some (start, i + length s).
Proof.
  revert i. induction s as [|c s IH]; intros i H; simpl.
  - f_equal. f_equal. lia.
  - apply none_of_cons in H as [Hc H]. unfold is_qh. kill_is c. simpl. rewrite IH by auto. f_equal. f_equal. lia.
Qed.

Fixpoint no_scheme_shape (l : str) : bool :=   (* first of ':' '/' '?' '#' is not ':' *)
  match l with [] => true | c :: l' => if is c SLASH || is_qh c then true else if is c COLON then false else no_scheme_shape l' end.
Lemma find_scheme_none' l start i : no_scheme_shape l = true -> find_scheme_loop l start i = None.
Proof.
  revert i. induction l as [|c l IH]; intros i H; simpl in *; auto.
  destruct (is c SLASH || is_qh c); auto. destruct (is c COLON); [discriminate|]. auto.
Qed.

Lemma no_scheme_shape_path p rest : nocolon_first p = true -> none_of [QM; HASH] p -> ends_ok is_qh rest ->
  no_scheme_shape (p ++ rest) = true.
Proof.
  induction p as [|c p IH]; intros Hc Hp Hr; simpl in *.
  - destruct Hr as [->|(c & t & -> & Hc')]; simpl; auto. rewrite Hc'. now rewrite orb_true_r.
  - destruct (is c SLASH) eqn:E; simpl; auto. apply none_of_cons in Hp as [Hc0 Hp].
    unfold is_qh. kill_is c. simpl. destruct (is c COLON); [discriminate|]. auto.
Qed.

Theorem find_scheme_compose p : wf_parts p ->
  find_scheme (compose p) 0 = r_scheme (reference_parts (compose p) 0).
Proof.
  intros W. rewrite (reference_parts_compose p W). destruct W as [Hs Ha Hp Hq Hpa Hpn Hpc].
  unfold find_scheme, expected, compose. simpl skipn.
  destruct (p_scheme p) as [s|] eqn:Es; simpl.
  - destruct (Hs s eq_refl) as [_ Hs2]. rewrite <- app_assoc. simpl. rewrite find_scheme_some by auto. reflexivity.
  - apply find_scheme_none'.
    destruct (p_authority p) as [a|] eqn:Ea; simpl.
    + reflexivity.
    + apply no_scheme_shape_path; auto using tail_ends_qh.
Qed.

(* ---- find_query / find_fragment ---- *)
Lemma find_query_skip pre rest i : none_of [QM; HASH] pre ->
  find_query_loop (pre ++ rest) i = find_query_loop rest (i + length pre).
Proof.
  revert i. induction pre as [|c pre IH]; intros i H; simpl.
  - f_equal; lia.
  - apply none_of_cons in H as [Hc H]. kill_is c. rewrite IH by auto. f_equal; lia.
Qed.
Lemma find_fragment_skip pre rest i len : none_of [HASH] pre ->
  find_fragment_loop (pre ++ rest) i len = find_fragment_loop rest (i + length pre) len.
Proof.
  revert i. induction pre as [|c pre IH]; intros i H; simpl.
  - f_equal; lia.
  - apply none_of_cons in H as [Hc H]. kill_is c. rewrite IH by auto. f_equal; lia.
Qed.

(* everything before the tail is free of '?' and '#' *)
Definition head_of (p : parts) : str := opt_post (p_scheme p) [COLON] ++ opt_pre [SLASH; SLASH] (p_authority p) ++ p_path p.
Lemma compose_head_tail p : compose p = head_of p ++ tail_of p.
Proof. unfold compose, head_of. now rewrite <- !app_assoc. Qed.
Lemma none_of_app D a b : none_of D (a ++ b) <-> none_of D a /\ none_of D b.
Proof. unfold none_of. apply Forall_app. Qed.
Lemma head_no_qh p : wf_parts p -> none_of [QM; HASH] (head_of p).
Proof.
  intros [Hs Ha Hp Hq Hpa Hpn Hpc]. unfold head_of. apply none_of_app; split; [|apply none_of_app; split; auto].
  - destruct (p_scheme p) as [s|]; simpl; [|constructor]. apply none_of_app; split.
    + destruct (Hs s eq_refl) as [_ H]. eapply none_of_weaken; [|exact H]. simpl; tauto.
    + repeat constructor. simpl. unfold COLON, QM, HASH. intros [E|[E|[]]]; discriminate.
  - destruct (p_authority p) as [a|]; simpl; [|constructor].
    constructor; [simpl; unfold SLASH, QM, HASH; intros [E|[E|[]]]; discriminate|].
    constructor; [simpl; unfold SLASH, QM, HASH; intros [E|[E|[]]]; discriminate|].
    eapply none_of_weaken; [|exact (Ha a eq_refl)]. simpl; tauto.
Qed.

Theorem find_query_compose p : wf_parts p ->
  to_opt (find_query (compose p) 0) = r_query (reference_parts (compose p) 0).
Proof.
  intros W. rewrite (reference_parts_compose p W). pose proof (head_no_qh p W) as Hh.
  destruct W as [Hs Ha Hp Hq Hpa Hpn Hpc].
  unfold find_query. simpl skipn. rewrite compose_head_tail, find_query_skip by auto. simpl.
  assert (L : length (head_of p) = olen (p_scheme p) 1 + olen (p_authority p) 2 + length (p_path p)).
  { unfold head_of. rewrite !app_length. destruct (p_scheme p), (p_authority p); simpl; rewrite ?app_length; simpl; lia. }
  unfold expected, tail_of, q_end. simpl. destruct (p_query p) as [q|] eqn:Eq; simpl.
  - f_equal. rewrite scan_app.
    + f_equal; lia.
    + specialize (Hq q eq_refl). eapply Forall_impl; [|exact Hq]. intros c Hc. cbv beta in Hc. kill_is c. reflexivity.
    + destruct (p_fragment p); simpl; [right | left; auto]. eexists _, _. split; reflexivity.
  - destruct (p_fragment p); simpl; auto.
Qed.

Theorem find_fragment_compose p : wf_parts p ->
  to_opt (find_fragment (compose p) 0) = r_fragment (reference_parts (compose p) 0).
Proof.
  intros W. rewrite (reference_parts_compose p W). pose proof (head_no_qh p W) as Hh.
  destruct W as [Hs Ha Hp Hq Hpa Hpn Hpc].
  unfold find_fragment. simpl skipn. rewrite compose_head_tail.
  rewrite find_fragment_skip by (eapply none_of_weaken; [|exact Hh]; simpl; tauto). simpl.
  assert (L : length (head_of p) = olen (p_scheme p) 1 + olen (p_authority p) 2 + length (p_path p)).
  { unfold head_of. rewrite !app_length. destruct (p_scheme p), (p_authority p); simpl; rewrite ?app_length; simpl; lia. }
  unfold expected, tail_of, q_end. simpl. rewrite <- compose_head_tail.
  destruct (p_query p) as [q|] eqn:Eq; simpl.
  - rewrite find_fragment_skip by (apply Hq; auto).
    destruct (p_fragment p); simpl; auto. f_equal. f_equal. lia.
  - destruct (p_fragment p); simpl; auto. f_equal. f_equal. lia.
Qed.
Print Assumptions find_scheme_compose.
Print Assumptions find_query_compose.
Print Assumptions find_fragment_compose.
