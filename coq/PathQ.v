(* Model of the read-only path queries of common/path.rs: first, last, segments (collected),
   segment_count, file_name, directory, parent, parent_or_empty, normalized_segments.
   A result is either a range of the path text or a constant of the library (EMPTY, EMPTY_ABSOLUTE,
   "/./").  No proofs here. *)
From Coq Require Import List NArith Bool Arith.
Import ListNotations.
Require Import V.Regex V.Parse V.PathSpec V.Splice V.Setters V.Iter.
Local Open Scope nat_scope.

Inductive pslice := InText (r : range) | Const (s : str).

Definition pq_first (p : str) : option range :=
  if path_is_empty p then None else Some (fst (segment_at p (first_off p))).

(* outer None = panic *)
Definition pq_last (p : str) : option (option range) :=
  if path_is_empty p then Some None
  else match previous_segment_from p (length p + 1) with
       | None => None
       | Some None => Some None
       | Some (Some (r, _)) => Some (Some r)
       end.

Fixpoint collect_fwd (p : str) (st : it_state) (fuel : nat) : list range :=
  match fuel with O => [] | S f =>
    match it_next p st with
    | (Some r, st') => r :: collect_fwd p st' f
    | (None, _) => []
    end
  end.
Definition pq_segments (p : str) : list range := collect_fwd p (segments p) (length p + 2).

Fixpoint collect_bwd (p : str) (st : it_state) (fuel : nat) : option (list range) :=
  match fuel with O => Some [] | S f =>
    match it_next_back p st with
    | None => None
    | Some (Some r, st') => option_map (cons r) (collect_bwd p st' f)
    | Some (None, _) => Some []
    end
  end.
Definition pq_segments_rev (p : str) : option (list range) := collect_bwd p (segments p) (length p + 2).

Definition pq_file_name (p : str) : option (option range) :=
  match it_next_back p (segments p) with
  | None => None
  | Some (Some r, _) => Some (if snd r =? fst r then None else Some r)
  | Some (None, _) => Some None
  end.

(* `let mut i = len - 1; while i > 0 && bytes[i] != '/' { i -= 1 }` *)
Fixpoint back_to_slash (p : str) (i : nat) (fuel : nat) : nat :=
  match fuel with O => i | S f =>
    if 0 <? i then
      match get_nth p i with
      | Some c => if is c SLASH then i else back_to_slash p (i - 1) f
      | None => i
      end
    else i
  end.
Definition pq_directory (p : str) : pslice :=
  match p with
  | [] => InText (0, 0)
  | c0 :: _ =>
    let i := back_to_slash p (length p - 1) (length p) in
    if (i =? 0) && negb (is c0 SLASH) then Const []
    else InText (0, i + 1)
  end.

(* the `loop` of parent(): result None = no parent, Some (inl e) = break with end = e, Some (inr ()) = "/" *)
Fixpoint parent_loop (p : str) (e : nat) (fuel : nat) : option (nat + unit) :=
  match fuel with O => None | S f =>
    match get_nth p e with
    | None => None
    | Some c =>
      if is c SLASH then (if e =? 0 then Some (inr tt) else Some (inl e))
      else if e =? 0 then None else parent_loop p (e - 1) f
    end
  end.
Definition pq_parent (p : str) : option pslice :=
  if path_is_empty p then None
  else match parent_loop p (length p - 1) (S (length p)) with
       | None => None
       | Some (inr _) => Some (Const [SLASH])
       | Some (inl e) =>
         match p with
         | a :: b :: _ => if (e =? 1) && is a SLASH && is b SLASH then Some (Const [SLASH; DOT; SLASH]) else Some (InText (0, e))
         | _ => Some (InText (0, e))
         end
       end.
Definition pq_parent_or_empty (p : str) : pslice :=
  match pq_parent p with
  | Some s => s
  | None => if is_abs p then Const [SLASH] else Const []
  end.

(* NormalizedSegmentsImpl::new : stack of segment ranges, kept reversed *)
Definition nstep (p : str) (relative : bool) (stack : list range) (r : range) : list range :=
  let s := slice p r in
  if is_dot s then stack
  else if is_dotdot s then
    match stack with
    | [] => if relative then r :: stack else []
    | t :: rest => if is_dotdot (slice p t) then r :: stack else rest
    end
  else r :: stack.
Definition pq_normalized_segments (p : str) : list range :=
  rev (fold_left (nstep p (negb (is_abs p))) (pq_segments p) []).

(* helpers used by Reference.v *)
Definition pslice_text (p : str) (x : pslice) : str := match x with InText r => slice p r | Const s => s end.
Definition pq_parent_or_empty_text (p : str) : option str := Some (pslice_text p (pq_parent_or_empty p)).
(* self.path().segments().next_back() as text; outer None = panic *)
Definition pq_file_or_last_raw (p : str) : option (option str) :=
  match it_next_back p (segments p) with
  | None => None
  | Some (Some r, _) => Some (Some (slice p r))
  | Some (None, _) => Some None
  end.
