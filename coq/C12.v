(* Property C12 -- segment iteration agrees with the '/'-split of the text.  Statements only. *)
From Coq Require Import List NArith Bool Arith.
Import ListNotations.
Require Import V.Regex V.Parse V.ParseProofs V.PathSpec V.Splice V.Setters V.Iter V.IterProofs V.IterAll V.PathQ V.C12Proofs V.NormProofs V.PopProofs V.ParentProofs V.Rfc V.DirProofs V.C12Counts.
Local Open Scope nat_scope.

(* A non-empty path is pfx ++ join l with pfx = "" or "/" and l its non-empty list of '/'-free
   segments.  For EVERY finite script w of next (true) / next_back (false) calls, the model of the
   double-ended iterator never panics and returns, call by call, segment k from the front, segment
   n-m-1 from the back, and None once the two cursors have met (k + m = n): each segment exactly
   once, in order, under all 2^|w| interleavings. *)
Theorem C12_interleave : forall (pfx : str) (l : list str),
  pfx = [] \/ pfx = [SLASH] -> l <> [] -> Forall seg_ok l ->
  first_off (P pfx l) = length pfx -> path_is_empty (P pfx l) = false ->
  forall w : list bool, exists st, run pfx l w (segments (P pfx l)) = Some (expect pfx l w 0 0, st).
Proof. exact interleave_from_start. Qed.
Print Assumptions C12_interleave.

(* the general position: k segments already taken from the front, m from the back *)
Theorem C12_interleave_at : forall (pfx : str) (l : list str),
  pfx = [] \/ pfx = [SLASH] -> Forall seg_ok l ->
  first_off (P pfx l) = length pfx -> path_is_empty (P pfx l) = false ->
  forall (w : list bool) (k m : nat), k + m <= length l ->
  exists st, run pfx l w (ItNonEmpty (o pfx l k) (o pfx l (length l - m))) = Some (expect pfx l w k m, st).
Proof. exact interleave. Qed.
Print Assumptions C12_interleave_at.

(* hence the forward iteration of ANY path free of '?' and '#' (every valid path) yields exactly the
   '/'-separated pieces of its text after the optional leading '/', none for "" and "/" *)
Theorem C12_segments_are_the_split : forall p, none_of [QM; HASH] p -> map (slice p) (pq_segments p) = segs p.
Proof. exact segments_are_the_split. Qed.
Print Assumptions C12_segments_are_the_split.

(* derived queries.  last(): the last segment of the '/'-split (none for "" and "/"), never a panic *)
Theorem C12_last : forall v, none_of [QM; HASH] v ->
  match pq_last v with
  | Some (Some r) => last_opt (segs v) = Some (slice v r)
  | Some None => segs v = []
  | None => False
  end.
Proof. exact pq_last_spec. Qed.
Print Assumptions C12_last.

(* parent(): the path without its last segment, with the same absoluteness: None for "", "/" and a lone relative
   segment, "/" for "/x", the library's "/./" for "//x" (whose remaining segment is empty), and the text up to the last
   '/' otherwise; parent_or_empty() replaces None by "" or "/" *)
Theorem C12_parent : forall v, none_of [QM; HASH] v -> option_map (pslice_text v) (pq_parent v) = parent_text v.
Proof. exact pq_parent_spec. Qed.
Print Assumptions C12_parent.
Theorem C12_parent_or_empty : forall v, none_of [QM; HASH] v -> pq_parent_or_empty_text v = Some (parent_or_empty_text1 v).
Proof. exact parent_or_empty_spec. Qed.
Print Assumptions C12_parent_or_empty.

(* first(): the first piece of the split; file_name(): the last piece unless it is empty *)
Theorem C12_first : forall v, none_of [QM; HASH] v -> option_map (slice v) (pq_first v) = hd_error (segs v).
Proof. exact pq_first_spec. Qed.
Print Assumptions C12_first.
Theorem C12_file_name : forall v, none_of [QM; HASH] v ->
  match pq_file_name v with
  | Some (Some r) => last_opt (segs v) = Some (slice v r) /\ snd r <> fst r
  | Some None => match last_opt (segs v) with Some x => x = [] | None => True end
  | None => False
  end.
Proof. exact pq_file_name_spec. Qed.
Print Assumptions C12_file_name.

(* directory(): for EVERY byte string, the text up to and including the last '/' ("" when there is none) *)
Theorem C12_directory : forall p, pslice_text p (pq_directory p) = dir_of p.
Proof. intros p. exact (proj1 (directory_is_dir_of p)). Qed.
Print Assumptions C12_directory.

(* joining the '/'-split reproduces the path (PathSpec) *)
Theorem C12_join_split : forall p : str, join (split p) = p.
Proof. exact join_split. Qed.
Print Assumptions C12_join_split.

(* the counting queries: is_empty() is true exactly when there is no segment (for EVERY byte string); segment_count()
   = segments().count() is the number of pieces; normalized_segments().len() is the length of the RFC 5.2.4 walk *)
Theorem C12_is_empty : forall p, path_is_empty p = nil_segs (segs p).
Proof. exact is_empty_spec. Qed.
Print Assumptions C12_is_empty.
Theorem C12_segment_count : forall p, none_of [QM; HASH] p -> length (pq_segments p) = length (segs p).
Proof. exact segment_count_spec. Qed.
Print Assumptions C12_segment_count.
Theorem C12_normalized_len : forall p, none_of [QM; HASH] p -> length (pq_normalized_segments p) = length (norm (is_abs p) (segs p)).
Proof. exact normalized_len_spec. Qed.
Print Assumptions C12_normalized_len.

(* non-vacuity: "/a//b/" -- five calls f b f b f *)
Example C12_example :
  let p := [47;97;47;47;98;47]%N in
  run [SLASH] [[97%N]; []; [98%N]; []] [true; false; true; false; true] (segments p)
  = Some ([Some (1,2); Some (6,6); Some (3,3); Some (4,5); None], ItNonEmpty 4 4).
Proof. vm_compute. reflexivity. Qed.
