(* C16 / C12: PathImpl::directory and RiRefImpl::base at text level: the text up to and including the last '/' of
   the path (Rfc.dir_of, the same function RFC 3986 5.2.3 uses), for EVERY byte string. *)
From Coq Require Import List NArith Bool Arith Lia.
Import ListNotations.
Require Import V.Regex V.Parse V.ParseProofs V.Parse2 V.Parse2Proofs V.ScanValues V.PathSpec V.Splice V.Setters V.SetPath V.SetScheme V.Iter V.PathQ V.Push V.PathMut V.Reference V.Rfc
  V.PathMutProofs V.MergeProofs.
Local Open Scope nat_scope.

Lemma last_slash_decomp (p : str) : noslash p \/ exists A x, p = A ++ SLASH :: x /\ noslash x.
Proof.
  induction p as [|c p IH]; [left; constructor|]. destruct IH as [Hn|(A & x & -> & Hx)].
  - destruct (is c SLASH) eqn:Ec.
    + apply is_true in Ec. subst c. right. exists [], p. split; [reflexivity | exact Hn].
    + left. constructor; [now apply is_false | exact Hn].
  - right. exists (c :: A), x. split; [reflexivity | exact Hx].
Qed.

Lemma nth_mid (A : str) c x : get_nth (A ++ c :: x) (length A) = Some c.
Proof. unfold get_nth. rewrite nth_error_app2 by lia. rewrite Nat.sub_diag. reflexivity. Qed.
Lemma nth_after (A : str) c x k d : nth_error x k = Some d -> get_nth (A ++ c :: x) (length A + 1 + k) = Some d.
Proof. intros H. unfold get_nth. rewrite nth_error_app2 by lia. replace (length A + 1 + k - length A) with (S k) by lia. exact H. Qed.

(* walking back over slash-free characters *)
Lemma back_over A x : noslash x -> forall k fuel, k < length x -> k < fuel ->
  back_to_slash (A ++ SLASH :: x) (length A + 1 + k) fuel = back_to_slash (A ++ SLASH :: x) (length A) (fuel - k - 1).
Proof.
  intros Hx. induction k as [|k IH]; intros fuel Hk Hf; (destruct fuel as [|fuel]; [lia|]); cbn [back_to_slash].
  - replace (0 <? length A + 1 + 0) with true by (symmetry; apply Nat.ltb_lt; lia).
    destruct (nth_error x 0) as [d|] eqn:Ed; [|apply nth_error_None in Ed; lia].
    rewrite (nth_after A SLASH x 0 d Ed).
    assert (Hd : is d SLASH = false) by (apply is_false; unfold noslash in Hx; rewrite Forall_forall in Hx; apply Hx; eapply nth_error_In; eauto).
    rewrite Hd. replace (length A + 1 + 0 - 1) with (length A) by lia. replace (S fuel - 0 - 1) with fuel by lia. reflexivity.
  - replace (0 <? length A + 1 + S k) with true by (symmetry; apply Nat.ltb_lt; lia).
    destruct (nth_error x (S k)) as [d|] eqn:Ed; [|apply nth_error_None in Ed; lia].
    rewrite (nth_after A SLASH x (S k) d Ed).
    assert (Hd : is d SLASH = false) by (apply is_false; unfold noslash in Hx; rewrite Forall_forall in Hx; apply Hx; eapply nth_error_In; eauto).
    rewrite Hd. replace (length A + 1 + S k - 1) with (length A + 1 + k) by lia. rewrite IH by lia.
    replace (S fuel - S k - 1) with (fuel - k - 1) by lia. reflexivity.
Qed.
Lemma back_stop A x fuel : 0 < fuel -> back_to_slash (A ++ SLASH :: x) (length A) fuel = length A.
Proof.
  intros H. destruct fuel; [lia|]. cbn [back_to_slash]. destruct (0 <? length A); [|reflexivity].
  rewrite nth_mid. change (is SLASH SLASH) with true. reflexivity.
Qed.
Lemma back_noslash p : noslash p -> forall i fuel, i < length p -> i < fuel -> back_to_slash p i fuel = 0.
Proof.
  intros Hp. induction i as [|i IH]; intros fuel Hi Hf; (destruct fuel as [|fuel]; [lia|]); cbn [back_to_slash]; [reflexivity|].
  replace (0 <? S i) with true by reflexivity. unfold get_nth.
  destruct (nth_error p (S i)) as [d|] eqn:Ed; [|apply nth_error_None in Ed; lia].
  assert (Hd : is d SLASH = false) by (apply is_false; unfold noslash in Hp; rewrite Forall_forall in Hp; apply Hp; eapply nth_error_In; eauto).
  rewrite Hd. replace (S i - 1) with i by lia. apply IH; lia.
Qed.

Theorem directory_is_dir_of p : pslice_text p (pq_directory p) = dir_of p /\
  (match pq_directory p with InText (a, b) => b - a | Const s => length s end) = length (dir_of p).
Proof.
  destruct (last_slash_decomp p) as [Hn|(A & x & E & Hx)].
  - rewrite (dir_of_noslash p Hn). unfold pq_directory. destruct p as [|c0 r]; [split; reflexivity|].
    rewrite (back_noslash (c0 :: r) Hn) by (cbn [length]; lia). cbn [Nat.eqb andb].
    assert (Hc : is c0 SLASH = false) by (inversion Hn; subst; now apply is_false). rewrite Hc. split; reflexivity.
  - rewrite E, (dir_of_slash A x Hx). unfold pq_directory.
    destruct (A ++ SLASH :: x) as [|c0 r] eqn:Ep; [destruct A; discriminate Ep|]. rewrite <- Ep.
    assert (Hi : back_to_slash (A ++ SLASH :: x) (length (A ++ SLASH :: x) - 1) (length (A ++ SLASH :: x)) = length A).
    { rewrite app_length. cbn [length].
      assert (Hx0 : x = [] \/ 0 < length x) by (destruct x; [left; reflexivity | right; cbn [length]; lia]).
      destruct Hx0 as [Ex|Hl].
      - rewrite Ex. cbn [length]. replace (length A + 1 - 1) with (length A) by lia. apply back_stop. lia.
      - replace (length A + S (length x) - 1) with (length A + 1 + (length x - 1)) by lia.
        rewrite back_over by (try exact Hx; lia). apply back_stop. lia. }
    rewrite Hi.
    assert (Hcond : (length A =? 0) && negb (is c0 SLASH) = false).
    { destruct A as [|a A']; [|reflexivity]. cbn [app] in Ep. injection Ep as <- _. change (is SLASH SLASH) with true. reflexivity. }
    rewrite Hcond. cbn [pslice_text]. unfold slice. cbn [fst snd skipn]. rewrite Nat.sub_0_r.
    replace (A ++ SLASH :: x) with ((A ++ [SLASH]) ++ x) by (rewrite <- app_assoc; reflexivity).
    split; [apply firstn_exact; rewrite app_length; cbn [length]; lia | rewrite app_length; cbn [length]; lia].
Qed.

(* RiRefImpl::base: everything up to the path, then the directory of the path *)
Theorem ref_base_spec p : wf_parts p -> ref_base (compose p) = pre_of p ++ dir_of (p_path p).
Proof.
  intros W. unfold ref_base. rewrite (find_path_value p W).
  assert (Es : slice (compose p) (length (pre_of p), length (pre_of p) + length (p_path p)) = p_path p).
  { rewrite <- (find_path_value p W). apply (slice_path p W). }
  rewrite Es. destruct (directory_is_dir_of (p_path p)) as [Ed El]. rewrite El.
  assert (Hpre : exists rest, p_path p = dir_of (p_path p) ++ rest).
  { destruct (last_slash_decomp (p_path p)) as [Hn|(A & x & E & Hx)].
    - rewrite (dir_of_noslash _ Hn). eexists; reflexivity.
    - rewrite E, (dir_of_slash A x Hx). exists x. rewrite <- app_assoc. reflexivity. }
  destruct Hpre as (rest & Er). rewrite compose_pre. rewrite Er at 2.
  rewrite <- app_assoc, app_assoc. apply firstn_exact. rewrite app_length. reflexivity.
Qed.
