(* C16: the suffix loop is total and exact on prefixes: when ys is a (percent-decoded) prefix of xs the loop returns
   -- no panic -- a path whose segments are exactly the remaining ones (up to "." shield segments, C10 push law). *)
From Coq Require Import List NArith Bool Arith Lia.
Import ListNotations.
Require Import V.Regex V.Parse V.Parse2 V.PathSpec V.Splice V.Setters V.Iter V.PathQ V.Push V.PathMut V.PathMutProofs V.Reference V.Cmp V.C16Proofs V.NormalizedProofs.
Local Open Scope nat_scope.

Lemma push_fresh buf x : exists h, pm_push (pm_from_path buf) x = Some h /\ pm_buf h = push true true buf x.
Proof.
  destruct (pm_push_refines _ _ _ _ x (fresh_inv buf)) as (h' & E & I' & _). cbn [pm_from_path pm_start pm_fa Nat.eqb] in I'.
  exists h'. split; [exact E | apply (pinv_buf _ _ I')].
Qed.

Lemma pushes_only rest : Forall noslash rest -> forall buf, exists r, suffix_loop buf rest [] = Some (Some r) /\ nodot (segs r) = nodot (segs buf ++ rest).
Proof.
  induction 1 as [|x rest Hx _ IH]; intros buf.
  - exists buf. split; [reflexivity | rewrite app_nil_r; reflexivity].
  - cbn [suffix_loop]. destruct (push_fresh buf x) as (h & E & Eb). rewrite E. cbn [bind]. rewrite Eb.
    destruct (IH (push true true buf x)) as (r & Er & Es). exists r. split; [exact Er|].
    rewrite Es, !nodot_app, (push_law true true buf x Hx), nodot_app, <- app_assoc. f_equal. change (x :: rest) with ([x] ++ rest). now rewrite nodot_app.
Qed.

Theorem suffix_exact ys : forall xs1 rest buf, Forall2 seg_eq xs1 ys -> Forall noslash rest ->
  exists r, suffix_loop buf (xs1 ++ rest) ys = Some (Some r) /\ nodot (segs r) = nodot (segs buf ++ rest).
Proof.
  induction ys as [|y ys IH]; intros xs1 rest buf H Hn; inversion H; subst; cbn [app].
  - destruct rest as [|x rest]; [exists buf; split; [reflexivity | rewrite app_nil_r; reflexivity]|]. now apply pushes_only.
  - cbn [suffix_loop]. match goal with Hs : seg_eq _ y |- _ => unfold seg_eq in Hs; rewrite Hs end. now apply IH.
Qed.
