(* Instances of ValidSet.v for RFC 3986 (U) and RFC 3987 (I): the inclusion certificates, and the end-to-end
   statements: valid reference + valid value -> the setter model returns a VALID reference text. *)
From Coq Require Import List NArith Bool Arith Lia.
Import ListNotations.
Require Import V.Regex V.Bisim V.Abnf V.Parse V.ParseProofs V.Parse2 V.Bridge V.Factor V.BridgePaths V.C02Bridge V.FactorU V.FactorI
  V.PathSpec V.Splice V.Setters V.Push V.SetPath V.SetAuth V.SetScheme V.Reference V.SetFragment V.C05Proofs V.Shapes V.ValidSet.
Open Scope N_scope.
Ltac refl := vm_cast_no_check (eq_refl true).
Notation P := C02Bridge.P.

Module InstU.
  Definition X := U. Definition PX := U.
  Lemma i1 : incl_check (ipath_noscheme X) (ipath_rootless X) = true. Proof. refl. Qed.
  Lemma i2 : incl_check (and2 (ipath_rootless X) NOCOLON) (ipath_noscheme X) = true. Proof. refl. Qed.
  Lemma i3 : incl_check (Cat (ch DOT) (Cat slash (ipath_rootless X))) (ipath_noscheme X) = true. Proof. refl. Qed.
  Lemma i4 : incl_check (Cat slash (ipath_rootless X)) (ipath_abempty X) = true. Proof. refl. Qed.
  Lemma i5 : incl_check (ipath_absolute X) (ipath_abempty X) = true. Proof. refl. Qed.
  Lemma i6 : incl_check (and2 (ipath_abempty X) NODSLASH) (Alt (ipath_absolute X) Eps) = true. Proof. refl. Qed.
  Lemma i7 : incl_check (Cat slash (Cat (ch DOT) (ipath_abempty X))) (ipath_absolute X) = true. Proof. refl. Qed.
  Lemma i8 : incl_check (and2 (ipath X) DSLASH) (ipath_abempty X) = true. Proof. refl. Qed.
  Lemma i9 : incl_check (and2 (ipath X) REL_NE) (ipath_rootless X) = true. Proof. refl. Qed.
  Lemma i10 : incl_check (and2 (ipath X) ABS_OR_EMPTY) (ipath_abempty X) = true. Proof. refl. Qed.
  Lemma i11 : incl_check (and2 (ipath X) NODSLASH) (Alt (ipath_absolute X) (Alt (ipath_rootless X) Eps)) = true. Proof. refl. Qed.
  Lemma i12 : incl_check (and2 (and2 (ipath X) NODSLASH) NOCOLON) (Alt (ipath_absolute X) (Alt (ipath_noscheme X) Eps)) = true. Proof. refl. Qed.
  Lemma i13 : incl_check (ipath X) ANYS = true. Proof. refl. Qed.
  Lemma i14a : incl_check (ipath_abempty X) (ipath X) = true. Proof. refl. Qed.
  Lemma i14b : incl_check (ipath_absolute X) (ipath X) = true. Proof. refl. Qed.
  Lemma i14c : incl_check (ipath_rootless X) (ipath X) = true. Proof. refl. Qed.
  Lemma i15 : incl_check Eps (ipath_abempty X) = true. Proof. refl. Qed.
  Lemma i16 : incl_check (ipath_absolute X) (Cat slash ANYS) = true. Proof. refl. Qed.
  Lemma i17 : incl_check (ipath_rootless X) REL_NE = true. Proof. refl. Qed.
End InstU.
Module InstI.
  Definition X := I. Definition PX := P.
  Lemma i1 : incl_check (ipath_noscheme X) (ipath_rootless X) = true. Proof. refl. Qed.
  Lemma i2 : incl_check (and2 (ipath_rootless X) NOCOLON) (ipath_noscheme X) = true. Proof. refl. Qed.
  Lemma i3 : incl_check (Cat (ch DOT) (Cat slash (ipath_rootless X))) (ipath_noscheme X) = true. Proof. refl. Qed.
  Lemma i4 : incl_check (Cat slash (ipath_rootless X)) (ipath_abempty X) = true. Proof. refl. Qed.
  Lemma i5 : incl_check (ipath_absolute X) (ipath_abempty X) = true. Proof. refl. Qed.
  Lemma i6 : incl_check (and2 (ipath_abempty X) NODSLASH) (Alt (ipath_absolute X) Eps) = true. Proof. refl. Qed.
  Lemma i7 : incl_check (Cat slash (Cat (ch DOT) (ipath_abempty X))) (ipath_absolute X) = true. Proof. refl. Qed.
  Lemma i8 : incl_check (and2 (ipath X) DSLASH) (ipath_abempty X) = true. Proof. refl. Qed.
  Lemma i9 : incl_check (and2 (ipath X) REL_NE) (ipath_rootless X) = true. Proof. refl. Qed.
  Lemma i10 : incl_check (and2 (ipath X) ABS_OR_EMPTY) (ipath_abempty X) = true. Proof. refl. Qed.
  Lemma i11 : incl_check (and2 (ipath X) NODSLASH) (Alt (ipath_absolute X) (Alt (ipath_rootless X) Eps)) = true. Proof. refl. Qed.
  Lemma i12 : incl_check (and2 (and2 (ipath X) NODSLASH) NOCOLON) (Alt (ipath_absolute X) (Alt (ipath_noscheme X) Eps)) = true. Proof. refl. Qed.
  Lemma i13 : incl_check (ipath X) ANYS = true. Proof. refl. Qed.
  Lemma i14a : incl_check (ipath_abempty X) (ipath X) = true. Proof. refl. Qed.
  Lemma i14b : incl_check (ipath_absolute X) (ipath X) = true. Proof. refl. Qed.
  Lemma i14c : incl_check (ipath_rootless X) (ipath X) = true. Proof. refl. Qed.
  Lemma i15 : incl_check Eps (ipath_abempty X) = true. Proof. refl. Qed.
  Lemma i16 : incl_check (ipath_absolute X) (Cat slash ANYS) = true. Proof. refl. Qed.
  Lemma i17 : incl_check (ipath_rootless X) REL_NE = true. Proof. refl. Qed.
End InstI.

(* ---------- URI family ---------- *)
Definition vsq_U := valid_set_query U U.
Definition vsf_U := valid_set_fragment U U.
Definition vss_U := valid_set_scheme U U InstU.i1 InstU.i2 InstU.i3 InstU.i13 InstU.i14c InstU.i16.
Definition vsa_U := valid_set_authority U U InstU.i1 InstU.i4 InstU.i5 InstU.i6 InstU.i7 InstU.i13 InstU.i14a InstU.i15 InstU.i16 InstU.i17 valid_parts_wf_U.
Definition vsp_U := valid_set_path U U InstU.i3 InstU.i4 InstU.i7 InstU.i8 InstU.i9 InstU.i10 InstU.i11 InstU.i12 InstU.i13 InstU.i15.
Definition vsq_I := valid_set_query I P.
Definition vsf_I := valid_set_fragment I P.
Definition vss_I := valid_set_scheme I P InstI.i1 InstI.i2 InstI.i3 InstI.i13 InstI.i14c InstI.i16.
Definition vsa_I := valid_set_authority I P InstI.i1 InstI.i4 InstI.i5 InstI.i6 InstI.i7 InstI.i13 InstI.i14a InstI.i15 InstI.i16 InstI.i17 valid_parts_wf_I.
Definition vsp_I := valid_set_path I P InstI.i3 InstI.i4 InstI.i7 InstI.i8 InstI.i9 InstI.i10 InstI.i11 InstI.i12 InstI.i13 InstI.i15.

(* ---------- end to end: the text after the call is again in the reference language ---------- *)
Lemma valid_in_language_U p : valid_parts_U p -> L (IRI_reference U U) (compose p).
Proof. intros V. apply uri_ref_shape. apply REF_factor. exists p. split; [exact V | reflexivity]. Qed.
Lemma valid_in_language_I p : valid_parts_I p -> L (IRI_reference I P) (compose p).
Proof. intros V. apply iri_ref_shape. apply REF_factor. exists p. split; [exact V | reflexivity]. Qed.

Theorem set_scheme_valid_U p new : valid_parts_U p -> oL scheme new ->
  exists p', set_scheme (compose p) new = Some (compose p') /\ valid_parts_U p' /\ L (IRI_reference U U) (compose p').
Proof.
  intros V Hn. exists (with_scheme p new (scheme_fix_path p new)). pose proof (vss_U p new V Hn) as V'.
  split; [apply set_scheme_spec; now apply valid_parts_wf_U | split; [exact V' | now apply valid_in_language_U]].
Qed.
Theorem set_authority_valid_U p new : valid_parts_U p -> oL (iauthority U) new ->
  exists p', set_authority (compose p) new = Some (compose p') /\ valid_parts_U p' /\ L (IRI_reference U U) (compose p').
Proof.
  intros V Hn. exists (with_auth p new (auth_path p new)). pose proof (vsa_U p new V Hn) as V'.
  split; [apply set_authority_spec; now apply valid_parts_wf_U | split; [exact V' | now apply valid_in_language_U]].
Qed.
Theorem set_path_valid_U p v : valid_parts_U p -> L (ipath U) v ->
  exists p', set_path (compose p) v = Some (compose p') /\ valid_parts_U p' /\ L (IRI_reference U U) (compose p').
Proof.
  intros V Hn. exists (with_path p (fix_path p v)). pose proof (vsp_U p v V Hn) as V'.
  split; [apply set_path_spec; now apply valid_parts_wf_U | split; [exact V' | now apply valid_in_language_U]].
Qed.
Theorem set_query_valid_U p q : valid_parts_U p -> oL (iquery U U) q ->
  exists p', set_query (compose p) q = Some (compose p') /\ valid_parts_U p' /\ L (IRI_reference U U) (compose p').
Proof.
  intros V Hn. exists (with_query p q). pose proof (vsq_U p q V Hn) as V'.
  split; [apply set_query_spec; now apply valid_parts_wf_U | split; [exact V' | now apply valid_in_language_U]].
Qed.
Theorem set_fragment_valid_U p f : valid_parts_U p -> oL (ifragment U) f ->
  exists p', set_fragment (compose p) f = Some (compose p') /\ valid_parts_U p' /\ L (IRI_reference U U) (compose p').
Proof.
  intros V Hn. exists (with_fragment p f). pose proof (vsf_U p f V Hn) as V'.
  split; [apply set_fragment_spec; now apply valid_parts_wf_U | split; [exact V' | now apply valid_in_language_U]].
Qed.

Theorem set_scheme_valid_I p new : valid_parts_I p -> oL scheme new ->
  exists p', set_scheme (compose p) new = Some (compose p') /\ valid_parts_I p' /\ L (IRI_reference I P) (compose p').
Proof.
  intros V Hn. exists (with_scheme p new (scheme_fix_path p new)). pose proof (vss_I p new V Hn) as V'.
  split; [apply set_scheme_spec; now apply valid_parts_wf_I | split; [exact V' | now apply valid_in_language_I]].
Qed.
Theorem set_authority_valid_I p new : valid_parts_I p -> oL (iauthority I) new ->
  exists p', set_authority (compose p) new = Some (compose p') /\ valid_parts_I p' /\ L (IRI_reference I P) (compose p').
Proof.
  intros V Hn. exists (with_auth p new (auth_path p new)). pose proof (vsa_I p new V Hn) as V'.
  split; [apply set_authority_spec; now apply valid_parts_wf_I | split; [exact V' | now apply valid_in_language_I]].
Qed.
Theorem set_path_valid_I p v : valid_parts_I p -> L (ipath I) v ->
  exists p', set_path (compose p) v = Some (compose p') /\ valid_parts_I p' /\ L (IRI_reference I P) (compose p').
Proof.
  intros V Hn. exists (with_path p (fix_path p v)). pose proof (vsp_I p v V Hn) as V'.
  split; [apply set_path_spec; now apply valid_parts_wf_I | split; [exact V' | now apply valid_in_language_I]].
Qed.
Theorem set_query_valid_I p q : valid_parts_I p -> oL (iquery I P) q ->
  exists p', set_query (compose p) q = Some (compose p') /\ valid_parts_I p' /\ L (IRI_reference I P) (compose p').
Proof.
  intros V Hn. exists (with_query p q). pose proof (vsq_I p q V Hn) as V'.
  split; [apply set_query_spec; now apply valid_parts_wf_I | split; [exact V' | now apply valid_in_language_I]].
Qed.
Theorem set_fragment_valid_I p f : valid_parts_I p -> oL (ifragment I) f ->
  exists p', set_fragment (compose p) f = Some (compose p') /\ valid_parts_I p' /\ L (IRI_reference I P) (compose p').
Proof.
  intros V Hn. exists (with_fragment p f). pose proof (vsf_I p f V Hn) as V'.
  split; [apply set_fragment_spec; now apply valid_parts_wf_I | split; [exact V' | now apply valid_in_language_I]].
Qed.
