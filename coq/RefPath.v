(* C04 / C10 at the level of the enclosing reference: the path handle obtained from a well-formed reference
   satisfies the handle invariant, and push / clear through it yield compose of the reference with the new
   path, which is again well-formed (so every accessor keeps reading it back: C02). *)
From Coq Require Import List NArith Bool Arith Lia.
Import ListNotations.
Require Import V.Regex V.Parse V.ParseProofs V.Parse2 V.Parse2Proofs V.ScanValues V.PathSpec V.Splice V.Setters V.Iter V.PathQ V.Push
  V.SetPath V.SetAuth V.SetScheme V.PathMut V.PathMutProofs V.Reference V.C05Proofs V.PushWf.
Local Open Scope nat_scope.

Definition head_parts (p : parts) : parts :=
  {| p_scheme := p_scheme p; p_authority := p_authority p; p_path := []; p_query := None; p_fragment := None |}.
Lemma head_parts_wf p : wf_parts p -> wf_parts (head_parts p).
Proof.
  intros [Hs Ha Hp Hq Hpa Hpn Hpc]. constructor; cbn [head_parts p_scheme p_authority p_path p_query p_fragment]; auto; try discriminate;
    try (constructor; fail); try (intros _ t; discriminate).
Qed.
Lemma compose_head_parts p : compose (head_parts p) = pre_of p.
Proof. unfold compose, head_parts, pre_of, tail_of. cbn [p_scheme p_authority p_path p_query p_fragment opt_pre]. rewrite !app_nil_r. reflexivity. Qed.

Lemma pre_len0' p : (length (pre_of p) =? 0) = negb (has (p_scheme p)) && negb (has (p_authority p)).
Proof.
  unfold pre_of, has. destruct (p_scheme p) as [s|], (p_authority p) as [a|]; cbn [opt_post opt_pre app negb andb];
    rewrite ?app_length; cbn [length]; try reflexivity; apply Nat.eqb_neq; lia.
Qed.

Theorem path_mut_inv p : wf_parts p ->
  let h := path_mut (compose p) in
  PInv h (pre_of p) (p_path p) (tail_of p) /\ pm_fa h = has (p_authority p) /\ pm_start h = length (pre_of p).
Proof.
  intros W. unfold path_mut. rewrite (find_path_value p W). unfold pm_new. cbn [pm_buf pm_start pm_end pm_fa PInv].
  split; [|split; [|reflexivity]].
  - unfold PInv. cbn [pm_buf pm_start pm_end]. split; [apply compose_pre | split; reflexivity].
  - rewrite compose_pre, firstn_exact by reflexivity. rewrite <- compose_head_parts.
    rewrite (find_authority_full (head_parts p) (head_parts_wf p W)). cbn [head_parts p_authority]. destruct (p_authority p); reflexivity.
Qed.

Definition ref_push (buf seg : str) : option str := option_map pm_buf (pm_push (path_mut buf) seg).
Definition ref_clear (buf : str) : option str := option_map pm_buf (pm_clear (path_mut buf)).

Lemma compose_with_path p v : compose (with_path p v) = pre_of p ++ v ++ tail_of p.
Proof. rewrite compose_pre. reflexivity. Qed.

Theorem ref_push_spec p seg : wf_parts p -> noslash seg -> none_of [QM; HASH] seg ->
  exists v', ref_push (compose p) seg = Some (compose (with_path p v')) /\ wf_parts (with_path p v') /\
             nodot (segs v') = nodot (segs (p_path p) ++ [seg]).
Proof.
  intros W Hns Hqh. destruct (path_mut_inv p W) as (I & Hfa & Hst).
  destruct (pm_push_refines _ _ _ _ seg I) as (h' & E & (Hb' & _ & _) & _ & _).
  rewrite Hfa, Hst, pre_len0' in Hb'.
  exists (push (negb (has (p_scheme p)) && negb (has (p_authority p))) (has (p_authority p)) (p_path p) seg).
  split; [|split].
  - unfold ref_push. rewrite E. cbn [option_map]. rewrite Hb', compose_with_path. reflexivity.
  - apply with_path_wf; [exact W|]. apply push_wf; auto. now apply wf_parts_path.
  - now apply push_law.
Qed.

Lemma clear1_wf hs ha v : wf_path_in hs ha v -> wf_path_in hs ha (clear1 v).
Proof.
  intros [W1 W2 W3 W4]. unfold clear1. destruct (is_abs v) eqn:E; constructor; try (repeat constructor; fail); auto.
  - unfold SLASH, QM, HASH. repeat constructor. simpl. intros [H|[H|[]]]; discriminate.
  - intros _. right. eexists. reflexivity.
  - intros _ t; discriminate.
  - intros _ t; discriminate.
Qed.
Theorem ref_clear_spec p : wf_parts p ->
  ref_clear (compose p) = Some (compose (with_path p (clear1 (p_path p)))) /\ wf_parts (with_path p (clear1 (p_path p))).
Proof.
  intros W. destruct (path_mut_inv p W) as (I & Hfa & Hst).
  destruct (pm_clear_refines _ _ _ _ I) as (h' & E & (Hb' & _ & _) & _ & _).
  split.
  - unfold ref_clear. rewrite E. cbn [option_map]. rewrite Hb', compose_with_path. reflexivity.
  - apply with_path_wf; [exact W|]. apply clear1_wf. now apply wf_parts_path.
Qed.
