(* C15, authorities equal only after percent-decoding / case folding (eq_authority, what relative_to tests): the
   reference is the same; resolving it gives a with b's spelling of the authority and of the common prefix, == a. *)
From Coq Require Import List NArith Bool Arith Lia.
Import ListNotations.
Require Import V.Regex V.Parse V.ParseProofs V.Parse2 V.Parse2Proofs V.ScanValues V.PathSpec V.Splice V.Setters V.Iter V.PathQ V.Push V.PathMut V.PathMutProofs
  V.SetPath V.SetAuth V.SetScheme V.SetFragment V.C05Proofs V.Reference V.GetProofs V.Rfc V.PushWf V.RefPath V.IterProofs V.IterAll V.C09Proofs V.C12Proofs V.NormProofs V.PopProofs V.ParentProofs V.SymProofs
  V.MergeProofs V.ResolveProofs V.ResolveProofs2 V.ResolveProofs3 V.ResolveProofs4 V.Ord V.Cmp V.CmpProofs V.C02Proofs V.C16Proofs V.RelProofs V.RelProofs2.
Local Open Scope nat_scope.

Definition auth_match (x y : option str) : Prop :=
  match x, y with
  | Some a, Some b => eq_authority a b = Some true /\ eq_authority b a = Some true
  | None, None => True
  | _, _ => False
  end.

Section RoundTrip3.
  Variables pa pb : parts. Variable s : str.
  Hypothesis Wa : wf_parts pa. Hypothesis Wb : wf_parts pb.
  Hypothesis Has : p_scheme pa = Some s. Hypothesis Hbs : p_scheme pb = Some s.
  Hypothesis Hauth : auth_match (p_authority pa) (p_authority pb).
  Local Notation xa := (p_path pa).
  Local Notation xb := (p_path pb).
  Hypothesis Haa : is_abs xa = true. Hypothesis Hab : is_abs xb = true.
  Variables ca cb ss bs : list str.
  Hypothesis Hsa : segs xa = ca ++ ss.
  Hypothesis Hsb : removelast (segs xb) = cb ++ bs.
  Hypothesis Hpa : plain (segs xa). Hypothesis Hpb : plain (segs xb).
  Hypothesis Hna : no_empty_but_last xa. Hypothesis Hnb : no_empty_but_last xb.
  Hypothesis Hstrip : strip_common (ca ++ ss) (cb ++ bs) = Some (ss, bs).
  Hypothesis Hss : ss <> [].
  Hypothesis Hshield : bs = [] -> match ss with x :: _ => x <> [] /\ colon_first x = false | [] => False end.

  Local Notation v := (render false (repeat DOTDOT (length bs) ++ ss)).
  Local Notation qa := (p_query pa).
  Local Notation fa := (p_fragment pa).
  Local Notation rtr := (rt_ref pa pb ss bs).

  Theorem relative_to_value3 : relative_to (compose pa) (compose pb) = Some (compose rtr).
  Proof.
    unfold relative_to.
    rewrite (get_scheme_compose pa Wa), (get_scheme_compose pb Wb), Has, Hbs, list_eqb_refl.
    rewrite (get_authority_compose pa Wa), (get_authority_compose pb Wb).
    assert (Hau : match p_authority pa, p_authority pb with Some x, Some y => eq_authority x y | _, _ => Some true end = Some true).
    { unfold auth_match in Hauth. destruct (p_authority pa), (p_authority pb); try reflexivity; tauto. }
    rewrite Hau. cbn [bind negb].
    rewrite (get_path_compose pa Wa), (get_path_compose pb Wb), (parent_value pb Wb Hab cb bs Hsb Hnb). cbn [bind].
    rewrite (nsegs_plain xa (wf_path pa Wa) Hpa), Hsa, (nsegs_parent pb Wb Hab cb bs Hsb Hpb Hnb), Haa, Hab. cbn [Bool.eqb]. rewrite Hstrip. cbn [bind].
    destruct (pushes_value pa Wa ca cb ss bs Hsa Hpa Hna Hstrip Hss Hshield) as [E W].
    destruct (push_all [] (map (fun _ => DOTDOT) bs)) as [r1|]; [|discriminate E]. cbn [bind] in E |- *. rewrite E. cbn [bind].
    destruct (last_value pb Wb) as (o & Eo & Elast). rewrite Eo. cbn [bind]. rewrite Elast.
    rewrite (get_query_compose pa Wa), (get_fragment_compose pa Wa).
    assert (Egp : get_path v = v).
    { rewrite <- (compose_relp v) at 1. apply (get_path_compose (relp v) (relp_wf v W)). }
    rewrite Egp.
    match goal with |- bind (if ?c then _ else _) _ = _ => assert (Ec0 : c = rt_cond pa pb ss bs) by reflexivity; rewrite Ec0; clear Ec0 end.
    unfold rt_ref, rt_path. destruct (rt_cond pa pb ss bs).
    - rewrite <- (compose_relp v) at 1. destruct (ref_clear_spec (relp v) (relp_wf v W)) as [Ec Wc]. unfold ref_clear in Ec. rewrite Ec. cbn [bind].
      assert (Ecl : with_path (relp v) (clear1 (p_path (relp v))) = relp []).
      { unfold clear1. cbn [relp p_path]. destruct (segs_v pa pb ca cb ss bs Hsa Hsb Hstrip Hshield) as [_ Ea]. rewrite Ea. reflexivity. }
      rewrite Ecl. rewrite (set_query_spec (relp []) qa (relp_wf [] wf_rel_nil)). cbn [bind].
      apply set_fragment_spec. apply set_query_wf; [apply relp_wf, wf_rel_nil | exact (qa_ok pa Wa)].
    - cbn [bind]. rewrite <- (compose_relp v) at 1. rewrite (set_query_spec (relp v) qa (relp_wf v W)). cbn [bind].
      apply set_fragment_spec. apply set_query_wf; [apply relp_wf, W | exact (qa_ok pa Wa)].
  Qed.

  Definition rt_target : parts := with_auth pa (p_authority pb) (render true (cb ++ ss)).

  Hypothesis Hqi : p_query pa = None -> p_fragment pa <> None -> xb = render true (cb ++ ss) -> p_query pb = None.

  Theorem round_trip3 : resolve (compose rtr) (compose pb) = Some (compose rt_target).
  Proof.
    pose proof (rt_ref_wf pa pb Wa ca cb ss bs Hsa Hpa Hna Hstrip Hss Hshield) as Wr.
    assert (Hne : no_empty_but_last (p_path rtr)).
    { cbn [rt_ref with_fragment with_query relp p_path]. unfold rt_path. destruct (rt_cond pa pb ss bs); [|exact (v_no_inner pa pb ca cb ss bs Hsa Hsb Hna Hstrip Hss Hshield)].
      intros l' x E. destruct l'; discriminate E. }
    rewrite (resolve_is_rfc pb rtr s Wb Wr Hbs Hne (fun _ => Hnb)). f_equal. f_equal.
    assert (Epa : rt_target = {| p_scheme := Some s; p_authority := p_authority pb; p_path := render true (cb ++ ss); p_query := qa; p_fragment := fa |}).
    { unfold rt_target, with_auth. rewrite <- Has. reflexivity. }
    rewrite Epa. unfold rfc_target. cbn [rt_ref with_fragment with_query relp p_scheme p_authority p_path p_query p_fragment].
    unfold rt_path. destruct (rt_cond pa pb ss bs) eqn:Ec.
    - destruct (cleared_same_path pa pb Hab ca cb ss bs Hsa Hsb Hpb Hstrip Hss Hshield Ec) as [Exy Hf]. rewrite Hbs, <- Exy. f_equal.
      destruct qa as [q|] eqn:Eq; [reflexivity|]. rewrite (Hqi eq_refl (Hf eq_refl) Exy). reflexivity.
    - destruct (segs_v pa pb ca cb ss bs Hsa Hsb Hstrip Hshield) as [Esv Eav].
      destruct v as [|c t] eqn:Ev.
      + exfalso. cbn [segs] in Esv. symmetry in Esv. apply app_eq_nil in Esv as [_ E]. contradiction.
      + cbn [is_abs] in Eav. rewrite Eav, Hbs. f_equal.
        assert (CD : clean (removelast (segs xb))) by (rewrite Hsb; exact (D_clean pb cb bs Hsb Hnb)).
        rewrite (rfc_merged_path pb Wb c t Eav CD), Hab, orb_true_r, Hsb.
        assert (Esp : split (c :: t) = repeat DOTDOT (length bs) ++ ss) by (rewrite <- Esv; unfold segs; rewrite Eav; reflexivity).
        rewrite Esp, <- app_assoc. unfold rds_segs.
        match goal with |- render true (if ?a && _ then _ else _) = _ => replace a with false by (symmetry; exact (last_ss_not_dot pa ca cb ss bs Hsa Hpa Hss)) end. cbn [andb].
        f_equal. pose proof (D_plain pb cb bs Hsb Hpb) as HD. apply plain_app in HD as [H1 H2].
        exact (norm_updown cb bs ss H1 H2 (ss_plain pa ca ss Hsa Hpa)).
  Qed.
End RoundTrip3.

Theorem target_equal pa pb (cb ca ss : list str) s :
  wf_parts pa -> wf_parts (with_auth pa (p_authority pb) (render true (cb ++ ss))) -> p_scheme pa = Some s ->
  auth_match (p_authority pa) (p_authority pb) ->
  is_abs (p_path pa) = true -> segs (p_path pa) = ca ++ ss -> plain (ca ++ ss) -> plain (cb ++ ss) -> clean cb -> Forall noslash ss -> ss <> [] \/ cb <> [] ->
  none_of [QM; HASH] (render true (cb ++ ss)) ->
  Forall2 seg_eq cb ca -> Forall (fun x => dec x <> None) ss ->
  (forall x, p_query pa = Some x -> dec x <> None) -> (forall x, p_fragment pa = Some x -> dec x <> None) ->
  eq_ref (compose (with_auth pa (p_authority pb) (render true (cb ++ ss)))) (compose pa) = Some true.
Proof.
  intros Wa W' Hs Hax Haa Hsa Hpa Hpb Ccb Hns Hne Hq Hf2 Hds Hdq Hdf.
  unfold eq_ref. rewrite (ref_texts_compose _ W'), (ref_texts_compose _ Wa). unfold eq_texts, seq_eq.
  cbn [fold_left t_scheme t_authority t_path t_query t_fragment with_auth p_scheme p_authority p_path p_query p_fragment].
  rewrite Hs. cbn [eq_opt]. unfold eq_key at 1. rewrite cmp_raw, (os_refl _ str_ord). cbn [eq_of option_map].
  assert (Ea : eq_opt eq_authority (p_authority pb) (p_authority pa) = Some true).
  { unfold auth_match in Hax. destruct (p_authority pa), (p_authority pb); cbn [eq_opt]; try reflexivity; tauto. }
  rewrite Ea.
  assert (Ep : eq_path (render true (cb ++ ss)) (p_path pa) = Some true).
  { unfold eq_path.
    assert (Hsr : segs (render true (cb ++ ss)) = cb ++ ss /\ is_abs (render true (cb ++ ss)) = true).
    { apply segs_render_prefix.
      - apply Forall_app. split; [apply clean_noslash, Ccb | exact Hns].
      - intros E; discriminate E.
      - intros [_ E]. destruct cb as [|c0 cb0].
        + cbn [app] in E. destruct Hne as [H|H]; [|now apply H]. rewrite E in Hpb. cbn [app] in Hsa.
          (* ss = [[]]: then a's path is "/" ++ "" whose segs are [] <> [[]] *)
          rewrite E in Hsa. destruct ca; cbn [app] in Hsa.
          * pose proof (render_segs (p_path pa)) as R. rewrite Hsa, Haa in R. unfold render in R. cbn [app join] in R.
            rewrite <- R in Hsa. cbn [segs] in Hsa. change (is SLASH SLASH) with true in Hsa. discriminate Hsa.
          * inversion Hf2.
        + cbn [app] in E. injection E as E _. subst c0. apply (clean_no_empty _ Ccb). left. reflexivity. }
    destruct Hsr as [Esr Ear]. rewrite Ear, Haa. cbn [Bool.eqb].
    rewrite (nsegs_plain _ Hq), (nsegs_plain _ (wf_path pa Wa)); rewrite ?Esr, ?Hsa; try assumption.
    rewrite !app_length, (forall2_len _ _ _ Hf2), Nat.eqb_refl. now apply all_eq_prefix. }
  rewrite Ep. rewrite (eq_opt_refl_pct _ Hdq), (eq_opt_refl_pct _ Hdf). reflexivity.
Qed.


Lemma target_wf pa pb (ca cb ss bs : list str) s :
  wf_parts pa -> wf_parts pb -> p_scheme pa = Some s -> auth_match (p_authority pa) (p_authority pb) -> is_abs (p_path pa) = true ->
  segs (p_path pa) = ca ++ ss -> removelast (segs (p_path pb)) = cb ++ bs -> no_empty_but_last (p_path pb) ->
  Forall2 seg_eq cb ca -> ss <> [] ->
  wf_parts (with_auth pa (p_authority pb) (render true (cb ++ ss))).
Proof.
  intros Wa Wb Has Hae Haa Hsa Hsb Hnb Hf2 Hss.
  assert (Ccb : clean cb) by (pose proof (clean_dir _ Hnb) as C; rewrite Hsb in C; apply clean_app in C; tauto).
  assert (Hns : Forall noslash ss) by (pose proof (segs_noslash (p_path pa)) as H; rewrite Hsa in H; apply Forall_app in H; tauto).
  assert (Hnl : Forall noslash (cb ++ ss)) by (apply Forall_app; split; [apply clean_noslash, Ccb | exact Hns]).
  assert (Hq : Forall (none_of [QM; HASH]) (cb ++ ss)).
  { apply Forall_app. split.
    - pose proof (segs_none_of _ _ (wf_path pb Wb)) as H. apply rl_forall in H.
      assert (H' : Forall (none_of [QM; HASH]) (cb ++ bs)) by (rewrite <- Hsb; exact H). apply Forall_app in H'. tauto.
    - pose proof (segs_none_of _ _ (wf_path pa Wa)) as H. rewrite Hsa in H. apply Forall_app in H. tauto. }
  constructor; cbn [with_auth p_scheme p_authority p_path p_query p_fragment].
  - exact (wf_scheme pa Wa).
  - exact (wf_auth pb Wb).
  - unfold render. apply Forall_app. split; [repeat constructor; simpl; unfold SLASH, QM, HASH; intros [E|[E|[]]]; discriminate|].
    apply none_of_join; [simpl; unfold SLASH, QM, HASH; intros [E|[E|[]]]; discriminate | exact Hq].
  - exact (wf_query pa Wa).
  - intros _. right. unfold render. cbn [app]. eauto.
  - intros Ena t Et. unfold render in Et. cbn [app] in Et. injection Et as Et.
    assert (Hh : starts_slash (join (cb ++ ss)) = true) by (rewrite Et; cbn [starts_slash]; unfold is; apply N.eqb_refl).
    rewrite (join_head _ Hnl) in Hh. destruct cb as [|c0 cb0].
    + inversion Hf2; subst. cbn [app] in *.
      pose proof (render_segs (p_path pa)) as R. rewrite Hsa, Haa in R. unfold render in R. cbn [app] in R.
      assert (Hh2 : starts_slash (join ss) = true) by (rewrite (join_head _ Hns); exact Hh).
      destruct (join ss) as [|c1 r1] eqn:Ej; [discriminate Hh2|]. cbn [starts_slash] in Hh2. apply is_true in Hh2. subst c1.
      unfold auth_match in Hae. rewrite Ena in Hae. destruct (p_authority pa) eqn:Epa; [contradiction|]. exact (wf_path_noauth pa Wa Epa r1 (eq_sym R)).
    + cbn [app head_empty2] in Hh. destruct c0; [|discriminate Hh]. apply (clean_no_empty _ Ccb). left. reflexivity.
  - intros E. rewrite Has in E. discriminate E.
Qed.

(* ---------- packaged ---------- *)
Theorem round_trip_auth_respelled_partial (pa pb : parts) (s : str) (ca cb ss bs : list str) :
  wf_parts pa -> wf_parts pb -> p_scheme pa = Some s -> p_scheme pb = Some s ->
  auth_match (p_authority pa) (p_authority pb) ->
  is_abs (p_path pa) = true -> is_abs (p_path pb) = true ->
  segs (p_path pa) = ca ++ ss -> removelast (segs (p_path pb)) = cb ++ bs ->
  plain (segs (p_path pa)) -> plain (segs (p_path pb)) -> no_empty_but_last (p_path pa) -> no_empty_but_last (p_path pb) ->
  Forall2 seg_eq cb ca -> strip_common (ca ++ ss) (cb ++ bs) = Some (ss, bs) ->
  ss <> [] ->
  (bs = [] -> match ss with x :: _ => x <> [] /\ colon_first x = false | [] => False end) ->
  (p_query pa = None -> p_fragment pa <> None -> p_path pb = render true (cb ++ ss) -> p_query pb = None) ->
  Forall (fun x => dec x <> None) ss -> (forall x, p_query pa = Some x -> dec x <> None) -> (forall x, p_fragment pa = Some x -> dec x <> None) ->
  exists pr back, wf_parts pr /\ relative_to (compose pa) (compose pb) = Some (compose pr) /\
                  resolve (compose pr) (compose pb) = Some back /\ eq_ref back (compose pa) = Some true.
Proof.
  intros Wa Wb Has Hbs Hau Haa Hab Hsa Hsb Hpa Hpb Hna Hnb Hf2 Hst Hss Hsh Hqi Hds Hdq Hdf.
  exists (rt_ref pa pb ss bs), (compose (rt_target pa pb cb ss)). split; [|split; [|split]].
  - eapply rt_ref_wf; eassumption.
  - eapply relative_to_value3; eassumption.
  - eapply round_trip3; eassumption.
  - assert (Ccb : clean cb) by (pose proof (clean_dir _ Hnb) as C; rewrite Hsb in C; apply clean_app in C; tauto).
    assert (Hns : Forall noslash ss) by (pose proof (segs_noslash (p_path pa)) as H; rewrite Hsa in H; apply Forall_app in H; tauto).
    pose proof (target_wf pa pb ca cb ss bs s Wa Wb Has Hau Haa Hsa Hsb Hnb Hf2 Hss) as Wp.
    unfold rt_target. apply (target_equal pa pb cb ca ss s Wa Wp Has Hau Haa Hsa); auto.
    + rewrite <- Hsa. exact Hpa.
    + pose proof (plain_removelast _ Hpb) as H1. rewrite Hsb in H1. apply plain_app in H1 as [H1 _].
      pose proof Hpa as H2. rewrite Hsa in H2. apply plain_app in H2 as [_ H2]. apply plain_app. split; assumption.
    + exact (wf_path _ Wp).
Qed.

(* satisfiable: h://%68/a/b/c?q relative to h://h/a/x is b/c?q, resolving to h://h/a/b/c?q == a *)
Definition ex_a2 : parts := {| p_scheme := Some [104%N]; p_authority := Some [37;54;56]%N; p_path := [47;97;47;98;47;99]%N; p_query := Some [113%N]; p_fragment := None |}.
Lemma ex_wf_a2 : wf_parts ex_a2.
Proof.
  constructor; cbn [ex_a2 p_scheme p_authority p_path p_query p_fragment].
  - intros s E. injection E as <-. split; [discriminate | no_qh].
  - intros a E. injection E as <-. no_qh.
  - no_qh.
  - intros q E. injection E as <-. no_qh.
  - intros _. right. eexists. reflexivity.
  - intros E. discriminate E.
  - intros E. discriminate E.
Qed.
Example round_trip_auth_instance :
  relative_to (compose ex_a2) (compose ex_b) = Some [98;47;99;63;113]%N /\
  exists pr back, wf_parts pr /\ relative_to (compose ex_a2) (compose ex_b) = Some (compose pr) /\
                  resolve (compose pr) (compose ex_b) = Some back /\ eq_ref back (compose ex_a2) = Some true.
Proof.
  split; [vm_compute; reflexivity|].
  apply (round_trip_auth_respelled_partial ex_a2 ex_b [104%N] [[97%N]] [[97%N]] [[98%N]; [99%N]] []); try reflexivity; try exact ex_wf_a2; try exact ex_wf_b.
  all: try (intros x E; injection E as <-; vm_compute; discriminate).
  all: try (apply (concrete_no_empty [[97%N]; [98%N]] [99%N]); [reflexivity | vm_compute; intuition discriminate]).
  all: try (apply (concrete_no_empty [[97%N]] [120%N]); [reflexivity | vm_compute; intuition discriminate]).
  all: try (vm_compute; tauto).
  all: try discriminate.
  all: try (intros _; split; [discriminate | reflexivity]).
  all: try (intros x E; discriminate E).
  all: try (intros E; discriminate E).
  all: try (repeat constructor; vm_compute; try reflexivity; discriminate).
Qed.
