(* Property C11 -- authority editing through the in-place handle.  Statements only.
   Inv h a before after : the handle's buffer is before ++ acompose a ++ after and its start/end
   offsets delimit exactly acompose a. *)
From Coq Require Import List NArith Bool Arith.
Import ListNotations.
Require Import V.Regex V.Parse V.ParseProofs V.Auth V.AuthProofs V.Splice V.Setters V.AuthMut V.AuthMutProofs V.AuthValues V.AuthMutProofs2 V.Abnf V.BridgePaths V.C03Bridge V.C11Valid.
Local Open Scope nat_scope.

(* under the invariant the handle views exactly the authority text (reads through the handle are coherent) *)
Theorem C11_view : forall h a before after, Inv h a before after -> view h = acompose a.
Proof. exact view_inv. Qed.
Print Assumptions C11_view.

(* set_host: no panic; the invariant is re-established for the authority with that one sub-component
   replaced; `before` and `after` (scheme, "//", path, query, fragment) are untouched; hence any further
   call through the same handle starts from a coherent state *)
Theorem C11_set_host : forall h a before after new, Inv h a before after -> wf_aparts a ->
  exists h', set_host h new = Some h' /\ Inv h' (with_host a new) before after.
Proof. exact set_host_spec. Qed.
Print Assumptions C11_set_host.

(* set_userinfo (replace / insert "user@" / remove / no-op) and set_port (replace / insert ":port" / remove / no-op) *)
Theorem C11_set_userinfo : forall h a before after new, Inv h a before after -> wf_aparts_s a ->
  exists h', set_userinfo h new = Some h' /\ Inv h' (with_userinfo a new) before after.
Proof. exact set_userinfo_spec. Qed.
Print Assumptions C11_set_userinfo.
Theorem C11_set_port : forall h a before after new, Inv h a before after -> wf_aparts a ->
  exists h', set_port h new = Some h' /\ Inv h' (with_port a new) before after.
Proof. exact set_port_spec. Qed.
Print Assumptions C11_set_port.

(* ANY finite history of set_userinfo / set_host / set_port calls through ONE handle, with delimiter-valid
   arguments: no call panics, `before` and `after` never change, the handle ends up viewing exactly the
   authority with the sub-components updated in order -- i.e. as if each call had a fresh handle *)
Theorem C11_history : forall ops h a before after, Inv h a before after -> wf_aparts_s a -> Forall aarg_ok ops ->
  exists h', arun ops h = Some h' /\ Inv h' (fold_left aupdate ops a) before after /\ view h' = acompose (fold_left aupdate ops a).
Proof. exact history. Qed.
Print Assumptions C11_history.

(* AT THE LEVEL OF THE RFC GRAMMAR: a handle that views a string s of the authority language (inside any buffer),
   after ANY finite history of set_userinfo / set_host / set_port calls whose arguments are valid values of their
   component types (or removals), views a string of the authority language again -- no call panics.  (Factorisation
   of the authority grammar in both directions + C11_history.) *)
Theorem C11_history_valid_URI : forall ops h s before after, L (iauthority U) s -> Forall (varg U) ops ->
  h_data h = before ++ s ++ after -> h_start h = length before -> h_end h = length before + length s ->
  exists h', arun ops h = Some h' /\ L (iauthority U) (view h').
Proof. exact history_valid_U. Qed.
Print Assumptions C11_history_valid_URI.
Theorem C11_history_valid_IRI : forall ops h s before after, L (iauthority I) s -> Forall (varg I) ops ->
  h_data h = before ++ s ++ after -> h_start h = length before -> h_end h = length before + length s ->
  exists h', arun ops h = Some h' /\ L (iauthority I) (view h').
Proof. exact history_valid_I. Qed.
Print Assumptions C11_history_valid_IRI.

(* non-vacuity and the two other editors on a concrete history through ONE handle:
   s://u@h:1/p  --set_userinfo(longer-user)--> --set_host([::1])--> --set_port(None)--> *)
Example C11_example :
  let buf := [115;58;47;47;117;64;104;58;49;47;112]%N in
  let h0 := {| h_data := buf; h_start := 4; h_end := 9 |} in
  bind (set_userinfo h0 (Some [108;111;110;103;101;114]%N)) (fun h1 =>
  bind (set_host h1 [91;58;58;49;93]%N) (fun h2 =>
  bind (set_port h2 None) (fun h3 => Some (view h1, view h2, view h3, h_data h3))))
  = Some ([108;111;110;103;101;114;64;104;58;49], [108;111;110;103;101;114;64;91;58;58;49;93;58;49],
          [108;111;110;103;101;114;64;91;58;58;49;93], [115;58;47;47;108;111;110;103;101;114;64;91;58;58;49;93;47;112])%N.
Proof. vm_compute. reflexivity. Qed.
