(* C04 at grammar level, complete: histories of set_userinfo / set_host / set_port through an authority handle on a
   VALID reference return a VALID reference; hence every finite sequence of ALL safe mutators of a reference does. *)
From Coq Require Import List NArith Bool Arith Lia.
Import ListNotations.
Require Import V.Regex V.Bisim V.Abnf V.Parse V.ParseProofs V.Parse2 V.Bridge V.Factor V.BridgePaths V.C02Bridge V.FactorU V.FactorI
  V.Splice V.Setters V.SetPath V.SetAuth V.SetScheme V.Reference V.SetFragment V.C05Proofs V.C04Proofs V.ValidSet V.ValidSetInst V.C04Valid
  V.Auth V.AuthProofs V.AuthMut V.AuthMutProofs V.AuthValues V.AuthMutProofs2 V.RefAuth V.C03Bridge V.C11Valid V.ScanValues
  V.C02Proofs V.C04Valid2 V.ResolveValid V.C04Valid3.
Local Open Scope nat_scope.
Local Strategy opaque [L iauthority iuserinfo ihost].
Notation P := C02Bridge.P.

Section Fam.
  Variables X PX : cls.
  Notation valid := (valid_parts_fam X PX).
  Hypothesis Hwf : forall p, valid p -> wf_parts p.
  Hypothesis h_ui : incl_check (iuserinfo X) (Star (Cls not_at_lbr)) = true.
  Hypothesis h_host : incl_check (ihost X) SH_host = true.
  Hypothesis h_host_at : incl_check (ihost X) (Star (Cls not_at)) = true.
  Hypothesis h_bwd : incl_check (AUTH_raw (iuserinfo X) (ihost X) Abnf.port) (iauthority X) = true.
  Hypothesis h_fwd : incl_check (iauthority X) (AUTH_raw (iuserinfo X) (ihost X) Abnf.port) = true.
  Hypothesis h_auth : incl_check (iauthority X) (Star (Cls not_auth_delims)) = true.

  (* the parts of a valid authority contain none of '/' '?' '#' *)
  Lemma valid_clean a : valid_aparts_fam X a -> aparts_clean a.
  Proof.
    intros V. pose proof (valid_is_authority X h_bwd a V) as H.
    pose proof (star_none_of _ _ _ _ in_not_auth_delims h_auth H) as Hn. rewrite acompose_parts in Hn.
    apply none_of_app' in Hn as [Hu Hn]. apply none_of_app' in Hn as [Hh Hp]. unfold ui_part, port_part in *.
    split; [|split; [exact Hh|]].
    - intros u E. rewrite E in Hu. cbn [opt_post] in Hu. apply none_of_app' in Hu. tauto.
    - intros p E. rewrite E in Hp. cbn [opt_pre app] in Hp. now inversion Hp.
  Qed.
  Lemma arg_ok2 a o : valid_aparts_fam X a -> varg X o -> aarg_ok2 o.
  Proof.
    intros V A. split; [exact (varg_ok X h_ui h_host h_host_at o A)|].
    pose proof (valid_clean _ (aupdate_valid X a o V A)) as (Cu & Ch & Cp).
    destruct o as [u|h|p]; cbn [aupdate with_userinfo with_host with_port ap_userinfo ap_host ap_port] in *; assumption.
  Qed.
  Lemma args_ok2 ops : forall a, valid_aparts_fam X a -> Forall (varg X) ops -> Forall aarg_ok2 ops.
  Proof.
    induction ops as [|o r IH]; intros a V A; [constructor|]. inversion A; subst.
    constructor; [exact (arg_ok2 a o V H1) | apply (IH (aupdate a o)); [now apply aupdate_valid | assumption]].
  Qed.

  Theorem auth_history_valid p ops : valid p -> Forall (varg X) ops ->
    exists p', ref_auth_history (compose p) ops = Some (compose p') /\ valid p'.
  Proof.
    intros V A. pose proof (Hwf p V) as W. destruct (p_authority p) as [au|] eqn:Ea.
    - pose proof V as (Hs & Ha & Hp & Hq & Hf). unfold oL in Ha. rewrite Ea in Ha.
      apply (incl_check_sound _ _ h_fwd) in Ha. apply AUTH_factor in Ha as (a & Va & ->).
      destruct (ref_auth_history_spec p a ops W Ea (valid_aparts_wf X h_ui h_host h_host_at a Va) (valid_clean a Va) (args_ok2 ops a Va A)) as (E & _).
      eexists. split; [exact E|].
      pose proof (valid_is_authority X h_bwd _ (fold_valid X ops a Va A)) as Hau.
      unfold valid_parts_fam, valid_parts, path_ok, with_authority in *. cbn [p_scheme p_authority p_path p_query p_fragment]. rewrite Ea in Hp.
      split; [exact Hs | split; [exact Hau | split; [exact Hp | split; [exact Hq | exact Hf]]]].
    - exists p. split; [|exact V]. unfold ref_auth_history, authority_mut. rewrite (find_authority_full p W), Ea. reflexivity.
  Qed.
End Fam.

Definition auth_history_valid_U := auth_history_valid U U valid_parts_wf_U ui_U host_U host_at_U a_bwd_U a_fwd_U chk_auth_U.
Definition auth_history_valid_I := auth_history_valid I P valid_parts_wf_I ui_I host_I host_at_I a_bwd_I a_fwd_I chk_auth_I.

(* ---------- every safe mutator of a reference, in any order ---------- *)
Inductive xop := XW (o : wop) | XAuth (ops : list aop).
Definition xstep (buf : str) (o : xop) : option str := match o with XW o => wstep buf o | XAuth ops => ref_auth_history buf ops end.
Fixpoint xrun (ops : list xop) (buf : str) : option str := match ops with [] => Some buf | o :: r => bind (xstep buf o) (xrun r) end.
Definition xok (X PX : cls) (o : xop) : Prop := match o with XW o => wok X PX o | XAuth ops => Forall (varg X) ops end.

Lemma wstep_valid_U p o : valid_parts_U p -> wok U U o -> exists p', wstep (compose p) o = Some (compose p') /\ valid_parts_U p'.
Proof.
  intros V A. destruct o as [o|o|b]; cbn [wstep wok] in *.
  - exact (vstep_U p o V A).
  - exact (pstep_valid_U p o V A).
  - destruct (uri_decomposition b A) as (pb & sch & Vb & Hs & (Eb & _) & _). subst b. exact (resolve_valid_U pb p sch Vb V Hs).
Qed.
Lemma wstep_valid_I p o : valid_parts_I p -> wok I P o -> exists p', wstep (compose p) o = Some (compose p') /\ valid_parts_I p'.
Proof.
  intros V A. destruct o as [o|o|b]; cbn [wstep wok] in *.
  - exact (vstep_I p o V A).
  - exact (pstep_valid_I p o V A).
  - destruct (iri_decomposition b A) as (pb & sch & Vb & Hs & (Eb & _) & _). subst b. exact (resolve_valid_I pb p sch Vb V Hs).
Qed.

Theorem valid_every_U ops : forall s, L (IRI_reference U U) s -> Forall (xok U U) ops ->
  exists s', xrun ops s = Some s' /\ L (IRI_reference U U) s'.
Proof.
  intros s H A. apply uri_ref_shape in H. apply REF_factor in H as (p & V & ->). revert p V.
  induction A as [|o r Ao _ IH]; intros p V; cbn [xrun].
  - eexists; split; [reflexivity | now apply valid_in_language_U].
  - destruct o as [o|ops]; cbn [xstep xok] in *.
    + destruct (wstep_valid_U p o V Ao) as (p1 & E & V1). rewrite E. cbn [bind]. now apply IH.
    + destruct (auth_history_valid_U p ops V Ao) as (p1 & E & V1). rewrite E. cbn [bind]. now apply IH.
Qed.
Theorem valid_every_I ops : forall s, L (IRI_reference I P) s -> Forall (xok I P) ops ->
  exists s', xrun ops s = Some s' /\ L (IRI_reference I P) s'.
Proof.
  intros s H A. apply iri_ref_shape in H. apply REF_factor in H as (p & V & ->). revert p V.
  induction A as [|o r Ao _ IH]; intros p V; cbn [xrun].
  - eexists; split; [reflexivity | now apply valid_in_language_I].
  - destruct o as [o|ops]; cbn [xstep xok] in *.
    + destruct (wstep_valid_I p o V Ao) as (p1 & E & V1). rewrite E. cbn [bind]. now apply IH.
    + destruct (auth_history_valid_I p ops V Ao) as (p1 & E & V1). rewrite E. cbn [bind]. now apply IH.
Qed.
