(* IRI family: the smart-constructor grammar of Abnf.v equals the raw RFC shape of Factor.v (two
   inclusion certificates checked by reflection). *)
From Coq Require Import List NArith Bool.
Import ListNotations.
Require Import V.Regex V.Bisim V.Abnf V.Parse V.ParseProofs V.Bridge V.Factor V.BridgePaths.
Open Scope N_scope.
Definition P := iprivate_3987.
Definition raw_iri_ref := REF_raw scheme (iauthority I) (ipath_abempty I) (ipath_absolute I) (ipath_rootless I) (ipath_noscheme I) (iquery I P) (ifragment I).
Definition raw_iri := ABS_raw scheme (iauthority I) (ipath_abempty I) (ipath_absolute I) (ipath_rootless I) (iquery I P) (ifragment I).
Lemma ref_fwd_I : incl_check (IRI_reference I P) raw_iri_ref = true. Proof. vm_cast_no_check (eq_refl true). Qed.
Lemma ref_bwd_I : incl_check raw_iri_ref (IRI_reference I P) = true. Proof. vm_cast_no_check (eq_refl true). Qed.
Lemma abs_fwd_I : incl_check (IRI I P) raw_iri = true. Proof. vm_cast_no_check (eq_refl true). Qed.
Lemma abs_bwd_I : incl_check raw_iri (IRI I P) = true. Proof. vm_cast_no_check (eq_refl true). Qed.
Theorem iri_ref_shape s : L (IRI_reference I P) s <-> L raw_iri_ref s.
Proof. split; [apply (incl_check_sound _ _ ref_fwd_I) | apply (incl_check_sound _ _ ref_bwd_I)]. Qed.
Theorem iri_shape s : L (IRI I P) s <-> L raw_iri s.
Proof. split; [apply (incl_check_sound _ _ abs_fwd_I) | apply (incl_check_sound _ _ abs_bwd_I)]. Qed.
