(* L0 model of RiRefBufImpl::set_scheme (Option version) AS REPAIRED (G6) and its functional theorem. *)
From Coq Require Import List NArith Bool Arith Lia.
Import ListNotations.
Require Import V.Regex V.Parse V.ParseProofs V.Parse2 V.Parse2Proofs V.ScanValues V.PathSpec V.Splice V.Setters V.Push V.SetPath V.SetAuth.
Local Open Scope nat_scope.

Definition set_scheme (buf : str) (sch : option str) : option str :=
  match sch with
  | Some new =>
    match find_scheme buf 0 with
    | Some (s, e) => replace buf s e new
    | None => insert_at buf 0 (new ++ [COLON])
    end
  | None =>
    match find_scheme buf 0 with
    | Some (s, e) =>
      let no_auth := match find_authority buf 0 with inl _ => false | inr _ => true end in
      let path := slice buf (find_path buf 0) in
      replace buf s (e + 1) (if no_auth && colon_first path then [DOT; SLASH] else [])
    | None => Some buf
    end
  end.

Definition with_scheme (p : parts) (s : option str) (path : str) : parts :=
  {| p_scheme := s; p_authority := p_authority p; p_path := path; p_query := p_query p; p_fragment := p_fragment p |}.
Definition scheme_fix_path (p : parts) (new : option str) : str :=
  match new, p_scheme p, p_authority p with
  | None, Some _, None => if colon_first (p_path p) then [DOT; SLASH] ++ p_path p else p_path p
  | _, _, _ => p_path p
  end.

Lemma find_scheme_value p : wf_parts p -> find_scheme (compose p) 0 = option_map (fun s => (0, length s)) (p_scheme p).
Proof. intros W. rewrite find_scheme_compose, (reference_parts_compose p W) by auto. reflexivity. Qed.

Lemma slice_path p : wf_parts p -> slice (compose p) (find_path (compose p) 0) = p_path p.
Proof.
  intros W. rewrite find_path_value by auto. unfold slice. simpl fst; simpl snd.
  replace (length (pre_of p) + length (p_path p) - length (pre_of p)) with (length (p_path p)) by lia.
  rewrite compose_pre, skipn_app_len. rewrite firstn_app, Nat.sub_diag, firstn_all. simpl. apply app_nil_r.
Qed.

Theorem set_scheme_spec p new : wf_parts p ->
  set_scheme (compose p) new = Some (compose (with_scheme p new (scheme_fix_path p new))).
Proof.
  intros W. unfold set_scheme. rewrite find_scheme_value by auto.
  assert (C : forall s x, compose (with_scheme p s x) = opt_post s [COLON] ++ opt_pre [SLASH; SLASH] (p_authority p) ++ x ++ tail_of p) by reflexivity.
  rewrite C. unfold scheme_fix_path.
  destruct new as [new|]; destruct (p_scheme p) as [s|] eqn:Es; simpl option_map; cbv iota.
  - (* replace the scheme *)
    unfold compose. rewrite Es. simpl opt_post.
    set (X := opt_pre [SLASH; SLASH] (p_authority p) ++ p_path p ++ tail_of p).
    replace ((s ++ [COLON]) ++ X) with ([] ++ s ++ ([COLON] ++ X)) by (simpl; rewrite <- app_assoc; reflexivity).
    change 0 with (length (@nil N)). replace (length s) with (length (@nil N) + length s) by reflexivity.
    rewrite replace_spec. simpl. rewrite <- app_assoc. reflexivity.
  - (* insert `new:` *)
    unfold insert_at, compose. rewrite Es. simpl opt_post.
    set (X := opt_pre [SLASH; SLASH] (p_authority p) ++ p_path p ++ tail_of p).
    replace ([] ++ X) with ([] ++ [] ++ X) by reflexivity.
    change 0 with (length (@nil N)). replace (length (@nil N)) with (length (@nil N) + length (@nil N)) at 2 by reflexivity.
    rewrite replace_spec. simpl. rewrite <- app_assoc. reflexivity.
  - (* remove the scheme, shielding a colon in the first segment *)
    rewrite slice_path by auto.
    pose proof (find_authority_value p W) as FA.
    replace (match find_authority (compose p) 0 with inl _ => false | inr _ => true end)
      with (match p_authority p with Some _ => false | None => true end)
      by (destruct (find_authority (compose p) 0), (p_authority p); simpl in FA; congruence).
    unfold compose. rewrite Es. simpl opt_post.
    replace ((s ++ [COLON]) ++ opt_pre [SLASH; SLASH] (p_authority p) ++ p_path p ++ tail_of p)
      with ([] ++ (s ++ [COLON]) ++ (opt_pre [SLASH; SLASH] (p_authority p) ++ p_path p ++ tail_of p)) by reflexivity.
    replace (length s + 1) with (length (@nil N) + length (s ++ [COLON])) by lens.
    change 0 with (length (@nil N)) at 1.
    rewrite replace_spec. simpl app.
    destruct (p_authority p) as [a|]; simpl; [reflexivity|].
    destruct (colon_first (p_path p)); simpl; reflexivity.
  - unfold compose. rewrite Es. reflexivity.
Qed.
Print Assumptions set_scheme_spec.
