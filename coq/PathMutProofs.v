(* C10: the index-level handle model (PathMut.v, the one compared with the implementation) refines the
   list-level push of Push.v (for which the push law is proved): offsets stay coherent, the bytes before and
   after the path are untouched. *)
From Coq Require Import List NArith Bool Arith Lia.
Import ListNotations.
Require Import V.Regex V.Parse V.ParseProofs V.Parse2 V.PathSpec V.Splice V.Setters V.Iter V.PathQ V.Push V.PathMut.
Local Open Scope nat_scope.

Ltac lens := repeat (rewrite app_length || cbn [length]); lia.

Definition PInv (h : pm) (before v after : str) : Prop :=
  pm_buf h = before ++ v ++ after /\ pm_start h = length before /\ pm_end h = length before + length v.

Lemma pm_view_inv h before v after : PInv h before v after -> pm_view h = Some v.
Proof.
  intros (Hb & Hs & He). unfold pm_view. rewrite Hb, Hs, He.
  replace (length before <=? length before + length v) with true by (symmetry; apply Nat.leb_le; lia).
  replace (length before + length v <=? length (before ++ v ++ after)) with true by (symmetry; apply Nat.leb_le; lens).
  cbn [andb]. f_equal. rewrite skipn_app_len. replace (length before + length v - length before) with (length v) by lia.
  rewrite firstn_app, Nat.sub_diag, firstn_all. simpl. apply app_nil_r.
Qed.

Lemma copy_slice_app b pre old post lo hi content : b = pre ++ old ++ post -> lo = length pre -> hi = length pre + length content ->
  length old = length content -> copy_slice b lo hi content = Some (pre ++ content ++ post).
Proof.
  intros -> -> -> Hl. unfold copy_slice.
  replace (length pre <=? length pre + length content) with true by (symmetry; apply Nat.leb_le; lia).
  replace (length pre + length content <=? length (pre ++ old ++ post)) with true by (symmetry; apply Nat.leb_le; lens).
  replace (length pre + length content - length pre =? length content) with true by (symmetry; apply Nat.eqb_eq; lia).
  cbn [andb]. now apply copy_at_app.
Qed.

(* the optional '/' that makes an empty path after an authority absolute *)
Lemma slash_step h before after : PInv h before [] after ->
  bind (allocate_range (pm_buf h) (pm_start h) (pm_start h) 1) (fun b =>
  bind (set_nth b (pm_start h) SLASH) (fun b => Some (with_buf h b (pm_end h + 1))))
  = Some (with_buf h (before ++ [SLASH] ++ after) (pm_end h + 1)).
Proof.
  intros (Hb & Hs & He). rewrite Hb, Hs. cbn [app].
  destruct (allocate_range_spec before [] after 1) as (J & HJ & E). cbn [app length] in E. rewrite Nat.add_0_r in E. rewrite E. cbn [bind].
  destruct J as [|j [|? ?]]; cbn [length] in HJ; try lia. cbn [app].
  rewrite set_nth_app. reflexivity.
Qed.

Theorem pm_push_refines h before v after seg : PInv h before v after ->
  exists h', pm_push h seg = Some h' /\ PInv h' before (push (pm_start h =? 0) (pm_fa h) v seg) after /\
             pm_fa h' = pm_fa h /\ pm_start h' = pm_start h.
Proof.
  intros I. pose proof I as (Hb & Hs & He). unfold pm_push, push.
  assert (Hse : (pm_start h =? pm_end h) = is_nil v).
  { rewrite Hs, He. destruct v; cbn [length is_nil]; [rewrite Nat.add_0_r; apply Nat.eqb_refl | apply Nat.eqb_neq; lia]. }
  assert (H0 : (0 <? pm_start h) = negb (pm_start h =? 0)) by (destruct (pm_start h); reflexivity).
  rewrite Hse, H0.
  (* after the optional slash step we have a handle h1 with PInv h1 before p after *)
  set (p := if pm_fa h && negb (pm_start h =? 0) && is_nil v then [SLASH] else v).
  assert (exists h1, (if pm_fa h && negb (pm_start h =? 0) && is_nil v
           then bind (allocate_range (pm_buf h) (pm_start h) (pm_start h) 1) (fun b =>
                bind (set_nth b (pm_start h) SLASH) (fun b => Some (with_buf h b (pm_end h + 1))))
           else Some h) = Some h1 /\ PInv h1 before p after /\ pm_fa h1 = pm_fa h /\ pm_start h1 = pm_start h) as (h1 & E1 & I1 & F1 & S1).
  { unfold p. destruct (pm_fa h && negb (pm_start h =? 0) && is_nil v) eqn:C.
    - apply andb_true_iff in C as [_ Cn]. destruct v; [|discriminate].
      rewrite (slash_step h before after I). eexists; split; [reflexivity|]. unfold PInv, with_buf; cbn [pm_buf pm_start pm_end pm_fa].
      repeat split; auto. rewrite He. cbn [length]. lia.
    - exists h. repeat split; auto. }
  rewrite E1. cbn [bind]. rewrite (pm_view_inv h1 before p after I1). cbn [bind].
  destruct I1 as (Hb1 & Hs1 & He1). rewrite S1.
  destruct (path_is_empty p && ((pm_start h =? 0) && colon_first seg || is_nil seg)) eqn:Cd.
  - (* the "./" shield *)
    apply andb_true_iff in Cd as [Cp _].
    assert (Hfso : fso h1 p = length before + length p).
    { unfold fso. rewrite Hs1. destruct p as [|c [|d r]]; try discriminate; cbn [is_abs length]; [lia|]. simpl in Cp. rewrite Cp. lia. }
    assert (Habs : (if is_abs p then [SLASH] else []) = p).
    { destruct p as [|c [|d r]]; try discriminate; cbn [is_abs]; [reflexivity|]. simpl in Cp. rewrite Cp. apply is_true in Cp. subst. reflexivity. }
    rewrite Hfso, Hb1.
    replace (before ++ p ++ after) with ((before ++ p) ++ [] ++ after) by (rewrite <- app_assoc; reflexivity).
    replace (length before + length p) with (length (before ++ p)) by lens.
    destruct (allocate_range_spec (before ++ p) [] after (2 + length seg)) as (J & HJ & E). cbn [length] in E. rewrite Nat.add_0_r in E. rewrite E. cbn [bind].
    destruct (split_at J 2) as (J1 & J2 & -> & HJ1); [lia|]. rewrite app_length in HJ.
    rewrite (copy_slice_app _ (before ++ p) J1 (J2 ++ after) _ _ [DOT; SLASH]); [| rewrite <- !app_assoc; reflexivity | reflexivity | reflexivity | exact HJ1]. cbn [bind].
    rewrite (copy_slice_app _ ((before ++ p) ++ [DOT; SLASH]) J2 after _ _ seg); [| rewrite <- !app_assoc; reflexivity | lens | rewrite He1; lens | lia]. cbn [bind].
    eexists; split; [reflexivity|]. unfold PInv, with_buf; cbn [pm_buf pm_start pm_end pm_fa]. rewrite Habs. repeat split; auto.
    + rewrite <- !app_assoc. reflexivity.
    + rewrite He1. lens.
  - destruct (path_is_empty p) eqn:Cp; cbn [andb] in Cd |- *.
    + (* append to an empty path *)
      rewrite Hb1, He1.
      replace (before ++ p ++ after) with ((before ++ p) ++ [] ++ after) by (rewrite <- app_assoc; reflexivity).
      replace (length before + length p) with (length (before ++ p)) by lens.
      pose proof (replace_spec (before ++ p) [] after seg) as R. cbn [length] in R. rewrite Nat.add_0_r in R. rewrite R. cbn [bind].
      eexists; split; [reflexivity|]. unfold PInv, with_buf; cbn [pm_buf pm_start pm_end pm_fa]. repeat split; auto.
      * rewrite <- !app_assoc. reflexivity.
      * lens.
    + (* general case, possibly dropping a trailing "./" *)
      rewrite F1.
      destruct ((pm_fa h || (3 <? length p)) && ends_dotslash p) eqn:Ce.
      * apply andb_true_iff in Ce as [_ Ce].
        destruct (ends_dotslash_inv p Ce) as (q & Eq). 
        assert (Hdl : drop_last2 (q ++ [SLASH; DOT; SLASH]) = q ++ [SLASH]).
        { unfold drop_last2. rewrite !app_length. cbn [length]. replace (length q + 3 - 2) with (length (q ++ [SLASH])) by lens.
          replace (q ++ [SLASH; DOT; SLASH]) with ((q ++ [SLASH]) ++ [DOT; SLASH]) by (rewrite <- app_assoc; reflexivity). apply firstn_exact. reflexivity. }
        unfold sub_chk. rewrite He1.
        replace (2 <=? length before + length p) with true by (symmetry; apply Nat.leb_le; rewrite Eq; lens).
        cbn [bind]. rewrite Hb1, Eq.
        replace (before ++ (q ++ [SLASH; DOT; SLASH]) ++ after) with ((before ++ q ++ [SLASH]) ++ [DOT; SLASH] ++ after) by (rewrite <- !app_assoc; reflexivity).
        replace (length before + length (q ++ [SLASH; DOT; SLASH]) - 2) with (length (before ++ q ++ [SLASH])) by lens.
        replace (length before + length (q ++ [SLASH; DOT; SLASH])) with (length (before ++ q ++ [SLASH]) + length [DOT; SLASH]) by lens.
        destruct (allocate_range_spec (before ++ q ++ [SLASH]) [DOT; SLASH] after (1 + length seg)) as (J & HJ & E). rewrite E. cbn [bind].
        destruct J as [|j J]; [cbn [length] in HJ; lia|]. cbn [length] in HJ.
        replace ((before ++ q ++ [SLASH]) ++ (j :: J) ++ after) with ((before ++ q ++ [SLASH]) ++ j :: (J ++ after)) by reflexivity.
        rewrite set_nth_app. cbn [bind].
        replace (2 <=? length (before ++ q ++ [SLASH]) + length [DOT; SLASH] + (1 + length seg)) with true by (symmetry; apply Nat.leb_le; lens).
        cbn [bind].
        rewrite (copy_slice_app _ ((before ++ q ++ [SLASH]) ++ [SLASH]) J after _ _ seg); [| rewrite <- !app_assoc; reflexivity | lens | lens | lia]. cbn [bind].
        eexists; split; [reflexivity|]. unfold PInv, with_buf; cbn [pm_buf pm_start pm_end pm_fa]. rewrite Hdl. repeat split; auto.
        -- rewrite <- !app_assoc. reflexivity.
        -- lens.
      * unfold sub_chk. cbn [Nat.leb bind]. rewrite Nat.sub_0_r, He1, Hb1.
        replace (before ++ p ++ after) with ((before ++ p) ++ [] ++ after) by (rewrite <- app_assoc; reflexivity).
        replace (length before + length p) with (length (before ++ p)) by lens.
        destruct (allocate_range_spec (before ++ p) [] after (1 + length seg)) as (J & HJ & E). cbn [length] in E. rewrite Nat.add_0_r in E. rewrite E. cbn [bind].
        destruct J as [|j J]; [cbn [length] in HJ; lia|]. cbn [length] in HJ.
        replace ((before ++ p) ++ (j :: J) ++ after) with ((before ++ p) ++ j :: (J ++ after)) by reflexivity.
        rewrite set_nth_app. cbn [bind]. rewrite Nat.sub_0_r.
        rewrite (copy_slice_app _ ((before ++ p) ++ [SLASH]) J after _ _ seg); [| rewrite <- !app_assoc; reflexivity | lens | lens | lia]. cbn [bind].
        eexists; split; [reflexivity|]. unfold PInv, with_buf; cbn [pm_buf pm_start pm_end pm_fa]. repeat split; auto.
        -- rewrite <- !app_assoc. reflexivity.
        -- lens.
Qed.

(* ---------- pop and clear ---------- *)
Lemma get_nth_mid before v after j : j < length v -> get_nth (before ++ v ++ after) (length before + j) = get_nth v j.
Proof.
  intros H. unfold get_nth. rewrite nth_error_app2 by lia. replace (length before + j - length before) with j by lia.
  now rewrite nth_error_app1.
Qed.

(* the backward scan for the last '/' reads only inside the view, so it can be run on the view alone *)
Lemma back_scan_view before v after first fuel : forall j, j < length v ->
  back_scan (before ++ v ++ after) (length before + first) (length before + j) fuel =
  option_map (fun k => length before + k) (back_scan v first j fuel).
Proof.
  induction fuel as [|f IH]; intros j Hj; cbn [back_scan option_map]; [reflexivity|].
  replace (length before + first <? length before + j) with (first <? j)
    by (destruct (first <? j) eqn:E; symmetry; [apply Nat.ltb_lt; apply Nat.ltb_lt in E; lia | apply Nat.ltb_ge; apply Nat.ltb_ge in E; lia]).
  destruct (first <? j) eqn:E; [|reflexivity].
  rewrite get_nth_mid by exact Hj. destruct (get_nth v j) as [c|]; [|reflexivity].
  destruct (is c SLASH); [reflexivity|].
  apply Nat.ltb_lt in E. replace (length before + j - 1) with (length before + (j - 1)) by lia. apply IH. lia.
Qed.
Lemma back_scan_some v first fuel : forall j, j < length v -> exists k, back_scan v first j fuel = Some k /\ k <= j.
Proof.
  induction fuel as [|f IH]; intros j Hj; cbn [back_scan]; [eauto|].
  destruct (first <? j) eqn:E; [|eauto].
  unfold get_nth. destruct (nth_error v j) as [c|] eqn:En; [|apply nth_error_None in En; lia].
  destruct (is c SLASH); [eauto|]. apply Nat.ltb_lt in E. destruct (IH (j - 1)) as (k & -> & Hk); [lia|]. exists k. split; [reflexivity | lia].
Qed.

(* list-level pop: what the view becomes *)
Definition pop1 (start0 fa : bool) (v : str) : option str :=
  let is_empty := path_is_empty v in
  bind (if is_empty && negb (is_abs v) then Some true
        else match pq_last v with None => None | Some None => Some false | Some (Some r) => Some (is_dotdot (slice v r)) end) (fun parent =>
  if parent then Some (push start0 fa v DOTDOT)
  else if negb is_empty then option_map (fun k => firstn k v) (back_scan v (first_off v) (length v - 1) (S (length v)))
  else Some v).

Theorem pm_pop_refines h before v after : PInv h before v after ->
  match pop1 (pm_start h =? 0) (pm_fa h) v with
  | Some v' => exists h', pm_pop h = Some h' /\ PInv h' before v' after /\ pm_fa h' = pm_fa h /\ pm_start h' = pm_start h
  | None => True
  end.
Proof.
  intros I. pose proof I as (Hb & Hs & He). unfold pop1, pm_pop. rewrite (pm_view_inv h before v after I). cbn [bind].
  destruct (if path_is_empty v && negb (is_abs v) then Some true
            else match pq_last v with None => None | Some None => Some false | Some (Some r) => Some (is_dotdot (slice v r)) end) as [parent|]; cbn [bind]; [|exact Logic.I].
  destruct parent.
  - destruct (pm_push_refines h before v after DOTDOT I) as (h' & E & I' & F & S). exists h'. auto.
  - destruct (path_is_empty v) eqn:Ee; cbn [negb].
    + exists h. auto.
    + assert (Hv : 1 <= length v) by (destruct v; [discriminate | cbn [length]; lia]).
      destruct (back_scan_some v (first_off v) (S (length v)) (length v - 1)) as (k & Ek & Hk); [lia|]. rewrite Ek. cbn [option_map].
      unfold sub_chk. rewrite He. replace (1 <=? length before + length v) with true by (symmetry; apply Nat.leb_le; lia). cbn [bind].
      assert (Hfso : fso h v = length before + first_off v) by (unfold fso, first_off; rewrite Hs; destruct (is_abs v); lia).
      rewrite Hfso, Hb. replace (length before + length v - 1) with (length before + (length v - 1)) by lia.
      assert (Hfuel : back_scan (before ++ v ++ after) (length before + first_off v) (length before + (length v - 1)) (S (length (before ++ v ++ after)))
                      = Some (length before + k)).
      { (* more fuel than needed gives the same answer: run with the view's fuel via monotonicity of the scan *)
        rewrite back_scan_view by lia.
        assert (M : forall f1 f2 j, j < f1 -> j < f2 -> back_scan v (first_off v) j f1 = back_scan v (first_off v) j f2).
        { induction f1 as [|f1 IH1]; intros f2 j H1 H2; [lia|]. destruct f2 as [|f2]; [lia|]. cbn [back_scan].
          destruct (first_off v <? j) eqn:E; [|reflexivity]. destruct (get_nth v j); [|reflexivity]. destruct (is n SLASH); [reflexivity|].
          apply Nat.ltb_lt in E. apply IH1; lia. }
        rewrite (M _ (S (length v)) (length v - 1)) by (rewrite ?app_length; lia). rewrite Ek. reflexivity. }
      rewrite Hfuel. cbn [bind].
      replace (before ++ v ++ after) with ((before ++ firstn k v) ++ skipn k v ++ after) by (rewrite <- app_assoc, (app_assoc (firstn k v)), firstn_skipn; reflexivity).
      assert (Hlk : length (firstn k v) = k) by (apply firstn_length_le; lia).
      replace (length before + k) with (length (before ++ firstn k v)) by lens.
      replace (length before + length v) with (length (before ++ firstn k v) + length (skipn k v)) by (rewrite app_length, skipn_length, Hlk; lia).
      rewrite replace_spec. cbn [bind app]. eexists; split; [reflexivity|]. unfold PInv, with_buf; cbn [pm_buf pm_start pm_end pm_fa].
      repeat split; auto.
      * rewrite <- app_assoc. reflexivity.
      * lens.
Qed.

Definition clear1 (v : str) : str := if is_abs v then [SLASH] else [].
Theorem pm_clear_refines h before v after : PInv h before v after ->
  exists h', pm_clear h = Some h' /\ PInv h' before (clear1 v) after /\ pm_fa h' = pm_fa h /\ pm_start h' = pm_start h.
Proof.
  intros I. pose proof I as (Hb & Hs & He). unfold pm_clear. rewrite (pm_view_inv h before v after I). cbn [bind].
  assert (Hc : v = clear1 v ++ skipn (length (clear1 v)) v).
  { unfold clear1. destruct v as [|c r]; [reflexivity|]. cbn [is_abs]. destruct (is c SLASH) eqn:E; [|reflexivity]. apply is_true in E. subst. reflexivity. }
  assert (Hfso : fso h v = length before + length (clear1 v)) by (unfold fso, clear1; rewrite Hs; destruct (is_abs v); cbn [length]; lia).
  set (w := skipn (length (clear1 v)) v) in *.
  assert (Hbuf : before ++ v ++ after = (before ++ clear1 v) ++ w ++ after).
  { transitivity (before ++ (clear1 v ++ w) ++ after); [rewrite <- Hc; reflexivity | rewrite <- !app_assoc; reflexivity]. }
  assert (Hlen : length v = length (clear1 v) + length w) by (rewrite Hc at 1; apply app_length).
  rewrite Hfso, Hb, He, Hbuf, Hlen.
  replace (length before + length (clear1 v)) with (length (before ++ clear1 v)) by lens.
  replace (length before + (length (clear1 v) + length w)) with (length (before ++ clear1 v) + length w) by lens.
  rewrite replace_spec. cbn [bind app]. eexists; split; [reflexivity|]. unfold PInv, with_buf; cbn [pm_buf pm_start pm_end pm_fa].
  repeat split; auto.
  - rewrite <- app_assoc. reflexivity.
  - lens.
Qed.
