(* Property C17 -- compile-time macros.  Statements only.
   Thin model: a macro invocation on a literal is a compile error unless the validator accepts the literal,
   in which case it is the constant holding exactly that text.  With C01 (validator = RFC language, re-proved
   on every run for the four types) "accepted iff the run-time parser accepts" holds for all literals.  The
   expansion round trip through syn / quote / the rustc lexer is observed by ./check C17, not proved. *)
From Coq Require Import List NArith Bool.
Import ListNotations.
Require Import V.Regex.

Section Macro.
  Variable validate : str -> bool.
  Inductive expansion := Const (text : str) | CompileError.
  Definition macro (lit : str) : expansion := if validate lit then Const lit else CompileError.
  Theorem C17_accepts_iff_runtime : forall lit, macro lit <> CompileError <-> validate lit = true.
  Proof. intros lit. unfold macro. destruct (validate lit); split; intros H; auto; try congruence; try discriminate. Qed.
  Theorem C17_same_text : forall lit t, macro lit = Const t -> t = lit.
  Proof. intros lit t. unfold macro. destruct (validate lit); intros H; [injection H; auto | discriminate]. Qed.
End Macro.
Print Assumptions C17_accepts_iff_runtime.
Print Assumptions C17_same_text.
