(* Element-level facts: the segments of the path written by push / pop / normalize / the symbolic operations are
   segments of the input path, the pushed segment, ".", ".." or the empty segment.  Hence any predicate on segments
   that holds of these is preserved (used with Q = "is a segment of the RFC grammar"). *)
From Coq Require Import List NArith Bool Arith Lia.
Import ListNotations.
Require Import V.Regex V.Parse V.ParseProofs V.PathSpec V.Iter V.Push V.PathMut V.PathMutProofs V.Rfc V.PushWf V.NormProofs V.PopProofs V.SymProofs V.MergeProofs
  V.SetPath V.C05Proofs V.C10Proofs.
Local Open Scope nat_scope.

Lemma is_dot_eq x : is_dot x = true -> x = [DOT].
Proof. destruct x as [|c [|d r]]; cbn [is_dot]; try discriminate. intros H. apply is_true in H. now subst. Qed.
Lemma nodot_in x l : In x l -> is_dot x = false -> In x (nodot l).
Proof. intros H Hd. unfold nodot. apply filter_In. split; [exact H | now rewrite Hd]. Qed.
Lemma in_nodot x l : In x (nodot l) -> In x l.
Proof. unfold nodot. intros H. apply filter_In in H. tauto. Qed.

(* segments of a rendered list are among the list *)
Lemma segs_render_sub ab l x : Forall noslash l -> In x (segs (render ab l)) -> In x l.
Proof.
  intros Hn Hx. destruct l as [|s l']; [destruct ab; cbn in Hx; contradiction|].
  assert (Hsp : split (join (s :: l')) = s :: l') by (apply split_join; [discriminate | exact Hn]).
  unfold render in Hx. destruct ab; cbn [app] in Hx.
  - unfold segs in Hx. change (is SLASH SLASH) with true in Hx. cbv iota in Hx.
    destruct (join (s :: l')) as [|c t] eqn:Ej; [contradiction|]. rewrite <- Hsp. exact Hx.
  - unfold segs in Hx. destruct (join (s :: l')) as [|c t] eqn:Ej; [contradiction|].
    destruct (is c SLASH) eqn:Ec.
    + apply is_true in Ec. subst c. rewrite <- Hsp. cbn [split]. change (is SLASH SLASH) with true. cbv iota.
      destruct t; [contradiction | right; exact Hx].
    + rewrite <- Hsp. exact Hx.
Qed.

Section Q.
  Variable Q : str -> Prop.
  Hypothesis Qdot : Q [DOT].
  Hypothesis Qdd : Q DOTDOT.
  Hypothesis Qnil : Q [].

  Lemma push_Q start0 fa v seg : Forall Q (segs v) -> Q seg -> noslash seg -> Forall Q (segs (push start0 fa v seg)).
  Proof.
    intros Hv Hs Hn. apply Forall_forall. intros x Hx. destruct (is_dot x) eqn:Ed; [apply is_dot_eq in Ed; subst; exact Qdot|].
    apply (nodot_in _ _ Hx) in Ed. rewrite (push_law start0 fa v seg Hn) in Ed. apply in_nodot in Ed.
    rewrite Forall_forall in Hv. apply in_app_or in Ed as [Hi|[<-|[]]]; auto.
  Qed.
  Lemma render_Q ab l : Forall noslash l -> Forall Q l -> Forall Q (segs (render ab l)).
  Proof. intros Hn Hl. apply Forall_forall. intros x Hx. rewrite Forall_forall in Hl. apply Hl. now apply (segs_render_sub ab l). Qed.
  Lemma removelast_Forall {A} (R : A -> Prop) l : Forall R l -> Forall R (removelast l).
  Proof. intros H. destruct (last_case l) as [->|(l' & y & ->)]; [exact H|]. rewrite removelast_last. apply Forall_app in H. tauto. Qed.
  Lemma pop_Q start0 fa v : Forall Q (segs v) -> Forall Q (segs (pop_text start0 fa v)).
  Proof.
    intros Hv. unfold pop_text. destruct (path_is_empty v).
    - destruct (is_abs v); [exact Hv | apply push_Q; [exact Hv | exact Qdd | exact dotdot_noslash]].
    - destruct (last_is_dotdot (segs v)); [apply push_Q; [exact Hv | exact Qdd | exact dotdot_noslash]|].
      apply render_Q; [apply removelast_Forall, segs_noslash | now apply removelast_Forall].
  Qed.
  Lemma normalize_Q start0 fa v : Forall Q (segs v) -> Forall Q (segs (normalize1 start0 fa v)).
  Proof.
    intros Hv. rewrite normalize1_is_render. apply render_Q.
    - apply Forall_app. split; [unfold shield_segs; destruct (shield_of _ _ _ _); repeat constructor; unfold DOT, SLASH; discriminate|].
      apply norm_noslash, segs_noslash.
    - apply Forall_app. split; [unfold shield_segs; destruct (shield_of _ _ _ _); repeat constructor; exact Qdot|].
      apply Forall_forall. intros x Hx. apply norm_sub in Hx. rewrite Forall_forall in Hv. auto.
  Qed.
  Lemma clear_Q v : Forall Q (segs (clear1 v)).
  Proof. rewrite (clear1_segs v). constructor. Qed.
  Lemma sym1_Q start0 fa v seg : Forall Q (segs v) -> Q seg -> noslash seg -> Forall Q (segs (fst (sym1 start0 fa v seg))).
  Proof.
    intros Hv Hs Hn. unfold sym1. destruct (is_dot seg); [exact Hv|]. destruct (is_dotdot seg); [cbn [fst]; now apply pop_Q|].
    destruct (negb (is_nil seg) || negb (path_is_empty v)); cbn [fst]; [now apply push_Q | exact Hv].
  Qed.
  Lemma fold_Q start0 fa segs : Forall (fun s => Q s /\ noslash s) segs -> forall v open, Forall Q (PathSpec.segs v) ->
    Forall Q (PathSpec.segs (fst (sym_fold1 start0 fa v open segs))).
  Proof.
    induction 1 as [|s rest [Hs Hn] _ IH]; intros v open Hv; cbn [sym_fold1]; [exact Hv|].
    pose proof (sym1_Q start0 fa v s Hv Hs Hn) as H1. destruct (sym1 start0 fa v s) as [v1 o1]. cbn [fst] in H1. now apply IH.
  Qed.
  Lemma close_Q start0 fa v open : Forall Q (segs v) -> Forall Q (segs (close1 start0 fa (v, open))).
  Proof. intros Hv. unfold close1. destruct (open && negb (path_is_empty v)); [apply push_Q; [exact Hv | exact Qnil | constructor] | exact Hv]. Qed.
  Lemma append_Q start0 fa v segs : Forall Q (PathSpec.segs v) -> Forall (fun s => Q s /\ noslash s) segs -> Forall Q (PathSpec.segs (sym_append1 start0 fa v segs)).
  Proof.
    intros Hv Hs. unfold sym_append1. pose proof (fold_Q start0 fa segs Hs v false Hv) as H.
    destruct (sym_fold1 start0 fa v false segs) as [v1 o1]. cbn [fst] in H. now apply close_Q.
  Qed.
  Lemma sympush_Q start0 fa v seg : Forall Q (segs v) -> Q seg -> noslash seg -> Forall Q (segs (sym_push1 start0 fa v seg)).
  Proof.
    intros Hv Hs Hn. unfold sym_push1. pose proof (sym1_Q start0 fa v seg Hv Hs Hn) as H.
    destruct (sym1 start0 fa v seg) as [v1 o1]. cbn [fst] in H. now apply close_Q.
  Qed.
End Q.

(* a path that is well-formed in its context is written unchanged by set_path *)
Lemma fix_path_id p v : wf_path_in (has (p_scheme p)) (has (p_authority p)) v -> fix_path p v = v.
Proof.
  intros [W1 W2 W3 W4]. unfold fix_path, has in *. destruct (p_authority p) as [a|] eqn:Ea.
  - cbn [negb andb]. destruct (W2 eq_refl) as [->|(t & ->)]; [destruct (p_scheme p); reflexivity|]. cbn [path_is_abs]. change (is SLASH SLASH) with true. cbn [negb andb]. destruct (p_scheme p); reflexivity.
  - cbn [negb andb]. rewrite (starts_dslash_true v (W3 eq_refl)). destruct (p_scheme p); [reflexivity|].
    specialize (W4 eq_refl eq_refl). rewrite nocolon_is_not_colon in W4. destruct (colon_first v); [discriminate W4 | reflexivity].
Qed.
