(* From validity of the components (RFC languages, both families) to the delimiter-only
   well-formedness wf_parts that the scanner theorems need.  Every regular fact is an inclusion
   certificate checked by reflection. *)
From Coq Require Import List NArith Bool Arith Lia.
Import ListNotations.
Require Import V.Regex V.Bisim V.Abnf V.Parse V.ParseProofs V.Bridge V.Factor V.BridgePaths.
Open Scope N_scope.

Definition P := iprivate_3987.
Definition not_hash : cls := [(0,34); (36,MAXC)].
Lemma in_not_hash c : in_cls c not_hash = true -> ~ In c [HASH].
Proof.
  unfold in_cls, not_hash, in_rng, HASH, MAXC. simpl.
  rewrite !orb_true_iff, !andb_true_iff, !N.leb_le. intros H [E|[]]; subst c; lia.
Qed.
Lemma in_not_auth_delims c : in_cls c not_auth_delims = true -> ~ In c [SLASH; QM; HASH].
Proof.
  unfold in_cls, not_auth_delims, in_rng, SLASH, QM, HASH, MAXC. simpl.
  rewrite !orb_true_iff, !andb_true_iff, !N.leb_le. intros H [E|[E|[E|[]]]]; subst c; lia.
Qed.

Ltac refl := vm_cast_no_check (eq_refl true).
Lemma chk_auth_U : incl_check (iauthority U) (Star (Cls not_auth_delims)) = true. Proof. refl. Qed.
Lemma chk_auth_I : incl_check (iauthority I) (Star (Cls not_auth_delims)) = true. Proof. refl. Qed.
Lemma chk_query_U : incl_check (iquery U U) (Star (Cls not_hash)) = true. Proof. refl. Qed.
Lemma chk_query_I : incl_check (iquery I P) (Star (Cls not_hash)) = true. Proof. refl. Qed.
Lemma chk_abempty_qh_U : incl_check (ipath_abempty U) (Star (Cls not_qh)) = true. Proof. refl. Qed.
Lemma chk_abempty_qh_I : incl_check (ipath_abempty I) (Star (Cls not_qh)) = true. Proof. refl. Qed.
Lemma chk_absolute_qh_U : incl_check (ipath_absolute U) (Star (Cls not_qh)) = true. Proof. refl. Qed.
Lemma chk_absolute_qh_I : incl_check (ipath_absolute I) (Star (Cls not_qh)) = true. Proof. refl. Qed.
Lemma chk_rootless_qh_U : incl_check (ipath_rootless U) (Star (Cls not_qh)) = true. Proof. refl. Qed.
Lemma chk_rootless_qh_I : incl_check (ipath_rootless I) (Star (Cls not_qh)) = true. Proof. refl. Qed.
Lemma chk_noscheme_qh_U : incl_check (ipath_noscheme U) (Star (Cls not_qh)) = true. Proof. refl. Qed.
Lemma chk_noscheme_qh_I : incl_check (ipath_noscheme I) (Star (Cls not_qh)) = true. Proof. refl. Qed.

Lemma star_none_of k D r s : (forall c, in_cls c k = true -> ~ In c D) ->
  incl_check r (Star (Cls k)) = true -> L r s -> none_of D s.
Proof.
  intros Hk Hc H. apply (incl_check_sound _ _ Hc) in H. apply star_cls_forall in H.
  unfold none_of. eapply Forall_impl; [|exact H]. intros c Hcc. now apply Hk.
Qed.

Lemma noscheme_first r s : incl_check r SH_noscheme = true -> L r s -> nocolon_first s = true /\ forall t, s <> SLASH :: SLASH :: t.
Proof.
  intros Hc H. pose proof (incl_check_sound _ _ Hc s H) as H'. split.
  - now apply SH_noscheme_inv.
  - unfold SH_noscheme in H'.
    use (Cat_L _ _ _) in H'. destruct H' as (a & b & -> & Ha & _). apply cls1_L in Ha as (c & -> & Hc').
    apply in_not_colon_slash in Hc' as [_ Hc']. intros t E. simpl in E. injection E as E _. congruence.
Qed.

(* the eight component languages of one family *)
Section Fam.
  Variables X PX : cls.
  Hypothesis h_auth : incl_check (iauthority X) (Star (Cls not_auth_delims)) = true.
  Hypothesis h_query : incl_check (iquery X PX) (Star (Cls not_hash)) = true.
  Hypothesis h_abempty : incl_check (ipath_abempty X) SH_abempty = true.
  Hypothesis h_absolute : incl_check (ipath_absolute X) SH_absolute = true.
  Hypothesis h_rootless : incl_check (ipath_rootless X) SH_rel = true.
  Hypothesis h_noscheme : incl_check (ipath_noscheme X) SH_noscheme = true.
  Hypothesis h_abempty_qh : incl_check (ipath_abempty X) (Star (Cls not_qh)) = true.
  Hypothesis h_absolute_qh : incl_check (ipath_absolute X) (Star (Cls not_qh)) = true.
  Hypothesis h_rootless_qh : incl_check (ipath_rootless X) (Star (Cls not_qh)) = true.
  Hypothesis h_noscheme_qh : incl_check (ipath_noscheme X) (Star (Cls not_qh)) = true.

  Definition valid_parts_fam : parts -> Prop :=
    valid_parts scheme (iauthority X) (ipath_abempty X) (ipath_absolute X) (ipath_rootless X) (ipath_noscheme X) (iquery X PX) (ifragment X).

  Section One.
    Variable p : parts.
    Hypothesis Hs : oL scheme (p_scheme p).
    Hypothesis Ha : oL (iauthority X) (p_authority p).
    Hypothesis Hp : path_ok (ipath_abempty X) (ipath_absolute X) (ipath_rootless X) (ipath_noscheme X) p.
    Hypothesis Hq : oL (iquery X PX) (p_query p).

    Lemma f_scheme : forall s, p_scheme p = Some s -> s <> [] /\ none_of [COLON; SLASH; QM; HASH] s.
    Proof. intros s E. pose proof Hs as H. unfold oL in H. rewrite E in H. now apply scheme_wf. Qed.
    Lemma f_auth : forall a, p_authority p = Some a -> none_of [SLASH; QM; HASH] a.
    Proof. intros a E. pose proof Ha as H. unfold oL in H. rewrite E in H.
      eapply star_none_of; [apply in_not_auth_delims | exact h_auth | exact H]. Qed.
    Lemma f_query : forall q, p_query p = Some q -> none_of [HASH] q.
    Proof. intros q E. pose proof Hq as H. unfold oL in H. rewrite E in H.
      eapply star_none_of; [apply in_not_hash | exact h_query | exact H]. Qed.
    Lemma f_path : none_of [QM; HASH] (p_path p).
    Proof.
      pose proof Hp as H. unfold path_ok in H.
      destruct (p_authority p), (p_scheme p).
      - eapply star_none_of; [apply in_not_qh | exact h_abempty_qh | exact H].
      - eapply star_none_of; [apply in_not_qh | exact h_abempty_qh | exact H].
      - destruct H as [H|[H|H]].
        + eapply star_none_of; [apply in_not_qh | exact h_absolute_qh | exact H].
        + eapply star_none_of; [apply in_not_qh | exact h_rootless_qh | exact H].
        + rewrite H. constructor.
      - destruct H as [H|[H|H]].
        + eapply star_none_of; [apply in_not_qh | exact h_absolute_qh | exact H].
        + eapply star_none_of; [apply in_not_qh | exact h_noscheme_qh | exact H].
        + rewrite H. constructor.
    Qed.
    Lemma f_path_auth : p_authority p <> None -> p_path p = [] \/ exists t, p_path p = SLASH :: t.
    Proof.
      intros Hne. pose proof Hp as H. unfold path_ok in H. destruct (p_authority p); [|congruence].
      apply SH_abempty_inv. exact (incl_check_sound _ _ h_abempty _ H).
    Qed.
    Lemma f_path_noauth : p_authority p = None -> forall t, p_path p <> SLASH :: SLASH :: t.
    Proof.
      intros E. pose proof Hp as H. unfold path_ok in H. rewrite E in H. destruct (p_scheme p).
      - destruct H as [H|[H|H]].
        + apply SH_absolute_inv. exact (incl_check_sound _ _ h_absolute _ H).
        + apply SH_rel_inv. exact (incl_check_sound _ _ h_rootless _ H).
        + rewrite H. intros t; discriminate.
      - destruct H as [H|[H|H]].
        + apply SH_absolute_inv. exact (incl_check_sound _ _ h_absolute _ H).
        + apply (noscheme_first _ _ h_noscheme H).
        + rewrite H. intros t; discriminate.
    Qed.
    Lemma f_path_noscheme : p_scheme p = None -> p_authority p = None -> nocolon_first (p_path p) = true.
    Proof.
      intros E1 E2. pose proof Hp as H. unfold path_ok in H. rewrite E1, E2 in H. destruct H as [H|[H|H]].
      - pose proof (incl_check_sound _ _ h_absolute _ H) as H'. unfold SH_absolute in H'.
        use (Alt_L _ _ _) in H'. destruct H' as [H'|H'].
        + use (ch_L _ _) in H'. rewrite H'. reflexivity.
        + use (lit1_L _ _ _) in H'. destruct H' as (t & -> & _). reflexivity.
      - apply (noscheme_first _ _ h_noscheme H).
      - rewrite H. reflexivity.
    Qed.
  End One.

  Theorem valid_parts_wf p : valid_parts_fam p -> wf_parts p.
  Proof.
    intros (Hs & Ha & Hp & Hq & Hf). constructor.
    - now apply f_scheme.
    - now apply f_auth.
    - now apply f_path.
    - now apply f_query.
    - now apply f_path_auth.
    - now apply f_path_noauth.
    - now apply f_path_noscheme.
  Qed.
End Fam.

Definition valid_parts_U := valid_parts_fam U U.
Definition valid_parts_I := valid_parts_fam I P.
Theorem valid_parts_wf_U p : valid_parts_U p -> wf_parts p.
Proof. exact (valid_parts_wf U U chk_auth_U chk_query_U chk_abempty_U chk_absolute_U chk_rootless_U chk_noscheme_U
  chk_abempty_qh_U chk_absolute_qh_U chk_rootless_qh_U chk_noscheme_qh_U p). Qed.
Theorem valid_parts_wf_I p : valid_parts_I p -> wf_parts p.
Proof. exact (valid_parts_wf I P chk_auth_I chk_query_I chk_abempty_I chk_absolute_I chk_rootless_I chk_noscheme_I
  chk_abempty_qh_I chk_absolute_qh_I chk_rootless_qh_I chk_noscheme_qh_I p). Qed.
Print Assumptions valid_parts_wf_U.
Print Assumptions valid_parts_wf_I.
