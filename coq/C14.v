(* Property C14 -- text preserved through every route.  Statements only.
   A deliberately thin model (the derive output of static-regular-grammar is "validate, then wrap"): it
   pins the intended behaviour; that the ~25 real routes per type behave like it is what the
   correspondence run of ./check C14 tests.  "Accepts exactly the RFC language" is C01. *)
From Coq Require Import List NArith Bool.
Import ListNotations.
Require Import V.Regex.

Section Glue.
  Variable validate : str -> bool.
  Inductive result := Ok (text : str) | Err (payload : str).
  Definition ctor (x : str) : result := if validate x then Ok x else Err x.     (* every route in *)
  Definition text_of (r : result) : option str := match r with Ok t => Some t | Err _ => None end.   (* every route out *)

  Theorem C14_accepts_iff_validate : forall x, (exists t, ctor x = Ok t) <-> validate x = true.
  Proof. intros x. unfold ctor. destruct (validate x); split; intros H; eauto; try discriminate. destruct H as [t H]. discriminate. Qed.
  Theorem C14_text_preserved : forall x t, ctor x = Ok t -> t = x.
  Proof. intros x t. unfold ctor. destruct (validate x); intros H; [injection H; auto | discriminate]. Qed.
  Theorem C14_payload_returned : forall x e, ctor x = Err e -> e = x.
  Proof. intros x e. unfold ctor. destruct (validate x); intros H; [discriminate | injection H; auto]. Qed.
End Glue.
Print Assumptions C14_accepts_iff_validate.
Print Assumptions C14_text_preserved.
Print Assumptions C14_payload_returned.
