(* C04 for the owned path type: PathBuf::{push, pop, clear, normalize, symbolic_push, symbolic_append} (a fresh
   whole-buffer handle per call: start = 0, follows_authority) map a path of the RFC grammar and valid segment
   arguments to a path of the RFC grammar, without panic; hence all finite sequences do. *)
From Coq Require Import List NArith Bool Arith Lia.
Import ListNotations.
Require Import V.Regex V.Bisim V.Abnf V.Parse V.ParseProofs V.Bridge V.Factor V.BridgePaths V.C02Bridge
  V.PathSpec V.Splice V.Setters V.Iter V.Push V.PathMut V.PathMutProofs V.PushWf V.NormProofs V.PopProofs V.SymProofs V.MergeProofs V.SegsQ
  V.C12Proofs V.PathGrammar V.PathGrammarInst V.NormalizedProofs V.C04Valid2 V.ResolveValid.
Local Open Scope nat_scope.
Local Strategy opaque [L].

(* "free of '?' and '#'" as a predicate on the pieces of the split *)
Definition noqh (s : str) : Prop := none_of [QM; HASH] s.
Lemma noqh_dot : noqh [DOT]. Proof. unfold noqh, DOT, QM, HASH. repeat constructor; simpl; intros [E|[E|[]]]; discriminate. Qed.
Lemma noqh_nil : noqh []. Proof. constructor. Qed.
Lemma noqh_of_QS v : QS noqh v -> none_of [QM; HASH] v.
Proof.
  intros H. rewrite <- (join_split v). apply none_of_join; [|exact H].
  simpl. unfold SLASH, QM, HASH. intros [E|[E|[]]]; discriminate.
Qed.
Lemma QS_of_noqh v : none_of [QM; HASH] v -> QS noqh v.
Proof. intros H. unfold QS. exact (split_forall _ v H). Qed.

(* ---------- the six operations through a fresh handle, at text level ---------- *)
Inductive bop := BPush (s : str) | BPop | BClear | BNormalize | BSymPush (s : str) | BSymAppend (l : list str).
Definition bstep (p : str) (o : bop) : option str :=
  match o with
  | BPush s => pb_apply (fun h => pm_push h s) p
  | BPop => pb_apply pm_pop p
  | BClear => pb_apply pm_clear p
  | BNormalize => pb_apply pm_normalize p
  | BSymPush s => pb_apply (fun h => pm_symbolic_push_pub h s) p
  | BSymAppend l => pb_apply (fun h => pm_symbolic_append h l) p
  end.
Definition btext (p : str) (o : bop) : str :=
  match o with
  | BPush s => push true true p s
  | BPop => pop_text true true p
  | BClear => clear1 p
  | BNormalize => normalize1 true true p
  | BSymPush s => sym_push1 true true p s
  | BSymAppend l => sym_append1 true true p l
  end.

(* one handle, several symbolic steps: PInv with an empty frame, and freedom from '?' '#' (needed by pop) *)
Lemma gsym h v seg : PInv h [] v [] -> (pm_start h =? 0) = true -> pm_fa h = true -> none_of [QM; HASH] v ->
  exists h', pm_symbolic_push h seg = Some (h', snd (sym1 true true v seg)) /\ PInv h' [] (fst (sym1 true true v seg)) [] /\
             (pm_start h' =? 0) = true /\ pm_fa h' = true.
Proof.
  intros I Hs Hf Hq. unfold pm_symbolic_push, sym1. destruct (is_dot seg); [exists h; auto|].
  destruct (is_dotdot seg).
  - pose proof (pm_pop_refines _ _ _ _ I) as R. rewrite Hs, Hf, (pop1_spec true true v Hq) in R.
    destruct R as (h' & E & I' & F' & S'). rewrite E. cbn [bind]. exists h'. repeat split; try apply I'; [rewrite S'; exact Hs | exact F'].
  - rewrite (pm_view_inv _ _ _ _ I). cbn [bind]. destruct (negb (is_nil seg) || negb (path_is_empty v)); [|exists h; auto].
    destruct (pm_push_refines _ _ _ _ seg I) as (h' & E & I' & F' & S'). rewrite Hs, Hf in I'. rewrite E. cbn [bind].
    exists h'. repeat split; try apply I'; [rewrite S'; exact Hs | rewrite F'; exact Hf].
Qed.
Lemma gfold segs : Forall (fun s => noqh s /\ noslash s) segs -> forall h v open, PInv h [] v [] -> (pm_start h =? 0) = true -> pm_fa h = true -> none_of [QM; HASH] v ->
  exists h', sym_fold h open segs = Some (h', snd (sym_fold1 true true v open segs)) /\ PInv h' [] (fst (sym_fold1 true true v open segs)) [] /\
             (pm_start h' =? 0) = true /\ pm_fa h' = true.
Proof.
  induction 1 as [|s rest [Hq Hn] _ IH]; intros h v open I Hs Hf Hv; cbn [sym_fold sym_fold1]; [exists h; auto|].
  destruct (gsym h v s I Hs Hf Hv) as (h1 & E1 & I1 & S1 & F1). rewrite E1. cbn [bind].
  assert (Hv1 : none_of [QM; HASH] (fst (sym1 true true v s))).
  { apply noqh_of_QS, (QS_of_segs _ noqh_nil), (sym1_Q noqh noqh_dot dotdot_noqh); [apply (segs_of_QS noqh), QS_of_noqh, Hv | exact Hq | exact Hn]. }
  destruct (sym1 true true v s) as [v1 o1]. cbn [fst snd] in *. now apply IH.
Qed.
Lemma gclose h v open : PInv h [] v [] -> (pm_start h =? 0) = true -> pm_fa h = true ->
  exists h', close_open (h, open) = Some h' /\ pm_buf h' = close1 true true (v, open).
Proof.
  intros I Hs Hf. unfold close_open, close1. rewrite (pm_view_inv _ _ _ _ I). cbn [bind].
  destruct (open && negb (path_is_empty v)); [|exists h; split; [reflexivity | apply (pinv_buf _ _ I)]].
  destruct (pm_push_refines _ _ _ _ [] I) as (h' & E & I' & _). rewrite Hs, Hf in I'. exists h'. split; [exact E | apply (pinv_buf _ _ I')].
Qed.

Theorem bstep_text p o : none_of [QM; HASH] p ->
  match o with BPush s | BSymPush s => noqh s /\ noslash s | BSymAppend l => Forall (fun s => noqh s /\ noslash s) l | _ => True end ->
  bstep p o = Some (btext p o).
Proof.
  intros Hq A. pose proof (fresh_inv p) as I. unfold bstep, btext, pb_apply.
  assert (Hs : (pm_start (pm_from_path p) =? 0) = true) by reflexivity. assert (Hf : pm_fa (pm_from_path p) = true) by reflexivity.
  destruct o as [s| | | |s|l].
  - destruct (pm_push_refines _ _ _ _ s I) as (h' & E & I' & _). rewrite Hs, Hf in I'. rewrite E. cbn [option_map]. f_equal. apply (pinv_buf _ _ I').
  - pose proof (pm_pop_refines _ _ _ _ I) as R. rewrite Hs, Hf, (pop1_spec true true p Hq) in R. destruct R as (h' & E & I' & _).
    rewrite E. cbn [option_map]. f_equal. apply (pinv_buf _ _ I').
  - destruct (pm_clear_refines _ _ _ _ I) as (h' & E & I' & _). rewrite E. cbn [option_map]. f_equal. apply (pinv_buf _ _ I').
  - destruct (pm_normalize_refines _ _ _ _ I Hq) as (h' & E & I' & _). rewrite Hs, Hf in I'. rewrite E. cbn [option_map]. f_equal. apply (pinv_buf _ _ I').
  - unfold pm_symbolic_push_pub, sym_push1. destruct (gsym _ p s I Hs Hf Hq) as (h1 & E1 & I1 & S1 & F1). rewrite E1. cbn [bind].
    destruct (sym1 true true p s) as [v1 o1]. cbn [fst snd] in *. destruct (gclose h1 v1 o1 I1 S1 F1) as (h2 & E2 & B2). rewrite E2. cbn [option_map]. now f_equal.
  - unfold pm_symbolic_append, sym_append1. destruct (gfold l A _ p false I Hs Hf Hq) as (h1 & E1 & I1 & S1 & F1). rewrite E1. cbn [bind].
    destruct (sym_fold1 true true p false l) as [v1 o1]. cbn [fst snd] in *. destruct (gclose h1 v1 o1 I1 S1 F1) as (h2 & E2 & B2). rewrite E2. cbn [option_map]. now f_equal.
Qed.

(* ---------- validity ---------- *)
Section Fam.
  Variable X : cls.
  Notation SEG := (isegment X).
  Hypothesis Hiff : forall v, L (ipath X) v <-> Forall (L SEG) (split v).
  Hypothesis Hdot : L SEG [DOT]. Hypothesis Hdd : L SEG DOTDOT. Hypothesis Hnil : L SEG [].
  Hypothesis Harg : forall s, L SEG s -> noslash s /\ noqh s.

  Definition barg (o : bop) : Prop :=
    match o with BPush s | BSymPush s => L SEG s | BSymAppend l => Forall (L SEG) l | _ => True end.

  Lemma path_noqh v : L (ipath X) v -> none_of [QM; HASH] v.
  Proof. intros H. apply noqh_of_QS. apply Hiff in H. unfold QS. eapply Forall_impl; [|exact H]. intros s Hs. exact (proj2 (Harg s Hs)). Qed.

  Theorem bstep_valid p o : L (ipath X) p -> barg o -> exists p', bstep p o = Some p' /\ L (ipath X) p'.
  Proof.
    intros Hp A. pose proof (path_noqh p Hp) as Hq.
    assert (Hs : Forall (L SEG) (segs p)) by (apply (segs_of_QS (L SEG)), Hiff, Hp).
    exists (btext p o). split.
    - apply bstep_text; [exact Hq|]. destruct o as [s| | | |s|l]; cbn [barg] in A; auto.
      + destruct (Harg s A); auto.
      + destruct (Harg s A); auto.
      + eapply Forall_impl; [|exact A]. intros s Hs'. destruct (Harg s Hs'); auto.
    - apply Hiff. apply (QS_of_segs _ Hnil). destruct o as [s| | | |s|l]; cbn [btext barg] in *.
      + apply (push_Q _ Hdot); [exact Hs | exact A | exact (proj1 (Harg s A))].
      + now apply (pop_Q _ Hdot Hdd).
      + apply clear_Q.
      + now apply (normalize_Q _ Hdot).
      + apply (sympush_Q _ Hdot Hdd Hnil); [exact Hs | exact A | exact (proj1 (Harg s A))].
      + apply (append_Q _ Hdot Hdd Hnil); [exact Hs|]. eapply Forall_impl; [|exact A]. intros s Hs'. split; [exact Hs' | exact (proj1 (Harg s Hs'))].
  Qed.

  Fixpoint brun (ops : list bop) (p : str) : option str := match ops with [] => Some p | o :: r => bind (bstep p o) (brun r) end.
  Theorem brun_valid ops : forall p, L (ipath X) p -> Forall barg ops -> exists p', brun ops p = Some p' /\ L (ipath X) p'.
  Proof.
    induction ops as [|o r IH]; intros p Hp A; cbn [brun]; [eauto|]. inversion A; subst.
    destruct (bstep_valid p o Hp H1) as (p1 & E & H1'). rewrite E. cbn [bind]. now apply IH.
  Qed.
End Fam.

Lemma arg_U s : L (isegment U) s -> noslash s /\ noqh s.
Proof. intros H. destruct (seg_is_arg U pg3_U k_noqh_U s H). auto. Qed.
Lemma arg_I s : L (isegment I) s -> noslash s /\ noqh s.
Proof. intros H. destruct (seg_is_arg I pg3_I k_noqh_I s H). auto. Qed.
Theorem pathbuf_sequences_U : forall ops p, L (ipath U) p -> Forall (barg U) ops -> exists p', brun ops p = Some p' /\ L (ipath U) p'.
Proof. exact (brun_valid U (path_iff U pg1_U pg2_U pg3_U) (seg_dot U k_dots_U) (seg_dotdot U k_dots_U) (seg_nil U) arg_U). Qed.
Theorem pathbuf_sequences_I : forall ops p, L (ipath I) p -> Forall (barg I) ops -> exists p', brun ops p = Some p' /\ L (ipath I) p'.
Proof. exact (brun_valid I (path_iff I pg1_I pg2_I pg3_I) (seg_dot I k_dots_I) (seg_dotdot I k_dots_I) (seg_nil I) arg_I). Qed.
