(* Model of the rest of common/reference.rs: set_fragment, RiBufImpl::set_scheme / from_scheme,
   path_mut, authority_mut, remove_dot_segments, resolve, base.  Composed from the modelled
   primitives exactly as the Rust code composes the real ones.  No proofs here. *)
From Coq Require Import List NArith Bool Arith.
Import ListNotations.
Require Import V.Regex V.Parse V.Parse2 V.Auth V.PathSpec V.Splice V.Setters V.Iter V.PathQ V.Push
  V.SetPath V.SetAuth V.SetScheme V.AuthMut V.PathMut.
Local Open Scope nat_scope.

Definition set_fragment (buf : str) (f : option str) : option str :=
  match f with
  | Some new =>
    match find_fragment buf 0 with
    | inl (s, e) => replace buf s e new
    | inr start =>
      bind (allocate_range buf start start (length new + 1)) (fun b =>
      bind (set_nth b start HASH) (fun b => copy_at b (start + 1) new))
    end
  | None =>
    match find_fragment buf 0 with
    | inl (s, e) => bind (sub_chk s 1) (fun s' => replace buf s' e [])
    | inr _ => Some buf
    end
  end.

(* RiBufImpl::set_scheme (Uri, Iri: a scheme is always present) and from_scheme *)
Definition abs_set_scheme (buf : str) (new : str) : option str :=
  let '(s, e) := scheme_range buf 0 in replace buf s e new.
Definition from_scheme (s : str) : str := s ++ [COLON].

Definition path_mut (buf : str) : pm := let '(s, e) := find_path buf 0 in pm_new buf s e.
Definition authority_mut (buf : str) : option handle :=
  match find_authority buf 0 with
  | inl (s, e) => Some {| h_data := buf; h_start := s; h_end := e |}
  | inr _ => None
  end.

(* accessors on a buffer *)
Definition get_scheme (buf : str) : option str := option_map (slice buf) (find_scheme buf 0).
Definition get_authority (buf : str) : option str := match find_authority buf 0 with inl r => Some (slice buf r) | inr _ => None end.
Definition get_path (buf : str) : str := slice buf (find_path buf 0).
Definition get_query (buf : str) : option str := match find_query buf 0 with inl r => Some (slice buf r) | inr _ => None end.
Definition get_fragment (buf : str) : option str := match find_fragment buf 0 with inl r => Some (slice buf r) | inr _ => None end.
Definition abs_scheme (buf : str) : str := slice buf (scheme_range buf 0).

Definition remove_dot_segments (buf : str) : option str :=
  let p := get_path buf in
  bind (pq_file_or_last_raw p) (fun lastseg =>
  let open := match lastseg with Some s => is_dot s || is_dotdot s | None => false end in
  bind (pm_normalize (path_mut buf)) (fun h =>
  bind (pm_view h) (fun v =>
  if open && negb (path_is_empty v) then option_map pm_buf (pm_push h []) else Some (pm_buf h)))).

(* RiRefBufImpl::resolve(&mut self, base) *)
Definition resolve (r base : str) : option str :=
  let parts := reference_parts r 0 in
  match r_scheme parts with
  | Some _ => remove_dot_segments r
  | None =>
    bind (set_scheme r (Some (abs_scheme base))) (fun r =>
    match r_authority parts with
    | Some _ => remove_dot_segments r
    | None =>
      let p := get_path r in
      if negb (is_abs p) && path_is_empty p then
        bind (set_authority r (get_authority base)) (fun r =>
        bind (set_path r (get_path base)) (fun r =>
        match get_query r with
        | None => Setters.set_query r (get_query base)
        | Some _ => Some r
        end))
      else if is_abs p then
        bind (set_authority r (get_authority base)) remove_dot_segments
      else
        bind (set_authority r (get_authority base)) (fun r =>
        let pb := from_scheme (abs_scheme base) in
        bind (set_authority pb (get_authority base)) (fun pb =>
        bind (match get_authority base with
              | Some _ => if path_is_empty (get_path base) then set_path pb [SLASH] else
                          bind (pq_parent_or_empty_text (get_path base)) (fun par => bind (set_path pb par) (fun pb => option_map pm_buf (pm_normalize (path_mut pb))))
              | None => bind (pq_parent_or_empty_text (get_path base)) (fun par => bind (set_path pb par) (fun pb => option_map pm_buf (pm_normalize (path_mut pb))))
              end) (fun pb =>
        bind (pm_symbolic_append (path_mut pb) (seg_texts (get_path r))) (fun h =>
        set_path r (get_path (pm_buf h))))))
    end)
  end.

(* RiRefImpl::base : &bytes[..path_start + directory.len()] *)
Definition ref_base (buf : str) : str :=
  let '(ps, pe) := find_path buf 0 in
  let p := slice buf (ps, pe) in
  let dlen := match pq_directory p with InText (a, b) => b - a | Const s => length s end in
  firstn (ps + dlen) buf.

(* ---------- relative_to, suffix (need the comparison model) ---------- *)
Require Import V.Cmp.

Definition is_some {A} (o : option A) : bool := match o with Some _ => true | None => false end.
Definition list_eqb (a b : str) : bool := match cmp_list a b with Eq => true | _ => false end.

(* strip the common prefix: `a.as_pct_str().bytes().eq(b.as_pct_str().bytes())` *)
Fixpoint strip_common (xs ys : list str) : option (list str * list str) :=
  match xs, ys with
  | x :: xs', y :: ys' =>
    match eq_key pct_key x y with
    | None => None
    | Some true => strip_common xs' ys'
    | Some false => Some (xs, ys)
    end
  | _, _ => Some (xs, ys)
  end.
Fixpoint push_all (buf : str) (segs : list str) : option str :=
  match segs with [] => Some buf | s :: r => bind (option_map pm_buf (pm_push (path_mut buf) s)) (fun b => push_all b r) end.

Definition relative_to (a b : str) : option str :=
  let go_auth :=
    bind (match get_authority a, get_authority b with
          | Some x, Some y => eq_authority x y
          | _, _ => Some true end) (fun same_auth =>
    if negb same_auth then Some a else
    let pa := get_path a in let pb := get_path b in
    bind (pq_parent_or_empty_text pb) (fun parent =>
    let self_segments := nsegs pa in
    let base_segments := nsegs parent in
    bind (if Bool.eqb (is_abs pa) (is_abs pb) then strip_common self_segments base_segments else Some (self_segments, base_segments)) (fun '(ss, bs) =>
    bind (push_all [] (map (fun _ => DOTDOT) bs)) (fun r =>
    bind (push_all r ss) (fun r =>
    bind (pq_last pb) (fun last_b =>
    let last_b := option_map (slice pb) last_b in
    bind (if (is_some (get_query a) || is_some (get_fragment a)) &&
             match last_b with Some l => list_eqb (get_path r) l | None => false end
          then option_map pm_buf (pm_clear (path_mut r)) else Some r) (fun r =>
    bind (Setters.set_query r (get_query a)) (fun r => set_fragment r (get_fragment a))))))))) in
  match get_scheme a, get_scheme b with
  | Some x, Some y => if list_eqb x y then go_auth else Some a
  | _, _ => go_auth
  end.

Fixpoint suffix_loop (buf : str) (xs ys : list str) : option (option str) :=    (* outer None = panic *)
  match xs, ys with
  | x :: xs', y :: ys' =>
    match eq_key pct_key x y with
    | None => None
    | Some true => suffix_loop buf xs' ys'
    | Some false => Some None
    end
  | [], _ :: _ => Some None
  | x :: xs', [] => bind (pm_push (pm_from_path buf) x) (fun h => suffix_loop (pm_buf h) xs' [])
  | [], [] => Some (Some buf)
  end.
Definition path_suffix (a p : str) : option (option str) :=
  if negb (Bool.eqb (is_abs a) (is_abs p)) then Some None else suffix_loop [] (nsegs a) (nsegs p).

Definition eq_oscheme (x y : option str) : bool :=
  match x, y with None, None => true | Some a, Some b => list_eqb a b | _, _ => false end.
Definition ref_suffix (a p : str) : option (option (str * option str * option str)) :=
  if eq_oscheme (get_scheme a) (get_scheme p) then
    bind (eq_opt eq_authority (get_authority a) (get_authority p)) (fun same =>
    if same then bind (path_suffix (get_path a) (get_path p)) (fun r =>
                 Some (option_map (fun s => (s, get_query a, get_fragment a)) r))
    else Some None)
  else Some None.
