(* Model of the comparison traits (PartialEq / Ord / Hash) of every comparable type, as the Rust code
   composes them: derive-style lexicographic comparison of the decomposition, components through
   their percent-decoded octets (`as_pct_str().bytes()`), scheme and port literally.
   `None` = a panic (`%` not followed by two hex digits makes `Bytes::next` unwrap None).  No proofs here. *)
From Coq Require Import List NArith Bool Arith.
Import ListNotations.
Require Import V.Regex V.Parse V.Parse2 V.Auth V.PathSpec V.Splice V.Setters V.Iter V.PathQ V.AuthMut.
Local Open Scope nat_scope.

Definition PCT : N := 37%N.
Definition hexval (c : N) : option N :=
  if (48 <=? c)%N && (c <=? 57)%N then Some (c - 48)%N
  else if (65 <=? c)%N && (c <=? 70)%N then Some (c - 55)%N
  else if (97 <=? c)%N && (c <=? 102)%N then Some (c - 87)%N else None.
(* pct_str::Bytes : the decoded octets *)
Fixpoint dec_fuel (fuel : nat) (s : str) : option str :=
  match fuel with O => Some [] | S f =>
    match s with
    | [] => Some []
    | c :: rest =>
      if is c PCT then
        match rest with
        | a :: b :: rest' =>
          match hexval a, hexval b with
          | Some x, Some y => option_map (cons (x * 16 + y)%N) (dec_fuel f rest')
          | _, _ => None
          end
        | _ => None
        end
      else option_map (cons c) (dec_fuel f rest)
    end
  end.
Definition dec (s : str) : option str := dec_fuel (S (length s)) s.

(* ---------- orderings ---------- *)
Fixpoint cmp_list (a b : str) : comparison :=
  match a, b with
  | [], [] => Eq
  | [], _ => Lt
  | _, [] => Gt
  | x :: a', y :: b' => match N.compare x y with Eq => cmp_list a' b' | c => c end
  end.
Definition then_cmp (c : comparison) (d : option comparison) : option comparison :=
  match c with Eq => d | _ => Some c end.
Definition obind2 {A B C} (x : option A) (y : option B) (f : A -> B -> option C) : option C :=
  match x, y with Some a, Some b => f a b | _, _ => None end.

(* a comparable component: how it is turned into the octets that are compared *)
Definition raw_key (s : str) : option str := Some s.           (* Scheme, Port: derived on [u8] *)
Definition pct_key (s : str) : option str := dec s.            (* UserInfo, Host, Segment, Query, Fragment *)

Definition cmp_key (key : str -> option str) (a b : str) : option comparison :=
  obind2 (key a) (key b) (fun x y => Some (cmp_list x y)).
Definition cmp_opt (f : str -> str -> option comparison) (a b : option str) : option comparison :=
  match a, b with
  | None, None => Some Eq
  | None, Some _ => Some Lt
  | Some _, None => Some Gt
  | Some x, Some y => f x y
  end.
Definition seq_cmp (l : list (unit -> option comparison)) : option comparison :=
  fold_left (fun acc f => match acc with Some Eq => f tt | other => other end) l (Some Eq).

(* ---------- authority ---------- *)
Definition auth_texts (a : str) : option str * str * option str :=
  let r := authority_parts a in
  (option_map (slice a) (a_userinfo r), slice a (a_host r), option_map (slice a) (a_port r)).
Definition cmp_authority (a b : str) : option comparison :=
  let '(ua, ha, pa) := auth_texts a in let '(ub, hb, pb) := auth_texts b in
  seq_cmp [fun _ => cmp_opt (cmp_key pct_key) ua ub; fun _ => cmp_key pct_key ha hb; fun _ => cmp_opt (cmp_key raw_key) pa pb].

(* ---------- path ---------- *)
Definition nsegs (p : str) : list str := map (slice p) (pq_normalized_segments p).
Fixpoint cmp_segs (a b : list str) : option comparison :=
  match a, b with
  | [], [] => Some Eq
  | _ :: _, [] => Some Gt
  | [], _ :: _ => Some Lt
  | x :: a', y :: b' => match cmp_key pct_key x y with Some Eq => cmp_segs a' b' | other => other end
  end.
Definition cmp_path (a b : str) : option comparison :=
  if Bool.eqb (is_abs a) (is_abs b) then cmp_segs (nsegs a) (nsegs b)
  else if is_abs a then Some Gt else Some Lt.
(* Path::eq : same absoluteness, same length, pairwise equal (all() stops at the first difference) *)
Fixpoint all_eq (a b : list str) : option bool :=
  match a, b with
  | x :: a', y :: b' => match cmp_key pct_key x y with Some Eq => all_eq a' b' | Some _ => Some false | None => None end
  | _, _ => Some true
  end.
Definition eq_path (a b : str) : option bool :=
  if Bool.eqb (is_abs a) (is_abs b) then
    if length (nsegs a) =? length (nsegs b) then all_eq (nsegs a) (nsegs b) else Some false
  else Some false.

(* ---------- references ---------- *)
Record rtexts := { t_scheme : option str; t_authority : option str; t_path : str; t_query : option str; t_fragment : option str }.
Definition ref_texts (s : str) : rtexts :=
  let r := reference_parts s 0 in
  {| t_scheme := option_map (slice s) (r_scheme r); t_authority := option_map (slice s) (r_authority r);
     t_path := slice s (r_path r); t_query := option_map (slice s) (r_query r); t_fragment := option_map (slice s) (r_fragment r) |}.
Definition cmp_texts (x y : rtexts) : option comparison :=
  seq_cmp [fun _ => cmp_opt (cmp_key raw_key) (t_scheme x) (t_scheme y);
           fun _ => cmp_opt cmp_authority (t_authority x) (t_authority y);
           fun _ => cmp_path (t_path x) (t_path y);
           fun _ => cmp_opt (cmp_key pct_key) (t_query x) (t_query y);
           fun _ => cmp_opt (cmp_key pct_key) (t_fragment x) (t_fragment y)].
Definition cmp_ref (a b : str) : option comparison := cmp_texts (ref_texts a) (ref_texts b).

(* derived PartialEq: field by field with && (short-circuit) *)
Definition eq_of (c : option comparison) : option bool := option_map (fun c => match c with Eq => true | _ => false end) c.
Definition seq_eq (l : list (unit -> option bool)) : option bool :=
  fold_left (fun acc f => match acc with Some true => f tt | other => other end) l (Some true).
Definition eq_opt (f : str -> str -> option bool) (a b : option str) : option bool :=
  match a, b with None, None => Some true | Some x, Some y => f x y | _, _ => Some false end.
Definition eq_key (key : str -> option str) (a b : str) : option bool := eq_of (cmp_key key a b).
Definition eq_authority (a b : str) : option bool :=
  let '(ua, ha, pa) := auth_texts a in let '(ub, hb, pb) := auth_texts b in
  seq_eq [fun _ => eq_opt (eq_key pct_key) ua ub; fun _ => eq_key pct_key ha hb; fun _ => eq_opt (eq_key raw_key) pa pb].
Definition eq_texts (x y : rtexts) : option bool :=
  seq_eq [fun _ => eq_opt (eq_key raw_key) (t_scheme x) (t_scheme y);
          fun _ => eq_opt eq_authority (t_authority x) (t_authority y);
          fun _ => eq_path (t_path x) (t_path y);
          fun _ => eq_opt (eq_key pct_key) (t_query x) (t_query y);
          fun _ => eq_opt (eq_key pct_key) (t_fragment x) (t_fragment y)].
Definition eq_ref (a b : str) : option bool := eq_texts (ref_texts a) (ref_texts b).

(* ---------- hashing: the exact sequence of Hasher::write_* calls ---------- *)
Inductive htok := HU8 (n : N) | HIsize (n : N) | HUsize (n : N) | HBytes (s : str).
Definition hash_raw (s : str) : option (list htok) := Some [HUsize (N.of_nat (length s)); HBytes s].   (* <[u8] as Hash> *)
Definition hash_pct (s : str) : option (list htok) := option_map (map HU8) (dec s).                     (* bytes().for_each(|b| b.hash) *)
Definition hash_opt (f : str -> option (list htok)) (o : option str) : option (list htok) :=
  match o with None => Some [HIsize 0] | Some x => option_map (cons (HIsize 1)) (f x) end.
Fixpoint hconcat (l : list (option (list htok))) : option (list htok) :=
  match l with [] => Some [] | x :: r => obind2 x (hconcat r) (fun a b => Some (a ++ b)) end.
Definition hash_authority (a : str) : option (list htok) :=
  let '(u, h, p) := auth_texts a in hconcat [hash_opt hash_pct u; hash_pct h; hash_opt hash_raw p].
Definition hash_path (p : str) : option (list htok) :=
  hconcat (Some [HU8 (if is_abs p then 1 else 0)%N] :: map hash_pct (nsegs p)).
Definition hash_texts (x : rtexts) : option (list htok) :=
  hconcat [hash_opt hash_raw (t_scheme x); hash_opt hash_authority (t_authority x); hash_path (t_path x);
           hash_opt hash_pct (t_query x); hash_opt hash_pct (t_fragment x)].
Definition hash_ref (s : str) : option (list htok) := hash_texts (ref_texts s).

(* ---------- the specification: the documented normalising equivalence (C07) ---------- *)
Definition onone {A} (o : option (option A)) : option (option A) := o.
Definition canon_opt (f : str -> option str) (o : option str) : option (option str) :=
  match o with None => Some None | Some x => option_map Some (f x) end.
Fixpoint dec_all (l : list str) : option (list str) :=
  match l with [] => Some [] | s :: r => obind2 (dec s) (dec_all r) (fun a b => Some (a :: b)) end.
(* normalised segment list of the SPEC: on the '/'-split, independent of the iterator model *)
Definition spec_nsegs (p : str) : list str := norm (is_abs p) (segs p).
Record canon_auth := { c_user : option str; c_host : str; c_port : option str }.
Record canon_ref := { c_scheme : option str; c_auth : option canon_auth; c_abs : bool; c_segs : list str;
                      c_query : option str; c_fragment : option str }.
