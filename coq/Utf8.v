(* Transport of the scanner theorems from code points to bytes: an IRI is held as UTF-8 bytes; every scanner
   only looks for ASCII delimiters and UTF-8 encodes a non-ASCII scalar value with bytes >= 128, so the
   delimiter well-formedness of the parts, and hence every decomposition theorem, carries over verbatim. *)
From Coq Require Import List NArith ZArith Bool Arith Lia Zify.
Import ListNotations.
Ltac Zify.zify_post_hook ::= Z.div_mod_to_equations.
Require Import V.Regex V.Parse V.ParseProofs V.Parse2 V.Parse2Proofs V.C02Proofs V.Bisim V.Abnf V.Bridge V.Factor V.BridgePaths V.C02Bridge V.FactorI.
Local Open Scope N_scope.

Definition utf8_enc (c : N) : str :=
  if c <? 128 then [c]
  else if c <? 2048 then [192 + c / 64; 128 + c mod 64]
  else if c <? 65536 then [224 + c / 4096; 128 + (c / 64) mod 64; 128 + c mod 64]
  else [240 + c / 262144; 128 + (c / 4096) mod 64; 128 + (c / 64) mod 64; 128 + c mod 64].
Definition utf8 (s : str) : str := flat_map utf8_enc s.

Lemma enc_ascii c : c < 128 -> utf8_enc c = [c].
Proof. intros H. unfold utf8_enc. apply N.ltb_lt in H. rewrite H. reflexivity. Qed.
Lemma ge128 k x : 128 <= k -> 128 <= k + x.
Proof. intros H. eapply N.le_trans; [exact H | apply N.le_add_r]. Qed.
Lemma enc_high c : 128 <= c -> Forall (fun b => 128 <= b) (utf8_enc c).
Proof.
  intros H. unfold utf8_enc. replace (c <? 128) with false by (symmetry; apply N.ltb_ge; exact H).
  destruct (c <? 2048); [|destruct (c <? 65536)]; repeat (apply Forall_cons; [apply ge128; vm_compute; discriminate|]); apply Forall_nil.
Qed.
Lemma utf8_app a b : utf8 (a ++ b) = utf8 a ++ utf8 b.
Proof. unfold utf8. apply flat_map_app. Qed.
Lemma utf8_ascii_cons c s : c < 128 -> utf8 (c :: s) = c :: utf8 s.
Proof. intros H. unfold utf8. cbn [flat_map]. rewrite (enc_ascii c H). reflexivity. Qed.

Definition ascii_set (D : list N) : Prop := forall d, In d D -> d < 128.

Lemma none_of_enc D c : ascii_set D -> ~ In c D -> none_of D (utf8_enc c).
Proof.
  intros HD Hc. destruct (N.ltb_spec c 128) as [H|H].
  - rewrite (enc_ascii c H). constructor; [exact Hc | constructor].
  - pose proof (enc_high c H) as Hh. unfold none_of. eapply Forall_impl; [|exact Hh]. intros b Hb Hin. cbv beta in Hb. apply HD in Hin. lia.
Qed.
Lemma none_of_utf8 D s : ascii_set D -> none_of D s -> none_of D (utf8 s).
Proof.
  intros HD. induction 1 as [|c s Hc _ IH]; [constructor|]. unfold utf8. cbn [flat_map]. apply Forall_app. split; [now apply none_of_enc | exact IH].
Qed.
Lemma utf8_nil s : utf8 s = [] -> s = [].
Proof. destruct s as [|c s]; [reflexivity|]. unfold utf8. cbn [flat_map]. unfold utf8_enc. destruct (c <? 128), (c <? 2048), (c <? 65536); discriminate. Qed.

(* the head byte of an encoding is an ASCII byte only for that ASCII character *)
Lemma utf8_head d s t : d < 128 -> utf8 s = d :: t -> exists s', s = d :: s' /\ t = utf8 s'.
Proof.
  intros Hd. destruct s as [|c s]; [discriminate|]. destruct (N.ltb_spec c 128) as [H|H].
  - rewrite utf8_ascii_cons by exact H. intros E. injection E as -> <-. eauto.
  - unfold utf8. cbn [flat_map]. pose proof (enc_high c H) as Hh. intros E.
    destruct (utf8_enc c) as [|b r] eqn:Ec; [unfold utf8_enc in Ec; destruct (c <? 128), (c <? 2048), (c <? 65536); discriminate|].
    cbn [app] in E. injection E as -> _. inversion Hh; subst. cbv beta in *. lia.
Qed.

Local Open Scope nat_scope.
Lemma nocolon_utf8 s : nocolon_first (utf8 s) = nocolon_first s.
Proof.
  induction s as [|c s IH]; [reflexivity|]. destruct (N.ltb_spec c 128) as [H|H].
  - rewrite utf8_ascii_cons by exact H. cbn [nocolon_first]. rewrite IH. reflexivity.
  - unfold utf8. cbn [flat_map]. fold (utf8 s). pose proof (enc_high c H) as Hh.
    assert (G : forall l, Forall (fun b => (128 <= b)%N) l -> nocolon_first (l ++ utf8 s) = nocolon_first (utf8 s)).
    { induction 1 as [|b l Hb _ IHl]; [reflexivity|]. cbn [app nocolon_first].
      replace (is b SLASH) with false by (symmetry; apply N.eqb_neq; unfold SLASH; lia).
      replace (is b COLON) with false by (symmetry; apply N.eqb_neq; unfold COLON; lia). exact IHl. }
    rewrite (G _ Hh), IH. cbn [nocolon_first].
    replace (is c SLASH) with false by (symmetry; apply N.eqb_neq; unfold SLASH; lia).
    replace (is c COLON) with false by (symmetry; apply N.eqb_neq; unfold COLON; lia). reflexivity.
Qed.

Definition map_parts (f : str -> str) (p : parts) : parts :=
  {| p_scheme := option_map f (p_scheme p); p_authority := option_map f (p_authority p); p_path := f (p_path p);
     p_query := option_map f (p_query p); p_fragment := option_map f (p_fragment p) |}.

Lemma utf8_delim c : (c < 128)%N -> utf8 [c] = [c].
Proof. intros H. unfold utf8. cbn [flat_map]. rewrite (enc_ascii c H). reflexivity. Qed.
Theorem compose_utf8 p : compose (map_parts utf8 p) = utf8 (compose p).
Proof.
  unfold compose, tail_of, map_parts. cbn [p_scheme p_authority p_path p_query p_fragment]. rewrite !utf8_app.
  destruct (p_scheme p), (p_authority p), (p_query p), (p_fragment p); cbn [option_map opt_post opt_pre]; rewrite ?utf8_app; cbn [utf8 flat_map app];
    repeat (rewrite (enc_ascii COLON) by (unfold COLON; lia) || rewrite (enc_ascii SLASH) by (unfold SLASH; lia) || rewrite (enc_ascii QM) by (unfold QM; lia)
            || rewrite (enc_ascii HASH) by (unfold HASH; lia)); cbn [app]; reflexivity.
Qed.

Lemma ascii4 : ascii_set [COLON; SLASH; QM; HASH]. Proof. intros d [<-|[<-|[<-|[<-|[]]]]]; unfold COLON, SLASH, QM, HASH; lia. Qed.
Lemma ascii3 : ascii_set [SLASH; QM; HASH]. Proof. intros d [<-|[<-|[<-|[]]]]; unfold SLASH, QM, HASH; lia. Qed.
Lemma ascii2 : ascii_set [QM; HASH]. Proof. intros d [<-|[<-|[]]]; unfold QM, HASH; lia. Qed.
Lemma ascii1 : ascii_set [HASH]. Proof. intros d [<-|[]]; unfold HASH; lia. Qed.

Theorem wf_parts_utf8 p : wf_parts p -> wf_parts (map_parts utf8 p).
Proof.
  intros [Hs Ha Hp Hq Hpa Hpn Hpc]. constructor; cbn [map_parts p_scheme p_authority p_path p_query p_fragment].
  - intros s E. destruct (p_scheme p) as [s0|]; [|discriminate]. injection E as <-. destruct (Hs s0 eq_refl) as [H1 H2].
    split; [intros E; apply H1; now apply utf8_nil | apply none_of_utf8; [apply ascii4 | exact H2]].
  - intros a E. destruct (p_authority p) as [a0|]; [|discriminate]. injection E as <-. apply none_of_utf8; [apply ascii3 | now apply Ha].
  - apply none_of_utf8; [apply ascii2 | exact Hp].
  - intros q E. destruct (p_query p) as [q0|]; [|discriminate]. injection E as <-. apply none_of_utf8; [apply ascii1 | now apply Hq].
  - intros E. destruct (p_authority p) as [a0|]; [|exfalso; apply E; reflexivity].
    destruct (Hpa ltac:(discriminate)) as [->|(t & ->)]; [left; reflexivity | right]. rewrite utf8_ascii_cons by (unfold SLASH; lia). eauto.
  - intros E t Ht. destruct (p_authority p); [discriminate|].
    destruct (utf8_head SLASH _ _ ltac:(unfold SLASH; lia) Ht) as (s1 & E1 & Et).
    symmetry in Et. destruct (utf8_head SLASH _ _ ltac:(unfold SLASH; lia) Et) as (s2 & E2 & _). subst. eapply (Hpn eq_refl); eauto.
  - intros E1 E2. rewrite nocolon_utf8. destruct (p_scheme p), (p_authority p); try discriminate. now apply Hpc.
Qed.

(* every decomposition theorem at byte level *)
Theorem byte_level_decomposition p : wf_parts p -> decomposition_ok (utf8 (compose p)) (map_parts utf8 p).
Proof. intros W. rewrite <- compose_utf8. apply decomposition_compose. now apply wf_parts_utf8. Qed.

Theorem iri_reference_bytes s : L (IRI_reference I C02Bridge.P) s ->
  exists p, valid_parts_I p /\ s = compose p /\ decomposition_ok (utf8 s) (map_parts utf8 p).
Proof.
  intros H. apply iri_ref_shape in H. apply REF_factor in H as (p & V & ->).
  exists p. split; [exact V|]. split; [reflexivity|]. apply byte_level_decomposition. now apply valid_parts_wf_I.
Qed.
