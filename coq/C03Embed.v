(* C03: authorities embedded in references -- the authority component handed out by the reference-level
   decomposition (C02) is a string of the authority language, so the authority chain (C03Bridge) applies to it. *)
From Coq Require Import List NArith Bool Arith.
Import ListNotations.
Require Import V.Regex V.Parse V.ParseProofs V.Auth V.AuthProofs V.Abnf V.BridgePaths V.Factor V.C03Bridge V.C02Bridge V.C02Proofs.

(* stated for an abstract regex so that no conversion ever looks inside the grammar *)
Lemma oL_some (r : re) (s : str) : oL r (Some s) -> L r s.
Proof. intros H. exact H. Qed.
Lemma valid_parts_auth Rs Ra R1 R2 R3 R4 Rq Rf p au :
  valid_parts Rs Ra R1 R2 R3 R4 Rq Rf p -> p_authority p = Some au -> L Ra au.
Proof. intros (_ & Ha & _) E. rewrite E in Ha. exact (oL_some Ra au Ha). Qed.

Theorem embedded_uri s : L (IRI_reference U U) s -> exists p, valid_parts_U p /\ decomposition_ok s p /\
  forall au, p_authority p = Some au -> exists a, valid_aparts_fam U a /\ adecomposition_ok au a.
Proof.
  intros H. destruct (uri_reference_decomposition s H) as (p & V & D). exists p. split; [exact V | split; [exact D|]].
  intros au E. apply uri_authority_decomposition. exact (valid_parts_auth _ _ _ _ _ _ _ _ p au V E).
Qed.
Theorem embedded_iri s : L (IRI_reference I C02Bridge.P) s -> exists p, valid_parts_I p /\ decomposition_ok s p /\
  forall au, p_authority p = Some au -> exists a, valid_aparts_fam I a /\ adecomposition_ok au a.
Proof.
  intros H. destruct (iri_reference_decomposition s H) as (p & V & D). exists p. split; [exact V | split; [exact D|]].
  intros au E. apply iri_authority_decomposition. exact (valid_parts_auth _ _ _ _ _ _ _ _ p au V E).
Qed.
