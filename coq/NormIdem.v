(* C09: the in-place normalisation is idempotent at text level, for EVERY byte string and every handle context:
   normalize1 (normalize1 v) = normalize1 v.  (The copying normalized() is not: recorded finding K_shield_left.) *)
From Coq Require Import List NArith Bool Arith Lia.
Import ListNotations.
Require Import V.Regex V.Parse V.ParseProofs V.PathSpec V.Iter V.Push V.PathMut V.PathMutProofs V.Rfc V.PushWf V.NormProofs V.PopProofs V.MergeProofs.
Local Open Scope nat_scope.

Lemma norm_dot_cons ab l : norm ab ([DOT] :: l) = norm ab l.
Proof. unfold norm. cbn [fold_left]. unfold step at 2. change (is_dot [DOT]) with true. reflexivity. Qed.

Lemma shield_nonempty start0 fa ab J : shield_of start0 fa ab J = true -> J <> [].
Proof. destruct J; [discriminate | discriminate]. Qed.

Theorem normalize1_idempotent start0 fa v : normalize1 start0 fa (normalize1 start0 fa v) = normalize1 start0 fa v.
Proof.
  set (ab := is_abs v). set (n := norm ab (segs v)). set (J := join n).
  assert (Hnn : Forall noslash n) by (apply norm_noslash, segs_noslash).
  pose proof (normalize1_abs start0 fa v) as Hab. fold ab in Hab.
  set (v' := normalize1 start0 fa v) in *.
  assert (Ev' : v' = clear1 v ++ (if shield_of start0 fa ab J then DOT :: SLASH :: J else J)) by reflexivity.
  (* it suffices that the second pass sees the same joined text J *)
  assert (HJ : join (norm ab (segs v')) = J).
  { destruct (shield_of start0 fa ab J) eqn:Esh.
    - (* shielded: v' = render ab ([DOT] :: n), n <> [] *)
      assert (Hn : n <> []) by (intros E; apply (shield_nonempty _ _ _ _ Esh); unfold J; rewrite E; reflexivity).
      assert (Er : v' = render ab ([DOT] :: n)).
      { rewrite Ev'. unfold render, clear1. fold ab. destruct n as [|s r]; [contradiction|]. reflexivity. }
      destruct (segs_render_prefix ab ([DOT] :: n)) as [Es _].
      + constructor; [repeat constructor; unfold DOT, SLASH; discriminate | exact Hnn].
      + intros _ r E. discriminate E.
      + intros [_ E]. discriminate E.
      + rewrite Er, Es, norm_dot_cons. unfold n at 1. rewrite norm_idempotent. reflexivity.
    - (* not shielded: v' = render ab n *)
      assert (Er : v' = render ab n) by (rewrite Ev'; unfold render, clear1; fold ab; reflexivity).
      assert (Hcase : n = [[]] \/ n <> [[]]) by (destruct n as [|[|c s] [|t r]]; auto; right; discriminate).
      destruct Hcase as [E1|E1].
      + (* the rendering is "" or "/": no segment at all; both joins are empty *)
        unfold J. rewrite Er, E1. destruct ab; reflexivity.
      + destruct (segs_render_prefix ab n) as [Es _].
        * exact Hnn.
        * intros Eab r E. (* a relative rendering that starts with '/' would have been shielded *)
          assert (Hh : starts_slash J = true).
          { unfold J. rewrite (join_head n Hnn), E. destruct r; [exfalso; apply E1; exact E | reflexivity]. }
          unfold shield_of in Esh. destruct J as [|c t]; [discriminate Hh|]. cbn [starts_slash] in Hh. rewrite Hh, Eab in Esh. discriminate Esh.
        * intros [_ E]. contradiction.
        * rewrite Er, Es. unfold n at 1. rewrite norm_idempotent. reflexivity. }
  unfold normalize1 at 1. fold v'. rewrite Hab. fold ab. rewrite HJ.
  assert (Ec : clear1 v' = clear1 v) by (unfold clear1; rewrite Hab; reflexivity).
  rewrite Ec. symmetry. exact Ev'.
Qed.
