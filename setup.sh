#!/bin/sh
# Builds the whole framework from files on disk (offline): static Coq development (full .vo build),
# extracted OCaml model driver, and warms the build cache for the current /repo working tree.
set -e
cd "$(dirname "$0")"
export CARGO_NET_OFFLINE=true
( cd coq && coq_makefile -f _CoqProject -o Makefile >/dev/null && timeout 3000 make -j16 >/tmp/iref-verif-coq-build.log 2>&1 ) || { tail -40 /tmp/iref-verif-coq-build.log; exit 1; }
if [ -f ocaml/build.sh ]; then sh ocaml/build.sh; fi
python3 -c "import sys; sys.path.insert(0,'tools'); import vlib; print(vlib.build_tree())"
