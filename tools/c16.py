#!/usr/bin/env python3
"""C16: suffix() exists exactly for prefix paths (same scheme/authority/absoluteness) and is the remaining segments; base() is the text up to the last '/' of the path."""
import os, sys, json, random, itertools
sys.path.insert(0, os.path.dirname(os.path.abspath(__file__)))
from vlib import *
from gen import Gen, paths_upto
import spec
from spec import segs, norm, is_abs, dec, nodot

def nsegs(p):
    return norm(is_abs(p), segs(p))

def suffix_spec(pa, pp):
    """None, or the list of remaining (undecoded) segments"""
    if is_abs(pa) != is_abs(pp):
        return None
    A = nsegs(pa); P = nsegs(pp)
    if len(P) > len(A) or [dec(x) for x in A[:len(P)]] != [dec(x) for x in P]:
        return None
    return A[len(P):]

def recon(pa, pp, s, want):
    """the reconstruction law: prefix segments followed by the suffix's segments normalise to the value's segments (decoded).
    Returns (holds, in_known_class); the class is the exact complement of the hypotheses of C16_reconstruction_partial."""
    rec = norm(is_abs(pp), segs(pp) + segs(s))
    holds = [dec(x) for x in rec] == [dec(x) for x in nsegs(pa)]
    P = nsegs(pp)
    plain_rest = all(x not in (b'.', b'..') for x in want)
    all_dd = all(x == b'..' for x in P)
    return holds, not (plain_rest or all_dd)

CORPUS = [('../../x', '%2E%2E'), ('../..', '%2E%2E'), ('../../..', '../%2e%2E'), ('../../x', '..'), ('../x', '%2E%2E'), ('/%2E%2E/x', '/%2E%2E'),
          ('../../../a/b', '%2e./..'), ('a/b/c', 'a'), ('/a/b/', '/a')]

def main():
    R = Result('C16', 'proof')
    rnd = random.Random(R.seed)
    thorough = R.tier == 'thorough'
    R.assumptions = ['Coq kernel', 'hand-written model coq/Reference.v (ref_suffix, path_suffix, ref_base) and Cmp.v, tied to the code by this run', 'extraction + ocamlopt', 'Rust harness']
    props_check(R, 'C16')
    st = setup_check(R)
    if st is None:
        return R.finish()
    cdir, harness, model = st
    lines = []; meta = []
    SEG = ['a', 'b', 'c', '%61', 'x:y', '', '.', '..', 'é', '%FF', '%C3%A9']
    n = 100000 if thorough else 4000
    known_listed = {k['id']: k for k in known_findings('C16')}
    for fam in ('uri', 'iri'):
        for pa, pp in CORPUS:          # the minimised cases run first
            lines.append('psuffix\t%s\t%s\t%s' % (fam, hexs(pa), hexs(pp))); meta.append(('psuffix', fam, pa.encode(), pp.encode()))
            ra = 's:' + pa + '?q#f'; rp = 's:' + pp
            lines.append('suffix\t%s\t%s\t%s' % (fam, hexs(ra), hexs(rp))); meta.append(('suffix', fam, ra.encode(), rp.encode()))
    for fam in ('uri', 'iri'):
        g = Gen(random.Random(rnd.random()), fam)
        S = [s for s in SEG if fam == 'iri' or all(ord(c) < 128 for c in s)]
        for i in range(n // 2):
            ab = g.r.random() < 0.7
            segl = [g.pick(S) for _ in range(g.pick([0, 1, 2, 3, 4, 5]))]
            updown = (not ab) and g.r.random() < 0.25
            if updown: segl = ['..'] * g.pick([1, 2, 3]) + [x for x in segl if x not in ('.', '..', '')]
            k = g.r.random()
            if k < 0.6:
                pre = segl[:g.r.randint(0, len(segl))]          # a leading part
                if g.r.random() < 0.3: pre = [x.replace('a', '%61') if x == 'a' else ('a' if x == '%61' else x) for x in pre]
                if g.r.random() < 0.2: pre = pre + ['x', '..']
                if updown and g.r.random() < 0.5: pre = [g.pick(['%2E%2E', '%2e.', '.%2E', '..']) if x == '..' else x for x in pre]
            elif k < 0.8:
                pre = segl + [g.pick(S)]                              # longer than the value
            else:
                pre = [g.pick(S) for _ in range(g.pick([0, 1, 2]))]
            def mk(l, ab_):
                p = ('/' if ab_ else '') + '/'.join(l)
                if not ab_ and p.startswith('/'): p = '.' + p
                if not ab_ and ':' in p.split('/')[0]: p = './' + p
                return p
            pa = mk(segl, ab); pp = mk(pre, ab if g.r.random() < 0.9 else not ab)
            lines.append('psuffix\t%s\t%s\t%s' % (fam, hexs(pa), hexs(pp))); meta.append(('psuffix', fam, pa.encode(), pp.encode()))
            # embedded
            sch = g.pick([None, 's', 's', 'http']); au = g.pick([None, 'h', 'h', 'H', '%68', 'u@h'])
            sch2 = sch if g.r.random() < 0.85 else g.pick([None, 't']); au2 = au if g.r.random() < 0.8 else g.pick([None, 'h', 'k', '%68'])
            def emb(s_, a_, p_, q, f):
                if a_ is not None and p_ and not p_.startswith('/'): p_ = '/' + p_
                if a_ is None and p_.startswith('//'): p_ = '/.' + p_
                if a_ is None and s_ is None and ':' in p_.split('/')[0]: p_ = './' + p_
                return Gen.compose({'scheme': s_, 'authority': a_, 'path': p_, 'query': q, 'fragment': f})
            ra = emb(sch, au, pa, g.pick([None, 'q', '', 'a/b/', '/', 'x?y/']), g.pick([None, 'f', '/', 'a/b/', '?/'])); rp = emb(sch2, au2, pp, g.pick([None, 'z', 'z/']), None)   # queries / fragments with the delimiters legal there, also at the end
            lines.append('suffix\t%s\t%s\t%s' % (fam, hexs(ra), hexs(rp))); meta.append(('suffix', fam, ra.encode(), rp.encode()))
            lines.append('base\t%s\t%s' % (fam, hexs(ra))); meta.append(('base', fam, ra.encode(), None))
    impl = run_lines(harness, lines)
    mod = run_lines(model, lines)
    nviol = 0; diffs = 0; classes = set(); known_seen = {}; recon_ok = 0
    for (op, fam, a, p), line, io, mo in zip(meta, lines, impl, mod):
        if io.startswith('ERR'):
            continue
        pr = []
        if 'PANIC' in io:
            pr.append('panic')
        elif op == 'psuffix':
            want = suffix_spec(a, p)
            if io == 'NONE':
                if want is not None: pr.append('no suffix reported although the prefix matches; remaining segments %r' % want)
            else:
                f = io.split('\t'); s = unhex(f[0])
                if want is None: pr.append('spurious suffix %r' % s)
                else:
                    if f[1] != '1': pr.append('suffix %r is not a valid path' % s)
                    if nodot(segs(s)) != nodot(want): pr.append('suffix %r has segments %r, the remaining segments are %r' % (s, segs(s), want))
                    if is_abs(s): pr.append('suffix %r is absolute' % s)
                    holds, kn = recon(a, p, s, want)
                    if not holds:
                        if kn and 'K_pct_dotdot' in known_listed:
                            R.known_finding(known_listed['K_pct_dotdot']['what']); known_seen['K_pct_dotdot'] = known_seen.get('K_pct_dotdot', 0) + 1
                        else: pr.append('reconstruction law: prefix %r followed by suffix %r normalises to %r, the value to %r' % (p, s, norm(is_abs(p), segs(p) + segs(s)), nsegs(a)))
                    else: recon_ok += 1
            classes.add((op, fam, is_abs(a), want is None, len(want or []), any(b'%' in x for x in segs(a))))
        elif op == 'suffix':
            A = spec.parse(a); P = spec.parse(p)
            same = A[0] == P[0] and ((A[1] is None and P[1] is None) or (A[1] is not None and P[1] is not None and spec.canon(b'//' + A[1])[1] == spec.canon(b'//' + P[1])[1]))
            want = suffix_spec(A[2], P[2]) if same else None
            halves = io.split('\t|\t')
            first = halves[0]
            if first == 'NONE':
                if want is not None: pr.append('no suffix reported although scheme, authority and path prefix match; remaining %r' % want)
            else:
                f = first.split('\t'); s = unhex(f[0])
                g_ = lambda x: None if x == '~' else unhex(x)
                if want is None: pr.append('spurious suffix %r' % s)
                else:
                    if nodot(segs(s)) != nodot(want): pr.append('suffix path %r, remaining segments are %r' % (s, want))
                    if (g_(f[2]), g_(f[3])) != (A[3], A[4]): pr.append('suffix does not carry the value\'s own query and fragment')
                    holds, kn = recon(A[2], P[2], s, want)
                    if not holds:
                        if kn and 'K_pct_dotdot' in known_listed:
                            R.known_finding(known_listed['K_pct_dotdot']['what']); known_seen['K_pct_dotdot'] = known_seen.get('K_pct_dotdot', 0) + 1
                        else: pr.append('reconstruction law: prefix path %r followed by suffix %r does not normalise to the value\'s segments %r' % (P[2], s, nsegs(A[2])))
                    else: recon_ok += 1
            if len(halves) > 1 and halves[1] != '-' and halves[1] != first:
                pr.append('Uri/Iri::suffix and UriRef/IriRef::suffix disagree')
            classes.add((op, fam, A[0] is None, A[1] is None, P[1] is None, same, want is None))
        else:
            A = spec.parse(a)
            pstart = len(a) - len(spec.compose((None, None, A[2], A[3], A[4])))
            j = A[2].rfind(b'/')
            want = pstart + j + 1
            halves = io.split('\t|\t'); f = halves[0].split('\t')
            if f[0] != '0:%d' % want: pr.append('base() = %s, expected the first %d bytes %r' % (f[0], want, a[:want]))
            if f[1] != '1': pr.append('base() is not a valid value of the same kind')
            if f[2] != '1': pr.append('base() has a query or fragment')
            if len(halves) > 1 and halves[1] != '-':
                h = halves[1].split('\t')
                if h[0] != f[0] or h[1] != '1': pr.append('Uri/Iri::base disagrees or is not a valid URI/IRI: %s' % halves[1])
            classes.add((op, fam, A[0] is None, A[1] is None, j < 0, A[3] is None))
        if pr:
            nviol += 1
            if nviol <= 300:
                R.violation({'kind': 'suffix / base inconsistent with path prefixes', 'op': op, 'family': fam, 'value': a.decode('utf-8', 'replace'), 'prefix': None if p is None else p.decode('utf-8', 'replace'),
                             'problems': pr[:4], 'implementation': io[:400], 'model': mo[:300], 'replay': "printf '%s\\n' | %s" % (line.replace('\t', '\\t'), harness)}, no_input=False)
        if op == 'base':
            same = io.split('\t')[0] == mo
        elif io == 'NONE' or io.startswith('NONE\t|'):
            same = mo == 'NONE'
        else:
            fi = io.split('\t|\t')[0].split('\t'); fm = mo.split('\t')
            same = fi[0:1] + fi[2:] == fm[0:1] + fm[2:]
        if not same:
            diffs += 1
            if diffs <= 5:
                R.extra.setdefault('correspondence_diffs', []).append({'case': line, 'impl': io[:300], 'model': mo[:300]})
    if diffs and not R.violations:
        R.violation({'kind': 'correspondence broken: the suffix/base model and the implementation disagree, but every implementation output satisfied the oracle',
                     'first': R.extra.get('correspondence_diffs', [])[:3]}, no_input=True)
    R.cov['evaluations'] = len(lines)
    R.cov['distinct_nontrivial'] = len(classes)
    R.cov['rule'] = ('(value, prefix) pairs of paths and references: prefixes derived from the value by truncating its segment list (re-encoded %61/a, with x/.. detours), longer or '
                     'unrelated prefixes, relative values with leading .. against percent-respelled .. prefixes (reconstruction law), differing absoluteness, scheme, authority (incl. percent-equal authorities); base() on every generated reference; distinct_nontrivial = distinct '
                     '(op, family, shape flags, suffix exists?, length)')
    R.cov['samples'] = [{'case': l.replace('\t', ' ')[:160], 'impl': io.replace('\t', ' ')[:160]} for l, io in list(zip(lines, impl))[::max(1, len(lines) // 6)]][:6]
    R.cov['trusted_base'] = R.assumptions
    R.extra.update({'model_vs_impl_differences': diffs, 'known_classes_seen': known_seen, 'reconstruction_law_held': recon_ok, 'tree': os.path.basename(cdir)})
    return R.finish()

if __name__ == '__main__':
    sys.exit(main())
