#!/usr/bin/env python3
"""Regenerates /verif/MANIFEST.json from the table below (one entry per claimed property)."""
import json, os
HERE = os.path.dirname(os.path.dirname(os.path.abspath(__file__)))
props = [json.loads(l) for l in open(os.path.join(HERE, 'properties.jsonl'))]

TB = ('Trusted: Coq 8.16.1 kernel incl. vm_compute; the hand-written Gallina model of the Rust functions (tied to the code by the correspondence run of '
      'this check: model extracted with ExtrOcamlBasic and implementation are run on the same generated cases and compared); the Rust harness; the '
      'generators bound what the correspondence sees. ')

CLAIMS = {
 'C01': dict(cat='proof', tech='Coq proof by reflection (Brzozowski derivatives + verified bisimulation-certificate checker) over DFAs regenerated from the source on every run',
   text='For each of the 20 validated types the DFA that rustc compiles (translated from the macro expansion of the current tree on every run) is proved, by a verified '
        'bisimulation-certificate checker run in the Coq kernel, to accept exactly the language of the RFC 3986/3987 ABNF rule, for all token lists with no length bound. '
        'Construction routes and the text/payload clause are tied to that DFA by differential testing.',
   note='Trusted: Coq kernel + vm_compute; translator expand2dfa.py and rustc -Zunpretty=expanded (validated each run against the real constructors); coq/Abnf.v as the '
        'reading of the RFCs; strict UTF-8 decoding of std modelled by the Python codec; routes/payload clause is tested, not proved.'),
 'C02': dict(cat='proof', tech='Coq proof (grammar factorisation by reflection + scanner inversion by induction) with model/implementation correspondence check',
   text='Theorems C02_uri_reference / C02_iri_reference / C02_uri / C02_iri: every string of the RFC language is compose(p) of valid components and on it reference_parts, abs_parts, scheme and each find_* scanner of the model return exactly the component ranges (absent vs empty distinguished); C02_slices: the ranges denote the components; C02_iri_reference_bytes: the same on the UTF-8 BYTES of every IRI reference (transport lemma: the scanners only look at ASCII delimiters). The model is the hand transcription of common/parse.rs; the check runs model, implementation and the RFC decomposition oracle on generated references of both families, borrowed and owned.',
   note=TB + 'Grammar link: C01 (generated DFA = RFC regex) composes with these theorems.'),
 'C03': dict(cat='proof', tech='Coq proof (scanner inversion by induction over the authority text) with model/implementation correspondence check',
   text='Theorems C03_uri_authority / C03_iri_authority: every string of the RFC authority language is [userinfo "@"] host [":" port] with each part in its own language, and the one-pass decomposition and the three individual scanners (user_info, host, port -- incl. find_port\'s labelled-continue loop) return exactly the ranges of those parts; C03_parts, C03_find_host, C03_find_user_info, C03_find_port at any offset of an enclosing buffer. Complete chain: grammar -> parts (factorisation by reflection) -> delimiter well-formedness -> scanners.',
   note=TB),
 'C04': dict(cat='proof', tech='Coq proof (induction over sequences of ALL safe mutators on top of the splice / handle refinements) + model/implementation correspondence over random mutator sequences',
   text="Theorem C04_mixed_sequences_partial: every finite sequence mixing the five setters, path push / pop / clear / normalize / symbolic_push / symbolic_append through a handle on the reference, in-place resolution against any well-formed base with a scheme (all five branches), and whole histories of set_userinfo/set_host/set_port through one authority handle, with valid arguments, from any well-formed reference runs without panic in the index-level model (bounds-checked indices, checked subtraction) and ends in compose p' with p' again well-formed (delimiter level: every accessor reads the components back, C02); C04_setter_sequences_partial; C04_setters_keep_validity_URI / _IRI: AT THE LEVEL OF THE RFC GRAMMAR any setter sequence with component-valid arguments maps the (U/I)RI-reference language into itself (38 regex-inclusion certificates checked by the verified bisimulation checker), so with C01 the buffer re-parses as the same type after every call; C04_splice_total. 'partial': grammar-level validity is proved for the five setters only (for the path/authority handles and resolve the proved invariant is the delimiter-level well-formedness), and the owned PathBuf/AuthorityBuf types outside a reference are covered by model + correspondence. The check executes random sequences on the implementation (dev profile, catch_unwind, re-validation after EVERY call, several edits through one authority handle) and on the extracted model.",
   note=TB),
 'C05': dict(cat='proof', tech='Coq proof (scanner value lemmas + splice refinement replace_spec) + model/implementation correspondence with a relational oracle',
   text='Theorems C05_set_scheme/_authority/_path/_query/_fragment: on compose p the L0 model of each setter returns compose p\' with exactly that component replaced, all others '
        'identical, the written path related to the requested one by `permitted` (the three documented disambiguations under exactly their conditions), and p\' well-formed so that '
        'C02 reads it back; C05_set_path_valid_URI / C05_set_authority_valid_IRI: the same two setters at grammar level (valid parts in, valid parts out, the written path in the path language); C05_replace: tail-preserving splice for any tail length.',
   note=TB),
 'C11': dict(cat='proof', tech='Coq proof (handle invariant Inv, scanner value on the window, splice refinement) + correspondence over call sequences through one handle',
   text='Theorems C11_view, C11_set_userinfo, C11_set_host, C11_set_port (each editor: no panic, the handle invariant is re-established for the authority with exactly that sub-component replaced, before/after untouched; all branches: replace, insert with delimiter, remove with delimiter, no-op) and C11_history: ANY finite history of calls through one handle with delimiter-valid arguments keeps the invariant, so the handle always views exactly the current authority. C11_history_valid_URI / _IRI: AT THE LEVEL OF THE RFC GRAMMAR, a handle viewing any string of the authority language views a string of the authority language again after any history of edits with component-valid arguments (factorisation of the authority grammar in both directions). The model carries the `end` arithmetic of the code and is compared with the implementation after every call.',
   note=TB),
 'C12': dict(cat='proof', tech='Coq proof (induction over an arbitrary next/next_back script) + model/implementation correspondence with the /-split oracle',
   text='Theorems C12_interleave / C12_interleave_at (for every non-empty path and EVERY finite script of next/next_back calls the iterator model never panics and yields segment k from the front, n-m-1 from the back, None after the cursors meet), C12_segments_are_the_split (forward iteration of any path free of \'?\' \'#\' = the \'/\'-split of the text), C12_join_split. Derived queries: C12_last (last() = the last piece of the split, no panic), C12_parent / C12_parent_or_empty (the text up to the last \'/\', "/" for "/x", the library\'s "/./" for "//x", None / "" when there is nothing to cut); C12_directory (for EVERY byte string, the text up to and including the last \'/\'); C12_first, C12_file_name; the counts are modelled (PathQ.v) and compared with the implementation and an independent split oracle.',
   note=TB),
 'C20': dict(cat='proof', tech='Coq proof of range ordering/containment over the scanner model; allocation counting and pointer-range observation in the harness',
   text='Theorems C20_reference_ranges / C20_authority_ranges: the ranges returned by the decomposition of any well-formed reference/authority are well-formed, ordered, disjoint and inside '
        'the input. That results are sub-slices (pointer identity) and that 0 heap allocations happen is OBSERVED by the harness (counting global allocator, inputs to 64 kB): a '
        'value-level Gallina model has no heap, so that half is test-level (partial).',
   note=TB + 'Allocation behaviour is runtime behaviour the model cannot exhibit.'),
 'C06': dict(cat='proof', tech='Coq refinement proof of all five branches of resolve to an RFC 3986 5.2.2 spec (index-level model -> text-level functions -> RFC) + independent RFC oracle on every implementation output + model correspondence',
   text="Spec coq/Rfc.v (rfc_target = 5.2.2, merge = 5.2.3, rds = 5.2.4). Theorem C06_resolution_is_rfc_partial: for EVERY well-formed base with a scheme and EVERY well-formed reference, if no segment other than the last is empty in the reference path and (when paths are merged) in the base path, the index-level model of resolve (bounds-checked splices, handle offsets, set_scheme/set_authority/set_path, in-place normalize, parent, symbolic_append, closing push) returns without panic exactly compose(rfc_target base ref). Per branch: C06_empty_path_branch_partial, C06_no_merge_branches_exact/_partial (exact text-level result rds_impl for ALL inputs; = 5.2.4 under the exact condition rds_exact), C06_merge_branch_exact/_partial (exact result merge_impl for ALL inputs; = 5.2.3+5.2.4 under the no-inner-empty-segment condition, by a representation invariant tying the accumulated text to the stack of the specification walk), C06_resolve_total (all five branches: no panic, result well-formed), C06_K_R2_witness (the excluded inputs are the recorded class K_R2, where the code really departs from the RFC), C06_rds_normal/_plain. 'partial' = the exclusion. Every output of every branch on the implementation is also judged by an independent transcription of RFC 3986 5.2 (tools/spec.py); the known class is exactly the complement of the theorem's hypotheses and inside it the implementation must show the recorded behaviour (the model).",
   note=TB + 'Oracle tools/spec.py is an independent reading of the RFC; interpretation I1/I8 (DESIGN section 8).'),
 'C07': dict(cat='proof', tech='Coq proof: the derive-style comparison model factors through a canonical form built from total-order combinators; decode totality by reflection; correspondence check',
   text='Theorems C07_eq_is_canon_equality, C07_reflexive/_symmetric/_transitive (== on references is equality of canonical forms (scheme literal, decoded user info/host, literal '
        'port, absoluteness, decoded normalised segments, decoded query/fragment), never panics when the components decode), C07_authority, C07_path for the stand-alone types, '
        'C07_decode_total (decoding is total on every valid component of both families, by inclusion certificates).',
   note=TB + 'The link "valid reference -> canon is defined" composes C02 (decomposition) with C07_decode_total; it is stated per component, not yet as one theorem.'),
 'C08': dict(cat='proof', tech='Coq proof over the same canonical form: hash stream is a function of it, cmp is a lexicographic total order on it; hash streams compared token by token with the implementation',
   text='Theorems C08_equal_hash_equal (the exact sequence of Hasher::write_* calls is determined by the canonical form), C08_cmp_eq_agree, C08_total_antisymmetric, C08_transitive, C08_order. '
        'Views (owned/borrowed, Uri vs UriRef vs Iri vs IriRef) are one model value; that the front ends implement it is checked by recording Hasher streams and by HashSet/BTreeSet lookups '
        'through every Borrow impl between library types.',
   note=TB + 'derive(Ord/Hash) semantics of std (field order, Option discriminant as isize, [u8] length prefix) are modelled as observed.'),
 'C09': dict(cat='proof', tech='Coq proof (stack walk of the model = specification walk; normal form; idempotence) + correspondence with an RFC 5.2.4 oracle',
   text="Theorems C09_normalized_segments_of_text (for every path free of '?' and '#' the normalized-segment iterator of the model yields exactly `norm` -- drop '.', '..' pops / is kept when relative and nothing is left / is dropped at the root -- of the '/'-split of the text), C09_normalized_segments, C09_normal_form, C09_idempotent, C09_render_segs. IN-PLACE normalize(): C09_normalize_in_place (index-level handle: no panic, bytes before and after the path untouched, offsets coherent, the view becomes normalize1 v), C09_normalize_text (normalize1 v = rendering, with v's absoluteness, of the specification walk on the '/'-split, preceded by one '.' segment exactly when the code writes its './' shield), C09_normalize_keeps_absoluteness. THE COPYING normalized(): C09_normalized_partial (fold of symbolic pushes through fresh handles + closing segment, index-level model: no panic and exactly RFC 3986 5.2.4 on every path without an empty segment before its last one and without a segment that needs the './' colon shield; C09_normalized_witnesses shows both exclusions are needed -- findings K_G11, K_shield_left). On the excluded shapes it is judged by the rendering oracle together with all entry points (stand-alone and embedded, > 16 segments / > 512 bytes, twice through one handle): partial. Known findings K_G11, K_shield_left.",
   note=TB + 'Interpretations I4, I8.'),
 'C10': dict(cat='proof', tech='Coq proof of the push law for all byte strings + L0 handle model correspondence + list-semantics oracle per edit',
   text='Theorems C10_push_law (push appends exactly the pushed segment, for EVERY byte string and context, all five branches), C10_push_handle (the same for the INDEX-LEVEL handle that is compared with the implementation: no panic, invariant buffer = before ++ view ++ after re-established, before/after untouched), C10_clear_handle, C10_clear_no_segments, C10_handle_sequences (any sequence of push/pop/clear through ONE handle performs the list-level edits of the view with coherent offsets and untouched surroundings, i.e. composes like fresh handles). POP: C10_pop_total (on every path free of \'?\' and \'#\' the backward scan never leaves the path; pop = pop_text), C10_pop_law_partial (a non-empty path whose last segment is not \'..\' loses exactly that segment and keeps its absoluteness; the excluded shape "//x" is the recorded finding, C10_K_pop_dslash_witness), C10_pop_pushes_dotdot, C10_pop_handle / C10_symbolic_push_handle / C10_symbolic_append_handle (index-level handle: no panic, frame untouched, path stays well-formed in its context, text-level result sym_push1 / sym_append1). C10_symbolic_append_law_partial / _trailing_partial (THE LIST SEMANTICS of symbolic_append on accumulated paths that are renderings of the specification walk\'s stack: exactly RFC 5.2.4 on the concatenated segment list). The list-level reading of the symbolic operations (what \'..\' removes when the path is a lone \'.\' etc.) is compared after every edit with list-semantics laws and frame checks: partial. Known findings K_pop_dslash, K_dot_only, K_G11.',
   note=TB + 'Interpretations I2, I9.'),
 'C13': dict(cat='proof', tech='Coq proof by reflection: inclusion certificates between the GENERATED validators (regenerated every run) and between the RFC grammars; conversions and cross-family agreement by differential testing',
   text='11 theorems C13_<a>_in_<b> on the DFAs translated from the current tree (every URI type is accepted by its IRI counterpart; Uri in UriRef; Iri in IriRef), plus C13_uri_is_iri, '
        'C13_uriref_is_iriref, C13_uri_iff_scheme, C13_iri_iff_scheme on the grammars (a reference is a full URI/IRI exactly when it has the scheme shape). Conversions (every as_/into_/try_into_/'
        'TryFrom/From) and "identical results in both families on ASCII input" (accessors, ==/cmp/hash stream, resolution, edits, normalisation, relative_to, suffix) are tested.',
   note='Trusted: Coq kernel + vm_compute; translator (validated by C01); harness. Conversions are tested, not proved.'),
 'C14': dict(cat='proof', tech='accept side by the C01 reflection theorems (re-checked for the tree); thin Coq model of "validate then wrap"; all textual routes by differential testing',
   text='Accept side: the 20 C01 theorems. Thin model theorems C14_accepts_iff_validate / C14_text_preserved / C14_payload_returned pin the intended behaviour of a route. The ~25 real routes '
        'per type (Display, Debug, as_str/as_bytes, into_*, to_owned, Clone, AsRef, FromStr, TryFrom, from_vec, serde str/bytes borrowed/owned, == str/String/[u8]) are exercised on '
        'valid and malformed strings: test-level for the plumbing (partial).',
   note='Trusted: as C01; serde/serde_json; the harness. Interpretation I7.'),
 'C15': dict(cat='proof', tech='Coq proof of the round trip on the claimed class (index-level models of relative_to and resolve composed, literal equality) + refutation of the full statement by a witness; model correspondence and the implementation\'s own == on generated pairs',
   text='Theorem C15_round_trip_partial: for ALL well-formed a, b with the same scheme and authority, absolute dot-free paths without an empty segment before the last one and a literal '
        'common directory prefix (a not an ancestor of b\'s directory, no "./" shield shape, no query inheritance), the index-level model of relative_to returns without panic a well-formed relative '
        'reference and the index-level model of resolve maps it back to a LITERALLY (composition of the strip_common / push_all / clear / set_query / set_fragment refinements with '
        'C06_resolution_is_rfc_partial and the list fact norm(X ++ bs ++ ..^|bs| ++ ss) = X ++ ss); C15_strip_common_literal discharges its strip_common hypothesis; C15_other_scheme / '
        'C15_other_authority: when schemes or authorities differ the result is a itself and resolves to itself; C15_round_trip_instance (hypotheses satisfiable). C15_full_statement_refuted: '
        'the property as stated (all pairs) is FALSE of the faithful model; eight classes are recorded as known findings. Outside the theorem\'s hypotheses (percent-encoded variants of the '
        'common prefix, shield shapes, authority on one side) the round trip is checked on generated pairs by model correspondence and the implementation\'s own ==: partial.',
   note=TB),
 'C16': dict(cat='proof', tech='Coq proof (soundness of the suffix loop in both directions; base is a prefix) + correspondence with a prefix oracle',
   text='Theorems C16_suffix_only_for_prefixes, C16_none_only_for_non_prefixes (the suffix loop reports a suffix only for percent-decoded segment prefixes and "none" only for non-prefixes), C16_suffix_exact (totality and exactness: when the first segments of the value match the prefix the loop returns, without panic, a path whose segments are exactly the remaining ones, up to "." shield segments), C16_base_is_prefix, C16_base_spec (for every well-formed reference base() = everything before the path ++ the path up to and including its last "/", by a proof of the backward scan of directory() for EVERY byte string). The scheme/authority/absoluteness conditions of the reference-level suffix and the carried query/fragment are compared with an oracle.',
   note=TB),
 'C17': dict(cat='proof', tech='accept language by the C01 theorems for the four types + thin Coq model; expansion observed by compiling one program per literal',
   text='What Coq decides is the accept language (C01 for uri, uri_reference, iri, iri_reference; thin model theorems C17_accepts_iff_runtime, C17_same_text). The expansion round trip '
        '(syn::LitStr -> quote! -> rustc) is observed: a generated crate with one macro invocation per line is built with JSON diagnostics (failing lines = rejected literals) and a second '
        'program compares every accepted value with the run-time parse: partial, no executable model of the compiler.',
   note='Trusted: as C01; cargo/rustc diagnostics; the generated crates.'),
 'C18': dict(cat='proof', tech='Coq proof of coherence between stored-offset and re-scanning accessors for every accepted text + correspondence with a shape oracle',
   text='Theorem C18_coherent: whenever the delimiter parser accepts, the text is "data:" media [";base64"] "," data over the media-type alphabet, and the owned accessors (stored offsets) '
        'and the borrowed re-scanning accessors (which therefore terminate) return the same media type, flag and data. Constructors (borrowed/owned/from_string/FromStr), URI validity and '
        'base64 decoding are compared with an independent oracle.',
   note=TB + 'base64 decoding is the external crate (oracle: Python base64).'),
 'C19': dict(cat='proof', tech='Coq proof of totality of the octet view on every valid component (inclusion certificates + induction); character view tested',
   text="Theorem C19_octets_total_partial (percent-decoding to octets never fails on a valid user info/host/segment/query/fragment of either family), C19_step_literal/_escape. The check also feeds values accepted by the validator of the CURRENT tree (walks through the translated automata, biased towards '%'). The character view (chars/len/decode/==) belongs to the external crate pct-str; it is exercised on every %XX pattern of the property text and through the accessors of generated references; its panics/lenient decoding on ill-formed octets are a recorded finding (K_pct_view): partial.",
   note=TB),
}

def check_entry(pid, c):
    return {'property_id': pid, 'quick_cmd': './check %s' % pid, 'thorough_cmd': './check %s --tier thorough' % pid,
            'evidence_file': '/verif/evidence/%s.json' % pid, 'replay_cmd_template': './check %s --replay {path}' % pid,
            'engine': 'coq-proof+correspondence',
            'level_claimed': {'category': c['cat'], 'text': c['text'], 'design_ref': 'DESIGN.md section 6, ' + pid},
            'level_note': c['note'], 'technique': c['tech']}

NA = {}
m = {'version': 1, 'setup_cmd': './setup.sh',
     'hooks': {'guard': 'iref_verif', 'enable': "RUSTFLAGS='--cfg iref_verif' (set by tools/vlib.py for every cargo call; no hook has been needed: all observation goes through the public API)",
               'baseline_off_cmd': 'cd /repo && cargo test --workspace --no-fail-fast --offline', 'source_commits': [], 'add_only': True},
     'engines': [{'name': 'coq-proof+correspondence', 'path': '/verif/check', 'serves_properties': sorted(CLAIMS),
                  'kind_free_text': 'Coq 8.16 theorems about a Gallina model; the model is tied to the source by a translator (generated validators, regenerated every run) and by '
                                    'differential correspondence checks (hand-written model extracted to OCaml vs the Rust implementation on the same cases)'}],
     'checks': [check_entry(p, CLAIMS[p]) for p in sorted(CLAIMS)],
     'not_applicable': [{'property_id': p['id'], 'reason': NA.get(p['id'], 'check not built yet in this session (work in progress, see DESIGN.md section 10); the technique applies')}
                        for p in props if p['id'] not in CLAIMS],
     'notes': 'See DESIGN.md. Known findings: known_findings.json. Seeded changes used to test the checks: seeded/.'}
json.dump(m, open(os.path.join(HERE, 'MANIFEST.json'), 'w'), indent=1)
print('claimed:', sorted(CLAIMS))
