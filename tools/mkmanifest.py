#!/usr/bin/env python3
"""Regenerates /verif/MANIFEST.json from the table below (one entry per claimed property)."""
import json, os
HERE = os.path.dirname(os.path.dirname(os.path.abspath(__file__)))
props = [json.loads(l) for l in open(os.path.join(HERE, 'properties.jsonl'))]

TB = ('Trusted: Coq 8.16.1 kernel incl. vm_compute; the hand-written Gallina model of the Rust functions (tied to the code by the correspondence run of '
      'this check: model extracted with ExtrOcamlBasic and implementation are run on the same generated cases and compared); the Rust harness; the '
      'generators bound what the correspondence sees. ')

CLAIMS = {
 'C01': dict(cat='proof', tech='Coq proof by reflection (Brzozowski derivatives + verified bisimulation-certificate checker) over DFAs regenerated from the source on every run',
   text='For each of the 20 validated types the DFA that rustc compiles (translated from the macro expansion of the current tree on every run) is proved, by a verified '
        'bisimulation-certificate checker run in the Coq kernel, to accept exactly the language of the RFC 3986/3987 ABNF rule, for all token lists with no length bound. '
        'Construction routes and the text/payload clause are tied to that DFA by differential testing.',
   note='Trusted: Coq kernel + vm_compute; translator expand2dfa.py and rustc -Zunpretty=expanded (validated each run against the real constructors); coq/Abnf.v as the '
        'reading of the RFCs; strict UTF-8 decoding of std modelled by the Python codec; routes/payload clause is tested, not proved.'),
 'C02': dict(cat='proof', tech='Coq proof (grammar factorisation by reflection + scanner inversion by induction) with model/implementation correspondence check',
   text='Theorems C02_uri_reference / C02_iri_reference / C02_uri / C02_iri: every string of the RFC language is compose(p) of valid components and on it reference_parts, '
        'abs_parts, scheme and each find_* scanner of the model return exactly the component ranges (absent vs empty distinguished); C02_slices: the ranges denote the components. '
        'The model is the hand transcription of common/parse.rs; the check runs model, implementation and the RFC decomposition oracle on generated references of both families.',
   note=TB + 'Grammar link: C01 (generated DFA = RFC regex) composes with these theorems.'),
 'C03': dict(cat='proof', tech='Coq proof (scanner inversion by induction over the authority text) with model/implementation correspondence check',
   text='Theorems C03_parts (all-at-once decomposition = ranges of the composed parts for every wf authority) and C03_find_host (host scanner at any offset). user_info() and port() '
        'individual scanners are modelled and compared with the implementation and the RFC oracle on generated authorities (not yet proved: partial).',
   note=TB + 'The bridge from the RFC authority grammar to wf_aparts is not yet proved (the correspondence oracle composes from RFC-valid parts).'),
 'C04': dict(cat='proof', tech='Coq proof (induction over setter sequences on top of the splice refinement) + model/implementation correspondence over random mutator sequences',
   text='Theorem C04_setter_sequences_partial: every finite sequence of the five setters with valid arguments, from any well-formed reference, runs without panic in the L0 model '
        '(bounds-checked indices, checked subtraction) and ends in compose p\' with p\' well-formed; C04_splice_total: the range splice never indexes out of bounds. Sequences mixing '
        'the path handle, authority handle, normalize and in-place resolve are executed on the implementation (dev profile, catch_unwind, re-validation after EVERY call) and on the '
        'extracted model of all of them; partial: their well-formedness preservation is proved only where C10/C11 theorems exist.',
   note=TB),
 'C05': dict(cat='proof', tech='Coq proof (scanner value lemmas + splice refinement replace_spec) + model/implementation correspondence with a relational oracle',
   text='Theorems C05_set_scheme/_authority/_path/_query/_fragment: on compose p the L0 model of each setter returns compose p\' with exactly that component replaced, all others '
        'identical, the written path related to the requested one by `permitted` (the three documented disambiguations under exactly their conditions), and p\' well-formed so that '
        'C02 reads it back; C05_replace: tail-preserving splice for any tail length.',
   note=TB),
 'C11': dict(cat='proof', tech='Coq proof (handle invariant Inv, scanner value on the window, splice refinement) + correspondence over call sequences through one handle',
   text='Theorems C11_view (under Inv the handle views exactly acompose a) and C11_set_host (no panic, Inv re-established for the updated authority, before/after untouched). '
        'set_userinfo / set_port and whole call histories are modelled (L0, with the `end` arithmetic of the code) and compared with the implementation after every call; partial: '
        'their Inv-preservation theorems are not yet proved.',
   note=TB),
 'C12': dict(cat='proof', tech='Coq proof (induction over an arbitrary next/next_back script) + model/implementation correspondence with the /-split oracle',
   text='Theorem C12_interleave: for every non-empty path pfx ++ join l and EVERY finite script of next/next_back calls the iterator model never panics and yields segment k from the '
        'front, n-m-1 from the back, None after the cursors meet. Derived queries (first, last, file_name, directory, parent, counts) are modelled (PathQ.v) and compared with the '
        'implementation and an independent split oracle.',
   note=TB),
 'C20': dict(cat='proof', tech='Coq proof of range ordering/containment over the scanner model; allocation counting and pointer-range observation in the harness',
   text='Theorems C20_reference_ranges / C20_authority_ranges: the ranges returned by the decomposition of any well-formed reference/authority are well-formed, ordered, disjoint and inside '
        'the input. That results are sub-slices (pointer identity) and that 0 heap allocations happen is OBSERVED by the harness (counting global allocator, inputs to 64 kB): a '
        'value-level Gallina model has no heap, so that half is test-level (partial).',
   note=TB + 'Allocation behaviour is runtime behaviour the model cannot exhibit.'),
}

def check_entry(pid, c):
    return {'property_id': pid, 'quick_cmd': './check %s' % pid, 'thorough_cmd': './check %s --tier thorough' % pid,
            'evidence_file': '/verif/evidence/%s.json' % pid, 'replay_cmd_template': './check %s --replay {path}' % pid,
            'engine': 'coq-proof+correspondence',
            'level_claimed': {'category': c['cat'], 'text': c['text'], 'design_ref': 'DESIGN.md section 6, ' + pid},
            'level_note': c['note'], 'technique': c['tech']}

NA = {}
m = {'version': 1, 'setup_cmd': './setup.sh',
     'hooks': {'guard': 'iref_verif', 'enable': "RUSTFLAGS='--cfg iref_verif' (set by tools/vlib.py for every cargo call; no hook has been needed: all observation goes through the public API)",
               'baseline_off_cmd': 'cd /repo && cargo test --workspace --no-fail-fast --offline', 'source_commits': [], 'add_only': True},
     'engines': [{'name': 'coq-proof+correspondence', 'path': '/verif/check', 'serves_properties': sorted(CLAIMS),
                  'kind_free_text': 'Coq 8.16 theorems about a Gallina model; the model is tied to the source by a translator (generated validators, regenerated every run) and by '
                                    'differential correspondence checks (hand-written model extracted to OCaml vs the Rust implementation on the same cases)'}],
     'checks': [check_entry(p, CLAIMS[p]) for p in sorted(CLAIMS)],
     'not_applicable': [{'property_id': p['id'], 'reason': NA.get(p['id'], 'check not built yet in this session (work in progress, see DESIGN.md section 10); the technique applies')}
                        for p in props if p['id'] not in CLAIMS],
     'notes': 'See DESIGN.md. Known findings: known_findings.json. Seeded changes used to test the checks: seeded/.'}
json.dump(m, open(os.path.join(HERE, 'MANIFEST.json'), 'w'), indent=1)
print('claimed:', sorted(CLAIMS))
