#!/usr/bin/env python3
"""C14: text is preserved through every route in and out (incl. serde), and every route in accepts exactly what the validating constructor accepts."""
import os, sys, json, random
sys.path.insert(0, os.path.dirname(os.path.abspath(__file__)))
from vlib import *
import c01

PCT_TYPES = {'%s_%s' % (fam, dn): (fam, comp) for fam in ('uri', 'iri') for comp, dn in (('userinfo', 'user_info'), ('host', 'host'), ('query', 'query'), ('fragment', 'fragment'))}

def main():
    R = Result('C14', 'proof')
    rnd = random.Random(R.seed ^ 0x14)
    thorough = R.tier == 'thorough'
    R.assumptions = ['accept side: the C01 theorems (generated validator = RFC language) re-checked for this tree', 'plumbing (Display, Debug, as_str/as_bytes, into_*, to_owned, Clone, AsRef, '
                     'FromStr, TryFrom, from_vec, serde str/bytes borrowed/owned, == str/String/[u8]): differential testing through the harness, not proved',
                     'borrowed serde deserialisation is only fed JSON strings without escapes (serde cannot borrow otherwise: interpretation I7)']
    props_check(R, 'C14')
    st = setup_check(R, need_model=False)
    if st is None:
        return R.finish()
    cdir, harness, _ = st
    coq_build(['C01Lib.vo'])
    if not c01.ensure_gendfa(R, cdir):
        return R.finish()
    dfas = json.load(open(os.path.join(cdir, 'dfa.json')))
    types = [t for t in c01.RULES if t in dfas]
    samples = {t: [] for t in types}
    res = c01.prove_all(cdir, types, samples, reuse=True)
    R.cov['obligations'] += len(c01.RULES)
    for t, rc, o, e, dt in res:
        closed, ax = assumptions_closed(o)
        if rc == 0 and closed >= 1 and ax == 0:
            R.cov['discharged'] += 1
        else:
            R.violation({'kind': 'accept side: theorem C01_%s no longer checks (see ./check C01 for the distinguishing string)' % t, 'coqc': (o + e)[-600:]}, no_input=True)
    R.cov['checker_cmd'] += 'coqc C01_<type>.v (20 generated files, shared with C01); '
    lines = []; meta = []
    n = 100000 if thorough else 1500
    for t in types:
        for b in c01.sample_strings(dfas[t], random.Random(rnd.random()), n):
            lines.append('parse\t%s\t%s' % (t, hexs(b))); meta.append(('in', t, b))
            tk = c01.tokens_of(dfas[t], b)
            if tk is not None and c01.dfa_run(dfas[t], tk):
                lines.append('out\t%s\t%s' % (t, hexs(b))); meta.append(('out', t, b))
                if t in PCT_TYPES:     # the owned route out XxxBuf::into_pct_string (harness op `pct`, last field)
                    lines.append('pct\t%s\t%s\t%s' % (PCT_TYPES[t][0], PCT_TYPES[t][1], hexs(b))); meta.append(('pctout', t, b))
    impl = run_lines(harness, lines)
    nviol = 0; classes = set()
    for (d, t, b), line, io in zip(meta, lines, impl):
        pr = []
        if d == 'pctout':
            f = io.split('\t')
            if io != 'ERR' and (len(f) < 7 or f[6] != hexs(b)):
                pr.append('route out into_pct_string(): %s' % ('panicked' if len(f) >= 7 and f[6] == 'PANIC' else 'text not preserved: ' + io[:120]))
            classes.add((d, t, b'%' in b, any(c > 127 for c in b)))
        elif d == 'in':
            tk = c01.tokens_of(dfas[t], b)
            want = 'A' if (tk is not None and c01.dfa_run(dfas[t], tk)) else 'R'
            if io == 'PANIC' or not all(ch == want or ch == '-' for ch in io):
                pr.append('routes in: %s (expected every route %s: A=accepted with the text kept, R=rejected with the input handed back)' % (io, want))
            classes.add((d, t, want, c01.tokens_of(dfas[t], b) is None))
        else:
            if io != 'ok':
                pr.append('routes out that do not yield the text / string comparisons that are not plain text comparison: %s' % io)
            classes.add((d, t, b'%' in b, any(c > 127 for c in b)))
        if pr:
            nviol += 1
            if nviol <= 300:
                R.violation({'kind': 'a textual route in or out does not preserve the text / does not agree with the validating constructor', 'type': t, 'input': b.decode('utf-8', 'replace'),
                             'input_hex': b.hex(), 'problems': pr, 'replay': "printf '%s\\n' | %s" % (line.replace('\t', '\\t'), harness)}, no_input=False)
    # the TryFrom / From / try_into_* / as_* routes BETWEEN the eight reference types are textual routes in as well: each must accept
    # exactly what the target's validating constructor accepts and keep the text (harness op conv, judged as in C13)
    import c13
    clines = []; cmeta = []
    for x in c13.DELIM_RICH + ['', 'a', 's:', 's:a', '//h', 'a/b:c', './a:b', 'a/b?x:y#z', 'slots?from=12:30', '#t=00:01:30', 'é', 's:é', '?é', '%41:b', 'a%3Ab']:
        clines.append('conv\t%s' % hexs(x)); cmeta.append(x.encode())
    for t in ('uri_reference', 'iri_reference'):
        for b in c01.sample_strings(dfas[t], random.Random(rnd.random()), 1000 if thorough else 150):
            clines.append('conv\t%s' % hexs(b)); cmeta.append(b)
    for b, line, io in zip(cmeta, clines, run_lines(harness, clines)):
        pr, V = c13.conv_problems(dfas, b, io)
        if pr:
            nviol += 1
            if nviol <= 300:
                R.violation({'kind': 'a textual route in or out does not preserve the text / does not agree with the validating constructor', 'type': 'conversion between reference types',
                             'input': b.decode('utf-8', 'replace'), 'input_hex': b.hex(), 'problems': pr[:4], 'replay': "printf '%s\\n' | %s" % (line.replace('\t', '\\t'), harness)}, no_input=False)
    R.extra['conversion_inputs'] = len(clines)
    R.cov['evaluations'] = len(lines) + len(clines)
    R.cov['distinct_nontrivial'] = len(classes)
    R.cov['rule'] = ('for each of the 20 types: strings from random walks through the translated validator, boundary edits and ill-formed UTF-8; every route in (13 per input) must accept '
                     'exactly when the validator does and keep text / payload; every route out of an accepted value (Display, Debug, as_str, as_bytes, to_owned, Clone, into_string, '
                     'into_bytes, AsRef, serde, into_pct_string for the four percent-encoded component types) must give the text; == with str/String/[u8] must be plain text comparison (incl. a different percent-spelling being unequal)')
    R.cov['samples'] = [{'type': m[1], 'hex': m[2].hex()[:60], 'result': io} for m, io in list(zip(meta, impl))[::max(1, len(meta) // 8)]][:8]
    R.cov['trusted_base'] = R.assumptions
    R.extra.update({'tree': os.path.basename(cdir)})
    return R.finish()

if __name__ == '__main__':
    sys.exit(main())
