#!/usr/bin/env python3
"""C04: any finite sequence of safe mutator calls leaves a well-formed buffer and never panics."""
import os, sys, json, random, itertools
sys.path.insert(0, os.path.dirname(os.path.abspath(__file__)))
from vlib import *
from gen import Gen, small_refs
import spec

def H(x):
    return '~' if x is None else hexs(x)

SEGS = ['', '.', '..', 'a', 'b:c', ':', '1a:b', '%2F', 'x', 'a..', '...']
def rand_op(g, kind, abs_kind):
    k = g.pick(['ss', 'sa', 'sp', 'sq', 'sf', 'au', 'ah', 'ap', 'pp', 'pp', 'po', 'po', 'pc', 'ps', 'ps', 'pa', 'pn', 'pn'])
    if k == 'ss':
        v = g.pick(['s', 'http'] if abs_kind else [None, None, 's', 'http'])
    elif k == 'sa':
        v = g.pick([None, None, '', 'h', 'u@h:1', '[::1]:80'])
    elif k == 'sp':
        v = g.pick(['', '/', 'x', '/x', 'a/b', '//x', '//', 'a:b', '1a:b', './a:b', '../x', '.', '/./', 'a/./', '/a/./']) if g.r.random() < 0.8 else g.anypath()
    elif k in ('sq', 'sf'):
        v = g.pick([None, None, '', 'q', 'a:b/c?d'])
    elif k == 'au':
        v = g.pick([None, '', 'u', 'longer-user:pw'])
    elif k == 'ah':
        v = g.pick(['', 'h', 'much.longer.host', '[::1]'])
    elif k == 'ap':
        v = g.pick([None, '', '8', '8080'])
    elif k in ('pp', 'ps'):
        v = g.pick(SEGS) if g.r.random() < 0.9 else g.segment()
    elif k == 'pa':
        v = g.pick(['', '/', 'a/b', '../x', './', '..', 'a//b', '/a/', 'b:c/d', '../../'])
    else:
        return k
    return '%s:%s' % (k, H(None if v is None else v.encode()))

def main():
    R = Result('C04', 'proof')
    rnd = random.Random(R.seed)
    thorough = R.tier == 'thorough'
    R.assumptions = ['Coq kernel', 'hand-written L0 model of utils.rs, common/reference.rs, path_mut.rs, authority_mut.rs (coq/Splice.v ... PathMut.v, Reference.v), tied to the '
                     'code by this run', 'extraction + ocamlopt', 'Rust harness (dev profile: overflow checks on; catch_unwind around every call)']
    props_check(R, 'C04')
    st = setup_check(R)
    if st is None:
        return R.finish()
    cdir, harness, model = st
    lines = []; meta = []
    n = 150000 if thorough else 4000
    for fam in ('uri', 'iri'):
        g = Gen(random.Random(rnd.random()), fam)
        for i in range(n // 2):
            r = g.r.random()
            if r < 0.06:
                p = {'scheme': None, 'authority': None, 'path': '', 'query': None, 'fragment': None}     # Default
            elif r < 0.12:
                p = {'scheme': g.scheme(), 'authority': None, 'path': '', 'query': None, 'fragment': None}  # from_scheme
            else:
                p = g.parts()
                if g.r.random() < 0.5:
                    p['path'] = ('/' if p['authority'] is not None or g.r.random() < 0.5 else '') + '/'.join(g.pick(SEGS + ['a', 'b']) for _ in range(g.pick([0, 1, 2, 3])))
                    if p['authority'] is None and p['path'].startswith('//'): p['path'] = '/a' + p['path'][1:]
                    if p['authority'] is None and p['scheme'] is None and ':' in p['path'].split('/')[0]: p['path'] = './' + p['path']
                    if p['authority'] is not None and p['path'] and not p['path'].startswith('/'): p['path'] = '/' + p['path']
            abs_kind = p['scheme'] is not None and g.r.random() < 0.4
            kind = fam + ('' if abs_kind else 'ref')
            nops = g.pick([1, 2, 2, 3, 3, 4, 5, 8]) if not thorough else g.pick([1, 2, 3, 4, 6, 8, 12, 20])
            ops = [rand_op(g, kind, abs_kind) for _ in range(nops)]
            lines.append('ops\t%s\t%s\t%s' % (kind, hexs(Gen.compose(p)), '\t'.join(ops)))
            meta.append((kind, Gen.compose(p), ops))
        for i in range(n // 8):
            path = g.pick(['', '/', 'a', '/a', 'a/', '/./', './', '//', 'a/./', '/a/./', '..', 'b:c', './b:c']) if g.r.random() < 0.6 else g.anypath()
            ops = [rand_op(g, 'p', False) for _ in range(g.pick([1, 2, 3, 4, 6]))]
            ops = [o for o in ops if o[:2] in ('pp', 'po', 'pc', 'ps', 'pa', 'pn')] or ['po']
            lines.append('pathops\t%spath\t%s\t%s' % (fam[0], hexs(path), '\t'.join(ops)))
            meta.append((fam[0] + 'path', path, ops))
        # several edits through ONE authority handle (the handle keeps its own offsets between calls)
        for i in range(n // 6):
            p = g.parts()
            p['authority'] = g.pick(['h', 'example.org', 'u@h', 'h:80', 'u:p@h:8080', '', '[::1]', 'u@[::1]:1'] + (['é', 'u@ü:1'] if fam == 'iri' else []))
            if p['path'] and not p['path'].startswith('/'): p['path'] = '/' + p['path']
            abs_kind = p['scheme'] is not None and g.r.random() < 0.4
            kind = fam + ('' if abs_kind else 'ref')
            ops = []
            for _ in range(g.pick([2, 2, 3, 4, 6])):
                o = rand_op(g, kind, abs_kind)
                while o[:2] not in ('au', 'ah', 'ap'):
                    o = rand_op(g, kind, abs_kind)
                ops.append(o)
            lines.append('authops\t%s\t%s\t%s' % (kind, hexs(Gen.compose(p)), '\t'.join(ops)))
            meta.append((kind + ' one authority handle', Gen.compose(p), ops))
        # in-place resolution
        for i in range(n // 8):
            base = g.parts(scheme=True); r = g.parts()
            if g.r.random() < 0.6:
                r['path'] = g.pick(['', 'x', '../x', './', '..', '/x/..', 'a/../..', '../../../x', '/./', 'x/.', '/a/..//%41/.', '/a/..//%41/..', 'a/..//%C3%A9/.', '/x/..//b:c/.', '/a/..//%41%42/x/..'] + (['/a/..//é/.', '/a/..//日本/..'] if fam == 'iri' else [])); r['authority'] = None
                if r['scheme'] is None and ':' in r['path'].split('/')[0]: r['path'] = './' + r['path']
            lines.append('resolve\t%s\t%s\t%s' % (fam, hexs(Gen.compose(base)), hexs(Gen.compose(r))))
            meta.append((fam + ' resolve', Gen.compose(base), [Gen.compose(r)]))
    if thorough:
        OPS = ['ss:~', 'sa:~', 'sa:' + hexs('h'), 'sp:' + hexs('a:b'), 'sp:' + hexs('//x'), 'sp:-', 'pp:-', 'pp:' + hexs('b:c'), 'po', 'pc', 'ps:' + hexs('..'), 'pn', 'ah:' + hexs('[::1]'), 'ap:~', 'au:' + hexs('uu')]
        for s in small_refs(nmax=2, queries=(None, 'q'), frags=(None,)):
            for ops in itertools.product(OPS, repeat=2):
                lines.append('ops\turiref\t%s\t%s' % (hexs(s), '\t'.join(ops))); meta.append(('uriref', s, list(ops)))
    impl = run_lines(harness, lines)
    mod = run_lines(model, lines)
    nviol = 0; diffs = 0; classes = set(); npanic = 0
    for (kind, text, ops), line, io, mo in zip(meta, lines, impl, mod):
        pr = []
        if io.startswith('ERR'):
            continue
        if 'PANIC' in io:
            pr.append('a safe mutator panicked')
        if line.startswith('ops'):
            snaps = io.split('\t|\t')
            for i, s in enumerate(snaps[1:], 1):
                f = s.split('\t')
                if len(f) >= 2 and f[1] != '1':
                    pr.append('after call %d (%s) the buffer %r is not well-formed / does not re-parse as %s' % (i, ops[i - 1], unhex(f[0]), kind)); break
        elif line.startswith('authops'):
            secs = io.split('\t|\t')
            if len(secs) == 3:
                f = secs[2].split('\t')
                if f[1] != '1':
                    pr.append('after the edits through one authority handle the buffer %r does not re-parse as %s' % (unhex(f[0]), kind.split()[0]))
            elif io not in ('ERR', 'NOAUTH'):
                pr.append('unexpected output ' + io[:80])
        elif line.startswith('pathops'):
            secs = io.split('\t|\t')
            if len(secs) == 2 and secs[1].split('\t')[-1] != '1':
                pr.append('path buffer %r does not re-parse' % unhex(secs[1].split('\t')[0]))
        else:
            f = io.split('\t')
            if len(f) >= 4 and f[3] != '1':
                pr.append('in-place resolution left %r, which does not re-parse' % (unhex(f[1]) if f[1] != 'PANIC' else f[1]))
        classes.add((kind, tuple(o[:2] for o in ops)[:4]))
        if pr:
            nviol += 1
            if nviol <= 300:
                R.violation({'kind': 'safe mutation broke well-formedness or panicked', 'type': kind, 'initial': text, 'calls': ops, 'problems': pr,
                             'implementation': io[:2000], 'replay': "printf '%s\\n' | %s" % (line.replace('\t', '\\t'), harness)}, no_input=False)
        if line.startswith('resolve'):
            same = (io.split('\t') + [''])[1] == mo
        else:
            strip = lambda s: [x for i, x in enumerate(s.split('\t')) if x not in ('0', '1', '-') or i == 0]
            same = strip(io) == strip(mo)
        if not same:
            diffs += 1
            if diffs <= 5:
                R.extra.setdefault('correspondence_diffs', []).append({'case': line, 'impl': io[:1500], 'model': mo[:1500]})
    if diffs and not R.violations:
        R.violation({'kind': 'correspondence broken: the mutator models and the implementation disagree, but no implementation output was ill-formed',
                     'first': R.extra.get('correspondence_diffs', [])[:3]}, no_input=True)
    R.cov['evaluations'] = len(lines)
    R.cov['distinct_nontrivial'] = len(classes)
    R.cov['rule'] = ('random sequences of 1-8 (thorough: up to 20) safe mutator calls (five setters incl. removal, three authority-handle editors, push/pop/clear/symbolic_push/'
                     'symbolic_append/normalize, in-place resolve) on valid initial buffers of UriBuf/UriRefBuf/IriBuf/IriRefBuf/PathBuf incl. Default and from_scheme; after EVERY '
                     'call the text is re-validated (UTF-8 + checked constructor of the same type); distinct_nontrivial = distinct (type, first four call kinds)')
    R.cov['samples'] = [{'case': l.replace('\t', ' ')[:200], 'impl': io.replace('\t', ' ')[:200]} for l, io in list(zip(lines, impl))[::max(1, len(lines) // 6)]][:6]
    R.cov['trusted_base'] = R.assumptions
    R.extra.update({'model_vs_impl_differences': diffs, 'tree': os.path.basename(cdir)})
    return R.finish()

if __name__ == '__main__':
    sys.exit(main())
