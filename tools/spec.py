#!/usr/bin/env python3
"""Independent transcription of RFC 3986 sections 5.2/5.3 and of the segment-level definitions the
properties use.  Works on `bytes`.  It is the ORACLE the checks evaluate on implementation output;
it shares no code with the Coq model."""
import re, itertools
APPB = re.compile(rb'^(([^:/?#]+):)?(//([^/?#]*))?([^?#]*)(\?([^#]*))?(#(.*))?$', re.S)
def parse(s):
    m = APPB.match(s); return (m.group(2), m.group(4), m.group(5), m.group(7), m.group(9))
def compose(p):
    s, a, path, q, f = p; out = b''
    if s is not None: out += s + b':'
    if a is not None: out += b'//' + a
    out += path
    if q is not None: out += b'?' + q
    if f is not None: out += b'#' + f
    return out
def is_abs(p): return p.startswith(b'/')
def segs(p):
    if p in (b'', b'/'): return []
    return (p[1:] if p.startswith(b'/') else p).split(b'/')
def render(ab, l): return (b'/' if ab else b'') + b'/'.join(l)
def norm(ab, l):
    st = []
    for s in l:
        if s == b'.': continue
        if s == b'..':
            if st and st[-1] != b'..': st.pop()
            elif not ab: st.append(s)
        else: st.append(s)
    return st
def nodot(l): return [s for s in l if s != b'.']
def last_is_dot(l): return bool(l) and l[-1] in (b'.', b'..')
def rds(p):
    """RFC 3986 5.2.4 on the segment list (Errata 4547 reading for relative paths, DESIGN I8)"""
    ab = is_abs(p); l = segs(p); n = norm(ab, l)
    if last_is_dot(l) and n: n = n + [b'']
    if not ab and len(n) >= 2 and n[0] == b'':
        return render(False, [b'.'] + n)
    return render(ab, n)
def merge(base, rpath):
    bs, ba, bp, bq, bf = base
    if ba is not None and bp == b'': return b'/' + rpath
    i = bp.rfind(b'/')
    return bp[:i+1] + rpath
def rfc_resolve(base, r):
    bs, ba, bp, bq, bf = base; rs, ra, rp, rq, rf = r
    if rs is not None: return (rs, ra, rds(rp), rq, rf)
    if ra is not None: return (bs, ra, rds(rp), rq, rf)
    if rp == b'':
        return (bs, ba, bp, rq if rq is not None else bq, rf)
    if rp.startswith(b'/'): return (bs, ba, rds(rp), rq, rf)
    return (bs, ba, rds(merge(base, rp)), rq, rf)
def strip_lead_empty(l):
    i = 0
    while i < len(l) and l[i] == b'': i += 1
    return l[i:]
def resolve_target(base_s, ref_s):
    T = rfc_resolve(parse(base_s), parse(ref_s))
    t = compose(T)
    return T, t, parse(t) == T
def resolve_ok(base_s, ref_s, out_s):
    T, t, unamb = resolve_target(base_s, ref_s)
    if unamb:
        return out_s == t, t
    o = parse(out_s)
    ok = (o[0], o[1], o[3], o[4]) == (T[0], T[1], T[3], T[4]) and is_abs(o[2]) == is_abs(T[2]) and \
         strip_lead_empty(norm(is_abs(o[2]), segs(o[2]))) == strip_lead_empty(norm(is_abs(T[2]), segs(T[2])))
    return ok, t + b'  (ambiguous)'
HEX = b'0123456789abcdefABCDEF'
def dec(s):
    out = bytearray(); i = 0
    while i < len(s):
        if s[i] == 0x25 and i + 2 < len(s) + 0 and s[i+1] in HEX and s[i+2] in HEX:
            out.append(int(s[i+1:i+3], 16)); i += 3
        else:
            out.append(s[i]); i += 1
    return bytes(out)
def split_auth(a):
    """RFC 3986 3.2: [userinfo @] host [: port]"""
    ui = None
    if b'@' in a:
        ui, a = a.split(b'@', 1)
    if a.startswith(b'['):
        j = a.find(b']')
        host, rest = a[:j+1], a[j+1:]
    else:
        j = a.find(b':')
        host, rest = (a, b'') if j < 0 else (a[:j], a[j:])
    port = rest[1:] if rest.startswith(b':') else None
    return ui, host, port
def canon(s):
    """the documented normalising equivalence (C07): two values are equal iff their canon tuples are"""
    sch, au, p, q, f = parse(s)
    ca = None
    if au is not None:
        ui, h, po = split_auth(au)
        ca = (None if ui is None else dec(ui), dec(h), po)
    return (sch, ca, is_abs(p), tuple(dec(x) for x in norm(is_abs(p), segs(p))), None if q is None else dec(q), None if f is None else dec(f))
def canon_path(p):
    return (is_abs(p), tuple(dec(x) for x in norm(is_abs(p), segs(p))))
def strict_utf8(b):
    try:
        b.decode('utf-8'); return True
    except UnicodeDecodeError:
        return False
