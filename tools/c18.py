#!/usr/bin/env python3
"""C18: data URL views are coherent and reassemble the original."""
import os, sys, json, random, re, base64, binascii
sys.path.insert(0, os.path.dirname(os.path.abspath(__file__)))
from vlib import *
import c01

SHAPE = re.compile(rb'^data:([A-Za-z0-9/!#$&\-+^_.]*)(;base64)?,(.*)$', re.S)

def b64(data):
    try:
        return base64.b64decode(data, validate=True)
    except (binascii.Error, ValueError):
        return None

def main():
    R = Result('C18', 'proof')
    rnd = random.Random(R.seed)
    thorough = R.tier == 'thorough'
    R.assumptions = ['Coq kernel', 'hand-written model coq/DataUrl.v of uri/scheme/data.rs (delimiter parser + re-scanning accessors), tied to the code by this run',
                     'URI validity of the text: the translated URI validator (C01)', 'C18_scheme_is_data also rests on the scanner model coq/Parse.v / Parse2.v and the grammar factorisation of C02 (tied to the code by the C02 check)', 'base64 decoding is the external crate base64 0.22 (oracle: Python base64, strict)', 'Rust harness']
    props_check(R, 'C18')
    st = setup_check(R)
    if st is None:
        return R.finish()
    cdir, harness, model = st
    dfas = json.load(open(os.path.join(cdir, 'dfa.json')))
    MT = ['', 'text/plain', 'a', 'image/png', 'A.b-c+d_e^f', 'text/plain#x', 'x$y&z!', 'text/plain;charset=utf-8', 'a b', 'a%20b', 'é', 'a,b', 'a;b',
          'base64', 'application/x-base64', 'text/plain;name=base64', 'xbase64', 'a/b;base64=1']   # the flag's letters inside the media type, without the ';' delimiter or not at the end
    DATA = ['', 'hi', 'aGVsbG8=', 'aGVsbG8', 'QQ==', '%41%42', 'a,b', 'see;base64,aGVsbG8=', 'x;y', 'a#frag', 'a?b', '====', 'aGVs bG8=', 'é']
    cases = []
    for mt in MT:
        for flag in ('', ';base64', ';base64x', ';BASE64', ';base6', ';', ';base64;'):
            for d in DATA:
                for pre in ('data:', 'DATA:', 'data', 'dat:', 'data::'):
                    if pre != 'data:' and rnd.random() < 0.7:
                        continue
                    cases.append((pre + mt + flag + ',' + d).encode())
                cases.append(('data:' + mt + flag + d).encode())
    # long components: lengths around the sizes of the integer types an implementation might store offsets in (u8, u16)
    long_cases = []
    for n in (254, 255, 256, 257, 300, 511, 512, 65534, 65535, 65536, 65537, 70000):
        for flag in ('', ';base64'):
            long_cases.append(('data:' + ('text/' + 'x' * n)[:n] + flag + ',abc').encode())
            long_cases.append(('data:text/plain' + (';p=' + 'v' * n) + flag + ',abc').encode())
            long_cases.append(('data:text/plain' + flag + ',' + 'QUJD' * (n // 4 + 1)).encode())
    cases += long_cases
    for b in c01.sample_strings(dfas['uri'], random.Random(rnd.random()), 20000 if thorough else 800):
        cases.append(b)
        if rnd.random() < 0.5:
            cases.append(b'data:' + b[b.find(b':') + 1:])
    if not thorough:
        rnd.shuffle(cases); cases = long_cases + [c for c in cases if c not in set(long_cases)][:6000]
    lines = ['dataurl\t%s' % hexs(b) for b in cases]
    impl = run_lines(harness, lines)
    mod = run_lines(model, lines)
    nviol = 0; diffs = 0; classes = set(); nacc = 0
    for b, line, io, mo in zip(cases, lines, impl, mod):
        pr = []
        f = io.split('\t')
        tk = c01.tokens_of(dfas['uri'], b)
        is_uri = tk is not None and c01.dfa_run(dfas['uri'], tk)
        m = SHAPE.match(b) if is_uri else None
        if f[0] == 'nonutf8':
            if f[1] != '0': pr.append('owned constructor accepted ill-formed UTF-8')
            classes.add(('nonutf8',))
        elif 'PANIC' in io:
            pr.append('panic')
        else:
            br, ow = f[0], f[1]
            acc_b, acc_o = br.startswith('ACC'), ow.startswith('ACC')
            if acc_b != acc_o: pr.append('borrowed constructor %s, owned constructor %s' % ('accepts' if acc_b else 'rejects', 'accepts' if acc_o else 'rejects'))
            if f[2] != ('1' if acc_o else '0') or f[3] != f[2]: pr.append('from_string / FromStr disagree with new')
            if (m is not None) != acc_b: pr.append('constructor %s, but the text %s a valid URI of the shape data:<media-type>[;base64],<data>' % ('accepts' if acc_b else 'rejects', 'is' if m else 'is not'))
            if acc_b and acc_o and m is not None:
                nacc += 1
                want_media, want_b64, want_data = m.group(1), m.group(2) is not None, m.group(3)
                dec_want = b64(want_data) if want_b64 else want_data
                exp = ['ACC', '1', ('~' if want_media == b'' else hexs(want_media)), '1' if want_b64 else '0', hexs(want_data),
                       ('DECODE-ERR' if dec_want is None else hexs(dec_want)), ('~' if want_media == b'' else hexs(want_media)), '1' if want_b64 else '0', hexs(want_data)]
                for name, got in (('borrowed', br.split(',')), ('owned', ow.split(','))):
                    if got != exp:
                        pr.append('%s form reports %s, expected %s' % (name, got, exp))
                if br != ow: pr.append('borrowed and owned views differ')
            classes.add((is_uri, m is not None, None if m is None else (m.group(1) == b'', m.group(2) is not None, m.group(3) == b'')))
            # correspondence with the model of the delimiter parser
            macc = mo.startswith('ACC') and is_uri
            if macc != acc_o or (macc and (mo.split(',')[1:4] != ow.split(',')[2:5] or mo.split(',')[4:7] != br.split(',')[2:5])):
                diffs += 1
                if diffs <= 5: R.extra.setdefault('correspondence_diffs', []).append({'case': b.decode('utf-8', 'replace'), 'impl': io[:300], 'model': mo[:200]})
        if pr:
            nviol += 1
            if nviol <= 300:
                R.violation({'kind': 'data URL views are not coherent', 'input': b.decode('utf-8', 'replace'), 'problems': pr[:4], 'implementation': io[:500], 'model': mo[:200],
                             'replay': "printf '%s\\n' | %s" % (line.replace('\t', '\\t'), harness)}, no_input=False)
    if diffs and not R.violations:
        R.violation({'kind': 'correspondence broken: the data URL model and the implementation disagree, but the oracle held', 'first': R.extra.get('correspondence_diffs', [])[:3]}, no_input=True)
    R.cov['evaluations'] = len(cases)
    R.cov['distinct_nontrivial'] = len(classes)
    R.cov['rule'] = ('strings around the shape: prefix case/typos, media-type alphabet boundaries (parameters, spaces, "#", non-ASCII), ";" not followed by "base64,", several "," and ";", '
                     'data with ";base64,", invalid base64, percent-escapes; plus random walks through the URI validator; borrowed and owned constructors, from_string, FromStr, and all '
                     'accessors of both forms (the re-scanning accessors are only called on accepted values); distinct_nontrivial = distinct (URI?, shape?, media empty?, base64?, data empty?)')
    R.cov['samples'] = [{'input': b.decode('utf-8', 'replace')[:80], 'impl': io[:160].replace('\t', ' ')} for b, io in list(zip(cases, impl))[::max(1, len(cases) // 6)]][:6]
    R.cov['trusted_base'] = R.assumptions
    R.extra.update({'model_vs_impl_differences': diffs, 'accepted_values': nacc, 'tree': os.path.basename(cdir)})
    return R.finish()

if __name__ == '__main__':
    sys.exit(main())
