#!/usr/bin/env python3
"""seedmatrix.py [seed ...] [--checks C02,C05]: runs the registered checks against each seeded change, in a scratch worktree
(VERIF_REPO), never touching /repo; evidence goes to a scratch directory.  Records which check reports a violation in
seeded/<id>/meta.json (detected_by) and prints a table."""
import os, sys, json, subprocess, shutil, tempfile, re
HERE = os.path.dirname(os.path.dirname(os.path.abspath(__file__)))
args = sys.argv[1:]
checks = None
if '--checks' in args:
    i = args.index('--checks'); checks = args[i + 1].split(','); del args[i:i + 2]
seeds = args or sorted(os.listdir(os.path.join(HERE, 'seeded')))
claimed = [c['property_id'] for c in json.load(open(os.path.join(HERE, 'MANIFEST.json')))['checks']]
for sd in seeds:
    d = os.path.join(HERE, 'seeded', sd)
    if not os.path.exists(os.path.join(d, 'patch.diff')):
        continue
    meta = json.load(open(os.path.join(d, 'meta.json')))
    wt = tempfile.mkdtemp(prefix='seedwt-')
    ev = tempfile.mkdtemp(prefix='seedev-')
    os.rmdir(wt)
    subprocess.run(['git', '-C', '/repo', 'worktree', 'add', '-q', '--detach', wt, 'HEAD'], check=True)
    try:
        r = subprocess.run(['git', '-C', wt, 'apply', os.path.join(d, 'patch.diff')], capture_output=True, text=True)
        if r.returncode != 0:
            print(sd, 'patch does not apply', r.stderr[:200]); continue
        env = dict(os.environ, VERIF_REPO=wt, VERIF_EVID=ev)
        todo = checks or ([meta['property']] if meta['property'] in claimed else []) + [c for c in claimed if c != meta['property']]
        row = []
        for c in todo:
            p = subprocess.run([os.path.join(HERE, 'check'), c], capture_output=True, text=True, env=env, cwd=HERE)
            viol = [l for l in p.stdout.split('\n') if l.startswith('VIOLATION')]
            noinp = any('no-failing-input-found' in l for l in viol)
            res = 'VIOLATION' + ('(no-input)' if noinp and all('no-failing-input-found' in l for l in viol) else '') if viol else ('ok' if p.returncode == 0 else 'rc=%d' % p.returncode)
            first = None
            if viol:
                m = re.search(r'replay=(\S+)', viol[0])
                try:
                    rep = json.load(open(m.group(1)))
                    first = {k: (v if not isinstance(v, str) else v[:300]) for k, v in rep.items() if k in ('kind', 'input', 'buffer', 'type', 'calls', 'problems', 'path', 'base', 'reference', 'a', 'b', 'setter', 'value', 'word_text', 'initial')}
                except Exception:
                    pass
            meta.setdefault('detected_by', {})[c] = {'result': res, 'first_replay': first}
            row.append('%s=%s' % (c, res))
        json.dump(meta, open(os.path.join(d, 'meta.json'), 'w'), indent=1)
        print(sd, ' '.join(row), flush=True)
    finally:
        subprocess.run(['git', '-C', '/repo', 'worktree', 'remove', '--force', wt])
        shutil.rmtree(ev, ignore_errors=True)
