#!/usr/bin/env python3
"""C20: borrowed parsing and every read-only accessor are zero-copy and allocation-free."""
import os, sys, json, random
sys.path.insert(0, os.path.dirname(os.path.abspath(__file__)))
from vlib import *
from gen import Gen
import spec

def rng_ok(tok, n, allow_const=()):
    if tok == '~':
        return True
    if tok.startswith('!'):
        return unhex(tok[1:]) in allow_const
    lo, hi = tok.split(':')
    return 0 <= int(lo) <= int(hi) <= n

def main():
    R = Result('C20', 'proof')
    rnd = random.Random(R.seed)
    thorough = R.tier == 'thorough'
    R.assumptions = ['Coq kernel (range theorems C20_reference_ranges, C20_authority_ranges over the scanner model)',
                     'allocation counting: a counting #[global_allocator] in the harness around the parse and accessor calls (observation, not proof: a Gallina model has no heap)',
                     'pointer identity: every returned slice is printed as an offset range into the input buffer']
    props_check(R, 'C20')
    st = setup_check(R, need_model=False)
    if st is None:
        return R.finish()
    cdir, harness, _ = st
    lines = []; meta = []
    n = 60000 if thorough else 2500
    big = 65536
    for fam in ('uri', 'iri'):
        g = Gen(random.Random(rnd.random()), fam)
        for i in range(n):
            p = g.parts()
            if i % 50 == 0:      # far larger than any inline buffer (16 segments / 512 bytes)
                p['path'] = ('/' if p['authority'] is not None or i % 100 == 0 else 'r/') + '/'.join(g.pick(['a', 'bb', '', '.', '..', 'x' * 40]) for _ in range(g.pick([40, 400, 3000])))
                if p['authority'] is None and p['path'].startswith('//'): p['path'] = '/z' + p['path'][1:]
                if p['authority'] is not None and not p['path'].startswith('/'): p['path'] = '/' + p['path']
                p['query'] = 'q' * g.pick([0, 700, big])
            b = Gen.compose(p).encode()
            kind = fam + ('' if p['scheme'] is not None and g.r.random() < 0.5 else 'ref')
            lines.append('ref\t%s\t%s' % (kind, hexs(b))); meta.append(('ref', b))
            if p['authority'] is not None:
                lines.append('refauth\t%s\t%s' % (kind, hexs(b))); meta.append(('refauth', b))
                lines.append('auth\t%s\t%s' % (fam, hexs(p['authority']))); meta.append(('auth', p['authority'].encode()))
            lines.append('base\t%s\t%s' % (fam, hexs(b))); meta.append(('base', b))
            pb = p['path'].encode()
            lines.append('path\t%s\t%s\t%s' % (fam, hexs(pb), ''.join(g.pick('fb') for _ in range(min(8, len(pb.split(b'/')) + 1))))); meta.append(('path', pb))
    impl = run_lines(harness, lines)
    nviol = 0; classes = set()
    for (op, b), line, io in zip(meta, lines, impl):
        pr = []; n_ = len(b); f = io.split('\t')
        if io in ('PANIC',) or io.startswith('ERR'):
            pr.append('panic or valid input rejected: ' + io)
        elif op == 'ref':
            if f[0] != '0:%d' % n_: pr.append('the parsed value does not occupy exactly the input')
            toks = f[1:6]
            if not all(rng_ok(t, n_) for t in toks): pr.append('a component is not a sub-slice of the input: %s' % toks)
            else:
                pts = []
                for t in toks:
                    if t != '~':
                        lo, hi = map(int, t.split(':')); pts += [lo, hi]
                if pts != sorted(pts): pr.append('components overlap or are out of order: %s' % toks)
            if f[9] != '0': pr.append('%s heap allocation(s) while parsing borrowed and reading the components' % f[9])
        elif op == 'refauth':
            if io != '~' and not all(rng_ok(t, n_) for t in f[:3]): pr.append('authority part not a sub-slice of the input')
        elif op == 'auth':
            if not all(rng_ok(t, n_) for t in f[:3]): pr.append('authority part not a sub-slice')
            if f[5] != '0': pr.append('%s heap allocation(s) in authority accessors' % f[5])
        elif op == 'base':
            if not rng_ok(f[0], n_) or not f[0].startswith('0:'): pr.append('base() is not a prefix slice of the input')
            if f[3] != '0': pr.append('%s heap allocation(s) in base()' % f[3])
        elif op == 'path':
            items = f[0].split(',') if f[0] else []
            consts = (b'', b'/', b'/./')
            if not all(rng_ok(t, n_) for t in items + f[4:7]): pr.append('a segment / first / last / file_name is not a sub-slice')
            if not all(rng_ok(t, n_, consts) for t in f[7:10]): pr.append('directory / parent is neither a sub-slice nor a library constant')
            if f[10] != '0': pr.append('%s heap allocation(s) while iterating / querying the path' % f[10])
        classes.add((op, min(n_ // 64, 20), any(c > 127 for c in b), b.count(b'/') > 16))
        if pr:
            nviol += 1
            if nviol <= 300:
                R.violation({'kind': 'borrowed access copied, allocated or returned a slice outside the input', 'op': op, 'input_len': n_, 'input': b[:300].decode('utf-8', 'replace'),
                             'problems': pr, 'implementation': io[:500], 'replay': "printf '%s\\n' | %s" % (line.replace('\t', '\\t')[:100000], harness)}, no_input=False)
    R.cov['evaluations'] = len(lines)
    R.cov['distinct_nontrivial'] = len(classes)
    R.cov['rule'] = ('valid references/authorities/paths of both families incl. multi-byte text, > 16 segments, > 512 bytes and 64 kB queries; every read-only accessor '
                     '(components, parts, authority parts, segments in both directions, first/last/file_name/directory/parent/parent_or_empty, base); each result must be a pointer '
                     'range inside the input (or a library constant for directory/parent), ordered, with 0 allocations; distinct_nontrivial = distinct (op, size bucket, non-ASCII, many segments)')
    R.cov['samples'] = [{'case': l[:120].replace('\t', ' '), 'impl': io[:160].replace('\t', ' ')} for l, io in list(zip(lines, impl))[::max(1, len(lines) // 6)]][:6]
    R.cov['trusted_base'] = R.assumptions
    R.extra.update({'max_input_len': max(len(b) for _, b in meta), 'tree': os.path.basename(cdir)})
    return R.finish()

if __name__ == '__main__':
    sys.exit(main())
