#!/bin/sh
# tools/mk.sh <targets...>: regenerate _CoqProject/Makefile and build targets under the same lock the checks use
cd /verif/coq
exec flock /verif/.cache/coq.lock sh -c '(echo "-Q . V"; ls *.v) > _CoqProject && coq_makefile -f _CoqProject -o Makefile >/dev/null 2>&1; timeout 3000 make -j16 "$@" 2>&1 | grep -v "^COQ\|Closed under the global"' mk "$@"
