#!/usr/bin/env python3
"""C08: Eq, Ord and Hash agree with each other and across all views (owned/borrowed, URI/IRI vs reference)."""
import os, sys, json, random, itertools
sys.path.insert(0, os.path.dirname(os.path.abspath(__file__)))
from vlib import *
from gen import Gen
import spec, cmpgen
import c07

REV = {'L': 'G', 'G': 'L', 'E': 'E'}

def main():
    R = Result('C08', 'proof')
    rnd = random.Random(R.seed)
    thorough = R.tier == 'thorough'
    R.assumptions = ['Coq kernel', 'hand-written model coq/Cmp.v incl. the exact Hasher::write_* stream, tied to the code by this run (streams compared token by token)',
                     'derive(PartialEq, PartialOrd, Ord, Hash) = lexicographic over fields in declaration order, Option: None < Some, discriminant hashed as isize (std behaviour, observed)',
                     'extraction + ocamlopt', 'Rust harness (recording Hasher)']
    props_check(R, 'C08')
    st = setup_check(R)
    if st is None:
        return R.finish()
    cdir, harness, model = st
    cases = c07.build_cases(rnd, thorough)
    lines = ['eq\t%s\t%s\t%s' % (k, hexs(a), hexs(b)) for k, a, b in cases]
    impl = run_lines(harness, lines)
    mod = run_lines(model, lines)
    nviol = 0; diffs = 0; classes = set()
    cmpmap = {}
    for (kind, a, b), line, io, mo in zip(cases, lines, impl, mod):
        if io.startswith('ERR'):
            continue
        f = io.split('\t'); pr = []
        if 'P' in ''.join(f[:11]) or f[11] == 'PANIC':
            pr.append('comparison / hashing panicked')
        else:
            e, c1, c2, pc, heq = f[0], f[3], f[4], f[5], f[6]
            if (c1 == 'E') != (e == '1'): pr.append('cmp says %s but == says %s' % (c1, e))
            if c2 != REV[c1]: pr.append('cmp(a,b)=%s but cmp(b,a)=%s' % (c1, c2))
            if pc != c1: pr.append('partial_cmp disagrees with cmp')
            if e == '1' and heq != '1': pr.append('equal values hash differently')
            if f[8] != c1: pr.append('owned cmp %s differs from borrowed cmp %s' % (f[8], c1))
            if f[9] != '1': pr.append('the owned value hashes differently from the borrowed one')
            cmpmap[(kind, a, b)] = c1
        classes.add((kind, f[0], f[3] if len(f) > 3 else '?'))
        if pr:
            nviol += 1
            if nviol <= 300:
                R.violation({'kind': 'Eq / Ord / Hash disagree', 'type': kind, 'a': a.decode('utf-8', 'replace'), 'b': b.decode('utf-8', 'replace'), 'problems': pr[:4],
                             'implementation': io[:400], 'model': mo[:300], 'replay': "printf '%s\\n' | %s" % (line.replace('\t', '\\t'), harness)}, no_input=False)
        mf = mo.split('\t')
        if len(f) > 11 and (mf[0] != f[0] or mf[1] != f[3] or mf[2] != f[11]):
            diffs += 1
            if diffs <= 5:
                R.extra.setdefault('correspondence_diffs', []).append({'case': line, 'a': a.decode('utf-8', 'replace'), 'b': b.decode('utf-8', 'replace'), 'impl': io[:300], 'model': mo[:300]})
    # the same two texts compared through different views (Uri / UriRef / Iri / IriRef)
    by_text = {}
    for (k, a, b), c in cmpmap.items():
        if k in ('uri', 'uriref', 'iri', 'iriref'):
            by_text.setdefault((a, b), {})[k] = c
    nviews = 0
    for (a, b), m in by_text.items():
        if len(m) > 1:
            nviews += 1
            if len(set(m.values())) > 1:
                nviol += 1
                if nviol <= 300:
                    R.violation({'kind': 'the order of two values depends on the view they are compared through', 'a': a.decode('utf-8', 'replace'), 'b': b.decode('utf-8', 'replace'),
                                 'cmp_by_view': m}, no_input=False)
    R.extra['texts_compared_through_several_views'] = nviews
    # transitivity of the order on the exhaustive component blocks (all ordered pairs are present there)
    by_kind = {}
    for (k, a, b), c in cmpmap.items():
        by_kind.setdefault(k, {})[(a, b)] = c
    ntrip = 0
    for k, m in by_kind.items():
        vals = sorted(set(x for x, _ in m))
        if len(vals) > 40 or any((x, y) not in m for x in vals for y in vals):
            continue
        for x, y, z in itertools.product(vals, repeat=3):
            ntrip += 1
            if m[(x, y)] in 'LE' and m[(y, z)] in 'LE' and not (m[(x, z)] in 'LE' and (m[(x, z)] == 'E') == (m[(x, y)] == 'E' and m[(y, z)] == 'E')):
                nviol += 1
                R.violation({'kind': 'the ordering is not transitive', 'type': k, 'x': x.decode('utf-8', 'replace'), 'y': y.decode('utf-8', 'replace'), 'z': z.decode('utf-8', 'replace'),
                             'cmp': [m[(x, y)], m[(y, z)], m[(x, z)]]}, no_input=False)
                break
    # lookups through every Borrow view
    llines = []; lmeta = []
    for fam in ('uri', 'iri'):
        g = Gen(random.Random(rnd.random()), fam)
        for p, q in cmpgen.ref_pairs(g, 15000 if thorough else 700):
            if p['scheme'] is None: p['scheme'] = 's'
            if q['scheme'] is None: q['scheme'] = 's'
            if p['authority'] is None and p['path'].startswith('//'): continue
            a, b = Gen.compose(p).encode(), Gen.compose(q).encode()
            if fam == 'uri' and any(c > 127 for c in a + b): continue
            llines.append('lookup\t%s\t%s\t%s' % (fam, hexs(a), hexs(b))); lmeta.append((fam, a, b))
    lout = run_lines(harness, llines)
    for (fam, a, b), line, io in zip(lmeta, llines, lout):
        if io.startswith('ERR'):
            continue
        f = io.split('\t'); want = '1' if spec.canon(a) == spec.canon(b) else '0'
        flags = f[0].replace(' ', '').replace('-', '').replace('~', '')
        pr = []
        if len(f) < 2 or 'PANIC' in io:
            pr.append('hashing / set operations panicked: %s' % io[:120]); f = [f[0], '1']
        elif 'P' in flags: pr.append('a set operation panicked')
        elif any(ch != want for ch in flags):
            pr.append('HashSet/BTreeSet lookups through Borrow views give %r, expected all %s (inserted %r, looked up %r)' % (f[0], want, a, b))
        if f[1] != '1': pr.append('views of one value (Uri/UriRef/Iri/IriRef, owned/borrowed) hash differently')
        classes.add(('lookup', fam, want))
        if pr:
            nviol += 1
            if nviol <= 300:
                R.violation({'kind': 'collections keyed by one view do not find the value through another', 'family': fam, 'inserted': a.decode('utf-8', 'replace'), 'looked_up': b.decode('utf-8', 'replace'),
                             'problems': pr, 'implementation': io[:300], 'replay': "printf '%s\\n' | %s" % (line.replace('\t', '\\t'), harness)}, no_input=False)
    # every provided cross-type == / partial_cmp between the four views of two absolute values must agree with the
    # same-type comparison of the two references (and == with the documented equivalence)
    XNAMES = ['X==&X', 'X==XBuf', 'X==XRef', 'X==&XRef', 'X==XRefBuf', 'XBuf==XRef', 'XBuf==&XRef', 'XBuf==XRefBuf', 'XRef==&XRef', 'XRef==XRefBuf',
              'XRef==X', 'XRef==&X', 'XRef==XBuf', 'XRefBuf==X', 'XRefBuf==&X', 'XRefBuf==XBuf']
    xlines = ['xcmp\t%s\t%s\t%s' % (fam, hexs(a), hexs(b)) for fam, a, b in lmeta]
    xout = run_lines(harness, xlines)
    nx = 0
    for (fam, a, b), line, io in zip(lmeta, xlines, xout):
        if io.startswith('ERR'):
            continue
        nx += 1
        f = io.split('\t'); pr = []
        if len(f) < 3 or len(f[0]) != 2 or 'P' in io:
            pr.append('a cross-type comparison panicked or returned nothing: %s' % io[:120])
        else:
            want = '1' if spec.canon(a) == spec.canon(b) else '0'
            if f[0][0] != want: pr.append('XRef == XRef is %s, the documented equivalence says %s' % (f[0][0], want))
            bad_e = [XNAMES[i] for i, ch in enumerate(f[1]) if ch != f[0][0]]
            bad_c = [XNAMES[i].replace('==', ' partial_cmp ') for i, ch in enumerate(f[2]) if ch != f[0][1]]
            if bad_e: pr.append('cross-type == disagrees with the same-type == (%s): %s' % (f[0][0], ', '.join(bad_e)))
            if bad_c: pr.append('cross-type partial_cmp disagrees with the same-type one (%s): %s' % (f[0][1], ', '.join(bad_c)))
            if (f[0][0] == '1') != (f[0][1] == 'E'): pr.append('partial_cmp says %s but == says %s' % (f[0][1], f[0][0]))
        classes.add(('xcmp', fam, io[:2]))
        if pr:
            nviol += 1
            if nviol <= 300:
                R.violation({'kind': 'cross-type comparison impls disagree with the same-type comparison', 'family': fam, 'a': a.decode('utf-8', 'replace'), 'b': b.decode('utf-8', 'replace'),
                             'problems': pr, 'implementation': io[:200], 'replay': "printf '%s\\n' | %s" % (line.replace('\t', '\\t'), harness)}, no_input=False)
    R.extra['cross_type_pairs'] = nx
    if diffs and not R.violations:
        R.violation({'kind': 'correspondence broken: the Eq/Ord/Hash model and the implementation disagree (hash streams are compared token by token), but the coherence laws held on every implementation output',
                     'first': R.extra.get('correspondence_diffs', [])[:3]}, no_input=True)
    R.cov['evaluations'] = len(cases) + len(llines) + len(xlines)
    R.cov['distinct_nontrivial'] = len(classes)
    R.cov['rule'] = ('the pairs of C07 (every comparable type, both families, owned and borrowed): ==, cmp both ways, partial_cmp, the recorded Hasher stream; transitivity on all triples '
                     'of the exhaustive component blocks (%d triples); HashSet/BTreeSet insert + contains through every Borrow impl between library types '
                     '(UriBuf->Uri/UriRef/Iri/IriRef, UriRefBuf->UriRef, IriBuf->Iri/IriRef, IriRefBuf->IriRef); the 16 cross-type == and 16 cross-type partial_cmp impls per family on the same pairs; distinct_nontrivial = distinct (type, eq, cmp)' % ntrip)
    R.cov['samples'] = [{'type': c[0], 'a': c[1].decode('utf-8', 'replace'), 'b': c[2].decode('utf-8', 'replace'), 'out': io[:80].replace('\t', ' ')} for c, io in list(zip(cases, impl))[::max(1, len(cases) // 6)]][:6]
    R.cov['trusted_base'] = R.assumptions
    R.extra.update({'model_vs_impl_differences': diffs, 'triples_checked': ntrip, 'lookups': len(llines), 'tree': os.path.basename(cdir)})
    return R.finish()

if __name__ == '__main__':
    sys.exit(main())
