#!/usr/bin/env python3
"""C02: scheme/authority/path/query/fragment accessors and parts() are the RFC 3986 decomposition."""
import os, sys, json, random
sys.path.insert(0, os.path.dirname(os.path.abspath(__file__)))
from vlib import *
from gen import Gen, classify_parts, small_refs
import c01

def expected_ranges(p):
    """`expected p` of coq/ParseProofs.v, on byte lengths"""
    bl = lambda s: len(s.encode('utf-8'))
    ls = bl(p['scheme']) + 1 if p['scheme'] is not None else 0
    pa = ls + (bl(p['authority']) + 2 if p['authority'] is not None else 0)
    pe = pa + bl(p['path'])
    qe = pe + 1 + bl(p['query']) if p['query'] is not None else pe
    total = bl(Gen.compose(p))
    f = lambda lo, hi: '%d:%d' % (lo, hi)
    return [f(0, ls - 1) if p['scheme'] is not None else '~',
            f(ls + 2, pa) if p['authority'] is not None else '~',
            f(pa, pe),
            f(pe + 1, qe) if p['query'] is not None else '~',
            f(qe + 1, total) if p['fragment'] is not None else '~']

def main():
    R = Result('C02', 'proof')
    rnd = random.Random(R.seed)
    thorough = R.tier == 'thorough'
    R.assumptions = ['Coq kernel + vm_compute', 'hand-written model coq/Parse.v, Parse2.v of common/parse.rs, tied to the code by this correspondence run',
                     'extraction (ExtrOcamlBasic) + ocamlopt', 'Rust harness (ranges printed as pointer offsets into the input)']
    props_check(R, 'C02')
    st = setup_check(R)
    if st is None:
        return R.finish()
    cdir, harness, model = st
    cases = []   # (kind, bytes, parts or None)
    n = 300000 if thorough else 12000
    for fam in ('uri', 'iri'):
        g = Gen(random.Random(rnd.random()), fam)
        for _ in range(n // 2):
            p = g.parts()
            b = Gen.compose(p).encode('utf-8')
            cases.append((fam + 'ref', b, p))
            if p['scheme'] is not None:
                cases.append((fam, b, p))
    if thorough:
        for s in small_refs(nmax=3, queries=(None, '', 'q'), frags=(None, '', 'f')):
            cases.append(('uriref', s.encode(), None)); cases.append(('iriref', s.encode(), None))
    # strings that do not come from the parts generator: random walks through the translated validators
    dfas = json.load(open(os.path.join(cdir, 'dfa.json')))
    for t, kind in (('uri_reference', 'uriref'), ('iri_reference', 'iriref'), ('uri', 'uri'), ('iri', 'iri')):
        for b in c01.sample_strings(dfas[t], random.Random(rnd.random()), 20000 if thorough else 1500):
            tk = c01.tokens_of(dfas[t], b)
            if tk is not None and c01.dfa_run(dfas[t], tk):
                cases.append((kind, b, None))
    lines = ['ref\t%s\t%s' % (k, hexs(b)) for k, b, _ in cases]
    impl = run_lines(harness, lines)
    mod = run_lines(model, lines)
    nviol = 0; classes = set(); rejected = 0; diffs = 0
    for (kind, b, p), line, io, mo in zip(cases, lines, impl, mod):
        if io.startswith('ERR'):
            rejected += 1
            if p is not None and nviol < 300:
                # the generator only builds RFC-valid parts: a rejection is a parser defect (C01's business) -- report it here too
                nviol += 1
                R.violation({'kind': 'valid reference rejected by the parser', 'input': b.decode('utf-8', 'replace'), 'case': line}, no_input=False)
            continue
        f = io.split('\t')
        if io == 'PANIC' or len(f) < 15:
            nviol += 1
            R.violation({'kind': 'accessor panicked', 'case': line, 'input': b.decode('utf-8', 'replace'), 'impl': io}, no_input=False)
            continue
        full, ind, pa, oa, comp, allocs, allp = f[0], f[1:6], f[6], f[7], f[8], f[9], f[10:15]
        mf = mo.split('\t')
        problems = []
        if full != '0:%d' % len(b):
            problems.append('value does not occupy exactly the input')
        if p is not None:
            exp = expected_ranges(p)
            if ind != exp:
                problems.append('individual accessors differ from the RFC decomposition %s' % exp)
            if allp != exp:
                problems.append('parts() differs from the RFC decomposition %s' % exp)
            classes.add((kind,) + classify_parts(p))
        else:
            # recomposition (RFC 3986 section 5.3) from the reported components must give back the text
            def sl(r):
                lo, hi = r.split(':'); return b[int(lo):int(hi)]
            try:
                rec = (sl(ind[0]) + b':' if ind[0] != '~' else b'') + (b'//' + sl(ind[1]) if ind[1] != '~' else b'') + sl(ind[2]) + \
                      (b'?' + sl(ind[3]) if ind[3] != '~' else b'') + (b'#' + sl(ind[4]) if ind[4] != '~' else b'')
            except ValueError:
                rec = None
            if rec != b:
                problems.append('recomposing the components does not reproduce the text')
            classes.add((kind, 'walk', ind[0] != '~', ind[1] != '~', ind[3] != '~', ind[4] != '~', len(b) > 20))
        if pa != '1' or allp != ind:
            problems.append('parts() disagrees with the individual accessors')
        if oa != '1':
            problems.append('owned view disagrees with the borrowed view')
        if comp != '1':
            problems.append('a returned component is not a valid value of its component type')
        if problems and nviol < 300:
            nviol += 1
            R.violation({'kind': 'component accessors do not return the RFC 3986 decomposition', 'type': kind, 'input': b.decode('utf-8', 'replace'),
                         'input_hex': b.hex(), 'problems': problems, 'implementation': io, 'model': mo, 'replay': "printf '%s\\n' | %s" % (line.replace('\t', '\\t'), harness)},
                        no_input=False)
        if mf[0:5] != ind or mf[5:10] != allp:
            diffs += 1
            if diffs <= 5:
                R.extra.setdefault('correspondence_diffs', []).append({'case': line, 'input': b.decode('utf-8', 'replace'), 'impl': io, 'model': mo})
    if diffs and not R.violations:
        R.violation({'kind': 'correspondence broken: model coq/Parse.v and the implementation disagree, but every implementation output satisfied the oracle',
                     'first': R.extra.get('correspondence_diffs', [])[:3]}, no_input=True)
    R.cov['evaluations'] = len(cases)
    R.cov['distinct_nontrivial'] = len(classes)
    R.cov['rule'] = ('references composed from RFC components (scheme/authority/path form/query/fragment presence and emptiness, multi-byte text) in both '
                     'families, borrowed and owned, plus random walks through the translated validators; distinct_nontrivial = distinct classifier tuples '
                     '(kind, scheme?, authority?, path form, inner empty segment, colon in first segment, query/fragment absent|empty|non-empty, non-ASCII)')
    R.cov['samples'] = [{'kind': k, 'input': b.decode('utf-8', 'replace'), 'impl': io} for (k, b, _), io in list(zip(cases, impl))[::max(1, len(cases) // 8)]][:8]
    R.cov['trusted_base'] = R.assumptions
    R.extra.update({'rejected_by_parser': rejected, 'model_vs_impl_differences': diffs, 'tree': os.path.basename(cdir)})
    return R.finish()

if __name__ == '__main__':
    sys.exit(main())
