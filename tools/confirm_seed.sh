#!/bin/sh
# usage: confirm_seed.sh <out dir with changeN.diff/demoN.rs> <id> : confirms each seeded change in a scratch worktree
#   (suite passes with the change, demo fails with it and passes without) and files it under /verif/seeded/<id>-<n>/
out="$1"; id="$2"
wt=/tmp/confirm-$id
export CARGO_NET_OFFLINE=true
git -C /repo worktree add -q --detach $wt HEAD || exit 2
export CARGO_TARGET_DIR=$wt/target
for n in 1 2 3; do
  [ -f $out/change$n.diff ] || continue
  cd $wt && git checkout -q -- . && rm -rf tests && touch crates/core/src/lib.rs crates/macros/src/lib.rs
  res=$out/confirm$n.txt; : > $res
  mkdir -p tests && cp $out/demo$n.rs tests/demo$n.rs
  feat=$(grep -oE -- '--features "?(serde|data|macros)(,(serde|data|macros))*' $out/demo$n.rs | head -1 | tr -d '"')   # only the crate's real features (a comment may say "no --features needed")
  cargo test --offline $feat --test demo$n >/dev/null 2>&1; echo "demo_without_change_rc=$?" >> $res
  git apply $out/change$n.diff || { echo "apply_failed" >> $res; continue; }
  touch crates/core/src/lib.rs crates/macros/src/lib.rs   # grammar files are not tracked by cargo
  cargo test --offline $feat --test demo$n >/dev/null 2>&1; echo "demo_with_change_rc=$?" >> $res
  rm -rf tests
  cargo test --workspace --offline >$out/suite$n.log 2>&1; echo "suite_with_change_rc=$?" >> $res
  grep -c "^test .* ok$" $out/suite$n.log | sed 's/^/tests_ok=/' >> $res
  git checkout -q -- .
  cat $res
done
cd / && git -C /repo worktree remove --force $wt
