#!/usr/bin/env python3
"""C07: == is exactly the documented normalising equivalence, total (no panic), reflexive, symmetric, transitive."""
import os, sys, json, random, itertools
sys.path.insert(0, os.path.dirname(os.path.abspath(__file__)))
from vlib import *
from gen import Gen
import spec, cmpgen

def oracle(kind, a, b):
    if kind in ('uri', 'uriref', 'iri', 'iriref'):
        return spec.canon(a) == spec.canon(b)
    k = kind[1:] if kind[0] in 'ui' and kind not in ('scheme', 'port') else kind
    if k == 'authority':
        return spec.canon(b'//' + a)[1] == spec.canon(b'//' + b)[1]
    if k == 'path':
        return spec.canon_path(a) == spec.canon_path(b)
    if k in ('scheme', 'port'):
        return a == b
    return spec.dec(a) == spec.dec(b)

def build_cases(rnd, thorough):
    cases = []
    n = 60000 if thorough else 2500
    for fam in ('uri', 'iri'):
        g = Gen(random.Random(rnd.random()), fam)
        for p, q in cmpgen.ref_pairs(g, n):
            a, b = Gen.compose(p).encode(), Gen.compose(q).encode()
            if fam == 'uri' and (any(c > 127 for c in a + b)):
                continue
            kind = fam + ('' if p['scheme'] is not None and q['scheme'] is not None and g.r.random() < 0.4 else 'ref')
            cases.append((kind, a, b))
            if g.r.random() < 0.15:
                cases.append((kind, a, a))
        # the same two texts under every view they are valid for (C08: the order must not depend on the view)
        for p, q in cmpgen.two_component_pairs(g, 3000 if thorough else 160):
            a, b = Gen.compose(p).encode(), Gen.compose(q).encode()
            cases.append((fam + 'ref', a, b)); cases.append((fam, a, b))
        # a one-character path directly followed by a query / fragment that contains path-like text
        QF = ['a/b', 'a%2Fb', 'x/..', 'y/..', '/', '', '../a', 'a/./b']
        for d in ('?', '#'):
            for q1, q2 in itertools.product(QF, repeat=2):
                for pre in ('s:/', 's:', 's://h/', '/'):
                    a, b = (pre + d + q1).encode(), (pre + d + q2).encode()
                    cases.append((fam + 'ref', a, b))
                    if pre.startswith('s:'): cases.append((fam, a, b))
        for comp, vocab in cmpgen.COMPONENT_VOCAB.items():
            kind = comp if comp in ('scheme', 'port') else fam[0] + comp
            if comp in ('scheme', 'port') and fam == 'iri':
                continue
            vs = [v for v in vocab if fam == 'iri' or all(ord(c) < 128 for c in v)]
            for x, y in itertools.product(vs, repeat=2):
                cases.append((kind, x.encode(), y.encode()))
    return cases

def main():
    R = Result('C07', 'proof')
    rnd = random.Random(R.seed)
    thorough = R.tier == 'thorough'
    R.assumptions = ['Coq kernel', 'hand-written model coq/Cmp.v of the PartialEq/Ord/Hash impls, tied to the code by this run', 'pct_str::PctStr::bytes modelled by Cmp.dec',
                     'extraction + ocamlopt', 'Rust harness']
    props_check(R, 'C07')
    st = setup_check(R)
    if st is None:
        return R.finish()
    cdir, harness, model = st
    cases = build_cases(rnd, thorough)
    lines = ['eq\t%s\t%s\t%s' % (k, hexs(a), hexs(b)) for k, a, b in cases]
    impl = run_lines(harness, lines)
    mod = run_lines(model, lines)
    nviol = 0; diffs = 0; classes = set(); n_eq = 0
    for (kind, a, b), line, io, mo in zip(cases, lines, impl, mod):
        if io.startswith('ERR'):
            continue
        f = io.split('\t'); pr = []
        want = oracle(kind, a, b)
        n_eq += want
        if len(f) < 3 or 'P' in (f[0], f[1], f[2]):
            pr.append('comparison panicked'); f = (f + ['P'] * 12)[:12]
        else:
            if f[0] != ('1' if want else '0'):
                pr.append('a == b is %s, the documented equivalence says %s' % (f[0], want))
            if f[1] != f[0]: pr.append('== is not symmetric')
            if f[2] != ('0' if f[0] == '1' else '1'): pr.append('!= is not the negation of ==')
            if a == b and f[0] != '1': pr.append('== is not reflexive')
            if f[7] not in (f[0],) : pr.append('owned values compare differently (%s) from borrowed ones (%s)' % (f[7], f[0]))
            if f[10] != f[0]: pr.append('owned == borrowed gives %s' % f[10])
        classes.add((kind, want, a == b, b'%' in a + b, b'/.' in a + b))
        if pr:
            nviol += 1
            if nviol <= 300:
                R.violation({'kind': 'equality is not the documented normalising equivalence', 'type': kind, 'a': a.decode('utf-8', 'replace'), 'b': b.decode('utf-8', 'replace'),
                             'problems': pr[:4], 'implementation': io[:300], 'model': mo[:200], 'replay': "printf '%s\\n' | %s" % (line.replace('\t', '\\t'), harness)}, no_input=False)
        mf = mo.split('\t')
        if mf[0] != f[0]:
            diffs += 1
            if diffs <= 5:
                R.extra.setdefault('correspondence_diffs', []).append({'case': line, 'a': a.decode('utf-8', 'replace'), 'b': b.decode('utf-8', 'replace'), 'impl': io[:200], 'model': mo[:200]})
    # the provided cross-type == impls (X, XBuf, XRef, XRefBuf against each other): same answer as the same-type ==
    xl = []; xm = []
    for (kind, a, b) in cases:
        if kind in ('uri', 'iri'):
            xl.append('xcmp\t%s\t%s\t%s' % (kind, hexs(a), hexs(b))); xm.append((kind, a, b))
    for (fam, a, b), line, io in zip(xm, xl, run_lines(harness, xl)):
        if io.startswith('ERR'):
            continue
        f = io.split('\t'); pr = []
        want = '1' if spec.canon(a) == spec.canon(b) else '0'
        if len(f) < 3 or len(f[0]) != 2 or 'P' in f[0] + f[1]:
            pr.append('a cross-type == panicked or returned nothing: %s' % io[:120])
        elif any(ch != want for ch in f[0][0] + f[1]):
            pr.append('cross-type == results %s / %s, the documented equivalence says %s for every impl' % (f[0][0], f[1], want))
        if pr:
            nviol += 1
            if nviol <= 300:
                R.violation({'kind': 'equality is not the documented normalising equivalence', 'type': fam + ' (cross-type impls X/XBuf/XRef/XRefBuf)', 'a': a.decode('utf-8', 'replace'), 'b': b.decode('utf-8', 'replace'),
                             'problems': pr, 'implementation': io[:200], 'replay': "printf '%s\\n' | %s" % (line.replace('\t', '\\t'), harness)}, no_input=False)
    R.extra['cross_type_pairs'] = len(xl)
    if diffs and not R.violations:
        R.violation({'kind': 'correspondence broken: the comparison model and the implementation disagree, but every implementation output satisfied the oracle',
                     'first': R.extra.get('correspondence_diffs', [])[:3]}, no_input=True)
    R.cov['evaluations'] = len(cases) + len(xl)
    R.cov['distinct_nontrivial'] = len(classes)
    R.cov['rule'] = ('pairs of valid values of Uri/UriRef/Iri/IriRef (second derived from the first: ~40 % equal by construction through re-encoded octets, hex case, "." and "x/.." '
                     'detours; the rest differing in exactly one component) and all ordered pairs over a vocabulary for each component type (segment, host, user info, query, fragment, '
                     'scheme, port, path, authority) incl. %FF, overlong %C0%AF, present-but-empty; distinct_nontrivial = distinct (type, equal?, identical?, has escapes, has dot segment)')
    R.cov['samples'] = [{'type': c[0], 'a': c[1].decode('utf-8', 'replace'), 'b': c[2].decode('utf-8', 'replace'), 'eq': io.split('\t')[0]} for c, io in list(zip(cases, impl))[::max(1, len(cases) // 8)]][:8]
    R.cov['trusted_base'] = R.assumptions
    R.extra.update({'model_vs_impl_differences': diffs, 'pairs_equal_under_the_equivalence': n_eq, 'tree': os.path.basename(cdir)})
    return R.finish()

if __name__ == '__main__':
    sys.exit(main())
