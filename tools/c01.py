#!/usr/bin/env python3
"""C01: every generated validator accepts exactly the RFC language; every construction route agrees
with it, keeps the text, and returns the input in the error (also carries the accept side of C14)."""
import os, sys, json, re, random, time
from concurrent.futures import ThreadPoolExecutor
sys.path.insert(0, os.path.dirname(os.path.abspath(__file__)))
from vlib import *

RULES = {
    'scheme': 'scheme', 'uri_port': 'port',
    'uri_path_segment': '(isegment U)', 'uri_path': '(ipath U)', 'uri_query': '(iquery U U)',
    'uri_fragment': '(ifragment U)', 'uri_user_info': '(iuserinfo U)', 'uri_host': '(ihost U)',
    'uri_authority': '(iauthority U)', 'uri': '(IRI U U)', 'uri_reference': '(IRI_reference U U)',
    'iri_path_segment': '(isegment I)', 'iri_path': '(ipath I)', 'iri_query': '(iquery I P)',
    'iri_fragment': '(ifragment I)', 'iri_user_info': '(iuserinfo I)', 'iri_host': '(ihost I)',
    'iri_authority': '(iauthority I)', 'iri': '(IRI I P)', 'iri_reference': '(IRI_reference I P)',
}
RFC = {'scheme': 'RFC 3986 scheme', 'uri_port': 'RFC 3986 port'}

def dfa_run(d, toks):
    q = d['init']
    for c in toks:
        nxt = None
        for rs, t in d['states'][q][1]:
            if any(lo <= c <= hi for lo, hi in rs):
                nxt = t
                break
        if nxt is None:
            return False
        q = nxt
    return bool(d['states'][q][0])

def tokens_of(d, b):
    """token sequence the validator sees for byte string b, or None when the front end rejects (ill-formed UTF-8)"""
    if d['tok'] == 'u8':
        return list(b)
    try:
        return [ord(c) for c in b.decode('utf-8')]
    except UnicodeDecodeError:
        return None

def enc(d, toks):
    if d['tok'] == 'u8':
        return bytes(t for t in toks if t < 256)
    return ''.join(chr(t) for t in toks if t < 0x110000 and not (0xD800 <= t <= 0xDFFF)).encode('utf-8')

BOUNDARY = [0, 0x1f, 0x20, 0x22, 0x23, 0x25, 0x2f, 0x3a, 0x3c, 0x3e, 0x3f, 0x40, 0x5b, 0x5c, 0x5d, 0x5e, 0x60, 0x7b, 0x7c, 0x7d, 0x7f]

def sample_strings(d, rnd, n):
    """random walks through the generated table to accepting states, then single edits (insert, delete,
       replace with range-boundary tokens), then byte-level damage for the UTF-8 front end"""
    states = d['states']
    maxtok = 255 if d['tok'] == 'u8' else 0x10FFFF
    bounds = set(BOUNDARY)
    for fin, arms in states:
        for rs, t in arms:
            for lo, hi in rs:
                for x in (lo - 1, lo, hi, hi + 1):
                    if 0 <= x <= maxtok and not (0xD800 <= x <= 0xDFFF):
                        bounds.add(x)
    bounds = sorted(bounds)
    out = []
    def walk():
        q = d['init']; w = []
        L = rnd.choice([0, 1, 2, 3, 5, 8, 13, 21, 40, 80])
        for _ in range(200):
            fin, arms = states[q]
            if fin and len(w) >= L:
                break
            if not arms:
                break
            # prefer arms that lead to rarely visited states: uniform over arms, then uniform over ranges
            rs, t = rnd.choice(arms)
            lo, hi = rnd.choice(rs)
            c = rnd.choice([lo, hi, rnd.randint(lo, hi)])
            if 0xD800 <= c <= 0xDFFF:
                c = lo
            w.append(c); q = t
        return w
    while len(out) < n:
        w = walk()
        out.append(enc(d, w))
        k = rnd.random()
        if w and k < 0.6:
            w2 = list(w); i = rnd.randrange(len(w2) + 1)
            m = rnd.choice('idr')
            c = rnd.choice(bounds)
            if m == 'i':
                w2.insert(i, c)
            elif m == 'd' and i < len(w2):
                del w2[i]
            elif i < len(w2):
                w2[i] = c
            out.append(enc(d, w2))
        if k > 0.85:
            b = bytearray(enc(d, w)); i = rnd.randrange(len(b) + 1)
            b[i:i] = rnd.choice([b'\xff', b'\xc3', b'\xed\xa0\x80', b'\xc0\xaf', b'\xf4\x90\x80\x80', b'\x80', b'\xe2\x82', b'\xf0\x9f\x98'])
            out.append(bytes(b))
    return out[:n]

def gen_v(cdir, t, samples):
    g = os.path.join(cdir, 'gen')
    words = '; '.join('[' + '; '.join(str(c) for c in w) + ']' for w in samples)
    src = '''From Coq Require Import List NArith Bool.
Import ListNotations.
Require Import V.Regex V.Bisim V.Abnf V.C01Lib G.GenDfa.
Open Scope N_scope.
Theorem C01_%(t)s : forall w : list N, dfa_accepts dfa_%(t)s w = true <-> L %(rule)s w.
Proof. apply check_sound. vm_cast_no_check (eq_refl true). Qed.
Print Assumptions C01_%(t)s.
Definition samples : list (list N) := [%(words)s].
Eval vm_compute in (map (fun w => if dfa_accepts dfa_%(t)s w then 1 else 0) samples).
''' % {'t': t, 'rule': RULES[t], 'words': words}
    p = os.path.join(g, 'C01_%s.v' % t)
    with open(p, 'w') as f:
        f.write(src)
    return p

def gen_diff_v(cdir, t):
    g = os.path.join(cdir, 'gen')
    src = '''From Coq Require Import List NArith Bool.
Import ListNotations.
Require Import V.Regex V.Bisim V.Abnf V.C01Lib G.GenDfa.
Open Scope N_scope.
Eval vm_compute in (match find_diff dfa_%(t)s %(rule)s with
  | Some w => (1, w, if matchb %(rule)s w then 1 else 0) | None => (0, [], 0) end).
''' % {'t': t, 'rule': RULES[t]}
    p = os.path.join(g, 'Diff_%s.v' % t)
    with open(p, 'w') as f:
        f.write(src)
    return p

def prove_all(cdir, types, coq_samples, reuse=False):
    """one coqc per type; with reuse=True a result of this very tree (same generated table) is taken from the cache"""
    g = os.path.join(cdir, 'gen')
    def prove(t):
        p = gen_v(cdir, t, coq_samples[t])
        outp = p[:-2] + '.out'
        if reuse and os.path.exists(outp) and os.path.exists(p[:-2] + '.vo'):
            d = json.load(open(outp))
            if d.get('src') == open(p).read():
                return t, d['rc'], d['o'], d['e'], 0.0
        t0 = time.time()
        rc, o, e = coqc(p, [(g, 'G')], timeout=1200)
        json.dump({'rc': rc, 'o': o, 'e': e, 'src': open(p).read()}, open(outp, 'w'))
        return t, rc, o, e, time.time() - t0
    with ThreadPoolExecutor(max_workers=16) as ex:
        return list(ex.map(prove, types))

def ensure_gendfa(R, cdir):
    g = os.path.join(cdir, 'gen')
    os.makedirs(g, exist_ok=True)
    with Lock('gen-' + os.path.basename(cdir)):
        if not os.path.exists(os.path.join(g, 'GenDfa.vo')):
            import shutil
            shutil.copy(os.path.join(cdir, 'GenDfa.v'), os.path.join(g, 'GenDfa.v'))
            rc, o, e = coqc(os.path.join(g, 'GenDfa.v'), [(g, 'G')])
            if rc != 0:
                R.violation({'kind': 'GenDfa.v does not compile', 'log': (o + e)[-3000:]}, no_input=True)
                return False
    return True

def parse_nlist(text):
    """first `= [...]` list of numbers printed by Eval"""
    m = re.search(r'=\s*\[(.*?)\]', text, flags=re.S)
    if not m:
        return None
    return [int(x) for x in re.findall(r'\d+', m.group(1))]

def main():
    R = Result('C01', 'proof')
    rnd = random.Random(R.seed)
    thorough = R.tier == 'thorough'
    R.assumptions = [
        'Coq 8.16.1 kernel incl. the vm_compute bytecode VM (reflection: check_sound + vm_cast_no_check)',
        'translator tools/expand2dfa.py reads the 20 generated `validate` functions from rustc -Zunpretty=expanded of the current tree; '
        'validated on this run by executing the translated table against every construction route of the real type',
        'a Rust `char` range pattern never matches a surrogate (ranges split at D800..DFFF by the translator)',
        'Spec: coq/Abnf.v transcribes RFC 3986 appendix A and RFC 3987 section 2.2 (RFC 5234 semantics)',
        'String::from_utf8 / str::from_utf8 = strict UTF-8 decoding (Python codec used as its model in the validation)',
    ]
    bad = audit_sources()
    if bad:
        R.violation({'kind': 'forbidden-construct', 'where': bad}, no_input=True)
        return R.finish()
    try:
        cdir = build_tree()
    except BuildError as e:
        R.violation({'kind': 'build-failed', 'stderr': str(e)}, no_input=True)
        return R.finish()
    ok, out = coq_build(['C01Lib.vo'])
    if not ok:
        R.violation({'kind': 'static-coq-build-failed', 'log': out[-3000:]}, no_input=True)
        return R.finish()
    dfas = json.load(open(os.path.join(cdir, 'dfa.json')))
    missing = sorted(set(RULES) - set(dfas)); extra = sorted(set(dfas) - set(RULES))
    if missing or extra:
        R.violation({'kind': 'validated-types-changed', 'missing': missing, 'unknown': extra}, no_input=True)
    g = os.path.join(cdir, 'gen')
    os.makedirs(g, exist_ok=True)
    with Lock('gen-' + os.path.basename(cdir)):
        if not os.path.exists(os.path.join(g, 'GenDfa.vo')):
            import shutil
            shutil.copy(os.path.join(cdir, 'GenDfa.v'), os.path.join(g, 'GenDfa.v'))
            rc, o, e = coqc(os.path.join(g, 'GenDfa.v'), [(g, 'G')])
            if rc != 0:
                R.violation({'kind': 'GenDfa.v does not compile', 'log': (o + e)[-3000:]}, no_input=True)
                return R.finish()
    types = [t for t in RULES if t in dfas]
    n_val = 150000 if thorough else 2500
    n_coq = 300
    strings = {t: sample_strings(dfas[t], random.Random(rnd.random()), n_val) for t in types}
    coq_samples = {}
    for t in types:
        ws = []
        for b in strings[t][:n_coq * 2]:
            tk = tokens_of(dfas[t], b)
            if tk is not None:
                ws.append(tk)
        coq_samples[t] = ws[:n_coq]
    # --- theorems, one coqc per type, in parallel
    results = prove_all(cdir, types, coq_samples)
    R.cov['obligations'] = len(RULES)
    proved = []
    per_type = {}
    for t, rc, o, e, dt in results:
        closed, axioms = assumptions_closed(o)
        good = rc == 0 and closed >= 1 and axioms == 0
        per_type[t] = {'proved': good, 'coqc_s': round(dt, 1), 'dfa_states': len(dfas[t]['states'])}
        if good:
            proved.append(t)
            got = parse_nlist(o)
            want = [1 if dfa_run(dfas[t], w) else 0 for w in coq_samples[t]]
            if got != want:
                R.violation({'kind': 'python table runner disagrees with Coq dfa_accepts', 'type': t}, no_input=True)
        else:
            # search for a shortest distinguishing word and replay it on the real constructor
            p = gen_diff_v(cdir, t)
            rc2, o2, e2 = coqc(p, [(g, 'G')], timeout=1200)
            nums = [int(x) for x in re.findall(r'\d+', o2.split('=', 1)[1])] if rc2 == 0 and '=' in o2 else None
            rep = {'kind': 'theorem C01_%s no longer checks' % t, 'type': t, 'rule': RULES[t], 'coqc': (o + e)[-1500:]}
            found = False
            if nums and nums[0] == 1:
                spec = nums[-1]
                word = nums[1:-1]
                b = enc(dfas[t], word)
                impl = run_lines(os.path.join(cdir, 'harness'), ['parse\t%s\t%s' % (t, hexs(b))])[0]
                rep.update({'word_tokens': word, 'word_hex': b.hex(), 'word_text': b.decode('utf-8', 'replace'),
                            'rfc_grammar_accepts': bool(spec), 'implementation_routes': impl,
                            'replay': 'printf "parse\\t%s\\t%s\\n" | %s' % (t, hexs(b), os.path.join(cdir, 'harness'))})
                impl_acc = impl.replace('-', '')[:1] == 'A'
                if tokens_of(dfas[t], b) == word and impl_acc != bool(spec):
                    found = True
            R.violation(rep, no_input=not found)
    R.cov['discharged'] = len(proved)
    # --- translator validation + construction routes (all routes, text and payload identity)
    lines = []; meta = []
    for t in types:
        for b in strings[t]:
            lines.append('parse\t%s\t%s' % (t, hexs(b))); meta.append((t, b))
    outs = run_lines(os.path.join(cdir, 'harness'), lines)
    n_acc = 0; distinct = set(); nviol = 0; route_hist = {}
    for (t, b), o in zip(meta, outs):
        tk = tokens_of(dfas[t], b)
        want = tk is not None and dfa_run(dfas[t], tk)
        n_acc += want
        distinct.add((t, b))
        exp = 'A' if want else 'R'
        route_hist[exp] = route_hist.get(exp, 0) + 1
        okk = o != 'PANIC' and all(ch == exp or ch == '-' for ch in o) and any(ch == exp for ch in o)
        if not okk and nviol < 10:
            nviol += 1
            # which side is wrong?  when the theorem for t holds, the table is the RFC language, so the route is.
            R.violation({'kind': 'construction route disagrees with the translated validator / loses text or payload',
                         'type': t, 'input_hex': b.hex(), 'input_text': b.decode('utf-8', 'replace'),
                         'table_accepts': want, 'theorem_holds_for_type': t in proved,
                         'routes(A=accept+text kept,R=reject+payload kept,a/r=text or payload changed,P=panic)': o,
                         'replay': 'printf "parse\\t%s\\t%s\\n" | %s' % (t, hexs(b), os.path.join(cdir, 'harness'))},
                        no_input=False)
    # --- routes out (C14 shares this): text preserved
    olines = []; ometa = []
    for t in types:
        k = 0
        for b in strings[t]:
            tk = tokens_of(dfas[t], b)
            if tk is not None and dfa_run(dfas[t], tk):
                olines.append('out\t%s\t%s' % (t, hexs(b))); ometa.append((t, b)); k += 1
                if k >= (15000 if thorough else 300):
                    break
    oouts = run_lines(os.path.join(cdir, 'harness'), olines)
    for (t, b), o in zip(ometa, oouts):
        if o != 'ok' and nviol < 10:
            nviol += 1
            R.violation({'kind': 'a route out of a valid value does not give back its text', 'type': t, 'input_hex': b.hex(),
                         'failing_routes': o}, no_input=False)
    # conversions between the eight reference types are construction routes too (From / TryFrom / as_* / into_* / try_into_*): each
    # must succeed exactly when the target validator accepts the text and must keep the text (judged as in C13)
    import c13
    clines = []; cmeta = []
    for x in c13.DELIM_RICH + ['', 'a', 's:', 's:a', '//h', 'a/b:c', './a:b', 'é', 's:é', '?é', '%41:b', 'a%3Ab']:
        clines.append('conv\t%s' % hexs(x)); cmeta.append(x.encode())
    for t in ('uri_reference', 'iri_reference'):
        for b in sample_strings(dfas[t], random.Random(rnd.random()), 1500 if thorough else 250):
            clines.append('conv\t%s' % hexs(b)); cmeta.append(b)
    couts = run_lines(os.path.join(cdir, 'harness'), clines)
    for b, line, io in zip(cmeta, clines, couts):
        pr, V = c13.conv_problems(dfas, b, io)
        if pr and nviol < 40:
            nviol += 1
            R.violation({'kind': 'a conversion between reference types constructs a value its grammar rejects, or refuses one it accepts', 'input': b.decode('utf-8', 'replace'),
                         'problems': pr[:4], 'replay': "printf '%s\\n' | %s" % (line.replace('\t', '\\t'), os.path.join(cdir, 'harness'))}, no_input=False)
    R.extra['conversion_inputs'] = len(clines)
    R.cov['checker_cmd'] = 'coqc -Q /verif/coq V -Q <cache>/gen G C01_<type>.v  (20 files, each: apply check_sound; vm_cast_no_check (eq_refl true); Print Assumptions)'
    R.cov['trusted_base'] = ['Coq 8.16.1 kernel + vm_compute', 'tools/expand2dfa.py + rustc -Zunpretty=expanded', 'coq/Abnf.v (RFC transcription)',
                             'Print Assumptions: Closed under the global context for all 20 theorems' if len(proved) == len(RULES) else 'some theorems failed']
    R.cov['evaluations'] = len(lines) + len(olines) + len(clines)
    R.cov['distinct_nontrivial'] = len(distinct)
    R.cov['rule'] = ('strings = random walks through each translated table to an accepting state (length targets 0..80, range bounds preferred), '
                     'single-token edits at range boundaries, ill-formed UTF-8 insertions; distinct = distinct (type, byte string); all are non-trivial '
                     '(each exercises >=13 construction routes); accepted/rejected split reported')
    R.cov['samples'] = [{'type': t, 'hex': b.hex(), 'routes': o} for (t, b), o in list(zip(meta, outs))[::max(1, len(meta) // 12)]][:12]
    R.extra = {'per_type': per_type, 'accepted_inputs': n_acc, 'rejected_inputs': len(lines) - n_acc, 'out_route_cases': len(olines),
               'tree': os.path.basename(cdir), 'coq_table_runner_crosscheck_per_type': n_coq}
    return R.finish()

if __name__ == '__main__':
    sys.exit(main())
