#!/usr/bin/env python3
"""Pairs and triples of comparable values for C07 / C08: about 40 % equal under the documented equivalence
(second value derived from the first by re-encoding octets, dot detours, hex-digit case), the rest differing
in exactly one component."""
import random
from gen import Gen
import spec

HEXD = '0123456789ABCDEF'
UNRES = set(b'abcdefghijklmnopqrstuvwxyzABCDEFGHIJKLMNOPQRSTUVWXYZ0123456789-._~')

def reencode(r, s):
    """same octets, different spelling: %XX <-> literal for unreserved ASCII (never '.', which would create or destroy dot segments), hex-digit case"""
    out = []; b = s.encode() if isinstance(s, str) else s; i = 0
    while i < len(b):
        c = b[i]
        if c == 0x25 and i + 2 < len(b) + 0 and i + 2 <= len(b) - 1 + 0 and chr(b[i+1]) in '0123456789abcdefABCDEF' and chr(b[i+2]) in '0123456789abcdefABCDEF':
            v = int(b[i+1:i+3], 16)
            if v in UNRES and v != 0x2e and r.random() < 0.5:
                out.append(bytes([v]))
            else:
                h = b[i+1:i+3].decode()
                out.append(('%' + (h.lower() if r.random() < 0.5 else h.upper())).encode())
            i += 3
        else:
            if c in UNRES and c != 0x2e and r.random() < 0.25:
                out.append(('%%%02X' % c).encode())
            else:
                out.append(bytes([c]))
            i += 1
    return b''.join(out)

def detour(r, path):
    """same normalised segments: insert './' and 'x/../' detours (never at the very end: a final dot segment changes the sequence)"""
    ab = path.startswith('/')
    segs = spec.segs(path.encode())
    if not segs:
        return path
    out = []
    for s in segs:
        k = r.random()
        if k < 0.2: out.append(b'.')
        elif k < 0.3: out += [b'zz', b'..']
        elif k < 0.38: out += [r.choice([b'%2E%2E', b'%2e', b'.%2e', b'%2e%2E']), b'..']     # a percent-encoded dot segment is an ordinary segment: the '..' removes it
        out.append(s)
    return ('/' if ab else '') + b'/'.join(out).decode('utf-8')

def mutate_one(g, p):
    """change exactly one component"""
    q = dict(p); k = g.pick(['scheme', 'authority', 'path', 'query', 'fragment', 'path', 'authority'])
    if k == 'scheme':
        q['scheme'] = g.pick([x for x in ['s', 'http', 'S', None] if x != p['scheme'] and not (x is None and (p['authority'] is None and ':' in p['path'].split('/')[0]))] or ['zz'])
    elif k == 'authority':
        if p['authority'] is None:
            if p['path'] == '' or p['path'].startswith('/'): q['authority'] = g.pick(['', 'h'])
        else:
            q['authority'] = g.pick([p['authority'] + 'x', p['authority'].upper() + 'Q', 'u@' + p['authority'].split('@')[-1], p['authority'].split(':')[0] + ':', None if not p['path'].startswith('//') else 'k'])
    elif k == 'path':
        if p['path'] == '':
            q['path'] = '/'
        else:
            q['path'] = g.pick([p['path'] + '/', p['path'] + '/x', p['path'].rstrip('/') or '/', p['path'] + '%20'])
    elif k == 'query':
        q['query'] = g.pick([None if p['query'] is not None else '', (p['query'] or '') + 'x', ''])
    else:
        q['fragment'] = g.pick([None if p['fragment'] is not None else '', (p['fragment'] or '') + 'x', ''])
    try:
        if q['authority'] is None and q['path'].startswith('//'): return None
        if q['authority'] is not None and q['path'] and not q['path'].startswith('/'): return None
        if q['authority'] is None and q['scheme'] is None and ':' in q['path'].split('/')[0]: return None
    except Exception:
        return None
    return q

def equal_variant(g, p):
    q = dict(p)
    q['path'] = detour(g.r, p['path'])
    if q['authority'] is None and q['path'].startswith('//'): q['path'] = p['path']
    for k in ('path', 'query', 'fragment'):
        if q[k] is not None:
            q[k] = reencode(g.r, q[k]).decode('utf-8')
    if q['authority'] is not None and '[' not in q['authority']:
        ui, h, po = spec.split_auth(q['authority'].encode())
        a = (reencode(g.r, ui) + b'@' if ui is not None else b'') + reencode(g.r, h) + (b':' + po if po is not None else b'')
        q['authority'] = a.decode('utf-8')
    if q['authority'] is None and q['scheme'] is None and ':' in q['path'].split('/')[0]: q['path'] = p['path']
    return q

def ref_pairs(g, n):
    out = []
    for _ in range(n):
        p = g.parts()
        if g.r.random() < 0.5:
            p['path'] = ('/' if p['authority'] is not None or g.r.random() < 0.6 else '') + '/'.join(g.pick(['a', 'b', '', '.', '..', '%61', 'b:c', '%2F', '%FF', '%C3%A9', '%c0%af', '%2E%2E', '%2e']) for _ in range(g.pick([0, 1, 2, 3, 4])))
            if p['authority'] is None and p['path'].startswith('//'): p['path'] = '/a' + p['path'][1:]
            if p['authority'] is None and p['scheme'] is None and ':' in p['path'].split('/')[0]: p['path'] = './' + p['path']
        if p['authority'] is None and g.r.random() < 0.08:     # relative paths that keep several leading '..'
            p['path'] = '/'.join(['..'] * g.pick([1, 2, 3]) + [g.pick(['a', 'b', '..', ''])][:g.pick([0, 1])])
        k = g.r.random()
        if k < 0.4:
            q = equal_variant(g, p)
        elif k < 0.9:
            q = mutate_one(g, p) or g.parts()
        else:
            q = g.parts()
        out.append((p, q))
    return out

COMPONENT_VOCAB = {
    'segment': ['', 'a', '%61', 'A', '.', '..', '%2e', '%2E', 'b:c', '%FF', '%ff', '%C3%A9', 'é', '%C0%AF', '%2F', 'a%20b', 'ab'],
    'host': ['', 'h', '%68', 'H', 'example.org', 'EXAMPLE.org', '[::1]', '[::01]', '1.2.3.4', '%FF', 'h%2e'],
    'userinfo': ['', 'u', '%75', 'u:p', 'u%3Ap', ':', '%FF'],
    'query': ['', 'q', '%71', 'a=b', 'a%3Db', '?', '%FF', 'Q'],
    'fragment': ['', 'f', '%66', 'F', '/', '%2F', '%FF'],
    'scheme': ['s', 'S', 'http', 'HTTP', 'a+b', 'a-b'],
    'port': ['', '0', '80', '080', '8080'],
    'path': ['../..', '../../a', '../../..', 'a/../../..', '../a/../..', '', '/', 'a', '/a', 'a/', 'a/.', 'a/./b', 'a/b', 'a/x/../b', '/a/../..', '/', '..', '../a', 'a/../..', '%61', '/%61/', '//a', '/./a', './a', 'b/%2e%2e', '/a/b/..', '/a/', '%FF', 'a//b', 'a/b/'],
    'authority': ['', 'h', '%68', 'u@h', '%75@h', 'u@h:', 'u@h:80', 'h:80', 'h:080', '[::1]:80', '@h', 'u:p@h', 'H'],
}


def two_component_pairs(g, n):
    """pairs of references that agree on a prefix of the components (scheme, authority, path, query, fragment), differ in component X in one
    direction and in a later component Y in the opposite direction: the order must be decided by X in every view"""
    LOW = {'scheme': 'a', 'authority': 'a.example', 'path': '/a', 'query': 'a', 'fragment': 'a'}
    HIGH = {'scheme': 'b', 'authority': 'b.example', 'path': '/b', 'query': 'b', 'fragment': 'b'}
    comps = ['scheme', 'authority', 'path', 'query', 'fragment']
    out = []
    for _ in range(n):
        i = g.r.randrange(0, 4); j = g.r.randrange(i + 1, 5)
        base = {'scheme': g.pick(['s', 'http']), 'authority': g.pick(['h', 'u@h:80', None]), 'path': g.pick(['/p', '/p/q', '']), 'query': g.pick([None, 'q']), 'fragment': g.pick([None, 'f'])}
        if base['authority'] is None and base['path'] == '': base['path'] = '/p'
        p = dict(base); q = dict(base)
        lo, hi = dict(LOW), dict(HIGH)
        if g.r.random() < 0.5:      # absent vs present instead of small vs large
            k = g.pick([comps[i], comps[j]])
            if k in ('authority', 'query', 'fragment'): lo[k] = None
        if g.r.random() < 0.3: lo['path'], hi['path'] = '/a/z', '/b'
        p[comps[i]], q[comps[i]] = lo[comps[i]], hi[comps[i]]
        p[comps[j]], q[comps[j]] = hi[comps[j]], lo[comps[j]]
        ok = True
        for r in (p, q):
            if r['authority'] is None and r['path'].startswith('//'): ok = False
            if r['authority'] is not None and r['path'] and not r['path'].startswith('/'): ok = False
        if ok:
            out.append((p, q) if g.r.random() < 0.5 else (q, p))
    return out
