#!/usr/bin/env python3
"""C12: segment iteration (any interleaving of next/next_back) and the path queries agree with the '/'-split."""
import os, sys, json, random, itertools
sys.path.insert(0, os.path.dirname(os.path.abspath(__file__)))
from vlib import *
from gen import Gen, paths_upto

def seg_ranges(b):
    """ranges of the '/'-separated pieces after the optional leading '/'; none for "" and "/" """
    if b in (b'', b'/'):
        return []
    off = 1 if b.startswith(b'/') else 0
    out = []; i = off
    while True:
        j = b.find(b'/', i)
        if j < 0:
            out.append((i, len(b))); break
        out.append((i, j)); i = j + 1
    return out

def norm(ab, segs):
    st = []
    for s in segs:
        if s == b'.':
            continue
        if s == b'..':
            if st and st[-1] != b'..':
                st.pop()
            elif not ab:
                st.append(s)
        else:
            st.append(s)
    return st

def fmt(r):
    return '~' if r is None else '%d:%d' % r

def text_of(b, tok):
    """bytes denoted by a harness token: range, constant (!hex) or None (~)"""
    if tok == '~':
        return None
    if tok.startswith('!'):
        return unhex(tok[1:])
    lo, hi = tok.split(':')
    return b[int(lo):int(hi)]

def oracle(b, script, f):
    """returns list of problems of the implementation output fields f"""
    rs = seg_ranges(b); n = len(rs); segs = [b[lo:hi] for lo, hi in rs]
    ab = b.startswith(b'/')
    k = m = 0; want = []
    for c in script:
        if k + m < n:
            if c == 'f':
                want.append(fmt(rs[k])); k += 1
            else:
                want.append(fmt(rs[n - m - 1])); m += 1
        else:
            want.append('~')
    pr = []
    items = f[0].split(',') if f[0] else []
    if items != want:
        pr.append('interleaved iteration gives %s, the split gives %s' % (items, want))
    if f[1] != ('1' if n == 0 else '0'): pr.append('is_empty')
    if f[2] != ('1' if ab else '0'): pr.append('is_absolute')
    if f[3] != str(n): pr.append('segment_count %s != %d' % (f[3], n))
    if f[4] != (fmt(rs[0]) if n else '~'): pr.append('first')
    if f[5] != (fmt(rs[-1]) if n else '~'): pr.append('last')
    if f[6] != (fmt(rs[-1]) if n and rs[-1][0] != rs[-1][1] else '~'): pr.append('file_name')
    # directory: the text up to and including the last '/', the empty path when there is none
    d = text_of(b, f[7]); j = b.rfind(b'/')
    if d != b[:j + 1]: pr.append('directory %r' % d)
    # parent: the path without its last segment (same absoluteness; '.' only as a shield)
    par = text_of(b, f[8]); poe = text_of(b, f[9])
    def sem(t):
        return (t.startswith(b'/'), [t[lo:hi] for lo, hi in seg_ranges(t) if t[lo:hi] != b'.'])
    if n == 0:
        if par is not None: pr.append('parent of an empty path')
        if poe != (b'/' if ab else b''): pr.append('parent_or_empty of an empty path')
    else:
        target = (ab, segs[:-1])
        if par is None:
            if not (n == 1 and not ab): pr.append('parent missing')
        elif (par.startswith(b'/'), [s for s in [par[lo:hi] for lo, hi in seg_ranges(par)] if s != b'.']) != (ab, [s for s in segs[:-1] if s != b'.']):
            pr.append('parent %r is not the path without its last segment' % par)
        if poe != (par if par is not None else b''): pr.append('parent_or_empty inconsistent with parent')
    # f[10] = allocation count (C20); f[11] = normalized_segments().len(); f[12] = the normalized segments
    ns = norm(ab, segs)
    if f[11] != str(len(ns)): pr.append('normalized_segments().len() = %s, the normalised sequence has %d' % (f[11], len(ns)))
    got_ns = [text_of(b, t) for t in f[12].split(',')] if f[12] else []
    if got_ns != ns: pr.append('normalized_segments')
    allf = f[13].split(',') if f[13] else []
    if allf != [fmt(r) for r in rs]: pr.append('forward iteration is not the split')
    rev = f[14].split(',') if len(f) > 14 and f[14] else []
    if rev != [fmt(r) for r in reversed(rs)]: pr.append('backward iteration is not the reversed split')
    if allf and b''.join([b'/' if ab else b''] + [b'/'.join(text_of(b, t) for t in allf)]) != b: pr.append('joining the segments does not reproduce the path')
    return pr

def main():
    R = Result('C12', 'proof')
    rnd = random.Random(R.seed)
    thorough = R.tier == 'thorough'
    R.assumptions = ['Coq kernel', 'hand-written model coq/Iter.v, PathQ.v of common/path.rs, tied to the code by this run', 'extraction + ocamlopt', 'Rust harness']
    props_check(R, 'C12')
    st = setup_check(R)
    if st is None:
        return R.finish()
    cdir, harness, model = st
    cases = []
    for fam in ('uri', 'iri'):
        g = Gen(random.Random(rnd.random()), fam)
        for _ in range(100000 if thorough else 3000):
            p = g.anypath().encode()
            n = len(seg_ranges(p))
            for _ in range(3):
                script = ''.join(g.pick('fb') for _ in range(min(n, 24) + 2))
                cases.append((fam, p, script))
    alpha = ('', 'a', '.', '..') if not thorough else ('', 'a', '.', '..', 'b:c')
    nmax = 4 if not thorough else 5
    for ab in (False, True):
        for p in paths_upto(alpha, nmax, ab):
            if not ab and (p.startswith('/') ):
                continue
            n = len(seg_ranges(p.encode()))
            scripts = [''.join(s) for s in itertools.product('fb', repeat=n + 1)] if n <= (4 if not thorough else 6) else ['f' * (n + 1), 'b' * (n + 1)]
            for s in scripts:
                cases.append(('uri', p.encode(), s))
    lines = ['path\t%s\t%s\t%s' % (fam, hexs(p), s) for fam, p, s in cases]
    impl = run_lines(harness, lines)
    mod = run_lines(model, lines)
    nviol = 0; diffs = 0; classes = set()
    for (fam, p, script), line, io, mo in zip(cases, lines, impl, mod):
        rs = seg_ranges(p)
        classes.add((fam, p.startswith(b'/'), min(len(rs), 8), any(a == b for a, b in rs[:-1]), bool(rs) and rs[-1][0] == rs[-1][1], bool(rs) and rs[0][0] == rs[0][1],
                     script[:3], any(c > 127 for c in p)))
        f = io.split('\t')
        if io in ('PANIC', 'ERR') or len(f) < 14:
            pr = ['panic or valid path rejected: ' + io]
        else:
            pr = oracle(p, script, f)
        if pr and nviol < 300:
            nviol += 1
            R.violation({'kind': 'segment iteration / path queries disagree with the /-split of the text', 'family': fam, 'path': p.decode('utf-8', 'replace'),
                         'script(f=next,b=next_back)': script, 'problems': pr, 'implementation': io, 'model': mo,
                         'replay': "printf '%s\\n' | %s" % (line.replace('\t', '\\t'), harness)}, no_input=False)
        if io != 'ERR':
            mf = mo.split('\t')
            if len(f) < 14 or len(mf) < 14 or f[:10] + f[11:15] != mf[:10] + mf[10:14]:
                diffs += 1
                if diffs <= 5:
                    R.extra.setdefault('correspondence_diffs', []).append({'case': line, 'path': p.decode('utf-8', 'replace'), 'impl': io, 'model': mo})
    if diffs and not R.violations:
        R.violation({'kind': 'correspondence broken: model coq/Iter.v/PathQ.v and the implementation disagree, but every implementation output satisfied the oracle',
                     'first': R.extra.get('correspondence_diffs', [])[:3]}, no_input=True)
    R.cov['evaluations'] = len(cases)
    R.cov['distinct_nontrivial'] = len(classes)
    R.cov['rule'] = ('paths of all five RFC forms (leading/trailing/consecutive empty segments, dot, colon, multi-byte, >16 segments) with random next/next_back scripts of '
                     'length n+2, plus all scripts of length n+1 on all paths of <= %d segments over %s; distinct_nontrivial = distinct (family, absolute, #segments, inner empty, '
                     'trailing empty, leading empty, script prefix, non-ASCII)' % (nmax, list(alpha)))
    R.cov['samples'] = [{'family': c[0], 'path': c[1].decode('utf-8', 'replace'), 'script': c[2], 'impl': io} for c, io in list(zip(cases, impl))[::max(1, len(cases) // 8)]][:8]
    R.cov['trusted_base'] = R.assumptions
    R.extra.update({'model_vs_impl_differences': diffs, 'tree': os.path.basename(cdir)})
    return R.finish()

if __name__ == '__main__':
    sys.exit(main())
