#!/usr/bin/env python3
"""coqchk_record.py: re-checks every certificate module with coqchk (in parallel; 5-25 minutes each) and writes the
content-addressed record /verif/coqchk_certs.json that the thorough tier reuses (see vlib.coqchk_certs).
Run after any change to these modules or their dependencies."""
import os, sys, json, re, time, subprocess
from concurrent.futures import ThreadPoolExecutor
sys.path.insert(0, os.path.dirname(os.path.abspath(__file__)))
from vlib import *

def one(m):
    k = cert_key([m]); t0 = time.time()
    p = subprocess.run(['coqchk', '-o', '-silent', '-Q', COQ, 'V', 'V.' + m], cwd=COQ, capture_output=True, text=True)
    txt = p.stdout + p.stderr
    cl = bool(p.returncode == 0 and re.search(r'Axioms:\s*<none>', txt) and re.search(r'type-in-type:\s*<none>', txt)
              and re.search(r'unsafe \(co\)fixpoints:\s*<none>', txt) and re.search(r'positivity is assumed:\s*<none>', txt))
    return m, {'key': k, 'clean': cl, 'seconds': round(time.time() - t0), 'tail': txt[-700:]}

if __name__ == '__main__':
    mods = sys.argv[1:] or CERT_MODULES       # with arguments: only these modules are re-checked, the rest of the record is kept
    ok, log = coq_build([m + '.vo' for m in mods])
    if not ok:
        print(log[-2000:]); sys.exit(2)
    rec = json.load(open(CERT_RECORD)) if (sys.argv[1:] and os.path.exists(CERT_RECORD)) else {}
    with ThreadPoolExecutor(max_workers=10) as ex:
        rec.update(dict(ex.map(one, mods)))
    json.dump(rec, open(CERT_RECORD, 'w'), indent=1, sort_keys=True)
    for m, r in rec.items():
        print(m, r['clean'], r['seconds'], 's')
