#!/usr/bin/env python3
"""C06: reference resolution implements RFC 3986 section 5.2 (with Errata 4547)."""
import os, sys, json, random, itertools
sys.path.insert(0, os.path.dirname(os.path.abspath(__file__)))
from vlib import *
from gen import Gen, paths_upto
import spec
from spec import segs

def k_r2(base, ref):
    """class K_R2 = exactly the complement of the hypotheses of theorem C06_resolution_is_rfc_partial: an empty segment that is not the last one
    in the reference path, or -- in the merge branch -- in the base path"""
    B = spec.parse(base); Rf = spec.parse(ref)
    def inner_empty(p):
        s = segs(p)
        return any(x == b'' for x in s[:-1])
    if inner_empty(Rf[2]):
        return True
    if Rf[0] is None and Rf[1] is None and Rf[2] != b'' and not Rf[2].startswith(b'/'):
        return inner_empty(B[2])
    return False

def main():
    R = Result('C06', 'proof')
    rnd = random.Random(R.seed)
    thorough = R.tier == 'thorough'
    R.assumptions = ['Coq kernel', 'hand-written model coq/Reference.v (resolve, remove_dot_segments) composed from the modelled setters and path handle, tied to the code by this run',
                     'independent Python transcription of RFC 3986 5.2.2-5.2.4, 5.3 (tools/spec.py) as the oracle, evaluated on EVERY implementation output',
                     'interpretations I1, I8 of DESIGN.md section 8', 'extraction + ocamlopt', 'Rust harness']
    props_check(R, 'C06')
    st = setup_check(R)
    if st is None:
        return R.finish()
    cdir, harness, model = st
    known_listed = {k['id']: k for k in known_findings('C06')}
    cases = []
    SEGS = ['', '.', '..', 'a', 'b:c', 'g', 'x', '%2e']
    n = 150000 if thorough else 5000
    for fam in ('uri', 'iri'):
        g = Gen(random.Random(rnd.random()), fam)
        for i in range(n // 2):
            base = g.parts(scheme=True)
            if g.r.random() < 0.7:
                sl = [g.pick(SEGS) for _ in range(g.pick([0, 1, 2, 3, 4]))]
                bp = ('/' if base['authority'] is not None or g.r.random() < 0.6 else '') + '/'.join(sl)
                if base['authority'] is None and bp.startswith('//'): bp = '/.' + bp
                if base['authority'] is not None and g.r.random() < 0.15: bp = ''
                base['path'] = bp
            r = g.parts()
            br = g.r.random()
            if br < 0.75:
                r['scheme'] = None if br < 0.65 else r['scheme']
                if br < 0.55: r['authority'] = None
                sl = [g.pick(SEGS) for _ in range(g.pick([0, 1, 1, 2, 3, 4]))]
                rp = ('/' if r['authority'] is not None or g.r.random() < 0.3 else '') + '/'.join(sl)
                if r['authority'] is None and rp.startswith('//'): rp = '/.' + rp
                if r['authority'] is None and r['scheme'] is None and ':' in rp.split('/')[0]: rp = './' + rp
                if r['authority'] is None and not rp.startswith('/') and rp != '' and rp.split('/')[0] == '': rp = './' + rp
                if r['authority'] is not None and rp and not rp.startswith('/'): rp = '/' + rp
                r['path'] = rp
            cases.append((fam, Gen.compose(base).encode(), Gen.compose(r).encode()))
    # RFC 3986 5.4 examples
    rfc = ['g:h', 'g', './g', 'g/', '/g', '//g', '?y', 'g?y', '#s', 'g#s', 'g?y#s', ';x', 'g;x', 'g;x?y#s', '', '.', './', '..', '../', '../g', '../..', '../../', '../../g',
           '../../../g', '../../../../g', '/./g', '/../g', 'g.', '.g', 'g..', '..g', './../g', './g/.', 'g/./h', 'g/../h', 'g;x=1/./y', 'g;x=1/../y', 'g?y/./x', 'g?y/../x', 'g#s/./x', 'g#s/../x']
    for r in rfc:
        for b in ('http://a/b/c/d;p?q', 'http://a', 'http://a/', 's:/a/b', 's:a/b', 's:'):
            cases.append(('uri', b.encode(), r.encode())); cases.append(('iri', b.encode(), r.encode()))
    alpha = ('', '.', '..', 'a') if not thorough else ('', '.', '..', 'a', 'b:c')
    bases = [b for b in ['s:', 's:/', 's:a', 's:/a/b', 's:a/b/', 's://h', 's://h/', 's://h/a/b', 's://h/a/', 's:/a/../b', 's://h/./a//b'] ]
    refs = []
    for ab in (False, True):
        for p in paths_upto(alpha, 3 if not thorough else 4, ab):
            if not ab and (p.startswith('/') or ':' in p.split('/')[0] or (p != '' and p.split('/')[0] == '')): continue
            if ab and p.startswith('//'): continue
            refs += [p, p + '?q', 'g:' + p] + (['//k' + p] if ab or p == '' else [])
    for b in bases:
        for r in refs:
            cases.append(('uri', b.encode(), r.encode()))
    lines = ['resolve\t%s\t%s\t%s' % (fam, hexs(b), hexs(r)) for fam, b, r in cases]
    impl = run_lines(harness, lines)
    mod = run_lines(model, lines)
    # URI/IRI agreement on ASCII input
    other = {}
    asc = [(i, c) for i, c in enumerate(cases) if all(x < 128 for x in c[1] + c[2])]
    olines = ['resolve\t%s\t%s\t%s' % ('iri' if c[0] == 'uri' else 'uri', hexs(c[1]), hexs(c[2])) for _, c in asc[:4000]]
    for (i, c), o in zip(asc[:4000], run_lines(harness, olines)):
        other[i] = o
    nviol = 0; diffs = 0; classes = set(); known_seen = {}; branch_hist = {}
    for idx, ((fam, b, r), line, io, mo) in enumerate(zip(cases, lines, impl, mod)):
        if io.startswith('ERR'):
            continue
        pr = []; kn = None
        f = io.split('\t')
        Rf = spec.parse(r)
        branch = 'scheme' if Rf[0] is not None else 'authority' if Rf[1] is not None else 'empty' if Rf[2] == b'' else 'absolute' if Rf[2].startswith(b'/') else 'merge'
        branch_hist[branch] = branch_hist.get(branch, 0) + 1
        if 'PANIC' in f[:3]:
            pr.append('resolution panicked')
        else:
            out = unhex(f[0])
            if f[1] != f[0] or f[2] != f[0]:
                pr.append('entry points disagree: resolved=%r resolve=%r into_resolved=%r' % (out, unhex(f[1]), unhex(f[2])))
            if f[3] != '1': pr.append('result %r is not a valid %s' % (out, fam.upper()))
            if f[4] != '1' or f[5] != '1': pr.append('base or reference was modified')
            if spec.parse(out)[0] is None: pr.append('result has no scheme')
            ok, target = spec.resolve_ok(b, r, out)
            if not ok:
                if k_r2(b, r):
                    kn = 'K_R2'
                else:
                    pr.append('result %r, RFC 3986 5.2 target %r' % (out, target))
            if idx in other and other[idx].split('\t')[0] != f[0]:
                pr.append('URI and IRI families disagree on ASCII input: %r vs %r' % (out, unhex(other[idx].split('\t')[0])))
        classes.add((fam, branch, spec.parse(b)[1] is None, spec.parse(b)[2] == b'', tuple(sorted(set(x for x in segs(Rf[2]) if x in (b'', b'.', b'..')))), Rf[3] is None))
        if kn and not pr and f[1] != mo:
            pr.append('deviates from RFC 3986 5.2 inside the recorded class %s, but NOT in the recorded way: result %r, recorded behaviour (model) %r, RFC target %r' % (kn, unhex(f[0]) if f[0] != 'PANIC' else f[0], unhex(mo) if mo not in ('PANIC', 'ERR') else mo, target))
        if kn and not pr:
            known_seen[kn] = known_seen.get(kn, 0) + 1
            if kn in known_listed:
                R.known_finding(known_listed[kn]['what'])
            else:
                pr.append('deviation of class %s which is not listed in known_findings.json' % kn)
        if pr:
            nviol += 1
            if nviol <= 300:
                R.violation({'kind': 'reference resolution deviates from RFC 3986 section 5.2', 'family': fam, 'base': b.decode('utf-8', 'replace'), 'reference': r.decode('utf-8', 'replace'),
                             'branch': branch, 'problems': pr[:4], 'implementation': io[:600], 'model': mo[:300], 'replay': "printf '%s\\n' | %s" % (line.replace('\t', '\\t'), harness)}, no_input=False)
        if (f + [''])[1] != mo:
            diffs += 1
            if diffs <= 5:
                R.extra.setdefault('correspondence_diffs', []).append({'case': line, 'base': b.decode('utf-8', 'replace'), 'reference': r.decode('utf-8', 'replace'), 'impl': io[:400], 'model': mo[:400]})
    if diffs and not R.violations:
        R.violation({'kind': 'correspondence broken: the resolve model and the implementation disagree, but every implementation output satisfied the RFC oracle',
                     'first': R.extra.get('correspondence_diffs', [])[:3]}, no_input=True)
    R.cov['evaluations'] = len(cases)
    R.cov['distinct_nontrivial'] = len(classes)
    R.cov['rule'] = ('pairs (base, reference): bases with/without authority, empty/absolute/rootless paths with dot and empty segments; references of every 5.2.2 branch with mixtures of '
                     '".", "..", empty and ordinary segments, queries, fragments; the RFC 5.4 vectors against six bases; an exhaustive block of all reference paths of <= 3 segments over '
                     '{"",".","..",a} x 11 bases; both families, three entry points; distinct_nontrivial = distinct (family, branch, base authority?, base path empty?, special segments in the reference, query?)')
    R.cov['samples'] = [{'base': c[1].decode('utf-8', 'replace'), 'reference': c[2].decode('utf-8', 'replace'), 'resolved': (unhex(io.split('\t')[0]).decode('utf-8', 'replace') if 'PANIC' not in io and not io.startswith('ERR') else io)}
                        for c, io in list(zip(cases, impl))[::max(1, len(cases) // 8)]][:8]
    R.cov['trusted_base'] = R.assumptions
    R.extra.update({'model_vs_impl_differences': diffs, 'known_classes_seen': known_seen, 'branches': branch_hist, 'tree': os.path.basename(cdir)})
    return R.finish()

if __name__ == '__main__':
    sys.exit(main())
