#!/usr/bin/env python3
"""Prototype translator: macro-expanded iref-core -> Coq DFA tables (one per validated type)."""
import re, sys
src = open(sys.argv[1], encoding='utf-8').read()
outdir = sys.argv[2]
LIT = r"(?:'(?:\\u\{[0-9a-fA-F]+\}|\\.|[^\\'])'|\d+u8)"
def lit_val(t):
    if t.endswith('u8'): return int(t[:-2])
    body = t[1:-1]
    if body.startswith('\\u{'): return int(body[3:-1], 16)
    if body.startswith('\\'):
        return {'n': 10, 't': 9, 'r': 13, '0': 0, '\\': 92, "'": 39, '"': 34}[body[1]]
    assert len(body) == 1, t
    return ord(body)
def parse_pat(p):
    # alternatives of literal or literal..=literal
    ranges = []
    pos = 0
    tok = re.compile(r"\s*(" + LIT + r")(?:\s*\.\.=\s*(" + LIT + r"))?\s*(\||$)")
    while pos < len(p):
        m = tok.match(p, pos)
        assert m, ('bad pattern', p[pos:pos+40])
        lo = lit_val(m.group(1)); hi = lit_val(m.group(2)) if m.group(2) else lo
        ranges.append((lo, hi)); pos = m.end()
    return ranges
def find_matching(s, i, open_ch, close_ch):
    depth = 0
    in_chr = False
    j = i
    while j < len(s):
        ch = s[j]
        if ch == "'" :
            m = re.match(LIT, s[j:])
            if m and not m.group(0).endswith('u8'):
                j += len(m.group(0)); continue
        if ch == open_ch: depth += 1
        elif ch == close_ch:
            depth -= 1
            if depth == 0: return j
        j += 1
    raise ValueError('unbalanced')
dfas = {}
for m in re.finditer(r'#\[doc =\s*"Checks that the input iterator produces a valid ([^"]+)"\]', src):
    name = m.group(1)
    fn = src.index('pub fn validate', m.end())
    tokty = re.search(r'Item = (\w+)', src[fn:fn+200]).group(1)
    init = int(re.search(r'let mut state = (\d+)u32;', src[fn:fn+400]).group(1))
    ms = src.index('match state', fn)
    ob = src.index('{', ms); cb = find_matching(src, ob, '{', '}')
    body = src[ob+1:cb]
    states = {}
    pos = 0
    for sm in re.finditer(r'(\d+)u32 =>\s*match input\.next\(\)\s*\{', body):
        q = int(sm.group(1))
        ob2 = sm.end() - 1; cb2 = find_matching(body, ob2, '{', '}')
        arms_src = body[ob2+1:cb2]
        arms = []; final = None; default_seen = False
        # split arms at top-level "=> target," boundaries
        for am in re.finditer(r'(Some\((?P<pat>.*?)\)|None)\s*=>\s*(?P<rhs>\d+u32|break (?:true|false))\s*,', arms_src, re.S):
            if am.group(1) == 'None':
                final = am.group('rhs') == 'break true'
            else:
                pat = am.group('pat').strip()
                if pat == '_':
                    assert am.group('rhs') == 'break false'; default_seen = True
                else:
                    assert not default_seen
                    rhs = am.group('rhs'); assert rhs.endswith('u32'), rhs
                    arms.append((parse_pat(pat), int(rhs[:-3])))
        assert final is not None and default_seen, (name, q)
        if tokty == 'char':
            # a Rust `char` is a Unicode scalar value: a range pattern never matches D800..DFFF
            def split(rs):
                out = []
                for lo, hi in rs:
                    assert hi <= 0x10FFFF
                    if lo <= 0xD7FF and hi >= 0xE000: out += [(lo, 0xD7FF), (0xE000, hi)]
                    else:
                        assert not (0xD800 <= lo <= 0xDFFF or 0xD800 <= hi <= 0xDFFF); out.append((lo, hi))
                return out
            arms = [(split(rs), t) for rs, t in arms]
        else:
            assert all(hi <= 255 for rs, t in arms for lo, hi in rs)
        states[q] = (final, arms)
    assert sorted(states) == list(range(len(states))), name
    dfas[name] = (tokty, init, [states[i] for i in range(len(states))])
def coq_cls(rs): return '[' + '; '.join(f'({lo},{hi})' for lo, hi in rs) + ']'
ident = lambda n: re.sub(r'\W+', '_', n.strip()).lower()
with open(f'{outdir}/GenDfa.v', 'w') as f:
    f.write('From Coq Require Import List NArith.\nImport ListNotations.\nRequire Import V.Regex V.Bisim.\nOpen Scope N_scope.\n')
    for name, (tokty, init, sts) in dfas.items():
        f.write(f'\n(* {name}: tokens {tokty}, {len(sts)} states *)\nDefinition dfa_{ident(name)} : dfa := {{| d_init := {init}; d_states := [\n')
        rows = []
        for final, arms in sts:
            rows.append('  (' + ('true' if final else 'false') + ', [' + '; '.join(f'({coq_cls(rs)}, {t})' for rs, t in arms) + '])')
        f.write(';\n'.join(rows) + '] |}.\n')
import json
with open(f'{outdir}/dfa.json', 'w') as f:
    json.dump({ident(n): {'name': n, 'tok': t, 'init': i, 'states': [[fin, [[rs, tgt] for rs, tgt in arms]] for fin, arms in s]} for n, (t, i, s) in dfas.items()}, f)
print({n: (t, len(s)) for n, (t, i, s) in dfas.items()})
